//go:build verif

package server

// Harness-side readers of the append-only log files (shared).

import (
	"os"
	"path/filepath"
	"sort"
	"strings"

	"github.com/snower/slock/protocol"
)

// vfAofHasAckLock: does any append/rewrite file in dir contain a LOCK record
// with the require-ack flag for (db, key, lockId)?
func vfAofHasAckLock(dir string, db uint8, key, lockId [16]byte) (bool, int) {
	names, _ := filepath.Glob(filepath.Join(dir, "*.aof*"))
	sort.Strings(names)
	records := 0
	for _, n := range names {
		if strings.HasSuffix(n, ".dat") {
			continue
		}
		b, err := os.ReadFile(n)
		if err != nil || len(b) < 12 {
			continue
		}
		for off := 12; off+64 <= len(b); off += 64 {
			r := b[off : off+64]
			records++
			if r[2] != protocol.COMMAND_LOCK || r[20] != db {
				continue
			}
			aofFlag := uint16(r[55]) | uint16(r[56])<<8
			if aofFlag&AOF_FLAG_REQUIRE_ACKED == 0 {
				continue
			}
			match := true
			for i := 0; i < 16; i++ {
				if r[21+i] != lockId[i] || r[37+i] != key[i] {
					match = false
					break
				}
			}
			if match {
				return true, records
			}
		}
	}
	return false, records
}

