//go:build verif

package server

// C03, text stage: a text connection has no RequestId on the wire - the reply a
// client reads is "the reply of the command it sent last". An asynchronous notice
// (EXPRIED of a hold the connection took earlier, a late reply of a finished
// request) must therefore never enter the reply stream, or every later command is
// answered by its predecessor's reply. The concurrent stage (E2) keeps text
// connections away from expiring holds (without a notice the client cannot tell
// when its hold ended), so this stage drives exactly that: text connections on a
// virtual clock that take holds with short expiries at PRNG positions of the
// connection's life (the very first command included), stay idle while the sweeper
// ends them, and go on. Oracle (over what the client reads, no timing):
//   - every reply is a lock-result array that echoes the LockId of the command just
//     sent (each command uses a LockId of its own);
//   - its result code is the one a sequential table of the connection's own holds
//     allows (keys are private to the connection);
//   - a TIMEOUT GET sent after each command is answered by an integer;
//   - after the holds have expired on the idle connection one more TIMEOUT GET is
//     answered by an integer (a notice that entered the stream would answer it).

import (
	"fmt"
	"strconv"

	"github.com/snower/slock/protocol"
)

const vfC03TextRule = "; text stage: case t = PRNG script splitmix(seed,'C03text',t) (300 quick / 6000 thorough) on a virtual clock: one or two text connections, 3-9 commands each (LOCK with 1-3 s expiry or 600 s, UNLOCK, idle ticks) on connection-private keys, every command with its own LockId; each reply must echo that LockId with the result code of the sequential table, each TIMEOUT GET barrier must be answered by an integer"

type vfC03TextHold struct {
	lid    string
	expire int64 // virtual second from which the hold may be gone (0 = long)
	sure   int64 // virtual second from which it is certainly gone
}

func vfC03TextStage(env *vfEnv, part *vfPart) {
	n := 300
	if env.Tier == "thorough" {
		n = 6000
	}
	for i := 0; i < n; i++ {
		vfC03TextCase(env, part, i)
	}
	part.Add("text_cases", int64(n))
}

func vfC03TextCase(env *vfEnv, part *vfPart, i int) {
	rng := vfCaseRand(env.Seed, "C03text", i)
	srv, err := vfStartNetServer(vfInstCfg{Dir: vfScratchDir(env, "c03text"), Manual: true, NDb: 1, DBConcurrent: uint(rng.Range(1, 2)), FastKeys: 4})
	if err != nil {
		part.Harness = append(part.Harness, "C03 text stage: cannot start server: "+err.Error())
		return
	}
	in := srv.in
	defer in.Close()
	var log []string
	reported := false
	violate := func(clause, format string, a ...interface{}) {
		if reported {
			return
		}
		reported = true
		d := fmt.Sprintf(format, a...)
		rp := vfWriteReplay(env, fmt.Sprintf("text-case%d.json", i), map[string]interface{}{"text_case": i, "seed": env.Seed, "log": log})
		part.Violate(vfViolation{Prop: "C03", Clause: "text/" + clause, Detail: d, Case: i, Replay: rp})
	}
	inconclusive := func(what string, err error) {
		part.Add("text_inconclusive", 1)
		if part.Counters["text_inconclusive"] <= 3 {
			part.Inconclusive = append(part.Inconclusive, fmt.Sprintf("C03 text case %d: %s: %v", i, what, err))
		}
	}
	nconn := rng.Range(1, 2)
	seq := 0
	for c := 0; c < nconn && !reported; c++ {
		tc := srv.dialText(fmt.Sprintf("t%d-%d", i, c))
		holds := map[int]*vfC03TextHold{} // key index -> hold of this connection
		steps := rng.Range(3, 9)
		ok := true
		for s := 0; s < steps && ok && !reported; s++ {
			k := rng.Intn(2)
			key := vfKey16(fmt.Sprintf("c03t-%d-%d-%d", i, c, k))
			h := holds[k]
			if h != nil && h.sure != 0 && in.now >= h.sure {
				delete(holds, k)
				h = nil
				part.Add("text_expired_while_idle", 1)
			}
			switch r := rng.Intn(100); {
			case r < 25:
				t := rng.Range(1, 4)
				log = append(log, fmt.Sprintf("conn%d: idle %d s", c, t))
				for ; t > 0; t-- {
					in.tick(1, rng)
				}
				continue
			case r < 75:
				seq++
				lid := vfKey16(fmt.Sprintf("c03t-lid-%d-%d", i, seq))
				e := 600
				if rng.Chance(70) {
					e = rng.Range(1, 3)
				}
				log = append(log, fmt.Sprintf("conn%d: LOCK k%d lid%d EXPRIED %d at %d", c, k, seq, e, in.now))
				v, err := tc.call("LOCK", fmt.Sprintf("%x", key[:]), "LOCK_ID", fmt.Sprintf("%x", lid[:]), "TIMEOUT", "0", "EXPRIED", strconv.Itoa(e))
				if err != nil {
					inconclusive("LOCK", err)
					ok = false
					break
				}
				log = append(log, "  -> "+vfTrunc(v.String(), 200))
				code, why := vfC03TextReply(v, lid)
				if why != "" {
					violate("reply-of-another-command", "connection %d: the reply to LOCK #%d (%s) is not the reply of this command (%s): %s", c, seq, log[len(log)-2], why, vfTrunc(v.String(), 300))
					break
				}
				part.Add("text_replies", 1)
				switch {
				case h == nil || (h.expire != 0 && in.now >= h.expire && code == protocol.RESULT_SUCCED):
					if code != protocol.RESULT_SUCCED {
						violate("result", "connection %d: LOCK #%d of a key nobody holds was answered %d", c, seq, code)
						break
					}
					nh := &vfC03TextHold{lid: fmt.Sprintf("%x", lid[:])}
					if e < 600 {
						// the sweeper ends the hold in the second e or e+1 after the grant
						nh.expire, nh.sure = in.now+int64(e), in.now+int64(e)+2
					}
					holds[k] = nh
					part.Mark("text_states", vfStrHash(fmt.Sprintf("grant/%d/%d/%d", s, e, len(holds))))
				default:
					if code == protocol.RESULT_SUCCED && (h.expire == 0 || in.now < h.expire) {
						violate("result", "connection %d: LOCK #%d was granted although %s holds the key (exclusive) until at least %d, now %d", c, seq, h.lid, h.expire, in.now)
					}
					part.Mark("text_states", vfStrHash(fmt.Sprintf("refused/%d/%d", s, code)))
				}
			default:
				seq++
				// UNLOCK with the holder's LockId when there is one (else a LockId that holds nothing)
				lid := vfKey16(fmt.Sprintf("c03t-lid-%d-%d", i, seq))
				lidHex := fmt.Sprintf("%x", lid[:])
				if h != nil {
					lidHex = h.lid
				}
				log = append(log, fmt.Sprintf("conn%d: UNLOCK k%d %s at %d", c, k, lidHex[:8], in.now))
				v, err := tc.call("UNLOCK", fmt.Sprintf("%x", key[:]), "LOCK_ID", lidHex)
				if err != nil {
					inconclusive("UNLOCK", err)
					ok = false
					break
				}
				log = append(log, "  -> "+vfTrunc(v.String(), 200))
				if v.Kind != '*' || len(v.Array) < 12 || v.Array[3].Str != lidHex {
					violate("reply-of-another-command", "connection %d: the reply to %s is not the reply of this command: %s", c, log[len(log)-2], vfTrunc(v.String(), 300))
					break
				}
				code, _ := strconv.Atoi(v.Array[0].Str)
				part.Add("text_replies", 1)
				if h != nil && (h.expire == 0 || in.now < h.expire) && uint8(code) != protocol.RESULT_SUCCED {
					violate("result", "connection %d: UNLOCK of the live hold %s was answered %d", c, h.lid, code)
				}
				if h == nil && uint8(code) == protocol.RESULT_SUCCED {
					violate("result", "connection %d: UNLOCK of a LockId that holds nothing was answered SUCCED", c)
				}
				delete(holds, k)
			}
			if reported || !ok {
				break
			}
			// barrier: the next command's reply must be its own
			b, err := tc.call("TIMEOUT", "GET", "0")
			if err != nil {
				inconclusive("barrier", err)
				ok = false
				break
			}
			if b.Kind != ':' {
				violate("stream-out-of-step", "connection %d: TIMEOUT GET after %s was answered %s", c, log[len(log)-2], vfTrunc(b.String(), 300))
			}
		}
		if ok && !reported {
			// let every short hold end while the connection is idle, then look for left-overs
			for t := 0; t < 5; t++ {
				in.tick(1, rng)
			}
			b, err := tc.call("TIMEOUT", "GET", "0")
			if err != nil {
				inconclusive("final barrier", err)
			} else if b.Kind != ':' {
				violate("stream-out-of-step", "connection %d: after the holds expired on the idle connection TIMEOUT GET was answered %s", c, vfTrunc(b.String(), 300))
			}
		}
		tc.close()
	}
}

// vfC03TextReply checks the shape of a lock result and the LockId it echoes.
func vfC03TextReply(v *vfRespValue, lid [16]byte) (uint8, string) {
	if v.Kind != '*' || len(v.Array) < 12 {
		return 0, "not a lock result array"
	}
	code, err := strconv.Atoi(v.Array[0].Str)
	if err != nil {
		return 0, "result code"
	}
	if v.Array[3].Str != fmt.Sprintf("%x", lid[:]) {
		return uint8(code), "echoes LockId " + v.Array[3].Str
	}
	return uint8(code), ""
}

func init() {
	vfCoreStages["C03"] = func(env *vfEnv, part *vfPart, spec *vfSpec) {
		vfC03TextStage(env, part)
		spec.Rule += vfC03TextRule
		spec.Floors = append(append([]string{}, spec.Floors...), "text_replies", "text_expired_while_idle")
	}
}
