//go:build verif

package server

// C07 - restart recovers exactly the persisted, still-live holds (engine E4).

import (
	"fmt"
	"os"
	"path/filepath"
	"strings"
	"testing"
	"time"

	"github.com/snower/slock/protocol"
)

var vfC07Assumptions = []string{
	"virtual clock that starts at the wall clock and only runs ahead of it; the fresh instance's databases are put on the virtual time of the restart before the log is loaded (the loader's wall-clock filter can then only skip holds already past their deadline)",
	"the restart is in-process: the stopped instance's log is flushed, its compactions have finished and its goroutines are ended before a fresh SLock is started on the same directory",
	"MUST (has to be held again) = hold whose every terms-setting request lacks the never-persist flag, that is clearly alive (deadline > restart time + 1 s or unlimited) and either was taken with the persist-immediately flag / under a zero persistence delay or is at least delay + 2 s old; holds with the percent-of-expiry flag, with mixed flags over re-locks, or within 1 s of their deadline may or may not be restored",
	"attached value: must equal one of the versions the key went through since its newest MUST hold was first seen (the log records carry the whole current value of the key)",
	"the workload that follows a restart uses a key space of its own, so that the holds the restart restored are only ended by time",
	"type-consistent value operations only; require-ack requests are not generated (C11)",
}

// vfRunC07Case: phase 1 on instance A, stop, restart as B (oracle), phase 2 on
// B, stop, restart as C (oracle over B's carried holds and phase 2's holds).
func vfRunC07Case(env *vfEnv, part *vfPart, caseNo int) {
	rng := vfCaseRand(env.Seed, "C07", caseNo)
	base := vfScratchDir(env, fmt.Sprintf("c07-%d", caseNo))
	defer os.RemoveAll(base)
	dirA := filepath.Join(base, "a")
	cfg := vfInstCfg{Manual: true, NDb: 3}
	cfg.DBConcurrent = uint([]int{1, 2, 2, 8}[rng.Intn(4)])
	// the loader replays different keys concurrently (one goroutine per AOF
	// channel); fast-key tables of 1-4 slots make every key collide there: this
	// is how the duplicate-manager race (findings/fastkey-race, fixed by 648ad35)
	// showed up, so the tiny tables stay in the configuration space
	cfg.FastKeys = uint([]int{1, 4, 256, 65536}[rng.Intn(4)])
	cfg.AofTime = uint([]int{0, 1, 1, 2, 3}[rng.Intn(5)])
	cfg.AofBuf = uint([]int{64, 128, 4096}[rng.Intn(3)])
	cfg.RewriteSize = uint([]int{12 + 64*6, 12 + 64*15, 12 + 64*40, 8 << 20}[rng.Intn(4)])
	stats0 := map[string]int64{}
	prof := vfE4Profile()
	// a third of the cases has no re-entrant re-locks / updates and a third no PIPELINE operations: every
	// clause on every key of such a case is judged without the attribution to the open findings about them
	if rng.Chance(33) {
		prof.NoRelock = true
		stats0["cases_without_relock_or_update"] = 1
	}
	if rng.Chance(33) {
		prof.NoPipeline = true
		stats0["cases_without_pipeline"] = 1
	}
	if os.Getenv("VERIF_E4_PLAIN") != "" {
		prof.NoRelock = true
	}
	if os.Getenv("VERIF_E4_NOPIPE") != "" {
		prof.NoPipeline = true
	}
	stats := stats0
	var findings []vfE4Finding
	doc := map[string]interface{}{"case": caseNo, "seed": env.Seed, "property": "C07",
		"config": fmt.Sprintf("shards=%d fastkeys=%d aoftime=%d aofbuf=%d rewritesize=%d", cfg.DBConcurrent, cfg.FastKeys, cfg.AofTime, cfg.AofBuf, cfg.RewriteSize)}

	trA := vfNewRewriteTracker()
	inA, err := vfStartAt(cfg, dirA, vfE4Epoch(), trA)
	if err != nil {
		panic("vf: cannot start leader: " + err.Error())
	}
	_ = vfLogCapture.Take()
	cur, curTr, curDir := inA, trA, dirA
	defer func() {
		if r := recover(); r != nil {
			cur.abandoned = true
			cur.Close()
			vfKeyEpoch = 0
			panic(r)
		}
	}()
	var carried *vfSnapshot // holds restored by the previous restart
	notReadmitted := map[string]bool{}
	relockedKeys := map[string]bool{} // keys (of any phase) with a re-locked / updated hold
	wakeEvery := []int{0, 2, 3}[rng.Intn(3)]
	nRestarts := 2
	if rng.Chance(25) {
		nRestarts = 3
	}
	hash := uint64(caseNo)
	for round := 0; round < nRestarts; round++ {
		ph := vfNewE4Phase(cur, rng, &prof, byte(round), curTr)
		if os.Getenv("VERIF_E4_DEBUG") != "" {
			dd := curDir
			ph.onAof = func(point int) {
				if point == VP_REWRITE_EXIT || point == VP_REWRITE_ENTER {
					vfDumpAofDir(dd, fmt.Sprintf("round %d at %s (virtual time %d)", round+1, vfPointNames[point], cur.now))
				}
			}
		}
		ph.run(rng.Range(prof.Steps[0], prof.Steps[1]))
		vfKeyEpoch = byte(round)
		for kid := range ph.relocked {
			relockedKeys[fmt.Sprintf("%d/%x", kid.Db, vfKeyBytes(kid.Db, kid.Key))] = true
		}
		for i := range ph.eng.opLog {
			if op := &ph.eng.opLog[i]; op.Kind == "lock" && op.Flag&protocol.LOCK_FLAG_UPDATE_WHEN_LOCKED != 0 {
				relockedKeys[fmt.Sprintf("%d/%x", op.Db, vfKeyBytes(op.Db, op.Key))] = true
			}
		}
		carriedSig := func(db uint8, key [16]byte) string {
			if relockedKeys[fmt.Sprintf("%d/%x", db, key)] {
				return "re-locked-or-updated-hold"
			}
			return ""
		}
		// stop at a quiescent point
		vfAofQuiesce(cur)
		ph.runCompactions()
		curTr.wait()
		before := vfSnapshotOf(cur)
		// outage of 0..3 virtual seconds, then a fresh instance on the same directory
		now := cur.now + int64(rng.Intn(4))
		exps := ph.expectations(before, cfg.AofTime, now)
		listing := vfDirListing(curDir)
		appendFiles := len(vfAppendIndexes(curDir))
		for pt := VP_AOF_FLUSH_MID; pt < VP_MAX; pt++ {
			if n := curTr.hits[pt]; n > 0 && vfPointNames[pt] != "" {
				stats["hit_"+vfPointNames[pt]] += n
			}
		}
		vfStop(cur, curTr)
		vfDumpAofDir(curDir, fmt.Sprintf("round %d stopped at %d, restart at %d", round+1, before.Now, now))
		logText := strings.Split(vfAofDirText(curDir, "log at the stop"), "\n")
		if os.Getenv("VERIF_E4_DEBUG") != "" {
			fmt.Printf("E4DEBUG before:\n%s", before.canon())
		}
		for _, e := range before.Errors {
			findings = append(findings, vfE4Finding{Clause: "structure", Detail: "structural inconsistency in the stopped instance: " + e})
		}
		// the directory as the stopped instance left it (kept when the restart violates)
		preImage := filepath.Join(base, fmt.Sprintf("pre-%d", round))
		_ = vfCopyDir(curDir, preImage)
		nextTr := vfNewRewriteTracker()
		nextTr.wakeEvery, nextTr.wakeDelay = wakeEvery, 2*time.Millisecond
		next, serr := vfStartAt(cfg, curDir, now, nextTr)
		stats["restarts"]++
		stats[fmt.Sprintf("restart_with_%d_append_files", vfMinInt(appendFiles, 4))]++
		if _, rerr := os.Stat(filepath.Join(curDir, "rewrite.aof")); rerr == nil {
			stats["restart_with_rewrite_file"]++
		}
		if serr != nil {
			findings = append(findings, vfE4Finding{Clause: "start-failed", Detail: fmt.Sprintf("restart %d failed: %v (directory: %s)", round+1, serr, listing)})
			cur = next
			curTr = nextTr
			break
		}
		vfAofQuiesce(next)
		nextTr.wait()
		restored := vfSnapshotOf(next)
		if os.Getenv("VERIF_E4_DEBUG") != "" {
			fmt.Printf("E4DEBUG restored:\n%s", restored.canon())
		}
		ph.logRecs = vfReadLogRecords(preImage)
		fs := vfCompareRestart(ph, before, exps, restored, byte(round), stats)
		// holds the loader could not re-admit because their key is held by more
		// holders than its smallest Count admits stay in the log and may come back
		// at a later restart, when other holders of the key have gone
		for _, bk := range before.Keys {
			depth, cmin := 0, 0x10000
			for _, bh := range bk.Holds {
				depth += int(bh.Depth)
				if int(bh.Count) < cmin {
					cmin = int(bh.Count)
				}
			}
			rk := restored.find(bk.Db, bk.Key)
			for _, bh := range bk.Holds {
				if rk == nil || rk.hold(bh.LockId) == nil {
					if depth-1 > cmin || ph.replayOrderRefuses(bk.Db, bk.Key, bh.LockId, now) {
						notReadmitted[fmt.Sprintf("%d/%x/%x", bk.Db, bk.Key, bh.LockId)] = true
					}
				}
			}
		}
		// holds carried over from the previous restart: still persisted, so they
		// must be held again unless they have (almost) reached their deadline
		if carried != nil {
			for _, ck := range carried.Keys {
				for _, ch := range ck.Holds {
					bk := before.find(ck.Db, ck.Key)
					var bh *vfSnapHold
					if bk != nil {
						bh = bk.hold(ch.LockId)
					}
					if bh == nil {
						continue // ended by time during the phase
					}
					if !(vfSnapUnlimited(bh) || bh.Deadline > now+vfDeadlineTolerance(bh.EFlag)) {
						continue
					}
					stats["carried_holds_expected"]++
					rk := restored.find(ck.Db, ck.Key)
					var rh *vfSnapHold
					if rk != nil {
						rh = rk.hold(ch.LockId)
					}
					if rh == nil {
						lostSig := carriedSig(ck.Db, ck.Key)
						if lostSig == "" && ph.replayOrderRefuses(ck.Db, ck.Key, ch.LockId, now) {
							// log-order manifestation of the admission finding (see vfpersist_test.go)
							lostSig = "key-held-by-more-than-its-smallest-count-admits"
							notReadmitted[fmt.Sprintf("%d/%x/%x", ck.Db, ck.Key, ch.LockId)] = true
						}
						fs = append(fs, vfE4Finding{Clause: "carried-hold-lost", Sig: lostSig, Detail: fmt.Sprintf("%s L%d was restored by restart %d and is still alive (deadline %d, restart at %d) but is not held after restart %d", vfSnapKeyName(ck), vfLockIdIndex(ch.LockId), round, bh.Deadline, now, round+1)})
						continue
					}
					tol := vfDeadlineTolerance(bh.EFlag)
					if rh.Depth != bh.Depth || rh.Count != bh.Count || rh.Rcount != bh.Rcount || (!vfSnapUnlimited(bh) && (rh.Deadline > bh.Deadline+tol || rh.Deadline < bh.Deadline-tol)) {
						fs = append(fs, vfE4Finding{Clause: "carried-hold-changed", Sig: carriedSig(ck.Db, ck.Key), Detail: fmt.Sprintf("%s L%d: before the stop depth/Count/Rcount/deadline %d/%d/%d/%d, after the restart %d/%d/%d/%d", vfSnapKeyName(ck), vfLockIdIndex(ch.LockId), bh.Depth, bh.Count, bh.Rcount, bh.Deadline, rh.Depth, rh.Count, rh.Rcount, rh.Deadline)})
					}
				}
			}
			// nothing of the earlier key spaces may appear that was not carried
			for _, rk := range restored.Keys {
				if rk.Key[2] == byte(round) {
					continue
				}
				bk := before.find(rk.Db, rk.Key)
				for _, rh := range rk.Holds {
					if bk == nil || bk.hold(rh.LockId) == nil {
						sig := ""
						if notReadmitted[fmt.Sprintf("%d/%x/%x", rk.Db, rk.Key, rh.LockId)] {
							sig = "key-held-by-more-than-its-smallest-count-admits"
						}
						if cs := carriedSig(rk.Db, rk.Key); cs != "" {
							sig = cs
						}
						fs = append(fs, vfE4Finding{Clause: "restored-not-held", Sig: sig, Detail: fmt.Sprintf("%s L%d is held after restart %d but was not held when the instance stopped", vfSnapKeyName(rk), vfLockIdIndex(rh.LockId), round+1)})
					}
				}
			}
		}
		if len(fs) > 0 && preImage != "" {
			_ = vfCopyDir(preImage, filepath.Join(env.Replays, fmt.Sprintf("case%d-round%d-dir", caseNo, round+1)))
		}
		_ = os.RemoveAll(preImage)
		if len(fs) > 0 {
			doc[fmt.Sprintf("round%d", round+1)] = map[string]interface{}{
				"script": ph.eng.scriptDoc(caseNo, env.Seed, nil), "stopped_at": before.Now, "restart_at": now,
				"before": before.canon(), "restored": restored.canon(), "directory": listing, "log": logText}
		}
		findings = append(findings, fs...)
		hash = vfMix(hash ^ vfStrHash(restored.canon()) ^ uint64(len(ph.eng.events)))
		for k, v := range ph.stats {
			stats[k] += v
		}
		stats["ops"] += int64(len(ph.eng.opLog))
		stats["holds_at_stop"] += int64(before.holdCount())
		carried = restored
		cur, curTr = next, nextTr
	}
	vfStop(cur, curTr)
	vfKeyEpoch = 0
	for _, l := range vfLogCapture.Take() {
		stats["server_error_log_lines"]++
		_ = l
	}
	for k, v := range stats {
		part.Add(k, v)
	}
	part.Mark("restored_states", hash)
	if stats["must_holds_compared"] > 0 && stats["restored_holds"] > 0 {
		part.Mark("nontrivial", hash)
	}
	part.Sample(3, map[string]interface{}{"case": caseNo, "config": doc["config"], "restarts": stats["restarts"], "must_holds": stats["must_holds"], "restored_holds": stats["restored_holds"], "values_compared": stats["values_compared"]})
	wrote := ""
	for _, f := range findings {
		if wrote == "" {
			fl := []string{}
			for _, g := range findings {
				fl = append(fl, g.Clause+": "+g.Detail)
			}
			doc["findings"] = fl
			wrote = vfWriteReplay(env, fmt.Sprintf("case%d.json", caseNo), doc)
		}
		part.Violate(vfViolation{Prop: "C07", Clause: f.Clause, Detail: f.Detail, Case: caseNo, Replay: wrote, Sig: f.Sig})
	}
}

func vfSnapUnlimited(h *vfSnapHold) bool {
	return h.EFlag&protocol.EXPRIED_FLAG_UNLIMITED_EXPRIED_TIME != 0
}

func vfMinInt(a, b int) int {
	if a < b {
		return a
	}
	return b
}

func TestVerif_C07(t *testing.T) {
	start := time.Now()
	vfContinueAfterPanic = true
	env := vfGetEnv("C07")
	n := env.N(600, 30000)
	part := vfRunSharded(t, env, "TestVerif_C07", n, vfNumCPU(), func(part *vfPart, i int) { vfRunC07Case(env, part, i) })
	if part == nil {
		return
	}
	spec := &vfSpec{Prop: "C07", Level: "exploration",
		Rule:        "case i = PRNG history splitmix(seed,'C07',i): 30-110 core-subset operations with value operations and persistence flags over 2 databases, PRNG configuration (shards 1-8, persistence delay 0-3 s, aof buffer 64-4096, rotation threshold 6 records..8 MiB), stopped at a quiescent point, restarted on the same directory after an outage of 0-3 virtual seconds; a second (25%: third) workload in a fresh key space and restart follow; non-trivial = at least one hold that counts as persisted was compared field by field after a restart; distinct = hash of the restored snapshots",
		NontrivSet:  "nontrivial",
		Assumptions: vfC07Assumptions,
		Floors:      []string{"restarts", "must_holds_compared", "values_compared", "never_persist_holds", "carried_holds_expected", "restart_with_rewrite_file", "hit_REWRITE_RENAMED"}}
	vfFinish(t, env, spec, part, start)
}
