//go:build verif

package server

// C08 - a crash at any byte of the log recovers a clean record prefix (engine
// E4, fault enumeration over crash images).
//
// Oracle (metamorphic, the server's own loader is the reference replayer): the
// state recovered from a cut image must equal the state recovered from the
// image of SOME whole-record prefix of the same file that lies before the cut;
// the start must succeed; and what is persisted after that restart must be
// recovered by the following one (C07 oracle on a second workload).

import (
	"fmt"
	"os"
	"path/filepath"
	"sort"
	"strings"
	"testing"
	"time"

	"github.com/snower/slock/protocol"
)

var vfC08Assumptions = []string{
	"a crash is modelled by cutting the newest append file and its value file: the record file at any byte (header bytes 0..11, every residue 1..63 of a torn record, record boundaries), the value file at any length that a crash between the two writes of AofFile.Flush can leave (records reach the file before their values: complete records whose value is missing or partial, never a value without its record)",
	"metamorphic oracle: the reference states are the states the same loader recovers from the whole-record prefixes of the file (value file cut at the matching boundary); a defect that affects every prefix alike is C07's business, not C08's",
	"virtual clock one hour ahead of the wall clock (see C07); all images of a history are recovered at the same virtual time",
	"the second stage (workload after the restart, second restart) is run on a PRNG-chosen subset of the images of each history",
	"fast-key table large enough for the handful of keys (the loader replays keys concurrently, see findings/fastkey-race)",
}

type vfC08Image struct {
	FileSize, DatSize int
	Whole             int // whole records left in the record file
	Kind              string
}

func vfC08Images(rng *vfRand, g *vfAofGeom, fileLen int) []vfC08Image {
	var out []vfC08Image
	n := g.Records
	add := func(fs, ds, whole int, kind string) {
		if ds < 0 {
			ds = 0
		}
		if ds > g.DatSize {
			ds = g.DatSize
		}
		out = append(out, vfC08Image{fs, ds, whole, kind})
	}
	// header cuts
	for _, o := range []int{0, rng.Range(1, 11), rng.Range(1, 11)} {
		add(o, 0, 0, "header")
	}
	// torn records: every residue over the cases; here all residues of the last
	// record, a PRNG third of the residues of the two before it, and a few of
	// PRNG earlier records
	if n > 0 {
		for r := 1; r < 64; r++ {
			add(12+64*(n-1)+r, g.DatOff[n-1], n-1, "torn-last")
		}
		for back := 2; back <= 3 && n-back >= 0; back++ {
			k := n - back
			for r := 1; r < 64; r++ {
				if rng.Intn(3) == 0 {
					add(12+64*k+r, g.DatOff[k], k, "torn-recent")
				}
			}
		}
		for i := 0; i < 6; i++ {
			k := rng.Intn(n)
			add(12+64*k+rng.Range(1, 63), g.DatOff[k], k, "torn-earlier")
		}
	}
	// whole records whose values are missing or partial (crash between the
	// record write and the value write of one flush)
	for k := 0; k < n; k++ {
		if g.DatOff[k+1] == g.DatOff[k] {
			continue
		}
		if n-k > 6 && rng.Intn(4) != 0 {
			continue
		}
		lo, hi := g.DatOff[k], g.DatOff[k+1]
		upto := k + 1 + rng.Intn(3) // the flush had written this many records
		if upto > n {
			upto = n
		}
		add(12+64*upto, lo, upto, "value-missing")
		add(12+64*upto, lo+rng.Range(1, 3), upto, "value-length-torn")
		add(12+64*upto, rng.Range(lo+4, hi-1), upto, "value-body-torn")
		add(12+64*upto, hi-1, upto, "value-last-byte")
	}
	// record boundaries with the matching value boundary (must equal that prefix)
	for i := 0; i < 4 && n > 0; i++ {
		k := rng.Intn(n + 1)
		add(12+64*k, g.DatOff[k], k, "boundary")
	}
	return out
}

func vfRunC08Case(env *vfEnv, part *vfPart, caseNo int) {
	rng := vfCaseRand(env.Seed, "C08", caseNo)
	base := vfScratchDir(env, fmt.Sprintf("c08-%d", caseNo))
	defer os.RemoveAll(base)
	dirA := filepath.Join(base, "a")
	cfg := vfInstCfg{Manual: true, NDb: 3}
	cfg.DBConcurrent = uint([]int{1, 2, 2, 8}[rng.Intn(4)])
	cfg.FastKeys = uint([]int{1, 4, 256, 65536}[rng.Intn(4)])
	cfg.AofTime = uint([]int{0, 0, 1, 2}[rng.Intn(4)])
	cfg.AofBuf = uint([]int{64, 128, 4096}[rng.Intn(3)])
	cfg.RewriteSize = uint([]int{12 + 64*15, 12 + 64*40, 8 << 20, 8 << 20}[rng.Intn(4)])
	prof := vfE4Profile()
	prof.Steps = [2]int{25, 80}
	stats := map[string]int64{}
	var findings []vfE4Finding
	doc := map[string]interface{}{"case": caseNo, "seed": env.Seed, "property": "C08",
		"config": fmt.Sprintf("shards=%d fastkeys=%d aoftime=%d aofbuf=%d rewritesize=%d", cfg.DBConcurrent, cfg.FastKeys, cfg.AofTime, cfg.AofBuf, cfg.RewriteSize)}
	hash := uint64(caseNo)

	trA := vfNewRewriteTracker()
	inA, err := vfStartAt(cfg, dirA, vfE4Epoch(), trA)
	if err != nil {
		panic("vf: cannot start leader: " + err.Error())
	}
	_ = vfLogCapture.Take()
	var live *vfInstance = inA
	var liveTr = trA
	defer func() {
		vfKeyEpoch = 0
		if r := recover(); r != nil {
			if live != nil {
				live.abandoned = true
				live.Close()
			}
			panic(r)
		}
	}()
	ph := vfNewE4Phase(inA, rng, &prof, 0, trA)
	ph.run(rng.Range(prof.Steps[0], prof.Steps[1]))
	vfAofQuiesce(inA)
	ph.runCompactions()
	trA.wait()
	now := inA.now + int64(rng.Intn(3))
	snapA := vfSnapshotOf(inA)
	vfStop(inA, trA)
	live = nil
	stats["ops"] += int64(len(ph.eng.opLog))
	g, gerr := vfAofGeometry(dirA)
	if gerr != nil || g.Trailing != 0 || !g.DatOK {
		part.Harness = append(part.Harness, fmt.Sprintf("case %d: the stopped instance left an irregular newest append file: %v %+v", caseNo, gerr, g))
		return
	}
	fileLen := 12 + 64*g.Records
	doc["newest_append_file"] = fmt.Sprintf("append.aof.%d: %d records, value file %d bytes; directory: %s", g.Index, g.Records, g.DatSize, vfDirListing(dirA))
	doc["script"] = ph.eng.scriptDoc(caseNo, env.Seed, nil)
	doc["restart_at"] = now
	// reference states: whole-record prefixes, recovered lazily
	prefix := map[int]string{}
	prefixErr := map[int]string{}
	work := filepath.Join(base, "w")
	img := filepath.Join(base, "img")
	getPrefix := func(j int) (string, bool) {
		if c, ok := prefix[j]; ok {
			return c, true
		}
		if _, bad := prefixErr[j]; bad {
			return "", false
		}
		if err := vfCutImage(dirA, img, g, 12+64*j, g.DatOff[j]); err != nil {
			prefixErr[j] = "harness: " + err.Error()
			return "", false
		}
		snap, err := vfRecover(cfg, img, work, now, nil)
		stats["prefix_images_recovered"]++
		if err != nil {
			prefixErr[j] = err.Error()
			findings = append(findings, vfE4Finding{Clause: "prefix-start-failed", Detail: fmt.Sprintf("the start on the image of the whole-record prefix %d/%d failed: %v", j, g.Records, err)})
			return "", false
		}
		prefix[j] = snap.canon()
		return prefix[j], true
	}
	images := vfC08Images(rng, g, fileLen)
	stage2 := map[int]bool{}
	for i := 0; i < 3 && len(images) > 0; i++ {
		stage2[rng.Intn(len(images))] = true
	}
	residues := map[int]bool{}
	for ii, im := range images {
		if len(findings) > 12 {
			break
		}
		stats["images"]++
		stats["images_"+im.Kind]++
		if im.FileSize >= 12 && (im.FileSize-12)%64 != 0 {
			residues[(im.FileSize-12)%64] = true
		}
		if err := vfCutImage(dirA, img, g, im.FileSize, im.DatSize); err != nil {
			part.Harness = append(part.Harness, "cut image: "+err.Error())
			continue
		}
		desc := fmt.Sprintf("%s: append.aof.%d cut at %d of %d bytes (%d whole records + %d bytes), value file cut at %d of %d bytes (values of the first %d records end at %d)", im.Kind, g.Index, im.FileSize, fileLen, im.Whole, vfMaxInt(im.FileSize-12, 0)%64, im.DatSize, g.DatSize, im.Whole, g.DatOff[im.Whole])
		if !stage2[ii] {
			snap, err := vfRecover(cfg, img, work, now, nil)
			if err != nil {
				sig := ""
				if im.Kind == "header" {
					sig = "start-failed:newest-append-file-shorter-than-its-header"
				}
				findings = append(findings, vfE4Finding{Clause: "start-failed", Sig: sig, Detail: fmt.Sprintf("the start failed (%v) on the image %s", err, desc)})
				continue
			}
			findings = append(findings, vfC08Match(snap, im, g, getPrefix, desc, stats)...)
			hash = vfMix(hash ^ vfStrHash(snap.canon()))
			continue
		}
		// ---- second stage: keep the instance, run a workload, restart again
		stats["second_stage_runs"]++
		// a directory of its own: the reference prefixes are recovered (in `work`)
		// while this instance is alive
		work2 := filepath.Join(base, fmt.Sprintf("s2-%d", ii))
		_ = vfCopyDir(img, work2)
		trB := vfNewRewriteTracker()
		inB, err := vfStartAt(cfg, work2, now, trB)
		if err != nil {
			if inB != nil {
				inB.Close()
			}
			sig := ""
			if im.Kind == "header" {
				sig = "start-failed:newest-append-file-shorter-than-its-header"
			}
			findings = append(findings, vfE4Finding{Clause: "start-failed", Sig: sig, Detail: fmt.Sprintf("the start failed (%v) on the image %s", err, desc)})
			continue
		}
		defer os.RemoveAll(work2)
		live, liveTr = inB, trB
		vfAofQuiesce(inB)
		trB.wait()
		snapB := vfSnapshotOf(inB)
		fs := vfC08Match(snapB, im, g, getPrefix, desc, stats)
		findings = append(findings, fs...)
		// the second workload keeps to plain holds: what a restart makes of
		// re-locked / updated holds and of multi-operation pipelines is C07's
		// (known) business
		prof2 := prof
		prof2.NoRelock, prof2.NoPipeline = true, true
		ph2 := vfNewE4Phase(inB, rng, &prof2, 1, trB)
		ph2.run(rng.Range(20, 50))
		vfAofQuiesce(inB)
		ph2.runCompactions()
		trB.wait()
		before := vfSnapshotOf(inB)
		now2 := inB.now + int64(rng.Intn(3))
		exps := ph2.expectations(before, cfg.AofTime, now2)
		vfStop(inB, trB)
		live = nil
		logText := strings.Split(vfAofDirText(work2, "log before the second restart"), "\n")
		trC := vfNewRewriteTracker()
		inC, err := vfStartAt(cfg, work2, now2, trC)
		if err != nil {
			if inC != nil {
				inC.Close()
			}
			sig := "second-restart:" + vfC08Class(im)
			findings = append(findings, vfE4Finding{Clause: "second-start-failed", Sig: sig, Detail: fmt.Sprintf("after a restart on the image %s and %d further operations the next start failed: %v", desc, len(ph2.eng.opLog), err)})
			doc[fmt.Sprintf("image%d_log", ii)] = logText
			continue
		}
		live, liveTr = inC, trC
		vfAofQuiesce(inC)
		trC.wait()
		restored := vfSnapshotOf(inC)
		vfStop(inC, trC)
		live = nil
		fs2 := vfCompareRestart(ph2, before, exps, restored, 1, stats)
		fs2 = append(fs2, vfCompareCarried(snapB, before, restored, now2, func(db uint8, key [16]byte) string {
			if ph.keyRelocked(db, vfKeyIndex(key)) {
				return "skip"
			}
			return ""
		}, stats)...)
		for _, rk := range restored.Keys {
			if rk.Key[2] == 1 {
				continue
			}
			// keys of the first history on which a restart is known (C07) not to
			// rebuild the state exactly are left out: re-locked / updated holds, and
			// keys held by more holders than their smallest Count admits
			if ph.keyRelocked(rk.Db, vfKeyIndex(rk.Key)) {
				continue
			}
			if ak := snapA.find(rk.Db, rk.Key); ak != nil {
				depth, cmin := 0, 0x10000
				for _, ah := range ak.Holds {
					depth += int(ah.Depth)
					if int(ah.Count) < cmin {
						cmin = int(ah.Count)
					}
				}
				if depth-1 > cmin {
					continue
				}
			}
			bk := before.find(rk.Db, rk.Key)
			for _, rh := range rk.Holds {
				if bk == nil || bk.hold(rh.LockId) == nil {
					fs2 = append(fs2, vfE4Finding{Clause: "restored-not-held", Detail: fmt.Sprintf("%s L%d is held after the second restart but was not held when the instance stopped", vfSnapKeyName(rk), vfLockIdIndex(rh.LockId))})
				}
			}
		}
		for i := range fs2 {
			// what the second restart gets wrong after a torn image is one finding per
			// class of image, unless the C07 oracle already knows the cause
			if fs2[i].Sig == "" && (im.FileSize < 12 || (im.FileSize-12)%64 != 0 || im.DatSize != g.DatOff[im.Whole]) {
				fs2[i].Sig = "second-restart:" + vfC08Class(im)
			}
			fs2[i].Clause = "second-restart/" + fs2[i].Clause
			fs2[i].Detail += " [first restart on the image " + desc + "]"
		}
		if len(fs2) > 0 {
			doc[fmt.Sprintf("image%d_log", ii)] = logText
			doc[fmt.Sprintf("image%d_second_script", ii)] = ph2.eng.scriptDoc(caseNo, env.Seed, nil)
		}
		findings = append(findings, fs2...)
		hash = vfMix(hash ^ vfStrHash(restored.canon()))
	}
	_ = liveTr
	for r := range residues {
		part.Mark("residues", uint64(r))
	}
	for _, l := range vfLogCapture.Take() {
		_ = l
		stats["server_error_log_lines"]++
	}
	for k, v := range stats {
		part.Add(k, v)
	}
	part.Mark("recovered_states", hash)
	if stats["images_matched_a_prefix"] > 0 {
		part.Mark("nontrivial", hash)
	}
	part.Sample(3, map[string]interface{}{"case": caseNo, "config": doc["config"], "records": g.Records, "images": stats["images"], "second_stage_runs": stats["second_stage_runs"]})
	wrote := ""
	for _, f := range findings {
		if wrote == "" {
			fl := []string{}
			for _, x := range findings {
				fl = append(fl, x.Clause+": "+x.Detail)
			}
			doc["findings"] = fl
			wrote = vfWriteReplay(env, fmt.Sprintf("case%d.json", caseNo), doc)
		}
		part.Violate(vfViolation{Prop: "C08", Clause: f.Clause, Detail: f.Detail, Case: caseNo, Replay: wrote, Sig: f.Sig})
	}
}

func vfC08Class(im vfC08Image) string {
	switch {
	case im.FileSize < 12:
		return "header-cut"
	case (im.FileSize-12)%64 != 0:
		return "torn-record"
	default:
		return "value-file-cut"
	}
}


// vfC08Match: the recovered state must be the state of a whole-record prefix
// that ends at or before the cut.
func vfC08Match(snap *vfSnapshot, im vfC08Image, g *vfAofGeom, getPrefix func(int) (string, bool), desc string, stats map[string]int64) []vfE4Finding {
	var fs []vfE4Finding
	for _, e := range snap.Errors {
		fs = append(fs, vfE4Finding{Clause: "structure", Detail: "structural inconsistency after the start on the image " + desc + ": " + e})
	}
	c := snap.canon()
	// candidates in order of likelihood: the last whole record, then earlier ones
	order := []int{im.Whole}
	for j := im.Whole - 1; j >= 0 && j >= im.Whole-8; j-- {
		order = append(order, j)
	}
	sort.SliceStable(order, func(a, b int) bool { return order[a] > order[b] })
	for _, j := range order {
		pc, ok := getPrefix(j)
		if !ok {
			continue
		}
		if pc == c {
			stats["images_matched_a_prefix"]++
			if j != im.Whole {
				stats["images_matched_an_earlier_prefix"]++
			}
			return fs
		}
	}
	ref, _ := getPrefix(im.Whole)
	sig := ""
	switch vfC08Class(im) {
	case "torn-record":
		sig = "torn-record-replayed"
	case "value-file-cut":
		sig = "record-with-cut-value-replayed"
	}
	fs = append(fs, vfE4Finding{Clause: "not-a-record-prefix", Sig: sig, Detail: fmt.Sprintf("the state recovered from the image %s equals none of the states of the whole-record prefixes %d..%d; recovered:\n%s--- state of prefix %d:\n%s", desc, vfMaxInt(im.Whole-8, 0), im.Whole, c, im.Whole, ref)})
	return fs
}

func TestVerif_C08(t *testing.T) {
	start := time.Now()
	vfContinueAfterPanic = true
	env := vfGetEnv("C08")
	n := env.N(96, 1600)
	part := vfRunSharded(t, env, "TestVerif_C08", n, vfNumCPU(), func(part *vfPart, i int) { vfRunC08Case(env, part, i) })
	if part == nil {
		return
	}
	spec := &vfSpec{Prop: "C08", Level: "fault_enumeration",
		Rule:        "case i = PRNG history splitmix(seed,'C08',i) (25-80 operations, PRNG configuration) stopped with its log flushed; ~100-150 crash images of its newest append file (header cuts, all 63 residues of the last record, a third of the residues of the two records before it, PRNG earlier records, complete records with missing / partial values, record boundaries); each image is recovered at the same virtual time and compared with the states recovered from the whole-record prefixes; on 3 images per history a second workload and a second restart follow (C07 oracle); non-trivial = at least one image of the history recovered to the state of a whole-record prefix; distinct = hash of the recovered states",
		NontrivSet:  "nontrivial",
		Assumptions: vfC08Assumptions,
		Floors:      []string{"images_torn-last", "images_header", "images_value-missing", "images_value-body-torn", "second_stage_runs", "images_matched_a_prefix", "prefix_images_recovered"},
		ExtraCov: func(p *vfPart, cov map[string]interface{}) {
			cov["distinct_torn_residues"] = len(p.Distinct["residues"])
		}}
	vfFinish(t, env, spec, part, start)
}

var _ = protocol.COMMAND_LOCK
