//go:build verif

package server

// C09: followers apply the leader's log exactly and converge.
//
// One case = one cluster scenario (leader + 1..2 follower OS processes, a
// frame-aware fault proxy on every follower->leader path). A PRNG workload
// with the persist-immediately flag runs at the leader (value operations,
// re-locks, updates, partial unlocks, short / minute / unlimited expiries, log
// rotation by BGREWRITEAOF or a small rewrite size); followers join at PRNG
// points with an empty, alien or earlier-epoch directory; the proxy cuts the
// replication connection at PRNG byte offsets of the file transfer or of the
// live stream, throttles, or stalls it; ring buffers are 1-4 KiB.
//
// Oracles at quiescence (leader idle, follower log position == leader's):
//   T  truth = the leader's own append files, preserved by hard links at every rotation
//   W  wire  = what the proxy saw: every record equals the truth record with that id;
//              a resumed connection continues exactly behind the requested id, a full
//              transfer's live part starts exactly at the announced id; the live part
//              has no gap / duplicate / reorder
//   F  files = the follower's append files (also preserved by hard links): records equal
//              truth / wire, strictly ascending, no gap that was not on the wire
//   S  state = canonical snapshots equal (deadlines within one expiry unit)

import (
	"bytes"
	"encoding/binary"
	"encoding/hex"
	"encoding/json"
	"errors"
	"fmt"
	"os"
	"path/filepath"
	"sort"
	"strconv"
	"strings"
	"testing"
	"time"

	"github.com/snower/slock/protocol"
)

// ------------------------------------------------------------------ context

type vfC09Ctx struct {
	part  *vfPart
	env   *vfEnv
	caseN int
	log   []string
	viol  int
	fail  string
	t0    time.Time
}

func (c *vfC09Ctx) note(f string, a ...interface{}) {
	if len(c.log) < 3000 {
		c.log = append(c.log, fmt.Sprintf("%6.2fs ", time.Since(c.t0).Seconds())+fmt.Sprintf(f, a...))
	}
}

func (c *vfC09Ctx) violate(clause, sig, f string, a ...interface{}) {
	c.viol++
	d := fmt.Sprintf(f, a...)
	c.note("VIOLATION %s: %s", clause, d)
	if c.viol > 8 {
		return
	}
	rp := vfWriteReplay(c.env, fmt.Sprintf("case%d.json", c.caseN), map[string]interface{}{"case": c.caseN, "seed": c.env.Seed, "tier": c.env.Tier, "log": c.log})
	c.part.Violate(vfViolation{Prop: "C09", Clause: clause, Detail: d, Case: c.caseN, Replay: rp, Sig: sig})
}

func (c *vfC09Ctx) inconclusive(f string, a ...interface{}) {
	if c.fail == "" {
		c.fail = fmt.Sprintf("case %d: ", c.caseN) + fmt.Sprintf(f, a...)
		c.note("INCONCLUSIVE %s", c.fail)
	}
}

func (c *vfC09Ctx) finish() {
	if c.fail != "" {
		c.part.Add("inconclusive_cases", 1)
		tail := c.log
		if len(tail) > 30 {
			tail = tail[len(tail)-30:]
		}
		c.part.Inconclusive = append(c.part.Inconclusive, c.fail+"; log tail="+strings.Join(tail, " | "))
	}
}

// ------------------------------------------------------------------ AOF files

type vfC09Rec struct {
	Idx, Off uint32
	Buf      [64]byte
	Data     []byte
	AofFlag  uint16
	Type     uint8
}

func vfC09Id(idx, off uint32) uint64 { return uint64(idx)<<32 | uint64(off) }
func (r *vfC09Rec) Id() uint64       { return vfC09Id(r.Idx, r.Off) }
func vfC09IdStr(id uint64) string    { return fmt.Sprintf("%d/%d", id>>32, id&0xffffffff) }

func vfC09Decode(buf []byte) *vfC09Rec {
	r := &vfC09Rec{}
	copy(r.Buf[:], buf)
	r.Type = buf[2]
	r.Off = binary.LittleEndian.Uint32(buf[3:7])
	r.Idx = binary.LittleEndian.Uint32(buf[7:11])
	r.AofFlag = binary.LittleEndian.Uint16(buf[55:57])
	return r
}

// vfC09SameRecord: records are compared from byte 2 on (bytes 0-1 are the
// length prefix of the file format); the REWRITED flag (set when a record
// passes through a compaction) is ignored.
func vfC09SameRecord(a, b *vfC09Rec) bool {
	x, y := a.Buf, b.Buf
	x[55] &^= AOF_FLAG_REWRITED
	y[55] &^= AOF_FLAG_REWRITED
	return bytes.Equal(x[2:], y[2:]) && bytes.Equal(a.Data, b.Data)
}

func vfC09Show(r *vfC09Rec) string {
	if r == nil {
		return "<none>"
	}
	return fmt.Sprintf("%s type=%d flag=%04x key=%x lockid=%x rec=%x data(%d)=%x", vfC09IdStr(r.Id()), r.Type, r.AofFlag, r.Buf[37:53], r.Buf[21:37], r.Buf[2:], len(r.Data), vfC09Head(r.Data, 24))
}

func vfC09Head(b []byte, n int) []byte {
	if len(b) > n {
		return b[:n]
	}
	return b
}

// vfC09ParseAof reads a record file and its value file.
func vfC09ParseAof(path string) ([]*vfC09Rec, string, error) {
	b, err := os.ReadFile(path)
	if err != nil {
		return nil, "", err
	}
	if len(b) < 12 || string(b[:8]) != "SLOCKAOF" {
		if len(b) == 0 {
			return nil, "", nil
		}
		return nil, "", errors.New("not an AOF file")
	}
	hl := int(binary.LittleEndian.Uint16(b[10:12]))
	pos := 12 + hl
	dat, _ := os.ReadFile(path + ".dat")
	dpos := 0
	var out []*vfC09Rec
	torn := ""
	for pos+64 <= len(b) {
		r := vfC09Decode(b[pos : pos+64])
		pos += 64
		if r.AofFlag&AOF_FLAG_CONTAINS_DATA != 0 {
			if dpos+4 > len(dat) {
				torn = fmt.Sprintf("value file ends before the value of record %s", vfC09IdStr(r.Id()))
				break
			}
			n := int(binary.LittleEndian.Uint32(dat[dpos : dpos+4]))
			if dpos+4+n > len(dat) {
				torn = fmt.Sprintf("value file ends inside the value of record %s", vfC09IdStr(r.Id()))
				break
			}
			r.Data = append([]byte(nil), dat[dpos:dpos+4+n]...)
			dpos += 4 + n
		}
		out = append(out, r)
	}
	if torn == "" && pos != len(b) {
		torn = fmt.Sprintf("%d trailing bytes", len(b)-pos)
	}
	if torn == "" && dpos != len(dat) {
		torn = fmt.Sprintf("%d unreferenced bytes in the value file", len(dat)-dpos)
	}
	return out, torn, nil
}

// vfC09KeptFiles lists the preserved append files of a node: inode-name -> path (record file only).
func vfC09KeptFiles(keep string) map[string]string {
	out := map[string]string{}
	ents, _ := os.ReadDir(keep)
	for _, e := range ents {
		n := e.Name()
		if strings.HasSuffix(n, ".dat") || !strings.Contains(n, "-append.aof.") {
			continue
		}
		out[n] = filepath.Join(keep, n)
	}
	return out
}

func vfC09FileIndex(name string) uint32 {
	k := strings.LastIndex(name, ".")
	v, _ := strconv.ParseUint(name[k+1:], 10, 32)
	return uint32(v)
}

// ------------------------------------------------------------------ workload

type vfC09Load struct {
	conn     *vfBinConn
	rng      *vfRand
	nKeys    int
	holders  map[int]map[int]bool
	nextLid  int
	sent     int
	records  int // SUCCED replies that produce a log record (approx.)
	short    bool
	part     *vfPart
	shortIds map[int]bool
}

func vfC09Key(k int) [16]byte { return vfKey16(fmt.Sprintf("c09-%04d", k)) }

func (w *vfC09Load) op() *protocol.LockCommand {
	rng := w.rng
	key := rng.Intn(w.nKeys)
	hs := w.holders[key]
	pickHolder := func() (int, bool) {
		if len(hs) == 0 {
			return 0, false
		}
		ids := make([]int, 0, len(hs))
		for id := range hs {
			ids = append(ids, id)
		}
		sort.Ints(ids)
		return ids[rng.Intn(len(ids))], true
	}
	var l *protocol.LockCommand
	x := rng.Intn(100)
	switch {
	case x < 32 && len(hs) > 0:
		id, _ := pickHolder()
		l = protocol.NewLockCommand(0, vfC09Key(key), vfLockIdBytes(id), 0, 0, 0)
		l.CommandType = protocol.COMMAND_UNLOCK
		if rng.Chance(20) {
			l.Rcount = uint8(rng.PickInt([]int{1, 0xff}))
		}
		if rng.Chance(5) {
			l.Flag |= protocol.UNLOCK_FLAG_UNLOCK_FIRST_LOCK_WHEN_UNLOCKED
		}
	case x < 36:
		l = protocol.NewLockCommand(0, vfC09Key(key), vfLockIdBytes(9000+rng.Intn(10)), 0, 0, 0)
		l.CommandType = protocol.COMMAND_UNLOCK
	case x < 50 && len(hs) > 0:
		// re-lock / update of an existing hold
		id, _ := pickHolder()
		l = protocol.NewLockCommand(0, vfC09Key(key), vfLockIdBytes(id), 0, uint16(rng.Range(600, 3000)), rng.PickU16([]uint16{0, 3, 0xffff}))
		l.ExpriedFlag = protocol.EXPRIED_FLAG_ZEOR_AOF_TIME
		if rng.Chance(50) {
			l.Flag |= protocol.LOCK_FLAG_UPDATE_WHEN_LOCKED
		} else {
			l.Rcount = uint8(rng.PickInt([]int{2, 3, 0xff}))
		}
	default:
		w.nextLid++
		l = protocol.NewLockCommand(0, vfC09Key(key), vfLockIdBytes(w.nextLid), 0, uint16(rng.Range(600, 3000)), rng.PickU16([]uint16{0, 0, 3, 3, 0xffff}))
		l.ExpriedFlag = protocol.EXPRIED_FLAG_ZEOR_AOF_TIME
		l.Rcount = uint8(rng.PickInt([]int{0, 0, 3}))
		y := rng.Intn(100)
		switch {
		case y < 8:
			l.ExpriedFlag |= protocol.EXPRIED_FLAG_MINUTE_TIME
			l.Expried = uint16(rng.Range(10, 50))
		case y < 13 && w.short:
			// short-lived: ends at the leader by expiry; never re-locked / released / given a value by the
			// workload (a replay of its records at a later time must not differ from the original one)
			l.Expried = uint16(rng.Range(1, 3))
			l.Rcount = 0
			w.shortIds[w.nextLid] = true
		case y < 16:
			l.ExpriedFlag |= protocol.EXPRIED_FLAG_UNLIMITED_EXPRIED_TIME
		}
	}
	if rng.Chance(30) && !w.shortIds[vfLockIdIndex(l.LockId)] {
		switch rng.Intn(7) {
		case 0, 1:
			l.Data = protocol.NewLockCommandDataSetString(fmt.Sprintf("v%d-%d", w.sent, rng.Intn(1000)))
		case 2:
			l.Data = protocol.NewLockCommandDataSetData(rng.Bytes(rng.PickInt([]int{0, 1, 300, 5000})))
		case 3:
			l.Data = protocol.NewLockCommandDataIncrData(int64(rng.Range(-5, 50)))
			if len(hs) > 0 || rng.Chance(50) {
				// INCR needs an integer value (or none): start from a fresh value
				l.Data = protocol.NewLockCommandDataSetString(fmt.Sprint(rng.Intn(100)))
			}
		case 4:
			l.Data = protocol.NewLockCommandDataAppendString(string(rune('a' + rng.Intn(26))))
		case 5:
			l.Data = protocol.NewLockCommandDataUnsetData()
		case 6:
			l.Data = protocol.NewLockCommandDataSetString("")
		}
	}
	return l
}

// burst sends n requests in batches (pipelined inside a batch) and waits for all replies.
func (w *vfC09Load) burst(n, batch int) error {
	if batch < 1 {
		batch = 1
	}
	for n > 0 {
		k := batch
		if k > n {
			k = n
		}
		type sent struct {
			id  [16]byte
			cmd *protocol.LockCommand
		}
		var ss []sent
		for j := 0; j < k; j++ {
			l := w.op()
			id, err := w.conn.sendLock(l)
			if err != nil {
				return err
			}
			w.sent++
			ss = append(ss, sent{id, l})
		}
		for _, s := range ss {
			r, err := w.conn.waitFor(s.id)
			if err != nil {
				return err
			}
			key := -1
			fmt.Sscanf(string(bytes.TrimLeft(s.cmd.LockKey[:], "\x00")), "c09-%d", &key)
			lid := vfLockIdIndex(s.cmd.LockId)
			if r.Result == protocol.RESULT_SUCCED {
				w.records++
				if w.holders[key] == nil {
					w.holders[key] = map[int]bool{}
				}
				if s.cmd.CommandType == protocol.COMMAND_LOCK {
					if s.cmd.Expried > 0 && !w.shortIds[lid] {
						w.holders[key][lid] = true
					}
				} else if r.LRCount == 0 {
					delete(w.holders[key], vfLockIdIndex(r.LockId))
				}
			}
			w.part.Add("workload_replies_"+vfResName(r.Result), 1)
		}
		// replies are kept in memory by the connection helper: drop them
		w.conn.mu.Lock()
		w.conn.results = nil
		w.conn.mu.Unlock()
		n -= k
	}
	return nil
}

// ------------------------------------------------------------------ scenario

type vfC09Follower struct {
	name      string
	node      *vfC09nNode
	px        *vfC09nProxy
	cfg       vfC09nCfg
	dirKind   string
	up        bool
	started   bool
	restarts  int
	stallable bool
	faults    []string
}

type vfC09Scn struct {
	c          *vfC09Ctx
	rng        *vfRand
	base       string
	leader     *vfC09nNode
	fols       []*vfC09Follower
	load       *vfC09Load
	adm        *vfTextConn
	rot        int
	autoRotate bool
	kind       string
}

// vfC09AlienDir fabricates the log directory of another history (file index 7).
func vfC09AlienDir(dir string, rng *vfRand) {
	_ = os.MkdirAll(dir, 0755)
	var b bytes.Buffer
	b.WriteString("SLOCKAOF")
	b.Write([]byte{1, 0, 0, 0})
	now := time.Now().Unix()
	n := rng.Range(1, 40)
	for i := 1; i <= n; i++ {
		al := NewAofLock()
		al.CommandType = protocol.COMMAND_LOCK
		al.AofIndex, al.AofOffset = 7, uint32(i)
		al.CommandTime = uint64(now)
		al.LockKey = vfKey16(fmt.Sprintf("alien-%d", i%5))
		al.LockId = vfLockIdBytes(20000 + i)
		al.ExpriedTime = 3000
		al.Count = 0xffff
		_ = al.Encode()
		al.buf[0], al.buf[1] = 62, 0
		b.Write(al.buf)
	}
	_ = os.WriteFile(filepath.Join(dir, "append.aof.7"), b.Bytes(), 0644)
	_ = os.WriteFile(filepath.Join(dir, "append.aof.7.dat"), nil, 0644)
}

func (s *vfC09Scn) rotate() {
	if s.adm == nil {
		var err error
		s.adm, err = vfC09nDialText(s.leader.Addr(), "admin")
		if err != nil {
			s.c.inconclusive("dial admin: %v", err)
			return
		}
	}
	v, err := s.adm.call("BGREWRITEAOF")
	if err != nil {
		s.c.inconclusive("BGREWRITEAOF: %v", err)
		return
	}
	s.c.note("BGREWRITEAOF -> %s", v.String())
	if v.Kind == '+' {
		s.rot++
		s.c.part.Add("rotations_requested", 1)
	}
}

func (s *vfC09Scn) startFollower(f *vfC09Follower) bool {
	n, err := vfC09nStart(s.base, f.cfg)
	if err != nil {
		s.c.inconclusive("start %s: %v", f.name, err)
		return false
	}
	f.node, f.up, f.started = n, true, true
	s.c.note("%s started (dir %s, port %d)", f.name, f.dirKind, n.Port)
	return true
}

func (s *vfC09Scn) cutsDone() int {
	n := 0
	for _, f := range s.fols {
		f.px.mu.Lock()
		for _, sy := range f.px.syncs {
			if sy.CutDone {
				n++
			}
		}
		f.px.mu.Unlock()
	}
	return n
}

func (s *vfC09Scn) anyDisconnected() *vfC09Follower {
	for _, f := range s.fols {
		if !f.up {
			continue
		}
		sy := f.px.Syncs()
		if len(sy) == 0 {
			return f
		}
		f.px.mu.Lock()
		closed := sy[len(sy)-1].Closed || sy[len(sy)-1].CutDone
		f.px.mu.Unlock()
		if closed {
			return f
		}
	}
	return nil
}

func vfC09Case(env *vfEnv, part *vfPart, i int) {
	rng := vfCaseRand(env.Seed, "C09", i)
	c := &vfC09Ctx{part: part, env: env, caseN: i, t0: time.Now()}
	defer c.finish()
	base := vfScratchDir(env, fmt.Sprintf("c09-%d", i))
	if os.Getenv("VERIF_KEEP_SCRATCH") != "1" {
		defer os.RemoveAll(base)
	}
	s := &vfC09Scn{c: c, rng: rng, base: base}
	// kind "exact": the leader's log stays complete (no rotation) and nothing expires, so a follower must equal
	// the leader itself; "rotating": compaction runs, followers are judged against a clean replay of what they
	// were sent; "expiring": short-lived holds expire while followers resynchronise (a replay at another time
	// skips other records, so no state oracle - wire and file oracles only)
	kind := []string{"exact", "exact", "rotating", "rotating", "expiring"}[rng.Intn(5)]
	s.kind = kind
	ring := uint(rng.PickInt([]int{1024, 2048, 4096}))
	ringMax := uint(rng.PickInt([]int{int(ring), int(ring) * 2, 8192}))
	rewrite := uint(rng.PickInt([]int{64 << 20, 64 << 20, 20000, 60000}))
	if kind == "exact" {
		rewrite = 64 << 20
	}
	lcfg := vfC09nCfg{Name: "leader", Ring: ring, RingMax: ringMax, RewriteSize: rewrite, DBConcurrent: uint(rng.Range(1, 3)), AofBuf: uint(rng.PickInt([]int{256, 1024, 4096}))}
	var err error
	s.autoRotate = rewrite < 1<<20
	s.leader, err = vfC09nStart(base, lcfg)
	if err != nil {
		c.inconclusive("start leader: %v", err)
		return
	}
	defer s.leader.Kill()
	c.note("kind=%s leader up: ring=%d max=%d rewrite=%d shards=%d aofbuf=%d", kind, ring, ringMax, rewrite, lcfg.DBConcurrent, lcfg.AofBuf)
	part.Add("scenarios_"+kind, 1)
	wc, err := vfC09nDialBinary(s.leader.Addr(), "workload", 1)
	if err != nil {
		c.inconclusive("dial workload: %v", err)
		return
	}
	defer wc.close()
	s.load = &vfC09Load{conn: wc, rng: rng, nKeys: rng.Range(4, 24), holders: map[int]map[int]bool{}, short: kind == "expiring", part: part, shortIds: map[int]bool{}}
	defer func() {
		if s.adm != nil {
			s.adm.close()
		}
	}()
	crashed := func() bool {
		nodes := []*vfC09nNode{s.leader}
		for _, f := range s.fols {
			if f.node != nil && f.up {
				nodes = append(nodes, f.node)
			}
		}
		for _, n := range nodes {
			if dead, tail := n.Crashed(base); dead {
				if vfCrashInRepo(tail) {
					c.violate("crash", "crash:"+vfCrashSig(tail), "node %s crashed: %s", n.Name, vfTrunc(vfPanicHead(tail), 1500))
				} else {
					c.inconclusive("node %s ended unexpectedly: %s", n.Name, vfTrunc(tail, 800))
				}
				return true
			}
		}
		return false
	}
	run := func(n, batch int) bool {
		if err := s.load.burst(n, batch); err != nil {
			if !crashed() {
				c.inconclusive("workload: %v", err)
			}
			return false
		}
		return true
	}
	// ---- before any follower
	pre := rng.PickInt([]int{0, 0, 30, 200, 500})
	if !run(pre, rng.Range(1, 100)) {
		return
	}
	if pre > 0 && rng.Chance(35) && kind != "exact" {
		s.rotate()
	}
	// ---- followers
	nf := rng.Range(1, 2)
	for k := 0; k < nf; k++ {
		f := &vfC09Follower{name: fmt.Sprintf("f%d", k+1)}
		f.px, err = vfC09nNewProxy(s.leader.Addr())
		if err != nil {
			c.inconclusive("proxy: %v", err)
			return
		}
		defer f.px.Close()
		f.cfg = vfC09nCfg{Name: f.name, SlaveOf: f.px.Addr(), Ring: ring, RingMax: ringMax, RewriteSize: rewrite, DBConcurrent: uint(rng.Range(1, 3)), AofBuf: uint(rng.PickInt([]int{256, 4096}))}
		f.dirKind = "empty"
		if rng.Chance(25) {
			f.dirKind = "alien"
			vfC09AlienDir(filepath.Join(base, f.name), rng)
		}
		f.stallable = rng.Chance(35)
		for q := rng.Range(2, 4); q > 0; q-- {
			ft := vfC09nFault{CutAfter: -1}
			if f.stallable {
				ft.RcvBuf = 2048
			}
			x := rng.Intn(100)
			switch {
			case x < 25:
				ft.CutAfter, ft.CutPhase = int64(rng.PickInt([]int{rng.Range(0, 700), rng.Range(0, 4000), rng.Range(0, 40000)})), 1
				f.faults = append(f.faults, fmt.Sprintf("cut-transfer@%d", ft.CutAfter))
			case x < 65:
				ft.CutAfter, ft.CutPhase = int64(rng.PickInt([]int{rng.Range(0, 700), rng.Range(0, 3000), rng.Range(0, 64*150)})), 2
				f.faults = append(f.faults, fmt.Sprintf("cut-live@%d", ft.CutAfter))
			case x < 80:
				ft.Delay, ft.ChunkMax = time.Duration(rng.Range(200, 3000))*time.Microsecond, rng.Range(40, 700)
				ft.CutAfter, ft.CutPhase = int64(rng.Range(64*5, 64*120)), 2
				f.faults = append(f.faults, fmt.Sprintf("slow(%v/%dB)+cut-live@%d", ft.Delay, ft.ChunkMax, ft.CutAfter))
			case x < 90:
				ft.Delay, ft.ChunkMax = time.Duration(rng.Range(100, 1500))*time.Microsecond, rng.Range(40, 700)
				f.faults = append(f.faults, fmt.Sprintf("slow(%v/%dB)", ft.Delay, ft.ChunkMax))
			default:
				f.faults = append(f.faults, "none")
			}
			f.px.AddFault(ft)
		}
		s.fols = append(s.fols, f)
		defer func(f *vfC09Follower) {
			if f.node != nil {
				f.node.Kill()
			}
		}(f)
	}
	c.note("followers: %d; %s faults=%v stallable=%v", nf, s.fols[0].dirKind, s.fols[0].faults, s.fols[0].stallable)
	if !s.startFollower(s.fols[0]) {
		return
	}
	phases := rng.Range(3, 5)
	startF2 := rng.Range(1, phases)
	killAt, restartAt := -1, -1
	if rng.Chance(35) {
		killAt = rng.Range(1, phases-1)
		restartAt = rng.Range(killAt+1, phases)
	}
	for p := 1; p <= phases && c.fail == "" && c.viol == 0; p++ {
		if p == phases {
			s.load.short = false // short-lived holds must be gone by the end
		}
		if nf == 2 && p == startF2 && !s.fols[1].started {
			c.note("%s: %s faults=%v stallable=%v", s.fols[1].name, s.fols[1].dirKind, s.fols[1].faults, s.fols[1].stallable)
			if !s.startFollower(s.fols[1]) {
				return
			}
		}
		if p == restartAt && !s.fols[0].up {
			s.fols[0].dirKind = "earlier-epoch"
			s.fols[0].restarts++
			if !s.startFollower(s.fols[0]) {
				return
			}
			part.Add("follower_restarts_with_old_directory", 1)
		}
		if f := s.anyDisconnected(); f != nil && rng.Chance(65) {
			// a follower is in its reconnect back-off: keep the leader (almost) quiet until it is back,
			// so that its position is still in the ring and it can resume
			have := 0
			for _, sy := range f.px.Syncs() {
				if sy.StartId != "" {
					have++
				}
			}
			q := rng.Range(0, int(ring)/64/3)
			c.note("phase %d: quiet (%d requests) until %s has reconnected", p, q, f.name)
			if !run(q, 1) {
				return
			}
			if f.px.WaitSyncs(have+1, 9*time.Second) {
				part.Add("reconnects_awaited", 1)
			}
		}
		if rng.Chance(45) && s.anyDisconnected() == nil {
			// resume episode: cut an established stream at whatever byte it has reached, keep the leader
			// (almost) quiet during the follower's back-off: its position is still in the ring when it returns
			var cand []*vfC09Follower
			for _, f := range s.fols {
				if f.up {
					cand = append(cand, f)
				}
			}
			if len(cand) > 0 {
				f := cand[rng.Intn(len(cand))]
				if !run(rng.Range(3, 30), rng.Range(1, 3)) {
					return
				}
				have := 0
				for _, sy := range f.px.Syncs() {
					if sy.StartId != "" {
						have++
					}
				}
				f.px.CutAll()
				q := rng.Range(0, int(ring)/64/2)
				c.note("phase %d: controller cut the stream to %s; quiet (%d requests) until it has reconnected", p, f.name, q)
				part.Add("controller_cuts", 1)
				if !run(q, 1) {
					return
				}
				if f.px.WaitSyncs(have+1, 9*time.Second) {
					part.Add("reconnects_awaited", 1)
				}
			}
		}
		mode := rng.Intn(100)
		heavy := mode < 35
		var stalled *vfC09Follower
		if !heavy && mode < 80 {
			// steady: request / reply in lock step, the senders keep up with the ring, the live stream flows
			n := rng.Range(60, 350)
			c.note("phase %d: steady run of %d", p, n)
			cutsSeen := s.cutsDone()
			for n > 0 {
				k := rng.Range(2, 5)
				if !run(k, rng.Range(1, 2)) {
					return
				}
				n -= k
				if cd := s.cutsDone(); cd > cutsSeen {
					cutsSeen = cd
					if f := s.anyDisconnected(); f != nil && rng.Chance(75) {
						// a cut just happened: go quiet so that the follower's position stays in the ring
						have := 0
						for _, sy := range f.px.Syncs() {
							if sy.StartId != "" {
								have++
							}
						}
						q := rng.Range(0, int(ring)/64/3)
						c.note("phase %d: cut seen, quiet (%d requests) until %s has reconnected", p, q, f.name)
						if !run(q, 1) {
							return
						}
						if f.px.WaitSyncs(have+1, 9*time.Second) {
							part.Add("reconnects_awaited", 1)
						}
					}
				}
			}
		} else if heavy {
			for _, f := range s.fols {
				if f.up && f.stallable && rng.Chance(50) {
					stalled = f
					f.px.Hold(true)
					part.Add("stalls", 1)
					c.note("phase %d: stream to %s stalled", p, f.name)
					break
				}
			}
			n := rng.Range(150, 800)
			if stalled != nil {
				n = rng.Range(2500, 5000) // enough to fill the socket buffers so that the leader's sender blocks
			}
			c.note("phase %d: heavy burst of %d", p, n)
			if !run(n, rng.Range(20, 250)) {
				if stalled != nil {
					stalled.px.Hold(false)
				}
				return
			}
			if stalled != nil {
				stalled.px.Hold(false)
			}
		} else {
			n := rng.Range(3, 40)
			c.note("phase %d: trickle of %d", p, n)
			if !run(n, rng.Range(1, 4)) {
				return
			}
			if f := s.anyDisconnected(); f != nil {
				// let the follower come back while little has happened (resume from the ring) ...
				have := 0
				for _, sy := range f.px.Syncs() {
					if sy.StartId != "" {
						have++
					}
				}
				if f.px.WaitSyncs(have+1, 8*time.Second) {
					part.Add("reconnects_awaited", 1)
				}
				if !run(rng.Range(2, 20), 1) {
					return
				}
			}
		}
		if rng.Chance(30) && kind != "exact" {
			s.rotate()
		}
		if p == killAt && s.fols[0].up {
			f := s.fols[0]
			// stop the follower at a moment when its own log is flushed (a torn follower log is C08's subject)
			if err := f.node.Quiesce(); err == nil {
				_ = f.node.Ask("keep", &struct{}{})
				f.node.Kill()
				f.up = false
				f.px.CutAll()
				c.note("phase %d: %s killed", p, f.name)
				part.Add("follower_kills", 1)
			}
		}
		if crashed() {
			return
		}
	}
	if c.fail != "" || c.viol != 0 {
		return
	}
	for _, f := range s.fols {
		if !f.started || !f.up {
			if f.started {
				f.dirKind = "earlier-epoch"
				f.restarts++
				part.Add("follower_restarts_with_old_directory", 1)
			}
			if !s.startFollower(f) {
				return
			}
		}
		f.px.ClearFaults()
		f.px.Hold(false)
	}
	// ---- quiescence: leader idle, every follower at the leader's position
	if !s.waitQuiescence() {
		crashed()
		return
	}
	s.judge()
	crashed()
}

func (s *vfC09Scn) waitQuiescence() bool {
	c := s.c
	deadline := time.Now().Add(100 * time.Second)
	// short-lived holds of the workload end at the leader by themselves
	for {
		sn, err := s.leader.Snapshot()
		if err != nil {
			c.inconclusive("leader snapshot: %v", err)
			return false
		}
		pending := 0
		for _, k := range sn.Keys {
			for _, h := range k.Holds {
				if h.Deadline < sn.Now+120 {
					pending++
				}
			}
		}
		if pending == 0 {
			break
		}
		if time.Now().After(deadline) {
			c.inconclusive("watchdog: short-lived holds did not end at the leader")
			return false
		}
		time.Sleep(100 * time.Millisecond)
	}
	for {
		if err := s.leader.Quiesce(); err != nil {
			c.inconclusive("leader quiesce: %v", err)
			return false
		}
		li, err := s.leader.Info()
		if err != nil {
			c.inconclusive("leader info: %v", err)
			return false
		}
		all := true
		why := ""
		for _, f := range s.fols {
			fi, err := f.node.Info()
			if err != nil {
				c.inconclusive("%s info: %v", f.name, err)
				return false
			}
			// position = id of the last record (the leader's file index may have moved on by a rotation without any record since)
			if fi.State != STATE_FOLLOWER || fi.AofId != li.AofId || fi.Rewriting {
				all = false
				why = fmt.Sprintf("%s state=%d pos=%d/%d id=%s rewriting=%v connects=%d (leader %d/%d id=%s)", f.name, fi.State, fi.AofIndex, fi.AofOffset, fi.AofId, fi.Rewriting, fi.Connects, li.AofIndex, li.AofOffset, li.AofId)
				break
			}
			if err := f.node.Quiesce(); err != nil {
				all = false
				why = f.name + ": " + err.Error()
				break
			}
		}
		if all {
			li2, _ := s.leader.Info()
			if li2 != nil && li2.AofId == li.AofId && !li2.Rewriting {
				c.note("quiescent at %d/%d (%s)", li.AofIndex, li.AofOffset, li.AofId)
				return true
			}
		}
		// a follower whose every attempt to resynchronise fails in the same way (its own error report,
		// twice or more, on a directory nothing else touches) will never converge
		for _, f := range s.fols {
			if b, err := os.ReadFile(filepath.Join(s.base, f.name+".log")); err == nil {
				if n := strings.Count(string(b), "init sync error"); n >= 2 && strings.Count(string(b), "append.aof file index error") >= 2 {
					ents, _ := os.ReadDir(f.node.Dir)
					names := []string{}
					for _, e := range ents {
						names = append(names, e.Name())
					}
					c.part.Add("followers_wedged_index_error", 1)
					c.violate("follower-wedged", "follower-cannot-resync:append.aof-file-index-error(sparse-append-files-after-transfer-of-compacted-log)", "%s can never resynchronise: every attempt fails in Aof.Reset -> FindAofFiles with \"append.aof file index error\" (%d times so far); its directory holds %v: the file transfer stored the records of the leader's rewrite.aof in append files of their original index, which leaves a gap in the append file indexes", f.name, n, names)
					return false
				}
			}
		}
		if time.Now().After(deadline) {
			c.inconclusive("watchdog: no quiescence: %s", why)
			return false
		}
		time.Sleep(50 * time.Millisecond)
	}
}

// ------------------------------------------------------------------ oracles

func vfC09ParseStartId(s string) (uint64, bool) {
	b, err := hex.DecodeString(s)
	if err != nil || len(b) != 16 {
		return 0, false
	}
	idx := binary.BigEndian.Uint32(b[0:4])
	off := binary.BigEndian.Uint32(b[4:8])
	return vfC09Id(idx, off), true
}

type vfC09Truth struct {
	recs  map[uint64]*vfC09Rec
	last  map[uint32]uint32 // highest offset per file index
	first map[uint32]uint32
	idxs  []uint32
	holes []string
}

// next returns the id that follows id in the leader's log (0 if unknown / none).
func (t *vfC09Truth) next(id uint64) uint64 {
	idx, off := uint32(id>>32), uint32(id)
	if _, ok := t.recs[vfC09Id(idx, off+1)]; ok {
		return vfC09Id(idx, off+1)
	}
	if off < t.last[idx] {
		return 0 // hole in the truth itself
	}
	for _, x := range t.idxs {
		if x > idx {
			if _, ok := t.recs[vfC09Id(x, 1)]; ok {
				return vfC09Id(x, 1)
			}
			return 0
		}
	}
	return 0
}

func (s *vfC09Scn) buildTruth() *vfC09Truth {
	c := s.c
	t := &vfC09Truth{recs: map[uint64]*vfC09Rec{}, last: map[uint32]uint32{}, first: map[uint32]uint32{}}
	for name, path := range vfC09KeptFiles(s.leader.Keep) {
		recs, torn, err := vfC09ParseAof(path)
		if err != nil {
			c.inconclusive("leader file %s: %v", name, err)
			return nil
		}
		if torn != "" {
			c.inconclusive("leader file %s is torn at quiescence: %s", name, torn)
			return nil
		}
		fidx := vfC09FileIndex(name)
		for _, r := range recs {
			if r.Idx != fidx {
				c.violate("leader-log", "", "leader file %s contains record %s", name, vfC09IdStr(r.Id()))
				continue
			}
			if old, dup := t.recs[r.Id()]; dup && !vfC09SameRecord(old, r) {
				c.violate("leader-log", "", "the leader logged two different records with id %s", vfC09IdStr(r.Id()))
			}
			t.recs[r.Id()] = r
			if r.Off > t.last[fidx] {
				t.last[fidx] = r.Off
			}
			if t.first[fidx] == 0 || r.Off < t.first[fidx] {
				t.first[fidx] = r.Off
			}
		}
	}
	for idx := range t.last {
		t.idxs = append(t.idxs, idx)
	}
	sort.Slice(t.idxs, func(a, b int) bool { return t.idxs[a] < t.idxs[b] })
	for _, idx := range t.idxs {
		for off := uint32(1); off <= t.last[idx]; off++ {
			if _, ok := t.recs[vfC09Id(idx, off)]; !ok {
				t.holes = append(t.holes, vfC09IdStr(vfC09Id(idx, off)))
			}
		}
	}
	return t
}

func (s *vfC09Scn) judge() {
	c, part := s.c, s.c.part
	// ---- snapshots first (nodes still running)
	ls, err := s.leader.Snapshot()
	if err != nil {
		c.inconclusive("leader snapshot: %v", err)
		return
	}
	fsn := map[string]*vfC09nSnapshot{}
	for _, f := range s.fols {
		sn, err := f.node.Snapshot()
		if err != nil {
			c.inconclusive("%s snapshot: %v", f.name, err)
			return
		}
		fsn[f.name] = sn
	}
	li, _ := s.leader.Info()
	// preserve the files, then stop everything
	for _, n := range append([]*vfC09nNode{s.leader}, func() []*vfC09nNode {
		var ns []*vfC09nNode
		for _, f := range s.fols {
			ns = append(ns, f.node)
		}
		return ns
	}()...) {
		if err := n.Ask("keep", &struct{}{}); err != nil {
			c.inconclusive("%s keep: %v", n.Name, err)
			return
		}
	}
	s.leader.Kill()
	for _, f := range s.fols {
		f.node.Kill()
		f.px.Close()
	}
	time.Sleep(20 * time.Millisecond)
	truth := s.buildTruth()
	if truth == nil {
		return
	}
	if len(truth.holes) > 0 {
		c.inconclusive("the preserved leader files have holes (%d, first %s): no complete reference", len(truth.holes), truth.holes[0])
		return
	}
	part.Add("leader_records", int64(len(truth.recs)))
	part.Add("leader_log_files", int64(len(truth.idxs)))
	if li != nil {
		part.Max("max_ring_growths", int64(li.RingDup))
		lid, _ := hex.DecodeString(li.AofId)
		if len(lid) == 16 && binary.LittleEndian.Uint32(lid[0:4]) != 0 && truth.recs[vfC09Id(binary.LittleEndian.Uint32(lid[4:8]), binary.LittleEndian.Uint32(lid[0:4]))] == nil {
			c.inconclusive("the leader's last record %d/%d is not in its preserved files", li.AofIndex, li.AofOffset)
			return
		}
	}
	nVal := 0
	for _, r := range truth.recs {
		if r.Data != nil {
			nVal++
		}
	}
	part.Add("leader_records_with_value", int64(nVal))
	compacted := s.rot > 0 || s.autoRotate
	for _, idx := range truth.idxs {
		if idx > 1 {
			compacted = true
		}
	}
	for _, f := range s.fols {
		s.judgeWire(f, truth)
		s.judgeFiles(f, truth)
		if c.viol > 0 {
			continue
		}
		if s.kind == "expiring" {
			continue
		}
		// S1: the follower against a clean application of exactly the records it was sent
		if exp := s.expectedState(f); exp != nil {
			s.judgeSnapshot(f, exp, fsn[f.name], false, "a clean replay of the records it was sent")
			part.Add("snapshots_vs_clean_replay", 1)
		}
		// S2: the follower against the leader itself; sound only while the leader's log is complete and
		// time-independent (a compacted log does not reproduce depths / values exactly: C16's subject)
		if s.kind == "exact" && !compacted && c.viol == 0 {
			s.judgeSnapshot(f, ls, fsn[f.name], true, "the leader")
			part.Add("snapshots_vs_leader", 1)
		}
	}
	// leader log evidence: ring overflow that hit a connected follower
	if b, err := os.ReadFile(filepath.Join(s.base, "leader.log")); err == nil {
		part.Add("leader_out_of_buf_disconnects", int64(strings.Count(string(b), "out of buf")))
		part.Add("leader_ring_growth_log_lines", int64(strings.Count(string(b), "ring buffer duplicate")))
	}
	h := vfMix(uint64(len(truth.recs))<<20 ^ uint64(len(truth.idxs))<<8 ^ uint64(c.caseN))
	part.Mark("cases", h)
	if c.fail == "" {
		part.Add("scenarios_judged", 1)
		part.Mark("nontrivial", h)
	}
	tail := c.log
	part.Sample(3, map[string]interface{}{"case": c.caseN, "log": tail})
}

// judgeWire: oracle W over every replication connection of one follower.
func (s *vfC09Scn) judgeWire(f *vfC09Follower, t *vfC09Truth) {
	c, part := s.c, s.c.part
	for _, sy := range f.px.Syncs() {
		desc := fmt.Sprintf("%s connection #%d (requests %q, answers %v)", f.name, sy.Seq, sy.Requests, sy.Responses)
		c.note("%s: full=%v start=%s records=%d filesDone=%v cut=%v(phase %d at %d) partial=%v bytes=%d", desc, sy.FullSync, sy.StartId, len(sy.Records), sy.FilesDone, sy.CutDone, sy.CutPhase, sy.CutAt, sy.Partial, sy.DownBytes)
		part.Add("replication_connections", 1)
		if sy.Garbage != "" {
			c.violate("wire-framing", "wire-framing-lost", "%s: %s", desc, sy.Garbage)
			continue
		}
		for _, r := range sy.Responses {
			if r == "err:ERR_NOT_FOUND" {
				part.Add("positions_not_found_full_resync", 1)
			}
		}
		if sy.CutDone {
			part.Add(fmt.Sprintf("cuts_injected_phase%d", sy.CutPhase), 1)
			if sy.Partial {
				part.Add("cuts_inside_a_record", 1)
			}
		}
		if sy.StartId == "" {
			part.Add("connections_without_handshake", 1)
			continue
		}
		startId, ok := vfC09ParseStartId(sy.StartId)
		if !ok {
			c.violate("wire-handshake", "", "%s: unparsable start id %q", desc, sy.StartId)
			continue
		}
		req := ""
		if len(sy.Requests) > 0 {
			req = sy.Requests[len(sy.Requests)-1]
		}
		var expectLive uint64 // id the live part has to start with
		if sy.FullSync {
			part.Add("full_transfers", 1)
			expectLive = startId
		} else {
			part.Add("resumes", 1)
			reqId, ok := vfC09ParseStartId(req)
			if !ok {
				c.violate("wire-handshake", "", "%s: unparsable requested id %q", desc, req)
				continue
			}
			if _, known := t.recs[reqId]; !known {
				c.violate("resume-unknown-position", "resume-accepted-for-a-position-the-leader-never-logged", "%s: the leader accepted to resume behind %s, an id its log never contained", desc, vfC09IdStr(reqId))
				continue
			}
			expectLive = t.next(reqId)
		}
		var prevFiles, prevLive uint64
		nLive := 0
		for k, wr := range sy.Records {
			r := vfC09Decode(wr.Buf[:])
			r.Data = wr.Data
			tr := t.recs[r.Id()]
			part.Add("wire_records", 1)
			if r.Data != nil {
				part.Add("wire_records_with_value", 1)
			}
			if tr == nil {
				c.violate("wire-record", "wire-record-not-in-leader-log", "%s: record #%d on the wire (%s) has an id the leader's log does not contain", desc, k, vfC09Show(r))
				break
			}
			if !vfC09SameRecord(tr, r) {
				sig := "wire-record-differs-from-leader-log"
				if !bytes.Equal(tr.Data, r.Data) {
					sig = "wire-value-differs-from-leader-log"
				}
				c.violate("wire-record", sig, "%s: record #%d on the wire differs from the record the leader logged under that id\n  wire: %s\n  log:  %s", desc, k, vfC09Show(r), vfC09Show(tr))
				break
			}
			if wr.Phase == 1 {
				part.Add("wire_records_transfer", 1)
				if r.Id() >= startId {
					c.violate("transfer-bound", "transfer-sent-record-at-or-behind-the-announced-start", "%s: the file transfer sent %s although the live part was announced to start at %s", desc, vfC09IdStr(r.Id()), vfC09IdStr(startId))
					break
				}
				if prevFiles != 0 && r.Id() <= prevFiles {
					c.violate("transfer-order", "transfer-duplicate-or-reorder", "%s: the file transfer sent %s after %s", desc, vfC09IdStr(r.Id()), vfC09IdStr(prevFiles))
					break
				}
				prevFiles = r.Id()
				continue
			}
			part.Add("wire_records_live", 1)
			if nLive == 0 {
				if expectLive != 0 && r.Id() != expectLive {
					kind, sig := "gap", "live-stream-starts-behind-the-expected-record(gap)"
					if r.Id() < expectLive {
						kind, sig = "duplicate", "live-stream-starts-before-the-expected-record(duplicate)"
					}
					if sy.FullSync {
						c.violate("live-start", sig, "%s: after the transfer (announced start %s) the live stream starts with %s: %s", desc, vfC09IdStr(startId), vfC09IdStr(r.Id()), kind)
					} else {
						c.violate("live-start", sig, "%s: resumed behind %s, so the stream has to continue with %s, but it starts with %s: %s", desc, req, vfC09IdStr(expectLive), vfC09IdStr(r.Id()), kind)
					}
					break
				}
				part.Add("live_starts_verified", 1)
			} else {
				want := t.next(prevLive)
				if want != 0 && r.Id() != want {
					kind, sig := "gap", "live-stream-gap"
					if r.Id() <= prevLive {
						kind, sig = "duplicate / reorder", "live-stream-duplicate-or-reorder"
					}
					c.violate("live-order", sig, "%s: in the live stream %s is followed by %s (the leader's log continues with %s): %s", desc, vfC09IdStr(prevLive), vfC09IdStr(r.Id()), vfC09IdStr(want), kind)
					break
				}
			}
			prevLive = r.Id()
			nLive++
		}
	}
}

// judgeFiles: oracle F over the preserved append files of one follower.
func (s *vfC09Scn) judgeFiles(f *vfC09Follower, t *vfC09Truth) {
	c, part := s.c, s.c.part
	// what reached this follower completely, and which neighbours it had on the wire
	delivered := map[uint64]bool{}
	adj := map[[2]uint64]bool{}
	for _, sy := range f.px.Syncs() {
		lastOfIdx := map[uint32]uint64{}
		for _, wr := range sy.Records {
			id := vfC09Id(wr.Idx, wr.Off)
			delivered[id] = true
			if p, ok := lastOfIdx[wr.Idx]; ok {
				adj[[2]uint64{p, id}] = true
			}
			lastOfIdx[wr.Idx] = id
		}
	}
	// file indexes of which this follower received records by file transfer
	transferIdx := map[uint32]bool{}
	for _, sy := range f.px.Syncs() {
		for _, wr := range sy.Records {
			if wr.Phase == 1 {
				transferIdx[wr.Idx] = true
			}
		}
	}
	fsig := func(idx uint32, sig string) string {
		if transferIdx[idx] {
			// one cause class for every deviation of a file that was (also) written by a file transfer
			return "follower-append-file-corrupt-after-file-transfer"
		}
		return sig
	}
	kept := vfC09KeptFiles(f.node.Keep)
	names := make([]string, 0, len(kept))
	for n := range kept {
		names = append(names, n)
	}
	sort.Strings(names)
	for _, name := range names {
		recs, torn, err := vfC09ParseAof(kept[name])
		if err != nil {
			c.inconclusive("%s file %s: %v", f.name, name, err)
			return
		}
		fidx := vfC09FileIndex(name)
		if fidx == 7 && f.cfg.Name != "" && len(recs) > 0 && recs[0].Idx == 7 && bytes.HasPrefix(bytes.TrimLeft(recs[0].Buf[37:53], "\x00"), []byte("alien-")) {
			continue // the fabricated directory of another history
		}
		part.Add("follower_files_checked", 1)
		if torn != "" {
			c.note("%s file %s: %s", f.name, name, torn)
			part.Add("follower_files_with_torn_tail", 1)
		}
		var prev *vfC09Rec
		for k, r := range recs {
			part.Add("follower_file_records", 1)
			if r.Idx != fidx {
				c.violate("file-index", "follower-file-holds-record-of-another-index", "%s file %s holds record %s", f.name, name, vfC09IdStr(r.Id()))
				break
			}
			tr := t.recs[r.Id()]
			if tr == nil || !delivered[r.Id()] {
				c.violate("file-record", "follower-file-record-never-sent", "%s file %s record #%d (%s) was never sent to this follower / is not in the leader's log", f.name, name, k, vfC09Show(r))
				break
			}
			if !vfC09SameRecord(tr, r) {
				sig := "follower-file-record-differs"
				if !bytes.Equal(tr.Data, r.Data) {
					sig = "follower-file-value-differs"
				}
				c.violate("file-record", fsig(fidx, sig), "%s file %s record #%d differs from the record sent under that id\n  file: %s\n  sent: %s", f.name, name, k, vfC09Show(r), vfC09Show(tr))
				break
			}
			if prev != nil {
				if r.Off <= prev.Off {
					c.violate("file-order", fsig(fidx, "follower-file-duplicate-or-reorder"), "%s file %s: record %s is followed by %s (applied twice / out of order)", f.name, name, vfC09IdStr(prev.Id()), vfC09IdStr(r.Id()))
					break
				}
				if r.Off != prev.Off+1 && !adj[[2]uint64{prev.Id(), r.Id()}] {
					c.violate("file-gap", fsig(fidx, "follower-file-gap"), "%s file %s: record %s is followed by %s; the records between them exist in the leader's log and the two never were neighbours on the wire (skipped)", f.name, name, vfC09IdStr(prev.Id()), vfC09IdStr(r.Id()))
					break
				}
				part.Add("follower_file_neighbours_verified", 1)
			}
			prev = r
		}
	}
}

// expectedState: a fresh node recovers from a log fabricated out of exactly the
// records that reached the follower (complete ones, in order) since the last
// time it was reset by a full resynchronisation; its snapshot is what "applied
// each record once, in order" means at state level.
func (s *vfC09Scn) expectedState(f *vfC09Follower) *vfC09nSnapshot {
	c := s.c
	syncs := f.px.Syncs()
	first := -1
	for k, sy := range syncs {
		if sy.StartId != "" && sy.FullSync {
			first = k
		}
	}
	if first < 0 {
		return nil
	}
	name := f.name + "-expect"
	dir := filepath.Join(s.base, name)
	_ = os.MkdirAll(dir, 0755)
	var rec, dat bytes.Buffer
	rec.WriteString("SLOCKAOF")
	rec.Write([]byte{1, 0, 0, 0})
	n := 0
	for _, sy := range syncs[first:] {
		for _, wr := range sy.Records {
			b := wr.Buf
			b[0], b[1] = 62, 0
			rec.Write(b[:])
			if wr.Data != nil {
				dat.Write(wr.Data)
			}
			n++
		}
	}
	if err := os.WriteFile(filepath.Join(dir, "append.aof.1"), rec.Bytes(), 0644); err != nil {
		c.inconclusive("write expected log: %v", err)
		return nil
	}
	_ = os.WriteFile(filepath.Join(dir, "append.aof.1.dat"), dat.Bytes(), 0644)
	node, err := vfC09nStart(s.base, vfC09nCfg{Name: name, DBConcurrent: f.cfg.DBConcurrent})
	if err != nil {
		c.inconclusive("start reference node: %v", err)
		return nil
	}
	defer node.Kill()
	sn, err := node.Snapshot()
	if err != nil {
		c.inconclusive("reference snapshot: %v", err)
		return nil
	}
	c.note("%s: reference state from %d records (connections #%d..#%d): %d keys", f.name, n, first, len(syncs)-1, len(sn.Keys))
	return sn
}

func vfC09Tol(eflag uint16) int64 {
	if eflag&protocol.EXPRIED_FLAG_MINUTE_TIME != 0 {
		return 61
	}
	return 2
}

// judgeSnapshot: oracle S.
func (s *vfC09Scn) judgeSnapshot(f *vfC09Follower, ls, fs *vfC09nSnapshot, onlyAof bool, refName string) {
	c, part := s.c, s.c.part
	for _, e := range fs.Errors {
		c.note("%s census: %s", f.name, e)
	}
	type hk struct {
		db  uint8
		key string
	}
	render := func(sn *vfC09nSnapshot, onlyAof bool) map[hk]*vfC09nKey {
		m := map[hk]*vfC09nKey{}
		for x := range sn.Keys {
			k := sn.Keys[x]
			nk := vfC09nKey{Db: k.Db, Key: k.Key, Data: k.Data, HasData: k.HasData}
			for _, h := range k.Holds {
				if onlyAof && !h.IsAof {
					continue
				}
				nk.Holds = append(nk.Holds, h)
			}
			if len(nk.Holds) == 0 {
				continue
			}
			m[hk{k.Db, k.Key}] = &nk
		}
		return m
	}
	lm, fm := render(ls, onlyAof), render(fs, false)
	show := func(k *vfC09nKey) string {
		if k == nil {
			return "<no holds>"
		}
		sb := fmt.Sprintf("data=%s", vfTrunc(k.Data, 60))
		for _, h := range k.Holds {
			sb += fmt.Sprintf(" H(%s depth=%d count=%d rcount=%d deadline=%d eflag=%04x)", h.LockId[:8], h.Depth, h.Count, h.Rcount, h.Deadline, h.EFlag)
		}
		return sb
	}
	keys := map[hk]bool{}
	for k := range lm {
		keys[k] = true
	}
	for k := range fm {
		keys[k] = true
	}
	bad := 0
	for k := range keys {
		l, fo := lm[k], fm[k]
		part.Add("snapshot_keys_compared", 1)
		diff := ""
		switch {
		case l == nil:
			diff = "the follower has holds on a key the reference does not have"
		case fo == nil:
			diff = "the follower has no hold on a key that is held in the reference"
		case len(l.Holds) != len(fo.Holds):
			diff = "different number of holds"
		case l.Data != fo.Data:
			diff = "different value"
		default:
			for x := range l.Holds {
				a, b := l.Holds[x], fo.Holds[x]
				part.Add("snapshot_holds_compared", 1)
				if a.LockId != b.LockId || a.Depth != b.Depth || a.Count != b.Count || a.Rcount != b.Rcount {
					diff = "different LockId / depth / Count / Rcount"
					break
				}
				d := a.Deadline - b.Deadline
				if d < 0 {
					d = -d
				}
				// one expiry unit, plus what the nodes' own clocks were observed to lag behind real time (starved machine)
				if d > vfC09Tol(a.EFlag)+2*(ls.ClockLag+fs.ClockLag) {
					diff = fmt.Sprintf("deadlines differ by %d s", d)
					break
				}
			}
		}
		if diff != "" {
			bad++
			if bad <= 3 {
				sig := "snapshot-differs"
				if strings.Contains(diff, "value") {
					sig = "snapshot-value-differs"
				} else if strings.Contains(diff, "deadline") {
					sig = "snapshot-deadline-differs"
				}
				c.violate("snapshot", sig, "at quiescence %s differs from %s on db%d key %s: %s\n  reference: %s\n  follower:  %s", f.name, refName, k.db, k.key, diff, show(l), show(fo))
			}
		}
	}
	if bad == 0 {
		part.Add("snapshots_equal", 1)
	}
	part.Max("max_clock_lag_seconds", ls.ClockLag+fs.ClockLag)
}

// ------------------------------------------------------------------ entry

func TestVerif_C09(t *testing.T) {
	start := time.Now()
	vfContinueAfterPanic = true
	env := vfGetEnv("C09")
	if env.Replay != "" {
		// a replay file names the seed of the run that produced it
		var doc struct {
			Seed int64 `json:"seed"`
		}
		if b, err := os.ReadFile(env.Replay); err == nil && json.Unmarshal(b, &doc) == nil && doc.Seed != 0 {
			env.Seed = doc.Seed
		}
	}
	n := env.N(16, 400)
	part := vfRunSharded(t, env, "TestVerif_C09", n, 8, func(part *vfPart, i int) {
		vfC09Case(env, part, i)
	})
	if part == nil {
		return
	}
	if part.Counters["inconclusive_cases"] > int64(n/2) {
		part.Harness = append(part.Harness, fmt.Sprintf("%d of %d scenarios were inconclusive", part.Counters["inconclusive_cases"], n))
	}
	spec := &vfSpec{Prop: "C09", Level: "fault_enumeration", NontrivSet: "nontrivial",
		Rule: "case i = cluster scenario splitmix(seed,'C09',i): leader (ring 1-4 KiB, max <= 8 KiB, rewrite size huge or 20-60 KB, 1-3 shards) + 1-2 followers behind a frame-aware proxy; PRNG workload at the leader with the persist-immediately flag in 3-5 phases (heavy bursts of 150-5000 pipelined requests / trickles), value operations incl. >4 KiB values, BGREWRITEAOF; followers join before / between phases with an empty or alien directory, one may be killed (at a flushed moment) and restarted with its old directory; per follower 1-3 faults on successive replication connections (cut at a PRNG byte offset of the file transfer / of the live stream, throttle, throttle+cut) and stalls of the stream during a heavy burst; oracles at quiescence (wire vs the leader's preserved files, follower files vs wire, snapshots); non-trivial = scenario reached quiescence and was judged; distinct = hash(records, files, case)",
		Assumptions: []string{
			"node processes on loopback TCP; all waits are on events (replies, proxy connection events, log positions) with watchdogs (60-150 s); a watchdog firing makes the scenario inconclusive",
			"reference = the leader's own append files, hard-linked at VP_REWRITE_FILE_CLOSED (existing hook) and at the end; a reference with holes makes the scenario inconclusive",
			"a follower is killed only at a moment when its own log is flushed (torn follower logs are C08's subject)",
			"records are compared from byte 2 on, the REWRITED flag ignored; deadlines within 2 s (61 s with the minute flag)",
			"follower files that the follower's own compaction removed before they were hard-linked are not checked at file level (the wire and snapshot oracles still apply)",
		},
		Floors: []string{"scenarios_judged", "full_transfers", "resumes", "positions_not_found_full_resync", "cuts_injected_phase1", "cuts_injected_phase2", "cuts_inside_a_record", "wire_records_with_value", "rotations_requested", "follower_file_neighbours_verified", "snapshots_equal", "snapshots_vs_leader", "snapshots_vs_clean_replay", "live_starts_verified", "follower_restarts_with_old_directory"}}
	vfFinish(t, env, spec, part, start)
}
