//go:build verif

package server

// C10: only the leader decides; other nodes refuse or forward.
//
// Three case families share one case list (family by case index):
//   (a) state scripts  - in-package: a LockDB populated as leader, switched to a
//       non-leader state (SYNC / FOLLOWER / VOTE / CONFIG); PRNG client requests
//       must all be answered STATE_ERROR and leave the census unchanged;
//       FROM_AOF commands are applied; role flips in between. A connection-level
//       variant sends binary / text requests through the real Server.handle.
//   (b) cluster        - leader + follower OS processes, frame-aware proxy on the
//       follower->leader path; identical scripts through the follower's port and
//       directly at the leader on disjoint key sets; replication stream held;
//       SLAVEOF between two requests of one connection.
//   (c) follower clock - virtual clock: a replicated hold on a follower-status db
//       is still there at deadline+299 and is not ended before.

import (
	"encoding/hex"
	"encoding/json"
	"fmt"
	"os"
	"sort"
	"strings"
	"testing"
	"time"

	"github.com/snower/slock/protocol"
)

type vfC10Ctx struct {
	dataDiverged map[int]bool // keys whose two copies carry different values because of a lingering value of the unheld key
	part  *vfPart
	env   *vfEnv
	caseN int
	fam   string
	log   []string
	viol  int
	soft  int    // findings that do not end the script
	fail  string // harness failure / watchdog (inconclusive)
}

// vfC10LeaderWait: the statement's bound (a literal, not the package constant, so that a changed constant is noticed)
const vfC10LeaderWait int64 = 300

const vfC10SigUnlockLocal = "non-leader-answers-UNLOCK_ERROR-for-a-key-it-does-not-know"

func (c *vfC10Ctx) note(f string, a ...interface{}) {
	if len(c.log) < 4000 {
		c.log = append(c.log, fmt.Sprintf(f, a...))
	}
}

// vfC10SigSeen: per process, violations carrying one of the cause signatures
// below are reported a few times only (and do not end the script), so that a
// defect that fires in every case cannot starve the rest of the case list.
var vfC10SigSeen = map[string]int{}

func (c *vfC10Ctx) violate(clause, sig, f string, a ...interface{}) {
	d := fmt.Sprintf(f, a...)
	c.note("VIOLATION %s: %s", clause, d)
	if sig != "" && !strings.HasPrefix(sig, "crash:") {
		c.part.Add("finding_"+sig, 1)
		vfC10SigSeen[sig]++
		if vfC10SigSeen[sig] > 3 && vfKnownOpen(vfLoadKnown(c.env), "C10", sig) == nil {
			return
		}
		if sig == vfC10SigUnlockLocal {
			c.soft++
		} else {
			c.viol++
		}
	} else {
		c.viol++
	}
	if c.viol+c.soft > 6 {
		return
	}
	rp := vfWriteReplay(c.env, fmt.Sprintf("case%d.json", c.caseN), map[string]interface{}{"case": c.caseN, "seed": c.env.Seed, "tier": c.env.Tier, "family": c.fam, "log": c.log})
	c.part.Violate(vfViolation{Prop: "C10", Clause: clause, Detail: d, Case: c.caseN, Replay: rp, Sig: sig})
}

func (c *vfC10Ctx) inconclusive(f string, a ...interface{}) {
	if c.fail == "" {
		c.fail = fmt.Sprintf("case %d (%s): ", c.caseN, c.fam) + fmt.Sprintf(f, a...)
	}
}

func (c *vfC10Ctx) finish() {
	if c.fail != "" {
		c.part.Add("inconclusive_cases", 1)
		tail := c.log
		if len(tail) > 25 {
			tail = tail[len(tail)-25:]
		}
		if c.part.Counters["inconclusive_cases"] <= 3 {
			c.part.Inconclusive = append(c.part.Inconclusive, c.fail+"; log tail="+strings.Join(tail, " | "))
		}
		if c.part.Counters["inconclusive_cases"] > 6 {
			c.part.Harness = append(c.part.Harness, "too many inconclusive C10 cases; last: "+c.fail)
		}
	}
}

var vfC10StateNames = map[uint8]string{STATE_INIT: "init", STATE_LEADER: "leader", STATE_FOLLOWER: "follower", STATE_SYNC: "sync", STATE_CONFIG: "config", STATE_VOTE: "vote", STATE_CLOSE: "close"}

// ------------------------------------------------------------------ (a) state scripts

// vfC10Canon renders what the property calls the node's holds / queue / values.
func vfC10Canon(in *vfInstance) (string, []string) {
	var sb strings.Builder
	var errs []string
	for d, db := range in.dbs {
		c := vfTakeCensus(db)
		for _, e := range c.Errors {
			errs = append(errs, fmt.Sprintf("db%d: %s", d, e))
		}
		for _, k := range c.Keys {
			if len(k.Holds) == 0 && len(k.Waiters) == 0 && !k.HasData {
				continue
			}
			fmt.Fprintf(&sb, "db%d k%d locked=%d data=%x", d, vfKeyIndex(k.Key), k.Locked, k.Data)
			for _, h := range k.Holds {
				fmt.Fprintf(&sb, " H(L%d d=%d c=%d r=%d dl=%d ef=%x e=%d)", vfLockIdIndex(h.LockId), h.Depth, h.Count, h.Rcount, h.Deadline, h.EFlag, h.Expried)
			}
			for _, w := range k.Waiters {
				fmt.Fprintf(&sb, " W(L%d req=%x dl=%d)", vfLockIdIndex(w.LockId), w.ReqId[:9], w.Deadline)
			}
			sb.WriteString("\n")
		}
	}
	return sb.String(), errs
}

func vfC10RandData(rng *vfRand) *vfDataOp {
	switch rng.Intn(4) {
	case 0:
		return &vfDataOp{Type: protocol.LOCK_DATA_COMMAND_TYPE_SET, Val: []byte(fmt.Sprintf("v%d", rng.Intn(1000)))}
	case 1:
		return &vfDataOp{Type: protocol.LOCK_DATA_COMMAND_TYPE_INCR, Num: int64(rng.Range(1, 9))}
	case 2:
		return &vfDataOp{Type: protocol.LOCK_DATA_COMMAND_TYPE_APPEND, Val: []byte{byte('a' + rng.Intn(26))}}
	}
	return &vfDataOp{Type: protocol.LOCK_DATA_COMMAND_TYPE_UNSET}
}

// vfC10ClientOp draws one client request of the generator (never FROM_AOF).
func vfC10ClientOp(rng *vfRand, nKeys, nLockIds int) vfOp {
	op := vfOp{Client: rng.Intn(3), Db: uint8(rng.Intn(2)), Key: rng.Intn(nKeys + 1), LockId: rng.Intn(nLockIds)} // key nKeys never existed
	if rng.Chance(55) {
		op.Kind = "lock"
		op.Count = rng.PickU16([]uint16{0, 0, 1, 2, 5, 0xffff})
		op.Rcount = uint8(rng.PickInt([]int{0, 0, 1, 3, 0xff}))
		op.Expried = rng.PickU16([]uint16{0, 1, 30, 3000, 65535})
		op.Timeout = rng.PickU16([]uint16{0, 0, 0, 5, 300})
		switch rng.Intn(8) {
		case 0:
			op.Flag |= protocol.LOCK_FLAG_SHOW_WHEN_LOCKED
		case 1:
			op.Flag |= protocol.LOCK_FLAG_UPDATE_WHEN_LOCKED
		case 2:
			op.Flag |= protocol.LOCK_FLAG_SHOW_WHEN_LOCKED | protocol.LOCK_FLAG_UPDATE_WHEN_LOCKED
		case 3:
			op.Flag |= protocol.LOCK_FLAG_CONCURRENT_CHECK
		}
		switch rng.Intn(8) {
		case 0:
			op.EFlag |= protocol.EXPRIED_FLAG_ZEOR_AOF_TIME
		case 1:
			op.EFlag |= protocol.EXPRIED_FLAG_MINUTE_TIME
		case 2:
			op.EFlag |= protocol.EXPRIED_FLAG_UNLIMITED_EXPRIED_TIME
		}
		switch rng.Intn(8) {
		case 0:
			op.TFlag |= protocol.TIMEOUT_FLAG_RCOUNT_IS_PRIORITY
		case 1:
			op.TFlag |= protocol.TIMEOUT_FLAG_LOCK_WAIT_WHEN_UNLOCK
		case 2:
			op.TFlag |= protocol.TIMEOUT_FLAG_MINUTE_TIME
		}
	} else {
		op.Kind = "unlock"
		op.Rcount = uint8(rng.PickInt([]int{0, 0, 1, 0xff}))
		switch rng.Intn(6) {
		case 0:
			op.Flag |= protocol.UNLOCK_FLAG_UNLOCK_FIRST_LOCK_WHEN_UNLOCKED
		case 1:
			op.Flag |= protocol.UNLOCK_FLAG_CANCEL_WAIT_LOCK_WHEN_UNLOCKED
		}
	}
	if rng.Chance(20) {
		op.Data = vfC10RandData(rng)
	}
	return op
}

func vfC10StateCase(env *vfEnv, part *vfPart, i int) {
	rng := vfCaseRand(env.Seed, "C10", i)
	c := &vfC10Ctx{part: part, env: env, caseN: i, fam: "state"}
	defer c.finish()
	dir := vfScratchDir(env, fmt.Sprintf("c10a-%d", i))
	defer os.RemoveAll(dir)
	in, err := vfNewLeader(vfInstCfg{Dir: dir, Manual: true, NDb: 2, DBConcurrent: uint(rng.Range(1, 3)), FastKeys: uint(rng.PickInt([]int{1, 4, 64}))})
	if err != nil {
		part.Harness = append(part.Harness, "cannot start instance: "+err.Error())
		return
	}
	defer in.Close()
	_ = vfLogCapture.Take()
	eng := vfNewEngine(in, rng, 3)
	nKeys, nLockIds := rng.Range(1, 4), rng.Range(3, 7)
	// ---- populate as leader
	nPop := rng.Range(3, 14)
	for j := 0; j < nPop; j++ {
		op := vfOp{Kind: "lock", Client: rng.Intn(3), Db: uint8(rng.Intn(2)), Key: rng.Intn(nKeys), LockId: rng.Intn(nLockIds), Count: rng.PickU16([]uint16{0, 1, 2, 5}),
			Rcount: uint8(rng.PickInt([]int{0, 2})), Expried: 3000, Timeout: rng.PickU16([]uint16{0, 0, 300})}
		if rng.Chance(50) {
			op.EFlag |= protocol.EXPRIED_FLAG_ZEOR_AOF_TIME
		}
		if rng.Chance(25) {
			op.Data = vfC10RandData(rng)
		}
		if eng.lockIdBusy(op.Db, op.Key, op.LockId) {
			continue
		}
		// client contract: do not reuse a LockId that is queued on this key
		busy := false
		for _, r := range eng.reqOrder {
			if r.Op.Kind == "lock" && r.Op.Db == op.Db && r.Op.Key == op.Key && r.Op.LockId == op.LockId && len(r.Replies) == 0 {
				busy = true
			}
		}
		if busy {
			continue
		}
		eng.submit(op)
	}
	_ = in.slock.GetAof().WaitFlushAofChannel()
	states := []uint8{STATE_SYNC, STATE_FOLLOWER, STATE_VOTE, STATE_CONFIG}
	state := states[rng.Intn(len(states))]
	in.slock.updateState(state)
	base, errs := vfC10Canon(in)
	for _, e := range errs {
		c.violate("structure", "", "census inconsistency after the switch to %s: %s", vfC10StateNames[state], e)
	}
	c.note("populated with %d ops, state=%s, census:\n%s", nPop, vfC10StateNames[state], base)
	steps := rng.Range(20, 60)
	refused, applied, flips, shortcut := 0, 0, 0, 0
	hadHolds := strings.Contains(base, " H(")
	for j := 0; j < steps && c.viol == 0; j++ {
		x := rng.Intn(100)
		switch {
		case x < 80:
			op := vfC10ClientOp(rng, nKeys, nLockIds)
			r := eng.submit(op)
			c.note("state=%s %s", vfC10StateNames[state], r.Op.String())
			part.Add("state_requests", 1)
			if len(r.Replies) != 1 {
				c.violate("refusal", "non-leader-no-single-refusal", "a %s request submitted to a db in state %s got %d replies (want exactly one STATE_ERROR): %s", op.Kind, vfC10StateNames[state], len(r.Replies), r.Op.String())
				break
			}
			ev := eng.events[r.Replies[0]]
			switch {
			case ev.Result == protocol.RESULT_STATE_ERROR:
				refused++
			case op.Kind == "lock" && op.Flag&protocol.LOCK_FLAG_CONCURRENT_CHECK != 0 && op.Timeout == 0 && ev.Result == protocol.RESULT_TIMEOUT:
				shortcut++ // the documented concurrent-check shortcut answers TIMEOUT from the replica
			default:
				sig := ""
				if op.Kind == "unlock" && ev.Result == protocol.RESULT_UNLOCK_ERROR && !strings.Contains(base, fmt.Sprintf("db%d k%d ", op.Db, op.Key)) {
					sig = vfC10SigUnlockLocal
				}
				c.violate("refusal", sig, "a %s request submitted to a db in state %s was answered %s instead of STATE_ERROR: %s", op.Kind, vfC10StateNames[state], vfResName(ev.Result), r.Op.String())
			}
			now, errs := vfC10Canon(in)
			for _, e := range errs {
				c.violate("structure", "", "census inconsistency after a refused request: %s", e)
			}
			if now != base {
				c.violate("census-changed", "non-leader-state-changed-by-client-request", "the census of a db in state %s changed through a client request (%s answered %s)\nbefore:\n%s\nafter:\n%s", vfC10StateNames[state], r.Op.String(), vfResName(ev.Result), base, now)
				base = now
			}
		case x < 90:
			// a command of the leader's stream: must be applied
			op := vfOp{Client: rng.Intn(3), Db: uint8(rng.Intn(2)), Key: rng.Intn(nKeys), LockId: 100 + rng.Intn(4), Count: 0xffff, Expried: 3000}
			if rng.Chance(60) {
				op.Kind = "lock"
				op.Flag = protocol.LOCK_FLAG_FROM_AOF
			} else {
				op.Kind = "unlock"
				op.Flag = protocol.UNLOCK_FLAG_FROM_AOF
			}
			r := eng.submit(op)
			c.note("stream %s", r.Op.String())
			if len(r.Replies) == 1 && eng.events[r.Replies[0]].Result == protocol.RESULT_STATE_ERROR {
				c.violate("stream-refused", "", "a FROM_AOF %s was refused with STATE_ERROR in state %s", op.Kind, vfC10StateNames[state])
			}
			applied++
			base, _ = vfC10Canon(in)
		case x < 96:
			// role flip: leader for a few requests, then some non-leader state again
			in.slock.updateState(STATE_LEADER)
			for k := rng.Range(1, 3); k > 0; k-- {
				op := vfC10ClientOp(rng, nKeys, nLockIds)
				op.Timeout = 0
				op.Key = rng.Intn(nKeys)
				if op.Kind == "lock" {
					op.LockId = 200 + rng.Intn(50)
					op.Expried = 3000
					op.EFlag &^= protocol.EXPRIED_FLAG_MINUTE_TIME | protocol.EXPRIED_FLAG_UNLIMITED_EXPRIED_TIME
				}
				r := eng.submit(op)
				c.note("as leader %s", r.Op.String())
			}
			_ = in.slock.GetAof().WaitFlushAofChannel()
			state = states[rng.Intn(len(states))]
			in.slock.updateState(state)
			base, _ = vfC10Canon(in)
			flips++
			c.note("role flip -> %s, census:\n%s", vfC10StateNames[state], base)
		default:
			// another non-leader state without passing through leader
			state = states[rng.Intn(len(states))]
			in.slock.updateState(state)
		}
	}
	part.Add("state_refusals", int64(refused))
	part.Add("state_stream_commands_applied", int64(applied))
	part.Add("state_role_flips", int64(flips))
	part.Add("state_concurrent_check_shortcuts", int64(shortcut))
	part.Add("state_scripts_"+vfC10StateNames[state], 1)
	for _, l := range vfLogCapture.Take() {
		part.Add("server_error_log_lines", 1)
		if len(part.LogErrors) < 10 {
			part.LogErrors = append(part.LogErrors, l)
		}
	}
	h := vfMix(uint64(state)<<32 ^ uint64(len(base))<<8 ^ vfStrHash(base) ^ uint64(refused))
	part.Mark("cases", h)
	if hadHolds && refused >= 10 {
		part.Mark("nontrivial", h)
	}
	part.Sample(2, map[string]interface{}{"case": i, "family": "state", "final_state": vfC10StateNames[state], "refused": refused, "stream_applied": applied, "flips": flips, "log_head": c.log[:vfC10Min(len(c.log), 8)]})
}

func vfC10Min(a, b int) int {
	if a < b {
		return a
	}
	return b
}

// vfC10ConnCase: requests through the real Server.handle (in-memory
// connections) of a node in a non-leader state without a reachable leader.
func vfC10ConnCase(env *vfEnv, part *vfPart, i int) {
	rng := vfCaseRand(env.Seed, "C10", i)
	c := &vfC10Ctx{part: part, env: env, caseN: i, fam: "conn"}
	defer c.finish()
	dir := vfScratchDir(env, fmt.Sprintf("c10n-%d", i))
	defer os.RemoveAll(dir)
	srv, err := vfStartNetServer(vfInstCfg{Dir: dir, Manual: true, NDb: 1, DBConcurrent: uint(rng.Range(1, 2)), FastKeys: 4})
	if err != nil {
		part.Harness = append(part.Harness, "cannot start server: "+err.Error())
		return
	}
	in := srv.in
	defer in.Close()
	_ = vfLogCapture.Take()
	// populate over a connection opened while leader; the same connection is used after the role change
	bc := srv.dialBinary("b", 1)
	defer bc.close()
	keys := [][16]byte{vfKeyBytes(0, 0), vfKeyBytes(0, 1), vfKeyBytes(0, 2)}
	for j := 0; j < 3; j++ {
		l := protocol.NewLockCommand(0, keys[j%2], vfLockIdBytes(j), 0, 3000, 5)
		if r, err := bc.call(l); err != nil || r.Result != protocol.RESULT_SUCCED {
			c.inconclusive("populate: %v %+v", err, r)
			return
		}
	}
	states := []uint8{STATE_SYNC, STATE_FOLLOWER, STATE_VOTE, STATE_CONFIG}
	state := states[rng.Intn(len(states))]
	in.slock.updateState(state)
	base, _ := vfC10Canon(in)
	c.note("state=%s census:\n%s", vfC10StateNames[state], base)
	tc := srv.dialText("t")
	defer tc.close()
	bc2 := srv.dialBinary("b2", 2) // opened while non-leader
	defer bc2.close()
	n := rng.Range(8, 20)
	refused := 0
	for j := 0; j < n && c.viol == 0; j++ {
		key := keys[rng.Intn(3)]
		lid := vfLockIdBytes(rng.Intn(5))
		isLock := rng.Chance(55)
		switch rng.Intn(3) {
		case 0, 1:
			conn := bc
			if rng.Chance(50) {
				conn = bc2
			}
			l := protocol.NewLockCommand(0, key, lid, 0, 3000, uint16(rng.Intn(3)))
			if !isLock {
				l.CommandType = protocol.COMMAND_UNLOCK
			} else if rng.Chance(30) {
				l.Flag = uint8(rng.PickInt([]int{1, 2, 3}))
			}
			r, err := conn.call(l)
			if err != nil {
				c.inconclusive("binary request on %s: %v", conn.name, err)
				return
			}
			c.note("%s lock=%v key=%x lid=%x -> %s", conn.name, isLock, key[:2], lid[:2], vfResName(r.Result))
			part.Add("conn_requests_binary", 1)
			if r.Result != protocol.RESULT_STATE_ERROR {
				c.violate("refusal", "", "binary request (lock=%v) on connection %s of a node in state %s without leader was answered %s instead of STATE_ERROR", isLock, conn.name, vfC10StateNames[state], vfResName(r.Result))
			} else {
				refused++
			}
		default:
			args := []string{"LOCK", fmt.Sprintf("tk%d", rng.Intn(3)), "TIMEOUT", "0", "EXPRIED", "3000"}
			if !isLock {
				args = []string{"UNLOCK", fmt.Sprintf("tk%d", rng.Intn(3)), "LOCK_ID", fmt.Sprintf("tl%d", rng.Intn(3))}
			} else if rng.Chance(30) {
				args = []string{"SET", fmt.Sprintf("tk%d", rng.Intn(3)), "x"}
			}
			v, err := tc.call(args...)
			if err != nil {
				c.inconclusive("text request %v: %v", args, err)
				return
			}
			c.note("text %v -> %s", args, v.String())
			part.Add("conn_requests_text", 1)
			if !vfC10TextRefusal(v) {
				sig := ""
				if args[0] == "UNLOCK" && strings.Contains(v.String(), "UNLOCK_ERROR") {
					sig = vfC10SigUnlockLocal
				}
				c.violate("refusal", sig, "text request %v on a node in state %s without leader was answered %s (want a state error)", args, vfC10StateNames[state], v.String())
			} else {
				refused++
			}
		}
		now, _ := vfC10Canon(in)
		if now != base {
			c.violate("census-changed", "non-leader-state-changed-by-client-request", "the census of a node in state %s changed through a client request\nbefore:\n%s\nafter:\n%s", vfC10StateNames[state], base, now)
			base = now
		}
	}
	part.Add("conn_refusals", int64(refused))
	h := vfMix(uint64(state)<<40 ^ uint64(n)<<8 ^ 0xc0 ^ uint64(refused)<<16)
	part.Mark("cases", h)
	if refused >= 5 {
		part.Mark("nontrivial", h)
	}
	_ = vfLogCapture.Take()
}

// vfC10TextRefusal: a RESP reply that refuses the request for state reasons.
func vfC10TextRefusal(v *vfRespValue) bool {
	if v == nil {
		return false
	}
	if v.Kind == '-' {
		s := strings.ToUpper(v.Str)
		return strings.Contains(s, "STATE") || strings.Contains(s, "LEADER SERVER ERROR") || strings.TrimSpace(s) == "ERR 10"
	}
	if v.Kind == '*' && len(v.Array) >= 2 {
		return v.Array[0].Str == "10" || strings.Contains(v.Array[1].Str, "STATE_ERROR")
	}
	return false
}

// ------------------------------------------------------------------ (c) follower clock

func vfC10ClockCase(env *vfEnv, part *vfPart, i int) {
	rng := vfCaseRand(env.Seed, "C10", i)
	c := &vfC10Ctx{part: part, env: env, caseN: i, fam: "clock"}
	defer c.finish()
	dir := vfScratchDir(env, fmt.Sprintf("c10c-%d", i))
	defer os.RemoveAll(dir)
	in, err := vfNewLeader(vfInstCfg{Dir: dir, Manual: true, NDb: 1, DBConcurrent: uint(rng.Range(1, 2)), FastKeys: uint(rng.PickInt([]int{1, 4, 64}))})
	if err != nil {
		part.Harness = append(part.Harness, "cannot start instance: "+err.Error())
		return
	}
	defer in.Close()
	_ = vfLogCapture.Take()
	state := uint8(STATE_FOLLOWER)
	if rng.Chance(25) {
		state = STATE_SYNC
	}
	in.slock.updateState(state)
	aof := in.slock.GetAof()
	db := in.dbs[0]
	// replicated holds arrive through the real replay path (Aof.ReplayLock -> AofChannel.HandleReplay)
	type hold struct {
		key, lid int
		e        uint16
		eflag    uint16 // expiry unit of the replicated hold (seconds or minutes)
		deadline int64 // lock.expriedTime right after the apply
		endedAt  int64
		unlockAt int64 // leader's UNLOCK record arrives at this tick (0: never)
		extendAt int64 // leader's update record arrives at this tick (0: never)
		extended bool
	}
	nh := rng.Range(1, 3)
	holds := []*hold{}
	off := uint32(0)
	send := func(cmdType uint8, h *hold, aofFlag uint16, e uint16, flag uint8) {
		off++
		al := NewAofLock()
		al.CommandType = cmdType
		al.AofIndex, al.AofOffset = 1, off
		al.CommandTime = uint64(in.now)
		al.DbId = 0
		al.Flag = flag
		al.LockId = vfLockIdBytes(h.lid)
		al.LockKey = vfKeyBytes(0, h.key)
		al.AofFlag = aofFlag
		al.ExpriedTime = e
		al.ExpriedFlag = h.eflag
		al.Count = 0xffff
		_ = al.Encode()
		_ = aof.ReplayLock(al)
		vfAofQuiesce(in)
	}
	find := func(h *hold) *vfCHold {
		cs := vfTakeCensus(db)
		k := cs.find(0, vfKeyBytes(0, h.key))
		if k == nil {
			return nil
		}
		for x := range k.Holds {
			if k.Holds[x].LockId == vfLockIdBytes(h.lid) {
				return &k.Holds[x]
			}
		}
		return nil
	}
	for j := 0; j < nh; j++ {
		h := &hold{key: j, lid: 10 + j, e: uint16(rng.PickInt([]int{1, 2, 5, 9, 17, 30, 45}))}
		minute := rng.Chance(25)
		if minute {
			// expiry in minutes: the follower has to derive the same deadline from it
			h.e, h.eflag = uint16(rng.PickInt([]int{2, 3, 6, 7})), protocol.EXPRIED_FLAG_MINUTE_TIME // (a record with 1 minute left is applied with 0 left: one unit of granularity)
			part.Add("clock_minute_holds", 1)
		}
		send(protocol.COMMAND_LOCK, h, 0, h.e, 0)
		ch := find(h)
		if ch == nil {
			c.violate("stream-not-applied", "", "a replicated LOCK (e=%d) was not applied on a db in state %s", h.e, vfC10StateNames[state])
			return
		}
		if !ch.IsAof {
			c.note("hold L%d is not marked as replicated", h.lid)
		}
		h.deadline = ch.Deadline
		switch rng.Intn(5) {
		case 0:
			h.unlockAt = h.deadline + int64(rng.Range(-3, 290))
		case 1:
			if !minute {
				h.extendAt = h.deadline + int64(rng.Range(-3, 250))
			}
		}
		holds = append(holds, h)
		c.note("tick %d: replicated hold k%d L%d e=%d deadline=%d unlockAt=%d extendAt=%d", in.now, h.key, h.lid, h.e, h.deadline, h.unlockAt, h.extendAt)
	}
	start := in.now
	maxDl := int64(0)
	for _, h := range holds {
		if h.deadline > maxDl {
			maxDl = h.deadline
		}
	}
	horizon := maxDl + 300 + 400
	probeEvery := int64(rng.Range(7, 23))
	for in.now < horizon {
		in.tick(1, rng)
		for _, h := range holds {
			if h.endedAt != 0 {
				continue
			}
			if h.unlockAt != 0 && in.now == h.unlockAt {
				send(protocol.COMMAND_UNLOCK, h, 0, h.e, 0)
				if find(h) != nil {
					c.violate("stream-not-applied", "", "the leader's UNLOCK record for k%d L%d was not applied at tick %d (deadline %d)", h.key, h.lid, in.now, h.deadline)
				} else {
					part.Add("clock_unlock_records_applied", 1)
				}
				h.endedAt = in.now
				continue
			}
			if h.extendAt != 0 && in.now == h.extendAt && !h.extended {
				h.extended = true
				ne := uint16(rng.Range(20, 60))
				cur := int64(-1)
				if ch := find(h); ch != nil {
					cur = ch.Deadline
				}
				send(protocol.COMMAND_LOCK, h, AOF_FLAG_UPDATED, ne, protocol.LOCK_FLAG_UPDATE_WHEN_LOCKED)
				want := in.now + int64(ne) + 1
				if ch := find(h); ch != nil && ch.Deadline == cur && cur-want <= 1 && want-cur <= 1 {
					// the code treats an update that moves the deadline by at most one second as "nothing to update"
					part.Add("clock_update_records_ignorable", 1)
				} else if ch != nil && ch.Deadline-want <= 1 && want-ch.Deadline <= 1 {
					c.note("tick %d: the leader's update record e=%d for L%d moved the deadline %d -> %d", in.now, ne, h.lid, h.deadline, ch.Deadline)
					h.deadline = ch.Deadline
					part.Add("clock_update_records_applied", 1)
				} else if ch != nil {
					c.violate("stream-not-applied", "", "the leader's update record (e=%d) for k%d L%d at tick %d left the deadline at %d (want %d)", ne, h.key, h.lid, in.now, ch.Deadline, want)
				} else {
					c.violate("ended-early", "follower-ended-replicated-hold-on-its-own-clock", "replicated hold k%d L%d was gone at tick %d (deadline %d) when the leader's update record arrived", h.key, h.lid, in.now, h.deadline)
					h.endedAt = in.now
				}
			}
			lim := h.deadline + vfC10LeaderWait - 1
			if in.now <= lim && (in.now == lim || in.now == h.deadline || in.now == h.deadline+1 || in.now == h.deadline+2 || (in.now-start)%probeEvery == 0) {
				part.Add("clock_presence_probes", 1)
				if find(h) == nil {
					sig := "follower-ended-replicated-hold-on-its-own-clock"
					c.violate("ended-early", sig, "a replicated hold (k%d L%d e=%d, deadline tick %d) on a db in state %s was gone at tick %d = deadline%+d, i.e. before deadline+%d, without any record from the leader", h.key, h.lid, h.e, h.deadline, vfC10StateNames[state], in.now, in.now-h.deadline, vfC10LeaderWait)
					h.endedAt = in.now
				} else if in.now == lim {
					part.Add("clock_present_at_deadline_plus_299", 1)
				}
			}
			if in.now > lim && (in.now-start)%3 == 0 {
				if find(h) == nil {
					h.endedAt = in.now
					part.Add("clock_ended_after_wait", 1)
					part.Max("max_clock_end_after_deadline", in.now-h.deadline)
					c.note("tick %d: hold L%d ended on the follower's clock at deadline+%d", in.now, h.lid, in.now-h.deadline)
				}
			}
		}
	}
	for _, h := range holds {
		if h.endedAt == 0 {
			part.Add("clock_never_ended_within_deadline_plus_700", 1)
			c.note("hold L%d still present at deadline+%d", h.lid, in.now-h.deadline)
			c.violate("not-ended-after-wait", "follower-never-ends-replicated-hold-after-the-300s-wait", "a replicated hold (k%d L%d e=%d, deadline tick %d) on a db in state %s for which no record of the leader arrived is still present at tick %d = deadline+%d (the statement bounds the wait by %d s past the deadline)", h.key, h.lid, h.e, h.deadline, vfC10StateNames[state], in.now, in.now-h.deadline, vfC10LeaderWait)
		}
	}
	hs := uint64(state)
	for _, h := range holds {
		hs = vfMix(hs ^ uint64(h.e)<<8 ^ uint64(h.unlockAt-h.deadline)<<20 ^ uint64(h.extendAt-h.deadline)<<40)
	}
	part.Mark("cases", hs)
	part.Mark("nontrivial", hs)
	part.Sample(5, map[string]interface{}{"case": i, "family": "clock", "log": c.log})
	_ = vfLogCapture.Take()
}

// ------------------------------------------------------------------ (b) cluster

// vfC10Pair: an operation of the paired script (same op for the follower path
// and for the reference run at the leader, on disjoint keys).
type vfC10Pair struct {
	Kind    string // lock | unlock
	Key     int
	LockId  int
	Flag    uint8
	Timeout uint16
	Expried uint16
	EFlag   uint16
	Count   uint16
	Rcount  uint8
	Data    string // "" | "SET:x" | "INCR:n" | "APPEND:x"
	Queued  bool   // expected to wait: the reply is collected later
}

func (o *vfC10Pair) String() string {
	return fmt.Sprintf("%s k%d L%d f=%02x t=%d e=%d/%04x cnt=%d rc=%d data=%q q=%v", o.Kind, o.Key, o.LockId, o.Flag, o.Timeout, o.Expried, o.EFlag, o.Count, o.Rcount, o.Data, o.Queued)
}

// vfC10Model is a tiny per-key-set model used only to steer the generator
// (which LockIds hold / wait); it takes no part in the verdict.
type vfC10Model struct {
	holders map[int][]int // key -> lockIds holding (granted at the reference)
	waiting map[int][]int
}

type vfC10Side struct {
	name   string
	prefix string
	bin    *vfBinConn
	txt    *vfTextConn
	text   bool
}

func vfC10KeyName(prefix string, k int) string { return fmt.Sprintf("%s%04d", prefix, k) }

// vfC10Answer is a reply in comparable form (key / request id masked).
type vfC10Answer struct {
	Refused bool
	Error   bool // RESULT_ERROR: forwarding failed
	Repr    string
	Result  int
	// Unheld: the key had no hold when the request arrived. The value such a reply carries is the value
	// of a key nobody holds, which the server reclaims lazily (seconds later, real time): it may or may
	// not still be there, at the leader just as through the follower. NoData is Repr without the value.
	Unheld bool
	NoData string
}

// sameButLingering: field-for-field equality, where the value of a key that nobody held when a
// request arrived is left out, and stays left out for that key from then on: one copy of the key may
// still have had the lingering value (reclaimed lazily, in real time) and the other not, so the two
// copies carry different values although no node decided anything differently.
func (c *vfC10Ctx) sameButLingering(key int, a, b vfC10Answer) bool {
	if a.Repr != b.Repr && a.Unheld && b.Unheld && a.NoData == b.NoData {
		if c.dataDiverged == nil {
			c.dataDiverged = map[int]bool{}
		}
		c.dataDiverged[key] = true
		c.part.Add("cluster_keys_with_lingering_value_divergence", 1)
	}
	if c.dataDiverged[key] && a.NoData == b.NoData && a.NoData != "" {
		if a.Repr != b.Repr {
			c.part.Add("cluster_relayed_equal_but_for_the_lingering_value", 1)
		}
		return true
	}
	return vfC10Same(a, b)
}

// vfC10Same: field-for-field equality; the lingering value of an unheld key is left out.
func vfC10Same(a, b vfC10Answer) bool {
	if a.Repr == b.Repr {
		return true
	}
	return a.Unheld && b.Unheld && a.NoData == b.NoData
}

func vfC10BuildBinary(o *vfC10Pair, prefix string) *protocol.LockCommand {
	l := protocol.NewLockCommand(0, vfKey16(vfC10KeyName(prefix, o.Key)), vfLockIdBytes(o.LockId), o.Timeout, o.Expried, o.Count)
	l.Rcount = o.Rcount
	l.Flag = o.Flag
	l.ExpriedFlag = o.EFlag
	if o.Kind == "unlock" {
		l.CommandType = protocol.COMMAND_UNLOCK
	}
	if o.Data != "" {
		p := strings.SplitN(o.Data, ":", 2)
		switch p[0] {
		case "SET":
			l.Data = protocol.NewLockCommandDataSetString(p[1])
		case "INCR":
			n := 0
			fmt.Sscanf(p[1], "%d", &n)
			l.Data = protocol.NewLockCommandDataIncrData(int64(n))
		case "APPEND":
			l.Data = protocol.NewLockCommandDataAppendString(p[1])
		}
	}
	return l
}

func vfC10BuildText(o *vfC10Pair, prefix string) []string {
	name := "LOCK"
	if o.Kind == "unlock" {
		name = "UNLOCK"
	}
	lid := vfLockIdBytes(o.LockId)
	args := []string{name, vfC10KeyName(prefix, o.Key), "LOCK_ID", hex.EncodeToString(lid[:]), "FLAG", fmt.Sprint(o.Flag),
		"TIMEOUT", fmt.Sprint(int(o.Timeout)), "EXPRIED", fmt.Sprint(int(o.Expried) | int(o.EFlag)<<16)}
	if o.Count > 0 {
		args = append(args, "COUNT", fmt.Sprint(int(o.Count)+1))
	}
	if o.Rcount > 0 {
		args = append(args, "RCOUNT", fmt.Sprint(int(o.Rcount)+1))
	}
	if o.Data != "" {
		p := strings.SplitN(o.Data, ":", 2)
		args = append(args, p[0], p[1])
	}
	return args
}

func vfC10BinAnswer(r *vfBinResult) vfC10Answer {
	raw := append([]byte(nil), r.Raw...)
	for x := 3; x < 19; x++ {
		raw[x] = 0 // request id
	}
	for x := 37; x < 53; x++ {
		raw[x] = 0 // key
	}
	a := vfC10Answer{Refused: r.Result == protocol.RESULT_STATE_ERROR, Error: r.Result == protocol.RESULT_ERROR, Result: int(r.Result),
		Repr: fmt.Sprintf("%s lockid=%x lcount=%d lrcount=%d raw=%x data=%x", vfResName(r.Result), r.LockId, r.LCount, r.LRCount, raw, r.Data)}
	raw[20] &^= protocol.LOCK_FLAG_CONTAINS_DATA
	a.NoData = fmt.Sprintf("%s lockid=%x lcount=%d lrcount=%d raw=%x", vfResName(r.Result), r.LockId, r.LCount, r.LRCount, raw)
	a.Unheld = (r.LCount == 0 && r.Result != protocol.RESULT_SUCCED) || (r.Type == protocol.COMMAND_LOCK && r.Result == protocol.RESULT_SUCCED && r.LCount <= 1 && r.LRCount <= 1)
	return a
}

func vfC10TextAnswer(v *vfRespValue) vfC10Answer {
	a := vfC10Answer{Refused: vfC10TextRefusal(v), Repr: v.String(), Result: -1}
	a.NoData = a.Repr
	if v.Kind == '*' && len(v.Array) > 0 {
		fmt.Sscanf(v.Array[0].Str, "%d", &a.Result)
		if a.Result == protocol.RESULT_ERROR {
			a.Error = true
		}
		lcount, lrcount := -1, -1
		for x := 0; x+1 < len(v.Array); x++ {
			switch v.Array[x].Str {
			case "LCOUNT":
				fmt.Sscanf(v.Array[x+1].Str, "%d", &lcount)
			case "LRCOUNT":
				fmt.Sscanf(v.Array[x+1].Str, "%d", &lrcount)
			case "DATA":
				w := *v
				w.Array = v.Array[:x]
				a.NoData = w.String()
			}
		}
		a.Unheld = (lcount == 0 && a.Result != protocol.RESULT_SUCCED) || (a.Result == protocol.RESULT_SUCCED && lcount == 1 && lrcount == 1)
	}
	if v.Kind == '-' && !a.Refused {
		a.Error = strings.Contains(v.Str, "Lock Error")
	}
	return a
}

type vfC10Cluster struct {
	c      *vfC10Ctx
	rng    *vfRand
	base   string
	leader *vfC10nNode
	fol    *vfC10nNode
	px     *vfC10nProxy
	viaF   *vfC10Side // script connection at the follower
	ref    *vfC10Side // reference connection at the leader
	model  vfC10Model
	nextK  int
	text   bool
	held   bool
}

func (cl *vfC10Cluster) waitState(n *vfC10nNode, want uint8) bool {
	deadline := time.Now().Add(vfC10nWait)
	for {
		in, err := n.Info()
		if err != nil {
			cl.c.inconclusive("node %s: %v", n.Name, err)
			return false
		}
		if in.State == want {
			return true
		}
		if time.Now().After(deadline) {
			cl.c.inconclusive("watchdog: node %s stayed in state %s (want %s)", n.Name, vfC10StateNames[in.State], vfC10StateNames[want])
			return false
		}
		time.Sleep(2 * time.Millisecond)
	}
}

// barrier: the follower has received and applied everything the leader has logged.
func (cl *vfC10Cluster) barrier() bool {
	if err := cl.leader.Quiesce(); err != nil {
		cl.c.inconclusive("leader quiesce: %v", err)
		return false
	}
	li, err := cl.leader.Info()
	if err != nil {
		cl.c.inconclusive("leader info: %v", err)
		return false
	}
	deadline := time.Now().Add(vfC10nWait)
	for {
		fi, err := cl.fol.Info()
		if err != nil {
			cl.c.inconclusive("follower info: %v", err)
			return false
		}
		if fi.AofIndex == li.AofIndex && fi.AofOffset == li.AofOffset {
			break
		}
		if time.Now().After(deadline) {
			cl.c.inconclusive("watchdog: follower did not catch up (leader %d/%d follower %d/%d state %s)", li.AofIndex, li.AofOffset, fi.AofIndex, fi.AofOffset, vfC10StateNames[fi.State])
			return false
		}
		time.Sleep(2 * time.Millisecond)
	}
	if err := cl.fol.Quiesce(); err != nil {
		cl.c.inconclusive("follower quiesce: %v", err)
		return false
	}
	return true
}

func (cl *vfC10Cluster) dial(addr, name, prefix string, text bool, tag byte) *vfC10Side {
	s := &vfC10Side{name: name, prefix: prefix, text: text}
	var err error
	if text {
		s.txt, err = vfC10nDialText(addr, name)
	} else {
		s.bin, err = vfC10nDialBinary(addr, name, tag)
	}
	if err != nil {
		cl.c.inconclusive("dial %s: %v", name, err)
		return nil
	}
	return s
}

// exec1 sends one op on a side and waits for its reply.
func (cl *vfC10Cluster) exec1(s *vfC10Side, o *vfC10Pair) (vfC10Answer, bool) {
	if s.text {
		v, err := s.txt.call(vfC10BuildText(o, s.prefix)...)
		if err != nil {
			cl.c.inconclusive("%s: text request %s: %v", s.name, o.String(), err)
			return vfC10Answer{}, false
		}
		return vfC10TextAnswer(v), true
	}
	r, err := s.bin.call(vfC10BuildBinary(o, s.prefix))
	if err != nil {
		cl.c.inconclusive("%s: binary request %s: %v", s.name, o.String(), err)
		return vfC10Answer{}, false
	}
	return vfC10BinAnswer(r), true
}

// nextOp draws the next paired op, steered by the model.
func (cl *vfC10Cluster) nextOp(keyBase, nKeys int) *vfC10Pair {
	rng := cl.rng
	key := keyBase + rng.Intn(nKeys)
	o := &vfC10Pair{Key: key}
	hs := cl.model.holders[key]
	if len(hs) > 0 && rng.Chance(40) {
		o.Kind = "unlock"
		o.LockId = hs[rng.Intn(len(hs))]
		if rng.Chance(15) {
			o.LockId = 900 + rng.Intn(5) // foreign
		}
		if rng.Chance(10) {
			o.Flag = protocol.UNLOCK_FLAG_UNLOCK_FIRST_LOCK_WHEN_UNLOCKED
		}
		if rng.Chance(15) {
			o.Rcount = uint8(rng.PickInt([]int{1, 0xff}))
		}
		return o
	}
	if rng.Chance(12) {
		o.Kind = "unlock" // nothing held / unknown
		o.LockId = 900 + rng.Intn(5)
		return o
	}
	o.Kind = "lock"
	o.Expried = 600
	o.Count = rng.PickU16([]uint16{0, 0, 1, 2, 5})
	o.LockId = rng.Intn(400)
	if len(hs) > 0 && rng.Chance(35) {
		o.LockId = hs[rng.Intn(len(hs))] // re-lock / update / show
		o.Rcount = uint8(rng.PickInt([]int{0, 2, 3}))
		switch rng.Intn(4) {
		case 0:
			o.Flag = protocol.LOCK_FLAG_UPDATE_WHEN_LOCKED
			o.Expried = uint16(rng.Range(500, 900))
		case 1:
			o.Flag = protocol.LOCK_FLAG_SHOW_WHEN_LOCKED
		}
	} else if len(hs) > 0 && rng.Chance(20) {
		o.Flag = protocol.LOCK_FLAG_SHOW_WHEN_LOCKED
	}
	if rng.Chance(50) {
		o.EFlag = protocol.EXPRIED_FLAG_ZEOR_AOF_TIME
	}
	if rng.Chance(25) {
		switch rng.Intn(3) {
		case 0:
			o.Data = fmt.Sprintf("SET:v%d", rng.Intn(100))
		case 1:
			o.Data = fmt.Sprintf("INCR:%d", rng.Range(1, 9))
		case 2:
			o.Data = "APPEND:" + string(rune('a'+rng.Intn(26)))
		}
	}
	return o
}

// learn updates the steering model from the reference answer.
func (cl *vfC10Cluster) learn(o *vfC10Pair, a vfC10Answer) {
	if a.Result != protocol.RESULT_SUCCED {
		return
	}
	hs := cl.model.holders[o.Key]
	if o.Kind == "lock" {
		if o.Expried == 0 {
			return
		}
		for _, h := range hs {
			if h == o.LockId {
				return
			}
		}
		cl.model.holders[o.Key] = append(hs, o.LockId)
		return
	}
	// unlock: the hold may still have depth left; forget it only when a later unlock fails - keep it simple: drop it
	out := hs[:0]
	for _, h := range hs {
		if h != o.LockId {
			out = append(out, h)
		}
	}
	if o.Flag&protocol.UNLOCK_FLAG_UNLOCK_FIRST_LOCK_WHEN_UNLOCKED != 0 && len(out) == len(hs) && len(hs) > 0 {
		out = hs[1:]
	}
	cl.model.holders[o.Key] = out
}

// queuedMacro: on a fresh key, a holder, then a request that has to wait at the
// leader (sent without waiting for its reply), then the release; the reply of
// the waiting request arrives asynchronously through the follower and must
// equal the leader's. Binary protocol only (a text connection blocks).
func (cl *vfC10Cluster) queuedMacro(phase string, keyBase int) bool {
	c := cl.c
	cl.nextK++
	key := keyBase + 50 + cl.nextK
	hold := &vfC10Pair{Kind: "lock", Key: key, LockId: 800, Expried: 600, Count: 0}
	wait := &vfC10Pair{Kind: "lock", Key: key, LockId: 801, Expried: 600, Timeout: 120, Count: 0}
	rel := &vfC10Pair{Kind: "unlock", Key: key, LockId: 800}
	a1, ok := cl.exec1(cl.viaF, hold)
	if !ok {
		return false
	}
	if a1.Refused || a1.Error {
		return true
	}
	r1, ok := cl.exec1(cl.ref, hold)
	if !ok {
		return false
	}
	if !vfC10Same(a1, r1) {
		c.violate("relay-differs", "relayed-reply-differs-from-leaders", "request %q through the follower (phase %s) was answered\n  %s\nbut directly at the leader\n  %s", hold.String(), phase, a1.Repr, r1.Repr)
		return false
	}
	idF, err := cl.viaF.bin.sendLock(vfC10BuildBinary(wait, cl.viaF.prefix))
	if err != nil {
		c.inconclusive("send queued request via follower: %v", err)
		return false
	}
	idR, err := cl.ref.bin.sendLock(vfC10BuildBinary(wait, cl.ref.prefix))
	if err != nil {
		c.inconclusive("send queued request at leader: %v", err)
		return false
	}
	// event: both requests are queued at the leader (or the follower path has answered already)
	kF := hex.EncodeToString(func() []byte { k := vfKey16(vfC10KeyName(cl.viaF.prefix, key)); return k[:] }())
	kR := hex.EncodeToString(func() []byte { k := vfKey16(vfC10KeyName(cl.ref.prefix, key)); return k[:] }())
	deadline := time.Now().Add(vfC10nWait)
	for {
		if len(cl.viaF.bin.find(idF)) > 0 {
			break // answered without waiting (refusal?) - judged below
		}
		sn, err := cl.leader.Snapshot()
		if err != nil {
			c.inconclusive("leader snapshot: %v", err)
			return false
		}
		q := 0
		for _, k := range sn.Keys {
			if (k.Key == kF || k.Key == kR) && k.Waiters == 1 {
				q++
			}
		}
		if q == 2 {
			break
		}
		if time.Now().After(deadline) {
			c.inconclusive("watchdog: the forwarded request with a time-out never showed up in the leader's queue")
			return false
		}
		time.Sleep(time.Millisecond)
	}
	a3, ok := cl.exec1(cl.viaF, rel)
	if !ok {
		return false
	}
	r3, ok := cl.exec1(cl.ref, rel)
	if !ok {
		return false
	}
	rf, err := cl.viaF.bin.waitFor(idF)
	if err != nil {
		c.inconclusive("reply of the queued request via follower: %v", err)
		return false
	}
	rr, err := cl.ref.bin.waitFor(idR)
	if err != nil {
		c.inconclusive("reply of the queued request at leader: %v", err)
		return false
	}
	a2, r2 := vfC10BinAnswer(rf), vfC10BinAnswer(rr)
	c.note("[%s] queued macro k%d: wait via follower: %s | at leader: %s ; release via follower: %s | at leader: %s", phase, key, a2.Repr, r2.Repr, a3.Repr, r3.Repr)
	c.part.Add("cluster_requests_via_follower", 3)
	c.part.Add("cluster_requests_binary", 3)
	c.part.Add("cluster_queued_requests_forwarded", 1)
	if a2.Refused || a3.Refused || a2.Error || a3.Error {
		c.part.Add("cluster_refusals", 1)
		return true
	}
	if !vfC10Same(a2, r2) || !vfC10Same(a3, r3) {
		c.violate("relay-differs", "relayed-reply-differs-from-leaders", "a request that waited in the leader's queue (or the release that woke it), sent through the follower in phase %s, was answered\n  %s / %s\nbut directly at the leader\n  %s / %s", phase, a2.Repr, a3.Repr, r2.Repr, r3.Repr)
		return false
	}
	c.part.Add("cluster_relayed_equal", 3)
	// leave the key held by 801: release it on both sides
	rel2 := &vfC10Pair{Kind: "unlock", Key: key, LockId: 801}
	if _, ok := cl.exec1(cl.viaF, rel2); !ok {
		return false
	}
	if _, ok := cl.exec1(cl.ref, rel2); !ok {
		return false
	}
	return true
}

// probeFirstCommand: the first command of a text connection at a follower is
// run by the local engine. Here it is an UNLOCK of a hold the script has taken
// (possibly not yet replicated): refusal, or the leader's answer.
func (cl *vfC10Cluster) probeFirstCommand(phase string, keyBase, nKeys int) bool {
	c := cl.c
	var o *vfC10Pair
	for k := keyBase; k < keyBase+nKeys; k++ {
		if hs := cl.model.holders[k]; len(hs) > 0 {
			o = &vfC10Pair{Kind: "unlock", Key: k, LockId: hs[len(hs)-1]}
		}
	}
	if o == nil {
		return true
	}
	tf, err := vfC10nDialText(cl.fol.Addr(), "first-command-at-follower")
	if err != nil {
		c.inconclusive("dial: %v", err)
		return false
	}
	defer tf.close()
	tl, err := vfC10nDialText(cl.leader.Addr(), "first-command-at-leader")
	if err != nil {
		c.inconclusive("dial: %v", err)
		return false
	}
	defer tl.close()
	// the whole request has to arrive within the first 64 bytes the server reads (it is parsed and run
	// by the connection's own text engine before the forwarding wrapper takes over): short form, raw 16-byte LockId
	lid := vfLockIdBytes(o.LockId)
	short := func(t *vfTextConn, prefix string) (vfC10Answer, bool) {
		v, err := t.call("UNLOCK", vfC10KeyName(prefix, o.Key), "LOCK_ID", string(lid[:]))
		if err != nil {
			c.inconclusive("%s: first text command: %v", t.name, err)
			return vfC10Answer{}, false
		}
		return vfC10TextAnswer(v), true
	}
	aF, ok := short(tf, cl.viaF.prefix)
	if !ok {
		return false
	}
	c.part.Add("cluster_first_text_command_probes", 1)
	if aF.Refused || aF.Result == protocol.RESULT_UNKNOWN_DB {
		c.part.Add("cluster_refusals", 1)
		c.note("[%s] first text command %s -> REFUSED %s", phase, o.String(), aF.Repr)
		return true
	}
	aR, ok := short(tl, cl.ref.prefix)
	if !ok {
		return false
	}
	c.note("[%s] first text command %s -> at follower: %s | at leader: %s", phase, o.String(), aF.Repr, aR.Repr)
	cl.learn(o, aR)
	if !c.sameButLingering(o.Key, aF, aR) {
		sig := "relayed-reply-differs-from-leaders"
		if aF.Result == protocol.RESULT_UNLOCK_ERROR {
			sig = vfC10SigUnlockLocal
		}
		c.violate("local-answer", sig, "UNLOCK %q sent as the first command of a text connection to the follower (phase %s: its replica does not have the hold yet) was answered by the follower itself\n  %s\nwhile the leader, asked the same for the mirrored key, answers\n  %s", o.String(), phase, aF.Repr, aR.Repr)
		// the mirrored key sets are out of step now (released at the leader's mirror only): release the original through the follower
		if _, ok := cl.exec1(cl.viaF, o); !ok {
			return false
		}
	}
	return true
}

// pairedScript runs n paired ops: through the follower first; unless refused,
// the same op at the leader on the mirror key; the two answers must be equal.
func (cl *vfC10Cluster) pairedScript(phase string, n int, keyBase int, nKeys int) bool {
	c := cl.c
	for j := 0; j < n && c.viol == 0 && c.fail == ""; j++ {
		if !cl.text && cl.rng.Chance(10) {
			if !cl.queuedMacro(phase, keyBase) {
				return false
			}
			continue
		}
		o := cl.nextOp(keyBase, nKeys)
		o2 := *o
		aF, ok := cl.exec1(cl.viaF, o)
		if !ok {
			return false
		}
		c.part.Add("cluster_requests_via_follower", 1)
		if cl.text {
			c.part.Add("cluster_requests_text", 1)
		} else {
			c.part.Add("cluster_requests_binary", 1)
		}
		c.part.Add("cluster_requests_phase_"+phase, 1)
		if aF.Refused {
			c.part.Add("cluster_refusals", 1)
			c.note("[%s] %s -> via follower REFUSED %s", phase, o.String(), aF.Repr)
			continue
		}
		if aF.Result == protocol.RESULT_UNKNOWN_DB {
			// a node that does not have the database says so (as a leader without it would): no decision about a lock
			c.part.Add("cluster_refusals_unknown_db", 1)
			c.note("[%s] %s -> via follower UNKNOWN_DB %s", phase, o.String(), aF.Repr)
			continue
		}
		if aF.Error {
			c.part.Add("cluster_forward_errors", 1)
			c.note("[%s] %s -> via follower ERROR %s (forwarding failed; outcome at the leader unknown)", phase, o.String(), aF.Repr)
			// the leader may or may not have executed it: abandon this key for the rest of the script
			continue
		}
		aR, ok := cl.exec1(cl.ref, &o2)
		if !ok {
			return false
		}
		c.note("[%s] %s -> follower path: %s | leader: %s", phase, o.String(), aF.Repr, aR.Repr)
		if !c.sameButLingering(o.Key, aF, aR) {
			c.violate("relay-differs", "relayed-reply-differs-from-leaders", "request %q sent through the follower (%s protocol, phase %s) was answered\n  %s\nbut the same script position directly at the leader gives\n  %s", o.String(), map[bool]string{true: "text", false: "binary"}[cl.text], phase, aF.Repr, aR.Repr)
			return false
		}
		c.part.Add("cluster_relayed_equal", 1)
		c.part.Mark("answers", vfStrHash(aR.Repr))
		cl.learn(o, aR)
	}
	return c.viol == 0 && c.fail == ""
}

func vfC10SnapHolds(s *vfC10nSnapshot) string {
	var sb strings.Builder
	for _, k := range s.Keys {
		if len(k.Holds) == 0 && !k.HasData {
			continue
		}
		fmt.Fprintf(&sb, "db%d %s data=%s", k.Db, k.Key, k.Data)
		for _, h := range k.Holds {
			fmt.Fprintf(&sb, " H(%s d=%d c=%d r=%d dl=%d)", h.LockId, h.Depth, h.Count, h.Rcount, h.Deadline)
		}
		sb.WriteString("\n")
	}
	return sb.String()
}

// vfC10OwnState renders two snapshots of one node for the own-state comparison. The value of a
// key that nobody holds is only kept while the key's record lingers (it is released on a timer of
// the node's own clock, not by a request): such a value disappearing between the two snapshots is
// not a state change, so the key is left out of both renderings. Everything else is compared as is.
func vfC10OwnState(s0, s1 *vfC10nSnapshot) (string, string) {
	type kk struct {
		db  uint8
		key string
	}
	after := map[kk]*vfC10nKey{}
	for i := range s1.Keys {
		after[kk{s1.Keys[i].Db, s1.Keys[i].Key}] = &s1.Keys[i]
	}
	skip := map[kk]bool{}
	for i := range s0.Keys {
		k := &s0.Keys[i]
		if len(k.Holds) != 0 || !k.HasData {
			continue
		}
		if b := after[kk{k.Db, k.Key}]; b == nil || (len(b.Holds) == 0 && !b.HasData) {
			skip[kk{k.Db, k.Key}] = true
		}
	}
	render := func(s *vfC10nSnapshot) string {
		c := *s
		c.Keys = nil
		for _, k := range s.Keys {
			if !skip[kk{k.Db, k.Key}] {
				c.Keys = append(c.Keys, k)
			}
		}
		return vfC10SnapHolds(&c)
	}
	return render(s0), render(s1)
}

func vfC10ClusterCase(env *vfEnv, part *vfPart, i int) {
	rng := vfCaseRand(env.Seed, "C10", i)
	c := &vfC10Ctx{part: part, env: env, caseN: i, fam: "cluster"}
	defer c.finish()
	base := vfScratchDir(env, fmt.Sprintf("c10b-%d", i))
	defer os.RemoveAll(base)
	cl := &vfC10Cluster{c: c, rng: rng, base: base, model: vfC10Model{holders: map[int][]int{}, waiting: map[int][]int{}}}
	cl.text = rng.Chance(45)
	var err error
	cl.leader, err = vfC10nStart(base, vfC10nCfg{Name: "leader", DBConcurrent: uint(rng.Range(1, 3))})
	if err != nil {
		c.inconclusive("start leader: %v", err)
		return
	}
	defer cl.leader.Kill()
	cl.px, err = vfC10nNewProxy(cl.leader.Addr())
	if err != nil {
		c.inconclusive("proxy: %v", err)
		return
	}
	defer cl.px.Close()
	// some state at the leader before the follower joins (it arrives by file transfer)
	pre := cl.dial(cl.leader.Addr(), "pre", "p", false, 9)
	if pre == nil {
		return
	}
	for j := rng.Intn(6); j > 0; j-- {
		o := &vfC10Pair{Kind: "lock", Key: j, LockId: 700 + j, Expried: 600, EFlag: protocol.EXPRIED_FLAG_ZEOR_AOF_TIME, Count: 1}
		if _, ok := cl.exec1(pre, o); !ok {
			return
		}
	}
	cl.fol, err = vfC10nStart(base, vfC10nCfg{Name: "follower", SlaveOf: cl.px.Addr(), DBConcurrent: uint(rng.Range(1, 3))})
	if err != nil {
		c.inconclusive("start follower: %v", err)
		return
	}
	defer cl.fol.Kill()
	if !cl.waitState(cl.fol, STATE_FOLLOWER) {
		return
	}
	crashed := func() bool {
		for _, n := range []*vfC10nNode{cl.leader, cl.fol} {
			if dead, tail := n.Crashed(base); dead {
				if vfCrashInRepo(tail) {
					c.violate("crash", "crash:"+vfCrashSig(tail), "node %s crashed: %s", n.Name, vfTrunc(vfPanicHead(tail), 1500))
				} else {
					c.inconclusive("node %s ended unexpectedly: %s", n.Name, vfTrunc(tail, 800))
				}
				return true
			}
		}
		return false
	}
	defer crashed()
	cl.viaF = cl.dial(cl.fol.Addr(), "via-follower", "a", cl.text, 1)
	cl.ref = cl.dial(cl.leader.Addr(), "at-leader", "b", cl.text, 2)
	if cl.viaF == nil || cl.ref == nil {
		return
	}
	nKeys := rng.Range(2, 5)
	// ---- phase 1: plain follower
	if !cl.pairedScript("follower", rng.Range(8, 25), 0, nKeys) {
		return
	}
	// ---- phase 2: replication stream held; the follower's own state must not move
	if rng.Chance(80) {
		if !cl.barrier() {
			return
		}
		s0, err := cl.fol.Snapshot()
		if err != nil {
			c.inconclusive("follower snapshot: %v", err)
			return
		}
		cl.px.Hold(true)
		cl.held = true
		ok := cl.pairedScript("held", rng.Range(6, 20), 0, nKeys)
		if ok && rng.Chance(70) {
			ok = cl.probeFirstCommand("held", 0, nKeys)
		}
		s1, err1 := cl.fol.Snapshot()
		li, _ := cl.leader.Info()
		fi, _ := cl.fol.Info()
		cl.px.Hold(false)
		cl.held = false
		if !ok {
			return
		}
		if err1 != nil {
			c.inconclusive("follower snapshot: %v", err1)
			return
		}
		a, b := vfC10OwnState(s0, s1)
		c.note("held phase: leader log position %d/%d, follower %d/%d", li.AofIndex, li.AofOffset, fi.AofIndex, fi.AofOffset)
		if a != b {
			c.violate("own-state-changed", "follower-state-changed-without-stream", "with the replication stream held at the proxy, client requests sent to the follower changed the follower's own holds / values\nbefore:\n%s\nafter:\n%s", a, b)
			return
		}
		part.Add("cluster_held_phases_state_unchanged", 1)
		if li.AofOffset != fi.AofOffset || li.AofIndex != fi.AofIndex {
			part.Add("cluster_held_phases_leader_moved_on", 1)
		}
		if !cl.barrier() {
			return
		}
		ls, err := cl.leader.Snapshot()
		fs, err2 := cl.fol.Snapshot()
		if err == nil && err2 == nil {
			if vfC10SnapPersisted(ls) == vfC10SnapPersisted(fs) {
				part.Add("cluster_catchup_snapshots_equal", 1)
			} else {
				part.Add("cluster_catchup_snapshots_differ_(C09_matter)", 1)
				c.note("after catch-up leader and follower differ (C09 matter):\nleader:\n%s\nfollower:\n%s", vfC10SnapPersisted(ls), vfC10SnapPersisted(fs))
			}
		}
	}
	// ---- phase 3: concurrent-check shortcut, each after a catch-up barrier
	for j := rng.Intn(4); j > 0 && c.viol == 0; j-- {
		if !cl.barrier() {
			return
		}
		o := &vfC10Pair{Kind: "lock", Key: rng.Intn(nKeys), LockId: 400 + rng.Intn(50), Flag: protocol.LOCK_FLAG_CONCURRENT_CHECK, Expried: 600, Count: rng.PickU16([]uint16{0, 1})}
		o2 := *o
		aF, ok := cl.exec1(cl.viaF, o)
		if !ok {
			return
		}
		part.Add("cluster_concurrent_check_requests", 1)
		if aF.Refused {
			continue
		}
		aR, ok := cl.exec1(cl.ref, &o2)
		if !ok {
			return
		}
		c.note("[ccheck] %s -> follower path: %s | leader: %s", o.String(), aF.Repr, aR.Repr)
		if !c.sameButLingering(o.Key, aF, aR) {
			c.violate("relay-differs", "relayed-reply-differs-from-leaders", "concurrent-check request %q through the caught-up follower was answered\n  %s\nbut directly at the leader\n  %s", o.String(), aF.Repr, aR.Repr)
			return
		}
		cl.learn(o, aR)
	}
	// ---- phase 4: role changes between two requests of one connection
	if rng.Chance(60) && c.viol == 0 {
		adm, err := vfC10nDialText(cl.fol.Addr(), "admin")
		if err != nil {
			c.inconclusive("dial admin: %v", err)
			return
		}
		defer adm.close()
		v, err := adm.call("SLAVEOF")
		if err != nil || v.Kind != '+' {
			c.inconclusive("SLAVEOF (promote): %v %v", err, v)
			return
		}
		if !cl.waitState(cl.fol, STATE_LEADER) {
			return
		}
		part.Add("cluster_promotions", 1)
		// on the same script connection: the node is leader now and decides itself (no oracle on the answers
		// beyond "it does not refuse"); fresh keys so that the mirrored key sets stay in step
		for j := rng.Range(1, 4); j > 0 && c.viol == 0; j-- {
			o := &vfC10Pair{Kind: "lock", Key: 5000 + j, LockId: 600 + j, Expried: 600, Count: 0}
			a, ok := cl.exec1(cl.viaF, o)
			if !ok {
				return
			}
			c.note("[promoted] %s -> %s", o.String(), a.Repr)
			part.Add("cluster_requests_while_promoted", 1)
			if a.Refused {
				c.note("promoted node refused a request (connection had not yet seen the role change)")
				part.Add("cluster_refusals_while_promoted", 1)
			}
		}
		holdSync := rng.Chance(60)
		var sBefore *vfC10nSnapshot
		if holdSync {
			cl.px.Hold(true)
		}
		paddr := strings.Split(cl.px.Addr(), ":")
		if err = adm.send("SLAVEOF", paddr[0], paddr[1]); err != nil {
			cl.px.Hold(false)
			c.inconclusive("SLAVEOF (demote): %v", err)
			return
		}
		type admReply struct {
			v   *vfRespValue
			err error
		}
		replyCh := make(chan admReply, 1)
		go func() {
			_ = adm.conn.SetReadDeadline(time.Now().Add(vfC10nWait))
			rv, rerr := vfReadResp(adm.br)
			replyCh <- admReply{rv, rerr}
		}()
		wedged := ""
		var ar admReply
		got := false
		for waited := 0; !got && wedged == "" && waited < 600; waited++ {
			select {
			case ar = <-replyCh:
				got = true
			case <-time.After(100 * time.Millisecond):
				// not answered yet: is the node wedged inside the role change? (decided structurally from its goroutine dump)
				if st, serr := cl.fol.Stacks(); serr == nil {
					wedged = vfC10WedgedRoleChange(st)
				}
			}
		}
		if wedged != "" {
			cl.px.Hold(false)
			part.Add("cluster_demotions_wedged", 1)
			c.violate("role-change-wedged", "slaveof-at-leader-self-deadlock:SwitchToFollower->updateState->WaitServerSynced", "SLAVEOF %s %s issued at a node that is leader never completes: the goroutine executing it holds ReplicationManager.glock in SwitchToFollower and blocks on the same mutex in SLock.updateState -> ReplicationManager.WaitServerSynced; the node stays in state %s with SLock.glock held, never starts replication, the admin connection is never answered. Goroutine:\n%s", paddr[0], paddr[1], "sync", vfTrunc(wedged, 1800))
			return
		}
		if !got || ar.err != nil || ar.v == nil || ar.v.Kind != '+' {
			cl.px.Hold(false)
			c.inconclusive("SLAVEOF (demote): %v %v", ar.err, ar.v)
			return
		}
		part.Add("cluster_demotions", 1)
		if holdSync {
			// the handshake answer is held: the node stays in the syncing state
			if !cl.waitState(cl.fol, STATE_SYNC) {
				cl.px.Hold(false)
				return
			}
			sBefore, err = cl.fol.Snapshot()
			if err != nil {
				cl.px.Hold(false)
				c.inconclusive("snapshot: %v", err)
				return
			}
			ok := cl.pairedScript("syncing", rng.Range(4, 12), 100, nKeys)
			sAfter, err2 := cl.fol.Snapshot()
			fi, _ := cl.fol.Info()
			cl.px.Hold(false)
			if !ok {
				return
			}
			if err2 != nil {
				c.inconclusive("snapshot: %v", err2)
				return
			}
			if fi != nil && fi.State == STATE_SYNC {
				a, b := vfC10OwnState(sBefore, sAfter)
				if a != b {
					c.violate("own-state-changed", "follower-state-changed-without-stream", "while syncing (handshake held at the proxy), client requests sent to the node changed its own holds / values\nbefore:\n%s\nafter:\n%s", a, b)
					return
				}
				part.Add("cluster_sync_phases_state_unchanged", 1)
			}
		}
		if !cl.waitState(cl.fol, STATE_FOLLOWER) {
			return
		}
		if !cl.pairedScript("rejoined", rng.Range(5, 15), 200, nKeys) {
			return
		}
	}
	crashed()
	hs := uint64(0)
	if cl.text {
		hs = 1
	}
	hs = vfMix(hs ^ uint64(part.Counters["cluster_relayed_equal"])<<8 ^ uint64(i)<<40)
	part.Mark("cases", hs)
	if c.fail == "" {
		part.Mark("nontrivial", hs)
		part.Add("cluster_scenarios_completed", 1)
	}
	syncs := []string{}
	for _, sy := range cl.px.Syncs() {
		syncs = append(syncs, fmt.Sprintf("sync#%d requests=%q responses=%v records=%d", sy.Seq, sy.Requests, sy.Responses, len(sy.Records)))
	}
	part.Sample(3, map[string]interface{}{"case": i, "family": "cluster", "protocol": map[bool]string{true: "text", false: "binary"}[cl.text], "replication_connections": syncs, "log_head": c.log[:vfC10Min(len(c.log), 12)]})
}

// vfC10WedgedRoleChange looks for a goroutine that is inside
// ReplicationManager.SwitchToFollower (which holds ReplicationManager.glock
// across SLock.updateState) and is blocked locking a mutex inside
// ReplicationManager.WaitServerSynced (whose first statement locks that same
// mutex): a self-deadlock. Returns the goroutine's stack, or "".
func vfC10WedgedRoleChange(stacks string) string {
	for _, g := range strings.Split(stacks, "\n\n") {
		if strings.Contains(g, "(*ReplicationManager).SwitchToFollower") && strings.Contains(g, "(*SLock).updateState") &&
			strings.Contains(g, "(*ReplicationManager).WaitServerSynced") && (strings.Contains(g, "sync.(*Mutex).Lock") || strings.Contains(g, "sync.(*Mutex).lockSlow")) {
			head := g
			if k := strings.Index(head, "\n"); k > 0 {
				head = head[:k]
			}
			if strings.Contains(head, "sync.Mutex.Lock") || strings.Contains(head, "semacquire") {
				return g
			}
		}
	}
	return ""
}

// vfC10SnapPersisted renders the replicated part of a snapshot (deadlines left out).
func vfC10SnapPersisted(s *vfC10nSnapshot) string {
	var sb strings.Builder
	for _, k := range s.Keys {
		hs := []string{}
		for _, h := range k.Holds {
			if h.IsAof {
				hs = append(hs, fmt.Sprintf("H(%s d=%d c=%d r=%d)", h.LockId, h.Depth, h.Count, h.Rcount))
			}
		}
		if len(hs) == 0 {
			continue
		}
		sort.Strings(hs)
		fmt.Fprintf(&sb, "db%d %s data=%s %s\n", k.Db, k.Key, k.Data, strings.Join(hs, " "))
	}
	return sb.String()
}

// ------------------------------------------------------------------ entry

func TestVerif_C10(t *testing.T) {
	start := time.Now()
	vfContinueAfterPanic = true
	env := vfGetEnv("C10")
	if env.Replay != "" {
		// a replay file names the seed of the run that produced it
		var doc struct {
			Seed int64 `json:"seed"`
		}
		if b, err := os.ReadFile(env.Replay); err == nil && json.Unmarshal(b, &doc) == nil && doc.Seed != 0 {
			env.Seed = doc.Seed
		}
	}
	nCluster := env.N(480, 12000)
	nClock := env.N(600, 15000)
	nConn := env.N(1500, 40000)
	nState := env.N(10000, 250000)
	n := nCluster + nClock + nConn + nState
	runCase := func(part *vfPart, i int) {
		switch {
		case i < nCluster:
			vfC10ClusterCase(env, part, i)
		case i < nCluster+nClock:
			vfC10ClockCase(env, part, i)
		case i < nCluster+nClock+nConn:
			vfC10ConnCase(env, part, i)
		default:
			vfC10StateCase(env, part, i)
		}
	}
	part := vfRunSharded(t, env, "TestVerif_C10", n, vfNumCPU(), runCase)
	if part == nil {
		return
	}
	spec := &vfSpec{Prop: "C10", Level: "exploration", NontrivSet: "nontrivial",
		Rule: fmt.Sprintf("case list fixed by the seed: %d cluster scenarios (leader + follower OS processes, frame-aware proxy on the follower->leader path; the same PRNG script of lock / re-lock / update / show / unlock / value operations is sent through the follower's port and, position by position, directly to the leader on a mirrored key set, in binary or text protocol; phases: plain follower, replication stream held, concurrent-check after catch-up, SLAVEOF promote + demote on the live script connection incl. the syncing state), %d follower-clock cases (replicated holds applied through Aof.ReplayLock on a FOLLOWER/SYNC db on a virtual clock, probed up to deadline+299 and beyond, with leader UNLOCK / update records arriving late), %d connection cases (binary / text requests through Server.handle of a node in SYNC / FOLLOWER / VOTE / CONFIG state) and %d state scripts (LockDB populated as leader, switched to a non-leader state, 20-60 PRNG requests incl. role flips and FROM_AOF commands); non-trivial = a cluster scenario that completed, a clock case, a connection case with >=5 refusals, a state script with holds and >=10 refusals; distinct = hash of scenario parameters / final census", nCluster, nClock, nConn, nState),
		Assumptions: []string{
			"cluster scenarios run real Server.Listen/Serve node processes on loopback TCP; every wait is on an event (reply, node state, log position) with a 20-60 s watchdog whose firing makes the case inconclusive",
			"a reply with result ERROR (11) through the follower (forwarding connection lost) is counted, not judged; the request is not mirrored",
			"the concurrent-check shortcut may answer TIMEOUT from the replica; it is compared with the leader's answer only right after a catch-up barrier",
			"the first text command of a connection at a follower is executed by the local engine and refused: accepted as refusal",
			"states covered in-package: SYNC, FOLLOWER, VOTE, CONFIG; VOTE/CONFIG are not produced by a real election here (see C12)",
			"the statement's 'ended after deadline+300' is observed (counter clock_ended_after_wait / clock_never_ended...) but only 'not before' decides",
		},
		Floors: []string{"cluster_relayed_equal", "cluster_held_phases_state_unchanged", "cluster_promotions", "cluster_demotions", "cluster_requests_text", "cluster_requests_binary", "clock_present_at_deadline_plus_299", "state_refusals", "conn_refusals", "state_stream_commands_applied", "state_role_flips"}}
	vfFinish(t, env, spec, part, start)
}
