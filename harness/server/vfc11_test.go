//go:build verif

package server

// C11 (E1 variant): require-ack locks on a stand-alone leader, where the
// acknowledgement is the leader's own log flush. Covers: SUCCED only after the
// record is in the log file, LOCK_ACK_WAITING meanwhile, rollback (ERROR,
// value undone, waiters served) when the log write fails, the wait times out
// or the pending hold is released first; exactly one reply.

import (
	"os"
	"strings"
	"testing"
)

func init() {
	vfExtraCoreProps = append(vfExtraCoreProps, func(m map[string]*vfCoreProp, base vfProfile) {
		p := base
		p.Name = "c11"
		p.AckPct = 45
		p.AofFailPct = 12

		p.Typed = true
		p.DataPct = 35
		p.ShowPct = 8
		p.NKeys = [2]int{1, 2}
		p.NLockIds = [2]int{3, 6}
		p.InjectPct = 25
		if os.Getenv("VERIF_C11_NOINJECT") != "" {
			p.InjectPct = 0
		}
		p.WaitHeavy = true
		p.AckRelock = true // in 10% of the scripts (open known finding relock-with-require-ack)
		p.AckData = os.Getenv("VERIF_C11_NODATA") == "" // value operations on require-ack requests: the rollback of a failed one must undo the value change
		m["C11"] = &vfCoreProp{Prop: "C11", Profile: p, Quick: 3000, Thorough: 100000,
			Rule: "case i = PRNG script splitmix(seed,'C11',i) on a stand-alone leader (acknowledgement = own log flush): 45% of the lock requests carry the require-ack flag (fresh grants and grants from the wait queue, with and without value operations); operations, ticks (wait time-out), unlock-first / cancel-wait and requests for the pending LockId are injected at the entry of the acknowledgement handler; in 4% of the steps the append file's descriptor is closed so that the log write fails (later healed by a rotation); non-trivial = at least one require-ack grant completed and one was rolled back or probed while pending; distinct = hash of the reply trace",
			Nontrivial: func(st map[string]int64) bool {
				return st["ack_completed"] > 0 && (st["ack_failed"]+st["ack_timeouts"]+st["cancel_ack_pending"]+st["res_LOCK_ACK_WAITING"] > 0)
			},
			Floors:      []string{"ack_completed", "ack_failed", "ack_timeouts", "ack_pending_from_queue", "res_LOCK_ACK_WAITING", "ack_log_checked", "value_ack_ops_admitted", "hit_ACK_ENTER"},
			Assumptions: append([]string{"stand-alone leader: the configured number of follower acknowledgements is zero, the leader's own log flush is the acknowledgement (follower acknowledgements are the subject of the cluster engine)", "the main goroutine waits for the AOF channel goroutines after every operation, so acknowledgement handling is sequential; the racy orders are constructed by injection at VP_ACK_ENTER"}, vfCoreAssumptions...),
			Value:       true, Ack: true,
			// the statement also promises: exactly one (error) reply, hold removed,
			// value change undone, nothing leaked
			Adopt: func(f *vfFinding) bool {
				switch f.Prop {
				case "C03":
					return true
				case "C15":
					// (which value the SUCCED of an acknowledged request carries is C15's matter, not C11's)
					// a mismatch whose value had already diverged through a multi-operation pipeline before the
					// admission (no reply is sent at admission, so it comes to light after the rollback) is the
					// C15 pipeline finding, not a failed rollback
					return f.Clause == "malformed-value" || (f.Clause == "reply-value" && strings.Contains(f.Detail, "rollback of") && f.Sig != "pipeline-with-more-than-one-value-operation")
				case "C17":
					return f.Clause == "structure" || strings.HasPrefix(f.Clause, "drain-") || strings.HasPrefix(f.Clause, "state-")
				}
				return false
			}}
	})
}

func init() {
	vfCoreStages["C11"] = func(env *vfEnv, part *vfPart, spec *vfSpec) {
		if os.Getenv("VERIF_C11_NOCLUSTER") != "" {
			return
		}
		vfC11ClusterStage(env, part)
		spec.Floors = append(spec.Floors, vfC11ClusterFloors...)
		spec.Assumptions = append(spec.Assumptions, vfC11ClusterAssumptions...)
		spec.Rule += "; cluster stage: leader + 1-2 follower processes behind proxies that own the acknowledgement frames (hold / forward / negate / drop / cut), ack mode all / majority, 3-5 episodes per scenario (fresh, beside a holder, granted from the queue; acknowledged one by one, first ack negative, all withheld until the time-out, cancel, two pending at once, connection cut, SLAVEOF at the leader) with probes for the pending LockId"
	}
}

func TestVerif_C11(t *testing.T) { vfRunCoreCheck(t, "C11") }
