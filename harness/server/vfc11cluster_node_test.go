//go:build verif

package server

// Cluster engine (E3) pieces used by the cluster stage of C11: a "node mode" of the test binary (a
// real Server on a loopback port, driven over a line protocol on stdin/stdout)
// and, on the controller side, the node handle and a frame-aware TCP proxy that
// sits between a follower and its leader.
//
// NOTE: derived from vfc10_node_test.go (prefix vfC10n -> vfC11n) and extended: the proxy owns the
// upstream acknowledgement frames (hold / forward / negate / drop / cut), the node has an
// ack mode and a "hasack" control command.

import (
	"bufio"
	"encoding/hex"
	"encoding/json"
	"errors"
	"fmt"
	"io"
	"net"
	"os"
	"os/exec"
	"path/filepath"
	"runtime"
	"sort"
	"strings"
	"sync"
	"sync/atomic"
	"syscall"
	"testing"
	"time"

	"github.com/hhkbp2/go-logging"
	"github.com/snower/slock/protocol"
)

const vfC11nWait = 60 * time.Second // generous watchdog: firing = inconclusive, never a verdict

// ------------------------------------------------------------------ node side

type vfC11nCfg struct {
	Name         string `json:"name"`
	Dir          string `json:"dir"`
	SlaveOf      string `json:"slaveof"`
	Ring         uint   `json:"ring"`
	RingMax      uint   `json:"ringmax"`
	RewriteSize  uint   `json:"rewrite"`
	DBConcurrent uint   `json:"shards"`
	AofBuf       uint   `json:"aofbuf"`
	AofTime      uint   `json:"aoftime"`
	KeepDir      string `json:"keepdir"` // closed append files are hard-linked here before compaction can remove them
	AckMode      uint   `json:"ackmode"` // Config.AofAckMode: 1 = majority, otherwise all
}

type vfC11nFileStream struct {
	mu sync.Mutex
	f  *os.File
}

func (s *vfC11nFileStream) Tell() (int64, error) { return 0, nil }
func (s *vfC11nFileStream) Write(str string) error {
	s.mu.Lock()
	_, err := s.f.WriteString(str)
	s.mu.Unlock()
	return err
}
func (s *vfC11nFileStream) Flush() error { return nil }
func (s *vfC11nFileStream) Close() error { return nil }

type vfC11nHold struct {
	LockId   string `json:"lid"`
	Depth    uint8  `json:"depth"`
	Count    uint16 `json:"count"`
	Rcount   uint8  `json:"rcount"`
	Deadline int64  `json:"deadline"`
	EFlag    uint16 `json:"eflag"`
	IsAof    bool   `json:"isaof"`
}

type vfC11nKey struct {
	Db      uint8        `json:"db"`
	Key     string       `json:"key"`
	Data    string       `json:"data"`
	HasData bool         `json:"hasdata"`
	Holds   []vfC11nHold `json:"holds"`
	Waiters int          `json:"waiters"`
}

type vfC11nSnapshot struct {
	Keys     []vfC11nKey `json:"keys"`
	Errors   []string    `json:"errors"`
	Now      int64       `json:"now"`
	ClockLag int64       `json:"clocklag"` // largest observed lag (s) of a db's own clock behind real time in this process
}

// vfC11nClockLag: on a starved machine LockDB.currentTime (advanced by a
// goroutine that hands every second to the sweepers) falls behind real time;
// deadlines computed meanwhile are off by up to that lag.
var vfC11nClockLag int64

func vfC11nWatchClock(s *SLock) {
	for {
		now := time.Now().Unix()
		for d := 0; d < 256; d++ {
			if db := s.dbs[d]; db != nil {
				if lag := now - db.currentTime; lag > atomic.LoadInt64(&vfC11nClockLag) {
					atomic.StoreInt64(&vfC11nClockLag, lag)
				}
			}
		}
		time.Sleep(10 * time.Millisecond)
	}
}

type vfC11nInfo struct {
	State       uint8  `json:"state"`
	AofId       string `json:"aofid"` // ReplicationManager.GetCurrentAofID()
	AofIndex    uint32 `json:"aofindex"`
	AofOffset   uint32 `json:"aofoffset"`
	RingSeq     uint64 `json:"ringseq"`
	RingSize    uint64 `json:"ringsize"`
	RingUsed    uint64 `json:"ringused"`
	RingDup     uint32 `json:"ringdup"`
	Servers     int    `json:"servers"`
	HasClient   bool   `json:"hasclient"`
	Connects    uint64 `json:"connects"`
	Loads       uint64 `json:"loads"`
	Recvs       uint64 `json:"recvs"`
	Replays     uint64 `json:"replays"`
	Appends     uint64 `json:"appends"`
	RecvedFiles bool   `json:"recvedfiles"`
	Rewriting   bool   `json:"rewriting"`
	Leader      string `json:"leader"`
	Dbs         int    `json:"dbs"`
}

func vfC11nAofId(id [16]byte) string { return hex.EncodeToString(id[:]) }

func vfC11nTakeSnapshot(s *SLock) *vfC11nSnapshot {
	snap := &vfC11nSnapshot{Now: time.Now().Unix(), ClockLag: atomic.LoadInt64(&vfC11nClockLag)}
	for d := 0; d < 256; d++ {
		db := s.dbs[d]
		if db == nil {
			continue
		}
		c := vfTakeCensus(db)
		for _, e := range c.Errors {
			snap.Errors = append(snap.Errors, fmt.Sprintf("db%d: %s", d, e))
		}
		for _, k := range c.Keys {
			if len(k.Holds) == 0 && len(k.Waiters) == 0 && !k.HasData {
				continue
			}
			nk := vfC11nKey{Db: k.Db, Key: hex.EncodeToString(k.Key[:]), HasData: k.HasData, Data: hex.EncodeToString(k.Data), Waiters: len(k.Waiters)}
			for _, h := range k.Holds {
				nk.Holds = append(nk.Holds, vfC11nHold{LockId: hex.EncodeToString(h.LockId[:]), Depth: h.Depth, Count: h.Count, Rcount: h.Rcount, Deadline: h.Deadline, EFlag: h.EFlag, IsAof: h.IsAof})
			}
			sort.Slice(nk.Holds, func(i, j int) bool { return nk.Holds[i].LockId < nk.Holds[j].LockId })
			snap.Keys = append(snap.Keys, nk)
		}
	}
	sort.Slice(snap.Keys, func(i, j int) bool {
		if snap.Keys[i].Db != snap.Keys[j].Db {
			return snap.Keys[i].Db < snap.Keys[j].Db
		}
		return snap.Keys[i].Key < snap.Keys[j].Key
	})
	return snap
}

// vfC11nQuiesce waits until the AOF channels of this node are idle and the
// append file buffer is flushed (stable twice in a row).
func vfC11nQuiesce(s *SLock) bool {
	aof := s.GetAof()
	stable := 0
	deadline := time.Now().Add(vfC11nWait / 2)
	for stable < 3 {
		if time.Now().After(deadline) {
			return false
		}
		busy := atomic.LoadUint32(&aof.channelActiveCount) != 0
		for d := 0; d < 256; d++ {
			db := s.dbs[d]
			if db == nil {
				continue
			}
			for _, ch := range db.aofChannels {
				ch.queueGlock.Lock()
				if ch.queueCount != 0 || !ch.queuePulled {
					busy = true
				}
				ch.queueGlock.Unlock()
			}
		}
		aof.aofGlock.Lock()
		if aof.aofFile != nil && (aof.aofFile.windex > 0 || aof.aofFile.dwindex > 0 || aof.aofFile.ackIndex > 0) {
			busy = true
			aof.Flush()
		}
		aof.aofGlock.Unlock()
		if cc := s.replicationManager.clientChannel; cc != nil {
			if len(cc.replayQueue) != 0 || len(cc.aofQueue) != 0 || len(cc.pushQueue) != 0 {
				busy = true
			}
			st := cc.state
			if st.replayCount != st.recvCount || st.appendCount != st.recvCount {
				busy = true
			}
		}
		if busy {
			stable = 0
			time.Sleep(500 * time.Microsecond)
		} else {
			stable++
			time.Sleep(200 * time.Microsecond)
		}
	}
	return true
}

func vfC11nGetInfo(s *SLock) *vfC11nInfo {
	in := &vfC11nInfo{State: s.state}
	rm := s.replicationManager
	in.AofId = vfC11nAofId(rm.GetCurrentAofID())
	aof := s.GetAof()
	aof.aofGlock.Lock()
	in.AofIndex, in.AofOffset = aof.aofFileIndex, aof.aofFileOffset
	aof.aofGlock.Unlock()
	aof.glock.Lock()
	in.Rewriting = aof.isRewriting
	aof.glock.Unlock()
	bq := rm.bufferQueue
	in.RingSeq, in.RingSize, in.RingUsed, in.RingDup = bq.seq, bq.bufferSize, bq.usedBufferSize, bq.dupCount
	// no rm.glock here: a node wedged inside a role change must still answer
	in.Servers = len(rm.serverChannels)
	in.Leader = rm.leaderAddress
	if cc := rm.clientChannel; cc != nil {
		in.HasClient = true
		st := cc.state
		in.Connects, in.Loads, in.Recvs, in.Replays, in.Appends = st.connectCount, st.loadCount, st.recvCount, st.replayCount, st.appendCount
		in.RecvedFiles = cc.recvedFiles
	}
	for d := 0; d < 256; d++ {
		if s.dbs[d] != nil {
			in.Dbs++
		}
	}
	return in
}

// vfC11nKeepFiles hard-links every append file of the data directory into the
// keep directory (name prefixed with the inode), so that the content survives
// the server's own compaction. Called at VP_REWRITE_FILE_CLOSED (the file that
// was just closed is complete on disk) and on request.
func vfC11nKeepFiles(dir, keep string) {
	if keep == "" {
		return
	}
	ents, err := os.ReadDir(dir)
	if err != nil {
		return
	}
	for _, e := range ents {
		n := e.Name()
		if !strings.HasPrefix(n, "append.aof.") {
			continue
		}
		fi, err := os.Stat(filepath.Join(dir, n))
		if err != nil {
			continue
		}
		st, ok := fi.Sys().(*syscall.Stat_t)
		if !ok {
			continue
		}
		base := n
		ino := st.Ino
		if strings.HasSuffix(n, ".dat") {
			// key the value file by the inode of its record file so that the pair stays together
			if fi2, err2 := os.Stat(filepath.Join(dir, strings.TrimSuffix(n, ".dat"))); err2 == nil {
				if st2, ok2 := fi2.Sys().(*syscall.Stat_t); ok2 {
					ino = st2.Ino
				}
			}
		}
		dst := filepath.Join(keep, fmt.Sprintf("%d-%s", ino, base))
		if _, err := os.Stat(dst); err == nil {
			continue
		}
		_ = os.Link(filepath.Join(dir, n), dst)
	}
}

func vfC11nDiskHasAckLock(dir, keyHex, lockIdHex string) (bool, int) {
	ents, err := os.ReadDir(dir)
	if err != nil {
		return false, 0
	}
	n := 0
	for _, e := range ents {
		name := e.Name()
		if !(strings.HasPrefix(name, "append.aof.") || name == "rewrite.aof") || strings.HasSuffix(name, ".dat") {
			continue
		}
		b, err := os.ReadFile(filepath.Join(dir, name))
		if err != nil || len(b) < 12 {
			continue
		}
		for pos := 12; pos+64 <= len(b); pos += 64 {
			r := b[pos : pos+64]
			n++
			if r[2] != protocol.COMMAND_LOCK {
				continue
			}
			flag := uint16(r[55]) | uint16(r[56])<<8
			if flag&AOF_FLAG_REQUIRE_ACKED == 0 {
				continue
			}
			if hex.EncodeToString(r[37:53]) == keyHex && hex.EncodeToString(r[21:37]) == lockIdHex {
				return true, n
			}
		}
	}
	return false, n
}

// TestVerifC11Node is the node mode: it is a no-op unless VERIF_C11_NODE is set.
func TestVerifC11Node(t *testing.T) {
	js := os.Getenv("VERIF_C11_NODE")
	if js == "" {
		return
	}
	var cfg vfC11nCfg
	if err := json.Unmarshal([]byte(js), &cfg); err != nil {
		fmt.Printf("@@{\"error\":%q}\n", err.Error())
		os.Exit(3)
	}
	_ = os.MkdirAll(cfg.Dir, 0755)
	if cfg.KeepDir != "" {
		_ = os.MkdirAll(cfg.KeepDir, 0755)
	}
	lf, err := os.OpenFile(filepath.Join(filepath.Dir(cfg.Dir), cfg.Name+".log"), os.O_CREATE|os.O_WRONLY|os.O_APPEND, 0644)
	if err != nil {
		fmt.Printf("@@{\"error\":%q}\n", err.Error())
		os.Exit(3)
	}
	logger := logging.GetLogger("node")
	lvl := logging.LevelInfo
	_ = logger.SetLevel(lvl)
	h := logging.NewStreamHandler("nodefile", lvl, &vfC11nFileStream{f: lf})
	h.SetFormatter(logging.NewStandardFormatter("%(asctime)s %(levelname)s %(message)s", "%H:%M:%S.%3n"))
	logger.AddHandler(h)

	if cfg.DBConcurrent == 0 {
		cfg.DBConcurrent = 2
	}
	if cfg.AofBuf == 0 {
		cfg.AofBuf = 4096
	}
	if cfg.RewriteSize == 0 {
		cfg.RewriteSize = 64 << 20
	}
	if cfg.Ring == 0 {
		cfg.Ring = 1 << 16
	}
	if cfg.RingMax == 0 {
		cfg.RingMax = 1 << 20
	}
	sc := &ServerConfig{Bind: "127.0.0.1", Port: 0, Log: "-", LogLevel: "INFO", DataDir: cfg.Dir,
		DBFastKeyCount: 64, DBConcurrent: cfg.DBConcurrent, DBLockAofTime: cfg.AofTime, DBLockAofParcentTime: 0.3,
		AofQueueSize: 65536, AofFileRewriteSize: cfg.RewriteSize, AofFileBufferSize: cfg.AofBuf,
		AofRingBufferSize: cfg.Ring, AofRingBufferMaxSize: cfg.RingMax, SlaveOf: cfg.SlaveOf, AofAckMode: cfg.AckMode}
	verifManual = false
	s := NewSLock(sc, logger)
	if cfg.KeepDir != "" {
		verifHook = func(point int) {
			if point == VP_REWRITE_FILE_CLOSED {
				vfC11nKeepFiles(cfg.Dir, cfg.KeepDir)
			}
		}
	}
	srv := NewServer(s)
	if err := s.Init(srv); err != nil {
		fmt.Printf("@@{\"error\":%q}\n", "init: "+err.Error())
		os.Exit(3)
	}
	if err := srv.Listen(); err != nil {
		fmt.Printf("@@{\"error\":%q}\n", "listen: "+err.Error())
		os.Exit(3)
	}
	port := srv.server.Addr().(*net.TCPAddr).Port
	sc.Port = uint(port)
	go srv.Serve()
	go vfC11nWatchClock(s)
	out := bufio.NewWriter(os.Stdout)
	reply := func(v interface{}) {
		b, _ := json.Marshal(v)
		_, _ = out.WriteString("@@")
		_, _ = out.Write(b)
		_ = out.WriteByte('\n')
		_ = out.Flush()
	}
	reply(map[string]interface{}{"ready": true, "port": port, "pid": os.Getpid()})
	in := bufio.NewReader(os.Stdin)
	for {
		line, err := in.ReadString('\n')
		if err != nil {
			os.Exit(0) // controller went away
		}
		f := strings.Fields(line)
		if len(f) == 0 {
			continue
		}
		switch f[0] {
		case "info":
			reply(vfC11nGetInfo(s))
		case "quiesce":
			reply(map[string]interface{}{"ok": vfC11nQuiesce(s)})
		case "snapshot":
			ok := vfC11nQuiesce(s)
			snap := vfC11nTakeSnapshot(s)
			if !ok {
				snap.Errors = append(snap.Errors, "watchdog: node did not become idle")
			}
			reply(snap)
		case "keep":
			s.GetAof().aofGlock.Lock()
			s.GetAof().Flush()
			vfC11nKeepFiles(cfg.Dir, cfg.KeepDir)
			s.GetAof().aofGlock.Unlock()
			reply(map[string]interface{}{"ok": true})
		case "hasack":
			// is a LOCK record with the require-ack flag for this key / LockId in an append file on disk (nothing is flushed for the answer)
			found, n := false, 0
			if len(f) == 3 {
				found, n = vfC11nDiskHasAckLock(cfg.Dir, f[1], f[2])
			}
			reply(map[string]interface{}{"found": found, "records": n})
		case "stacks":
			buf := make([]byte, 4<<20)
			buf = buf[:runtime.Stack(buf, true)]
			reply(map[string]interface{}{"stacks": string(buf)})
		case "exit":
			reply(map[string]interface{}{"ok": true})
			os.Exit(0)
		default:
			reply(map[string]interface{}{"error": "unknown command " + f[0]})
		}
	}
}

// ------------------------------------------------------------------ controller side: node handle

type vfC11nNode struct {
	Name  string
	Dir   string
	Keep  string
	Port  int
	cmd   *exec.Cmd
	stdin io.WriteCloser
	lines chan string
	mu    sync.Mutex
	dead  bool
}

func (n *vfC11nNode) Addr() string { return fmt.Sprintf("127.0.0.1:%d", n.Port) }

// vfC11nStart launches a node process and waits for its ready line.
func vfC11nStart(base string, cfg vfC11nCfg) (*vfC11nNode, error) {
	var n *vfC11nNode
	err := vfRetryPorts(func() error {
		var e error
		n, e = vfC11nStart1(base, cfg)
		return e
	})
	return n, err
}

func vfC11nStart1(base string, cfg vfC11nCfg) (*vfC11nNode, error) {
	cfg.Dir = filepath.Join(base, cfg.Name)
	if cfg.KeepDir == "" {
		cfg.KeepDir = filepath.Join(base, cfg.Name+".keep")
	}
	js, _ := json.Marshal(cfg)
	cmd := exec.Command(os.Args[0], "-test.run", "^TestVerifC11Node$", "-test.timeout", "0")
	env := []string{}
	for _, e := range os.Environ() {
		if strings.HasPrefix(e, "VERIF_SHARD") || strings.HasPrefix(e, "VERIF_PART") || strings.HasPrefix(e, "GOMAXPROCS=") {
			continue
		}
		env = append(env, e)
	}
	cmd.Env = append(env, "VERIF_C11_NODE="+string(js), "GOMAXPROCS=4")
	stdin, err := cmd.StdinPipe()
	if err != nil {
		return nil, err
	}
	stdout, err := cmd.StdoutPipe()
	if err != nil {
		return nil, err
	}
	errf, _ := os.Create(filepath.Join(base, cfg.Name+".stderr"))
	cmd.Stderr = errf
	if err := cmd.Start(); err != nil {
		return nil, err
	}
	if errf != nil {
		_ = errf.Close()
	}
	n := &vfC11nNode{Name: cfg.Name, Dir: cfg.Dir, Keep: cfg.KeepDir, cmd: cmd, stdin: stdin, lines: make(chan string, 64)}
	go func() {
		br := bufio.NewReaderSize(stdout, 1<<20)
		for {
			line, err := br.ReadString('\n')
			if strings.HasPrefix(line, "@@") {
				n.lines <- strings.TrimSpace(line[2:])
			}
			if err != nil {
				close(n.lines)
				_ = cmd.Wait()
				return
			}
		}
	}()
	var ready struct {
		Ready bool   `json:"ready"`
		Port  int    `json:"port"`
		Error string `json:"error"`
	}
	if err := n.recv(&ready); err != nil {
		n.Kill()
		return nil, fmt.Errorf("node %s did not start: %v (stderr: %s)", cfg.Name, err, n.Stderr(base))
	}
	if !ready.Ready {
		n.Kill()
		return nil, fmt.Errorf("node %s failed to start: %s", cfg.Name, ready.Error)
	}
	n.Port = ready.Port
	return n, nil
}

func (n *vfC11nNode) Stderr(base string) string {
	b, _ := os.ReadFile(filepath.Join(base, n.Name+".stderr"))
	return vfTrunc(string(b), 3000)
}

func (n *vfC11nNode) recv(out interface{}) error {
	select {
	case l, ok := <-n.lines:
		if !ok {
			n.dead = true
			return errors.New("node process ended")
		}
		return json.Unmarshal([]byte(l), out)
	case <-time.After(vfC11nWait):
		return errors.New("watchdog: node did not answer")
	}
}

// Ask sends one control command and decodes the answer.
func (n *vfC11nNode) Ask(cmd string, out interface{}) error {
	n.mu.Lock()
	defer n.mu.Unlock()
	if n.dead {
		return errors.New("node process ended")
	}
	if _, err := io.WriteString(n.stdin, cmd+"\n"); err != nil {
		n.dead = true
		return err
	}
	return n.recv(out)
}

func (n *vfC11nNode) Info() (*vfC11nInfo, error) {
	in := &vfC11nInfo{}
	err := n.Ask("info", in)
	return in, err
}

func (n *vfC11nNode) Snapshot() (*vfC11nSnapshot, error) {
	s := &vfC11nSnapshot{}
	err := n.Ask("snapshot", s)
	return s, err
}

func (n *vfC11nNode) Quiesce() error {
	var r struct {
		Ok bool `json:"ok"`
	}
	if err := n.Ask("quiesce", &r); err != nil {
		return err
	}
	if !r.Ok {
		return errors.New("watchdog: node did not become idle")
	}
	return nil
}

// Stacks returns the goroutine dump of the node process.
func (n *vfC11nNode) Stacks() (string, error) {
	var r struct {
		Stacks string `json:"stacks"`
	}
	err := n.Ask("stacks", &r)
	return r.Stacks, err
}

func (n *vfC11nNode) Kill() {
	if n.cmd != nil && n.cmd.Process != nil {
		_ = n.cmd.Process.Kill()
	}
	_ = n.stdin.Close()
}

// Crashed reports whether the node process died on its own, with the tail of its stderr.
func (n *vfC11nNode) Crashed(base string) (bool, string) {
	n.mu.Lock()
	d := n.dead
	n.mu.Unlock()
	if !d {
		return false, ""
	}
	return true, n.Stderr(base)
}

// ------------------------------------------------------------------ controller side: clients over TCP

func vfC11nDialBinary(addr string, name string, tag byte) (*vfBinConn, error) {
	c, err := vfDialLoopback(addr, 5*time.Second)
	if err != nil {
		return nil, err
	}
	b := &vfBinConn{name: name, conn: c, tag: tag, sent: map[[16]byte]bool{}}
	b.cond = sync.NewCond(&b.mu)
	go b.readLoop()
	return b, nil
}

func vfC11nDialText(addr string, name string) (*vfTextConn, error) {
	c, err := vfDialLoopback(addr, 5*time.Second)
	if err != nil {
		return nil, err
	}
	return &vfTextConn{name: name, conn: c, br: bufio.NewReaderSize(c, 65536)}, nil
}

// ------------------------------------------------------------------ controller side: frame-aware proxy

// vfC11nRec is one record seen on the leader->follower stream.
type vfC11nRec struct {
	Buf   [64]byte
	Data  []byte // value frame incl. its 4 length bytes (nil if none)
	Phase int    // 1 = file transfer, 2 = live stream
	Idx   uint32
	Off   uint32
	Type  uint8
}

// vfC11nSync is one replication connection as seen by the proxy.
type vfC11nSync struct {
	Seq       int
	Requests  []string // aof ids requested by SYNC ("" = from scratch); more than one after ERR_NOT_FOUND
	Responses []string // "ok:<aofid>" or "err:<type>"
	FullSync  bool     // the accepted request was the empty one
	StartId   string   // aof id in the accepted response
	Records   []*vfC11nRec
	FilesDone bool
	DownBytes int64 // bytes forwarded to the follower after the handshake
	CutAt     int64 // planned cut (bytes after the handshake, -1 none)
	CutDone   bool
	CutPhase  int
	Closed    bool
	Partial   bool // the connection ended inside a record / value frame
	Garbage   string
}

type vfC11nFault struct {
	CutAfter int64         // cut the replication stream after this many bytes of phase CutPhase (-1: none)
	CutPhase int           // 1 = bytes of the file transfer are counted, 2 = bytes of the live stream
	Delay    time.Duration // sleep per forwarded chunk (slow follower)
	ChunkMax int           // forward at most this many bytes per write
	RcvBuf   int           // >0: shrink the proxy's receive buffer towards the leader (back-pressure reaches the leader's sender)
}

// vfC11nAck is one acknowledgement frame (follower -> leader) seen by the proxy.
type vfC11nAck struct {
	Seq    int
	Key    [16]byte
	LockId [16]byte
	AofId  [16]byte
	Result uint8
	frame  []byte // 64 bytes + optional value frame
	up     net.Conn
	down   net.Conn
	wmu    *sync.Mutex
	State  string // held | forwarded | negated | dropped | cut | passed
	Sync   int
}

type vfC11nProxy struct {
	acks      []*vfC11nAck
	ackHold   bool
	ln        net.Listener
	target    string
	mu        sync.Mutex
	cond      *sync.Cond
	syncs     []*vfC11nSync
	plain     int // forwarded client connections
	hold      bool
	faults    []vfC11nFault // consumed one per replication connection
	conns     []net.Conn
	closed    bool
	heldBytes int64
}

func vfC11nNewProxy(target string) (*vfC11nProxy, error) {
	ln, err := vfListenLoopback()
	if err != nil {
		return nil, err
	}
	p := &vfC11nProxy{ln: ln, target: target}
	p.cond = sync.NewCond(&p.mu)
	go p.acceptLoop()
	return p, nil
}

func (p *vfC11nProxy) Addr() string { return p.ln.Addr().String() }

func (p *vfC11nProxy) SetTarget(t string) { p.mu.Lock(); p.target = t; p.mu.Unlock() }

// Hold(true) stops forwarding leader->follower replication bytes (the
// connection stays open); Hold(false) releases them.
func (p *vfC11nProxy) Hold(h bool) {
	p.mu.Lock()
	p.hold = h
	p.cond.Broadcast()
	p.mu.Unlock()
}

func (p *vfC11nProxy) AddFault(f vfC11nFault) {
	p.mu.Lock()
	p.faults = append(p.faults, f)
	p.mu.Unlock()
}

// HoldAcks(true): acknowledgement frames are kept by the proxy until Act decides about them.
func (p *vfC11nProxy) HoldAcks(h bool) { p.mu.Lock(); p.ackHold = h; p.mu.Unlock() }

// WaitAck waits until the follower's acknowledgement for (key, lockId) has reached the proxy.
func (p *vfC11nProxy) WaitAck(key, lockId [16]byte, d time.Duration) *vfC11nAck {
	deadline := time.Now().Add(d)
	for {
		p.mu.Lock()
		for _, a := range p.acks {
			if a.Key == key && a.LockId == lockId {
				p.mu.Unlock()
				return a
			}
		}
		p.mu.Unlock()
		if time.Now().After(deadline) {
			return nil
		}
		time.Sleep(time.Millisecond)
	}
}

func (p *vfC11nProxy) AckCount() int { p.mu.Lock(); defer p.mu.Unlock(); return len(p.acks) }

// Act decides about a held acknowledgement: "forward", "negate" (result byte
// rewritten to RESULT_ERROR), "drop", "cut" (the replication connection is
// closed instead of delivering it), "duplicate" (delivered twice).
func (p *vfC11nProxy) Act(a *vfC11nAck, action string) error {
	p.mu.Lock()
	if a.State != "held" {
		p.mu.Unlock()
		return fmt.Errorf("ack #%d is %s", a.Seq, a.State)
	}
	a.State = map[string]string{"forward": "forwarded", "negate": "negated", "drop": "dropped", "cut": "cut", "duplicate": "forwarded"}[action]
	p.mu.Unlock()
	switch action {
	case "drop":
		return nil
	case "cut":
		_ = a.up.Close()
		_ = a.down.Close()
		return nil
	}
	b := append([]byte(nil), a.frame...)
	if action == "negate" {
		b[19] = protocol.RESULT_ERROR
	}
	a.wmu.Lock()
	_, err := a.up.Write(b)
	if err == nil && action == "duplicate" {
		_, err = a.up.Write(b)
	}
	a.wmu.Unlock()
	return err
}

// pumpAcks forwards the follower->leader direction behind the "started" marker: 64-byte result frames with optional value frames.
func (p *vfC11nProxy) pumpAcks(sy *vfC11nSync, up, down net.Conn, wmu *sync.Mutex) {
	br := bufio.NewReaderSize(down, 1<<16)
	for {
		fr := make([]byte, 64)
		if _, err := io.ReadFull(br, fr); err != nil {
			return
		}
		lr := protocol.LockResultCommand{}
		_ = lr.Decode(fr)
		if lr.Flag&protocol.LOCK_FLAG_CONTAINS_DATA != 0 {
			lb := make([]byte, 4)
			if _, err := io.ReadFull(br, lb); err != nil {
				return
			}
			n := int(uint32(lb[0]) | uint32(lb[1])<<8 | uint32(lb[2])<<16 | uint32(lb[3])<<24)
			body := make([]byte, n)
			if _, err := io.ReadFull(br, body); err != nil {
				return
			}
			fr = append(append(fr, lb...), body...)
		}
		a := &vfC11nAck{Key: lr.LockKey, LockId: lr.LockId, AofId: lr.RequestId, Result: lr.Result, frame: fr, up: up, down: down, wmu: wmu, Sync: sy.Seq}
		p.mu.Lock()
		a.Seq = len(p.acks)
		hold := p.ackHold
		if hold {
			a.State = "held"
		} else {
			a.State = "passed"
		}
		p.acks = append(p.acks, a)
		p.mu.Unlock()
		if !hold {
			wmu.Lock()
			_, err := up.Write(fr)
			wmu.Unlock()
			if err != nil {
				return
			}
		}
	}
}

func (p *vfC11nProxy) ClearFaults() { p.mu.Lock(); p.faults = nil; p.mu.Unlock() }

// WaitSyncs waits until at least n replication connections have completed
// their handshake (or the watchdog fires: false).
func (p *vfC11nProxy) WaitSyncs(n int, d time.Duration) bool {
	deadline := time.Now().Add(d)
	for {
		p.mu.Lock()
		c := 0
		for _, sy := range p.syncs {
			if sy.StartId != "" {
				c++
			}
		}
		p.mu.Unlock()
		if c >= n {
			return true
		}
		if time.Now().After(deadline) {
			return false
		}
		time.Sleep(5 * time.Millisecond)
	}
}

func (p *vfC11nProxy) Syncs() []*vfC11nSync {
	p.mu.Lock()
	defer p.mu.Unlock()
	return append([]*vfC11nSync(nil), p.syncs...)
}

func (p *vfC11nProxy) Close() {
	p.mu.Lock()
	p.closed = true
	p.hold = false
	cs := p.conns
	p.conns = nil
	p.cond.Broadcast()
	p.mu.Unlock()
	_ = p.ln.Close()
	for _, c := range cs {
		_ = c.Close()
	}
}

// CutAll closes every open connection passing through the proxy.
func (p *vfC11nProxy) CutAll() {
	p.mu.Lock()
	cs := p.conns
	p.conns = nil
	p.mu.Unlock()
	for _, c := range cs {
		_ = c.Close()
	}
}

func (p *vfC11nProxy) track(c net.Conn) {
	p.mu.Lock()
	if p.closed {
		_ = c.Close()
	} else {
		p.conns = append(p.conns, c)
	}
	p.mu.Unlock()
}

func (p *vfC11nProxy) acceptLoop() {
	for {
		c, err := p.ln.Accept()
		if err != nil {
			return
		}
		go p.serve(c)
	}
}

func vfC11nSyncRequestId(data []byte) string {
	// protobuf SyncRequest{AofId string = 1}
	if len(data) >= 2 && data[0] == 0x0a && int(data[1]) <= len(data)-2 {
		return string(data[2 : 2+int(data[1])])
	}
	return ""
}

func (p *vfC11nProxy) serve(down net.Conn) {
	p.track(down)
	p.mu.Lock()
	target := p.target
	p.mu.Unlock()
	up, err := vfDialLoopback(target, 5*time.Second)
	if err != nil {
		_ = down.Close()
		return
	}
	p.track(up)
	first := make([]byte, 64)
	n, err := io.ReadFull(down, first)
	isSync := false
	if err == nil && n == 64 && first[2] == protocol.COMMAND_CALL {
		cc := protocol.CallCommand{}
		_ = cc.Decode(first)
		if cc.MethodName == "SYNC" {
			isSync = true
		}
	}
	if !isSync {
		p.mu.Lock()
		p.plain++
		p.mu.Unlock()
		_, _ = up.Write(first[:n])
		go func() { _, _ = io.Copy(up, down); _ = up.Close(); _ = down.Close() }()
		_, _ = io.Copy(down, up)
		_ = up.Close()
		_ = down.Close()
		return
	}
	sy := &vfC11nSync{CutAt: -1}
	fault := vfC11nFault{CutAfter: -1}
	p.mu.Lock()
	sy.Seq = len(p.syncs)
	p.syncs = append(p.syncs, sy)
	if len(p.faults) > 0 {
		fault = p.faults[0]
		p.faults = p.faults[1:]
	}
	p.mu.Unlock()
	sy.CutAt = fault.CutAfter
	// upstream: parse SYNC requests (there may be a second one after ERR_NOT_FOUND), then forward blindly
	upDone := make(chan struct{})
	go func() {
		defer close(upDone)
		hdr := first
		for {
			cc := protocol.CallCommand{}
			_ = cc.Decode(hdr)
			body := make([]byte, cc.ContentLen)
			if cc.ContentLen > 0 {
				if _, err := io.ReadFull(down, body); err != nil {
					return
				}
			}
			p.mu.Lock()
			sy.Requests = append(sy.Requests, vfC11nSyncRequestId(body))
			p.mu.Unlock()
			if _, err := up.Write(append(append([]byte(nil), hdr...), body...)); err != nil {
				return
			}
			hdr = make([]byte, 64)
			if _, err := io.ReadFull(down, hdr); err != nil {
				return
			}
			if hdr[2] != protocol.COMMAND_CALL {
				// the "started" marker: behind it come the acknowledgement frames, which the proxy owns
				if _, err := up.Write(hdr); err != nil {
					return
				}
				p.pumpAcks(sy, up, down, &sync.Mutex{})
				return
			}
		}
	}()
	p.pumpDown(sy, fault, up, down)
	_ = up.Close()
	_ = down.Close()
	<-upDone
	p.mu.Lock()
	sy.Closed = true
	p.cond.Broadcast()
	p.mu.Unlock()
}

// pumpDown forwards the leader->follower direction of a replication
// connection, parsing it: CALL results of the handshake, then 64-byte records
// with optional value frames; it applies hold / throttle / cut.
func (p *vfC11nProxy) pumpDown(sy *vfC11nSync, fault vfC11nFault, up, down net.Conn) {
	br := bufio.NewReaderSize(up, 1<<16)
	if fault.RcvBuf > 0 {
		if tc, ok := up.(*net.TCPConn); ok {
			_ = tc.SetReadBuffer(fault.RcvBuf)
		}
		br = bufio.NewReaderSize(up, 512)
	}
	// ---- handshake
	for {
		hdr := make([]byte, 64)
		if _, err := io.ReadFull(br, hdr); err != nil {
			return
		}
		cr := protocol.CallResultCommand{}
		_ = cr.Decode(hdr)
		body := make([]byte, cr.ContentLen)
		if cr.ContentLen > 0 {
			if _, err := io.ReadFull(br, body); err != nil {
				return
			}
		}
		if hdr[2] != protocol.COMMAND_CALL {
			p.mu.Lock()
			sy.Garbage = fmt.Sprintf("handshake answer has command type %d", hdr[2])
			p.mu.Unlock()
			return
		}
		p.mu.Lock()
		for p.hold && !p.closed {
			p.cond.Wait() // a held stream also holds the handshake answer: the follower stays in the syncing state
		}
		p.mu.Unlock()
		if _, err := down.Write(append(hdr, body...)); err != nil {
			return
		}
		if cr.Result != 0 || cr.ErrType != "" {
			p.mu.Lock()
			sy.Responses = append(sy.Responses, "err:"+cr.ErrType)
			p.mu.Unlock()
			if cr.ErrType == "ERR_NOT_FOUND" {
				continue // the follower asks again from scratch on the same connection
			}
			// other errors: the follower gives up on this connection
			continue
		}
		id := vfC11nSyncRequestId(body) // SyncResponse has the same shape
		p.mu.Lock()
		sy.Responses = append(sy.Responses, "ok:"+id)
		sy.StartId = id
		if len(sy.Requests) > 0 && sy.Requests[len(sy.Requests)-1] == "" {
			sy.FullSync = true
		}
		if len(sy.Requests) == 0 {
			sy.FullSync = true
		}
		p.mu.Unlock()
		break
	}
	// ---- records
	phase := 2
	p.mu.Lock()
	if sy.FullSync {
		phase = 1
	}
	p.mu.Unlock()
	var budget int64 = -1 // bytes still allowed before the cut (-1: no cut pending)
	armed := fault.CutAfter >= 0
	if armed && fault.CutPhase == phase {
		budget = fault.CutAfter
	}
	forward := func(b []byte) bool {
		for len(b) > 0 {
			p.mu.Lock()
			for p.hold && !p.closed {
				p.cond.Wait()
			}
			closed := p.closed
			p.mu.Unlock()
			if closed {
				return false
			}
			n := len(b)
			if fault.ChunkMax > 0 && n > fault.ChunkMax {
				n = fault.ChunkMax
			}
			cut := false
			if budget >= 0 && int64(n) > budget { // strictly more: a chunk that ends exactly at the cut position is delivered whole, the cut falls before the next byte
				n = int(budget)
				cut = true
			}
			if n > 0 {
				if _, err := down.Write(b[:n]); err != nil {
					return false
				}
				p.mu.Lock()
				sy.DownBytes += int64(n)
				p.mu.Unlock()
				if budget >= 0 {
					budget -= int64(n)
				}
			}
			if cut {
				p.mu.Lock()
				sy.CutDone = true
				sy.CutPhase = phase
				p.mu.Unlock()
				return false
			}
			b = b[n:]
			if fault.Delay > 0 {
				time.Sleep(fault.Delay)
			}
		}
		return true
	}
	for {
		rec := &vfC11nRec{Phase: phase}
		if _, err := io.ReadFull(br, rec.Buf[:]); err != nil {
			return
		}
		al := AofLock{buf: rec.Buf[:]}
		_ = al.Decode()
		rec.Idx, rec.Off, rec.Type = al.AofIndex, al.AofOffset, al.CommandType
		marker := al.CommandType == protocol.COMMAND_INIT && al.AofIndex == 0xffffffff && al.AofOffset == 0xffffffff
		if !marker && al.CommandType != protocol.COMMAND_QUIT && al.AofFlag&AOF_FLAG_CONTAINS_DATA != 0 {
			lb := make([]byte, 4)
			if _, err := io.ReadFull(br, lb); err != nil {
				p.mu.Lock()
				sy.Partial = true
				p.mu.Unlock()
				_ = forward(rec.Buf[:])
				return
			}
			n := int(uint32(lb[0]) | uint32(lb[1])<<8 | uint32(lb[2])<<16 | uint32(lb[3])<<24)
			if n > CONTENT_DATA_MAX_LENGTH {
				p.mu.Lock()
				sy.Garbage = fmt.Sprintf("value frame of %d bytes announced behind record %d/%d", n, al.AofIndex, al.AofOffset)
				p.mu.Unlock()
				return
			}
			rec.Data = make([]byte, 4+n)
			copy(rec.Data, lb)
			if _, err := io.ReadFull(br, rec.Data[4:]); err != nil {
				p.mu.Lock()
				sy.Partial = true
				p.mu.Unlock()
				_ = forward(append(rec.Buf[:], lb...))
				return
			}
		}
		if al.CommandType != protocol.COMMAND_LOCK && al.CommandType != protocol.COMMAND_UNLOCK && !marker && al.CommandType != protocol.COMMAND_QUIT {
			p.mu.Lock()
			sy.Garbage = fmt.Sprintf("record with command type %d in the stream (framing lost?)", al.CommandType)
			p.mu.Unlock()
		}
		ok := forward(rec.Buf[:])
		if ok && rec.Data != nil {
			ok = forward(rec.Data)
		}
		if !ok {
			p.mu.Lock()
			sy.Partial = true
			p.mu.Unlock()
			return
		}
		if marker {
			p.mu.Lock()
			sy.FilesDone = true
			p.mu.Unlock()
			phase = 2
			budget = -1 // a cut planned for the transfer that lay beyond its end is not injected
			if armed && fault.CutPhase == 2 {
				budget = fault.CutAfter
			}
			continue
		}
		if al.CommandType == protocol.COMMAND_QUIT {
			continue
		}
		p.mu.Lock()
		sy.Records = append(sy.Records, rec)
		p.cond.Broadcast()
		p.mu.Unlock()
	}
}
