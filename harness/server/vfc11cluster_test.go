//go:build verif

package server

// C11, cluster stage: require-ack locks with real followers. Leader + 1..2
// follower OS processes; the frame-aware proxy on every follower->leader path
// OWNS the acknowledgement frames (64-byte result frames follower -> leader):
// it holds them and the controller forwards, negates (result byte rewritten),
// drops or duplicates them, or cuts the connection instead of delivering.
//
// Oracle (the statement):
//  (1) SUCCED of a require-ack lock is not received before the required number
//      of follower acknowledgements has been released by the proxy and the LOCK
//      record with the require-ack flag is in the leader's append file (asked
//      at reply time); with the acknowledgements withheld the requester ends
//      with an error at its time-out;
//  (2) meanwhile other requests for that LockId are answered LOCK_ACK_WAITING
//      and never succeed;
//  (3) negative ack, cut before the ack, cancel / time-out first, demotion
//      (SLAVEOF): exactly one error reply, hold absent from the leader's
//      snapshot, the key's value as before the request, queued requests granted;
//  (4) exactly one terminal reply per request.

import (
	"encoding/hex"
	"encoding/json"
	"fmt"
	"os"
	"strings"
	"testing"
	"time"

	"github.com/snower/slock/protocol"
)

type vfC11cCtx struct {
	part  *vfPart
	env   *vfEnv
	caseN int
	log   []string
	viol  int
	fail  string
	t0    time.Time
}

func (c *vfC11cCtx) note(f string, a ...interface{}) {
	if len(c.log) < 2000 {
		c.log = append(c.log, fmt.Sprintf("%6.2fs ", time.Since(c.t0).Seconds())+fmt.Sprintf(f, a...))
	}
}

func (c *vfC11cCtx) violate(clause, sig, f string, a ...interface{}) {
	c.viol++
	d := fmt.Sprintf(f, a...)
	c.note("VIOLATION %s: %s", clause, d)
	if c.viol > 6 {
		return
	}
	rp := vfWriteReplay(c.env, fmt.Sprintf("cluster-case%d.json", c.caseN), map[string]interface{}{"case": c.caseN, "seed": c.env.Seed, "tier": c.env.Tier, "stage": "cluster", "log": c.log})
	c.part.Violate(vfViolation{Prop: "C11", Clause: "cluster/" + clause, Detail: d, Case: c.caseN, Replay: rp, Sig: sig})
}

func (c *vfC11cCtx) inconclusive(f string, a ...interface{}) {
	if c.fail == "" {
		c.fail = fmt.Sprintf("cluster case %d: ", c.caseN) + fmt.Sprintf(f, a...)
		c.note("INCONCLUSIVE %s", c.fail)
	}
}

func (c *vfC11cCtx) finish() {
	if c.fail != "" {
		c.part.Add("cluster_inconclusive_cases", 1)
		tail := c.log
		if len(tail) > 20 {
			tail = tail[len(tail)-20:]
		}
		if c.part.Counters["cluster_inconclusive_cases"] <= 4 {
			c.part.Inconclusive = append(c.part.Inconclusive, c.fail+"; log tail="+strings.Join(tail, " | "))
		}
	}
}

type vfC11cFol struct {
	name string
	node *vfC11nNode
	px   *vfC11nProxy
}

type vfC11cSent struct {
	id   [16]byte
	conn *vfBinConn
	desc string
}

type vfC11cScn struct {
	c        *vfC11cCtx
	rng      *vfRand
	base     string
	leader   *vfC11nNode
	fols     []*vfC11cFol
	mode     uint // 1 = majority, else all
	required int  // follower acknowledgements a require-ack lock needs
	req      *vfBinConn
	probe    *vfBinConn
	sent     []vfC11cSent
	ep       int
}

func (s *vfC11cScn) key() [16]byte { return vfKey16(fmt.Sprintf("c11-%d-%d", s.c.caseN, s.ep)) }

func (s *vfC11cScn) lockCmd(key [16]byte, lid int, timeout, expried, count uint16, ack bool, payload string) *protocol.LockCommand {
	l := protocol.NewLockCommand(0, key, vfLockIdBytes(lid), timeout, expried, count)
	if ack {
		l.TimeoutFlag |= protocol.TIMEOUT_FLAG_REQUIRE_ACKED
	}
	if payload != "" {
		l.Data = protocol.NewLockCommandDataSetString(payload)
	}
	return l
}

func (s *vfC11cScn) send(conn *vfBinConn, l *protocol.LockCommand, desc string) ([16]byte, bool) {
	id, err := conn.sendLock(l)
	if err != nil {
		s.c.inconclusive("send %s: %v", desc, err)
		return id, false
	}
	s.sent = append(s.sent, vfC11cSent{id, conn, desc})
	s.c.part.Add("cluster_requests", 1)
	return id, true
}

func (s *vfC11cScn) call(conn *vfBinConn, l *protocol.LockCommand, desc string) (*vfBinResult, bool) {
	id, ok := s.send(conn, l, desc)
	if !ok {
		return nil, false
	}
	r, err := conn.waitFor(id)
	if err != nil {
		s.c.inconclusive("reply of %s: %v", desc, err)
		return nil, false
	}
	s.c.note("%s -> %s lcount=%d lrcount=%d", desc, vfResName(r.Result), r.LCount, r.LRCount)
	return r, true
}

// keyState returns the holds (LockId hex) and the value of a key in the leader's snapshot.
func (s *vfC11cScn) keyState(key [16]byte) (map[string]bool, string, bool) {
	sn, err := s.leader.Snapshot()
	if err != nil {
		s.c.inconclusive("leader snapshot: %v", err)
		return nil, "", false
	}
	kh := hex.EncodeToString(key[:])
	holds := map[string]bool{}
	val := ""
	for _, k := range sn.Keys {
		if k.Db == 0 && k.Key == kh {
			for _, h := range k.Holds {
				holds[h.LockId] = true
			}
			val = k.Data
		}
	}
	return holds, val, true
}

func (s *vfC11cScn) hasAckRecord(key [16]byte, lid int) (bool, bool) {
	var r struct {
		Found   bool `json:"found"`
		Records int  `json:"records"`
	}
	l := vfLockIdBytes(lid)
	if err := s.leader.Ask(fmt.Sprintf("hasack %s %s", hex.EncodeToString(key[:]), hex.EncodeToString(l[:])), &r); err != nil {
		s.c.inconclusive("hasack: %v", err)
		return false, false
	}
	return r.Found, true
}

// settle gives a wrong early reply a chance to show up (its absence proves nothing; its presence decides).
func vfC11cSettle() { time.Sleep(30 * time.Millisecond) }

// episode runs one require-ack request through one outcome.
func (s *vfC11cScn) episode(layout, outcome string) bool {
	c, rng, part := s.c, s.rng, s.c.part
	s.ep++
	key := s.key()
	tag := fmt.Sprintf("ep%d[%s/%s]", s.ep, layout, outcome)
	part.Add("cluster_episodes_"+layout+"_"+outcome, 1)
	payload := ""
	if rng.Chance(70) {
		payload = fmt.Sprintf("pay-%d-%d-%d", c.caseN, s.ep, rng.Intn(100000))
	}
	rTimeout := uint16(30)
	if outcome == "withheld" {
		rTimeout = uint16(rng.Range(2, 3))
	}
	if outcome == "cut" {
		rTimeout = uint16(rng.Range(3, 4))
	}
	const lidP, lidR, lidQ = 1, 2, 3
	var rCount uint16
	for _, f := range s.fols {
		f.px.HoldAcks(true)
	}
	// ---- set the stage
	switch layout {
	case "beside": // a plain holder with a value; the require-ack request is admitted beside it
		rCount = 1
		if r, ok := s.call(s.probe, s.lockCmd(key, lidP, 0, 600, 1, false, fmt.Sprintf("v0-%d-%d", c.caseN, s.ep)), tag+" plain holder P with value"); !ok {
			return false
		} else if r.Result != protocol.RESULT_SUCCED {
			c.inconclusive("%s: holder P not granted: %s", tag, vfResName(r.Result))
			return false
		}
	case "fresh":
		rCount = 0
	case "queued": // granted from the wait queue
		rCount = 0
		if r, ok := s.call(s.probe, s.lockCmd(key, lidP, 0, 600, 0, false, fmt.Sprintf("v0-%d-%d", c.caseN, s.ep)), tag+" plain holder H"); !ok {
			return false
		} else if r.Result != protocol.RESULT_SUCCED {
			c.inconclusive("%s: holder H not granted: %s", tag, vfResName(r.Result))
			return false
		}
	}
	_, valBefore, ok := s.keyState(key)
	if !ok {
		return false
	}
	ackBefore := make([]int, len(s.fols))
	for i, f := range s.fols {
		ackBefore[i] = f.px.AckCount()
	}
	idR, ok := s.send(s.req, s.lockCmd(key, lidR, rTimeout, 600, rCount, true, payload), tag+" require-ack R")
	if !ok {
		return false
	}
	if layout == "queued" {
		// R waits behind H; releasing H admits it (pending acknowledgement)
		vfC11cSettle()
		if len(s.req.find(idR)) != 0 {
			c.violate("early-reply", "", "%s: the require-ack request was answered (%s) while the key was held exclusively by another LockId", tag, vfResName(s.req.find(idR)[0].Result))
			return false
		}
		u := s.lockCmd(key, lidP, 0, 0, 0, false, "")
		u.CommandType = protocol.COMMAND_UNLOCK
		if r, ok := s.call(s.probe, u, tag+" unlock H"); !ok {
			return false
		} else if r.Result != protocol.RESULT_SUCCED {
			c.inconclusive("%s: unlock H: %s", tag, vfResName(r.Result))
			return false
		}
		// the value H attached stays the key's value while R is pending? (R may carry its own): re-read the reference value
		// after H is gone and before R's acknowledgement completes is not possible without racing; keep valBefore only if R carries no payload
	}
	// ---- the followers' acknowledgements reach the proxies (held there)
	acks := []*vfC11nAck{}
	for _, f := range s.fols {
		a := f.px.WaitAck(key, vfLockIdBytes(lidR), vfC11nWait/2)
		if a == nil {
			if rs := s.req.find(idR); len(rs) > 0 {
				c.violate("reply-before-any-ack", "reply-before-follower-acknowledgement", "%s: the require-ack request was answered %s before follower %s had even acknowledged it (required follower acknowledgements: %d)", tag, vfResName(rs[0].Result), f.name, s.required)
				return false
			}
			c.inconclusive("%s: watchdog: no acknowledgement from %s reached the proxy", tag, f.name)
			return false
		}
		acks = append(acks, a)
		part.Add("cluster_acks_seen", 1)
	}
	// ---- while pending
	early := func(where string, released int) bool {
		rs := s.req.find(idR)
		if len(rs) == 0 {
			return false
		}
		if rs[0].Result == protocol.RESULT_SUCCED {
			c.violate("succed-before-acks", "succed-before-required-follower-acknowledgements", "%s: SUCCED was received %s with %d of %d required follower acknowledgements released by the proxy (ack mode %s, %d followers)", tag, where, released, s.required, map[uint]string{1: "majority"}[s.mode]+map[bool]string{true: "all"}[s.mode != 1], len(s.fols))
		} else {
			c.violate("early-error", "", "%s: the pending request was answered %s %s although nothing had failed yet", tag, vfResName(rs[0].Result), where)
		}
		return true
	}
	vfC11cSettle()
	if early("while all acknowledgements were held", 0) {
		return false
	}
	// (2) other requests for that LockId
	nProbe := rng.Range(1, 3)
	for j := 0; j < nProbe; j++ {
		var l *protocol.LockCommand
		what := ""
		switch rng.Intn(4) {
		case 0, 1:
			l = s.lockCmd(key, lidR, 0, 600, rCount, false, "")
			if rng.Chance(30) {
				l.Flag |= protocol.LOCK_FLAG_UPDATE_WHEN_LOCKED
			}
			what = "lock"
		case 2:
			l = s.lockCmd(key, lidR, 0, 0, 0, false, "")
			l.CommandType = protocol.COMMAND_UNLOCK
			what = "unlock"
		default:
			l = s.lockCmd(key, lidR, 0, 0, 0, false, "")
			l.CommandType = protocol.COMMAND_UNLOCK
			l.Rcount = 0xff
			what = "unlock-all-depths"
		}
		r, ok := s.call(s.probe, l, tag+" probe "+what+" for the pending LockId")
		if !ok {
			return false
		}
		part.Add("cluster_pending_probes", 1)
		if r.Result == protocol.RESULT_SUCCED {
			c.violate("pending-probe-succeeded", "request-for-pending-lockid-succeeded", "%s: a %s for the LockId that awaits acknowledgement was answered SUCCED", tag, what)
			return false
		}
		if r.Result != protocol.RESULT_LOCK_ACK_WAITING {
			c.violate("pending-probe", "request-for-pending-lockid-not-ack-waiting", "%s: a %s for the LockId that awaits acknowledgement was answered %s instead of LOCK_ACK_WAITING", tag, what, vfResName(r.Result))
			return false
		}
		part.Add("cluster_pending_probes_ack_waiting", 1)
	}
	if layout == "fresh" && rng.Chance(40) {
		u := s.lockCmd(key, 9, 0, 0, 0, false, "")
		u.CommandType = protocol.COMMAND_UNLOCK
		u.Flag = protocol.UNLOCK_FLAG_UNLOCK_FIRST_LOCK_WHEN_UNLOCKED
		r, ok := s.call(s.probe, u, tag+" probe unlock-first (oldest hold is the pending one)")
		if !ok {
			return false
		}
		if r.Result == protocol.RESULT_SUCCED {
			c.violate("pending-probe-succeeded", "request-for-pending-lockid-succeeded", "%s: unlock-first released the hold that awaits acknowledgement", tag)
			return false
		}
		part.Add("cluster_unlock_first_probes", 1)
	}
	// a plain request queues behind R
	var idQ [16]byte
	haveQ := outcome != "ok" || rng.Chance(50)
	if haveQ {
		qc := rCount
		idQ, ok = s.send(s.probe, s.lockCmd(key, lidQ, 60, 600, qc, false, ""), tag+" plain Q queued behind R")
		if !ok {
			return false
		}
		vfC11cSettle()
		if rs := s.probe.find(idQ); len(rs) > 0 {
			c.note("%s: Q was answered at once: %s", tag, vfResName(rs[0].Result))
			haveQ = false
		}
	}
	if early("after the probes", 0) {
		return false
	}
	// ---- the outcome
	released := 0
	wantSucced := false
	switch outcome {
	case "ok":
		wantSucced = true
		order := rng.Intn(2)
		for j := range acks {
			a := acks[(j+order)%len(acks)]
			if released < s.required && early("before acknowledgement "+fmt.Sprint(released+1)+" was released", released) {
				return false
			}
			act := "forward"
			if released >= s.required && rng.Chance(50) {
				act = "drop" // not needed any more (majority)
			}
			// (a duplicated acknowledgement frame is outside the statement's quantifier - a follower sends one per record -
			// and the leader counts frames, not followers: with VERIF_C11_DUPACKS=1 the proxy duplicates frames to show it)
			if released < s.required && os.Getenv("VERIF_C11_DUPACKS") == "1" && rng.Chance(15) {
				act = "duplicate"
			}
			if err := s.fols[(j+order)%len(acks)].px.Act(a, act); err != nil {
				c.inconclusive("%s: %s ack: %v", tag, act, err)
				return false
			}
			if act != "drop" {
				released++
			}
			part.Add("cluster_acks_"+act, 1)
			c.note("%s: acknowledgement of %s: %s", tag, s.fols[(j+order)%len(acks)].name, act)
			if released < s.required {
				vfC11cSettle()
				if early("after acknowledgement "+fmt.Sprint(released)+" of "+fmt.Sprint(s.required), released) {
					return false
				}
			}
		}
	case "negative":
		// the first acknowledgement is delivered with a negative result, the others as they are
		for j, a := range acks {
			act := "forward"
			if j == 0 {
				act = "negate"
			}
			if j == 0 || rng.Chance(50) {
				if err := s.fols[j].px.Act(a, act); err != nil {
					c.inconclusive("%s: %s ack: %v", tag, act, err)
					return false
				}
				part.Add("cluster_acks_"+act, 1)
				if j == 0 {
					vfC11cSettle()
				}
			}
		}
	case "withheld":
		for j, a := range acks {
			_ = s.fols[j].px.Act(a, "drop")
			part.Add("cluster_acks_drop", 1)
		}
	case "cut":
		for j, a := range acks {
			_ = s.fols[j].px.Act(a, "cut")
			part.Add("cluster_acks_cut", 1)
		}
	case "cancel":
		u := s.lockCmd(key, lidR, 0, 0, 0, false, "")
		u.CommandType = protocol.COMMAND_UNLOCK
		u.Flag = protocol.UNLOCK_FLAG_CANCEL_WAIT_LOCK_WHEN_UNLOCKED
		r, ok := s.call(s.probe, u, tag+" cancel-wait for the pending LockId")
		if !ok {
			return false
		}
		part.Add("cluster_cancels", 1)
		if r.Result == protocol.RESULT_SUCCED {
			c.violate("pending-probe-succeeded", "request-for-pending-lockid-succeeded", "%s: cancel-wait for the LockId that awaits acknowledgement was answered SUCCED", tag)
			return false
		}
		if r.Result == protocol.RESULT_LOCK_ACK_WAITING {
			// the pending hold stays: let it complete
			wantSucced = true
			for j, a := range acks {
				_ = s.fols[j].px.Act(a, "forward")
				released++
				part.Add("cluster_acks_forward", 1)
			}
			part.Add("cluster_cancels_answered_ack_waiting", 1)
		} else {
			part.Add("cluster_cancels_rolled_back", 1)
			for j, a := range acks {
				_ = s.fols[j].px.Act(a, "drop")
			}
		}
	case "demote":
		adm, err := vfC11nDialText(s.leader.Addr(), "admin")
		if err != nil {
			c.inconclusive("dial admin: %v", err)
			return false
		}
		defer adm.close()
		other := s.fols[0].node
		v, err := adm.call("SLAVEOF", "127.0.0.1", fmt.Sprint(other.Port))
		if err != nil || v.Kind != '+' {
			c.inconclusive("%s: SLAVEOF at the leader: %v %v", tag, err, v)
			return false
		}
		part.Add("cluster_demotions", 1)
		for j, a := range acks {
			_ = s.fols[j].px.Act(a, "drop")
		}
	}
	// ---- R's terminal reply
	rr, err := s.req.waitFor(idR)
	if err != nil {
		c.inconclusive("%s: reply of R: %v", tag, err)
		return false
	}
	c.note("%s: R answered %s (released acknowledgements %d, required %d)", tag, vfResName(rr.Result), released, s.required)
	part.Add("cluster_ack_replies_"+vfResName(rr.Result), 1)
	if rr.Result == protocol.RESULT_SUCCED {
		if released < s.required {
			c.violate("succed-before-acks", "succed-before-required-follower-acknowledgements", "%s: SUCCED was received with %d of %d required follower acknowledgements released by the proxy (ack mode %d, %d followers, outcome %s)", tag, released, s.required, s.mode, len(s.fols), outcome)
			return false
		}
		found, ok := s.hasAckRecord(key, lidR)
		if !ok {
			return false
		}
		part.Add("cluster_succed_log_checked", 1)
		if !found {
			c.violate("succed-before-log", "succed-before-own-log-record", "%s: SUCCED was received but the leader's append files contain no LOCK record with the require-ack flag for this key / LockId", tag)
			return false
		}
		if !wantSucced {
			c.violate("succed-after-failure", "succed-although-an-acknowledgement-failed", "%s: the request was answered SUCCED although the outcome was %q", tag, outcome)
			return false
		}
		holds, _, ok := s.keyState(key)
		if !ok {
			return false
		}
		l := vfLockIdBytes(lidR)
		if !holds[hex.EncodeToString(l[:])] {
			c.violate("succed-without-hold", "", "%s: SUCCED but the leader's snapshot has no hold for the LockId", tag)
			return false
		}
		part.Add("cluster_ack_completed", 1)
		if haveQ {
			// release R so that Q ends too
			u := s.lockCmd(key, lidR, 0, 0, 0, false, "")
			u.CommandType = protocol.COMMAND_UNLOCK
			if _, ok := s.call(s.req, u, tag+" unlock R"); !ok {
				return false
			}
		}
	} else {
		if wantSucced {
			c.violate("failed-without-cause", "require-ack-failed-although-all-acknowledgements-arrived", "%s: every required acknowledgement was delivered positively but the request was answered %s", tag, vfResName(rr.Result))
			return false
		}
		if rr.Result == protocol.RESULT_LOCK_ACK_WAITING {
			c.violate("terminal-ack-waiting", "", "%s: the requester itself was answered LOCK_ACK_WAITING", tag)
			return false
		}
		if outcome == "withheld" && rr.Result != protocol.RESULT_TIMEOUT {
			part.Add("cluster_withheld_not_timeout_"+vfResName(rr.Result), 1)
		}
		part.Add("cluster_ack_failed", 1)
		// (3) hold absent, value as before
		holds, val, ok := s.keyState(key)
		if !ok {
			return false
		}
		l := vfLockIdBytes(lidR)
		if holds[hex.EncodeToString(l[:])] {
			c.violate("hold-after-failure", "hold-remains-after-failed-acknowledgement", "%s: the request was answered %s but the leader's snapshot still has the hold", tag, vfResName(rr.Result))
			return false
		}
		if payload != "" && layout == "beside" {
			part.Add("cluster_value_rollbacks_checked", 1)
			if val != valBefore {
				c.violate("value-after-failure", "value-not-restored-after-failed-acknowledgement", "%s: the request (SET %q) was answered %s but the key's value is %s, before the request it was %s", tag, payload, vfResName(rr.Result), val, valBefore)
				return false
			}
		}
		if payload != "" && layout == "fresh" && outcome != "demote" && strings.Contains(val, hex.EncodeToString([]byte(payload))) {
			c.violate("value-after-failure", "value-not-restored-after-failed-acknowledgement", "%s: the request (SET %q) was answered %s but the key still carries its payload: %s", tag, payload, vfResName(rr.Result), val)
			return false
		}
	}
	// queued request served
	if haveQ && outcome != "demote" {
		rq, err := s.probe.waitFor(idQ)
		if err != nil {
			c.violate("queue-not-served", "queued-request-not-served-after-require-ack-ended", "%s: after R ended (%s) the request queued behind it got no reply: %v", tag, vfResName(rr.Result), err)
			return false
		}
		c.note("%s: Q answered %s", tag, vfResName(rq.Result))
		if rq.Result != protocol.RESULT_SUCCED {
			c.violate("queue-not-served", "queued-request-not-served-after-require-ack-ended", "%s: after R ended (%s) the request queued behind it was answered %s", tag, vfResName(rr.Result), vfResName(rq.Result))
			return false
		}
		part.Add("cluster_queued_served", 1)
	}
	return true
}

// pairEpisode: two require-ack requests (different keys, different LockIds) are
// pending at the same time; only the acknowledgements of the first are
// delivered: the second must stay pending (an acknowledgement completes the
// request it was made for, no other).
func (s *vfC11cScn) pairEpisode() bool {
	c, part := s.c, s.c.part
	s.ep++
	keyA := s.key()
	s.ep++
	keyB := s.key()
	tag := fmt.Sprintf("ep%d[pair]", s.ep)
	part.Add("cluster_episodes_pair", 1)
	for _, f := range s.fols {
		f.px.HoldAcks(true)
	}
	idA, ok := s.send(s.req, s.lockCmd(keyA, 21, 30, 600, 0, true, ""), tag+" require-ack A")
	if !ok {
		return false
	}
	idB, ok := s.send(s.probe, s.lockCmd(keyB, 22, 30, 600, 0, true, ""), tag+" require-ack B")
	if !ok {
		return false
	}
	var acksA, acksB []*vfC11nAck
	for _, f := range s.fols {
		a := f.px.WaitAck(keyA, vfLockIdBytes(21), vfC11nWait/2)
		b := f.px.WaitAck(keyB, vfLockIdBytes(22), vfC11nWait/2)
		if a == nil || b == nil {
			c.inconclusive("%s: watchdog: acknowledgements did not reach the proxy of %s", tag, f.name)
			return false
		}
		acksA, acksB = append(acksA, a), append(acksB, b)
	}
	for j, a := range acksA {
		if err := s.fols[j].px.Act(a, "forward"); err != nil {
			c.inconclusive("%s: forward: %v", tag, err)
			return false
		}
	}
	ra, err := s.req.waitFor(idA)
	if err != nil {
		c.inconclusive("%s: reply of A: %v", tag, err)
		return false
	}
	vfC11cSettle()
	if rs := s.probe.find(idB); len(rs) > 0 {
		c.violate("foreign-ack", "acknowledgement-of-another-request-completed-it", "%s: only the acknowledgements for request A (key %x) were delivered, but request B (key %x, another LockId) was answered %s", tag, keyA[10:], keyB[10:], vfResName(rs[0].Result))
		return false
	}
	if ra.Result != protocol.RESULT_SUCCED {
		c.violate("failed-without-cause", "require-ack-failed-although-all-acknowledgements-arrived", "%s: every acknowledgement for A was delivered but it was answered %s", tag, vfResName(ra.Result))
		return false
	}
	for j, b := range acksB {
		_ = s.fols[j].px.Act(b, "forward")
	}
	rb, err := s.probe.waitFor(idB)
	if err != nil {
		c.inconclusive("%s: reply of B: %v", tag, err)
		return false
	}
	c.note("%s: A %s, B stayed pending until its own acknowledgements were delivered, then %s", tag, vfResName(ra.Result), vfResName(rb.Result))
	if rb.Result != protocol.RESULT_SUCCED {
		c.violate("failed-without-cause", "require-ack-failed-although-all-acknowledgements-arrived", "%s: every acknowledgement for B was delivered but it was answered %s", tag, vfResName(rb.Result))
		return false
	}
	part.Add("cluster_pair_kept_apart", 1)
	part.Add("cluster_ack_completed", 2)
	return true
}

func vfC11ClusterCase(env *vfEnv, part *vfPart, i int) {
	rng := vfCaseRand(env.Seed, "C11cluster", i)
	c := &vfC11cCtx{part: part, env: env, caseN: i, t0: time.Now()}
	defer c.finish()
	base := vfScratchDir(env, fmt.Sprintf("c11c-%d", i))
	if os.Getenv("VERIF_KEEP_SCRATCH") != "1" {
		defer os.RemoveAll(base)
	}
	s := &vfC11cScn{c: c, rng: rng, base: base}
	nf := rng.Range(1, 2)
	s.mode = uint(rng.Intn(2)) // 0 all, 1 majority
	if s.mode == 1 {
		s.required = (nf+1)/2 + 1 - 1 // majority of the nodes, one of them the leader itself
	} else {
		s.required = nf
	}
	part.Add(fmt.Sprintf("cluster_scenarios_%dfollowers_mode%d", nf, s.mode), 1)
	var err error
	s.leader, err = vfC11nStart(base, vfC11nCfg{Name: "leader", AckMode: s.mode, DBConcurrent: uint(rng.Range(1, 3)), AofBuf: uint(rng.PickInt([]int{256, 4096}))})
	if err != nil {
		c.inconclusive("start leader: %v", err)
		return
	}
	defer s.leader.Kill()
	for k := 0; k < nf; k++ {
		f := &vfC11cFol{name: fmt.Sprintf("f%d", k+1)}
		f.px, err = vfC11nNewProxy(s.leader.Addr())
		if err != nil {
			c.inconclusive("proxy: %v", err)
			return
		}
		defer f.px.Close()
		f.node, err = vfC11nStart(base, vfC11nCfg{Name: f.name, SlaveOf: f.px.Addr(), AckMode: s.mode, DBConcurrent: uint(rng.Range(1, 3))})
		if err != nil {
			c.inconclusive("start %s: %v", f.name, err)
			return
		}
		defer f.node.Kill()
		s.fols = append(s.fols, f)
	}
	// every follower synchronised, the leader sees nf replication channels
	deadline := time.Now().Add(vfC11nWait)
	for {
		ready := true
		for _, f := range s.fols {
			fi, err := f.node.Info()
			if err != nil {
				c.inconclusive("%s info: %v", f.name, err)
				return
			}
			if fi.State != STATE_FOLLOWER {
				ready = false
			}
		}
		li, err := s.leader.Info()
		if err != nil {
			c.inconclusive("leader info: %v", err)
			return
		}
		if ready && li.Servers == nf {
			break
		}
		if time.Now().After(deadline) {
			c.inconclusive("watchdog: cluster did not form")
			return
		}
		time.Sleep(2 * time.Millisecond)
	}
	c.note("cluster up: %d followers, ack mode %d, required follower acknowledgements %d", nf, s.mode, s.required)
	s.req, err = vfC11nDialBinary(s.leader.Addr(), "requester", 1)
	if err != nil {
		c.inconclusive("dial: %v", err)
		return
	}
	defer s.req.close()
	s.probe, err = vfC11nDialBinary(s.leader.Addr(), "other", 2)
	if err != nil {
		c.inconclusive("dial: %v", err)
		return
	}
	defer s.probe.close()
	crashed := func() bool {
		nodes := []*vfC11nNode{s.leader}
		for _, f := range s.fols {
			nodes = append(nodes, f.node)
		}
		for _, n := range nodes {
			if dead, tail := n.Crashed(base); dead {
				if vfCrashInRepo(tail) {
					c.violate("crash", "crash:"+vfCrashSig(tail), "node %s crashed: %s", n.Name, vfTrunc(vfPanicHead(tail), 1500))
				} else {
					c.inconclusive("node %s ended unexpectedly: %s", n.Name, vfTrunc(tail, 800))
				}
				return true
			}
		}
		return false
	}
	defer crashed()
	layouts := []string{"beside", "fresh", "queued"}
	nEp := rng.Range(3, 5)
	for e := 0; e < nEp && c.viol == 0 && c.fail == ""; e++ {
		layout := layouts[rng.Intn(3)]
		outcome := []string{"ok", "ok", "negative", "withheld", "ok", "negative"}[rng.Intn(6)]
		if layout == "queued" && rng.Chance(35) {
			outcome = "cancel"
		}
		if rng.Chance(15) {
			if !s.pairEpisode() {
				break
			}
			continue
		}
		if !s.episode(layout, outcome) {
			break
		}
	}
	// a terminal episode that breaks the cluster
	if c.viol == 0 && c.fail == "" && rng.Chance(60) {
		s.episode(layouts[rng.Intn(2)], []string{"cut", "demote"}[rng.Intn(2)])
	}
	// (4) ledger
	if c.viol == 0 && c.fail == "" {
		vfC11cSettle()
		for _, sr := range s.sent {
			rs := sr.conn.find(sr.id)
			part.Add("cluster_ledger_requests", 1)
			if len(rs) == 0 {
				if _, err := sr.conn.waitFor(sr.id); err != nil {
					c.violate("ledger", "request-without-terminal-reply", "request %q never got a reply: %v", sr.desc, err)
					break
				}
				rs = sr.conn.find(sr.id)
			}
			if len(rs) != 1 {
				names := []string{}
				for _, r := range rs {
					names = append(names, vfResName(r.Result))
				}
				c.violate("ledger", "request-with-more-than-one-reply", "request %q got %d replies: %v", sr.desc, len(rs), names)
				break
			}
		}
	}
	h := vfMix(uint64(nf)<<8 ^ uint64(s.mode)<<4 ^ uint64(s.ep)<<16 ^ uint64(i)<<32)
	part.Mark("cluster_cases", h)
	if c.fail == "" {
		part.Mark("cluster_nontrivial", h)
		part.Mark("nontrivial", h) // the set the merged C11 evidence counts
		part.Add("cluster_scenarios_completed", 1)
	}
	part.Sample(5, map[string]interface{}{"stage": "cluster", "case": i, "log": c.log})
}

// vfC11ClusterN: number of cluster scenarios per tier.
func vfC11ClusterN(env *vfEnv) int { return env.N(80, 2000) }

// vfC11ClusterStage runs the follower-acknowledgement stage and reports into
// part. It runs the scenarios in child processes (8 at a time); in a shard
// child (VERIF_SHARD set) it runs the shard and returns with part untouched.
func vfC11ClusterStage(env *vfEnv, part *vfPart) {
	vfContinueAfterPanic = true
	sub := *env
	sub.Prop = "C11"
	p := vfRunSharded(nil, &sub, "TestVerif_C11Cluster", vfC11ClusterN(env), 8, func(part *vfPart, i int) {
		vfC11ClusterCase(&sub, part, i)
	})
	if p == nil {
		return
	}
	part.Merge(p)
}

func TestVerif_C11Cluster(t *testing.T) {
	start := time.Now()
	env := vfGetEnv("C11")
	if env.Replay != "" {
		var doc struct {
			Seed int64 `json:"seed"`
		}
		if b, err := os.ReadFile(env.Replay); err == nil && json.Unmarshal(b, &doc) == nil && doc.Seed != 0 {
			env.Seed = doc.Seed
		}
	}
	part := vfNewPart()
	vfC11ClusterStage(env, part)
	if env.Shard >= 0 {
		return
	}
	spec := &vfSpec{Prop: "C11", Level: "fault_enumeration", NontrivSet: "cluster_nontrivial",
		Rule:        "cluster stage: case i = scenario splitmix(seed,'C11cluster',i): leader + 1-2 follower processes, ack mode all / majority, 3-5 episodes on fresh keys (layouts: beside a plain holder with a value / fresh key / granted from the wait queue; outcomes: acknowledgements forwarded one by one (also duplicated / late ones dropped), first acknowledgement negated, all withheld until the time-out, cancel-wait of the pending LockId) and optionally a terminal episode (connection cut instead of the acknowledgement / SLAVEOF at the leader); non-trivial = scenario completed; distinct = hash(followers, mode, episodes, case)",
		Assumptions: vfC11ClusterAssumptions,
		Floors:      vfC11ClusterFloors}
	vfFinish(t, env, spec, part, start)
}

var vfC11ClusterAssumptions = []string{
	"cluster stage: node processes on loopback TCP; the proxy holds every acknowledgement frame and the controller decides about it; waits are on events (acknowledgement seen by the proxy, replies) with 20-60 s watchdogs whose firing makes the scenario inconclusive",
	"'no reply yet' is observed after a 30 ms settle: an early SUCCED that shows up decides, its absence does not",
	"the leader's own log is inspected on disk at reply time through a control command (nothing is flushed for the answer)",
	"no re-entrant re-locks with the require-ack flag and no log-write failures in this stage (open findings of the stand-alone stage)",
}

var vfC11ClusterFloors = []string{"cluster_scenarios_completed", "cluster_ack_completed", "cluster_ack_failed", "cluster_acks_negate", "cluster_acks_drop", "cluster_acks_cut", "cluster_demotions", "cluster_cancels", "cluster_pending_probes_ack_waiting", "cluster_queued_served", "cluster_value_rollbacks_checked", "cluster_succed_log_checked", "cluster_ledger_requests", "cluster_pair_kept_apart"}
