//go:build verif

package server

// C12, process-level stage: a real 3-process replset (the test binary
// re-executed in node mode: real Server.Listen/Serve on 127.0.0.1 ports, real
// arbiter connections, real replication), quorum-acknowledged locks, kill -9
// of the leader at a PRNG-chosen instant; afterwards the survivors must agree
// on exactly one leader and every lock whose SUCCED the client received must be
// held on that leader.  All waits are polls of the nodes' own state with a
// generous watchdog; a watchdog or a node that cannot be brought up makes the
// trial inconclusive, never a violation.

import (
	"bufio"
	"encoding/hex"
	"encoding/json"
	"errors"
	"fmt"
	"net"
	"os"
	"os/exec"
	"path/filepath"
	"sort"
	"strings"
	"sync"
	"testing"
	"time"

	"github.com/hhkbp2/go-logging"
	"github.com/snower/slock/protocol"
)

const vfc12nWait = 150 * time.Second

type vfc12nCfg struct {
	Name string `json:"name"`
	Dir  string `json:"dir"`
	Port int    `json:"port"`
}

type vfc12nMember struct {
	Host   string `json:"host"`
	Role   uint8  `json:"role"`
	Status uint8  `json:"status"`
}

type vfc12nInfo struct {
	State        uint8          `json:"state"`
	Role         uint8          `json:"role"`
	Leader       string         `json:"leader"`
	Members      []vfc12nMember `json:"members"`
	CommitId     uint64         `json:"commit"`
	ProposalId   uint64         `json:"proposal"`
	ProposalHost string         `json:"proposal_host"`
	AofId        string         `json:"aofid"`
	Voting       bool           `json:"voting"`
}

type vfc12nLock struct {
	Db     uint8  `json:"db"`
	Key    string `json:"key"`
	LockId string `json:"lid"`
}

type vfc12nFileStream struct {
	mu sync.Mutex
	f  *os.File
}

func (s *vfc12nFileStream) Tell() (int64, error) { return 0, nil }
func (s *vfc12nFileStream) Write(str string) error {
	s.mu.Lock()
	_, err := s.f.WriteString(str)
	s.mu.Unlock()
	return err
}
func (s *vfc12nFileStream) Flush() error { return nil }
func (s *vfc12nFileStream) Close() error { return nil }

// TestVerifC12Node is the node mode (a no-op unless VERIF_C12_NODE is set).
func TestVerifC12Node(t *testing.T) {
	js := os.Getenv("VERIF_C12_NODE")
	if js == "" {
		return
	}
	fail := func(what string, err error) {
		fmt.Printf("@@{\"error\":%q}\n", what+": "+err.Error())
		os.Exit(3)
	}
	var cfg vfc12nCfg
	if err := json.Unmarshal([]byte(js), &cfg); err != nil {
		fail("config", err)
	}
	_ = os.MkdirAll(cfg.Dir, 0755)
	lf, err := os.OpenFile(filepath.Join(filepath.Dir(cfg.Dir), cfg.Name+".log"), os.O_CREATE|os.O_WRONLY|os.O_APPEND, 0644)
	if err != nil {
		fail("log", err)
	}
	logger := logging.GetLogger("c12node")
	_ = logger.SetLevel(logging.LevelInfo)
	h := logging.NewStreamHandler("nodefile", logging.LevelInfo, &vfc12nFileStream{f: lf})
	h.SetFormatter(logging.NewStandardFormatter("%(asctime)s %(levelname)s %(message)s", "%H:%M:%S.%3n"))
	logger.AddHandler(h)
	sc := &ServerConfig{Bind: "127.0.0.1", Port: uint(cfg.Port), Log: "-", LogLevel: "INFO", DataDir: cfg.Dir,
		DBFastKeyCount: 64, DBConcurrent: 2, DBLockAofTime: 1, DBLockAofParcentTime: 0.3,
		AofQueueSize: 65536, AofFileRewriteSize: 64 << 20, AofFileBufferSize: 4096,
		AofRingBufferSize: 1 << 16, AofRingBufferMaxSize: 1 << 20, ReplSet: "vfc12"}
	verifManual = false
	s := NewSLock(sc, logger)
	srv := NewServer(s)
	if err := s.Init(srv); err != nil {
		fail("init", err)
	}
	if err := srv.Listen(); err != nil {
		fail("listen", err)
	}
	go srv.Serve()
	out := bufio.NewWriter(os.Stdout)
	reply := func(v interface{}) {
		b, _ := json.Marshal(v)
		_, _ = out.WriteString("@@")
		_, _ = out.Write(b)
		_ = out.WriteByte('\n')
		_ = out.Flush()
	}
	reply(map[string]interface{}{"ready": true, "port": cfg.Port, "pid": os.Getpid()})
	in := bufio.NewReader(os.Stdin)
	for {
		line, err := in.ReadString('\n')
		if err != nil {
			os.Exit(0) // controller went away
		}
		f := strings.Fields(line)
		if len(f) == 0 {
			continue
		}
		switch f[0] {
		case "info":
			inf := &vfc12nInfo{State: s.state, AofId: FormatAofId(s.replicationManager.GetCurrentAofID())}
			if m := s.arbiterManager; m != nil {
				m.glock.Lock()
				if m.ownMember != nil {
					inf.Role = m.ownMember.role
				}
				if m.leaderMember != nil {
					inf.Leader = m.leaderMember.host
				}
				for _, mm := range m.members {
					inf.Members = append(inf.Members, vfc12nMember{Host: mm.host, Role: mm.role, Status: mm.status})
				}
				m.glock.Unlock()
				m.voter.glock.Lock()
				inf.CommitId, inf.ProposalId, inf.ProposalHost, inf.Voting = m.voter.commitId, m.voter.proposalId, m.voter.proposalHost, m.voter.voting
				m.voter.glock.Unlock()
			}
			reply(inf)
		case "locks":
			var locks []vfc12nLock
			for d := 0; d < 256; d++ {
				db := s.dbs[d]
				if db == nil {
					continue
				}
				c := vfTakeCensus(db)
				for _, k := range c.Keys {
					for _, hd := range k.Holds {
						locks = append(locks, vfc12nLock{Db: k.Db, Key: hex.EncodeToString(k.Key[:]), LockId: hex.EncodeToString(hd.LockId[:])})
					}
				}
			}
			reply(map[string]interface{}{"locks": locks})
		case "exit":
			reply(map[string]interface{}{"bye": true})
			os.Exit(0)
		default:
			reply(map[string]interface{}{"error": "unknown command"})
		}
	}
}

// ------------------------------------------------------------------ controller side

type vfc12nNode struct {
	cfg   vfc12nCfg
	cmd   *exec.Cmd
	stdin *os.File
	lines chan string
	mu    sync.Mutex
	dead  bool
}

func (n *vfc12nNode) Addr() string { return fmt.Sprintf("127.0.0.1:%d", n.cfg.Port) }

func vfc12nStart(base string, cfg vfc12nCfg) (*vfc12nNode, error) {
	js, _ := json.Marshal(cfg)
	cmd := exec.Command(os.Args[0], "-test.run", "^TestVerifC12Node$", "-test.timeout", "0")
	cmd.Env = append(os.Environ(), "VERIF_C12_NODE="+string(js), "VERIF_SHARD=", "VERIF_REPLAY=")
	cmd.Dir = base
	pr, pw, err := os.Pipe()
	if err != nil {
		return nil, err
	}
	cmd.Stdin = pr
	so, err := cmd.StdoutPipe()
	if err != nil {
		return nil, err
	}
	ef, err := os.Create(filepath.Join(base, cfg.Name+".stderr"))
	if err != nil {
		return nil, err
	}
	cmd.Stderr = ef
	if err := cmd.Start(); err != nil {
		return nil, err
	}
	_ = pr.Close()
	_ = ef.Close()
	n := &vfc12nNode{cfg: cfg, cmd: cmd, stdin: pw, lines: make(chan string, 64)}
	go func() {
		sc := bufio.NewScanner(so)
		sc.Buffer(make([]byte, 1<<20), 1<<24)
		for sc.Scan() {
			l := sc.Text()
			if strings.HasPrefix(l, "@@") {
				n.lines <- l[2:]
			}
		}
		_ = cmd.Wait()
		n.mu.Lock()
		n.dead = true
		n.mu.Unlock()
		close(n.lines)
	}()
	var ready struct {
		Ready bool   `json:"ready"`
		Error string `json:"error"`
	}
	if err := n.recv(&ready); err != nil {
		n.Kill()
		return nil, err
	}
	if !ready.Ready {
		n.Kill()
		return nil, errors.New("node not ready: " + ready.Error)
	}
	return n, nil
}

func (n *vfc12nNode) recv(out interface{}) error {
	select {
	case l, ok := <-n.lines:
		if !ok {
			return errors.New("node " + n.cfg.Name + " is gone")
		}
		return json.Unmarshal([]byte(l), out)
	case <-time.After(vfc12nWait):
		return errors.New("watchdog: node " + n.cfg.Name + " does not answer")
	}
}

func (n *vfc12nNode) Ask(cmd string, out interface{}) error {
	n.mu.Lock()
	d := n.dead
	n.mu.Unlock()
	if d {
		return errors.New("node " + n.cfg.Name + " is gone")
	}
	if _, err := n.stdin.WriteString(cmd + "\n"); err != nil {
		return err
	}
	return n.recv(out)
}

func (n *vfc12nNode) Info() (*vfc12nInfo, error) {
	inf := &vfc12nInfo{}
	err := n.Ask("info", inf)
	return inf, err
}

func (n *vfc12nNode) Kill() {
	if n.cmd != nil && n.cmd.Process != nil {
		_ = n.cmd.Process.Kill() // SIGKILL
	}
	_ = n.stdin.Close()
}

func vfc12nFreePorts(k int) ([]int, error) {
	var ls []net.Listener
	var ports []int
	for i := 0; i < k; i++ {
		l, err := net.Listen("tcp", "127.0.0.1:0")
		if err != nil {
			return nil, err
		}
		ls = append(ls, l)
		ports = append(ports, l.Addr().(*net.TCPAddr).Port)
	}
	for _, l := range ls {
		_ = l.Close()
	}
	return ports, nil
}

func vfc12nDialBinary(addr string, tag byte) (*vfBinConn, error) {
	c, err := net.DialTimeout("tcp", addr, 5*time.Second)
	if err != nil {
		return nil, err
	}
	b := &vfBinConn{name: "client", conn: c, tag: tag, sent: map[[16]byte]bool{}}
	b.cond = sync.NewCond(&b.mu)
	go b.readLoop()
	return b, nil
}

func vfc12nText(addr string, args ...string) (string, error) {
	c, err := net.DialTimeout("tcp", addr, 5*time.Second)
	if err != nil {
		return "", err
	}
	defer c.Close()
	t := &vfTextConn{name: "admin", conn: c, br: bufio.NewReaderSize(c, 65536)}
	v, err := t.call(args...)
	if err != nil {
		return "", err
	}
	return vfJSON(v), nil
}

// vfc12nPoll polls cond every 50 ms until it holds; false on watchdog.
func vfc12nPoll(limit time.Duration, cond func() (bool, error)) (bool, error) {
	deadline := time.Now().Add(limit)
	for {
		ok, err := cond()
		if err != nil {
			return false, err
		}
		if ok {
			return true, nil
		}
		if time.Now().After(deadline) {
			return false, nil
		}
		time.Sleep(50 * time.Millisecond)
	}
}

type vfc12nTrial struct {
	Trial     int      `json:"trial"`
	Seed      int64    `json:"seed"`
	Log       []string `json:"log"`
	Acked     []string `json:"acked_locks"`
	KillAfter int      `json:"kill_after_request"`
	InFlight  int      `json:"in_flight_at_kill"`
}

// vfc12ClusterTrial runs one kill -9 trial. Returns (violation clause, detail)
// or an inconclusive reason.
func vfc12ClusterTrial(env *vfEnv, part *vfPart, trial int) {
	rng := vfCaseRand(env.Seed, "C12-cluster", trial)
	base := filepath.Join(env.Scratch, fmt.Sprintf("c12-cluster-%d-%d", os.Getpid(), trial))
	_ = os.MkdirAll(base, 0755)
	defer os.RemoveAll(base)
	tr := &vfc12nTrial{Trial: trial, Seed: env.Seed}
	t0 := time.Now()
	logf := func(format string, args ...interface{}) {
		tr.Log = append(tr.Log, fmt.Sprintf("%6.2fs ", time.Since(t0).Seconds())+fmt.Sprintf(format, args...))
	}
	var nodes []*vfc12nNode
	defer func() {
		for _, n := range nodes {
			n.Kill()
		}
	}()
	inconclusive := func(format string, args ...interface{}) {
		msg := fmt.Sprintf("cluster trial %d: ", trial) + fmt.Sprintf(format, args...)
		tail := ""
		for _, n := range nodes {
			if b, err := os.ReadFile(filepath.Join(base, n.cfg.Name+".log")); err == nil {
				s := string(b)
				if len(s) > 1500 {
					s = s[len(s)-1500:]
				}
				tail += "\n--- " + n.cfg.Name + " log tail:\n" + s
			}
		}
		part.Add("cluster_trials_inconclusive", 1)
		part.Inconclusive = append(part.Inconclusive, vfTrunc(msg+" | "+strings.Join(tr.Log, " | ")+tail, 6000))
	}
	violate := func(clause, sig, detail string) {
		logf("VIOLATION %s: %s", clause, detail)
		rp := vfWriteReplay(env, fmt.Sprintf("cluster-trial%d-%s.json", trial, vfc12FileSig(sig)), map[string]interface{}{"case": -1 - trial, "seed": env.Seed, "tier": env.Tier, "property": "C12", "mode": "cluster", "signature": sig, "detail": detail, "trial": tr})
		part.Violate(vfViolation{Prop: "C12", Clause: clause, Detail: detail, Case: -1 - trial, Replay: rp, Sig: sig})
	}

	ports, err := vfc12nFreePorts(3)
	if err != nil {
		inconclusive("no loopback ports: %v", err)
		return
	}
	for i := 0; i < 3; i++ {
		n, err := vfc12nStart(base, vfc12nCfg{Name: fmt.Sprintf("node%d", i), Dir: filepath.Join(base, fmt.Sprintf("data%d", i)), Port: ports[i]})
		if err != nil {
			inconclusive("cannot start node %d: %v", i, err)
			return
		}
		nodes = append(nodes, n)
	}
	logf("3 nodes up on ports %v", ports)
	if r, err := vfc12nText(nodes[0].Addr(), "REPLSET", "CONFIG", nodes[0].Addr(), "WEIGHT", "1", "ARBITER", "0"); err != nil || !strings.Contains(r, "OK") {
		inconclusive("REPLSET CONFIG: %v %s", err, r)
		return
	}
	ok, err := vfc12nPoll(vfc12nWait, func() (bool, error) {
		inf, err := nodes[0].Info()
		return err == nil && inf.State == STATE_LEADER, err
	})
	if !ok {
		inconclusive("first member did not become leader: %v", err)
		return
	}
	logf("node0 is leader")
	for i := 1; i < 3; i++ {
		if r, err := vfc12nText(nodes[0].Addr(), "REPLSET", "ADD", nodes[i].Addr(), "WEIGHT", "1", "ARBITER", "0"); err != nil || !strings.Contains(r, "OK") {
			inconclusive("REPLSET ADD node%d: %v %s", i, err, r)
			return
		}
	}
	// all three: one leader, two followers in sync, everybody online everywhere
	ok, err = vfc12nPoll(vfc12nWait, func() (bool, error) {
		for i, n := range nodes {
			inf, err := n.Info()
			if err != nil {
				return false, err
			}
			want := uint8(STATE_FOLLOWER)
			if i == 0 {
				want = STATE_LEADER
			}
			if inf.State != want || len(inf.Members) != 3 || inf.Leader != nodes[0].Addr() {
				return false, nil
			}
			for _, m := range inf.Members {
				if m.Status != ARBITER_MEMBER_STATUS_ONLINE {
					return false, nil
				}
			}
		}
		return true, nil
	})
	if !ok {
		inconclusive("replset of 3 did not form: %v", err)
		return
	}
	logf("replset formed: leader node0, followers node1 node2")

	cl, err := vfc12nDialBinary(nodes[0].Addr(), 7)
	if err != nil {
		inconclusive("client connect: %v", err)
		return
	}
	defer cl.conn.Close()
	if err := cl.init(vfKey16("c12-client")); err != nil {
		inconclusive("client init: %v", err)
		return
	}
	total := rng.Range(6, 24)
	killAfter := rng.Range(1, total)         // the leader dies after this many requests have been written
	window := rng.PickInt([]int{1, 1, 2, 4}) // requests in flight
	tr.KillAfter = killAfter
	type sent struct {
		id      [16]byte
		key, lk [16]byte
	}
	var reqs []sent
	acked := map[string]bool{}
	collect := func(s sent) bool {
		for _, r := range cl.find(s.id) {
			if r.Result == protocol.RESULT_SUCCED {
				return true
			}
		}
		return false
	}
	for i := 0; i < killAfter; i++ {
		key, lk := vfKey16(fmt.Sprintf("c12-k%03d", i)), vfKey16(fmt.Sprintf("c12-l%03d", i))
		cmd := protocol.NewLockCommand(0, key, lk, 30, 3000, 0)
		cmd.TimeoutFlag |= protocol.TIMEOUT_FLAG_REQUIRE_ACKED
		id, err := cl.sendLock(cmd)
		if err != nil {
			inconclusive("client write: %v", err)
			return
		}
		reqs = append(reqs, sent{id: id, key: key, lk: lk})
		if len(reqs) >= window && i < killAfter-1 {
			// keep at most `window` requests outstanding: wait for the oldest of the window
			if _, err := cl.waitFor(reqs[len(reqs)-window].id); err != nil {
				inconclusive("no reply to a require-ack lock: %v", err)
				return
			}
		}
	}
	if rng.Chance(50) {
		time.Sleep(time.Duration(rng.Intn(3000)) * time.Microsecond)
	}
	nodes[0].Kill()
	logf("leader killed (SIGKILL) after %d requests, window %d", killAfter, window)
	// whatever replies had reached the client before the connection died
	_, _ = vfc12nPoll(10*time.Second, func() (bool, error) {
		cl.mu.Lock()
		defer cl.mu.Unlock()
		return cl.readErr != nil, nil
	})
	for _, s := range reqs {
		if collect(s) {
			acked[hex.EncodeToString(s.key[:])+"/"+hex.EncodeToString(s.lk[:])] = true
		}
	}
	for k := range acked {
		tr.Acked = append(tr.Acked, k)
	}
	sort.Strings(tr.Acked)
	tr.InFlight = len(reqs) - len(acked)
	part.Add("cluster_locks_acked_before_kill", int64(len(acked)))
	part.Add("cluster_requests_unanswered_at_kill", int64(tr.InFlight))
	logf("%d of %d locks were acknowledged to the client", len(acked), len(reqs))

	// exactly one new leader among the survivors, and they agree
	surv := nodes[1:]
	twoLeaders := ""
	var leader *vfc12nNode
	ok, err = vfc12nPoll(vfc12nWait, func() (bool, error) {
		var infs []*vfc12nInfo
		for _, n := range surv {
			inf, err := n.Info()
			if err != nil {
				return false, err
			}
			infs = append(infs, inf)
		}
		nl := 0
		for i, inf := range infs {
			if inf.State == STATE_LEADER && inf.Role == ARBITER_ROLE_LEADER {
				nl++
				leader = surv[i]
			}
		}
		if nl > 1 {
			twoLeaders = vfJSON(infs)
			return true, nil
		}
		if nl != 1 {
			return false, nil
		}
		for i, inf := range infs {
			if surv[i] != leader && (inf.State != STATE_FOLLOWER || inf.Leader != leader.Addr()) {
				return false, nil
			}
		}
		return true, nil
	})
	if twoLeaders != "" {
		violate("single-leader", "cluster:two-leaders-after-kill", "both surviving members are leaders: "+twoLeaders)
		return
	}
	if !ok {
		inconclusive("no agreed new leader within %v: %v", vfc12nWait, err)
		return
	}
	logf("new leader %s", leader.cfg.Name)
	part.Add("cluster_new_leader_elected", 1)
	var lk struct {
		Locks []vfc12nLock `json:"locks"`
	}
	// the new leader finishes loading its log before it serves; poll until the holds are there or the watchdog says they never come
	missing := []string{}
	ok, err = vfc12nPoll(20*time.Second, func() (bool, error) {
		if err := leader.Ask("locks", &lk); err != nil {
			return false, err
		}
		have := map[string]bool{}
		for _, l := range lk.Locks {
			have[l.Key+"/"+l.LockId] = true
		}
		missing = missing[:0]
		for k := range acked {
			if !have[k] {
				missing = append(missing, k)
			}
		}
		return len(missing) == 0, nil
	})
	if err != nil {
		inconclusive("new leader does not answer: %v", err)
		return
	}
	part.Add("cluster_trials_completed", 1)
	part.Add("cluster_acked_locks_checked", int64(len(acked)))
	part.Mark("cluster_trials", vfStrHash(fmt.Sprintf("%d/%d/%d/%d", killAfter, window, len(acked), leader.cfg.Port == ports[1])))
	if !ok {
		sort.Strings(missing)
		violate("acked-lock-survives", "cluster:acked-lock-missing-on-new-leader", fmt.Sprintf("%d of %d quorum-acknowledged locks are not held on the new leader %s: %v", len(missing), len(acked), leader.cfg.Name, missing))
		return
	}
	logf("all %d acknowledged locks are held on the new leader", len(acked))
	part.Sample(5, map[string]interface{}{"mode": "cluster", "trial": tr})
}

// vfc12ClusterTrials: number of process-level trials of the tier.
func vfc12ClusterTrials(env *vfEnv) int {
	if os.Getenv("VERIF_C12_CLUSTER") == "0" || os.Getenv("VERIF_C12_ONLY") == "prng" || os.Getenv("VERIF_C12_ONLY") == "dfs" {
		return 0
	}
	if env.Thorough() {
		return 8
	}
	return 2
}
