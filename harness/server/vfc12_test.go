//go:build verif

package server

// C12 - election safety (engine E6, the election scheduler).
//
// N in-process ArbiterManagers (each with its own SLock, data directory, real
// append.aof file that defines its log position, and real meta.pb written by
// ArbiterStore.Save and read back by ArbiterManager.Load).  Candidates run the
// real proposer code (ArbiterVoter.DoVote/DoProposal/DoCommit -> ArbiterMember.
// Do* -> ArbiterClient.Request); every ArbiterClient talks through a net.Pipe
// whose other end belongs to the scheduler below.  The scheduler holds every
// CALL frame and decides (PRNG, enumerated DFS, or a replay list) which pending
// request is handed to the real acceptor code (BinaryServerProtocol.
// FindCallMethod -> commandHandle{Vote,Proposal,Commit}Command, called with the
// *BinaryServerProtocol that the acceptor has registered for the sender), which
// reply is written back, which message is lost (the proposer gets an error
// result, no offline event), and which member is restarted from its saved
// metadata (fresh SLock + ArbiterManager + Load()).
//
// Quiescence between steps is event based: arrival of CALL frames at the
// scheduler, "phase returned" from the candidate driver, and the proposer's own
// log calls (one per processed reply / per local self step) observed through a
// Logger wrapper.  A 120 s watchdog on any wait makes the case inconclusive.

import (
	"encoding/hex"
	"errors"
	"fmt"
	"io"
	"net"
	"os"
	"path/filepath"
	"runtime"
	"sort"
	"strings"
	"sync"
	"sync/atomic"
	"testing"
	"time"

	"github.com/hhkbp2/go-logging"
	"github.com/snower/slock/client"
	"github.com/snower/slock/protocol"
	"github.com/snower/slock/protocol/protobuf"
	"google.golang.org/protobuf/proto"
)

// ------------------------------------------------------------------ log positions (independent of the code under test)

type vfc12Pos struct {
	Index  uint32 `json:"index"`  // number of the append.aof file
	Offset uint32 `json:"offset"` // record number inside that file
	Time   uint64 `json:"time"`
}

func vfc12MkPos(index, offset uint32) vfc12Pos {
	// one log position = one record, hence one command time
	return vfc12Pos{Index: index, Offset: offset, Time: 1600000000 + (vfMix(uint64(index)<<32|uint64(offset)) & 0xffffff)}
}

func (p vfc12Pos) id() [16]byte {
	var b [16]byte
	for i := 0; i < 4; i++ {
		b[i] = byte(p.Offset >> (8 * i))
		b[4+i] = byte(p.Index >> (8 * i))
	}
	for i := 0; i < 8; i++ {
		b[8+i] = byte(p.Time >> (8 * i))
	}
	return b
}

func (p vfc12Pos) String() string { return fmt.Sprintf("%d.%d", p.Index, p.Offset) }

// vfc12PosFromWire parses the 32-hex-digit log position used on the wire
// (file index, record offset, command time; each big endian).
func vfc12PosFromWire(s string) (vfc12Pos, bool) {
	b, err := hex.DecodeString(s)
	if err != nil || len(b) != 16 {
		return vfc12Pos{}, false
	}
	var p vfc12Pos
	for i := 0; i < 4; i++ {
		p.Index = p.Index<<8 | uint32(b[i])
		p.Offset = p.Offset<<8 | uint32(b[4+i])
	}
	for i := 0; i < 8; i++ {
		p.Time = p.Time<<8 | uint64(b[8+i])
	}
	return p, true
}

// vfc12Newer: +1 if log position a is newer than b, -1 if older, 0 if equal.
// Files are numbered 1,2,...,0xffffffff,1,... (wrap-around skips 0), records
// inside a file count up from 1; the newer file wins regardless of offsets.
func vfc12Newer(a, b vfc12Pos) int {
	if a.Index != b.Index {
		if a.Index-b.Index < 0x80000000 {
			return 1
		}
		return -1
	}
	if a.Offset != b.Offset {
		if a.Offset > b.Offset {
			return 1
		}
		return -1
	}
	if a.Time != b.Time {
		if a.Time > b.Time {
			return 1
		}
		return -1
	}
	return 0
}

// vfc12NewerOffsetFirst is NOT part of the oracle; it only labels the cause of
// a deviation (ordering by record offset before file index).
func vfc12NewerOffsetFirst(a, b vfc12Pos) int {
	ka, kb := uint64(a.Offset)<<32|uint64(a.Index), uint64(b.Offset)<<32|uint64(b.Index)
	if ka == kb {
		return 0
	}
	if ka > kb {
		if ka-kb >= 0x7fffffff00000000 {
			return -1
		}
		return 1
	}
	if kb-ka >= 0x7fffffff00000000 {
		return 1
	}
	return -1
}

// ------------------------------------------------------------------ configuration

type vfc12MemberCfg struct {
	Host    string   `json:"host"`
	Weight  uint32   `json:"weight"`
	Arbiter uint32   `json:"arbiter"`
	Pos     vfc12Pos `json:"pos"`    // log position (data-bearing members)
	Commit  uint64   `json:"commit"` // commit id in the saved metadata
	Dead    bool     `json:"dead"`   // crashed ex-leader: offline from the start, never answers
}

type vfc12CandCfg struct {
	Node   int `json:"node"`
	Rounds int `json:"rounds"`
}

type vfc12Cfg struct {
	Members    []vfc12MemberCfg `json:"members"`
	Cands      []vfc12CandCfg   `json:"candidates"`
	Cold       bool             `json:"cold"`        // all members freshly started (roles unknown) instead of a live cluster that lost its leader
	KnowStatus bool             `json:"know_status"` // members know each other's log position (as after a REPL_STATUS round)
	Split      bool             `json:"split"`       // replies are scheduled separately from requests
	LossPct    int              `json:"loss_pct"`
	Restarts   int              `json:"restarts"`
}

const (
	vfc12Vote = iota
	vfc12Proposal
	vfc12Commit
)

var vfc12PhaseName = []string{"V", "P", "C"}
var vfc12Methods = []string{"REPL_VOTE", "REPL_PROPOSAL", "REPL_COMMIT"}

// ------------------------------------------------------------------ logger wrapper (completion signals)

const (
	vfc12EvMsg = iota
	vfc12EvSelfOK
	vfc12EvReplyOK
	vfc12EvReqErr
	vfc12EvPhaseDone
	vfc12EvLinkErr
)

type vfc12Event struct {
	kind  int
	node  int
	gen   int
	host  string
	link  *vfc12Link
	cmd   *protocol.CallCommand
	cand  *vfc12Cand
	phase int
	err   error
}

type vfc12Logger struct {
	logging.Logger
	ex   *vfc12Exec
	node int
	gen  int
}

func (l *vfc12Logger) post(kind int, host string) {
	l.ex.post(vfc12Event{kind: kind, node: l.node, gen: l.gen, host: host})
}

func (l *vfc12Logger) Infof(format string, args ...interface{}) {
	switch format {
	case "Arbiter member self %s do proposal succed", "Arbiter member self %s do commit succed":
		l.post(vfc12EvSelfOK, args[0].(string))
	case "Arbiter member %s do vote load info succed", "Arbiter member %s do proposal succed", "Arbiter member %s do commit succed":
		l.post(vfc12EvReplyOK, args[0].(string))
	}
}
func (l *vfc12Logger) Errorf(format string, args ...interface{}) {
	if format == "Arbier voter member %s request %s error %v" {
		l.post(vfc12EvReqErr, args[0].(string))
	}
}
func (l *vfc12Logger) Warnf(format string, args ...interface{})  {}
func (l *vfc12Logger) Debugf(format string, args ...interface{}) {}

// ------------------------------------------------------------------ execution

type vfc12Node struct {
	i     int
	cfg   *vfc12MemberCfg
	dir   string
	gen   int
	slock *SLock
	mgr   *ArbiterManager
	pid   uint64 // last observed accepted proposal number
	cid   uint64 // last observed committed number
	// commit acceptances of this member: which candidacy it committed to, and what cleared it
	commits []vfc12CommitRec
}

type vfc12CommitRec struct {
	step    int
	round   string // candidacy (round) name
	id      uint64
	gen     int
	cleared string // "", "restart", "own-docommit-failed"
}

type vfc12Link struct {
	from, to int
	fromGen  int
	cFrom    net.Conn
	cTo      net.Conn
	sp       *BinaryServerProtocol
}

type vfc12Msg struct {
	name    string
	from    int
	to      int
	fromGen int
	cand    *vfc12Cand
	round   int
	phase   int
	cmd     *protocol.CallCommand
	result  *protocol.CallResultCommand // set once the request has been handled / lost
	handled bool                        // the acceptor code ran
	lost    string
}

type vfc12Round struct {
	name       string
	cand       int
	start      int
	end        int // -1 while running
	result     string
	id         uint64
	host       string
	acceptors  map[int]bool // members that accepted its commit
	renumbered bool         // its commit phase carried another number than its proposal phase
	voteOK     map[int]bool // members whose vote answer the candidate received
}

type vfc12Cand struct {
	idx         int
	node        int
	gen         int
	roundsLeft  int
	round       int
	phase       int
	running     bool
	done        bool
	outstanding int
	cmdCh       chan int
	cur         *vfc12Round
	okN         int // replies of the running phase processed so far: successes
	errN        int // ... failures
	rejN        int // ... of which ERR_REJECT
	selfOK      bool
}

type vfc12Finding struct {
	Clause string
	Sig    string
	Detail string
	Step   int
}

type vfc12Exec struct {
	cfg      *vfc12Cfg
	dir      string
	nodes    []*vfc12Node
	links    map[[2]int]*vfc12Link
	events   chan vfc12Event
	done     chan struct{}
	closed   int32
	pending  []*vfc12Msg
	cands    []*vfc12Cand
	rounds   []*vfc12Round
	step     int
	trace    []string
	history  []string
	restarts int
	findings []vfc12Finding
	fail     string // watchdog / harness trouble: the execution is inconclusive
	wg       sync.WaitGroup

	arrived map[[2]int]int   // (node, gen) -> CALL frames received from it
	sig     map[string]int   // signal counters
	stats   map[string]int64 // per-execution counters
	vectors map[uint64]bool  // distinct (proposalId, commitId) vectors
	noLog   bool
	slocks  []*SLock // every SLock made for this execution (their background goroutine is stopped in close)
	given   int      // actions of the caller's list that ran (the rest of the trace is the finishing policy)
	// phase that returned during the current step (labels the cause of a regress)
	retNode, retPhase int
}

const vfc12Wait = 120 * time.Second

func (ex *vfc12Exec) post(ev vfc12Event) {
	if atomic.LoadInt32(&ex.closed) != 0 {
		return
	}
	select {
	case ex.events <- ev:
	case <-ex.done:
	}
}

func (ex *vfc12Exec) logf(format string, args ...interface{}) {
	if !ex.noLog {
		ex.history = append(ex.history, fmt.Sprintf("%3d ", ex.step)+fmt.Sprintf(format, args...))
	}
}

func (ex *vfc12Exec) find(clause, sig, format string, args ...interface{}) {
	d := fmt.Sprintf(format, args...)
	ex.findings = append(ex.findings, vfc12Finding{Clause: clause, Sig: sig, Detail: d, Step: ex.step})
	ex.logf("!! %s [%s] %s", clause, sig, d)
}

func vfc12SigKey(kind, node, gen int, host string) string {
	return fmt.Sprintf("%d/%d/%d/%s", kind, node, gen, host)
}

// pump consumes events until cond holds; false on watchdog.
func (ex *vfc12Exec) pump(what string, cond func() bool) bool {
	if cond() {
		return ex.fail == ""
	}
	wd := time.NewTimer(vfc12Wait)
	defer wd.Stop()
	for !cond() {
		if ex.fail != "" {
			return false
		}
		select {
		case ev := <-ex.events:
			ex.consume(ev)
		case <-wd.C:
			ex.fail = fmt.Sprintf("watchdog (%v) while waiting for %s at step %d; trace=%v", vfc12Wait, what, ex.step, ex.trace)
			return false
		}
	}
	return ex.fail == ""
}

func (ex *vfc12Exec) consume(ev vfc12Event) {
	switch ev.kind {
	case vfc12EvMsg:
		l := ev.link
		ex.arrived[[2]int{l.from, l.fromGen}]++
		if l.fromGen != ex.nodes[l.from].gen {
			return // sent by an incarnation that no longer exists, after its restart
		}
		c := ex.candOf(l.from)
		ph := -1
		for i, m := range vfc12Methods {
			if m == ev.cmd.MethodName {
				ph = i
			}
		}
		if c == nil || ph < 0 || !c.running || ph != c.phase {
			ex.fail = fmt.Sprintf("unexpected CALL %s from n%d", ev.cmd.MethodName, l.from)
			return
		}
		m := &vfc12Msg{from: l.from, to: l.to, fromGen: l.fromGen, cand: c, round: c.round, phase: ph, cmd: ev.cmd}
		m.name = fmt.Sprintf("n%d>n%d:%s%d", m.from, m.to, vfc12PhaseName[ph], m.round)
		ex.pending = append(ex.pending, m)
		sort.SliceStable(ex.pending, func(i, j int) bool { return ex.pending[i].name < ex.pending[j].name })
		c.outstanding++
	case vfc12EvSelfOK, vfc12EvReplyOK, vfc12EvReqErr:
		ex.sig[vfc12SigKey(ev.kind, ev.node, ev.gen, ev.host)]++
	case vfc12EvPhaseDone:
		c := ev.cand
		if ev.gen != ex.nodes[c.node].gen || ev.gen != c.gen {
			return
		}
		ex.sig[fmt.Sprintf("done/%d/%d/%d/%d", c.idx, ev.gen, c.round, ev.phase)]++
		ex.phaseDone(c, ev.phase, ev.err)
	case vfc12EvLinkErr:
		if ev.link.fromGen == ex.nodes[ev.link.from].gen && atomic.LoadInt32(&ex.closed) == 0 {
			ex.fail = fmt.Sprintf("link n%d>n%d broke: %v", ev.link.from, ev.link.to, ev.err)
		}
	}
}

func (ex *vfc12Exec) candOf(node int) *vfc12Cand {
	for _, c := range ex.cands {
		if c.node == node {
			return c
		}
	}
	return nil
}

// ------------------------------------------------------------------ set-up

func vfc12WriteLog(dir string, p vfc12Pos) error {
	if p.Index == 1 && p.Offset == 0 {
		return nil // empty log
	}
	name := filepath.Join(dir, fmt.Sprintf("append.aof.%d", p.Index))
	buf := make([]byte, 12+64)
	copy(buf, "SLOCKAOF")
	buf[8], buf[9] = 0x01, 0x00
	r := buf[12:]
	r[0], r[1] = 62, 0
	r[2] = protocol.COMMAND_LOCK
	id := p.id()
	copy(r[3:19], id[:])
	if err := os.WriteFile(name, buf, 0644); err != nil {
		return err
	}
	return os.WriteFile(name+".dat", nil, 0644)
}

func vfc12ServerConfig(dir string) *ServerConfig {
	return &ServerConfig{DataDir: dir, DBConcurrent: 1, DBFastKeyCount: 4, AofQueueSize: 16, AofFileRewriteSize: 1 << 20, AofFileBufferSize: 4096,
		AofRingBufferSize: 64 * 4, AofRingBufferMaxSize: 64 * 16, ReplSet: "vf", LogLevel: "ERROR"}
}

// vfc12Prepare writes, once per configuration, every member's data directory:
// the append.aof file that defines its log position and the metadata file,
// produced by the real ArbiterStore.Save.
func vfc12Prepare(cfg *vfc12Cfg, dir string) error {
	for i := range cfg.Members {
		mc := &cfg.Members[i]
		if mc.Dead {
			continue
		}
		ndir := filepath.Join(dir, fmt.Sprintf("n%d", i))
		if err := os.MkdirAll(ndir, 0755); err != nil {
			return err
		}
		if mc.Arbiter == 0 {
			if err := vfc12WriteLog(ndir, mc.Pos); err != nil {
				return err
			}
		}
		s := NewSLock(vfc12ServerConfig(ndir), vfGetLogger())
		m := NewArbiterManager(s, "vf")
		m.store.filename = filepath.Join(ndir, "meta.saved")
		for j := range cfg.Members {
			mm := NewArbiterMember(m, cfg.Members[j].Host, cfg.Members[j].Weight, cfg.Members[j].Arbiter)
			if j == i {
				mm.isSelf = true
				m.ownMember = mm
			}
			m.members = append(m.members, mm)
		}
		m.gid, m.version, m.vertime = "76657269662d633132000000000000ff", 7, 1700000000000
		m.voter.commitId = mc.Commit
		err := m.store.Save(m)
		vfc12StopSLock(s)
		if err != nil {
			return err
		}
	}
	return nil
}

func vfc12NewExec(cfg *vfc12Cfg, dir string) (*vfc12Exec, error) {
	ex := &vfc12Exec{cfg: cfg, dir: dir, links: map[[2]int]*vfc12Link{}, events: make(chan vfc12Event, 4096), done: make(chan struct{}),
		arrived: map[[2]int]int{}, sig: map[string]int{}, stats: map[string]int64{}, vectors: map[uint64]bool{}}
	marker := filepath.Join(dir, "prepared")
	want := vfJSON(cfg)
	if b, err := os.ReadFile(marker); err != nil || string(b) != want {
		_ = os.RemoveAll(dir)
		if err := vfc12Prepare(cfg, dir); err != nil {
			return nil, err
		}
		if err := os.WriteFile(marker, []byte(want), 0644); err != nil {
			return nil, err
		}
	}
	for i := range cfg.Members {
		mc := &cfg.Members[i]
		n := &vfc12Node{i: i, cfg: mc, dir: filepath.Join(dir, fmt.Sprintf("n%d", i))}
		ex.nodes = append(ex.nodes, n)
		if mc.Dead {
			continue
		}
		// every execution starts from the same saved metadata
		b, err := os.ReadFile(filepath.Join(n.dir, "meta.saved"))
		if err != nil {
			return nil, err
		}
		if err := os.WriteFile(filepath.Join(n.dir, "meta.pb"), b, 0644); err != nil {
			return nil, err
		}
	}
	for _, n := range ex.nodes {
		if n.cfg.Dead {
			continue
		}
		if err := ex.boot(n); err != nil {
			return nil, err
		}
	}
	for _, a := range ex.nodes {
		for _, b := range ex.nodes {
			if a != b && !a.cfg.Dead && !b.cfg.Dead {
				ex.connect(a, b)
			}
		}
	}
	for _, n := range ex.nodes {
		if !n.cfg.Dead {
			n.pid, n.cid = n.mgr.voter.proposalId, n.mgr.voter.commitId
			if n.cid != n.cfg.Commit {
				return nil, fmt.Errorf("n%d: loaded commit id %d, saved %d", n.i, n.cid, n.cfg.Commit)
			}
		}
	}
	for i, cc := range cfg.Cands {
		c := &vfc12Cand{idx: i, node: cc.Node, roundsLeft: cc.Rounds, round: -1}
		ex.cands = append(ex.cands, c)
		ex.startDriver(c)
	}
	return ex, nil
}

// boot creates a fresh SLock + ArbiterManager for the node and loads the saved
// metadata and the log position from its data directory (the real Load()).
func (ex *vfc12Exec) boot(n *vfc12Node) error {
	lg := &vfc12Logger{Logger: vfGetLogger(), ex: ex, node: n.i, gen: n.gen}
	n.slock = NewSLock(vfc12ServerConfig(n.dir), lg)
	ex.slocks = append(ex.slocks, n.slock)
	n.mgr = NewArbiterManager(n.slock, "vf")
	n.slock.arbiterManager = n.mgr
	n.mgr.store.filename = filepath.Join(n.dir, "meta.pb")
	Config.DataDir = n.dir
	if err := n.mgr.Load(); err != nil {
		return err
	}
	mgr := n.mgr
	if mgr.ownMember == nil || mgr.ownMember.host != n.cfg.Host || len(mgr.members) != len(ex.cfg.Members) {
		return errors.New("metadata did not load the member list")
	}
	if n.cfg.Arbiter == 0 {
		if got := mgr.GetCurrentAofID(); got != n.cfg.Pos.id() {
			return fmt.Errorf("n%d: loaded log position %s, wrote %s", n.i, FormatAofId(got), FormatAofId(n.cfg.Pos.id()))
		}
	}
	for j, mm := range mgr.members {
		mc := &ex.cfg.Members[j]
		if mm.host != mc.Host {
			return errors.New("member order changed")
		}
		switch {
		case mm.isSelf:
			mm.status = ARBITER_MEMBER_STATUS_ONLINE
		case mc.Dead:
			mm.status = ARBITER_MEMBER_STATUS_OFFLINE
		default:
			mm.status = ARBITER_MEMBER_STATUS_ONLINE
		}
		// a restarted member (gen > 0) knows no roles and no positions, like any fresh process
		if !ex.cfg.Cold && n.gen == 0 {
			switch {
			case mc.Dead:
				mm.role = ARBITER_ROLE_LEADER
				mgr.leaderMember = mm
			case mc.Arbiter != 0:
				mm.role = ARBITER_ROLE_ARBITER
			default:
				mm.role = ARBITER_ROLE_FOLLOWER
			}
		}
		if ex.cfg.KnowStatus && n.gen == 0 && !mc.Dead && mc.Arbiter == 0 {
			mm.aofId = mc.Pos.id()
		}
	}
	return nil
}

// connect wires a -> b: a's ArbiterClient for member b over a pipe, the far
// end owned by the scheduler, plus the server-side protocol object that b
// has registered for a.
func (ex *vfc12Exec) connect(a, b *vfc12Node) {
	if old := ex.links[[2]int{a.i, b.i}]; old != nil {
		_ = old.cFrom.Close()
		_ = old.cTo.Close()
	}
	cFrom, cTo := net.Pipe()
	l := &vfc12Link{from: a.i, to: b.i, fromGen: a.gen, cFrom: cFrom, cTo: cTo}
	ex.links[[2]int{a.i, b.i}] = l
	ma := a.mgr.members[b.i]
	cl := NewArbiterClient(ma)
	cl.stream = client.NewStream(cFrom)
	cl.protocol = client.NewBinaryClientProtocol(cl.stream)
	ma.client = cl
	ex.wg.Add(2)
	go func(cp *client.BinaryClientProtocol, rch chan protocol.CommandDecode) { // what ArbiterClient.Run does after connecting
		defer ex.wg.Done()
		for {
			cmd, err := cp.Read()
			if err != nil {
				rch <- nil
				return
			}
			rch <- cmd
		}
	}(cl.protocol, cl.rchannel)
	go func() { // the scheduler's end: hold every CALL frame
		defer ex.wg.Done()
		hdr := make([]byte, 64)
		for {
			if _, err := io.ReadFull(cTo, hdr); err != nil {
				ex.post(vfc12Event{kind: vfc12EvLinkErr, link: l, err: err})
				return
			}
			cmd := &protocol.CallCommand{}
			if hdr[2] != protocol.COMMAND_CALL || cmd.Decode(hdr) != nil {
				ex.post(vfc12Event{kind: vfc12EvLinkErr, link: l, err: errors.New("not a CALL frame")})
				return
			}
			cmd.Data = make([]byte, cmd.ContentLen)
			if _, err := io.ReadFull(cTo, cmd.Data); err != nil {
				ex.post(vfc12Event{kind: vfc12EvLinkErr, link: l, err: err})
				return
			}
			ex.post(vfc12Event{kind: vfc12EvMsg, link: l, cmd: cmd})
		}
	}()
	ex.attach(l)
}

// attach registers, on the receiving member, the server-side protocol of the
// connection (what REPL_CONNECT / ArbiterServer.Attach does).
func (ex *vfc12Exec) attach(l *vfc12Link) {
	b := ex.nodes[l.to]
	st := NewStream(l.cTo)
	l.sp = NewBinaryServerProtocol(b.slock, st)
	st.streamType = STREAM_TYPE_ARBITER
	mb := b.mgr.members[l.from]
	mb.server = &ArbiterServer{member: mb, stream: st, protocol: l.sp, closedWaiter: make(chan struct{})}
}

func (ex *vfc12Exec) startDriver(c *vfc12Cand) {
	n := ex.nodes[c.node]
	c.gen = n.gen
	c.cmdCh = make(chan int, 1)
	voter, gen, ch := n.mgr.voter, n.gen, c.cmdCh
	ex.wg.Add(1)
	go func() {
		defer ex.wg.Done()
		for ph := range ch {
			var err error
			switch ph {
			case vfc12Vote:
				err = voter.DoVote()
			case vfc12Proposal:
				err = voter.DoProposal()
			case vfc12Commit:
				err = voter.DoCommit()
			}
			ex.post(vfc12Event{kind: vfc12EvPhaseDone, cand: c, gen: gen, phase: ph, err: err})
		}
	}()
}

func (ex *vfc12Exec) close() {
	atomic.StoreInt32(&ex.closed, 1)
	close(ex.done)
	for _, l := range ex.links {
		_ = l.cFrom.Close()
		_ = l.cTo.Close()
	}
	for _, c := range ex.cands {
		if c.cmdCh != nil {
			close(c.cmdCh)
		}
	}
	ex.wg.Wait()
	for _, s := range ex.slocks {
		vfc12StopSLock(s)
	}
}

// NewSLock starts one goroutine (TransparencyManager.Run); stop it.
func vfc12StopSLock(s *SLock) {
	if s != nil && s.replicationManager != nil && s.replicationManager.transparencyManager != nil {
		_ = s.replicationManager.transparencyManager.Close()
	}
}

// ------------------------------------------------------------------ actions

func (ex *vfc12Exec) liveNodes() []*vfc12Node {
	var out []*vfc12Node
	for _, n := range ex.nodes {
		if !n.cfg.Dead {
			out = append(out, n)
		}
	}
	return out
}

// enabled lists the actions possible now, in canonical order.
func (ex *vfc12Exec) enabled(withFaults bool) []string {
	var out []string
	for _, c := range ex.cands {
		if !c.done && !c.running {
			out = append(out, fmt.Sprintf("start:n%d", c.node))
		}
	}
	active := false
	for _, c := range ex.cands {
		if !c.done {
			active = true
		}
	}
	for _, m := range ex.pending {
		if m.result == nil {
			if m.fromGen != ex.nodes[m.from].gen && !active {
				continue // orphan of a restarted candidate and nobody left to be affected
			}
			out = append(out, "req:"+m.name)
			if withFaults && ex.cfg.LossPct > 0 {
				out = append(out, "lreq:"+m.name, "lrep:"+m.name)
			}
		} else {
			out = append(out, "rep:"+m.name)
		}
	}
	if withFaults && ex.restarts < ex.cfg.Restarts && active {
		for _, n := range ex.liveNodes() {
			out = append(out, fmt.Sprintf("restart:n%d", n.i))
		}
	}
	return out
}

func (ex *vfc12Exec) findMsg(name string) *vfc12Msg {
	for _, m := range ex.pending {
		if m.name == name {
			return m
		}
	}
	return nil
}

func (ex *vfc12Exec) dropMsg(m *vfc12Msg) {
	for i, x := range ex.pending {
		if x == m {
			ex.pending = append(ex.pending[:i], ex.pending[i+1:]...)
			return
		}
	}
}

// do executes one named action; false if it is not enabled (replay / shrinking skip it).
func (ex *vfc12Exec) do(act string) bool {
	if ex.fail != "" {
		return false
	}
	k := strings.IndexByte(act, ':')
	if k < 0 {
		return false
	}
	kind, arg := act[:k], act[k+1:]
	ok := false
	ex.retNode, ex.retPhase = -1, -1
	switch kind {
	case "start":
		var node int
		if _, err := fmt.Sscanf(arg, "n%d", &node); err != nil {
			return false
		}
		c := ex.candOf(node)
		if c == nil || c.done || c.running {
			return false
		}
		ex.step++
		ex.trace = append(ex.trace, act)
		ex.startPhase(c)
		ok = true
	case "req", "lreq", "lrep":
		m := ex.findMsg(arg)
		if m == nil || m.result != nil {
			return false
		}
		ex.step++
		ex.trace = append(ex.trace, act)
		switch kind {
		case "req":
			ex.handle(m)
		case "lreq":
			m.lost = "request"
			m.result = protocol.NewCallResultCommand(m.cmd, 0, "ERR_LOST", nil)
			ex.stats["lost_requests"]++
			ex.logf("LOST request %s", m.name)
		case "lrep":
			ex.handle(m)
			m.lost = "reply"
			m.result = protocol.NewCallResultCommand(m.cmd, 0, "ERR_LOST", nil)
			ex.stats["lost_replies"]++
			ex.logf("LOST reply of %s", m.name)
		}
		if !ex.cfg.Split {
			ex.reply(m)
		}
		ok = true
	case "rep":
		m := ex.findMsg(arg)
		if m == nil || m.result == nil {
			return false
		}
		ex.step++
		ex.trace = append(ex.trace, act)
		ex.reply(m)
		ok = true
	case "restart":
		var node int
		if _, err := fmt.Sscanf(arg, "n%d", &node); err != nil || node < 0 || node >= len(ex.nodes) || ex.nodes[node].cfg.Dead {
			return false
		}
		ex.step++
		ex.trace = append(ex.trace, act)
		ex.restart(ex.nodes[node])
		ok = true
	}
	if ok {
		ex.observe(act)
	}
	return ok
}

// startPhase lets the candidate enter its next phase (vote of a new round,
// proposal or commit).  The precondition of a round is the one at the head of
// the loop in ArbiterVoter.StartVote.
func (ex *vfc12Exec) startPhase(c *vfc12Cand) {
	n := ex.nodes[c.node]
	mgr := n.mgr
	if c.cur == nil {
		stop := ""
		if mgr.leaderMember != nil && mgr.leaderMember.status == ARBITER_MEMBER_STATUS_ONLINE {
			stop = "leader online"
		}
		online := 0
		for _, mm := range mgr.members {
			if mm.status == ARBITER_MEMBER_STATUS_ONLINE {
				if mm.host == mgr.voter.proposalHost && mgr.ownMember.host != mgr.voter.proposalHost {
					stop = "waits for the announcement of " + mm.host
				}
				online++
			}
		}
		if stop == "" && online < len(mgr.members)/2+1 {
			stop = "not enough members online"
		}
		if stop != "" {
			c.done = true
			ex.stats["candidacies_stood_down"]++
			ex.logf("n%d does not start a round: %s", c.node, stop)
			return
		}
		c.round++
		c.roundsLeft--
		c.phase = vfc12Vote
		c.cur = &vfc12Round{name: fmt.Sprintf("n%d#%d", c.node, c.round), cand: c.idx, start: ex.step, end: -1, acceptors: map[int]bool{}, voteOK: map[int]bool{}}
		ex.rounds = append(ex.rounds, c.cur)
		ex.stats["rounds"]++
	}
	expected := 0
	for _, mm := range mgr.members {
		if !mm.isSelf && mm.status == ARBITER_MEMBER_STATUS_ONLINE {
			expected++
		}
	}
	before := ex.arrived[[2]int{n.i, n.gen}]
	selfKeyOK := vfc12SigKey(vfc12EvSelfOK, n.i, n.gen, n.cfg.Host)
	selfKeyErr := vfc12SigKey(vfc12EvReqErr, n.i, n.gen, n.cfg.Host)
	selfBefore := ex.sig[selfKeyOK] + ex.sig[selfKeyErr]
	selfOKBefore := ex.sig[selfKeyOK]
	c.running = true
	c.outstanding = 0
	c.okN, c.errN, c.rejN, c.selfOK = 0, 0, 0, false
	ph := c.phase
	ex.logf("n%d starts %s of round %s (proposalIndex=%d)", c.node, vfc12PhaseName[ph], c.cur.name, mgr.voter.proposalIndex)
	c.cmdCh <- ph
	if !ex.pump(fmt.Sprintf("phase start of n%d", c.node), func() bool {
		if ex.arrived[[2]int{n.i, n.gen}] < before+expected {
			return false
		}
		return ph == vfc12Vote || ex.sig[selfKeyOK]+ex.sig[selfKeyErr] > selfBefore
	}) {
		return
	}
	if ph == vfc12Vote {
		c.cur.voteOK[n.i] = true // the member's own answer (it never abstains here)
		return
	}
	selfOK := ex.sig[selfKeyOK] > selfOKBefore
	c.selfOK = selfOK
	v := mgr.voter
	switch ph {
	case vfc12Proposal:
		c.cur.id = v.proposalIndex
		c.cur.host = v.voteHost
		ex.logf("  n%d self proposal id=%d host=%s: %v", n.i, v.proposalIndex, v.voteHost, selfOK)
		if selfOK {
			ex.stats["self_proposals_accepted"]++
			if p, ok := vfc12PosFromWire(FormatAofId(v.voteAofId)); ok && n.cfg.Arbiter == 0 && vfc12Newer(n.cfg.Pos, p) > 0 {
				ex.newerAccepted(n, p, "own proposal of n"+fmt.Sprint(n.i))
			}
		} else {
			ex.stats["self_proposals_refused"]++
		}
	case vfc12Commit:
		if v.proposalIndex != c.cur.id {
			c.cur.renumbered = true
			ex.stats["commit_number_differs_from_proposed"]++
			ex.logf("  n%d proposed under number %d and asks for commits under number %d", n.i, c.cur.id, v.proposalIndex)
		}
		ex.logf("  n%d self commit id=%d: %v", n.i, v.proposalIndex, selfOK)
		if selfOK {
			ex.noteCommit(n, c.cur, v.proposalIndex)
		}
	}
}

func (ex *vfc12Exec) newerAccepted(n *vfc12Node, p vfc12Pos, what string) {
	sig := "newer-log-accepted"
	if vfc12NewerOffsetFirst(n.cfg.Pos, p) <= 0 {
		sig += ":offset-compared-before-file-index"
	}
	ex.find("refusal", sig, "member n%d (data-bearing, log %s) accepted %s for log %s although its own log is newer", n.i, n.cfg.Pos, what, p)
}

func (ex *vfc12Exec) noteCommit(n *vfc12Node, r *vfc12Round, id uint64) {
	n.commits = append(n.commits, vfc12CommitRec{step: ex.step, round: r.name, id: id, gen: n.gen})
	r.acceptors[n.i] = true
	ex.stats["commits_accepted"]++
}

// handle gives the request to the real acceptor code of the addressee.
func (ex *vfc12Exec) handle(m *vfc12Msg) {
	to := ex.nodes[m.to]
	l := ex.links[[2]int{m.from, m.to}]
	handler, err := l.sp.FindCallMethod(m.cmd.MethodName)
	if err != nil {
		ex.fail = "no call method " + m.cmd.MethodName
		return
	}
	res, _ := handler(l.sp, m.cmd)
	if res == nil {
		ex.fail = "handler returned no result for " + m.name
		return
	}
	m.handled = true
	m.result = res
	okRes := res.Result == 0 && res.ErrType == ""
	ex.stats["requests_delivered"]++
	ex.stats["delivered_"+m.cmd.MethodName]++
	ex.logf("n%d handles %s -> %q", m.to, m.name, res.ErrType)
	var r *vfc12Round
	for _, x := range ex.rounds {
		if x.name == fmt.Sprintf("n%d#%d", m.from, m.round) {
			r = x
		}
	}
	switch m.phase {
	case vfc12Proposal:
		req := protobuf.ArbiterProposalRequest{}
		if proto.Unmarshal(m.cmd.Data, &req) != nil {
			ex.fail = "undecodable proposal"
			return
		}
		if okRes {
			ex.stats["proposals_accepted"]++
		} else {
			ex.stats["proposals_refused_"+res.ErrType]++
		}
		if p, ok := vfc12PosFromWire(req.AofId); ok && to.cfg.Arbiter == 0 && vfc12Newer(to.cfg.Pos, p) > 0 {
			ex.stats["proposals_to_newer_member"]++
			if okRes {
				ex.newerAccepted(to, p, "proposal "+m.name)
			}
		}
	case vfc12Commit:
		req := protobuf.ArbiterCommitRequest{}
		if proto.Unmarshal(m.cmd.Data, &req) != nil {
			ex.fail = "undecodable commit"
			return
		}
		if okRes && r != nil {
			ex.noteCommit(to, r, req.ProposalId)
		}
		if !okRes {
			ex.stats["commits_refused_"+res.ErrType]++
		}
	}
}

// reply writes the (real or error) result back to the proposer and waits until
// the proposer has processed it.
func (ex *vfc12Exec) reply(m *vfc12Msg) {
	ex.dropMsg(m)
	from := ex.nodes[m.from]
	if m.fromGen != from.gen {
		ex.logf("reply of %s discarded (sender restarted)", m.name)
		return
	}
	c := m.cand
	l := ex.links[[2]int{m.from, m.to}]
	host := ex.nodes[m.to].cfg.Host
	kOK, kErr := vfc12SigKey(vfc12EvReplyOK, from.i, from.gen, host), vfc12SigKey(vfc12EvReqErr, from.i, from.gen, host)
	before, okBefore := ex.sig[kOK]+ex.sig[kErr], ex.sig[kOK]
	doneKey := fmt.Sprintf("done/%d/%d/%d/%d", c.idx, c.gen, m.round, m.phase)
	if err := l.sp.Write(m.result); err != nil {
		ex.fail = "cannot write reply: " + err.Error()
		return
	}
	if !ex.pump("processing of reply "+m.name, func() bool { return ex.sig[kOK]+ex.sig[kErr] > before }) {
		return
	}
	gotOK := ex.sig[kOK] > okBefore
	wantOK := m.result.Result == 0 && m.result.ErrType == ""
	if gotOK != wantOK {
		ex.fail = fmt.Sprintf("reply %s: proposer success=%v, result success=%v", m.name, gotOK, wantOK)
		return
	}
	ex.stats["replies_delivered"]++
	if gotOK {
		c.okN++
	} else {
		c.errN++
		if m.result.ErrType == "ERR_REJECT" {
			c.rejN++
		}
	}
	if m.phase == vfc12Vote && gotOK && c.cur != nil {
		c.cur.voteOK[m.to] = true
	}
	c.outstanding--
	if c.outstanding == 0 {
		ex.pump("end of phase "+m.name, func() bool { return ex.sig[doneKey] > 0 })
	}
}

// phaseDone: a DoVote / DoProposal / DoCommit call returned.
func (ex *vfc12Exec) phaseDone(c *vfc12Cand, ph int, err error) {
	n := ex.nodes[c.node]
	v := n.mgr.voter
	c.running = false
	r := c.cur
	ex.retNode, ex.retPhase = c.node, ph
	ex.logf("n%d %s of %s returned: %v", c.node, vfc12PhaseName[ph], r.name, err)
	endRound := func(result string) {
		r.end, r.result = ex.step, result
		c.cur = nil
		if result == "won" || c.roundsLeft <= 0 {
			c.done = true
		}
	}
	switch ph {
	case vfc12Vote:
		ex.checkVote(c, n, err)
		if err != nil {
			ex.stats["votes_failed"]++
			endRound("vote-failed")
			return
		}
		ex.stats["votes_ok"]++
		c.phase = vfc12Proposal
	case vfc12Proposal:
		if err != nil {
			ex.stats["proposals_failed"]++
			endRound("proposal-failed")
			return
		}
		ex.stats["proposal_majorities"]++
		c.phase = vfc12Commit
	case vfc12Commit:
		if err != nil {
			ex.stats["commit_failures"]++
			// ArbiterVoter.DoCommit clears the member's own pending commit when its own candidacy fails
			for i := len(n.commits) - 1; i >= 0; i-- {
				if n.commits[i].gen == n.gen && n.commits[i].cleared == "" {
					if v.proposalHost == "" {
						n.commits[i].cleared = "own-docommit-failed"
					}
					break
				}
			}
			endRound("commit-failed")
			return
		}
		endRound("won")
		ex.stats["wins"]++
		ex.checkWin(r)
	}
}

// ------------------------------------------------------------------ oracle

func (ex *vfc12Exec) checkVote(c *vfc12Cand, n *vfc12Node, err error) {
	r := c.cur
	if err != nil {
		return
	}
	v := n.mgr.voter
	chosen := -1
	for i := range ex.cfg.Members {
		if ex.cfg.Members[i].Host == v.voteHost {
			chosen = i
		}
	}
	var resp []int
	for i := range r.voteOK {
		resp = append(resp, i)
	}
	sort.Ints(resp)
	desc := func() string {
		s := []string{}
		for _, i := range resp {
			mc := ex.cfg.Members[i]
			s = append(s, fmt.Sprintf("n%d{%s w=%d arb=%d log=%s}", i, mc.Host, mc.Weight, mc.Arbiter, mc.Pos))
		}
		return strings.Join(s, " ")
	}
	ex.stats["vote_choices_checked"]++
	if chosen < 0 || !r.voteOK[chosen] || ex.cfg.Members[chosen].Arbiter != 0 || ex.cfg.Members[chosen].Weight == 0 {
		ex.find("chosen-host", "chosen-host:ineligible", "candidate n%d proposed %q which is not a data-bearing, weight>0 member among the vote responders [%s]", n.i, v.voteHost, desc())
		return
	}
	var best []int
	for _, i := range resp {
		mc := &ex.cfg.Members[i]
		if mc.Arbiter != 0 || mc.Weight == 0 {
			continue
		}
		if len(best) == 0 {
			best = []int{i}
			continue
		}
		b := &ex.cfg.Members[best[0]]
		cmp := vfc12Newer(mc.Pos, b.Pos)
		if cmp == 0 {
			if mc.Weight > b.Weight {
				cmp = 1
			} else if mc.Weight < b.Weight {
				cmp = -1
			}
		}
		if cmp > 0 {
			best = []int{i}
		} else if cmp == 0 {
			best = append(best, i)
		}
	}
	in := false
	lo, hi := best[0], best[0]
	for _, i := range best {
		if i == chosen {
			in = true
		}
		if ex.cfg.Members[i].Host < ex.cfg.Members[lo].Host {
			lo = i
		}
		if ex.cfg.Members[i].Host > ex.cfg.Members[hi].Host {
			hi = i
		}
	}
	if len(best) > 1 {
		ex.stats["vote_ties_by_host"]++
	}
	cm, bm := &ex.cfg.Members[chosen], &ex.cfg.Members[best[0]]
	if !in {
		if vfc12Newer(bm.Pos, cm.Pos) > 0 {
			sig := "chosen-host:not-newest-log"
			if ex.offsetFirstCouldChoose(resp, chosen) {
				sig += ":offset-compared-before-file-index"
			}
			ex.find("chosen-host", sig, "candidate n%d proposed n%d (log %s) although responder n%d holds the newer log %s; responders [%s]", n.i, chosen, cm.Pos, best[0], bm.Pos, desc())
		} else {
			ex.find("chosen-host", "chosen-host:weight-tie-break", "candidate n%d proposed n%d (weight %d) although responder n%d with the same log has weight %d; responders [%s]", n.i, chosen, cm.Weight, best[0], bm.Weight, desc())
		}
		return
	}
	if chosen != lo && chosen != hi {
		ex.find("chosen-host", "chosen-host:host-tie-break", "candidate n%d proposed n%d, neither the smallest nor the largest host among equals; responders [%s]", n.i, chosen, desc())
	}
	if p, ok := vfc12PosFromWire(FormatAofId(v.voteAofId)); !ok || p != cm.Pos {
		ex.find("chosen-host", "chosen-host:position-mismatch", "candidate n%d proposes n%d with log %v, the member's log is %s", n.i, chosen, p, cm.Pos)
	}
}

// offsetFirstCouldChoose is NOT part of the oracle; it labels the cause of a
// wrong choice: would a sequential "keep the newer one" scan over the eligible
// responders, in some arrival order, end at `chosen` if positions were ordered
// by record offset before file index (that order is not transitive, so the
// result can depend on the arrival order)?
func (ex *vfc12Exec) offsetFirstCouldChoose(resp []int, chosen int) bool {
	var el []int
	for _, i := range resp {
		if ex.cfg.Members[i].Arbiter == 0 && ex.cfg.Members[i].Weight > 0 {
			el = append(el, i)
		}
	}
	var rec func(k int) bool
	rec = func(k int) bool {
		if k == len(el) {
			sel := el[0]
			for _, i := range el[1:] {
				a, b := &ex.cfg.Members[i], &ex.cfg.Members[sel]
				if a.Pos == b.Pos {
					if a.Weight > b.Weight || (a.Weight == b.Weight && a.Host > b.Host) {
						sel = i
					}
				} else if vfc12NewerOffsetFirst(a.Pos, b.Pos) > 0 {
					sel = i
				}
			}
			return sel == chosen
		}
		for j := k; j < len(el); j++ {
			el[k], el[j] = el[j], el[k]
			ok := rec(k + 1)
			el[k], el[j] = el[j], el[k]
			if ok {
				return true
			}
		}
		return false
	}
	return len(el) > 0 && rec(0)
}

func vfc12Overlap(a, b *vfc12Round) bool {
	ae, be := a.end, b.end
	if ae < 0 {
		ae = 1 << 30
	}
	if be < 0 {
		be = 1 << 30
	}
	return a.start <= be && b.start <= ae
}

func (ex *vfc12Exec) checkWin(r *vfc12Round) {
	need := len(ex.cfg.Members)/2 + 1
	if len(r.acceptors) < need {
		ex.find("single-winner", "winner-without-commit-majority", "DoCommit of %s returned success with %d of %d members having accepted its commit (majority %d)", r.name, len(r.acceptors), len(ex.cfg.Members), need)
	}
	for _, o := range ex.rounds {
		if o == r || o.result != "won" {
			continue
		}
		if !vfc12Overlap(o, r) {
			ex.stats["double_win_non_overlapping"]++
			ex.logf("note: %s and %s both won, not overlapping in time", o.name, r.name)
			continue
		}
		// which member committed to both, and what released its first commit?
		cause := "other"
		var both []int
		for i := range r.acceptors {
			if o.acceptors[i] {
				both = append(both, i)
			}
		}
		sort.Ints(both)
		causes := map[string]bool{}
		for _, i := range both {
			n := ex.nodes[i]
			for _, cr := range n.commits {
				if cr.round == o.name {
					c := cr.cleared
					if c == "" && cr.gen != n.gen {
						c = "restart"
					}
					if c == "" {
						c = "other"
					}
					causes[c] = true
				}
			}
		}
		switch {
		case (o.renumbered || r.renumbered) && !causes["restart"] && !causes["own-docommit-failed"]:
			cause = "commit-number-differs-from-proposed-number"
		case len(both) == 0:
			cause = "no-common-acceptor"
		case causes["restart"] && len(causes) == 1:
			cause = "after-acceptor-restart"
		case causes["own-docommit-failed"] && len(causes) == 1:
			cause = "pending-commit-cleared-by-own-failed-candidacy"
		case causes["restart"] && causes["own-docommit-failed"]:
			cause = "after-acceptor-restart+pending-commit-cleared-by-own-failed-candidacy"
		}
		ex.find("single-winner", "second-winner:"+cause, "candidacies %s (steps %d-%d, id %d, host %s, commits from %v) and %s (steps %d-%d, id %d, host %s, commits from %v) overlap in time and both gathered a commit majority; common acceptors %v",
			o.name, o.start, o.end, o.id, o.host, vfc12Keys(o.acceptors), r.name, r.start, r.end, r.id, r.host, vfc12Keys(r.acceptors), both)
	}
}

func vfc12Keys(m map[int]bool) []int {
	var k []int
	for i := range m {
		k = append(k, i)
	}
	sort.Ints(k)
	return k
}

// vfc12StrictRestartProposal: also demand that the accepted proposal number
// survives a restart.  Off: the saved metadata holds the committed number only
// and Load() deliberately seeds the proposal number from it; the statement
// asks of a restart only that it "must not make a second winner possible".
var vfc12StrictRestartProposal = os.Getenv("VERIF_C12_STRICT_RESTART_PROPOSAL") == "1"

// observe runs after every step: numbers must not have decreased.
func (ex *vfc12Exec) observe(act string) {
	if ex.fail != "" {
		return
	}
	h := uint64(1469598103934665603)
	for _, n := range ex.liveNodes() {
		v := n.mgr.voter
		v.glock.Lock()
		pid, cid := v.proposalId, v.commitId
		v.glock.Unlock()
		if pid < n.pid {
			cause := "other"
			switch {
			case strings.HasPrefix(act, "restart:"):
				cause = "after-restart"
			case ex.retNode == n.i && ex.retPhase == vfc12Proposal:
				cause = "own-DoProposal-overwrites-newer-accept"
			case ex.retNode == n.i && ex.retPhase == vfc12Commit:
				cause = "own-DoCommit-overwrite"
			case strings.HasPrefix(act, "start:"):
				cause = "own-self-step"
			case strings.HasSuffix(act, fmt.Sprintf(">n%d:P%s", n.i, act[len(act)-1:])) || strings.Contains(act, fmt.Sprintf(">n%d:P", n.i)):
				cause = "acceptor-took-lower-proposal"
			}
			if cause == "after-restart" && !vfc12StrictRestartProposal {
				ex.stats["proposal_number_forgotten_by_restart"]++
			} else {
				ex.find("monotonic", "regress:proposalId:"+cause, "accepted proposal number of n%d fell from %d to %d at step %q", n.i, n.pid, pid, act)
			}
		}
		if cid < n.cid {
			cause := "other"
			switch {
			case strings.HasPrefix(act, "restart:"):
				cause = "after-restart"
			case ex.retNode == n.i && ex.retPhase == vfc12Commit:
				cause = "own-DoCommit-overwrite"
			case strings.Contains(act, fmt.Sprintf(">n%d:C", n.i)):
				cause = "acceptor-took-lower-commit"
			}
			ex.find("monotonic", "regress:commitId:"+cause, "committed number of n%d fell from %d to %d at step %q", n.i, n.cid, cid, act)
		}
		n.pid, n.cid = pid, cid
		h = vfMix(h ^ vfMix(pid<<20^cid<<4^uint64(n.i)))
	}
	ex.vectors[h] = true
	ex.stats["steps"]++
}

// restart: fresh SLock + manager loaded from the saved metadata; connections
// are re-established without any member being told that it was offline.
func (ex *vfc12Exec) restart(n *vfc12Node) {
	ex.restarts++
	ex.stats["restarts"]++
	c := ex.candOf(n.i)
	hadPending := n.mgr.voter.proposalHost != ""
	if hadPending {
		ex.stats["restarts_with_pending_commit"]++
	}
	ex.logf("RESTART n%d (proposalId=%d commitId=%d proposalHost=%q)", n.i, n.mgr.voter.proposalId, n.mgr.voter.commitId, n.mgr.voter.proposalHost)
	for i := range n.commits {
		if n.commits[i].cleared == "" && n.commits[i].gen == n.gen {
			n.commits[i].cleared = "restart"
		}
	}
	if c != nil {
		if c.cur != nil {
			c.cur.end, c.cur.result = ex.step, "aborted-by-restart"
			c.cur = nil
			c.roundsLeft++ // the fresh process starts its election loop again
		}
		c.running = false
		close(c.cmdCh)
		c.cmdCh = nil
		// replies to the old incarnation are void
		kept := ex.pending[:0]
		for _, m := range ex.pending {
			if m.from == n.i && m.result != nil {
				continue
			}
			kept = append(kept, m)
		}
		ex.pending = kept
	}
	// the old process is gone: whatever its goroutines still do while they
	// unwind must not reach the member's files
	n.mgr.store.filename = filepath.Join(n.dir, "meta.dead-process")
	n.gen++
	if err := ex.boot(n); err != nil {
		ex.fail = "restart failed: " + err.Error()
		return
	}
	for _, o := range ex.liveNodes() {
		if o != n {
			ex.connect(n, o) // new outgoing connection (closes the old one)
			ex.attach(ex.links[[2]int{o.i, n.i}])
		}
	}
	if c != nil {
		c.done = c.roundsLeft <= 0
		ex.startDriver(c)
	}
	ex.logf("  n%d now proposalId=%d commitId=%d", n.i, n.mgr.voter.proposalId, n.mgr.voter.commitId)
}

// stateKey: everything that can influence future behaviour or verdicts (DFS pruning).
func (ex *vfc12Exec) stateKey() string {
	var sb strings.Builder
	for _, n := range ex.liveNodes() {
		v := n.mgr.voter
		fmt.Fprintf(&sb, "n%d:%d,%d,%d,%s,%s,%s,%x|", n.i, v.proposalIndex, v.proposalId, v.commitId, v.proposalHost, v.proposalFromHost, v.voteHost, v.voteAofId)
		for _, mm := range n.mgr.members {
			fmt.Fprintf(&sb, "%x.%d,", mm.aofId, mm.role)
		}
		for _, cr := range n.commits {
			fmt.Fprintf(&sb, "c%s/%s,", cr.round, cr.cleared)
		}
	}
	for _, c := range ex.cands {
		fmt.Fprintf(&sb, "C%d:%d,%d,%v,%v,%d,%d,%d,%d,%d,%v|", c.idx, c.round, c.phase, c.running, c.done, c.outstanding, c.roundsLeft, c.okN, c.errN, c.rejN, c.selfOK)
	}
	for _, m := range ex.pending {
		e := "-"
		if m.result != nil {
			e = fmt.Sprintf("%d/%s/%x", m.result.Result, m.result.ErrType, m.result.Data)
		}
		fmt.Fprintf(&sb, "M%s=%s|", m.name, e)
	}
	for _, r := range ex.rounds {
		fmt.Fprintf(&sb, "R%s:%s,%v,%v,%v", r.name, r.result, vfc12Keys(r.acceptors), vfc12Keys(r.voteOK), r.renumbered)
		for _, o := range ex.rounds {
			if o != r {
				fmt.Fprintf(&sb, ",%v", vfc12Overlap(r, o))
			}
		}
		sb.WriteByte('|')
	}
	return sb.String()
}

// ------------------------------------------------------------------ runs

type vfc12Outcome struct {
	Given    []string // the part of the trace that came from the caller's list
	Trace    []string
	History  []string
	Findings []vfc12Finding
	Fail     string
	Stats    map[string]int64
	Vectors  map[uint64]bool
	Wins     int
}

func (ex *vfc12Exec) outcome() *vfc12Outcome {
	w := 0
	for _, r := range ex.rounds {
		if r.result == "won" {
			w++
		}
	}
	g := ex.given
	if g <= 0 || g > len(ex.trace) {
		g = len(ex.trace)
	}
	return &vfc12Outcome{Given: ex.trace[:g], Trace: ex.trace, History: ex.history, Findings: ex.findings, Fail: ex.fail, Stats: ex.stats, Vectors: ex.vectors, Wins: w}
}

// vfc12RunList executes the named actions in order (those not enabled are
// skipped) and then, unless strict, lets every started phase end by losing
// what is still in flight; no new phase is started.
func vfc12RunList(cfg *vfc12Cfg, dir string, acts []string, finish bool) *vfc12Outcome {
	ex, err := vfc12NewExec(cfg, dir)
	if err != nil {
		return &vfc12Outcome{Fail: "set-up: " + err.Error()}
	}
	defer ex.close()
	for _, a := range acts {
		ex.do(a)
	}
	ex.given = len(ex.trace)
	if ex.given == 0 {
		ex.given = -1
	}
	for finish && ex.fail == "" {
		progressed := false
		for _, m := range append([]*vfc12Msg(nil), ex.pending...) {
			if m.result == nil {
				progressed = ex.do("lreq:"+m.name) || progressed
			} else {
				progressed = ex.do("rep:"+m.name) || progressed
			}
		}
		if !progressed {
			break
		}
	}
	return ex.outcome()
}

// vfc12RunRandom: one PRNG schedule.
func vfc12RunRandom(cfg *vfc12Cfg, dir string, rng *vfRand) *vfc12Outcome {
	ex, err := vfc12NewExec(cfg, dir)
	if err != nil {
		return &vfc12Outcome{Fail: "set-up: " + err.Error()}
	}
	defer ex.close()
	for ex.fail == "" && ex.step < 2000 {
		en := ex.enabled(false)
		if len(en) == 0 {
			break
		}
		active := false
		for _, c := range ex.cands {
			if !c.done {
				active = true
			}
		}
		if !active {
			break
		}
		if ex.restarts < cfg.Restarts && rng.Chance(4) {
			live := ex.liveNodes()
			ex.do(fmt.Sprintf("restart:n%d", live[rng.Intn(len(live))].i))
			continue
		}
		a := en[rng.Intn(len(en))]
		if strings.HasPrefix(a, "req:") && rng.Chance(cfg.LossPct) {
			if rng.Chance(50) {
				a = "lreq:" + a[4:]
			} else {
				a = "lrep:" + a[4:]
			}
		}
		ex.do(a)
	}
	return ex.outcome()
}

// vfc12DFS enumerates every order of the enabled actions (no faults) by
// re-execution, pruning revisits of identical global states.
type vfc12DFSResult struct {
	Executions int
	States     int
	Pruned     int
	Terminal   int
	MaxDepth   int
	Complete   bool
	Outcomes   []*vfc12Outcome // those with findings (first few)
	Fail       string
	Stats      map[string]int64
	Vectors    map[uint64]bool
	Schedules  map[uint64]bool
	Wins       map[int]int
}

func vfc12DFS(cfg *vfc12Cfg, dir string, maxExec int) *vfc12DFSResult {
	res := &vfc12DFSResult{Stats: map[string]int64{}, Vectors: map[uint64]bool{}, Schedules: map[uint64]bool{}, Wins: map[int]int{}}
	type frame struct{ n, cur int }
	var frames []frame
	visited := map[uint64]bool{}
	seenSig := map[string]int{}
	for {
		if res.Executions >= maxExec {
			return res
		}
		res.Executions++
		ex, err := vfc12NewExec(cfg, dir)
		if err != nil {
			res.Fail = "set-up: " + err.Error()
			return res
		}
		ex.noLog = len(res.Outcomes) >= 8
		depth := 0
		for ex.fail == "" {
			en := ex.enabled(false)
			if len(en) == 0 {
				res.Terminal++
				break
			}
			idx := 0
			if depth < len(frames) {
				idx = frames[depth].cur
				if frames[depth].n != len(en) || idx >= len(en) {
					ex.fail = fmt.Sprintf("non-deterministic re-execution at depth %d: %d enabled, %d before; trace=%v", depth, len(en), frames[depth].n, ex.trace)
					break
				}
			} else {
				h := vfStrHash(ex.stateKey())
				if visited[h] {
					res.Pruned++
					break
				}
				visited[h] = true
				frames = append(frames, frame{n: len(en)})
			}
			ex.do(en[idx])
			depth++
		}
		out := ex.outcome()
		ex.close()
		if depth > res.MaxDepth {
			res.MaxDepth = depth
		}
		for k, v := range out.Stats {
			res.Stats[k] += v
		}
		for k := range out.Vectors {
			res.Vectors[k] = true
		}
		res.Schedules[vfStrHash(strings.Join(out.Trace, " "))] = true
		res.Wins[out.Wins]++
		if out.Fail != "" {
			res.Fail = out.Fail
			return res
		}
		if len(out.Findings) > 0 {
			fresh := false
			for _, f := range out.Findings {
				seenSig[f.Sig]++
				if seenSig[f.Sig] <= 2 {
					fresh = true
				}
			}
			if fresh {
				res.Outcomes = append(res.Outcomes, out)
			}
			for _, f := range out.Findings {
				res.Stats["finding_"+f.Sig]++
			}
		}
		if len(frames) > depth {
			frames = frames[:depth]
		}
		for len(frames) > 0 && frames[len(frames)-1].cur+1 >= frames[len(frames)-1].n {
			frames = frames[:len(frames)-1]
		}
		if len(frames) == 0 {
			res.Complete = true
			res.States = len(visited)
			return res
		}
		frames[len(frames)-1].cur++
		res.States = len(visited)
	}
}

// vfc12Shrink removes actions one at a time while the same signature still
// appears (remaining phases are ended by losing what is in flight).
func vfc12Shrink(cfg *vfc12Cfg, dir string, acts []string, sig string) []string {
	has := func(o *vfc12Outcome) bool {
		if o.Fail != "" {
			return false
		}
		for _, f := range o.Findings {
			if f.Sig == sig {
				return true
			}
		}
		return false
	}
	cur := append([]string(nil), acts...)
	if !has(vfc12RunList(cfg, dir, cur, true)) {
		return acts
	}
	for changed := true; changed; {
		changed = false
		for i := len(cur) - 1; i >= 0; i-- {
			try := append(append([]string(nil), cur[:i]...), cur[i+1:]...)
			o := vfc12RunList(cfg, dir, try, true)
			if has(o) {
				cur = o.Given // only what actually ran
				changed = true
				if i > len(cur) {
					i = len(cur)
				}
			}
		}
	}
	return cur
}

// ------------------------------------------------------------------ case generation

func vfc12Hosts(rng *vfRand, n int) []string {
	ports := []int{5701, 5702, 5703, 5704, 5705, 5711, 5712}
	for i := len(ports) - 1; i > 0; i-- {
		j := rng.Intn(i + 1)
		ports[i], ports[j] = ports[j], ports[i]
	}
	out := make([]string, n)
	for i := range out {
		out[i] = fmt.Sprintf("127.0.0.1:%d", ports[i])
	}
	return out
}

func vfc12IndexAdd(base uint32, d uint32) uint32 {
	for ; d > 0; d-- {
		base++
		if base == 0 || base == 0xffffffff { // 0 is never used; a lone file 0xffffffff cannot be loaded by FindAofFiles (not this property)
			base = 1
		}
	}
	return base
}

func vfc12GenPositions(rng *vfRand, n int) []vfc12Pos {
	var base uint32
	switch rng.Intn(4) {
	case 0:
		base = uint32(rng.Range(1, 4))
	case 1:
		base = 0xfffffffc + uint32(rng.Intn(3)) // indices straddle the wrap-around
	case 2:
		base = 0x7ffffffd + uint32(rng.Intn(4))
	default:
		base = uint32(rng.U64()%0xfffffff0) + 1
	}
	offs := []uint32{1, 2, 3, 7, 100, 65536, 0x7ffffffe, 0x7fffffff, 0x80000000, 0xfffffffe}
	out := make([]vfc12Pos, n)
	mode := rng.Intn(4)
	for i := range out {
		var idx, off uint32
		switch mode {
		case 0: // same file, different offsets
			idx, off = base, offs[rng.Intn(5)]
		case 1: // everyone equal
			idx, off = base, 7
		default:
			idx = vfc12IndexAdd(base, uint32(rng.Intn(3)))
			off = offs[rng.Intn(len(offs))]
			if rng.Chance(30) {
				off = uint32(rng.Range(1, 5))
			}
		}
		out[i] = vfc12MkPos(idx, off)
	}
	return out
}

func vfc12GenCfg(rng *vfRand, nMembers, nCands int, faults bool) *vfc12Cfg {
	cfg := &vfc12Cfg{Split: true}
	hosts := vfc12Hosts(rng, nMembers)
	pos := vfc12GenPositions(rng, nMembers)
	baseCommit := uint64(rng.PickInt([]int{0, 0, 3, 41}))
	spread := rng.Chance(60)
	dead := -1
	if nMembers >= 4 && rng.Chance(30) {
		dead = rng.Intn(nMembers)
	}
	eligible := 0
	for i := 0; i < nMembers; i++ {
		mc := vfc12MemberCfg{Host: hosts[i], Weight: uint32(rng.PickInt([]int{1, 1, 1, 2, 3})), Pos: pos[i], Commit: baseCommit, Dead: i == dead}
		switch k := rng.Intn(10); {
		case k == 0:
			mc.Weight = 0
		case k == 1 && nMembers >= 3:
			mc.Arbiter = 1
			mc.Pos = vfc12Pos{}
		}
		if spread {
			mc.Commit += uint64(rng.PickInt([]int{0, 0, 0, 1, 2}))
		}
		if !mc.Dead && mc.Arbiter == 0 && mc.Weight > 0 {
			eligible++
		}
		cfg.Members = append(cfg.Members, mc)
	}
	if eligible == 0 {
		for i := range cfg.Members {
			if !cfg.Members[i].Dead {
				cfg.Members[i].Arbiter, cfg.Members[i].Weight, cfg.Members[i].Pos = 0, 1, pos[i]
				break
			}
		}
	}
	var live []int
	for i := range cfg.Members {
		if !cfg.Members[i].Dead {
			live = append(live, i)
		}
	}
	for i := len(live) - 1; i > 0; i-- {
		j := rng.Intn(i + 1)
		live[i], live[j] = live[j], live[i]
	}
	if nCands > len(live) {
		nCands = len(live)
	}
	for i := 0; i < nCands; i++ {
		cfg.Cands = append(cfg.Cands, vfc12CandCfg{Node: live[i], Rounds: rng.PickInt([]int{1, 1, 2, 2, 3})})
	}
	sort.Slice(cfg.Cands, func(i, j int) bool { return cfg.Cands[i].Node < cfg.Cands[j].Node })
	cfg.Cold = rng.Chance(30)
	cfg.KnowStatus = rng.Chance(50)
	if faults {
		cfg.LossPct = rng.PickInt([]int{0, 0, 5, 15, 30})
		cfg.Restarts = rng.PickInt([]int{0, 0, 1, 2})
	}
	return cfg
}

// the enumerated sub-space: 3 members x 2 single-round candidates, no faults
func vfc12DFSCfg(seed int64, k int) *vfc12Cfg {
	mk := func(ports [3]int, w [3]uint32, arb [3]uint32, pos [3]vfc12Pos, commit [3]uint64, cands [2]int) *vfc12Cfg {
		cfg := &vfc12Cfg{Split: true}
		for i := 0; i < 3; i++ {
			p := pos[i]
			if arb[i] != 0 {
				p = vfc12Pos{}
			}
			cfg.Members = append(cfg.Members, vfc12MemberCfg{Host: fmt.Sprintf("127.0.0.1:%d", ports[i]), Weight: w[i], Arbiter: arb[i], Pos: p, Commit: commit[i]})
		}
		cfg.Cands = []vfc12CandCfg{{Node: cands[0], Rounds: 1}, {Node: cands[1], Rounds: 1}}
		return cfg
	}
	P := vfc12MkPos
	switch k {
	case 0: // equal everything: both candidates use the same proposal number
		return mk([3]int{5701, 5702, 5703}, [3]uint32{1, 1, 1}, [3]uint32{}, [3]vfc12Pos{P(3, 7), P(3, 7), P(3, 7)}, [3]uint64{0, 0, 0}, [2]int{0, 1})
	case 1: // different saved commit numbers: the candidates use different proposal numbers; the third member has the newest log
		return mk([3]int{5703, 5701, 5702}, [3]uint32{1, 2, 1}, [3]uint32{}, [3]vfc12Pos{P(3, 7), P(3, 7), P(3, 9)}, [3]uint64{0, 1, 0}, [2]int{0, 1})
	case 2: // an arbiter candidate and a weight-0 member with the newest log, log files straddling the wrap-around
		return mk([3]int{5702, 5703, 5701}, [3]uint32{1, 0, 1}, [3]uint32{1, 0, 0}, [3]vfc12Pos{{}, P(1, 9), P(0xfffffffe, 9)}, [3]uint64{4, 4, 5}, [2]int{0, 2})
	}
	// further configurations are drawn from the seed
	rng := vfCaseRand(seed, "C12-dfs", k)
	cfg := vfc12GenCfg(rng, 3, 2, false)
	for i := range cfg.Cands {
		cfg.Cands[i].Rounds = 1
	}
	return cfg
}

// ------------------------------------------------------------------ test entry

type vfc12Replay struct {
	Case      int       `json:"case"`
	Seed      int64     `json:"seed"`
	Tier      string    `json:"tier"`
	Property  string    `json:"property"`
	Mode      string    `json:"mode"`
	Signature string    `json:"signature"`
	Clause    string    `json:"clause"`
	Detail    string    `json:"detail"`
	Cfg       *vfc12Cfg `json:"config"`
	Actions   []string  `json:"actions"` // minimised schedule; re-executed by --replay
	Full      []string  `json:"full_schedule"`
	History   []string  `json:"history"`
}

func vfc12Report(env *vfEnv, part *vfPart, i int, mode string, cfg *vfc12Cfg, dir string, out *vfc12Outcome) {
	seen := map[string]bool{}
	for _, f := range out.Findings {
		if seen[f.Sig] {
			continue
		}
		seen[f.Sig] = true
		part.Add("finding_"+f.Sig, 1)
		// keep the expensive shrinking + replay files to the first occurrences per signature in this shard
		if part.Counters["finding_"+f.Sig] > 2 {
			part.Violate(vfViolation{Prop: "C12", Clause: f.Clause, Detail: f.Detail, Case: i, Sig: f.Sig})
			continue
		}
		min := vfc12Shrink(cfg, dir, out.Trace, f.Sig)
		mo := vfc12RunList(cfg, dir, min, true)
		detail := f.Detail
		for _, mf := range mo.Findings {
			if mf.Sig == f.Sig {
				detail = mf.Detail
			}
		}
		doc := &vfc12Replay{Case: i, Seed: env.Seed, Tier: env.Tier, Property: "C12", Mode: mode, Signature: f.Sig, Clause: f.Clause, Detail: detail, Cfg: cfg, Actions: mo.Given, Full: out.Trace, History: mo.History}
		rp := vfWriteReplay(env, fmt.Sprintf("case%d-%s.json", i, vfc12FileSig(f.Sig)), doc)
		part.Violate(vfViolation{Prop: "C12", Clause: f.Clause, Detail: fmt.Sprintf("%s | minimal schedule (%d steps): %s", detail, len(mo.Given), strings.Join(mo.Given, " ")), Case: i, Replay: rp, Sig: f.Sig})
	}
}

func vfc12FileSig(s string) string {
	return strings.Map(func(r rune) rune {
		if r == ':' || r == '+' || r == '/' {
			return '_'
		}
		return r
	}, s)
}

func vfc12Absorb(part *vfPart, prefix string, out *vfc12Outcome) {
	for k, v := range out.Stats {
		part.Add(prefix+k, v)
	}
	for h := range out.Vectors {
		part.Mark("state_vectors", h)
	}
	part.Mark("schedules", vfStrHash(strings.Join(out.Trace, " ")))
	part.Add(fmt.Sprintf("%sexecutions_with_%d_winners", prefix, out.Wins), 1)
}

func vfc12DFSCount(env *vfEnv) int {
	if env.Thorough() {
		return 32
	}
	return 4
}

func vfc12Case(env *vfEnv, part *vfPart, i int) {
	dir := filepath.Join(env.Scratch, fmt.Sprintf("c12-%d", os.Getpid()))
	defer os.RemoveAll(dir)
	if env.Replay != "" {
		b, err := os.ReadFile(env.Replay)
		var doc vfc12Replay
		var cdoc struct {
			Mode  string `json:"mode"`
			Trial struct {
				Trial int `json:"trial"`
			} `json:"trial"`
		}
		if err == nil && vfUnJSON(b, &cdoc) == nil && cdoc.Mode == "cluster" {
			// same seed-determined kill point; the real-time part of the history is of course not reproduced
			vfc12ClusterTrial(env, part, cdoc.Trial.Trial)
			part.Mark("nontrivial", 1)
			part.Mark("nontrivial", 2)
			return
		}
		if err != nil || vfUnJSON(b, &doc) != nil || doc.Cfg == nil {
			part.Harness = append(part.Harness, "replay file has no configuration")
			return
		}
		out := vfc12RunList(doc.Cfg, dir, doc.Actions, true)
		for _, l := range out.History {
			fmt.Println("REPLAY " + l)
		}
		if out.Fail != "" {
			part.Inconclusive = append(part.Inconclusive, out.Fail)
		}
		vfc12Absorb(part, "replay_", out)
		part.Mark("nontrivial", 1)
		part.Mark("nontrivial", 2)
		for _, f := range out.Findings {
			part.Violate(vfViolation{Prop: "C12", Clause: f.Clause, Detail: f.Detail, Case: i, Replay: env.Replay, Sig: f.Sig})
		}
		return
	}
	nd := vfc12DFSCount(env)
	if i < nd && os.Getenv("VERIF_C12_ONLY") == "prng" {
		return
	}
	if i >= nd && os.Getenv("VERIF_C12_ONLY") == "dfs" {
		return
	}
	if i < nd {
		cfg := vfc12DFSCfg(env.Seed, i)
		res := vfc12DFS(cfg, dir, 3000000)
		part.Add("dfs_configurations", 1)
		part.Add("dfs_executions", int64(res.Executions))
		part.Add("dfs_distinct_global_states", int64(res.States))
		part.Add("dfs_pruned_revisits", int64(res.Pruned))
		part.Add("dfs_terminal_executions", int64(res.Terminal))
		part.Max("max_dfs_depth", int64(res.MaxDepth))
		for k, v := range res.Stats {
			part.Add("dfs_"+k, v)
		}
		for h := range res.Vectors {
			part.Mark("state_vectors", h)
		}
		for h := range res.Schedules {
			part.Mark("schedules", h)
			part.Mark("nontrivial", h)
		}
		for w, n := range res.Wins {
			part.Add(fmt.Sprintf("dfs_executions_with_%d_winners", w), int64(n))
		}
		if res.Fail != "" {
			part.Add("inconclusive_cases", 1)
			part.Inconclusive = append(part.Inconclusive, fmt.Sprintf("dfs config %d: %s", i, res.Fail))
			return
		}
		if res.Complete {
			part.Add("dfs_configurations_exhausted", 1)
		} else {
			part.Inconclusive = append(part.Inconclusive, fmt.Sprintf("dfs config %d not exhausted within %d executions", i, res.Executions))
		}
		part.Sample(3, map[string]interface{}{"case": i, "mode": "dfs", "config": cfg, "executions": res.Executions, "states": res.States, "complete": res.Complete})
		for _, out := range res.Outcomes {
			vfc12Report(env, part, i, "dfs", cfg, dir, out)
		}
		return
	}
	if os.Getenv("VERIF_C12_DEBUG") != "" && i%500 == 4 {
		var ms runtime.MemStats
		runtime.GC()
		runtime.ReadMemStats(&ms)
		fmt.Printf("DEBUG case %d goroutines=%d heap=%dMB\n", i, runtime.NumGoroutine(), ms.HeapAlloc>>20)
		if os.Getenv("VERIF_C12_DEBUG") == "stacks" && i > 2000 {
			buf := make([]byte, 1<<20)
			fmt.Printf("%s\n", buf[:runtime.Stack(buf, true)])
		}
	}
	rng := vfCaseRand(env.Seed, "C12", i)
	nm := rng.PickInt([]int{3, 3, 4, 4, 5, 5, 5})
	nc := rng.PickInt([]int{2, 2, 3})
	cfg := vfc12GenCfg(rng, nm, nc, true)
	out := vfc12RunRandom(cfg, dir, rng)
	if out.Fail != "" {
		part.Add("inconclusive_cases", 1)
		if len(part.Inconclusive) < 3 {
			part.Inconclusive = append(part.Inconclusive, fmt.Sprintf("case %d: %s", i, out.Fail))
		}
		if part.Counters["inconclusive_cases"] > 10 {
			part.Harness = append(part.Harness, "too many inconclusive C12 schedules; last: "+out.Fail)
		}
		return
	}
	vfc12Absorb(part, "", out)
	part.Add("prng_schedules", 1)
	part.Add(fmt.Sprintf("prng_members_%d", nm), 1)
	part.Add(fmt.Sprintf("prng_candidates_%d", len(cfg.Cands)), 1)
	if out.Stats["requests_delivered"] > 0 {
		part.Mark("nontrivial", vfStrHash(strings.Join(out.Trace, " ")))
	}
	if i%997 == 0 {
		part.Sample(3, map[string]interface{}{"case": i, "mode": "prng", "config": cfg, "schedule": strings.Join(out.Trace, " ")})
	}
	vfc12Report(env, part, i, "prng", cfg, dir, out)
}

func TestVerif_C12(t *testing.T) {
	start := time.Now()
	env := vfGetEnv("C12")
	vfContinueAfterPanic = true
	if env.Shard >= 0 {
		// a schedule is one chain of goroutine hand-offs: more threads per shard only add scheduler and GC overhead on the shared machine
		runtime.GOMAXPROCS(1)
	}
	n := vfc12DFSCount(env) + env.N(12000, 400000)
	shards := vfNumCPU()
	if shards > 8 {
		shards = 8 // the wall time is set by the enumerations (one shard each); more shards only load the shared machine
	}
	// process-level stage: runs in the parent, next to the shards
	var cpart *vfPart
	var cwg sync.WaitGroup
	if trials := vfc12ClusterTrials(env); env.Shard < 0 && env.Replay == "" && trials > 0 {
		cpart = vfNewPart()
		cpart.known = vfLoadKnown(env)
		cwg.Add(1)
		go func() {
			defer cwg.Done()
			sem := make(chan struct{}, 2) // two clusters (six node processes) at a time
			var tw sync.WaitGroup
			for k := 0; k < trials; k++ {
				tw.Add(1)
				sem <- struct{}{}
				go func(k int) {
					defer tw.Done()
					vfc12ClusterTrial(env, cpart, k)
					<-sem
				}(k)
			}
			tw.Wait()
		}()
	}
	if os.Getenv("VERIF_C12_ONLY") == "cluster" {
		n = 1
	}
	part := vfRunSharded(t, env, "TestVerif_C12", n, shards, func(part *vfPart, i int) {
		if os.Getenv("VERIF_C12_ONLY") != "cluster" {
			vfc12Case(env, part, i)
		}
	})
	if part == nil {
		return
	}
	cwg.Wait()
	if cpart != nil {
		part.Merge(cpart)
	}
	spec := &vfSpec{Prop: "C12", Level: "exploration", NontrivSet: "nontrivial",
		Rule: "distinct schedules (sequence of scheduler actions: phase starts, request deliveries to the real acceptor handlers, reply deliveries, losses, restarts) in which at least one request reached an acceptor",
		Assumptions: []string{
			"in-process: N ArbiterManagers, real ArbiterVoter.DoVote/DoProposal/DoCommit -> ArbiterMember.Do* -> ArbiterClient.Request over net.Pipe; acceptor side = BinaryServerProtocol.FindCallMethod -> commandHandle{Vote,Proposal,Commit}Command with the registered server protocol of the sender; DoSelfProposal/DoSelfCommit run inside the candidate",
			"exhaustive sub-space: for each dfs configuration (3 members x 2 single-round candidates, no loss, no restart) every order of phase starts, request deliveries and reply deliveries is enumerated by re-execution; executions are cut where the complete global state (voter fields, member views, pending messages with their results, candidate progress) was already expanded",
			"a candidate's own (local) proposal/commit step runs at the moment its phase starts; phase starts are scheduled events, so it is ordered freely against deliveries from other candidates but always precedes the deliveries of the same phase",
			"a lost message is an error result handed to the proposer (lost request: acceptor code not run; lost reply: acceptor code run); no offline or announcement event is ever injected; voteSucced (announcement) is not run, so the election stays open",
			"restart = fresh SLock + ArbiterManager + Load() from the member's data directory (real meta.pb written by ArbiterStore.Save, real append.aof file for the log position); connections are re-established silently; messages in flight to the member are delivered to the new incarnation, replies to a restarted candidate are dropped",
			"candidacy = one vote/proposal/commit round; two rounds overlap if neither ended before the other started (scheduler steps); a member's rounds follow the precondition at the head of ArbiterVoter.StartVote (stands down when it holds a pending commit for another online host)",
			"newest log: file index (wrap-around 0xffffffff -> 1) before record offset, computed from the configuration, never from the code's comparison; configurations avoid index distances near 2^31 and the lone file 0xffffffff",
			"across a restart only the committed number must not decrease (the accepted proposal number is volatile by design: Load seeds it from the committed number); VERIF_C12_STRICT_RESTART_PROPOSAL=1 demands both",
			"waits are on events (CALL frame arrival, phase return, the proposer's per-reply log call); a 120 s watchdog makes the case inconclusive",
			"process-level stage: per trial a real 3-process replset (test binary re-executed in node mode, real TCP on 127.0.0.1, REPLSET CONFIG/ADD over the text protocol), require-ack locks over the binary protocol with 1..4 requests in flight, SIGKILL of the leader after a PRNG-chosen request; then polled: the two survivors agree on exactly one leader and every lock whose SUCCED reached the client is held there (in-package census in node mode); a 150 s watchdog, a node that cannot start or a port clash make the trial inconclusive; no log rotation happens in these short trials",
		},
		Floors: []string{"dfs_configurations_exhausted", "wins", "lost_requests", "lost_replies", "restarts", "restarts_with_pending_commit", "proposals_to_newer_member", "vote_ties_by_host", "commit_failures", "cluster_trials_completed"},
		ExtraCov: func(p *vfPart, cov map[string]interface{}) {
			cov["exhaustive"] = false // the PRNG schedules are a sample; only the sub-space below is enumerated completely
			cov["exhaustively_enumerated_subspace"] = map[string]interface{}{"subspace": "3 members x 2 single-round candidates, all delivery orders of requests and replies, no faults", "configurations": p.Counters["dfs_configurations"], "exhausted": p.Counters["dfs_configurations_exhausted"], "executions": p.Counters["dfs_executions"], "distinct_global_states": p.Counters["dfs_distinct_global_states"]}
			cov["distinct_schedules"] = len(p.Distinct["schedules"])
			cov["distinct_state_vectors"] = len(p.Distinct["state_vectors"])
		}}
	if env.Replay != "" {
		spec.Floors = nil
	}
	vfFinish(t, env, spec, part, start)
}
