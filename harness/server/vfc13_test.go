//go:build verif

package server

// C13: no client byte stream can crash the server or affect other connections.
// Child process per batch; every input is written to disk before it is sent;
// connections are in-memory net.Pipe ends handled by the real Server.handle
// (protocol sniffing, binary / text / admin-switch paths); a canary connection
// opened before the batch must keep answering a fixed script exactly.

import (
	"bytes"
	"encoding/hex"
	"fmt"
	"net"
	"os"
	"os/exec"
	"path/filepath"
	"strconv"
	"strings"
	"sync"
	"testing"
	"time"

	"github.com/snower/slock/protocol"
)

type vfC13Input struct {
	Kind   string   // generator class
	Chunks [][]byte // the byte stream, already split into writes
}

func (in *vfC13Input) total() int {
	n := 0
	for _, c := range in.Chunks {
		n += len(c)
	}
	return n
}

var vfC13TextCommands = []string{"SELECT", "TIMEOUT", "LOCK", "UNLOCK", "PUSH", "DEL", "SET", "APPEND", "GETSET", "SETEX", "PSETEX", "SETNX",
	"INCR", "INCRBY", "DECR", "DECRBY", "EXISTS", "EXPIRE", "PEXPIREAT", "PEXPIRE", "PERSIST", "GET", "STRLEN", "TYPE", "DUMP", "KEYS", "SCAN", "TTL", "PTTL",
	"BGREWRITEAOF", "REWRITEAOF", "ECHO", "PING", "QUIT", "INFO", "SHOW", "CONFIG", "CLIENT", "NOSUCHCOMMAND"}

// commands that stop or reconfigure the node, or kill other connections, by
// design: never sent (SHUTDOWN, FLUSHDB, FLUSHALL, SLAVEOF, REPLSET, CONFIG SET, CLIENT KILL)

var vfC13Words = []string{"EX", "PX", "NX", "XX", "KEEPTTL", "GET", "TIMEOUT", "EXPRIED", "LOCK_ID", "FLAG", "COUNT", "RCOUNT", "WILL", "MATCH", "TYPE",
	"0", "1", "-1", "2", "3", "10", "255", "256", "65535", "65536", "4294967296", "9223372036854775807", "-9223372036854775808", "99999999999999999999", "1.5", "abc", "", " ",
	"*", "k*", "[a", "?", "key", "k1", "k2", "0123456789abcdef", "0123456789abcdef0123456789abcdef", "zz23456789abcdef0123456789abcdeg", "LIST", "KEYS", "LOCKS", "WAITS", "DBS", "ALL", "STATE", "RESETSTAT",
	"LEADER", "HOST", "ID", "ADDR", "SECTION", "server", "clients", "stats", "replication", "keyspace", "db0", "db1", "memory", "LATEST"}

func vfC13Resp(args [][]byte) []byte {
	var b bytes.Buffer
	fmt.Fprintf(&b, "*%d\r\n", len(args))
	for _, a := range args {
		fmt.Fprintf(&b, "$%d\r\n", len(a))
		b.Write(a)
		b.WriteString("\r\n")
	}
	return b.Bytes()
}

func vfC13Word(r *vfRand) []byte {
	switch r.Intn(10) {
	case 0:
		return r.Bytes(r.Range(0, 20))
	case 1:
		return []byte(strconv.Itoa(r.Range(-3, 70000)))
	case 2:
		return bytes.Repeat([]byte{byte('a' + r.Intn(26))}, r.Range(1, 70))
	}
	return []byte(vfC13Words[r.Intn(len(vfC13Words))])
}

// vfC13TextLine: one registered text command with an arbitrary argument list.
func vfC13TextLine(r *vfRand) []byte {
	cmd := vfC13TextCommands[r.Intn(len(vfC13TextCommands))]
	nargs := r.Intn(9)
	args := [][]byte{[]byte(cmd)}
	if r.Chance(10) {
		args[0] = []byte(strings.ToLower(cmd))
	}
	for i := 0; i < nargs; i++ {
		args = append(args, vfC13Word(r))
	}
	if cmd == "CONFIG" && len(args) > 1 && strings.EqualFold(string(args[1]), "SET") {
		args[1] = []byte("GET")
	}
	if cmd == "CLIENT" && len(args) > 1 && strings.EqualFold(string(args[1]), "KILL") {
		args[1] = []byte("LIST")
	}
	// blocking text commands: keep the waits short so that connections end
	if cmd == "LOCK" || cmd == "TIMEOUT" {
		for i := 1; i+1 < len(args); i++ {
			if strings.EqualFold(string(args[i]), "TIMEOUT") {
				args[i+1] = []byte(strconv.Itoa(r.Intn(2)))
			}
		}
		if cmd == "TIMEOUT" && len(args) > 1 {
			args[1] = []byte(strconv.Itoa(r.Intn(2)))
		}
	}
	if r.Chance(8) {
		// inline (non-RESP) form
		parts := []string{}
		for _, a := range args {
			parts = append(parts, string(a))
		}
		return []byte(strings.Join(parts, " ") + "\r\n")
	}
	return vfC13Resp(args)
}

func vfC13ValueFrame(r *vfRand, depth int) []byte {
	// [len4][stage<<6|type][flag][props?][value]; sometimes inconsistent
	switch r.Intn(12) {
	case 0:
		n := r.Intn(65) // every length 0..64 incl. <2 bytes
		b := r.Bytes(n)
		return append([]byte{byte(n), 0, 0, 0}, b...)
	case 1:
		n := r.Range(65, 70000)
		if r.Chance(5) {
			n = r.Range(70000, 1<<20)
		}
		b := make([]byte, n+4)
		b[0], b[1], b[2], b[3] = byte(n), byte(n>>8), byte(n>>16), byte(n>>24)
		b[4] = byte(r.Intn(9))
		b[5] = byte(r.Intn(64))
		return b
	}
	typ := byte(r.Intn(10))
	stage := byte(r.Intn(4))
	flag := byte(0)
	if r.Chance(40) {
		flag = byte(r.U64()) & 0x37
	}
	var body []byte
	if flag&protocol.LOCK_DATA_FLAG_CONTAINS_PROPERTY != 0 {
		plen := r.Intn(12)
		if r.Chance(30) {
			plen = r.Intn(70000) // inconsistent
		}
		body = append(body, byte(plen), byte(plen>>8))
		body = append(body, r.Bytes(r.Intn(14))...)
	}
	switch typ {
	case protocol.LOCK_DATA_COMMAND_TYPE_EXECUTE:
		if depth < 2 {
			// the embedded command may carry a value frame of its own; its length
			// header is sometimes 1-6 bytes more than what is left of the outer frame
			emb := vfC13LockFrame(r, depth+1, true)
			if r.Chance(60) {
				emb[19] |= protocol.LOCK_FLAG_CONTAINS_DATA
			}
			body = append(body, emb...)
			if emb[19]&protocol.LOCK_FLAG_CONTAINS_DATA != 0 && r.Chance(85) {
				inner := vfC13ValueFrame(r, depth+1)
				if r.Chance(35) && len(inner) > 7 {
					inner = inner[:len(inner)-r.Range(1, 6)]
				}
				body = append(body, inner...)
			}
		} else {
			body = append(body, r.Bytes(r.Intn(80))...)
		}
	case protocol.LOCK_DATA_COMMAND_TYPE_PIPELINE:
		n := r.Intn(4)
		for i := 0; i < n && depth < 3; i++ {
			body = append(body, vfC13ValueFrame(r, depth+1)...)
		}
		if r.Chance(20) {
			body = append(body, r.Bytes(r.Intn(7))...)
		}
	case protocol.LOCK_DATA_COMMAND_TYPE_INCR, protocol.LOCK_DATA_COMMAND_TYPE_SHIFT, protocol.LOCK_DATA_COMMAND_TYPE_POP:
		body = append(body, r.Bytes(r.Intn(10))...)
	default:
		body = append(body, r.Bytes(r.Intn(40))...)
	}
	n := len(body) + 2
	if r.Chance(6) {
		n = r.Intn(n + 8) // length field inconsistent with the content that follows
	}
	out := []byte{byte(n), byte(n >> 8), byte(n >> 16), byte(n >> 24), stage<<6 | typ, flag}
	out = append(out, body...)
	return out
}

// vfC13LockFrame: a structurally valid 64-byte LOCK/UNLOCK/WILL frame with
// arbitrary field values, optionally followed by a value frame.
func vfC13LockFrame(r *vfRand, depth int, embedded bool) []byte {
	buf := r.Bytes(64)
	buf[0], buf[1] = protocol.MAGIC, protocol.VERSION
	types := []byte{protocol.COMMAND_LOCK, protocol.COMMAND_LOCK, protocol.COMMAND_UNLOCK, protocol.COMMAND_UNLOCK, protocol.COMMAND_WILL_LOCK, protocol.COMMAND_WILL_UNLOCK}
	buf[2] = types[r.Intn(len(types))]
	if r.Chance(70) {
		buf[20] = byte(r.Intn(3)) // few dbs
	}
	if r.Chance(70) {
		// few keys / lock ids so that requests interact
		for i := 21; i < 53; i++ {
			buf[i] = 0
		}
		buf[36] = byte(r.Intn(4))
		buf[52] = byte(r.Intn(3))
	}
	if r.Chance(60) {
		buf[19] &= 0x2b // common flags
	}
	if r.Chance(60) {
		// small timeouts / expiries
		buf[53], buf[54] = byte(r.Intn(3)), 0
		buf[57], buf[58] = byte(r.Intn(4)), 0
	}
	if r.Chance(50) {
		buf[55], buf[56] = buf[55]&0x50, buf[56]&0x16
		buf[59], buf[60] = buf[59]&0x40, buf[60]&0x57
	}
	if embedded {
		return buf
	}
	if buf[19]&protocol.LOCK_FLAG_CONTAINS_DATA != 0 {
		if r.Chance(92) {
			buf = append(buf, vfC13ValueFrame(r, depth)...)
		}
	}
	return buf
}

func vfC13OtherFrame(r *vfRand) []byte {
	buf := r.Bytes(64)
	buf[0], buf[1] = protocol.MAGIC, protocol.VERSION
	switch r.Intn(12) {
	case 0:
		buf[2] = protocol.COMMAND_INIT
	case 1:
		buf[2] = protocol.COMMAND_STATE
		buf[20] = byte(r.Intn(4))
	case 2:
		buf[2] = protocol.COMMAND_PING
	case 3:
		buf[2] = protocol.COMMAND_LEADER
	case 4:
		buf[2] = protocol.COMMAND_SUBSCRIBE
	case 5:
		buf[2] = byte(r.Intn(256))
	case 6:
		buf[2] = protocol.COMMAND_ADMIN
		// the stream switches to the text protocol
		n := r.Range(0, 3)
		for i := 0; i < n; i++ {
			buf = append(buf, vfC13TextLine(r)...)
		}
		return buf
	case 7:
		buf[r.Intn(2)] = byte(r.U64()) // bad magic / version
	default:
		methods := []string{"LIST_LOCK", "LIST_LOCKED", "LIST_WAIT", "SYNC", "REPL_CONNECT", "REPL_VOTE", "REPL_PROPOSAL", "REPL_COMMIT", "REPL_STATUS", "NOPE", ""}
		name := methods[r.Intn(len(methods))]
		if r.Chance(15) {
			name = string(r.Bytes(r.Range(0, 38)))
		}
		body := r.Bytes(r.Intn(40))
		if r.Chance(40) {
			// protobuf-ish: field 1 varint db id, field 2 bytes key
			body = append([]byte{0x08, byte(r.Intn(3)), 0x12, 0x10}, make([]byte, 16)...)
			body[19] = byte(r.Intn(3))
		}
		c := protocol.NewCallCommand(name, body)
		out := make([]byte, 64)
		_ = c.Encode(out)
		if r.Chance(10) {
			// inconsistent ContentLen
			out = append(out, r.Bytes(r.Intn(10))...)
			return out
		}
		return append(out, body...)
	}
	return buf
}

func vfC13Split(r *vfRand, stream []byte, mode int) [][]byte {
	if len(stream) == 0 {
		return [][]byte{{}}
	}
	switch mode {
	case 0:
		return [][]byte{stream}
	case 1: // 2-way split at a PRNG (or enumerated) point
		k := r.Intn(len(stream)) + 1
		if k >= len(stream) {
			return [][]byte{stream}
		}
		return [][]byte{stream[:k], stream[k:]}
	default:
		var out [][]byte
		for i := 0; i < len(stream); {
			n := r.Range(1, 1+len(stream)/r.Range(1, 6))
			if n > 1024 {
				n = r.Range(1, 1024)
			}
			if i+n > len(stream) {
				n = len(stream) - i
			}
			out = append(out, stream[i:i+n])
			i += n
		}
		return out
	}
}

// vfC13Gen builds input i of the case list.
func vfC13Gen(seed int64, i int) *vfC13Input {
	r := vfCaseRand(seed, "C13", i)
	var stream []byte
	kind := ""
	switch x := r.Intn(100); {
	case x < 35:
		kind = "binary-frames"
		n := r.Range(1, 5)
		for j := 0; j < n; j++ {
			if r.Chance(75) {
				stream = append(stream, vfC13LockFrame(r, 0, false)...)
			} else {
				stream = append(stream, vfC13OtherFrame(r)...)
			}
		}
	case x < 70:
		kind = "text-commands"
		n := r.Range(1, 4)
		for j := 0; j < n; j++ {
			stream = append(stream, vfC13TextLine(r)...)
		}
	case x < 85:
		kind = "mutated"
		if r.Chance(50) {
			stream = vfC13LockFrame(r, 0, false)
			stream = append(stream, vfC13LockFrame(r, 0, false)...)
		} else {
			stream = vfC13TextLine(r)
			stream = append(stream, vfC13TextLine(r)...)
		}
		for m := r.Range(1, 4); m > 0 && len(stream) > 0; m-- {
			switch r.Intn(4) {
			case 0:
				stream[r.Intn(len(stream))] = byte(r.U64())
			case 1:
				k := r.Intn(len(stream))
				stream = append(stream[:k:k], stream[k+1:]...)
			case 2:
				k := r.Intn(len(stream))
				stream = append(stream[:k:k], append([]byte{byte(r.U64())}, stream[k:]...)...)
			default:
				stream = stream[:r.Intn(len(stream)+1)]
			}
		}
	default:
		kind = "random"
		stream = r.Bytes(r.Range(0, 200))
		if r.Chance(30) && len(stream) >= 2 {
			stream[0], stream[1] = protocol.MAGIC, protocol.VERSION
		}
		if r.Chance(20) {
			stream = append([]byte("*"), stream...)
		}
	}
	mode := r.Intn(3)
	return &vfC13Input{Kind: kind, Chunks: vfC13Split(r, stream, mode)}
}

// ------------------------------------------------------------------ child

type vfC13Server struct {
	in     *vfInstance
	server *Server
}

func vfC13StartServer(dir string) *vfC13Server {
	// VERIF_C13_REALCLOCK=1 (debugging aid): real sweepers on the wall clock instead of the
	// virtual second clock, to tell whether a crash needs the hybrid of virtual seconds and
	// real millisecond timers
	in, err := vfNewLeader(vfInstCfg{Dir: dir, Manual: os.Getenv("VERIF_C13_REALCLOCK") == "", NDb: 1, DBConcurrent: 2, FastKeys: 64})
	if err != nil {
		panic("vf: cannot start leader: " + err.Error())
	}
	srv := NewServer(in.slock)
	in.slock.server = srv
	return &vfC13Server{in: in, server: srv}
}

// connect returns the client end of an in-memory connection handled by the
// real Server.handle.
func (s *vfC13Server) connect() net.Conn {
	c, sv := net.Pipe()
	stream := NewStream(sv)
	_ = s.server.addStream(stream)
	go s.server.handle(stream)
	return c
}

// vfC13Send writes the chunks and drains replies until the connection has been
// quiet for a short while, then closes it.
func vfC13Send(conn net.Conn, in *vfC13Input) (replyBytes int) {
	done := make(chan int, 1)
	go func() {
		buf := make([]byte, 8192)
		total := 0
		for {
			_ = conn.SetReadDeadline(time.Now().Add(3 * time.Millisecond))
			n, err := conn.Read(buf)
			total += n
			if err != nil {
				if ne, ok := err.(net.Error); ok && ne.Timeout() {
					select {
					case <-done:
						done <- total
						return
					default:
						continue
					}
				}
				done <- total
				return
			}
		}
	}()
	for _, c := range in.Chunks {
		_ = conn.SetWriteDeadline(time.Now().Add(200 * time.Millisecond))
		if _, err := conn.Write(c); err != nil {
			break
		}
	}
	time.Sleep(2 * time.Millisecond)
	select {
	case done <- 0:
		// reader will pick it up at its next timeout
		replyBytes = <-done
	case replyBytes = <-done:
	}
	_ = conn.Close()
	return
}

type vfC13Canary struct {
	bin  net.Conn
	text net.Conn
	n    uint64
}

func vfC13ReadFull(c net.Conn, n int, d time.Duration) ([]byte, error) {
	buf := make([]byte, n)
	_ = c.SetReadDeadline(time.Now().Add(d))
	got := 0
	for got < n {
		k, err := c.Read(buf[got:])
		got += k
		if err != nil {
			return buf[:got], err
		}
	}
	return buf, nil
}

func (cn *vfC13Canary) binRound() error {
	cn.n++
	var key, lid [16]byte
	copy(key[:], "verif-canary-key")
	copy(lid[:], "verif-canary-lid")
	lc := protocol.NewLockCommand(250, key, lid, 0, 30, 0)
	lc.RequestId = vfReqIdBytes(cn.n, 200)
	buf := make([]byte, 64)
	_ = lc.Encode(buf)
	_ = cn.bin.SetWriteDeadline(time.Now().Add(20 * time.Second))
	if _, err := cn.bin.Write(buf); err != nil {
		return fmt.Errorf("canary write: %v", err)
	}
	rb, err := vfC13ReadFull(cn.bin, 64, 20*time.Second)
	if err != nil {
		return fmt.Errorf("canary lock reply: %v (got %d bytes)", err, len(rb))
	}
	res := protocol.LockResultCommand{}
	_ = res.Decode(rb)
	if res.Result != protocol.RESULT_SUCCED || res.RequestId != lc.RequestId || res.LockKey != key || res.Lcount != 1 {
		return fmt.Errorf("canary lock reply unexpected: result=%d lcount=%d reqid-match=%v", res.Result, res.Lcount, res.RequestId == lc.RequestId)
	}
	cn.n++
	uc := protocol.NewLockCommand(250, key, lid, 0, 0, 0)
	uc.CommandType = protocol.COMMAND_UNLOCK
	uc.RequestId = vfReqIdBytes(cn.n, 200)
	_ = uc.Encode(buf)
	if _, err := cn.bin.Write(buf); err != nil {
		return fmt.Errorf("canary write: %v", err)
	}
	rb, err = vfC13ReadFull(cn.bin, 64, 20*time.Second)
	if err != nil {
		return fmt.Errorf("canary unlock reply: %v", err)
	}
	_ = res.Decode(rb)
	if res.Result != protocol.RESULT_SUCCED || res.RequestId != uc.RequestId || res.Lcount != 0 {
		return fmt.Errorf("canary unlock reply unexpected: result=%d lcount=%d", res.Result, res.Lcount)
	}
	return nil
}

func (cn *vfC13Canary) textRound() error {
	cn.n++
	val := fmt.Sprintf("v%d", cn.n)
	_ = cn.text.SetWriteDeadline(time.Now().Add(20 * time.Second))
	if _, err := cn.text.Write(vfC13Resp([][]byte{[]byte("SET"), []byte("verif-canary-text"), []byte(val)})); err != nil {
		return fmt.Errorf("canary text write: %v", err)
	}
	rb, err := vfC13ReadFull(cn.text, 5, 20*time.Second)
	if err != nil || string(rb) != "+OK\r\n" {
		return fmt.Errorf("canary SET reply %q err=%v", rb, err)
	}
	if _, err := cn.text.Write(vfC13Resp([][]byte{[]byte("GET"), []byte("verif-canary-text")})); err != nil {
		return fmt.Errorf("canary text write: %v", err)
	}
	want := fmt.Sprintf("$%d\r\n%s\r\n", len(val), val)
	rb, err = vfC13ReadFull(cn.text, len(want), 20*time.Second)
	if err != nil || string(rb) != want {
		return fmt.Errorf("canary GET reply %q want %q err=%v", rb, want, err)
	}
	return nil
}

func vfC13Child(env *vfEnv) {
	spec := os.Getenv("VERIF_C13_BATCH")
	var list []int
	if strings.HasPrefix(spec, "list:") {
		for _, x := range strings.Split(spec[5:], ",") {
			if v, err := strconv.Atoi(x); err == nil {
				list = append(list, v)
			}
		}
	} else {
		parts := strings.Split(spec, ":")
		from, _ := strconv.Atoi(parts[0])
		to, _ := strconv.Atoi(parts[1])
		for i := from; i < to; i++ {
			list = append(list, i)
		}
	}
	from := 0
	if len(list) > 0 {
		from = list[0]
	}
	part := vfNewPart()
	part.known = vfLoadKnown(env)
	s := vfC13StartServer(vfScratchDir(env, "c13"))
	cn := &vfC13Canary{bin: s.connect(), text: s.connect()}
	if err := cn.binRound(); err != nil {
		part.Harness = append(part.Harness, "canary failed before any input: "+err.Error())
	}
	if err := cn.textRound(); err != nil {
		part.Harness = append(part.Harness, "text canary failed before any input: "+err.Error())
	}
	prog := env.PartFile + ".progress"
	inputLog := env.PartFile + ".input"
	// databases created by the inputs get the virtual clock too
	syncClock := func() {
		for d, db := range s.in.slock.dbs {
			if db == nil {
				continue
			}
			known := false
			for _, k := range s.in.dbs {
				if k == db {
					known = true
				}
			}
			if !known {
				_ = d
				s.in.adoptDB(db)
			}
		}
	}
	for li, i := range list {
		if len(part.Harness) != 0 {
			break
		}
		last := li == len(list)-1
		in := vfC13Gen(env.Seed, i)
		// log before sending
		var hb strings.Builder
		fmt.Fprintf(&hb, "%d %s", i, in.Kind)
		for _, c := range in.Chunks {
			hb.WriteString(" ")
			if len(c) > 4096 {
				hb.WriteString(hex.EncodeToString(c[:4096]) + fmt.Sprintf("...(%d bytes)", len(c)))
			} else {
				hb.WriteString(hex.EncodeToString(c))
			}
		}
		_ = os.WriteFile(inputLog, []byte(hb.String()), 0644)
		_ = os.WriteFile(prog, []byte(strconv.Itoa(i)), 0644)
		conn := s.connect()
		rb := vfC13Send(conn, in)
		part.Cases++
		part.Add("inputs_"+in.Kind, 1)
		part.Add("bytes_sent", int64(in.total()))
		part.Add("reply_bytes", int64(rb))
		part.Add("chunks", int64(len(in.Chunks)))
		if rb > 0 {
			part.Add("inputs_answered", 1)
		}
		h := uint64(i)
		for _, c := range in.Chunks {
			h = vfMix(h ^ vfStrHash(string(c)))
		}
		part.Mark("inputs", h)
		if in.total() >= 64 || len(in.Chunks) > 1 {
			part.Mark("nontrivial", h)
		}
		if li < 2 {
			part.Sample(4, map[string]interface{}{"input": i, "kind": in.Kind, "chunks": len(in.Chunks), "hex": vfTrunc(hb.String(), 300)})
		}
		if os.Getenv("VERIF_C13_CENSUS") != "" {
			vfCensusVerbose = os.Getenv("VERIF_C13_CENSUS") == "2"
			time.Sleep(5 * time.Millisecond)
			for _, db := range s.in.slock.dbs {
				if db == nil {
					continue
				}
				cs := vfTakeCensus(db)
				for _, e := range cs.Errors {
					fmt.Printf("CENSUS after input %d db%d: %s\n", i, db.dbId, e)
				}
				for _, k := range cs.Keys {
					fmt.Printf("  state after input %d: db%d key=..%x locked=%d holds=%d waiters=%d ref=%d\n", i, k.Db, k.Key[13:], k.Locked, len(k.Holds), len(k.Waiters), k.RefCount)
				}
			}
		}
		// the virtual clock advances at input-determined points (so a subset of
		// the inputs replays with the same clock behaviour per input)
		if os.Getenv("VERIF_C13_REALCLOCK") != "" {
			if last {
				if w, _ := strconv.Atoi(os.Getenv("VERIF_C13_WAIT")); w > 0 {
					time.Sleep(time.Duration(w) * time.Second)
				}
			}
		} else {
			syncClock()
			if tr := vfCaseRand(env.Seed, "C13tick", i); tr.Chance(30) {
				s.in.tick(1, tr)
			}
		}
		if li%20 == 19 || last {
			if err := cn.binRound(); err != nil {
				rp := vfWriteReplay(env, fmt.Sprintf("canary-input%d.json", i), map[string]interface{}{"input": i, "batch_from": from, "seed": env.Seed, "error": err.Error()})
				part.Violate(vfViolation{Prop: "C13", Clause: "canary", Detail: fmt.Sprintf("after inputs up to %d another (canary) connection no longer gets correct replies: %v", i, err), Case: i, Replay: rp})
				break
			}
			if err := cn.textRound(); err != nil {
				rp := vfWriteReplay(env, fmt.Sprintf("canary-input%d.json", i), map[string]interface{}{"input": i, "batch_from": from, "seed": env.Seed, "error": err.Error()})
				part.Violate(vfViolation{Prop: "C13", Clause: "canary-text", Detail: fmt.Sprintf("after inputs up to %d the text canary connection no longer gets correct replies: %v", i, err), Case: i, Replay: rp})
				break
			}
			part.Add("canary_rounds", 1)
		}
	}
	for _, l := range vfLogCapture.Take() {
		_ = l
		part.Add("server_error_log_lines", 1)
	}
	b := []byte(vfJSON(part))
	_ = os.WriteFile(env.PartFile, b, 0644)
}

func TestVerif_C13(t *testing.T) {
	env := vfGetEnv("C13")
	if os.Getenv("VERIF_C13_BATCH") != "" {
		vfC13Child(env)
		return
	}
	start := time.Now()
	if env.Replay != "" {
		vfC13Reduce(env)
		return
	}
	n := env.N(20000, 2000000)
	batch := 400
	type job struct{ from, to int }
	jobs := make(chan job, 1024)
	merged := vfNewPart()
	merged.known = vfLoadKnown(env)
	var mu sync.Mutex
	var wg sync.WaitGroup
	crashSigs := map[string]int{}
	runBatch := func(w int, j job) {
		from := j.from
		for from < j.to {
			partFile := filepath.Join(env.Scratch, fmt.Sprintf("c13-%d-%d.json", w, from))
			outFile := partFile + ".out"
			out, _ := os.Create(outFile)
			cmd := exec.Command(os.Args[0], "-test.run", "^TestVerif_C13$", "-test.timeout", "0")
			sc := filepath.Join(env.Scratch, fmt.Sprintf("c13w%d", w))
			_ = os.MkdirAll(sc, 0755)
			cmd.Env = append(os.Environ(), fmt.Sprintf("VERIF_C13_BATCH=%d:%d", from, j.to), "VERIF_PART="+partFile, "VERIF_SCRATCH="+sc, "GOTRACEBACK=all")
			cmd.Stdout, cmd.Stderr = out, out
			_ = cmd.Run()
			_ = out.Close()
			b, rerr := os.ReadFile(partFile)
			if rerr == nil {
				p := vfNewPart()
				if vfUnJSON(b, p) == nil {
					mu.Lock()
					merged.Merge(p)
					mu.Unlock()
				}
				_ = os.Remove(partFile)
				_ = os.Remove(outFile)
				return
			}
			// the child died: which input?
			caseNo := from
			if pb, perr := os.ReadFile(partFile + ".progress"); perr == nil {
				caseNo, _ = strconv.Atoi(strings.TrimSpace(string(pb)))
			}
			ob, _ := os.ReadFile(outFile)
			full := string(ob)
			inputHex, _ := os.ReadFile(partFile + ".input")
			mu.Lock()
			merged.Cases += caseNo - from + 1
			if vfCrashInRepoAny(full) {
				sig := vfCrashSigAny(full)
				crashSigs[sig]++
				var rp string
				if crashSigs[sig] <= 3 {
					rp = vfWriteReplay(env, fmt.Sprintf("crash-input%d.json", caseNo), map[string]interface{}{"input": caseNo, "batch_from": j.from, "seed": env.Seed, "tier": env.Tier, "sent": vfTrunc(string(inputHex), 20000), "crash": vfTrunc(vfPanicHead(full), 5000)})
				}
				merged.Violate(vfViolation{Prop: "C13", Clause: "crash", Detail: fmt.Sprintf("input %d crashed the server process: %s", caseNo, sig), Case: caseNo, Replay: rp, Sig: "crash:" + sig})
				merged.Add("crashes", 1)
			} else {
				tail := full
				if len(tail) > 3000 {
					tail = tail[len(tail)-3000:]
				}
				merged.Harness = append(merged.Harness, fmt.Sprintf("C13 child died at input %d without a repository frame on top:\n%s", caseNo, tail))
			}
			mu.Unlock()
			_ = os.Remove(outFile)
			from = caseNo + 1
		}
	}
	workers := vfNumCPU()
	for w := 0; w < workers; w++ {
		wg.Add(1)
		go func(w int) {
			defer wg.Done()
			for j := range jobs {
				runBatch(w, j)
			}
		}(w)
	}
	for f := 0; f < n; f += batch {
		to := f + batch
		if to > n {
			to = n
		}
		jobs <- job{f, to}
	}
	close(jobs)
	wg.Wait()
	spec := &vfSpec{Prop: "C13", Level: "exploration", NontrivSet: "nontrivial",
		Rule: "input i = PRNG byte stream splitmix(seed,'C13',i) from one of four generators (structurally valid 64-byte frames of all command types with arbitrary fields and arbitrary / inconsistent trailing value frames incl. every length 0..64 and nested pipelines / executes; every registered text command with argument lists of 0..8 dictionary / numeric / binary items; mutated valid streams; random streams), delivered whole, 2-way split or k-way split over an in-memory connection handled by the real Server.handle; non-trivial = at least 64 bytes or more than one write; distinct = hash of the chunks",
		Assumptions: []string{"commands that stop or reconfigure the node or kill other connections by design are never sent: SHUTDOWN, FLUSHDB, FLUSHALL, SLAVEOF, REPLSET, CONFIG SET, CLIENT KILL", "connections are net.Pipe ends (no TCP segmentation effects beyond the write boundaries chosen by the generator)", "a canary timeout of 20 s of wall time counts as unresponsive"},
		Floors:      []string{"inputs_binary-frames", "inputs_text-commands", "inputs_mutated", "inputs_random", "canary_rounds", "inputs_answered"}}
	vfFinish(t, env, spec, merged, start)
}

// vfCrashInRepoAny: for a process that died, any goroutine may be the culprit;
// the first goroutine printed after the panic line is the panicking one.
func vfCrashInRepoAny(out string) bool { return vfCrashInRepo(out) }
func vfCrashSigAny(out string) string  { return vfCrashSig(out) }


// vfC13RunList runs the listed inputs in a child; returns the crash signature
// ("" when the child survived) and the output.
func vfC13RunList(env *vfEnv, list []int, tag string) (string, string) {
	partFile := filepath.Join(env.Scratch, "c13-reduce-"+tag+".json")
	_ = os.Remove(partFile)
	outFile := partFile + ".out"
	out, _ := os.Create(outFile)
	strs := make([]string, len(list))
	for i, v := range list {
		strs[i] = strconv.Itoa(v)
	}
	cmd := exec.Command(os.Args[0], "-test.run", "^TestVerif_C13$", "-test.timeout", "0")
	sc := filepath.Join(env.Scratch, "c13reduce"+tag)
	_ = os.MkdirAll(sc, 0755)
	cmd.Env = append(os.Environ(), "VERIF_C13_BATCH=list:"+strings.Join(strs, ","), "VERIF_PART="+partFile, "VERIF_SCRATCH="+sc, "GOTRACEBACK=all", "VERIF_REPLAY=", fmt.Sprintf("VERIF_SEED=%d", env.Seed))
	cmd.Stdout, cmd.Stderr = out, out
	_ = cmd.Run()
	_ = out.Close()
	ob, _ := os.ReadFile(outFile)
	if _, err := os.Stat(partFile); err == nil {
		return "", string(ob)
	}
	return vfCrashSig(string(ob)), string(ob)
}

// vfC13Reduce: delta-debugging of a crashing batch down to a minimal list of
// inputs (replay mode).
func vfC13Reduce(env *vfEnv) {
	var doc struct {
		Input     int   `json:"input"`
		BatchFrom int   `json:"batch_from"`
		Seed      int64 `json:"seed"`
	}
	b, err := os.ReadFile(env.Replay)
	if err != nil || vfUnJSON(b, &doc) != nil {
		fmt.Println("HARNESS-ERROR: cannot read replay")
		fmt.Println("VERDICT-EXIT 2")
		return
	}
	env.Seed = doc.Seed
	list := []int{}
	for i := doc.BatchFrom; i <= doc.Input; i++ {
		list = append(list, i)
	}
	want, _ := vfC13RunList(env, list, "full")
	if want == "" {
		fmt.Printf("NOTE: the batch %d..%d does not crash on this tree\n", doc.BatchFrom, doc.Input)
		fmt.Println("VERDICT-EXIT 0")
		return
	}
	fmt.Printf("NOTE: reproducing crash %s with %d inputs; reducing\n", want, len(list))
	crashes := func(l []int, tag string) bool {
		sig, _ := vfC13RunList(env, l, tag)
		return sig == want
	}
	n := 2
	for len(list) >= 2 {
		chunk := (len(list) + n - 1) / n
		reduced := false
		for i := 0; i < len(list); i += chunk {
			// try removing list[i:i+chunk]
			cand := append(append([]int{}, list[:i]...), list[minInt(i+chunk, len(list)):]...)
			if len(cand) > 0 && crashes(cand, "r") {
				list = cand
				if n > 2 {
					n--
				}
				reduced = true
				break
			}
		}
		if !reduced {
			if chunk == 1 {
				break
			}
			n *= 2
			if n > len(list) {
				n = len(list)
			}
		}
	}
	_, outp := vfC13RunList(env, list, "final")
	fmt.Printf("NOTE: minimal crashing input list (%d): %v\n", len(list), list)
	for _, i := range list {
		in := vfC13Gen(env.Seed, i)
		for ci, c := range in.Chunks {
			fmt.Printf("NOTE: input %d (%s) chunk %d: %s\n", i, in.Kind, ci, vfTrunc(hex.EncodeToString(c), 600))
		}
	}
	fmt.Printf("NOTE: crash: %s\n", vfTrunc(strings.ReplaceAll(vfPanicHead(outp), "\n", " | "), 1500))
	fmt.Printf("VIOLATION property=C13 replay=%s clause=crash detail=%q\n", env.Replay, want)
	fmt.Println("VERDICT-EXIT 1")
}

func minInt(a, b int) int {
	if a < b {
		return a
	}
	return b
}
