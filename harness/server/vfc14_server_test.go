//go:build verif

package server

// C14 sub-checks that need a running leader: the hand-inlined binary codec of
// BinaryServerProtocol, text vs binary LOCK/UNLOCK equivalence, key / id
// normalisation, result-code rendering, the frame + body stream codec and the
// first-frame protocol detection.

import (
	"bytes"
	"fmt"
	"io"
	"net"
	"reflect"
	"strconv"
	"strings"
	"time"

	"github.com/snower/slock/client"
	"github.com/snower/slock/protocol"
)

// ---------------------------------------------------------------- in-memory connection

// vfC14Conn is a net.Conn whose Read hands out the queued chunks one per call
// (a chunk larger than the caller's buffer is continued by the next call) and
// reports io.EOF when the queue is empty; Write records.
type vfC14Conn struct {
	in     [][]byte
	out    []byte
	closed bool
}

func (c *vfC14Conn) Read(b []byte) (int, error) {
	for len(c.in) > 0 && len(c.in[0]) == 0 {
		c.in = c.in[1:]
	}
	if len(c.in) == 0 {
		return 0, io.EOF
	}
	n := copy(b, c.in[0])
	if n < len(c.in[0]) {
		c.in[0] = c.in[0][n:]
	} else {
		c.in = c.in[1:]
	}
	return n, nil
}
func (c *vfC14Conn) Write(b []byte) (int, error) {
	c.out = append(c.out, b...)
	return len(b), nil
}
func (c *vfC14Conn) Close() error                     { c.closed = true; return nil }
func (c *vfC14Conn) LocalAddr() net.Addr              { return &net.TCPAddr{IP: net.IPv4(127, 0, 0, 1), Port: 1} }
func (c *vfC14Conn) RemoteAddr() net.Addr             { return &net.TCPAddr{IP: net.IPv4(127, 0, 0, 1), Port: 2} }
func (c *vfC14Conn) SetDeadline(time.Time) error      { return nil }
func (c *vfC14Conn) SetReadDeadline(time.Time) error  { return nil }
func (c *vfC14Conn) SetWriteDeadline(time.Time) error { return nil }
func (c *vfC14Conn) take() []byte {
	o := c.out
	c.out = nil
	return o
}

// ---------------------------------------------------------------- leader (one per process)

var vfC14Leader *vfInstance
var vfC14LeaderUses int

// vfC14GetLeader returns the shared leader; it is replaced by a new one every
// 400 uses because lock managers and pooled records of released keys stay
// reachable for a while and make the census walk slower and slower.
func vfC14GetLeader(env *vfEnv) *vfInstance {
	vfC14LeaderUses++
	if vfC14Leader != nil && vfC14LeaderUses > 400 {
		vfC14Leader.Close()
		vfC14Leader = nil
		vfC14LeaderUses = 1
	}
	if vfC14Leader == nil {
		in, err := vfNewLeader(vfInstCfg{Dir: vfScratchDir(env, "c14"), Manual: true, AofTime: 100, NDb: 3, FastKeys: 64})
		if err != nil {
			panic("vf: C14 cannot start leader: " + err.Error())
		}
		vfC14Leader = in
	}
	return vfC14Leader
}

// vfC14RandChunks cuts the stream into chunks of 1..max bytes.
func vfC14RandChunks(r *vfRand, stream []byte, max int) [][]byte {
	var out [][]byte
	for len(stream) > 0 {
		n := r.Range(1, max)
		if n > len(stream) {
			n = len(stream)
		}
		out = append(out, stream[:n])
		stream = stream[n:]
	}
	return out
}

func vfC14CopyChunks(chunks [][]byte) [][]byte {
	out := make([][]byte, len(chunks))
	for i, ch := range chunks {
		out[i] = append([]byte(nil), ch...)
	}
	return out
}

func vfC14ChunkSizes(chunks [][]byte) []int {
	out := []int{}
	for _, ch := range chunks {
		out = append(out, len(ch))
	}
	return out
}

// ---------------------------------------------------------------- (4) binary LOCK through the inlined codec

func vfC14GenLock(r *vfRand) protocol.LockCommand {
	var cmd protocol.LockCommand
	cmd.Magic, cmd.Version, cmd.CommandType = protocol.MAGIC, protocol.VERSION, protocol.COMMAND_LOCK
	copy(cmd.RequestId[:], r.Bytes(16))
	cmd.Flag = 0
	cmd.DbId = uint8([]int{0, 1, 1, 2, 2}[r.Intn(5)])
	copy(cmd.LockId[:], r.Bytes(16))
	copy(cmd.LockKey[:], r.Bytes(16))
	cmd.Timeout = uint16(r.U64())
	cmd.TimeoutFlag = r.PickU16([]uint16{0, protocol.TIMEOUT_FLAG_RCOUNT_IS_PRIORITY})
	cmd.Expried = uint16(r.Range(60, 65535))
	cmd.ExpriedFlag = r.PickU16([]uint16{0, protocol.EXPRIED_FLAG_MINUTE_TIME, protocol.EXPRIED_FLAG_UNLIMITED_AOF_TIME, protocol.EXPRIED_FLAG_MINUTE_TIME | protocol.EXPRIED_FLAG_UNLIMITED_AOF_TIME})
	cmd.Count = uint16(r.U64())
	cmd.Rcount = uint8(r.U64())
	if r.Chance(10) {
		cmd.Count = 0xffff
	}
	if r.Chance(10) {
		cmd.Rcount = 0xff
	}
	return cmd
}

func vfC14UnlockFor(r *vfRand, lock *protocol.LockCommand) protocol.LockCommand {
	var cmd protocol.LockCommand
	cmd.Magic, cmd.Version, cmd.CommandType = protocol.MAGIC, protocol.VERSION, protocol.COMMAND_UNLOCK
	copy(cmd.RequestId[:], r.Bytes(16))
	cmd.DbId, cmd.LockId, cmd.LockKey = lock.DbId, lock.LockId, lock.LockKey
	return cmd
}

func vfC14EncodeFrame(r *vfRand, cmd *protocol.LockCommand) []byte {
	f := vfC14Garbage(r)
	if err := cmd.Encode(f); err != nil {
		panic("vf: LockCommand.Encode failed: " + err.Error())
	}
	return f
}

// vfC14BinExchange opens a BinaryServerProtocol on an in-memory stream, feeds
// the chunks through Process() (the loop Server.handle runs) and returns what
// the server wrote.
type vfC14BinSession struct {
	conn *vfC14Conn
	bsp  *BinaryServerProtocol
}

func vfC14NewBinSession(in *vfInstance) *vfC14BinSession {
	conn := &vfC14Conn{}
	return &vfC14BinSession{conn: conn, bsp: NewBinaryServerProtocol(in.slock, NewStream(conn))}
}

func (s *vfC14BinSession) run(chunks [][]byte) ([]byte, error) {
	s.conn.in = vfC14CopyChunks(chunks)
	err := s.bsp.Process()
	_ = s.bsp.ProcessFlush()
	return s.conn.take(), err
}

func (s *vfC14BinSession) close() { _ = s.bsp.Close() }

// vfC14HeldCommand returns a copy of the command stored in the key's current
// holder record (what the server decoded and keeps), or nil.
func vfC14HeldCommand(db *LockDB, key [16]byte) *protocol.LockCommand {
	lm := db.GetLockManager(&protocol.LockCommand{LockKey: key})
	if lm == nil {
		return nil
	}
	lm.glock.LowPriorityLock()
	defer lm.glock.LowPriorityUnlock()
	if lm.lockKey != key || lm.currentLock == nil || lm.currentLock.command == nil || lm.currentLock.locked == 0 {
		return nil
	}
	cp := *lm.currentLock.command
	return &cp
}

type vfC14Diff struct {
	Where, Field, Want, Got string
}

func (d vfC14Diff) String() string {
	return fmt.Sprintf("%s.%s expected %s got %s", d.Where, d.Field, d.Want, d.Got)
}

type vfC14Differ struct {
	diffs    []vfC14Diff
	compared int64
}

func vfC14Same(want, got interface{}) bool {
	wb, wok := want.([]byte)
	gb, gok := got.([]byte)
	if wok && gok {
		return bytes.Equal(wb, gb)
	}
	if !wok && !gok && reflect.TypeOf(want) == reflect.TypeOf(got) {
		return want == got // arrays, integers, strings
	}
	return fmt.Sprintf("%x", want) == fmt.Sprintf("%x", got)
}

func (d *vfC14Differ) eq(where, field string, want, got interface{}) {
	d.compared++
	if !vfC14Same(want, got) {
		d.diffs = append(d.diffs, vfC14Diff{where, field, fmt.Sprintf("%x", want), fmt.Sprintf("%x", got)})
	}
}

// vfC14LockResultVals: the values a LOCK/UNLOCK result frame must carry (README
// response layout) for the request cmd.
func vfC14LockResultVals(cmd *protocol.LockCommand, result uint8, lcount uint16, lrcount uint8) map[string][]byte {
	return map[string][]byte{
		"Magic": {protocol.MAGIC}, "Version": {protocol.VERSION}, "CommandType": {cmd.CommandType},
		"RequestId": cmd.RequestId[:], "Result": {result}, "Flag": {0}, "DbId": {cmd.DbId},
		"LockId": cmd.LockId[:], "LockKey": cmd.LockKey[:],
		"Lcount": {byte(lcount), byte(lcount >> 8)}, "Count": {byte(cmd.Count), byte(cmd.Count >> 8)},
		"Lrcount": {lrcount}, "Rcount": {cmd.Rcount},
	}
}

var vfC14LockResultType = &vfC14Type{Name: "LockResultCommand", Source: vfC14ReadmeRes, Fields: vfC14LockResultFields()}

// compareResultFrame checks a 64-byte result frame (a) field by field against
// the README response layout and (b) through protocol.LockResultCommand.Decode.
func (d *vfC14Differ) compareResultFrame(where string, frame []byte, cmd *protocol.LockCommand, result uint8, lcount uint16, lrcount uint8, skip map[string]bool) {
	vals := vfC14LockResultVals(cmd, result, lcount, lrcount)
	for _, f := range vfC14LockResultType.Fields {
		if skip[f.Name] {
			continue
		}
		d.eq(where+"@README-offsets", f.Name, vals[f.Name], frame[f.Off:f.Off+f.Len])
	}
	var res protocol.LockResultCommand
	if err := res.Decode(frame); err != nil {
		d.diffs = append(d.diffs, vfC14Diff{where, "Decode", "nil", err.Error()})
		return
	}
	for _, f := range vfC14LockResultType.Fields {
		if skip[f.Name] {
			continue
		}
		d.eq(where+"@LockResultCommand.Decode", f.Name, vals[f.Name], vfC14Get(&res, f))
	}
}

// compareHeld: light = skip the census walk (used for all but the first and last
// variant of a split sweep; the stored command is still compared field by field).
func (d *vfC14Differ) compareHeld(where string, in *vfInstance, cmd *protocol.LockCommand, light bool) {
	db := in.dbs[cmd.DbId]
	if light {
		d.compareRecord(where, db, cmd)
		return
	}
	cs := vfTakeCensus(db)
	k := cs.find(cmd.DbId, cmd.LockKey)
	if k == nil || len(k.Holds) != 1 {
		n := -1
		if k != nil {
			n = len(k.Holds)
		}
		d.diffs = append(d.diffs, vfC14Diff{where + "@census", "holders of key " + vfC14Hex(cmd.LockKey[:]) + " in db " + strconv.Itoa(int(cmd.DbId)), "1", strconv.Itoa(n)})
		d.compared++
		return
	}
	h := k.Holds[0]
	d.eq(where+"@census", "LockId", cmd.LockId, h.LockId)
	d.eq(where+"@census", "Depth", uint8(1), h.Depth)
	d.eq(where+"@census", "Count", cmd.Count, h.Count)
	d.eq(where+"@census", "Rcount", cmd.Rcount, h.Rcount)
	d.eq(where+"@census", "TimeoutFlag", cmd.TimeoutFlag, h.TFlag)
	d.eq(where+"@census", "ExpriedFlag", cmd.ExpriedFlag, h.EFlag)
	d.eq(where+"@census", "Expried", cmd.Expried, h.Expried)
	d.eq(where+"@census", "RequestId", cmd.RequestId, h.ReqId)
	d.eq(where+"@census", "Locked", uint32(1), k.Locked)
	d.compareRecord(where, db, cmd)
}

func (d *vfC14Differ) compareRecord(where string, db *LockDB, cmd *protocol.LockCommand) {
	held := vfC14HeldCommand(db, cmd.LockKey)
	if held == nil {
		d.diffs = append(d.diffs, vfC14Diff{where + "@record", "stored command", "present", "absent"})
		return
	}
	d.eq(where+"@record", "CommandType", cmd.CommandType, held.CommandType)
	d.eq(where+"@record", "RequestId", cmd.RequestId, held.RequestId)
	d.eq(where+"@record", "Flag", cmd.Flag, held.Flag)
	d.eq(where+"@record", "DbId", cmd.DbId, held.DbId)
	d.eq(where+"@record", "LockId", cmd.LockId, held.LockId)
	d.eq(where+"@record", "LockKey", cmd.LockKey, held.LockKey)
	d.eq(where+"@record", "Timeout", cmd.Timeout, held.Timeout)
	d.eq(where+"@record", "TimeoutFlag", cmd.TimeoutFlag, held.TimeoutFlag)
	d.eq(where+"@record", "Expried", cmd.Expried, held.Expried)
	d.eq(where+"@record", "ExpriedFlag", cmd.ExpriedFlag, held.ExpriedFlag)
	d.eq(where+"@record", "Count", cmd.Count, held.Count)
	d.eq(where+"@record", "Rcount", cmd.Rcount, held.Rcount)
}

func (d *vfC14Differ) compareReleased(where string, in *vfInstance, cmd *protocol.LockCommand, light bool) {
	if light {
		d.compared++
		if vfC14HeldCommand(in.dbs[cmd.DbId], cmd.LockKey) != nil {
			d.diffs = append(d.diffs, vfC14Diff{where + "@record", "holder after UNLOCK", "none", "present"})
		}
		return
	}
	cs := vfTakeCensus(in.dbs[cmd.DbId])
	k := cs.find(cmd.DbId, cmd.LockKey)
	d.compared++
	if k != nil && len(k.Holds) != 0 {
		d.diffs = append(d.diffs, vfC14Diff{where + "@census", "holders after UNLOCK", "0", strconv.Itoa(len(k.Holds))})
	}
}

// lockCycle: LOCK frames (chunked as given) -> results + held records, then
// UNLOCK -> results + released. Returns the diffs.
func vfC14LockCycle(r *vfRand, in *vfInstance, cmds []protocol.LockCommand, frames [][]byte, chunks [][]byte, light bool) (*vfC14Differ, []byte) {
	d := &vfC14Differ{}
	s := vfC14NewBinSession(in)
	defer s.close()
	out, err := s.run(chunks)
	if err != io.EOF {
		d.diffs = append(d.diffs, vfC14Diff{"lock", "Process() error", "EOF", fmt.Sprint(err)})
	}
	d.compared++
	if len(out) != 64*len(cmds) {
		d.diffs = append(d.diffs, vfC14Diff{"lock", "bytes written by the server", strconv.Itoa(64 * len(cmds)), fmt.Sprintf("%d (%x)", len(out), out)})
		// release whatever was granted so that later cases see fresh keys
	} else {
		for j := range cmds {
			d.compareResultFrame(fmt.Sprintf("lock[%d].result", j), out[64*j:64*j+64], &cmds[j], protocol.RESULT_SUCCED, 1, 1, nil)
			d.compareHeld(fmt.Sprintf("lock[%d].held", j), in, &cmds[j], light)
		}
	}
	var ustream []byte
	ucmds := make([]protocol.LockCommand, len(cmds))
	for j := range cmds {
		ucmds[j] = vfC14UnlockFor(r, &cmds[j])
		ustream = append(ustream, vfC14EncodeFrame(r, &ucmds[j])...)
	}
	uout, uerr := s.run([][]byte{ustream})
	if uerr != io.EOF {
		d.diffs = append(d.diffs, vfC14Diff{"unlock", "Process() error", "EOF", fmt.Sprint(uerr)})
	}
	if len(uout) != 64*len(cmds) {
		d.diffs = append(d.diffs, vfC14Diff{"unlock", "bytes written by the server", strconv.Itoa(64 * len(cmds)), fmt.Sprintf("%d (%x)", len(uout), uout)})
	} else if len(out) == 64*len(cmds) {
		for j := range cmds {
			// the UNLOCK reply echoes the unlock request's ids; Count/Rcount/LCount are those of the released hold and not asserted here
			d.compareResultFrame(fmt.Sprintf("unlock[%d].result", j), uout[64*j:64*j+64], &ucmds[j], protocol.RESULT_SUCCED, 0, 0, map[string]bool{"Lcount": true, "Count": true, "Lrcount": true, "Rcount": true})
			d.compareReleased(fmt.Sprintf("unlock[%d]", j), in, &cmds[j], light || j > 0 || r.Intn(4) != 0)
		}
	}
	return d, out
}

func (c *vfC14Ctx) subBinary() {
	r := c.rng
	in := vfC14GetLeader(c.env)
	n := 1
	if r.Chance(30) {
		n = 2
	}
	sweep := r.Intn(8) == 0
	if sweep {
		n = 1
	}
	cmds := make([]protocol.LockCommand, n)
	frames := make([][]byte, n)
	var stream []byte
	for j := range cmds {
		cmds[j] = vfC14GenLock(r)
		if j > 0 {
			cmds[j].DbId = cmds[0].DbId
		}
		frames[j] = vfC14EncodeFrame(r, &cmds[j])
		stream = append(stream, frames[j]...)
	}
	c.part.Add("bin_cases", 1)
	var variants [][][]byte
	if sweep {
		for k := 1; k < 64; k++ {
			variants = append(variants, [][]byte{stream[:k], stream[k:]})
		}
		variants = append(variants, [][]byte{stream})
	} else {
		switch r.Intn(4) {
		case 0:
			variants = append(variants, [][]byte{stream})
		case 1:
			variants = append(variants, vfC14RandChunks(r, stream, 8))
		case 2:
			variants = append(variants, vfC14RandChunks(r, stream, 100))
		default:
			k := r.Range(1, len(stream)-1)
			variants = append(variants, [][]byte{stream[:k], stream[k:]})
		}
	}
	for vi, chunks := range variants {
		light := vi > 0 && vi < len(variants)-1
		if !light {
			c.part.Add("bin_census_compared", 1)
		}
		d, out := vfC14LockCycle(r, in, cmds, frames, chunks, light)
		c.part.Add("bin_frames", int64(n))
		c.part.Add("bin_fields_compared", d.compared)
		if len(chunks) > 1 {
			c.part.Add("bin_split_variants", 1)
		}
		if len(stream) > 64 && len(chunks) == 1 {
			c.part.Add("bin_two_frames_one_read", 1)
		}
		if len(d.diffs) > 0 {
			first := d.diffs[0]
			all := []string{}
			for _, x := range d.diffs {
				all = append(all, x.String())
			}
			sig := "binary-lock:" + first.Where[bytesIndexDot(first.Where)+1:] + ":" + first.Field
			c.report("bin", "inlined-codec", sig, fmt.Sprintf("LOCK frame(s) %x fed to BinaryServerProtocol.Process in chunks %v: %s (%d difference(s))", stream, vfC14ChunkSizes(chunks), first.String(), len(d.diffs)),
				map[string]interface{}{"frames": vfC14Hex(stream), "chunk_sizes": vfC14ChunkSizes(chunks), "server_wrote": vfC14Hex(out), "differences": all}, 3)
			break
		}
	}
	c.nontrivial("bin", stream)
	c.part.Sample(5, map[string]interface{}{"subcheck": "bin", "case": c.i, "frames": vfC14Hex(stream), "variants": len(variants)})
}

func bytesIndexDot(s string) int {
	for i := 0; i < len(s); i++ {
		if s[i] == '.' {
			return i
		}
	}
	return -1
}

// ---------------------------------------------------------------- RESP reader (independent of the parser under test)

func vfC14ReadRESP(raw []byte) ([]vfC14Parsed, error) {
	var out []vfC14Parsed
	pos := 0
	line := func() (string, error) {
		i := bytes.Index(raw[pos:], []byte("\r\n"))
		if i < 0 {
			return "", fmt.Errorf("unterminated line at %d", pos)
		}
		s := string(raw[pos : pos+i])
		pos += i + 2
		return s, nil
	}
	bulk := func() (string, error) {
		l, err := line()
		if err != nil {
			return "", err
		}
		if len(l) == 0 {
			return "", fmt.Errorf("empty element header")
		}
		if l[0] == ':' {
			return l[1:], nil
		}
		if l[0] != '$' {
			return "", fmt.Errorf("expected bulk string, got %q", l)
		}
		n, err := strconv.Atoi(l[1:])
		if err != nil || n < 0 || pos+n+2 > len(raw) {
			return "", fmt.Errorf("bad bulk length %q", l)
		}
		s := string(raw[pos : pos+n])
		if string(raw[pos+n:pos+n+2]) != "\r\n" {
			return "", fmt.Errorf("bulk string not terminated by CRLF")
		}
		pos += n + 2
		return s, nil
	}
	for pos < len(raw) {
		switch raw[pos] {
		case '+':
			l, err := line()
			if err != nil {
				return out, err
			}
			out = append(out, vfC14Parsed{Args: []string{l[1:]}})
		case '-':
			l, err := line()
			if err != nil {
				return out, err
			}
			out = append(out, vfC14Parsed{ErrType: "ERR", Msg: l[1:]})
		case '$', ':':
			s, err := bulk()
			if err != nil {
				return out, err
			}
			out = append(out, vfC14Parsed{Args: []string{s}})
		case '*':
			l, err := line()
			if err != nil {
				return out, err
			}
			n, err := strconv.Atoi(l[1:])
			if err != nil || n < 0 {
				return out, fmt.Errorf("bad array length %q", l)
			}
			p := vfC14Parsed{Args: []string{}}
			for k := 0; k < n; k++ {
				s, err := bulk()
				if err != nil {
					return out, err
				}
				p.Args = append(p.Args, s)
			}
			out = append(out, p)
		default:
			return out, fmt.Errorf("unexpected byte %q at %d", raw[pos], pos)
		}
	}
	return out, nil
}

// ---------------------------------------------------------------- (5) text vs binary

type vfC14TextSession struct {
	conn  *vfC14Conn
	tsp   *TextServerProtocol
	stuck bool
}

func vfC14NewTextSession(in *vfInstance) *vfC14TextSession {
	conn := &vfC14Conn{}
	return &vfC14TextSession{conn: conn, tsp: NewTextServerProtocol(in.slock, NewStream(conn))}
}

// run feeds the chunks through TextServerProtocol.Process(). The text handlers
// block until the lock request is answered; with the manual clock an
// unexpected wait would never end, so the call is bounded.
func (s *vfC14TextSession) run(chunks [][]byte) ([]byte, error) {
	s.conn.in = vfC14CopyChunks(chunks)
	done := make(chan error, 1)
	go func() { done <- s.tsp.Process() }()
	select {
	case err := <-done:
		return s.conn.take(), err
	case <-time.After(20 * time.Second):
		s.conn = &vfC14Conn{} // the blocked goroutine keeps the old one
		s.stuck = true
		return nil, fmt.Errorf("TextServerProtocol.Process did not return within 20 s (request waits for a lock)")
	}
}

// vfC14RequestBulkSpans locates the bulk-string bodies of a RESP request
// stream (one or more "*n" arrays of "$len" strings).
func vfC14RequestBulkSpans(stream []byte) []vfC14Span {
	var out []vfC14Span
	pos := 0
	for pos < len(stream) {
		i := bytes.Index(stream[pos:], []byte("\r\n"))
		if i < 0 {
			break
		}
		hdr := stream[pos : pos+i]
		pos += i + 2
		if len(hdr) > 0 && hdr[0] == '$' {
			n, _ := strconv.Atoi(string(hdr[1:]))
			out = append(out, vfC14Span{pos, pos + n})
			pos += n + 2
		}
	}
	return out
}

// vfC14SafeChunks: PRNG chunking that avoids the read pattern of the request
// parser defect reported by the treq sub-check (a bulk body read in pieces whose
// last piece ends the read), so that the server sub-checks stay meaningful
// while that defect is open. Falls back to a single chunk.
func vfC14SafeChunks(r *vfRand, stream []byte, max int) [][]byte {
	spans := &vfC14Stream{Bulks: vfC14RequestBulkSpans(stream)}
	for try := 0; try < 8; try++ {
		chunks := vfC14RandChunks(r, stream, max)
		var bounds []int
		pos := 0
		for _, ch := range chunks[:len(chunks)-1] {
			pos += len(ch)
			bounds = append(bounds, pos)
		}
		if !vfC14BulkTrigger(spans, bounds) {
			return chunks
		}
	}
	return [][]byte{stream}
}

func (s *vfC14TextSession) close() {
	if !s.stuck {
		_ = s.tsp.Close()
	}
}

func vfC14GenIdString(r *vfRand, n int) string {
	b := r.Bytes(n)
	if n == 32 && r.Chance(60) {
		for i := range b {
			b[i] = "0123456789abcdefABCDEF"[r.Intn(22)]
		}
		if r.Chance(15) {
			b[r.Intn(32)] = 'g' // 32 characters, not hex
		}
	} else if n != 32 && r.Chance(35) {
		// hex digits only at every other length too (sha1 / sha256 digests used as keys): only
		// exactly 32 hex characters are decoded, everything else of that alphabet is hashed / padded
		for i := range b {
			b[i] = "0123456789abcdefABCDEF"[r.Intn(22)]
		}
	} else if r.Chance(30) {
		for i := range b {
			b[i] = "abcdefghijklmnopqrstuvwxyz0123456789:_-"[r.Intn(39)]
		}
	}
	return string(b)
}

// text reply -> fields. README: [RESULT_CODE, RESULT_MSG, 'LOCK_ID', lock_id,
// 'LCOUNT', lcount, 'COUNT', count, 'LRCOUNT', lrcount, 'RCOUNT', rcount]
type vfC14TextReply struct {
	Code    int
	Msg     string
	LockId  string
	LCount  int
	Count   int
	LRCount int
	RCount  int
}

func vfC14ParseTextReply(p vfC14Parsed) (*vfC14TextReply, error) {
	if p.ErrType != "" {
		return nil, fmt.Errorf("error reply -%s", p.Msg)
	}
	a := p.Args
	if len(a) != 12 {
		return nil, fmt.Errorf("reply has %d elements, README documents 12: %q", len(a), a)
	}
	for k, name := range map[int]string{2: "LOCK_ID", 4: "LCOUNT", 6: "COUNT", 8: "LRCOUNT", 10: "RCOUNT"} {
		if a[k] != name {
			return nil, fmt.Errorf("element %d is %q, expected %q", k, a[k], name)
		}
	}
	rep := &vfC14TextReply{Msg: a[1], LockId: a[3]}
	var err error
	for _, x := range []struct {
		dst *int
		idx int
	}{{&rep.Code, 0}, {&rep.LCount, 5}, {&rep.Count, 7}, {&rep.LRCount, 9}, {&rep.RCount, 11}} {
		if *x.dst, err = strconv.Atoi(a[x.idx]); err != nil {
			return nil, fmt.Errorf("element %d %q is not a number", x.idx, a[x.idx])
		}
	}
	return rep, nil
}

func (c *vfC14Ctx) subEquiv() {
	r := c.rng
	in := vfC14GetLeader(c.env)
	keyLen := r.Intn(65)
	keyStr := vfC14GenIdString(r, keyLen)
	wantKey := vfC14NormKey(keyStr)
	hasId := !r.Chance(20)
	idStr := ""
	if hasId {
		idStr = vfC14GenIdString(r, r.Range(0, 64))
		if r.Chance(25) {
			idStr = vfC14GenIdString(r, []int{1, 15, 16, 17, 31, 32, 33, 64}[r.Intn(8)])
		}
	}
	timeout, tflag := r.Intn(65536), int(r.PickU16([]uint16{0, protocol.TIMEOUT_FLAG_RCOUNT_IS_PRIORITY}))
	expried, eflag := r.Range(60, 65535), int(r.PickU16([]uint16{0, protocol.EXPRIED_FLAG_MINUTE_TIME, protocol.EXPRIED_FLAG_UNLIMITED_AOF_TIME}))
	count, rcount := -1, -1 // -1 = option omitted
	if !r.Chance(20) {
		count = r.Range(1, 65535)
		if r.Chance(8) {
			count = 0
		}
		if r.Chance(8) {
			count = 65535
		}
	}
	if !r.Chance(20) {
		rcount = r.Range(1, 255)
		if r.Chance(8) {
			rcount = 0
		}
		if r.Chance(8) {
			rcount = 255
		}
	}
	dbId := 0
	if r.Chance(30) {
		dbId = r.Range(1, 2)
	}
	type opt struct{ k, v string }
	opts := []opt{{"TIMEOUT", strconv.Itoa(tflag<<16 | timeout)}, {"EXPRIED", strconv.Itoa(eflag<<16 | expried)}}
	if hasId {
		opts = append(opts, opt{"LOCK_ID", idStr})
	}
	if r.Chance(50) {
		opts = append(opts, opt{"FLAG", "0"})
	}
	if count >= 0 {
		opts = append(opts, opt{"COUNT", strconv.Itoa(count)})
	}
	if rcount >= 0 {
		opts = append(opts, opt{"RCOUNT", strconv.Itoa(rcount)})
	}
	if r.Chance(30) {
		for k := len(opts) - 1; k > 0; k-- {
			j := r.Intn(k + 1)
			opts[k], opts[j] = opts[j], opts[k]
		}
	}
	lockArgs := []string{"LOCK", keyStr}
	for _, o := range opts {
		lockArgs = append(lockArgs, o.k, o.v)
	}
	builder := protocol.NewTextParser(make([]byte, 1024), make([]byte, 1024))
	var stream []byte
	nPre := 0
	if dbId != 0 {
		stream = append(stream, builder.BuildRequest([]string{"SELECT", strconv.Itoa(dbId)})...)
		nPre = 1
	}
	stream = append(stream, builder.BuildRequest(lockArgs)...)
	var chunks [][]byte
	switch r.Intn(3) {
	case 0:
		chunks = [][]byte{stream}
	case 1:
		chunks = vfC14SafeChunks(r, stream, 16)
	default:
		chunks = vfC14SafeChunks(r, stream, 200)
	}
	if len(chunks) > 1 {
		c.part.Add("eq_text_request_split", 1)
	}
	c.part.Add("eq_cases", 1)
	d := &vfC14Differ{}
	doc := map[string]interface{}{"text_request": fmt.Sprintf("%q", stream), "text_request_hex": vfC14Hex(stream), "chunk_sizes": vfC14ChunkSizes(chunks), "key_string_hex": vfC14Hex([]byte(keyStr)), "key_len": keyLen, "id_string_hex": vfC14Hex([]byte(idStr)), "has_id": hasId, "db": dbId}
	fail := func(sig, detail string) {
		c.report("eq", "text-binary-equivalence", sig, detail, doc, 2)
	}
	db := in.dbs[dbId]
	if k := vfTakeCensus(db).find(uint8(dbId), wantKey); k != nil && len(k.Holds) > 0 {
		c.part.Add("eq_skipped_key_not_fresh", 1)
		return
	}

	ts := vfC14NewTextSession(in)
	defer ts.close()
	raw, runErr := ts.run(chunks)
	doc["text_reply"] = fmt.Sprintf("%q", raw)
	if ts.stuck {
		fail("text-lock:blocked", fmt.Sprintf("text LOCK %q on a fresh key: %v", lockArgs, runErr))
		return
	}
	replies, rerr := vfC14ReadRESP(raw)
	if rerr != nil || len(replies) != nPre+1 {
		fail("text-lock:reply-malformed", fmt.Sprintf("text LOCK %q: reply %q is not %d well-formed RESP value(s): %v", lockArgs, raw, nPre+1, rerr))
		return
	}
	rep, perr := vfC14ParseTextReply(replies[nPre])
	if perr != nil {
		fail("text-lock:reply-shape", fmt.Sprintf("text LOCK %q: %v", lockArgs, perr))
		return
	}

	// the equivalent binary command (README: key/id normalisation, COUNT/RCOUNT are maxima)
	var want protocol.LockCommand
	want.Magic, want.Version, want.CommandType = protocol.MAGIC, protocol.VERSION, protocol.COMMAND_LOCK
	want.DbId = uint8(dbId)
	want.LockKey = wantKey
	want.Timeout, want.TimeoutFlag = uint16(timeout), uint16(tflag)
	want.Expried, want.ExpriedFlag = uint16(expried), uint16(eflag)
	if count > 0 {
		want.Count = uint16(count - 1)
	}
	if rcount > 0 {
		want.Rcount = uint8(rcount - 1)
	}
	if hasId {
		want.LockId = vfC14NormKey(idStr)
	} else {
		if len(rep.LockId) != 32 || !vfC14IsHex(rep.LockId) {
			fail("text-lock:reply-lock-id", fmt.Sprintf("text LOCK without LOCK_ID: reply LOCK_ID %q is not 32 hex characters", rep.LockId))
			return
		}
		want.LockId = vfC14NormKey(rep.LockId)
	}

	// binary twin on a second fresh key
	twin := want
	twin.LockKey[15] ^= 0xa5
	twin.LockKey[0] ^= 0x5a
	copy(twin.RequestId[:], r.Bytes(16))
	bs := vfC14NewBinSession(in)
	defer bs.close()
	bout, _ := bs.run([][]byte{vfC14EncodeFrame(r, &twin)})
	var bres protocol.LockResultCommand
	if len(bout) != 64 || bres.Decode(bout) != nil {
		fail("binary-twin:no-result", fmt.Sprintf("binary twin LOCK wrote %d bytes", len(bout)))
		return
	}

	// (a) reply fields
	d.eq("lock.reply", "RESULT_CODE", int(bres.Result), rep.Code)
	d.eq("lock.reply", "RESULT_MSG", "OK", rep.Msg)
	d.eq("lock.reply", "LOCK_ID", vfC14Hex(want.LockId[:]), rep.LockId)
	d.eq("lock.reply", "LCOUNT", int(bres.Lcount), rep.LCount)
	d.eq("lock.reply", "COUNT(=binary Count+1)", int(bres.Count)+1, rep.Count)
	d.eq("lock.reply", "LRCOUNT", int(bres.Lrcount), rep.LRCount)
	d.eq("lock.reply", "RCOUNT(=binary Rcount+1)", int(bres.Rcount)+1, rep.RCount)
	if count >= 1 {
		d.eq("lock.reply", "COUNT(echo of the request)", count, rep.Count)
	}
	if rcount >= 1 {
		d.eq("lock.reply", "RCOUNT(echo of the request)", rcount, rep.RCount)
	}
	// (b) effect: census of the text key must equal the expected command and the twin
	cs := vfTakeCensus(db)
	k := cs.find(uint8(dbId), wantKey)
	c.part.Add("keynorm_server_checked", 1)
	c.part.Add(fmt.Sprintf("keynorm_server_len_%02d", keyLen), 1)
	if k == nil || len(k.Holds) != 1 {
		used := "none"
		for _, ck := range cs.Keys {
			for _, h := range ck.Holds {
				if h.LockId == want.LockId {
					used = vfC14Hex(ck.Key[:])
				}
			}
		}
		d.diffs = append(d.diffs, vfC14Diff{"lock.effect", fmt.Sprintf("key used for the %d-byte key string %x (reference: %x)", keyLen, keyStr, wantKey), vfC14Hex(wantKey[:]), used})
	} else {
		h := k.Holds[0]
		d.eq("lock.effect", "LockId", want.LockId, h.LockId)
		d.eq("lock.effect", "Depth", uint8(1), h.Depth)
		d.eq("lock.effect", "Count", want.Count, h.Count)
		d.eq("lock.effect", "Rcount", want.Rcount, h.Rcount)
		d.eq("lock.effect", "Expried", want.Expried, h.Expried)
		d.eq("lock.effect", "ExpriedFlag", want.ExpriedFlag, h.EFlag)
		d.eq("lock.effect", "TimeoutFlag", want.TimeoutFlag, h.TFlag)
		if held := vfC14HeldCommand(db, wantKey); held != nil {
			d.eq("lock.effect", "Timeout", want.Timeout, held.Timeout)
			d.eq("lock.effect", "Flag", want.Flag, held.Flag)
			d.eq("lock.effect", "DbId", want.DbId, held.DbId)
		}
		if tk := cs.find(uint8(dbId), twin.LockKey); tk != nil && len(tk.Holds) == 1 {
			th := tk.Holds[0]
			d.eq("lock.effect-vs-twin", "LockId", th.LockId, h.LockId)
			d.eq("lock.effect-vs-twin", "Depth", th.Depth, h.Depth)
			d.eq("lock.effect-vs-twin", "Count", th.Count, h.Count)
			d.eq("lock.effect-vs-twin", "Rcount", th.Rcount, h.Rcount)
			d.eq("lock.effect-vs-twin", "Expried", th.Expried, h.Expried)
			d.eq("lock.effect-vs-twin", "ExpriedFlag", th.EFlag, h.EFlag)
			d.eq("lock.effect-vs-twin", "TimeoutFlag", th.TFlag, h.TFlag)
			d.eq("lock.effect-vs-twin", "Deadline", th.Deadline, h.Deadline)
		} else {
			d.diffs = append(d.diffs, vfC14Diff{"lock.effect-vs-twin", "binary twin hold", "present", "absent"})
		}
	}

	// UNLOCK, text and binary
	unlockArgs := []string{"UNLOCK", keyStr}
	if hasId {
		unlockArgs = append(unlockArgs, "LOCK_ID", idStr)
	} // else: README "if not specified, the last lock_id will be used automatically"
	ustream := builder.BuildRequest(unlockArgs)
	uraw, _ := ts.run(vfC14SafeChunks(r, ustream, 64))
	doc["text_unlock_request"] = fmt.Sprintf("%q", ustream)
	doc["text_unlock_reply"] = fmt.Sprintf("%q", uraw)
	utwin := vfC14UnlockFor(r, &twin)
	ubout, _ := bs.run([][]byte{vfC14EncodeFrame(r, &utwin)})
	var ubres protocol.LockResultCommand
	ureplies, uerr := vfC14ReadRESP(uraw)
	if uerr != nil || len(ureplies) != 1 {
		d.diffs = append(d.diffs, vfC14Diff{"unlock.reply", "well-formed RESP value", "1", fmt.Sprintf("%d (%v) %q", len(ureplies), uerr, uraw)})
	} else if urep, e := vfC14ParseTextReply(ureplies[0]); e != nil {
		d.diffs = append(d.diffs, vfC14Diff{"unlock.reply", "shape", "12 elements", e.Error()})
	} else if len(ubout) != 64 || ubres.Decode(ubout) != nil {
		d.diffs = append(d.diffs, vfC14Diff{"unlock.binary-twin", "result frame", "64 bytes", strconv.Itoa(len(ubout))})
	} else {
		d.eq("unlock.reply", "RESULT_CODE", int(ubres.Result), urep.Code)
		d.eq("unlock.reply", "RESULT_CODE", 0, urep.Code)
		d.eq("unlock.reply", "RESULT_MSG", "OK", urep.Msg)
		d.eq("unlock.reply", "LOCK_ID", vfC14Hex(want.LockId[:]), urep.LockId)
		d.eq("unlock.reply", "LCOUNT", int(ubres.Lcount), urep.LCount)
		d.eq("unlock.reply", "COUNT(=binary Count+1)", int(ubres.Count)+1, urep.Count)
		d.eq("unlock.reply", "LRCOUNT", int(ubres.Lrcount), urep.LRCount)
		d.eq("unlock.reply", "RCOUNT(=binary Rcount+1)", int(ubres.Rcount)+1, urep.RCount)
	}
	cs = vfTakeCensus(db)
	for _, kk := range [][16]byte{wantKey, twin.LockKey} {
		d.compared++
		if k := cs.find(uint8(dbId), kk); k != nil && len(k.Holds) != 0 {
			d.diffs = append(d.diffs, vfC14Diff{"unlock.effect", "holders of " + vfC14Hex(kk[:]) + " after UNLOCK", "0", strconv.Itoa(len(k.Holds))})
			// leave no hold behind: release through the binary protocol
			cl := vfC14UnlockFor(r, &protocol.LockCommand{DbId: uint8(dbId), LockKey: kk, LockId: k.Holds[0].LockId})
			_, _ = bs.run([][]byte{vfC14EncodeFrame(r, &cl)})
		}
	}
	c.part.Add("eq_fields_compared", d.compared)
	if len(d.diffs) > 0 {
		first := d.diffs[0]
		all := []string{}
		for _, x := range d.diffs {
			all = append(all, x.String())
		}
		doc["differences"] = all
		field := first.Field
		if first.Where == "lock.effect" && len(field) > 8 && field[:8] == "key used" {
			field = "key-normalisation(" + vfC14LenClass(keyLen) + ")"
		}
		fail("text-vs-binary:"+first.Where+":"+field, fmt.Sprintf("text %q vs the equivalent binary command: %s (%d difference(s))", lockArgs, first.String(), len(d.diffs)))
	}
	c.nontrivial("eq", stream)
	c.part.Sample(6, map[string]interface{}{"subcheck": "eq", "case": c.i, "text": fmt.Sprintf("%q", stream), "key_used": vfC14Hex(wantKey[:])})
}

// ---------------------------------------------------------------- (6) result-code rendering

func vfC14Guard(f func() error) (err error, pan string) {
	defer func() {
		if r := recover(); r != nil {
			pan = fmt.Sprint(r)
		}
	}()
	err = f()
	return
}

func (c *vfC14Ctx) subRender() {
	r := c.rng
	in := vfC14GetLeader(c.env)
	ts := vfC14NewTextSession(in)
	defer ts.close()
	tsp := ts.tsp
	c.part.Add("render_cases", 1)
	const maxCode = protocol.RESULT_LOCK_ACK_WAITING
	for code := 0; code <= maxCode; code++ {
		var cmd protocol.LockCommand
		cmd.Magic, cmd.Version, cmd.CommandType = protocol.MAGIC, protocol.VERSION, protocol.COMMAND_LOCK
		copy(cmd.RequestId[:], r.Bytes(16))
		copy(cmd.LockId[:], r.Bytes(16))
		copy(cmd.LockKey[:], r.Bytes(16))
		cmd.Count, cmd.Rcount = uint16(r.Intn(65535)), uint8(r.Intn(255))
		lcount, lrcount := uint16(r.U64()), uint8(r.U64())
		mk := func() *protocol.LockResultCommand {
			return protocol.NewLockResultCommand(&cmd, uint8(code), 0, lcount, cmd.Count, lrcount, cmd.Rcount, nil)
		}
		paths := []struct {
			name    string
			plusOne bool
			f       func() error
		}{
			{"TextServerProtocol.ProcessLockResultCommand -> lockWaiter -> TextCommandConverter.WriteTextLockAndUnLockCommandResult (the path of commandHandlerLock / commandHandlerUnlock)", true, func() error {
				if err := tsp.ProcessLockResultCommand(&cmd, uint8(code), lcount, lrcount, nil); err != nil {
					return err
				}
				res := <-tsp.lockWaiter
				err := tsp.commandConverter.WriteTextLockAndUnLockCommandResult(tsp, tsp.stream, res)
				tsp.freeCommandResult, res.Data = res, nil
				return err
			}},
			{"TextServerProtocol.WriteCommand", false, func() error { return tsp.WriteCommand(mk()) }},
			{"TextServerProtocol.ProcessBuild", false, func() error { return tsp.ProcessBuild(mk()) }},
			{"client.TextClientProtocol.WriteCommand", false, func() error {
				// writes into its own connection; copy to the session's so that the common reader sees it
				cc := &vfC14Conn{}
				err := client.NewTextClientProtocol(client.NewStream(cc)).WriteCommand(mk())
				ts.conn.out = append(ts.conn.out, cc.out...)
				return err
			}},
		}
		var noRender []string // paths on which this code has no rendering at all
		lastRaw := ""
		for _, p := range paths {
			ts.conn.take()
			err, pan := vfC14Guard(p.f)
			raw := ts.conn.take()
			lastRaw = fmt.Sprintf("%q", raw)
			c.part.Add("render_codes_checked", 1)
			c.part.Add(fmt.Sprintf("render_code_%02d", code), 1)
			problem, field := "", ""
			if pan != "" {
				problem = "panics: " + pan
				// the result taken from lockWaiter was not handed back: restore the invariant
				tsp.freeCommandResult = nil
			} else if err != nil {
				problem = "returns error: " + err.Error()
			} else {
				vals, rerr := vfC14ReadRESP(raw)
				if rerr != nil || len(vals) != 1 {
					problem = fmt.Sprintf("writes %q which is not one well-formed RESP value (%v)", raw, rerr)
				} else if rep, e := vfC14ParseTextReply(vals[0]); e != nil {
					problem = "writes a reply of the wrong shape: " + e.Error()
				} else {
					add := 0
					if p.plusOne {
						add = 1
					}
					switch {
					case rep.Code != code:
						problem, field = fmt.Sprintf("renders RESULT_CODE %d", rep.Code), "RESULT_CODE"
					case rep.Msg == "":
						problem, field = "renders an empty RESULT_MSG", "RESULT_MSG"
					case rep.LockId != vfC14Hex(cmd.LockId[:]):
						problem, field = fmt.Sprintf("renders LOCK_ID %s, expected %x", rep.LockId, cmd.LockId), "LOCK_ID"
					case rep.LCount != int(lcount) || rep.LRCount != int(lrcount):
						problem, field = fmt.Sprintf("renders LCOUNT %d LRCOUNT %d, expected %d %d", rep.LCount, rep.LRCount, lcount, lrcount), "LCOUNT/LRCOUNT"
					case rep.Count != int(cmd.Count)+add || rep.RCount != int(cmd.Rcount)+add:
						problem, field = fmt.Sprintf("renders COUNT %d RCOUNT %d, expected %d %d", rep.Count, rep.RCount, int(cmd.Count)+add, int(cmd.Rcount)+add), "COUNT/RCOUNT"
					}
				}
			}
			if field != "" {
				c.report("render", "result-field-text-rendering", "text-render:field:"+field,
					fmt.Sprintf("result code %d (%s): %s %s", code, vfResName(uint8(code)), p.name, problem),
					map[string]interface{}{"result_code": code, "path": p.name, "problem": problem, "written": fmt.Sprintf("%q", raw)}, 2)
			} else if problem != "" {
				noRender = append(noRender, p.name+" "+problem)
			}
		}
		if len(noRender) > 0 {
			c.report("render", "result-code-text-rendering", fmt.Sprintf("text-render:result-code-%d", code),
				fmt.Sprintf("result code %d (%s) has no text rendering on %d of %d rendering paths: %s", code, vfResName(uint8(code)), len(noRender), len(paths), strings.Join(noRender, " | ")),
				map[string]interface{}{"result_code": code, "paths": noRender, "written": lastRaw}, 1)
		}
	}
	c.nontrivial("render", r.Bytes(8))
}

// ---------------------------------------------------------------- stream codec: frame + body / value frames

func vfC14PropsEqual(a, b []*protocol.LockCommandDataProperty) bool {
	if len(a) != len(b) {
		return false
	}
	for i := range a {
		if a[i].Code != b[i].Code || !bytes.Equal(a[i].Value, b[i].Value) {
			return false
		}
	}
	return true
}

func (c *vfC14Ctx) subStream() {
	r := c.rng
	in := vfC14GetLeader(c.env)
	c.part.Add("stream_cases", 1)
	fail := func(sig, detail string, doc map[string]interface{}) {
		c.report("stream", "frame-plus-body", sig, detail, doc, 2)
	}
	size := func() int {
		switch r.Intn(10) {
		case 0:
			return 0
		case 1:
			return r.Range(4000, 4200) // around the 4096-byte reader buffer
		case 2:
			return r.Range(60000, 70000)
		}
		return r.Range(1, 300)
	}
	chunk := func(stream []byte) [][]byte {
		switch r.Intn(3) {
		case 0:
			return [][]byte{stream}
		case 1:
			return vfC14RandChunks(r, stream, 100)
		}
		return vfC14RandChunks(r, stream, 5000)
	}
	// ---- client writes, server reads
	cconn := &vfC14Conn{}
	cproto := client.NewBinaryClientProtocol(client.NewStream(cconn))
	sess := vfC14NewBinSession(in)
	defer sess.close()

	// LOCK with a value frame that has properties
	lock := vfC14GenLock(r)
	value := r.Bytes(size())
	var props []*protocol.LockCommandDataProperty
	for k := r.Intn(4); k > 0; k-- {
		pv := r.Bytes(r.Range(0, 40))
		if len(pv) == 0 {
			pv = nil
		}
		props = append(props, protocol.NewLockCommandDataProperty(uint8(r.Range(1, 255)), pv))
	}
	if r.Chance(20) {
		props = nil
	}
	lock.Flag = protocol.LOCK_FLAG_CONTAINS_DATA
	lock.Data = protocol.NewLockCommandDataSetDataWithProperty(value, props)
	if err := cproto.Write(&lock); err != nil {
		fail("stream:client-write-lock", "BinaryClientProtocol.Write(LockCommand with value frame) failed: "+err.Error(), nil)
		return
	}
	wire := cconn.take()
	chunks := chunk(wire)
	sess.conn.in = vfC14CopyChunks(chunks)
	got, err := sess.bsp.Read()
	doc := map[string]interface{}{"wire": vfC14Hex(vfC14Cap(wire, 2048)), "wire_len": len(wire), "chunk_sizes": vfC14FirstN(vfC14ChunkSizes(chunks), 60)}
	c.part.Add("stream_frames", 1)
	if err != nil {
		fail("stream:server-read-lock", fmt.Sprintf("BinaryServerProtocol.Read of LOCK + %d-byte value frame (chunks %v) failed: %v", len(lock.Data.Data), vfC14FirstN(vfC14ChunkSizes(chunks), 20), err), doc)
		return
	}
	gl, ok := got.(*protocol.LockCommand)
	if !ok {
		fail("stream:server-read-lock-type", fmt.Sprintf("BinaryServerProtocol.Read returned %T", got), doc)
		return
	}
	d := &vfC14Differ{}
	d.eq("lock", "CommandType", lock.CommandType, gl.CommandType)
	d.eq("lock", "RequestId", lock.RequestId, gl.RequestId)
	d.eq("lock", "Flag", lock.Flag, gl.Flag)
	d.eq("lock", "DbId", lock.DbId, gl.DbId)
	d.eq("lock", "LockId", lock.LockId, gl.LockId)
	d.eq("lock", "LockKey", lock.LockKey, gl.LockKey)
	d.eq("lock", "Timeout", lock.Timeout, gl.Timeout)
	d.eq("lock", "TimeoutFlag", lock.TimeoutFlag, gl.TimeoutFlag)
	d.eq("lock", "Expried", lock.Expried, gl.Expried)
	d.eq("lock", "ExpriedFlag", lock.ExpriedFlag, gl.ExpriedFlag)
	d.eq("lock", "Count", lock.Count, gl.Count)
	d.eq("lock", "Rcount", lock.Rcount, gl.Rcount)
	if gl.Data == nil {
		d.diffs = append(d.diffs, vfC14Diff{"lock", "Data", "present", "nil"})
	} else {
		d.eq("lock.data", "bytes", lock.Data.Data, gl.Data.Data)
		d.eq("lock.data", "CommandStage", lock.Data.CommandStage, gl.Data.CommandStage)
		d.eq("lock.data", "CommandType", lock.Data.CommandType, gl.Data.CommandType)
		d.eq("lock.data", "DataFlag", lock.Data.DataFlag, gl.Data.DataFlag)
		d.eq("lock.data", "value", value, gl.Data.GetBytesValue())
	}
	glData := gl.Data
	_ = sess.bsp.FreeLockCommand(gl)

	// CALL with a body
	methodLen := r.Range(0, 38)
	if r.Chance(20) {
		methodLen = 38
	}
	mb := r.Bytes(methodLen)
	for i := range mb {
		mb[i] = "ABCDEFGHIJKLMNOPQRSTUVWXYZ_abcdefghijklmnopqrstuvwxyz0123456789."[r.Intn(64)]
	}
	body := r.Bytes(size())
	call := protocol.NewCallCommand(string(mb), body)
	call.Flag, call.Encoding, call.Charset = uint8(r.U64()), uint8(r.U64()), uint8(r.U64())
	if err := cproto.Write(call); err != nil {
		fail("stream:client-write-call", "BinaryClientProtocol.Write(CallCommand) failed: "+err.Error(), nil)
		return
	}
	wire = cconn.take()
	chunks = chunk(wire)
	sess.conn.in = vfC14CopyChunks(chunks)
	got, err = sess.bsp.Read()
	c.part.Add("stream_frames", 1)
	if err != nil {
		d.diffs = append(d.diffs, vfC14Diff{"call", "BinaryServerProtocol.Read error", "nil", err.Error()})
	} else if gc, ok := got.(*protocol.CallCommand); !ok {
		d.diffs = append(d.diffs, vfC14Diff{"call", "type", "*CallCommand", fmt.Sprintf("%T", got)})
	} else {
		d.eq("call", "RequestId", call.RequestId, gc.RequestId)
		d.eq("call", "Flag", call.Flag, gc.Flag)
		d.eq("call", "Encoding", call.Encoding, gc.Encoding)
		d.eq("call", "Charset", call.Charset, gc.Charset)
		d.eq("call", "ContentLen", call.ContentLen, gc.ContentLen)
		d.eq("call", "MethodName", call.MethodName, gc.MethodName)
		d.eq("call", "Data", body, gc.Data)
	}

	// ---- server writes, client reads: LOCK result carrying the value frame, CALL result with a body
	if glData != nil {
		res := protocol.NewLockResultCommand(&lock, protocol.RESULT_SUCCED, 0, uint16(r.U64()), lock.Count, uint8(r.U64()), lock.Rcount, glData.Data)
		sess.conn.take()
		if err := sess.bsp.Write(res); err != nil {
			d.diffs = append(d.diffs, vfC14Diff{"lockresult", "BinaryServerProtocol.Write error", "nil", err.Error()})
		} else {
			wire = sess.conn.take()
			cconn.in = vfC14CopyChunks(chunk(wire))
			cgot, cerr := cproto.Read()
			c.part.Add("stream_frames", 1)
			if cerr != nil {
				d.diffs = append(d.diffs, vfC14Diff{"lockresult", "BinaryClientProtocol.Read error", "nil", cerr.Error()})
			} else if cr, ok := cgot.(*protocol.LockResultCommand); !ok || cr.Data == nil {
				d.diffs = append(d.diffs, vfC14Diff{"lockresult", "type", "*LockResultCommand with Data", fmt.Sprintf("%T", cgot)})
			} else {
				d.eq("lockresult", "RequestId", res.RequestId, cr.RequestId)
				d.eq("lockresult", "Result", res.Result, cr.Result)
				d.eq("lockresult", "Flag", res.Flag, cr.Flag)
				d.eq("lockresult", "LockId", res.LockId, cr.LockId)
				d.eq("lockresult", "LockKey", res.LockKey, cr.LockKey)
				d.eq("lockresult", "Lcount", res.Lcount, cr.Lcount)
				d.eq("lockresult", "Count", res.Count, cr.Count)
				d.eq("lockresult", "Lrcount", res.Lrcount, cr.Lrcount)
				d.eq("lockresult", "Rcount", res.Rcount, cr.Rcount)
				d.eq("lockresult.data", "bytes", lock.Data.Data, cr.Data.Data)
				d.eq("lockresult.data", "value", value, cr.Data.GetBytesValue())
				d.compared++
				if gp := cr.Data.GetDataProperties(); !vfC14PropsEqual(props, gp) {
					d.diffs = append(d.diffs, vfC14Diff{"lockresult.data", "properties", fmt.Sprintf("%d properties", len(props)), fmt.Sprintf("%d properties / different values", len(gp))})
				}
			}
		}
	}
	etLen := r.Range(0, 37)
	eb := r.Bytes(etLen)
	for i := range eb {
		eb[i] = "ABCDEFGHIJKLMNOPQRSTUVWXYZ_"[r.Intn(27)]
	}
	rbody := r.Bytes(size())
	cres := protocol.NewCallResultCommand(call, uint8(r.Intn(13)), string(eb), rbody)
	sess.conn.take()
	if err := sess.bsp.Write(cres); err != nil {
		d.diffs = append(d.diffs, vfC14Diff{"callresult", "BinaryServerProtocol.Write error", "nil", err.Error()})
	} else {
		wire = sess.conn.take()
		cconn.in = vfC14CopyChunks(chunk(wire))
		cgot, cerr := cproto.Read()
		c.part.Add("stream_frames", 1)
		if cerr != nil {
			d.diffs = append(d.diffs, vfC14Diff{"callresult", "BinaryClientProtocol.Read error", "nil", cerr.Error()})
		} else if cr, ok := cgot.(*protocol.CallResultCommand); !ok {
			d.diffs = append(d.diffs, vfC14Diff{"callresult", "type", "*CallResultCommand", fmt.Sprintf("%T", cgot)})
		} else {
			d.eq("callresult", "RequestId", cres.RequestId, cr.RequestId)
			d.eq("callresult", "Result", cres.Result, cr.Result)
			d.eq("callresult", "ContentLen", cres.ContentLen, cr.ContentLen)
			d.eq("callresult", "ErrType", cres.ErrType, cr.ErrType)
			d.eq("callresult", "Data", rbody, cr.Data)
		}
	}
	c.part.Add("stream_fields_compared", d.compared)
	if len(d.diffs) > 0 {
		all := []string{}
		for _, x := range d.diffs {
			all = append(all, vfTrunc(x.String(), 400))
		}
		doc["differences"] = all
		fail("stream:"+d.diffs[0].Where+":"+d.diffs[0].Field, "frame + body through client/server stream codec: "+vfTrunc(d.diffs[0].String(), 400), doc)
	}
	c.nontrivial("stream", append(append([]byte{}, lock.Data.Data...), body...))
}

func vfC14Cap(b []byte, n int) []byte {
	if len(b) > n {
		return b[:n]
	}
	return b
}

// ---------------------------------------------------------------- first frame of a connection

// subFirstFrame: README "the first time the data received will distinguish
// between the protocol type". Server.checkProtocol is given the first LOCK
// frame of a binary connection whole and split in two reads; the outcome must
// not depend on the split.
func (c *vfC14Ctx) subFirstFrame() {
	r := c.rng
	in := vfC14GetLeader(c.env)
	srv := &Server{slock: in.slock}
	c.part.Add("firstframe_cases", 1)
	cmd := vfC14GenLock(r)
	frame := vfC14EncodeFrame(r, &cmd)
	k := r.Range(1, 63)
	type outcome struct {
		proto   string
		err     string
		wrote   int
		granted bool
	}
	try := func(chunks [][]byte) outcome {
		conn := &vfC14Conn{in: vfC14CopyChunks(chunks)}
		sp, err := srv.checkProtocol(NewStream(conn))
		o := outcome{proto: fmt.Sprintf("%T", sp), err: fmt.Sprint(err), wrote: len(conn.out)}
		if len(conn.out) == 64 {
			var res protocol.LockResultCommand
			o.granted = res.Decode(conn.out) == nil && res.Result == 0 && res.RequestId == cmd.RequestId
		}
		if sp != nil {
			_ = sp.Close()
		}
		// release (through a fresh binary session) if it was granted
		if k := vfTakeCensus(in.dbs[cmd.DbId]).find(cmd.DbId, cmd.LockKey); k != nil && len(k.Holds) > 0 {
			s := vfC14NewBinSession(in)
			u := vfC14UnlockFor(r, &cmd)
			_, _ = s.run([][]byte{vfC14EncodeFrame(r, &u)})
			s.close()
		}
		return o
	}
	whole := try([][]byte{frame})
	split := try([][]byte{frame[:k], frame[k:]})
	if !whole.granted {
		c.report("firstframe", "first-frame", "binary-first-frame:whole-frame-not-processed", fmt.Sprintf("Server.checkProtocol with a whole first LOCK frame: protocol %s err %s wrote %d bytes", whole.proto, whole.err, whole.wrote), map[string]interface{}{"frame": vfC14Hex(frame)}, 2)
		return
	}
	if split != whole {
		// Not part of C14's statement: Server.checkProtocol sniffs the protocol
		// from the size of the first read, so a first frame that arrives in two
		// reads is served as text. Counted for the evidence, not a violation.
		c.part.Add("firstframe_split_served_differently", 1)
	}
	c.nontrivial("firstframe", frame)
}

// ---------------------------------------------------------------- id / key converter functions

func vfC14LenClass(n int) string {
	switch {
	case n <= 16:
		return "len<=16"
	case n == 32:
		return "len=32"
	}
	return "len>16"
}

func (c *vfC14Ctx) subIdFuncs() {
	r := c.rng
	conv := protocol.NewTextCommandConverter()
	cli := client.NewTextClientProtocol(nil)
	c.part.Add("idfunc_cases", 1)
	for n := 0; n <= 64; n++ {
		s := vfC14GenIdString(r, n)
		want := vfC14NormKey(s)
		var a, b [16]byte
		copy(a[:], r.Bytes(16)) // pre-filled: the converter must define all 16 bytes
		copy(b[:], r.Bytes(16))
		conv.ConvertArgId2LockId(s, &a)
		cli.ArgsToLockComandResultParseId(s, &b)
		k := protocol.ConvertString2LockKey(s)
		c.part.Add("keynorm_func_checked", 3)
		for _, x := range []struct {
			name string
			got  [16]byte
		}{{"protocol.TextCommandConverter.ConvertArgId2LockId", a}, {"client.TextClientProtocol.ArgsToLockComandResultParseId", b}, {"protocol.ConvertString2LockKey", k}} {
			if x.got != want {
				c.report("idfunc", "key-id-normalisation", fmt.Sprintf("key-normalisation:%s:%s", x.name, vfC14LenClass(n)),
					fmt.Sprintf("%s(%d-byte string %x) = %x, README rule (<=16: zero bytes in front, 32 hex characters: decoded, else MD5) gives %x", x.name, n, s, x.got, want),
					map[string]interface{}{"function": x.name, "input": vfC14Hex([]byte(s)), "len": n, "expected": vfC14Hex(want[:]), "got": vfC14Hex(x.got[:])}, 2)
			}
		}
	}
	c.nontrivial("idfunc", r.Bytes(8))
}
