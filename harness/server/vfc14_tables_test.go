//go:build verif

package server

// C14 reference material that is INDEPENDENT of the codec under test:
//
//   - vfC14Types: (type, field, offset, length, kind) of every 64-byte command
//     and result frame. The LOCK/UNLOCK request and response rows are
//     transcribed from README.md, section "Protocol / Slock Binary Protocol"
//     ("# Request Command" and "# Response Command" diagrams, 8 bytes per row,
//     "the low bit in front" = little endian, ids/keys in array order). The
//     README documents no other frame; for those the rows pin the layout
//     "header (Magic, Version, CommandType, RequestId[16], for results Result)
//     followed by the struct's own fields in declaration order, packed, little
//     endian, rest zero padding". Two rows cannot be derived that way and are
//     pinned from the wire order used by Decode (checked against Encode and
//     vice versa): the LockDBState counters of StateResultCommand (wire order
//     LockCount, UnLockCount, LockedCount, WaitCount, TimeoutedCount,
//     ExpriedCount, UnlockErrorCount, KeyCount; SlowKeyCount has no room in the
//     frame) and the length-prefixed Host of LeaderResultCommand.
//   - vfC14NormKey: README "Redis Text Protocol" rule for lock_key / lock_id
//     strings (<=16 bytes: 0x00 added in front; 32 bytes that are hex: decoded;
//     otherwise MD5).
//   - little helpers to read/write struct fields by name through reflection so
//     that the generator never calls the codec to produce expected bytes.

import (
	"crypto/md5"
	"fmt"
	"reflect"
	"strings"

	"github.com/snower/slock/protocol"
)

type vfC14Codec interface {
	Encode(buf []byte) error
	Decode(buf []byte) error
}

const (
	vfC14KUint  = 'u' // unsigned integer, little endian, Len bytes
	vfC14KBytes = 'b' // byte array in array order
	vfC14KStrz  = 's' // string, NUL padded to Len bytes
	vfC14KHost  = 'h' // string of (byte at Off-1) bytes, at most Len
)

type vfC14Field struct {
	Name string // reflection path inside the struct ("State.LockCount")
	Off  int
	Len  int
	Kind byte
}

type vfC14Type struct {
	Name   string
	Source string
	Fields []vfC14Field
	New    func() vfC14Codec
}

func vfC14Header(result bool) []vfC14Field {
	f := []vfC14Field{
		{"Magic", 0, 1, vfC14KUint},
		{"Version", 1, 1, vfC14KUint},
		{"CommandType", 2, 1, vfC14KUint},
		{"RequestId", 3, 16, vfC14KBytes},
	}
	if result {
		f = append(f, vfC14Field{"Result", 19, 1, vfC14KUint})
	}
	return f
}

func vfC14With(result bool, more ...vfC14Field) []vfC14Field {
	return append(vfC14Header(result), more...)
}

const vfC14ReadmeReq = "README.md > Protocol > Slock Binary Protocol > '# Request Command' diagram"
const vfC14ReadmeRes = "README.md > Protocol > Slock Binary Protocol > '# Response Command' diagram"
const vfC14Pinned = "README silent: header + struct fields in declaration order, packed, little endian (pinned)"

// README request diagram, row by row (8 bytes per row):
//
//	row0: Magic(0) Version(1) CommandType(2) RequestId(3..7)
//	row1: RequestId(8..15)
//	row2: RequestId(16..18) FLAG(19) DBID(20) LockId(21..23)
//	row3: LockId(24..31)
//	row4: LockId(32..36) LockKey(37..39)
//	row5: LockKey(40..47)
//	row6: LockKey(48..52) Timeout(53..54) TimeoutFlag(55)
//	row7: TimeoutFlag(56) Expried(57..58) ExpriedFlag(59..60) Count(61..62) RCount(63)
func vfC14LockFields() []vfC14Field {
	return vfC14With(false,
		vfC14Field{"Flag", 19, 1, vfC14KUint},
		vfC14Field{"DbId", 20, 1, vfC14KUint},
		vfC14Field{"LockId", 21, 16, vfC14KBytes},
		vfC14Field{"LockKey", 37, 16, vfC14KBytes},
		vfC14Field{"Timeout", 53, 2, vfC14KUint},
		vfC14Field{"TimeoutFlag", 55, 2, vfC14KUint},
		vfC14Field{"Expried", 57, 2, vfC14KUint},
		vfC14Field{"ExpriedFlag", 59, 2, vfC14KUint},
		vfC14Field{"Count", 61, 2, vfC14KUint},
		vfC14Field{"Rcount", 63, 1, vfC14KUint},
	)
}

// README response diagram:
//
//	row2: RequestId(16..18) Result(19) FLAG(20) DBID(21) LockId(22..23)
//	row3: LockId(24..31)
//	row4: LockId(32..37) LockKey(38..39)
//	row5: LockKey(40..47)
//	row6: LockKey(48..53) LCount(54..55)
//	row7: Count(56..57) LRCount(58) RCount(59) PADDING(60..63)
func vfC14LockResultFields() []vfC14Field {
	return vfC14With(true,
		vfC14Field{"Flag", 20, 1, vfC14KUint},
		vfC14Field{"DbId", 21, 1, vfC14KUint},
		vfC14Field{"LockId", 22, 16, vfC14KBytes},
		vfC14Field{"LockKey", 38, 16, vfC14KBytes},
		vfC14Field{"Lcount", 54, 2, vfC14KUint},
		vfC14Field{"Count", 56, 2, vfC14KUint},
		vfC14Field{"Lrcount", 58, 1, vfC14KUint},
		vfC14Field{"Rcount", 59, 1, vfC14KUint},
	)
}

func vfC14Types() []*vfC14Type {
	return []*vfC14Type{
		{"Command", vfC14Pinned, vfC14With(false), func() vfC14Codec { return &protocol.Command{} }},
		{"ResultCommand", vfC14Pinned, vfC14With(true), func() vfC14Codec { return &protocol.ResultCommand{} }},
		{"InitCommand", vfC14Pinned, vfC14With(false, vfC14Field{"ClientId", 19, 16, vfC14KBytes}), func() vfC14Codec { return &protocol.InitCommand{} }},
		{"InitResultCommand", vfC14Pinned, vfC14With(true, vfC14Field{"InitType", 20, 1, vfC14KUint}), func() vfC14Codec { return &protocol.InitResultCommand{} }},
		{"LockCommand", vfC14ReadmeReq, vfC14LockFields(), func() vfC14Codec { return &protocol.LockCommand{} }},
		{"LockResultCommand", vfC14ReadmeRes, vfC14LockResultFields(), func() vfC14Codec { return &protocol.LockResultCommand{} }},
		{"StateCommand", vfC14Pinned, vfC14With(false, vfC14Field{"Flag", 19, 1, vfC14KUint}, vfC14Field{"DbId", 20, 1, vfC14KUint}), func() vfC14Codec { return &protocol.StateCommand{} }},
		{"StateResultCommand", vfC14Pinned + "; LockDBState counters in the pinned wire order, KeyCount last, SlowKeyCount not carried",
			vfC14With(true,
				vfC14Field{"Flag", 20, 1, vfC14KUint},
				vfC14Field{"DbState", 21, 1, vfC14KUint},
				vfC14Field{"DbId", 22, 1, vfC14KUint},
				vfC14Field{"State.LockCount", 23, 8, vfC14KUint},
				vfC14Field{"State.UnLockCount", 31, 8, vfC14KUint},
				vfC14Field{"State.LockedCount", 39, 4, vfC14KUint},
				vfC14Field{"State.WaitCount", 43, 4, vfC14KUint},
				vfC14Field{"State.TimeoutedCount", 47, 4, vfC14KUint},
				vfC14Field{"State.ExpriedCount", 51, 4, vfC14KUint},
				vfC14Field{"State.UnlockErrorCount", 55, 4, vfC14KUint},
				vfC14Field{"State.KeyCount", 59, 4, vfC14KUint},
			), func() vfC14Codec { return &protocol.StateResultCommand{} }},
		{"AdminCommand", vfC14Pinned, vfC14With(false, vfC14Field{"AdminType", 19, 1, vfC14KUint}), func() vfC14Codec { return &protocol.AdminCommand{} }},
		{"AdminResultCommand", vfC14Pinned, vfC14With(true), func() vfC14Codec { return &protocol.AdminResultCommand{} }},
		{"PingCommand", vfC14Pinned, vfC14With(false), func() vfC14Codec { return &protocol.PingCommand{} }},
		{"PingResultCommand", vfC14Pinned, vfC14With(true), func() vfC14Codec { return &protocol.PingResultCommand{} }},
		{"QuitCommand", vfC14Pinned, vfC14With(false), func() vfC14Codec { return &protocol.QuitCommand{} }},
		{"QuitResultCommand", vfC14Pinned, vfC14With(true), func() vfC14Codec { return &protocol.QuitResultCommand{} }},
		{"CallCommand", vfC14Pinned + "; MethodName NUL padded to 38 bytes (bound in CallCommand.Encode)",
			vfC14With(false,
				vfC14Field{"Flag", 19, 1, vfC14KUint},
				vfC14Field{"Encoding", 20, 1, vfC14KUint},
				vfC14Field{"Charset", 21, 1, vfC14KUint},
				vfC14Field{"ContentLen", 22, 4, vfC14KUint},
				vfC14Field{"MethodName", 26, 38, vfC14KStrz},
			), func() vfC14Codec { return &protocol.CallCommand{} }},
		{"CallResultCommand", vfC14Pinned + "; ErrType NUL padded to 37 bytes (bound in CallResultCommand.Encode)",
			vfC14With(true,
				vfC14Field{"Flag", 20, 1, vfC14KUint},
				vfC14Field{"Encoding", 21, 1, vfC14KUint},
				vfC14Field{"Charset", 22, 1, vfC14KUint},
				vfC14Field{"ContentLen", 23, 4, vfC14KUint},
				vfC14Field{"ErrType", 27, 37, vfC14KStrz},
			), func() vfC14Codec { return &protocol.CallResultCommand{} }},
		{"LeaderCommand", vfC14Pinned, vfC14With(false, vfC14Field{"Flag", 19, 1, vfC14KUint}), func() vfC14Codec { return &protocol.LeaderCommand{} }},
		{"LeaderResultCommand", vfC14Pinned + "; Host is HostLen bytes at 21, at most 43 (bound in LeaderResultCommand.Encode)",
			vfC14With(true,
				vfC14Field{"HostLen", 20, 1, vfC14KUint},
				vfC14Field{"Host", 21, 43, vfC14KHost},
			), func() vfC14Codec { return &protocol.LeaderResultCommand{} }},
		{"SubscribeCommand", vfC14Pinned,
			vfC14With(false,
				vfC14Field{"Flag", 19, 1, vfC14KUint},
				vfC14Field{"ClientId", 20, 4, vfC14KUint},
				vfC14Field{"SubscribeId", 24, 4, vfC14KUint},
				vfC14Field{"SubscribeType", 28, 1, vfC14KUint},
				vfC14Field{"LockKeyMask", 29, 16, vfC14KBytes},
				vfC14Field{"Expried", 45, 4, vfC14KUint},
				vfC14Field{"MaxSize", 49, 4, vfC14KUint},
			), func() vfC14Codec { return &protocol.SubscribeCommand{} }},
		{"SubscribeResultCommand", vfC14Pinned,
			vfC14With(true,
				vfC14Field{"Flag", 20, 1, vfC14KUint},
				vfC14Field{"ClientId", 21, 4, vfC14KUint},
				vfC14Field{"SubscribeId", 25, 4, vfC14KUint},
			), func() vfC14Codec { return &protocol.SubscribeResultCommand{} }},
	}
}

// ---------------------------------------------------------------- reflection access

func vfC14FieldValue(obj interface{}, path string) reflect.Value {
	v := reflect.ValueOf(obj)
	if v.Kind() == reflect.Ptr {
		v = v.Elem()
	}
	for _, p := range strings.Split(path, ".") {
		v = v.FieldByName(p)
		if !v.IsValid() {
			panic("vf: C14 table names a field the struct does not have: " + path)
		}
	}
	return v
}

// vfC14Set stores the value (given as its wire bytes, little endian for
// integers) into the struct field.
func vfC14Set(obj interface{}, f vfC14Field, val []byte) {
	v := vfC14FieldValue(obj, f.Name)
	switch f.Kind {
	case vfC14KUint:
		var x uint64
		for i := len(val) - 1; i >= 0; i-- {
			x = x<<8 | uint64(val[i])
		}
		v.SetUint(x)
	case vfC14KBytes:
		for i := 0; i < f.Len; i++ {
			v.Index(i).SetUint(uint64(val[i]))
		}
	case vfC14KStrz, vfC14KHost:
		v.SetString(string(val))
	}
}

// vfC14Get returns the field value in the same representation vfC14Set takes.
func vfC14Get(obj interface{}, f vfC14Field) []byte {
	v := vfC14FieldValue(obj, f.Name)
	switch f.Kind {
	case vfC14KUint:
		x := v.Uint()
		out := make([]byte, f.Len)
		for i := 0; i < f.Len; i++ {
			out[i] = byte(x >> (8 * uint(i)))
		}
		return out
	case vfC14KBytes:
		out := make([]byte, f.Len)
		for i := 0; i < f.Len; i++ {
			out[i] = byte(v.Index(i).Uint())
		}
		return out
	}
	return []byte(v.String())
}

// vfC14Wire: the bytes the table says the frame carries for the value at
// [f.Off, f.Off+n).
func vfC14Wire(f vfC14Field, val []byte) []byte {
	switch f.Kind {
	case vfC14KStrz:
		out := make([]byte, f.Len)
		copy(out, val)
		return out
	}
	return val
}

// vfC14Mask marks the bytes of the frame that the type defines.
func vfC14Mask(t *vfC14Type) [64]bool {
	var m [64]bool
	for _, f := range t.Fields {
		if f.Kind == vfC14KHost {
			continue // data dependent, handled by the caller
		}
		for i := 0; i < f.Len; i++ {
			m[f.Off+i] = true
		}
	}
	return m
}

// ---------------------------------------------------------------- key / id normalisation (README)

func vfC14IsHex(s string) bool {
	for i := 0; i < len(s); i++ {
		c := s[i]
		if !((c >= '0' && c <= '9') || (c >= 'a' && c <= 'f') || (c >= 'A' && c <= 'F')) {
			return false
		}
	}
	return true
}

func vfC14HexNibble(c byte) byte {
	switch {
	case c >= '0' && c <= '9':
		return c - '0'
	case c >= 'a' && c <= 'f':
		return c - 'a' + 10
	}
	return c - 'A' + 10
}

// vfC14NormKey: README "LOCK_KEY ... length 16 bytes, less than 16 front plus
// 0x00 to make up, 32 bytes is to try hex decoding, more than 16 bytes to take
// MD5".
func vfC14NormKey(s string) [16]byte {
	var k [16]byte
	switch {
	case len(s) <= 16:
		copy(k[16-len(s):], s)
	case len(s) == 32 && vfC14IsHex(s):
		for i := 0; i < 16; i++ {
			k[i] = vfC14HexNibble(s[2*i])<<4 | vfC14HexNibble(s[2*i+1])
		}
	default:
		k = md5.Sum([]byte(s))
	}
	return k
}

func vfC14Hex(b []byte) string { return fmt.Sprintf("%x", b) }
