//go:build verif

package server

// C14: wire codecs are lossless and independent of framing.
//
// Runtime monitors: round trips and differential comparison against the
// independent tables of vfc14_tables_test.go. Case i draws its PRNG from
// vfCaseRand(seed,"C14",i) and runs one sub-check chosen by the first draw k in
// 0..19 of that PRNG:
//
//	0-4   enc    struct -> Encode -> table offsets -> Decode -> struct
//	5-8   dec    64 bytes -> Decode -> Encode -> defined bytes reproduced
//	9-11  treq   argument lists -> BuildRequest -> every split -> ParseRequest
//	12-13 tresp  responses -> BuildResponse -> every split -> ParseResponse
//	14-16 bin    LOCK frames through BinaryServerProtocol.Process (inlined codec)
//	17-18 eq     text LOCK/UNLOCK vs binary equivalent, key/id normalisation
//	19    misc   result-code rendering / stream codec / first frame / id converters

import (
	"bytes"
	"encoding/json"
	"fmt"
	"os"
	"reflect"
	"sort"
	"testing"
	"time"

	"github.com/snower/slock/protocol"
)

// ---------------------------------------------------------------- reporting

type vfC14Ctx struct {
	env    *vfEnv
	part   *vfPart
	i      int
	rng    *vfRand
	stride int
	nrep   int
}

var vfC14SigSeen = map[string]int{}

// report files a violation. Every signature is reported a bounded number of
// times per process (shard); later repeats are only counted, so that a defect
// that shows on many inputs does not stop the shard (vfRunSharded stops a shard
// at 20 violations).
func (c *vfC14Ctx) report(sub, clause, sig, detail string, doc map[string]interface{}, limit int) {
	c.part.Add("mismatch_"+sub, 1)
	vfC14SigSeen[sig]++
	if vfC14SigSeen[sig] > limit {
		c.part.Add("repeat["+sig+"]", 1)
		return
	}
	if doc == nil {
		doc = map[string]interface{}{}
	}
	doc["case"] = c.i
	doc["seed"] = c.env.Seed
	doc["tier"] = c.env.Tier
	doc["subcheck"] = sub
	doc["clause"] = clause
	doc["signature"] = sig
	doc["detail"] = detail
	c.nrep++
	rp := vfWriteReplay(c.env, fmt.Sprintf("case%d-%s-%d.json", c.i, sub, c.nrep), doc)
	c.part.Violate(vfViolation{Prop: "C14", Clause: clause, Detail: detail, Case: c.i, Replay: rp, Sig: sig})
}

func (c *vfC14Ctx) nontrivial(sub string, input []byte) {
	c.part.Add("nontrivial_cases", 1)
	if c.stride <= 1 || c.i%c.stride == 0 {
		h := vfStrHash(sub)
		for _, b := range input {
			h = (h ^ uint64(b)) * 1099511628211
		}
		c.part.Mark("nontrivial", vfMix(h))
	}
}

func vfC14Garbage(r *vfRand) []byte {
	b := make([]byte, 64) // capacity exactly 64: a codec reaching past the frame faults
	for i := range b {
		b[i] = byte(r.U64()) | 1 // never zero, so missing zero padding shows as buffer dependence
	}
	return b
}

// ---------------------------------------------------------------- (1) encode vs table

func vfC14GenValue(r *vfRand, f vfC14Field) []byte {
	switch f.Kind {
	case vfC14KUint:
		v := r.Bytes(f.Len)
		switch r.Intn(10) {
		case 0:
			for i := range v {
				v[i] = 0
			}
		case 1:
			for i := range v {
				v[i] = 0xff
			}
		}
		return v
	case vfC14KBytes:
		return r.Bytes(f.Len)
	case vfC14KStrz:
		n := r.Range(0, f.Len)
		switch r.Intn(10) {
		case 0:
			n = f.Len
		case 1:
			n = 0
		}
		v := r.Bytes(n)
		for i := range v {
			if v[i] == 0 {
				v[i] = 'a' // NUL is the pad byte and cannot be part of a name
			}
		}
		return v
	case vfC14KHost:
		n := r.Range(0, f.Len)
		if r.Chance(10) {
			n = f.Len
		}
		return r.Bytes(n)
	}
	return nil
}

// vfC14Fill builds a struct of type t with PRNG values and returns it with the
// values (wire representation) per field.
func vfC14Fill(r *vfRand, t *vfC14Type) (vfC14Codec, map[string][]byte) {
	obj := t.New()
	vals := map[string][]byte{}
	for _, f := range t.Fields {
		vals[f.Name] = vfC14GenValue(r, f)
	}
	if h, ok := vals["Host"]; ok {
		vals["HostLen"] = []byte{byte(len(h))}
	}
	for _, f := range t.Fields {
		vfC14Set(obj, f, vals[f.Name])
	}
	return obj, vals
}

// vfC14TableFrame: the frame the TABLE says carries the values (padding zero).
func vfC14TableFrame(t *vfC14Type, vals map[string][]byte) []byte {
	b := make([]byte, 64)
	for _, f := range t.Fields {
		copy(b[f.Off:], vfC14Wire(f, vals[f.Name]))
	}
	return b
}

func (c *vfC14Ctx) subEncode(types []*vfC14Type) {
	r := c.rng
	t := types[r.Intn(len(types))]
	obj, vals := vfC14Fill(r, t)
	bufA, bufB := vfC14Garbage(r), vfC14Garbage(r)
	c.part.Add("enc_cases", 1)
	c.part.Add("enc_type_"+t.Name, 1)
	doc := func(extra map[string]interface{}) map[string]interface{} {
		d := map[string]interface{}{"type": t.Name, "table_source": t.Source, "values_hex": vfC14HexMap(vals)}
		for k, v := range extra {
			d[k] = v
		}
		return d
	}
	if err := obj.Encode(bufA); err != nil {
		c.report("enc", "encode-error", "encode:"+t.Name+":error", fmt.Sprintf("%s.Encode of in-range values failed: %v", t.Name, err), doc(nil), 2)
		return
	}
	_ = obj.Encode(bufB)
	if !bytes.Equal(bufA, bufB) {
		c.report("enc", "encode-depends-on-buffer", "encode:"+t.Name+":buffer-dependent", fmt.Sprintf("%s.Encode leaves bytes of the 64-byte frame unwritten: two encodings of the same value differ (%x vs %x)", t.Name, bufA, bufB), doc(map[string]interface{}{"frame_a": vfC14Hex(bufA), "frame_b": vfC14Hex(bufB)}), 2)
	}
	for _, f := range t.Fields {
		want := vfC14Wire(f, vals[f.Name])
		got := bufA[f.Off : f.Off+len(want)]
		c.part.Add("enc_fields_compared", 1)
		if !bytes.Equal(got, want) {
			c.report("enc", "encode-offset", "encode:"+t.Name+"."+f.Name, fmt.Sprintf("%s.Encode: field %s expected at bytes [%d,%d) = %x (table: %s) but frame has %x; frame=%x", t.Name, f.Name, f.Off, f.Off+len(want), want, t.Source, got, bufA), doc(map[string]interface{}{"frame": vfC14Hex(bufA), "field": f.Name, "expected": vfC14Hex(want), "got": vfC14Hex(got)}), 2)
		}
	}
	dec := t.New()
	// decode the frame the TABLE defines (not the codec's own output)
	frame := vfC14TableFrame(t, vals)
	if err := dec.Decode(frame); err != nil {
		c.report("enc", "decode-error", "decode:"+t.Name+":error", fmt.Sprintf("%s.Decode of a valid frame failed: %v", t.Name, err), doc(map[string]interface{}{"frame": vfC14Hex(frame)}), 2)
		return
	}
	for _, f := range t.Fields {
		got := vfC14Get(dec, f)
		c.part.Add("enc_fields_compared", 1)
		if !bytes.Equal(got, vals[f.Name]) {
			c.report("enc", "decode-offset", "decode:"+t.Name+"."+f.Name, fmt.Sprintf("%s.Decode: field %s = %x, the frame carries %x at [%d,%d); frame=%x", t.Name, f.Name, got, vals[f.Name], f.Off, f.Off+f.Len, frame), doc(map[string]interface{}{"frame": vfC14Hex(frame), "field": f.Name, "expected": vfC14Hex(vals[f.Name]), "got": vfC14Hex(got)}), 2)
		}
	}
	if !reflect.DeepEqual(obj, dec) {
		c.report("enc", "roundtrip-struct", "roundtrip:"+t.Name, fmt.Sprintf("%s: decoded struct differs from the encoded one: %+v vs %+v", t.Name, dec, obj), doc(map[string]interface{}{"frame": vfC14Hex(frame)}), 2)
	}
	c.nontrivial("enc:"+t.Name, bufA)
	c.part.Sample(2, map[string]interface{}{"subcheck": "enc", "case": c.i, "type": t.Name, "frame": vfC14Hex(bufA)})
}

func vfC14HexMap(m map[string][]byte) map[string]string {
	out := map[string]string{}
	for k, v := range m {
		out[k] = vfC14Hex(v)
	}
	return out
}

// ---------------------------------------------------------------- (2) decode -> encode

func vfC14SafeDecode(o vfC14Codec, b []byte) (err error, panicked string) {
	defer func() {
		if r := recover(); r != nil {
			panicked = fmt.Sprint(r)
		}
	}()
	err = o.Decode(b)
	return
}

func (c *vfC14Ctx) subDecode(types []*vfC14Type) {
	r := c.rng
	t := types[r.Intn(len(types))]
	var in []byte
	mode := "random"
	if r.Chance(50) {
		in = make([]byte, 64)
		copy(in, r.Bytes(64))
	} else {
		mode = "mutated-valid"
		_, vals := vfC14Fill(r, t)
		in = vfC14TableFrame(t, vals)
		for k := r.Range(0, 3); k > 0; k-- {
			in[r.Intn(64)] = byte(r.U64())
		}
	}
	c.part.Add("dec_cases", 1)
	c.part.Add("dec_type_"+t.Name, 1)
	doc := map[string]interface{}{"type": t.Name, "mode": mode, "input": vfC14Hex(in)}
	hostLen := -1
	for _, f := range t.Fields {
		if f.Kind == vfC14KHost {
			hostLen = int(in[f.Off-1])
		}
	}
	saved := append([]byte(nil), in...)
	dec := t.New()
	err, pan := vfC14SafeDecode(dec, in)
	if pan != "" {
		if hostLen > 43 {
			c.part.Add("dec_panics_hostlen", 1)
			c.report("dec", "decode-panic", "decode-panic:LeaderResultCommand.Decode:HostLen>43", fmt.Sprintf("LeaderResultCommand.Decode panics on a 64-byte frame whose HostLen byte (offset 20) is %d > 43: %s; frame=%x", hostLen, pan, saved), doc, 1)
		} else {
			c.report("dec", "decode-panic", "decode-panic:"+t.Name, fmt.Sprintf("%s.Decode panics on a 64-byte input: %s; frame=%x", t.Name, pan, saved), doc, 2)
		}
		return
	}
	if err != nil {
		c.part.Add("dec_rejected", 1)
		return
	}
	if !bytes.Equal(in, saved) {
		c.report("dec", "decode-writes-input", "decode:"+t.Name+":modifies-input", fmt.Sprintf("%s.Decode modified its input buffer", t.Name), doc, 2)
	}
	out := vfC14Garbage(r)
	if e := dec.Encode(out); e != nil {
		c.report("dec", "encode-rejects-decoded", "decode-encode:"+t.Name+":encode-error", fmt.Sprintf("%s: Encode of a successfully decoded frame failed: %v; frame=%x", t.Name, e, saved), doc, 2)
		return
	}
	doc["output"] = vfC14Hex(out)
	c.part.Add("dec_frames_compared", 1)
	for _, f := range t.Fields {
		n := f.Len
		if f.Kind == vfC14KHost {
			n = hostLen
		}
		a, b := in[f.Off:f.Off+n], out[f.Off:f.Off+n]
		c.part.Add("dec_bytes_compared", int64(n))
		if bytes.Equal(a, b) {
			continue
		}
		if f.Kind == vfC14KStrz && a[0] == 0 {
			c.part.Add("dec_strz_leading_nul", 1)
			c.report("dec", "decode-encode-bytes", "decode-encode:"+t.Name+"."+f.Name+":leading-NUL-stripped", fmt.Sprintf("%s: decode-then-encode does not reproduce the %s field [%d,%d): input %x, output %x (Decode trims NUL bytes on BOTH sides, Encode left-aligns the rest)", t.Name, f.Name, f.Off, f.Off+n, a, b), doc, 1)
			continue
		}
		c.report("dec", "decode-encode-bytes", "decode-encode:"+t.Name+"."+f.Name, fmt.Sprintf("%s: decode-then-encode does not reproduce field %s at [%d,%d): input %x, output %x; frame=%x", t.Name, f.Name, f.Off, f.Off+n, a, b, saved), doc, 2)
	}
	dec2 := t.New()
	if e, p := vfC14SafeDecode(dec2, out); e != nil || p != "" || !reflect.DeepEqual(dec, dec2) {
		c.report("dec", "decode-encode-decode", "decode-encode-decode:"+t.Name, fmt.Sprintf("%s: decoding the re-encoded frame gives a different value: %+v vs %+v (err=%v panic=%s)", t.Name, dec2, dec, e, p), doc, 2)
	}
	c.nontrivial("dec:"+t.Name, saved)
	c.part.Sample(3, map[string]interface{}{"subcheck": "dec", "case": c.i, "type": t.Name, "mode": mode, "input": vfC14Hex(saved)})
}

// ---------------------------------------------------------------- (3) text parser

type vfC14Parsed struct {
	Args    []string // request arguments or response results
	ErrType string
	Msg     string
}

func (p vfC14Parsed) equal(o vfC14Parsed) bool {
	if p.ErrType != o.ErrType || p.Msg != o.Msg || len(p.Args) != len(o.Args) {
		return false
	}
	for i := range p.Args {
		if p.Args[i] != o.Args[i] {
			return false
		}
	}
	return true
}

func vfC14Short(s string) string {
	if len(s) > 48 {
		return fmt.Sprintf("%x…(%d bytes)", s[:32], len(s))
	}
	return fmt.Sprintf("%x", s)
}

func (p vfC14Parsed) String() string {
	s := "["
	for i, a := range p.Args {
		if i > 0 {
			s += " "
		}
		s += vfC14Short(a)
	}
	s += "]"
	if p.ErrType != "" || p.Msg != "" {
		s += fmt.Sprintf(" err=%x msg=%x", p.ErrType, p.Msg)
	}
	return s
}

// vfC14Drive feeds the chunks to a fresh parser exactly the way
// TextServerProtocol.Process / TextClientProtocol.Read do: when the read buffer
// is consumed the next chunk is placed at its start (ReadFromConn(rbuf) +
// BufferUpdate(n)), ParseRequest/ParseResponse is called, and on
// IsParseFinish() the arguments are taken and Reset() is called.
var vfC14RBuf, vfC14WBuf = make([]byte, 1024), make([]byte, 1024)

func vfC14Drive(chunks [][]byte, response bool) (out []vfC14Parsed, complete bool, perr error, herr string) {
	// fresh parser state per run; the two 1024-byte buffers are reused (a
	// connection's buffer holds stale bytes of earlier reads as well)
	parser := protocol.NewTextParser(vfC14RBuf, vfC14WBuf)
	rbuf := parser.GetReadBuf()
	ci, total := 0, 0
	for _, ch := range chunks {
		total += len(ch)
	}
	for iter := 0; ; iter++ {
		if iter > 4*total+64 {
			return out, false, fmt.Errorf("parser makes no progress"), ""
		}
		if parser.IsBufferEnd() {
			if ci == len(chunks) {
				break
			}
			ch := chunks[ci]
			ci++
			if len(ch) == 0 || len(ch) > len(rbuf) {
				return out, false, nil, fmt.Sprintf("harness: chunk of %d bytes for a read buffer of %d", len(ch), len(rbuf))
			}
			n := copy(rbuf, ch)
			parser.BufferUpdate(n)
		}
		var err error
		if response {
			err = parser.ParseResponse()
		} else {
			err = parser.ParseRequest()
		}
		if err != nil {
			return out, false, err, ""
		}
		if parser.IsParseFinish() {
			if response {
				cmd, gerr := parser.GetResponseCommand()
				if gerr != nil {
					return out, false, gerr, ""
				}
				out = append(out, vfC14Parsed{Args: append([]string{}, cmd.Results...), ErrType: cmd.ErrorType, Msg: cmd.Message})
			} else {
				out = append(out, vfC14Parsed{Args: append([]string{}, parser.GetArgs()...)})
			}
			parser.Reset()
		}
	}
	return out, parser.IsParseFinish(), nil, ""
}

func vfC14Chunks(stream []byte, bounds []int) [][]byte {
	var out [][]byte
	prev := 0
	for _, b := range bounds {
		out = append(out, stream[prev:b])
		prev = b
	}
	return append(out, stream[prev:])
}

type vfC14Span struct{ S, E int } // bulk body [S,E)

type vfC14Line struct {
	CR    int // position of the line's "\r"
	Space int // position of the error-type/message separator, -1 if none
	Empty bool
}

type vfC14Stream struct {
	Bytes  []byte
	Want   []vfC14Parsed
	Bulks  []vfC14Span
	Lines  []vfC14Line
	Edges  []int // token boundaries (interesting split positions)
	Binary bool
}

func vfC14GenArg(r *vfRand, big *bool) string {
	n := 0
	switch k := r.Intn(100); {
	case k < 15:
		n = 0
	case k < 75:
		n = r.Range(1, 12)
	case k < 93:
		n = r.Range(13, 80)
	default:
		n = r.Range(81, 700)
	}
	if *big {
		*big = false
		n = []int{65536, 65535, 4096, 1024, 1023, 1025, 30000}[r.Intn(7)]
	}
	b := make([]byte, n)
	mode := r.Intn(4)
	special := []byte("\r\n$*+-: \x00")
	for i := range b {
		switch mode {
		case 0:
			b[i] = byte(r.U64())
		case 1:
			b[i] = "abcdefghijklmnopqrstuvwxyzABCDEFGHIJKLMNOPQRSTUVWXYZ0123456789_"[r.Intn(63)]
		case 2:
			b[i] = special[r.Intn(len(special))]
		default:
			if r.Chance(30) {
				b[i] = special[r.Intn(len(special))]
			} else {
				b[i] = byte(r.U64())
			}
		}
	}
	return string(b)
}

func vfC14GenLineText(r *vfRand, noSpace bool, allowEmpty bool) string {
	n := r.Range(1, 24)
	if allowEmpty && r.Chance(3) {
		n = 0
	}
	b := make([]byte, n)
	for i := range b {
		for {
			ch := byte(r.U64())
			if r.Chance(70) {
				ch = "abcdefghijklmnopqrstuvwxyzABCDEFGHIJKLMNOPQRSTUVWXYZ0123456789_ "[r.Intn(64)]
			}
			if ch == '\r' || ch == '\n' || (noSpace && ch == ' ') {
				continue
			}
			b[i] = ch
			break
		}
	}
	return string(b)
}

func vfC14BuildRequestStream(r *vfRand, parser *protocol.TextParser, emptyList bool) *vfC14Stream {
	s := &vfC14Stream{}
	ncmd := 1
	if r.Chance(35) {
		ncmd = r.Range(2, 3)
	}
	big := r.Intn(150) == 0
	if emptyList {
		ncmd = 1
	}
	for k := 0; k < ncmd; k++ {
		nargs := r.Range(1, 8)
		if r.Chance(10) {
			nargs = r.Range(9, 20)
		}
		if emptyList {
			nargs = 0
		}
		args := make([]string, nargs)
		for i := range args {
			args[i] = vfC14GenArg(r, &big)
		}
		enc := parser.BuildRequest(args)
		base := len(s.Bytes)
		s.Bytes = append(s.Bytes, enc...)
		s.Want = append(s.Want, vfC14Parsed{Args: args})
		// locate the bulk bodies independently of BuildRequest's structure:
		// header "*<n>\r\n" then "$<len>\r\n<body>\r\n" per argument
		pos := base + len(fmt.Sprintf("*%d\r\n", nargs))
		s.Edges = append(s.Edges, base, base+1, pos)
		for _, a := range args {
			pos += len(fmt.Sprintf("$%d\r\n", len(a)))
			s.Bulks = append(s.Bulks, vfC14Span{pos, pos + len(a)})
			s.Edges = append(s.Edges, pos-2, pos-1, pos, pos+len(a), pos+len(a)+1, pos+len(a)+2)
			pos += len(a) + 2
			for _, c := range []byte(a) {
				if c < 0x20 || c >= 0x7f {
					s.Binary = true
				}
			}
		}
	}
	return s
}

func vfC14BuildResponseStream(r *vfRand, parser *protocol.TextParser) *vfC14Stream {
	s := &vfC14Stream{}
	n := 1
	if r.Chance(35) {
		n = r.Range(2, 3)
	}
	big := r.Intn(150) == 0
	for k := 0; k < n; k++ {
		base := len(s.Bytes)
		switch kind := r.Intn(10); {
		case kind < 2: // +status
			msg := vfC14GenLineText(r, false, true)
			s.Bytes = append(s.Bytes, parser.BuildResponse(true, msg, nil)...)
			s.Want = append(s.Want, vfC14Parsed{Args: []string{msg}})
			cr := base + 1 + len(msg)
			s.Lines = append(s.Lines, vfC14Line{CR: cr, Space: -1, Empty: msg == ""})
			s.Edges = append(s.Edges, base+1, cr, cr+1, cr+2)
		case kind < 4: // -ERRTYPE message
			et := vfC14GenLineText(r, true, false)
			line := et
			want := vfC14Parsed{Args: []string{}, ErrType: et}
			sp := -1
			empty := false
			if r.Chance(80) {
				msg := vfC14GenLineText(r, false, true)
				line = et + " " + msg
				want.Msg = msg
				sp = base + 1 + len(et)
				empty = msg == ""
			}
			s.Bytes = append(s.Bytes, parser.BuildResponse(false, line, nil)...)
			s.Want = append(s.Want, want)
			cr := base + 1 + len(line)
			s.Lines = append(s.Lines, vfC14Line{CR: cr, Space: sp, Empty: empty})
			s.Edges = append(s.Edges, base+1, cr, cr+1, cr+2)
			if sp >= 0 {
				s.Edges = append(s.Edges, sp, sp+1)
			}
		default: // result array: 1 result = bulk string, >= 2 = array
			nres := r.Range(1, 8)
			if r.Chance(20) {
				nres = 1
			}
			res := make([]string, nres)
			for i := range res {
				res[i] = vfC14GenArg(r, &big)
			}
			s.Bytes = append(s.Bytes, parser.BuildResponse(true, "ignored", res)...)
			s.Want = append(s.Want, vfC14Parsed{Args: res})
			pos := base
			if nres > 1 {
				pos += len(fmt.Sprintf("*%d\r\n", nres))
			}
			s.Edges = append(s.Edges, base, base+1, pos)
			for _, a := range res {
				pos += len(fmt.Sprintf("$%d\r\n", len(a)))
				s.Bulks = append(s.Bulks, vfC14Span{pos, pos + len(a)})
				s.Edges = append(s.Edges, pos-2, pos-1, pos, pos+len(a), pos+len(a)+1, pos+len(a)+2)
				pos += len(a) + 2
				for _, c := range []byte(a) {
					if c < 0x20 || c >= 0x7f {
						s.Binary = true
					}
				}
			}
		}
	}
	return s
}

// vfC14Splits lists the boundary sets to try for a stream of `total` bytes.
func vfC14Splits(r *vfRand, total int, edges []int) [][]int {
	var out [][]int
	if total <= 1024 {
		out = append(out, nil)
	}
	if total <= 300 {
		for b := 1; b < total; b++ {
			out = append(out, []int{b})
		}
		if total <= 48 {
			for a := 1; a < total; a++ {
				for b := a + 1; b < total; b++ {
					out = append(out, []int{a, b})
				}
			}
		}
	}
	walk := func(next func(pos int) int) {
		var bs []int
		pos := 0
		for {
			step := next(pos)
			if step < 1 {
				step = 1
			}
			if step > 1024 {
				step = 1024
			}
			pos += step
			if pos >= total {
				break
			}
			bs = append(bs, pos)
		}
		out = append(out, bs)
	}
	nrand := 3
	if total > 300 {
		nrand = 6
	}
	for k := 0; k < nrand; k++ {
		switch k % 6 {
		case 0:
			if total <= 16384 {
				walk(func(int) int { return r.Range(1, 64) })
			} else { // the parser appends piecewise: keep huge arguments to ~100 pieces
				walk(func(int) int { return r.Range(256, 1024) })
			}
		case 1:
			walk(func(int) int { return r.Range(1, 1024) })
		case 2:
			if total <= 8192 {
				walk(func(int) int { return r.Range(1, 8) })
			} else {
				walk(func(int) int { return r.Range(512, 1024) })
			}
		case 3:
			walk(func(int) int { return 1024 })
		case 4, 5:
			// boundaries at token edges: the next edge within reach, else a full buffer
			es := append([]int(nil), edges...)
			sort.Ints(es)
			walk(func(pos int) int {
				var cand []int
				for _, e := range es {
					if e > pos && e-pos <= 1024 && e < total {
						cand = append(cand, e)
					}
					if len(cand) >= 6 {
						break
					}
				}
				if len(cand) == 0 {
					return r.Range(1, 1024)
				}
				return cand[r.Intn(len(cand))] - pos
			})
		}
	}
	return out
}

func vfC14Has(bounds []int, p int) bool {
	for _, b := range bounds {
		if b == p {
			return true
		}
	}
	return false
}

// trigger predicates of the two split-dependent parser defects found on the
// unchanged tree; they only select the SIGNATURE of a mismatch, never whether
// a mismatch is reported.
func vfC14BulkTrigger(s *vfC14Stream, bounds []int) bool {
	for _, sp := range s.Bulks {
		if !vfC14Has(bounds, sp.E) && !vfC14Has(bounds, sp.E+1) {
			continue
		}
		for _, b := range bounds {
			if b > sp.S && b < sp.E {
				return true
			}
		}
	}
	return false
}

func vfC14LineTrigger(s *vfC14Stream, bounds []int) (split bool, empty bool) {
	for _, l := range s.Lines {
		if l.Empty {
			empty = true
		}
		if vfC14Has(bounds, l.CR) || vfC14Has(bounds, l.CR+1) || (l.Space >= 0 && vfC14Has(bounds, l.Space)) {
			split = true
		}
	}
	return
}

func (c *vfC14Ctx) subText(response bool) {
	r := c.rng
	builder := protocol.NewTextParser(make([]byte, 1024), make([]byte, 1024))
	sub, pfx := "treq", "text-parse-request"
	var s *vfC14Stream
	emptyList := false
	if response {
		sub, pfx = "tresp", "text-parse-response"
		s = vfC14BuildResponseStream(r, builder)
	} else {
		// Assumption (DESIGN.md, C14): a request is a command name followed by
		// its arguments, so request lists have at least one element. The empty
		// list "*0\r\n" has no command to yield and TextParser rejects it at
		// the next byte; empty *arguments* stay in the generator.
		_ = r.Intn(100)
		s = vfC14BuildRequestStream(r, builder, emptyList)
	}
	total := len(s.Bytes)
	splits := vfC14Splits(r, total, s.Edges)
	c.part.Add(sub+"_cases", 1)
	c.part.Max("max_"+sub+"_stream_bytes", int64(total))
	if total >= 65536 {
		c.part.Add(sub+"_streams_64k", 1)
	}
	crossing := false
	for _, bounds := range splits {
		c.part.Add(sub+"_splits", 1)
		if len(bounds) > 0 {
			crossing = true
		}
		if len(bounds) >= 2 {
			c.part.Add(sub+"_splits_3way_or_more", 1)
		}
		got, complete, perr, herr := vfC14Drive(vfC14Chunks(s.Bytes, bounds), response)
		if herr != "" {
			c.part.mu.Lock()
			c.part.Harness = append(c.part.Harness, herr)
			c.part.mu.Unlock()
			return
		}
		ok := perr == nil && complete && len(got) == len(s.Want)
		if ok {
			for k := range got {
				if !got[k].equal(s.Want[k]) {
					ok = false
				}
			}
		}
		if ok {
			continue
		}
		sig := pfx + ":mismatch"
		limit := 3
		lineSplit, lineEmpty := vfC14LineTrigger(s, bounds)
		switch {
		case emptyList:
			sig, limit = pfx+":empty-list-never-completes", 1
		case response && lineEmpty:
			sig, limit = pfx+":status-line:empty-text", 1
		case response && lineSplit:
			sig, limit = pfx+":status-line:extra-byte-at-read-boundary", 1
		case vfC14BulkTrigger(s, bounds):
			sig, limit = pfx+":bulk-body-ends-at-read-boundary-after-partial-read", 1
		}
		first := ""
		for k := 0; k < len(got) && k < len(s.Want); k++ {
			if !got[k].equal(s.Want[k]) {
				first = fmt.Sprintf("item %d: expected %s got %s", k, s.Want[k], got[k])
				break
			}
		}
		if first == "" {
			first = fmt.Sprintf("expected %d item(s), got %d, complete=%v", len(s.Want), len(got), complete)
		}
		sizes := []int{}
		for _, ch := range vfC14Chunks(s.Bytes, bounds) {
			sizes = append(sizes, len(ch))
		}
		if len(sizes) > 40 {
			sizes = sizes[:40]
		}
		streamHex := vfC14Hex(s.Bytes)
		if len(s.Bytes) > 4096 {
			streamHex = vfC14Hex(s.Bytes[:4096]) + "…"
		}
		wantS, gotS := []string{}, []string{}
		for _, w := range s.Want {
			wantS = append(wantS, w.String())
		}
		for _, g := range got {
			gotS = append(gotS, g.String())
		}
		c.report(sub, "split-independence", sig, fmt.Sprintf("%s: stream of %d bytes fed in chunks %v (boundaries %v): %s; parse error=%v", pfx, total, sizes, vfC14FirstN(bounds, 12), first, perr),
			map[string]interface{}{"stream": streamHex, "stream_text": vfTrunc(fmt.Sprintf("%q", s.Bytes), 600), "boundaries": vfC14FirstN(bounds, 200), "chunk_sizes": sizes, "expected": wantS, "got": gotS, "parse_error": fmt.Sprint(perr), "complete": complete}, limit)
		c.part.Add(sub+"_splits_failed", 1)
	}
	if (len(s.Want) > 0 && (len(s.Want[0].Args) >= 2 || s.Binary)) && crossing {
		c.nontrivial(sub, s.Bytes)
	}
	if total <= 200 {
		c.part.Sample(4, map[string]interface{}{"subcheck": sub, "case": c.i, "stream": fmt.Sprintf("%q", s.Bytes), "splits_tried": len(splits)})
	}
	if !response && r.Intn(50) == 0 {
		// inline (non-RESP) commands: the parser has no support for them
		_, _, perr, _ := vfC14Drive([][]byte{[]byte("PING\r\n")}, false)
		if perr != nil {
			c.part.Add("treq_inline_rejected_by_parser", 1)
		} else {
			c.part.Add("treq_inline_accepted", 1)
		}
	}
}

func vfC14FirstN(xs []int, n int) []int {
	if len(xs) > n {
		return xs[:n]
	}
	return xs
}

// ---------------------------------------------------------------- entry point

// vfC14Pick: the sub-check of a case is the first draw of its PRNG (not i%k, so
// that it is not correlated with the shard i%shards the case runs in).
func vfC14Pick(r *vfRand) string {
	switch k := r.Intn(20); {
	case k <= 4:
		return "enc"
	case k <= 8:
		return "dec"
	case k <= 11:
		return "treq"
	case k <= 13:
		return "tresp"
	case k <= 16:
		return "bin"
	case k <= 18:
		return "eq"
	}
	return []string{"render", "stream", "firstframe", "idfunc"}[r.Intn(4)]
}

var vfC14Assumptions = []string{
	"offset table: README.md 'Slock Binary Protocol' documents only the LOCK/UNLOCK request and response frames (used for LockCommand incl. WILL_LOCK/WILL_UNLOCK and LockResultCommand); all other frames are pinned as header + struct fields in declaration order, packed, little endian; the LockDBState counters (wire order LockCount, UnLockCount, LockedCount, WaitCount, TimeoutedCount, ExpriedCount, UnlockErrorCount, KeyCount - not the struct's declaration order) and the length-prefixed LeaderResult host are pinned from the wire order of Decode and checked against Encode",
	"fields without room in the 64-byte frame are not round-tripped: LockDBState.SlowKeyCount, Blank arrays, CallCommand.Data / CallResultCommand.Data / LockCommand.Data (carried after the frame, covered by the stream sub-check)",
	"CALL method names / error types are generated without NUL bytes (NUL is the pad byte); lengths 0..38 / 0..37 (bounds of CallCommand.Encode / CallResultCommand.Encode); LeaderResult host 0..43 bytes with HostLen = len(Host)",
	"decode->encode compares only the bytes covered by a table field; padding is not compared. Encode is additionally required to define all 64 bytes (two encodings into differently pre-filled buffers must be equal)",
	"text parser: driven like TextServerProtocol.Process / TextClientProtocol.Read (fresh parser with 1024-byte buffers, each chunk <= 1024 bytes copied to the start of the read buffer + BufferUpdate); every 2-way split for streams <= 300 bytes, every 3-way split for streams <= 48 bytes, PRNG and token-edge k-way splits otherwise; 1-3 pipelined commands / responses per stream; status and error lines are generated without CR/LF, error types without spaces; the parser has no inline-command syntax (probe counted, not a finding)",
	"server sub-checks use an in-process leader per shard process (manual clock, so nothing expires; replaced every 400 uses), connections are in-memory net.Conn objects whose Read hands out the prepared chunks, the protocols are driven through their Process() loops as Server.handle does; text requests of the equivalence sub-check are chunked at PRNG positions except the read pattern of the request-parser defect reported by the parser sub-check (an argument body read in pieces whose last piece ends the read), so that the two sub-checks report independently; fresh 16-byte keys per case, Flag 0, TimeoutFlag in {0,0x10}, ExpriedFlag in {0,0x40,0x200,0x240}, Expried >= 60, DbId in {0,1,2}; every case unlocks what it locked",
	"text COUNT / RCOUNT: README documents them as the maximum number of locks / re-entries, the binary fields mean one less (COUNT n == binary Count n-1, reply COUNT == binary reply Count+1); checked for COUNT 0..65535 and RCOUNT 0..255 (COUNT 0 / RCOUNT 0 behave as 1)",
	"first-frame sub-check: Server.checkProtocol (README: 'the first time the data received will distinguish between the protocol type') is given the first LOCK frame of a connection whole and in two reads; the statement names only the text parser for split independence, the title ('independent of framing') is read as covering the binary first frame as well",
	"distinct_nontrivial counts hashes of (sub-check, input bytes); in the thorough tier only every k-th case is hashed (k = cases/500000) to bound the evidence size, the counter nontrivial_cases has the full count",
}

func TestVerif_C14(t *testing.T) {
	start := time.Now()
	env := vfGetEnv("C14")
	if env.Replay != "" { // a replay document names the seed its case was drawn with
		var doc struct {
			Seed int64 `json:"seed"`
		}
		if b, err := os.ReadFile(env.Replay); err == nil && json.Unmarshal(b, &doc) == nil && doc.Seed != 0 {
			env.Seed = doc.Seed
		}
	}
	n := env.N(50000, 5000000)
	stride := n / 500000
	types := vfC14Types()
	only := os.Getenv("VERIF_C14_SUB") // debugging aid: run one sub-check only
	runCase := func(part *vfPart, i int) {
		c := &vfC14Ctx{env: env, part: part, i: i, rng: vfCaseRand(env.Seed, "C14", i), stride: stride}
		sub := vfC14Pick(c.rng)
		if only != "" && only != sub {
			return
		}
		switch sub {
		case "enc":
			c.subEncode(types)
		case "dec":
			c.subDecode(types)
		case "treq":
			c.subText(false)
		case "tresp":
			c.subText(true)
		case "bin":
			c.subBinary()
		case "eq":
			c.subEquiv()
		case "render":
			c.subRender()
		case "stream":
			c.subStream()
		case "firstframe":
			c.subFirstFrame()
		default:
			c.subIdFuncs()
		}
	}
	part := vfRunSharded(t, env, "TestVerif_C14", n, vfNumCPU(), runCase)
	if part == nil {
		return // shard child
	}
	spec := &vfSpec{Prop: "C14", Level: "exploration",
		Rule:       "case i = PRNG input splitmix(seed,'C14',i); its first draw k in 0..19 picks the sub-check (0-4 encode vs offset table, 5-8 decode->encode on random / mutated-valid 64-byte frames, 9-11 request parser splits, 12-13 response parser splits, 14-16 binary LOCK through BinaryServerProtocol.Process incl. split frames, 17-18 text vs binary LOCK/UNLOCK + key/id normalisation (key string length PRNG 0..64), 19 result-code rendering / stream codec with call bodies and value frames / first-frame detection / id converter functions); non-trivial = non-empty field values, argument lists with >= 2 arguments or binary bytes fed through at least one split that crosses the stream, frames that were granted and compared with the census; distinct = hash of (sub-check, input bytes)",
		NontrivSet: "nontrivial", Assumptions: vfC14Assumptions,
		Floors: []string{"enc_cases", "enc_fields_compared", "dec_frames_compared", "treq_splits", "treq_splits_3way_or_more", "tresp_splits", "bin_frames", "bin_split_variants", "bin_fields_compared", "eq_cases", "eq_fields_compared", "keynorm_server_checked", "keynorm_func_checked", "render_codes_checked", "stream_frames", "firstframe_cases"}}
	vfFinish(t, env, spec, part, start)
}
