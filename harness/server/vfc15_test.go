//go:build verif

package server

import (
	"testing"
	"time"
)

func init() {
	vfExtraCoreProps = append(vfExtraCoreProps, func(m map[string]*vfCoreProp, base vfProfile) {
		p := base
		p.Name = "c15"
		p.Typed = true
		p.DataPct = 70
		p.ShowPct = 18
		p.NKeys = [2]int{1, 2}
		p.NLockIds = [2]int{2, 5}
		p.UpdatePct = 10
		p.TickPct = 12
		m["C15"] = &vfCoreProp{Prop: "C15", Profile: p, Quick: 5000, Thorough: 200000,
			Rule: "case i = PRNG script splitmix(seed,'C15',i): 70% of the lock / re-lock / update / unlock requests of several LockIds of a key carry a type-consistent value operation (SET/UNSET/INCR/APPEND/SHIFT/PUSH/POP/PIPELINE, with and without property headers, shifts and pops beyond length, overflowing increments), 18% of the lock steps are show-queries; every reply's value frame is compared with a sequential reference interpreter; non-trivial = at least 5 value operations were executed and at least 5 replies compared; distinct = hash of the reply trace",
			Nontrivial: func(st map[string]int64) bool { return st["value_ops_applied"] >= 5 && st["value_replies_compared"] >= 5 },
			Floors:     []string{"value_ops_applied", "value_ops_refused", "value_replies_compared", "value_shift_beyond_length", "value_pop_beyond_length", "value_pipeline_multi"},
			Assumptions: append([]string{"value sequences are type-consistent (INCR on counters, APPEND/SHIFT on byte strings, PUSH/POP on arrays of non-empty elements); property headers are generated but their content is not compared; the value of a key that is not held is outside the property"}, vfCoreAssumptions...),
			Value: true}
	})
}

func init() {
	vfCoreStages["C15"] = func(env *vfEnv, part *vfPart, spec *vfSpec) {
		vfC15RedisStage(env, part)
		vfC15RedisExtendSpec(spec) // rule, floors, assumptions
	}
}

func TestVerif_C15(t *testing.T) {
	if env := vfGetEnv("C15"); env.Shard < 0 && vfC15RedisOwnsReplay(env) { // --replay of a replays/C15/redis/* file
		start := time.Now()
		part := vfNewPart()
		part.known = vfLoadKnown(env)
		vfC15RedisStage(env, part)
		spec := &vfSpec{Prop: "C15", Level: "exploration", NontrivSet: "redis_traces"}
		vfC15RedisExtendSpec(spec)
		spec.Floors = nil
		vfFinish(t, env, spec, part, start)
		return
	}
	vfRunCoreCheck(t, "C15")
}
