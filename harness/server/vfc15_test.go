//go:build verif

package server

import "testing"

func init() {
	vfExtraCoreProps = append(vfExtraCoreProps, func(m map[string]*vfCoreProp, base vfProfile) {
		p := base
		p.Name = "c15"
		p.Typed = true
		p.DataPct = 70
		p.ShowPct = 18
		p.NKeys = [2]int{1, 2}
		p.NLockIds = [2]int{2, 5}
		p.UpdatePct = 10
		p.TickPct = 12
		m["C15"] = &vfCoreProp{Prop: "C15", Profile: p, Quick: 5000, Thorough: 200000,
			Rule: "case i = PRNG script splitmix(seed,'C15',i): 70% of the lock / re-lock / update / unlock requests of several LockIds of a key carry a type-consistent value operation (SET/UNSET/INCR/APPEND/SHIFT/PUSH/POP/PIPELINE, with and without property headers, shifts and pops beyond length, overflowing increments), 18% of the lock steps are show-queries; every reply's value frame is compared with a sequential reference interpreter; non-trivial = at least 5 value operations were executed and at least 5 replies compared; distinct = hash of the reply trace",
			Nontrivial: func(st map[string]int64) bool { return st["value_ops_applied"] >= 5 && st["value_replies_compared"] >= 5 },
			Floors:     []string{"value_ops_applied", "value_ops_refused", "value_replies_compared", "value_shift_beyond_length", "value_pop_beyond_length", "value_pipeline_multi"},
			Assumptions: append([]string{"value sequences are type-consistent (INCR on counters, APPEND/SHIFT on byte strings, PUSH/POP on arrays of non-empty elements); property headers are generated but their content is not compared; the value of a key that is not held is outside the property"}, vfCoreAssumptions...),
			Value: true}
	})
}

func TestVerif_C15(t *testing.T) { vfRunCoreCheck(t, "C15") }
