//go:build verif

package server

import (
	"fmt"
	"os"
	"strings"
	"testing"

	"github.com/snower/slock/protocol"
)

// throw-away probe: VERIF_PROBE="SET a 1|GET a|TICK 3|..." prints the replies
func TestVerif_C15RedisProbe(t *testing.T) {
	script := os.Getenv("VERIF_PROBE")
	if script == "" {
		return
	}
	env := vfGetEnv("C15")
	srv, err := vfStartNetServer(vfInstCfg{Dir: vfScratchDir(env, "c15probe"), Manual: true, NDb: 1, DBConcurrent: 1, FastKeys: 4})
	if err != nil {
		t.Fatal(err)
	}
	defer srv.in.Close()
	conns := map[string]*vfTextConn{}
	for _, line := range strings.Split(script, "|") {
		args := strings.Fields(strings.TrimSpace(line))
		if len(args) == 0 {
			continue
		}
		cn := "c0"
		if strings.HasPrefix(args[0], "@") {
			cn = args[0][1:]
			args = args[1:]
		}
		for i := range args {
			if args[i] == `""` {
				args[i] = ""
			}
			args[i] = strings.ReplaceAll(args[i], `\r\n`, "\r\n")
		}
		if args[0] == "TICK" {
			n := 1
			fmt.Sscanf(args[1], "%d", &n)
			for j := 0; j < n; j++ {
				srv.in.tick(1, nil)
			}
			fmt.Printf("PROBE %-40s -> ticked\n", line)
			continue
		}
		if args[0] == "STATE" {
			cmd := &protocol.LockCommand{}
			protocol.NewTextCommandConverter().ConvertArgId2LockId(args[1], &cmd.LockKey)
			lm := srv.in.dbs[0].GetLockManager(cmd)
			if lm == nil {
				fmt.Printf("PROBE %-40s -> no manager\n", line)
			} else {
				fmt.Printf("PROBE %-40s -> locked=%d refCount=%d currentLock=%v currentData=%v\n", line, lm.locked, lm.refCount, lm.currentLock != nil, lm.currentData != nil)
			}
			continue
		}
		c := conns[cn]
		if c == nil {
			c = srv.dialText(cn)
			conns[cn] = c
		}
		v, err := c.call(args...)
		if err != nil {
			fmt.Printf("PROBE %-40s -> ERROR %v\n", line, err)
			return
		}
		fmt.Printf("PROBE %-40s -> %s\n", line, v.String())
	}
}
