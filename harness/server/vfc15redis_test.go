//go:build verif

package server

// C15, second sentence: "The Redis-style text commands (SET, GET, DEL, SETNX,
// GETSET, INCR/DECR(BY), APPEND, EXISTS, STRLEN, EXPIRE/PERSIST) consequently
// answer like a plain key-value store" over "all sequences of the Redis-style
// commands over a small key set".
//
// A sequence is a PRNG list of text commands sent over 1-3 text connections of
// one real Server.handle (net.Pipe) on the harness's virtual clock, optionally
// interleaved with a binary-protocol lock holder that applies value operations
// to the same keys. Every reply is compared with a plain in-memory key-value
// model (map[string][]byte with expiry ticks, Redis semantics restricted to
// what the statement lists). After a mismatch the keys involved are
// resynchronised (DEL on both sides) and the sequence goes on.

import (
	"bytes"
	"fmt"
	"os"
	"path/filepath"
	"regexp"
	"runtime"
	"strconv"
	"strings"
	"testing"
	"time"

	"github.com/snower/slock/protocol"
)

// ---------------------------------------------------------------- evidence texts (for the lead's vfSpec)

var vfC15RedisRule = "Redis stage: case j = PRNG sequence splitmix(seed,'C15redis',j) of 20-80 Redis-style text commands (SET with EX/PX/NX/XX, GET, DEL of 1-3 keys, SETNX, GETSET, INCR/DECR/INCRBY/DECRBY with negative, extreme and non-numeric operands, APPEND with empty / binary payloads, EXISTS, STRLEN, EXPIRE, PERSIST, TTL) over 1-4 keys and 1-3 text connections of one server on the virtual clock (clock ticks are steps of the sequence), in half of the sequences interleaved with a binary-protocol lock holder applying SET/INCR/APPEND/SHIFT value operations to the same keys; every reply is compared with a plain in-memory key-value model; non-trivial = at least 10 replies compared, 3 of them to writes that changed a stored value; distinct = hash of the command/reply trace"

var vfC15RedisFloors = []string{"redis_replies_compared", "redis_writes_applied", "redis_expiries_observed", "redis_incr_on_counter", "redis_append_applied", "redis_binary_ops_applied", "redis_text_reads_of_lock_set_value", "redis_multi_connection_sequences"}

var vfC15RedisAssumptions = []string{
	"Redis stage reference = plain map[string][]byte with expiry ticks (Redis semantics of the listed commands only); every text connection first issues 'TIMEOUT SET 0' so that SETNX / SET NX on an existing key are answered at once (waiting for the key up to the connection's time-out is slock's lock semantics, C05)",
	"numeric encoding: a value produced by INCR/DECR(BY) is a 64-bit counter; GET/GETSET may answer it as a RESP integer instead of the decimal bulk string, arithmetic wraps around at 64 bits instead of answering an overflow error, only the kind (error reply) of an error is compared",
	"expiry follows C06: a key with expiry E set at tick n is certainly present before tick n+E+1 and certainly absent from tick n+E+2 on (n+E+11 if an update shortened the deadline; an update moving the deadline by at most 1 s may be ignored); in between the state is resolved by an EXISTS probe; EX/EXPIRE operands are 1..8 s, PX only whole seconds above 3000 ms (millisecond timers run on the wall clock); TTL is compared by class (-2/-1/remaining) and the remaining time is bracketed with the wall clock because the handler uses time.Now()",
	"keys are locks underneath: while a request with a LockId of its own holds a key - a binary-protocol lock request, or SETNX / SET NX, which take the key under a fresh LockId - the other text writes (SET, GETSET, APPEND, INCR/DECR(BY), EXPIRE, PERSIST) may be refused (nil / error / 0) and must then leave the value unchanged, reads answer the value and DEL releases the hold (VERIF_C15R_STRICT_NX=1 demands the plain key-value answer instead); binary requests always carry a value (a hold without a value has no key-value counterpart) and UNSET / arrays / empty values without property header are not generated",
	"PERSIST on an existing key may answer 1 whether or not an expiry was pending; EXISTS / STRLEN / GET are sent with one key",
}

// ---------------------------------------------------------------- model

const (
	vfC15RHoldText = 0 // held under LockId == LockKey (what SET / INCR / APPEND use)
	vfC15RHoldNX   = 1 // created by SETNX / SET NX (fresh LockId)
	vfC15RHoldBin  = 2 // held by the binary client under a LockId of its own
)

type vfC15REntry struct {
	val       []byte
	num       bool // how slock stores it (counter) - used for signatures only
	unlimited bool
	dLo, dHi  int64 // deadline range (first tick at which the server may end it)
	sticky    bool
	px        bool
	holder    int
	binId     int
	binSet    bool // the stored value was set or modified by a binary lock request
}

type vfC15RExp struct {
	kind  byte // + - : $
	s     string
	n     int64
	null  bool
	altN  []int64 // further acceptable integers
	descr string
}

func (e *vfC15RExp) String() string {
	if e == nil {
		return "<none>"
	}
	switch e.kind {
	case '+':
		return "+" + e.s
	case '-':
		return "-<error>"
	case ':':
		s := fmt.Sprintf(":%d", e.n)
		for _, a := range e.altN {
			s += fmt.Sprintf("|:%d", a)
		}
		return s
	case '$':
		if e.null {
			return "$nil"
		}
		return fmt.Sprintf("%q", vfTrunc(e.s, 80))
	}
	return "?"
}

var vfC15RDecimalRe = regexp.MustCompile(`^(0|-?[1-9][0-9]{0,18})$`)

func vfC15RDecimal(v []byte) (int64, bool) {
	if !vfC15RDecimalRe.Match(v) {
		return 0, false
	}
	n, err := strconv.ParseInt(string(v), 10, 64)
	return n, err == nil
}

func vfC15RMatch(r *vfRespValue, e *vfC15RExp) bool {
	if r == nil || e == nil {
		return false
	}
	switch e.kind {
	case '+':
		return r.Kind == '+' && r.Str == e.s
	case '-':
		return r.Kind == '-'
	case ':':
		if r.Kind != ':' {
			return false
		}
		if r.Int == e.n {
			return true
		}
		for _, a := range e.altN {
			if r.Int == a {
				return true
			}
		}
		return false
	case '$':
		if e.null {
			return r.Kind == '$' && r.Null
		}
		if r.Kind == '$' && !r.Null && r.Str == e.s {
			return true
		}
		// numeric encoding: a counter may be answered as a RESP integer
		if n, ok := vfC15RDecimal([]byte(e.s)); ok && r.Kind == ':' && r.Int == n {
			return true
		}
		return false
	}
	return false
}

func vfC15RNil() *vfC15RExp          { return &vfC15RExp{kind: '$', null: true} }
func vfC15RInt(n int64) *vfC15RExp   { return &vfC15RExp{kind: ':', n: n} }
func vfC15RBulk(v []byte) *vfC15RExp { return &vfC15RExp{kind: '$', s: string(v)} }
func vfC15ROK() *vfC15RExp           { return &vfC15RExp{kind: '+', s: "OK"} }
func vfC15RErr() *vfC15RExp          { return &vfC15RExp{kind: '-'} }

// ---------------------------------------------------------------- context

type vfC15RCtx struct {
	env    *vfEnv
	part   *vfPart
	caseN  int
	rng    *vfRand
	srv    *vfNetServer
	in     *vfInstance
	texts  []*vfTextConn
	bin    *vfBinConn
	keys   []string
	m      map[string]*vfC15REntry
	tomb   map[string]string // why the model dropped a key: "expired" / "expired-px"
	ghost  map[string]*vfC15REntry // the value a key had when it was last released by DEL / unlock (signatures only)
	log    []string
	viol   int
	fail   string
	replay string
	hash   uint64
	nCmp   int
	nWrite int
	conv   *protocol.TextCommandConverter
	debug  bool
}

func (c *vfC15RCtx) note(f string, a ...interface{}) {
	s := fmt.Sprintf(f, a...)
	c.log = append(c.log, s)
	if c.debug {
		fmt.Println("C15R " + s)
	}
}

func (c *vfC15RCtx) lockKey(k string) [16]byte {
	var out [16]byte
	c.conv.ConvertArgId2LockId(k, &out)
	return out
}

func vfC15RQuote(args []string) string {
	var b strings.Builder
	for i, a := range args {
		if i > 0 {
			b.WriteByte(' ')
		}
		if i == 0 {
			b.WriteString(a)
		} else {
			b.WriteString(strconv.Quote(vfTrunc(a, 60)))
			if len(a) > 60 {
				fmt.Fprintf(&b, "(%dB)", len(a))
			}
		}
	}
	return b.String()
}

// class of the model state of a key, for signatures
func (c *vfC15RCtx) class(k string) string {
	e := c.m[k]
	if e == nil {
		if t := c.tomb[k]; t != "" {
			return t + "-key"
		}
		return "missing-key"
	}
	s := "string-stored-value"
	if e.num {
		s = "numeric-stored-value"
	} else if _, ok := vfC15RDecimal(e.val); ok {
		s = "decimal-string-stored-value"
	} else if len(e.val) == 0 {
		s = "empty-stored-value"
	}
	switch e.holder {
	case vfC15RHoldNX:
		s += "+nx-created"
	case vfC15RHoldBin:
		s += "+lock-held"
	}
	return s
}

const vfC15RSigPX = "SET-PX:expiry-above-3000ms-read-as-seconds"

func (c *vfC15RCtx) violate(clause, sig, f string, a ...interface{}) {
	if strings.Contains(sig, "expired-px-key") {
		sig = vfC15RSigPX // the key outlived the deadline that PX gave it
	}
	c.viol++
	d := fmt.Sprintf(f, a...)
	c.note("VIOLATION %s [%s]: %s", clause, sig, d)
	if k := vfKnownOpen(c.part.known, "C15", sig); k == nil || c.part.KnownSeen[sig] < 2 {
		// (an open known finding keeps two witnesses, like vfPart.Violate)
		doc := map[string]interface{}{"case": c.caseN, "seed": c.env.Seed, "tier": c.env.Tier, "stage": "redis", "signature": sig, "log": c.log}
		c.replay = vfWriteReplay(c.env, fmt.Sprintf("redis-case%d.json", c.caseN), doc)
	}
	c.part.Violate(vfViolation{Prop: "C15", Clause: "redis/" + clause, Detail: d, Case: c.caseN, Replay: c.replay, Sig: sig})
}

func (c *vfC15RCtx) now() int64 { return c.in.now }

// release: the model forgets key k because its hold was released (DEL, unlock)
func (c *vfC15RCtx) release(k string) {
	if e := c.m[k]; e != nil {
		c.ghost[k] = e
	}
	delete(c.m, k)
	delete(c.tomb, k)
}

// staleInts: the integers a command on a missing key can answer if the server
// still uses the value the key had when it was released (read as raw bytes, as
// a counter, or as the decimal number it spells).
func (c *vfC15RCtx) staleInts(st *vfC15RStep, k string) []int64 {
	g := c.ghost[k]
	if g == nil || len(st.args) < 2 {
		return nil
	}
	switch st.group {
	case "APPEND":
		out := []int64{int64(len(g.val) + len(st.args[2]))}
		if g.num {
			out = append(out, int64(8+len(st.args[2])))
		}
		return out
	case "INCR":
		raw := int64(0)
		for i := 0; i < 8 && i < len(g.val); i++ {
			raw |= int64(g.val[i]) << (8 * uint(i))
		}
		out := []int64{raw + st.delta}
		if n, ok := vfC15RDecimal(g.val); ok {
			out = append(out, n+st.delta)
		}
		return out
	}
	return nil
}

// text sends one command on connection ci and returns the reply.
func (c *vfC15RCtx) text(ci int, args ...string) *vfRespValue {
	if c.fail != "" {
		return nil
	}
	r, err := c.texts[ci].call(args...)
	if err != nil {
		c.fail = fmt.Sprintf("case %d: text connection %d: %s: %v", c.caseN, ci, vfC15RQuote(args), err)
		c.note("I/O FAILURE %s", c.fail)
		return nil
	}
	c.hash = vfMix(c.hash ^ vfStrHash(args[0]) ^ vfStrHash(r.String())<<1)
	return r
}

// resolve brings the model's view of key k up to date with the clock: beyond
// the window the key must be gone, inside the window an EXISTS probe decides.
func (c *vfC15RCtx) resolve(ci int, k string) {
	e := c.m[k]
	if e == nil || e.unlimited || c.fail != "" {
		return
	}
	now := c.now()
	if now < e.dLo {
		return
	}
	hi := e.dHi + 1
	if e.sticky {
		hi = e.dHi + 10
	}
	if now >= hi {
		// beyond the window the key must be gone: confirmed at once, so that a key
		// that outlives its deadline is reported here and not through a later coincidence
		r := c.text(ci, "EXISTS", k)
		if r == nil {
			return
		}
		c.ghost[k] = e
		delete(c.m, k)
		c.tomb[k] = "expired"
		if e.px {
			c.tomb[k] = "expired-px"
		}
		c.part.Add("redis_expiries_by_deadline", 1)
		c.note("@%d EXISTS %q -> %s (must be gone by its deadline: window [%d,%d) now %d)", ci, k, r.String(), e.dLo, hi, now)
		if !(r.Kind == ':' && r.Int == 0) {
			c.violate("expiry", "EXISTS:"+c.class(k), "EXISTS %q answered %s at tick %d although the key's expiry window [%d,%d) has passed", k, r.String(), now, e.dLo, hi)
			c.resync(ci, k)
		}
		return
	}
	r := c.text(ci, "EXISTS", k)
	if r == nil {
		return
	}
	c.part.Add("redis_expiry_window_probes", 1)
	switch {
	case r.Kind == ':' && r.Int == 0:
		c.ghost[k] = e
		delete(c.m, k)
		c.tomb[k] = "expired"
		c.part.Add("redis_expiries_observed", 1)
		c.note("@%d EXISTS %q -> :0 (expiry window [%d,%d) now %d: expired)", ci, k, e.dLo, hi, now)
	case r.Kind == ':' && r.Int == 1:
		c.note("@%d EXISTS %q -> :1 (expiry window [%d,%d) now %d: still there)", ci, k, e.dLo, hi, now)
	default:
		c.violate("exists-reply", "EXISTS:expiry-window", "EXISTS %q answered %s inside the key's expiry window", k, r.String())
		c.resync(ci, k)
	}
}

// resync: after a mismatch the state of the keys involved is unknown; remove
// them on both sides.
func (c *vfC15RCtx) resync(ci int, keys ...string) {
	for _, k := range keys {
		if c.fail != "" {
			return
		}
		// DEL, then an empty value and DEL again: whatever the server kept of the key's value is now the empty string
		r := c.text(ci, "DEL", k)
		r2 := c.text(ci, "SET", k, "")
		r3 := c.text(ci, "DEL", k)
		if r3 != nil {
			c.note("@%d resync: DEL %q -> %s, SET %q \"\" -> %s, DEL -> %s", ci, k, r.String(), k, r2.String(), r3.String())
		}
		delete(c.m, k)
		delete(c.tomb, k)
		c.ghost[k] = &vfC15REntry{val: []byte{}}
	}
	c.part.Add("redis_resyncs", 1)
}

func (c *vfC15RCtx) setExpiry(e *vfC15REntry, existed bool, secs int64, px bool) {
	d := c.now() + secs + 1
	if existed {
		if e.unlimited || d < e.dHi {
			e.sticky = true
		}
		if !e.unlimited && d-e.dLo <= 1 && e.dLo-d <= 1 || !e.unlimited && d-e.dHi <= 1 && e.dHi-d <= 1 {
			// an update that moves the deadline by at most 1 s may be ignored
			if d < e.dLo {
				e.dLo = d
			}
			if d > e.dHi {
				e.dHi = d
			}
		} else {
			e.dLo, e.dHi = d, d
		}
	} else {
		e.dLo, e.dHi, e.sticky = d, d, false
	}
	e.unlimited = false
	e.px = px
}

func (c *vfC15RCtx) setUnlimited(e *vfC15REntry) {
	e.unlimited, e.px = true, false
}

// ---------------------------------------------------------------- one text command

type vfC15RStep struct {
	args    []string
	keys    []string
	exp     *vfC15RExp
	apply   func()     // model change when exp matches
	refused *vfC15RExp // reply form of a write refused because another LockId holds the key
	isWrite bool       // changes a stored value when applied
	delta   int64      // INCR family: the signed increment
	group   string     // command group for signatures
}

// plan computes the expected reply and the model change of a text command.
func (c *vfC15RCtx) plan(args []string) *vfC15RStep {
	st := &vfC15RStep{args: args, group: args[0]}
	name := args[0]
	k := ""
	if len(args) > 1 {
		k = args[1]
	}
	e := c.m[k]
	exists := e != nil
	newEntry := func(val []byte, holder int) *vfC15REntry {
		ne := &vfC15REntry{val: append([]byte(nil), val...), unlimited: true, holder: holder}
		c.m[k] = ne
		delete(c.tomb, k)
		return ne
	}
	switch name {
	case "GET":
		st.keys = []string{k}
		if exists {
			st.exp = vfC15RBulk(e.val)
		} else {
			st.exp = vfC15RNil()
		}
	case "EXISTS":
		st.keys = []string{k}
		if exists {
			st.exp = vfC15RInt(1)
		} else {
			st.exp = vfC15RInt(0)
		}
	case "STRLEN":
		st.keys = []string{k}
		if exists {
			st.exp = vfC15RInt(int64(len(e.val)))
		} else {
			st.exp = vfC15RInt(0)
		}
	case "TTL":
		st.keys = []string{k}
		// handled by the caller (wall-clock bracket)
	case "DEL":
		st.keys = args[1:]
		n := int64(0)
		seen := map[string]bool{}
		for _, dk := range st.keys {
			if c.m[dk] != nil && !seen[dk] {
				n++
			}
			seen[dk] = true
		}
		st.exp = vfC15RInt(n)
		st.apply = func() {
			for _, dk := range st.keys {
				c.release(dk)
			}
		}
	case "SET", "GETSET":
		st.keys = []string{k}
		st.isWrite = true
		val := []byte(args[2])
		ex, px, nx, xx := int64(0), false, false, false
		for i := 3; i < len(args); i++ {
			switch strings.ToUpper(args[i]) {
			case "EX":
				ex, _ = strconv.ParseInt(args[i+1], 10, 64)
				i++
			case "PX":
				ms, _ := strconv.ParseInt(args[i+1], 10, 64)
				ex, px = ms/1000, true
				i++
			case "NX":
				nx = true
			case "XX":
				xx = true
			}
		}
		if nx {
			st.group = "SET-NX"
		} else if xx {
			st.group = "SET-XX"
		}
		if (nx && exists) || (xx && !exists) {
			st.exp = vfC15RNil()
			st.isWrite = false
			break
		}
		if name == "GETSET" {
			if exists {
				st.exp = vfC15RBulk(e.val)
			} else {
				st.exp = vfC15RNil()
			}
		} else {
			st.exp = vfC15ROK()
		}
		st.refused = vfC15RNil()
		st.apply = func() {
			ne := e
			if !exists {
				h := vfC15RHoldText
				if nx {
					h = vfC15RHoldNX
				}
				ne = newEntry(val, h)
			}
			ne.val, ne.num = append([]byte(nil), val...), false
			if ex > 0 {
				c.setExpiry(ne, exists, ex, px)
			} else {
				c.setUnlimited(ne)
			}
		}
	case "SETNX":
		st.keys = []string{k}
		if exists {
			st.exp = vfC15RInt(0)
		} else {
			st.isWrite = true
			st.exp = vfC15RInt(1)
			st.apply = func() { newEntry([]byte(args[2]), vfC15RHoldNX) }
		}
	case "APPEND":
		st.keys = []string{k}
		st.isWrite = true
		add := []byte(args[2])
		cur := []byte(nil)
		if exists {
			cur = e.val
		}
		st.exp = vfC15RInt(int64(len(cur) + len(add)))
		st.refused = vfC15RNil()
		st.apply = func() {
			if !exists {
				newEntry(add, vfC15RHoldText)
				return
			}
			e.val = append(append([]byte(nil), e.val...), add...)
			e.num = false
		}
	case "INCR", "DECR", "INCRBY", "DECRBY":
		st.keys = []string{k}
		st.group = "INCR"
		delta := int64(1)
		if len(args) > 2 {
			v, err := strconv.ParseInt(args[2], 10, 64)
			if err != nil {
				st.exp = vfC15RErr() // operand is not a 64-bit integer
				st.group = "INCR-bad-operand"
				break
			}
			delta = v
		}
		if name == "DECR" || name == "DECRBY" {
			delta = -delta // wraps for the minimum (numeric encoding assumption)
		}
		st.isWrite = true
		cur := int64(0)
		if exists {
			n, ok := vfC15RDecimal(e.val)
			if !ok {
				st.exp = vfC15RErr() // Redis: value is not an integer; unchanged
				st.isWrite = false
				break
			}
			cur = n
		}
		st.delta = delta
		res := cur + delta // two's complement wrap-around
		st.exp = vfC15RInt(res)
		st.refused = vfC15RErr()
		st.apply = func() {
			v := []byte(strconv.FormatInt(res, 10))
			if !exists {
				newEntry(v, vfC15RHoldText).num = true
				return
			}
			e.val, e.num = v, true
		}
	case "EXPIRE":
		st.keys = []string{k}
		secs, _ := strconv.ParseInt(args[2], 10, 64)
		if !exists {
			st.exp = vfC15RInt(0)
			break
		}
		st.exp = vfC15RInt(1)
		st.refused = vfC15RInt(0)
		st.apply = func() { c.setExpiry(e, true, secs, false) }
	case "PERSIST":
		st.keys = []string{k}
		if !exists {
			st.exp = vfC15RInt(0)
			break
		}
		st.exp = vfC15RInt(1)
		if e.unlimited {
			st.exp.altN = []int64{0} // Redis: 0 when no expiry was pending
		}
		st.refused = vfC15RInt(0)
		st.apply = func() { c.setUnlimited(e) }
	}
	return st
}

// classify names a mismatch. The classes that are documented as findings get
// their own signature; anything else is "<command group>:<model state class>".
func (c *vfC15RCtx) classify(st *vfC15RStep, r *vfRespValue, classBefore string, holderBefore int, existedBefore bool) string {
	name := st.args[0]
	if holderBefore == vfC15RHoldNX && st.refused != nil && vfC15RMatch(r, st.refused) {
		return "nx-created-key:write-refused"
	}
	if !existedBefore {
		for _, n := range c.staleInts(st, st.keys[0]) {
			if r.Kind == ':' && r.Int == n && !vfC15RMatch(r, st.exp) {
				return "released-key:value-survives"
			}
		}
	}
	switch name {
	case "EXPIRE", "PERSIST":
		if name == "PERSIST" && len(st.args) == 2 && r.Kind == '-' {
			return "PERSIST:key-only-form-rejected"
		}
		if !existedBefore && r.Kind == ':' && r.Int == 1 {
			return "EXPIRE:missing-key-answers-1"
		}
	case "DEL":
		if len(st.keys) > 1 {
			first := int64(0)
			if c.m[st.keys[0]] != nil {
				first = 1
			}
			if r.Kind == ':' && r.Int == first {
				return "DEL:several-keys-only-first"
			}
		}
	case "APPEND":
		if strings.HasPrefix(classBefore, "numeric-stored-value") {
			return "APPEND:numeric-stored-value"
		}
	}
	if strings.HasPrefix(classBefore, "expired-px") {
		return vfC15RSigPX
	}
	if (name == "GET" || name == "GETSET") && strings.HasPrefix(classBefore, "empty-stored-value") && r.Kind == '$' && r.Null {
		return "GET:empty-value-answers-nil"
	}
	if st.group == "INCR" && (strings.HasPrefix(classBefore, "string-stored-value") || strings.HasPrefix(classBefore, "empty-stored-value")) {
		return "INCR:non-numeric-stored-value"
	}
	return st.group + ":" + classBefore
}

// vfC15RStrictNX: demand the plain key-value answer also for writes to a key
// that SETNX / SET NX created (by default their refusal is accepted as the
// lock semantics of such a key, see the assumptions).
var vfC15RStrictNX = os.Getenv("VERIF_C15R_STRICT_NX") == "1"

func (c *vfC15RCtx) doText(ci int, args []string) {
	if c.fail != "" {
		return
	}
	name := args[0]
	keys := args[1:2]
	if name == "DEL" {
		keys = args[1:]
	}
	for _, k := range keys {
		c.resolve(ci, k)
	}
	if c.fail != "" {
		return
	}
	st := c.plan(args)
	k0 := keys[0]
	classBefore, holderBefore, existedBefore := c.class(k0), -1, c.m[k0] != nil
	binSetBefore := false
	if existedBefore {
		holderBefore, binSetBefore = c.m[k0].holder, c.m[k0].binSet
	}
	c.part.Add("redis_cmd_"+name, 1)
	if name == "TTL" {
		c.doTTL(ci, k0)
		return
	}
	r := c.text(ci, args...)
	if r == nil {
		return
	}
	c.note("@%d %s -> %s   (model %s: %s)", ci, vfC15RQuote(args), vfTrunc(r.String(), 100), classBefore, st.exp.String())
	c.nCmp++
	c.part.Add("redis_replies_compared", 1)
	if vfC15RMatch(r, st.exp) {
		if st.apply != nil {
			st.apply()
		}
		if st.isWrite {
			c.nWrite++
			c.part.Add("redis_writes_applied", 1)
			switch st.group {
			case "INCR":
				if existedBefore {
					c.part.Add("redis_incr_on_counter", 1)
				}
			case "APPEND":
				if existedBefore {
					c.part.Add("redis_append_applied", 1)
				}
			}
			if holderBefore == vfC15RHoldBin {
				c.part.Add("redis_text_writes_to_lock_held_key_applied", 1)
			}
		} else if st.exp.kind == '-' {
			c.part.Add("redis_error_replies_expected", 1)
		}
		if (name == "GET" || name == "STRLEN" || name == "GETSET") && existedBefore {
			c.part.Add("redis_reads_of_stored_value", 1)
			if binSetBefore {
				c.part.Add("redis_text_reads_of_lock_set_value", 1)
			}
		}
		if st.isWrite && binSetBefore && (st.group == "INCR" || st.group == "APPEND") {
			c.part.Add("redis_text_updates_of_lock_set_value", 1)
		}
		if st.isWrite {
			if e := c.m[k0]; e != nil && st.group != "INCR" && st.group != "APPEND" {
				e.binSet = false
			}
		}
		return
	}
	if (holderBefore == vfC15RHoldBin || (holderBefore == vfC15RHoldNX && !vfC15RStrictNX)) && st.refused != nil && vfC15RMatch(r, st.refused) {
		// keys are locks underneath: refused, the value must be unchanged (later reads check that)
		if holderBefore == vfC15RHoldNX {
			c.part.Add("redis_writes_refused_nx_created_key", 1)
		} else {
			c.part.Add("redis_writes_refused_lock_held", 1)
		}
		return
	}
	sig := c.classify(st, r, classBefore, holderBefore, existedBefore)
	c.violate("reply", sig, "%s answered %s, a plain key-value store answers %s (model state of %q before: %s)", vfC15RQuote(args), vfTrunc(r.String(), 120), st.exp.String(), k0, classBefore)
	c.resync(ci, keys...)
}

func (c *vfC15RCtx) doTTL(ci int, k string) {
	e := c.m[k]
	w0 := time.Now().Unix()
	r := c.text(ci, "TTL", k)
	w1 := time.Now().Unix()
	if r == nil {
		return
	}
	c.nCmp++
	c.part.Add("redis_replies_compared", 1)
	cls := c.class(k)
	want := ""
	ok := false
	switch {
	case e == nil:
		want, ok = ":-2", r.Kind == ':' && r.Int == -2
	case e.unlimited:
		want, ok = ":-1", r.Kind == ':' && r.Int == -1
	default:
		// the handler answers deadline - time.Now(); the deadline is on the virtual clock
		lo, hi := e.dLo-w1, e.dHi-w0
		want = fmt.Sprintf(":%d..%d (deadline tick %d..%d minus wall clock)", lo, hi, e.dLo, e.dHi)
		ok = r.Kind == ':' && r.Int >= lo && r.Int <= hi
	}
	c.note("@%d TTL %q -> %s   (model %s: %s)", ci, k, r.String(), cls, want)
	if ok {
		return
	}
	sig := "TTL:" + cls
	if e != nil && e.px {
		sig = vfC15RSigPX
	}
	c.violate("reply", sig, "TTL %q answered %s, expected %s", k, r.String(), want)
	c.resync(ci, k)
}

// ---------------------------------------------------------------- binary holder

var vfC15RBinIds = [][16]byte{vfKey16("c15r-holder-F0"), vfKey16("c15r-holder-F1")}

func (c *vfC15RCtx) modelVal(k string) vfVal {
	e := c.m[k]
	if e == nil {
		return vfVal{Absent: true}
	}
	return vfVal{Kind: vfValBytes, B: e.val}
}

// sameValue: the value frame of a binary reply against the model's value.
func vfC15RSameValue(data []byte, want vfVal) (string, bool) {
	got, err := vfParseValue(data)
	if err != nil {
		return "unparsable value frame: " + err.Error(), false
	}
	if got.Absent || want.Absent {
		return got.String(), got.Absent == want.Absent
	}
	switch got.Kind {
	case vfValNumber:
		return got.String(), strconv.FormatInt(got.N, 10) == string(want.B)
	case vfValBytes:
		return got.String(), bytes.Equal(got.B, want.B)
	}
	return got.String(), false
}

func (c *vfC15RCtx) doBinary() {
	if c.fail != "" || c.bin == nil {
		return
	}
	rng := c.rng
	k := c.keys[rng.Intn(len(c.keys))]
	c.resolve(0, k)
	if c.fail != "" {
		return
	}
	e := c.m[k]
	exists := e != nil
	lk := c.lockKey(k)
	fid := rng.Intn(len(vfC15RBinIds))
	withProp := rng.Chance(50)
	mkData := func(forceNonEmpty bool) (*vfDataOp, func(cur []byte, had bool) ([]byte, bool)) {
		// type-consistent with the stored value: INCR on counters / absent, APPEND and SHIFT on byte strings
		d := &vfDataOp{}
		if withProp {
			d.Prop = []byte(k)
		}
		choices := []int{protocol.LOCK_DATA_COMMAND_TYPE_SET}
		if !exists || e.num {
			choices = append(choices, protocol.LOCK_DATA_COMMAND_TYPE_INCR, protocol.LOCK_DATA_COMMAND_TYPE_INCR)
		}
		if !exists || !e.num {
			choices = append(choices, protocol.LOCK_DATA_COMMAND_TYPE_APPEND, protocol.LOCK_DATA_COMMAND_TYPE_APPEND)
		}
		if exists && !e.num && len(e.val) > 0 {
			choices = append(choices, protocol.LOCK_DATA_COMMAND_TYPE_SHIFT)
		}
		d.Type = uint8(choices[rng.Intn(len(choices))])
		switch d.Type {
		case protocol.LOCK_DATA_COMMAND_TYPE_SET, protocol.LOCK_DATA_COMMAND_TYPE_APPEND:
			d.Val = vfC15RValue(rng)
			if len(d.Val) == 0 && (!withProp || forceNonEmpty) {
				d.Val = []byte("b")
			}
			if d.Type == protocol.LOCK_DATA_COMMAND_TYPE_SET {
				return d, func(cur []byte, had bool) ([]byte, bool) { return d.Val, false }
			}
			return d, func(cur []byte, had bool) ([]byte, bool) { return append(append([]byte(nil), cur...), d.Val...), false }
		case protocol.LOCK_DATA_COMMAND_TYPE_INCR:
			d.Num = vfC15RDelta(rng)
			return d, func(cur []byte, had bool) ([]byte, bool) {
				n := int64(0)
				if had {
					n, _ = vfC15RDecimal(cur)
				}
				return []byte(strconv.FormatInt(n+d.Num, 10)), true
			}
		default: // SHIFT
			d.Num = int64(rng.Range(1, len(e.val)+2))
			return d, func(cur []byte, had bool) ([]byte, bool) {
				n := int(d.Num)
				if n > len(cur) {
					n = len(cur)
				}
				return append([]byte(nil), cur[n:]...), false
			}
		}
	}
	type plan struct {
		what    string
		cmd     *protocol.LockCommand
		applied []uint8 // result codes that mean "executed"
		apply   func()
		before  bool // an executed reply must carry the value before the operation
	}
	var p plan
	// what can meaningfully be done with this key now
	kinds := []string{"self-update"}
	if !exists {
		kinds = append(kinds, "lock", "lock")
	} else {
		kinds = append(kinds, "lock") // refused: the key is held
		if e.holder == vfC15RHoldBin {
			kinds = append(kinds, "holder-update", "holder-update", "unlock")
			fid = e.binId
		}
		if e.holder == vfC15RHoldText {
			kinds = append(kinds, "self-update")
		}
	}
	kind := kinds[rng.Intn(len(kinds))]
	keepTTL := uint16(protocol.EXPRIED_FLAG_UNLIMITED_EXPRIED_TIME | protocol.EXPRIED_FLAG_UPDATE_NO_RESET_EXPRIED_CHECKED_COUNT)
	descr := ""
	switch kind {
	case "lock":
		d, fn := mkData(true)
		secs := int64(0)
		cmd := protocol.NewLockCommand(0, lk, vfC15RBinIds[fid], 0, 0x7fff, 0)
		cmd.ExpriedFlag = protocol.EXPRIED_FLAG_UNLIMITED_EXPRIED_TIME
		if rng.Chance(40) {
			secs = int64(rng.Range(2, 8))
			cmd.Expried, cmd.ExpriedFlag = uint16(secs), 0
		}
		cmd.Data = vfBuildData(d)
		descr = fmt.Sprintf("LOCK %q id=F%d expiry=%d data=%s", k, fid, secs, vfJSON(d))
		p = plan{what: "lock", cmd: cmd, before: true}
		if !exists {
			p.applied = []uint8{protocol.RESULT_SUCCED}
			p.apply = func() {
				v, num := fn(nil, false)
				ne := &vfC15REntry{val: v, num: num, unlimited: true, holder: vfC15RHoldBin, binId: fid, binSet: true}
				if secs > 0 {
					c.setExpiry(ne, false, secs, false)
				}
				c.m[k] = ne
				delete(c.tomb, k)
			}
		}
	case "holder-update", "self-update":
		d, fn := mkData(!exists)
		id := vfC15RBinIds[fid]
		if kind == "self-update" {
			id = lk
		}
		cmd := protocol.NewLockCommand(0, lk, id, 0, 0xffff, 0)
		cmd.Flag = protocol.LOCK_FLAG_UPDATE_WHEN_LOCKED
		cmd.ExpriedFlag = keepTTL
		cmd.Data = vfBuildData(d)
		descr = fmt.Sprintf("UPDATE %q id=%s data=%s", k, map[bool]string{true: "LockKey", false: fmt.Sprintf("F%d", fid)}[kind == "self-update"], vfJSON(d))
		p = plan{what: kind, cmd: cmd, before: true}
		owner := exists && ((kind == "self-update" && e.holder == vfC15RHoldText) || (kind == "holder-update" && e.holder == vfC15RHoldBin && e.binId == fid))
		switch {
		case owner:
			p.applied = []uint8{protocol.RESULT_LOCKED_ERROR}
			p.apply = func() { e.val, e.num = fn(e.val, true); e.binSet = true }
		case !exists:
			p.applied = []uint8{protocol.RESULT_SUCCED}
			p.apply = func() {
				v, num := fn(nil, false)
				h := vfC15RHoldText
				if kind == "holder-update" {
					h = vfC15RHoldBin
				}
				c.m[k] = &vfC15REntry{val: v, num: num, unlimited: true, holder: h, binId: fid, binSet: true}
				delete(c.tomb, k)
			}
		}
	case "unlock":
		cmd := protocol.NewLockCommand(0, lk, vfC15RBinIds[fid], 0, 0, 0)
		cmd.CommandType = protocol.COMMAND_UNLOCK
		descr = fmt.Sprintf("UNLOCK %q id=F%d", k, fid)
		p = plan{what: "unlock", cmd: cmd, applied: []uint8{protocol.RESULT_SUCCED}, apply: func() { c.release(k) }}
	}
	before := c.modelVal(k)
	classBefore := c.class(k)
	r, err := c.bin.call(p.cmd)
	if err == nil {
		err = c.bin.barrier()
	}
	if err != nil {
		c.fail = fmt.Sprintf("case %d: binary connection: %s: %v", c.caseN, descr, err)
		c.note("I/O FAILURE %s", c.fail)
		return
	}
	gotVal, _ := vfParseValue(r.Data)
	c.note("@bin %s -> %s value-before=%s   (model %s, executes=%v)", descr, vfResName(r.Result), gotVal.String(), classBefore, p.applied != nil)
	c.hash = vfMix(c.hash ^ vfStrHash(p.what)<<3 ^ uint64(r.Result))
	c.part.Add("redis_binary_ops", 1)
	modelExec := p.applied != nil
	srvExec := r.Result == protocol.RESULT_SUCCED || (r.Result == protocol.RESULT_LOCKED_ERROR && p.cmd.CommandType == protocol.COMMAND_LOCK && p.cmd.Flag&protocol.LOCK_FLAG_UPDATE_WHEN_LOCKED != 0)
	executed := false
	for _, code := range p.applied {
		if r.Result == code {
			executed = true
		}
	}
	if (modelExec && !executed) || (!modelExec && srvExec) {
		c.violate("binary-result", "binary-"+p.what+":"+classBefore, "%s answered %s while the model (state %s) says executes=%v", descr, vfResName(r.Result), classBefore, modelExec)
		c.resync(0, k)
		return
	}
	if !executed {
		c.part.Add("redis_binary_ops_refused", 1)
		return
	}
	if p.before {
		if got, ok := vfC15RSameValue(r.Data, before); !ok {
			sig := "binary-" + p.what + "-value-before:" + classBefore
			if g := c.ghost[k]; g != nil && before.Absent {
				if _, same := vfC15RSameValue(r.Data, vfVal{Kind: vfValBytes, B: g.val}); same {
					sig = "released-key:value-survives"
				}
			}
			c.violate("binary-value-before", sig, "%s carried the value %s, the model's value before the operation is %s", descr, got, before.String())
			c.resync(0, k)
			return
		}
	}
	p.apply()
	c.part.Add("redis_binary_ops_applied", 1)
}

// ---------------------------------------------------------------- generator

func vfC15RValue(rng *vfRand) []byte {
	switch rng.Intn(20) {
	case 0:
		return []byte{}
	case 1, 2:
		return []byte([]string{"0", "7", "10", "-3", "42", "9223372036854775807", "-9223372036854775808", "123456789"}[rng.Intn(8)])
	case 3:
		return []byte([]string{"1.5", "abc", "12a", " 5", "1e3", "0x10", "99999999999999999999"}[rng.Intn(7)])
	case 4:
		return []byte("line1\r\nline2\r\n")
	case 5:
		return []byte("$5\r\nhello\r\n*2\r\n")
	case 6:
		return append([]byte{0, 0, 0}, rng.Bytes(rng.Range(0, 5))...)
	case 7, 8:
		return rng.Bytes(rng.Range(1, 24))
	case 9:
		return rng.Bytes(8) // as long as a counter
	case 10:
		return rng.Bytes(rng.Range(900, 1200)) // around the parser's buffer size
	case 11:
		if rng.Chance(30) {
			return rng.Bytes(rng.Range(2000, 9000))
		}
		return rng.Bytes(rng.Range(60, 300))
	}
	const letters = "abcdefghijklmnopqrstuvwxyzABCDEFGHIJKLMNOPQRSTUVWXYZ0123456789 _-:"
	n := rng.Range(1, 12)
	b := make([]byte, n)
	for i := range b {
		b[i] = letters[rng.Intn(len(letters))]
	}
	return b
}

func vfC15RDelta(rng *vfRand) int64 {
	switch rng.Intn(12) {
	case 0:
		return 9223372036854775807
	case 1:
		return -9223372036854775808
	case 2:
		return 0
	case 3:
		return int64(rng.U64())
	case 4, 5:
		return -int64(rng.Range(1, 1000))
	case 6:
		return int64(rng.U64() >> 24)
	}
	return int64(rng.Range(1, 100))
}

func vfC15ROperand(rng *vfRand) string {
	if rng.Chance(12) {
		return []string{"abc", "1.5", "", "99999999999999999999", "1e3", "0x10", "12 ", "--1", "9223372036854775808"}[rng.Intn(9)]
	}
	return strconv.FormatInt(vfC15RDelta(rng), 10)
}

var vfC15RKeyPool = []string{"a", "key:1", "0123456789abcdef", "a-long-key-name-beyond-16-bytes", "k\x00\x01", "counter"}

func (c *vfC15RCtx) genText() []string {
	rng := c.rng
	k := c.keys[rng.Intn(len(c.keys))]
	secs := func() string { return strconv.Itoa(rng.Range(1, 8)) }
	w := rng.Intn(100)
	switch {
	case w < 15:
		args := []string{"SET", k, string(vfC15RValue(rng))}
		if rng.Chance(35) {
			if rng.Chance(12) {
				args = append(args, "PX", strconv.Itoa(rng.Range(4, 8)*1000))
			} else {
				args = append(args, []string{"EX", "ex"}[rng.Intn(2)], secs())
			}
		}
		if rng.Chance(30) {
			args = append(args, []string{"NX", "XX", "nx", "xx"}[rng.Intn(4)])
			if rng.Chance(30) && len(args) == 4 {
				args = append(args, "EX", secs())
			}
		}
		return args
	case w < 29:
		return []string{"GET", k}
	case w < 36:
		args := []string{"DEL", k}
		if rng.Chance(35) {
			for n := rng.Range(1, 2); n > 0; n-- {
				args = append(args, c.keys[rng.Intn(len(c.keys))])
			}
		}
		return args
	case w < 42:
		return []string{"SETNX", k, string(vfC15RValue(rng))}
	case w < 48:
		return []string{"GETSET", k, string(vfC15RValue(rng))}
	case w < 54:
		return []string{[]string{"INCR", "DECR"}[rng.Intn(2)], k}
	case w < 64:
		return []string{[]string{"INCRBY", "DECRBY"}[rng.Intn(2)], k, vfC15ROperand(rng)}
	case w < 73:
		return []string{"APPEND", k, string(vfC15RValue(rng))}
	case w < 78:
		return []string{"EXISTS", k}
	case w < 84:
		return []string{"STRLEN", k}
	case w < 91:
		return []string{"EXPIRE", k, secs()}
	case w < 95:
		if rng.Chance(50) {
			return []string{"PERSIST", k}
		}
		return []string{"PERSIST", k, "0"} // the form slock's converter accepts
	default:
		return []string{"TTL", k}
	}
}

// steer keeps most of the sequence on productive ground: an increment of a
// stored value that is not a number is refused by a key-value store (and is a
// documented finding here), a write to a key that is held as a lock is refused.
func (c *vfC15RCtx) steer(args []string) []string {
	rng := c.rng
	name := args[0]
	e := c.m[args[1]]
	switch name {
	case "INCR", "DECR", "INCRBY", "DECRBY":
		if e == nil {
			return args
		}
		if _, ok := vfC15RDecimal(e.val); ok || !rng.Chance(85) {
			return args
		}
		var good []string
		for _, k := range c.keys {
			g := c.m[k]
			if g == nil {
				good = append(good, k)
			} else if _, ok := vfC15RDecimal(g.val); ok && g.holder == vfC15RHoldText {
				good = append(good, k, k)
			}
		}
		if len(good) == 0 {
			return []string{"GET", args[1]}
		}
		args[1] = good[rng.Intn(len(good))]
	case "SET", "GETSET", "APPEND", "EXPIRE", "PERSIST":
		if e != nil && e.holder != vfC15RHoldText && rng.Chance(35) {
			return []string{"DEL", args[1]}
		}
	}
	return args
}

// ---------------------------------------------------------------- one sequence

func vfC15RedisCase(env *vfEnv, part *vfPart, i int) {
	rng := vfCaseRand(env.Seed, "C15redis", i)
	c := &vfC15RCtx{env: env, part: part, caseN: i, rng: rng, m: map[string]*vfC15REntry{}, tomb: map[string]string{}, ghost: map[string]*vfC15REntry{}, conv: protocol.NewTextCommandConverter(), debug: os.Getenv("VERIF_C15R_DEBUG") != ""}
	cfg := vfInstCfg{Dir: vfScratchDir(env, fmt.Sprintf("c15r-%d", i)), Manual: true, NDb: 1}
	cfg.DBConcurrent = uint([]int{1, 2, 4}[rng.Intn(3)])
	cfg.FastKeys = uint([]int{1, 4, 64}[rng.Intn(3)])
	srv, err := vfStartNetServer(cfg)
	if err != nil {
		part.Harness = append(part.Harness, "redis stage: cannot start server: "+err.Error())
		return
	}
	c.srv, c.in = srv, srv.in
	defer os.RemoveAll(cfg.Dir)
	defer c.in.Close()
	_ = vfLogCapture.Take()
	defer func() {
		if c.fail != "" {
			part.Add("redis_inconclusive_sequences", 1)
			if part.Counters["redis_inconclusive_sequences"] <= 3 {
				part.Inconclusive = append(part.Inconclusive, c.fail+" | tail: "+strings.Join(c.log[vfC15RMaxInt(0, len(c.log)-6):], " ;; "))
			}
			if part.Counters["redis_inconclusive_sequences"] > 20 {
				part.Harness = append(part.Harness, "redis stage: too many sequences without a verdict; last: "+c.fail)
			}
		}
	}()
	nKeys := rng.Range(1, 4)
	perm := make([]int, len(vfC15RKeyPool))
	for j := range perm {
		perm[j] = j
	}
	for j := len(perm) - 1; j > 0; j-- {
		x := rng.Intn(j + 1)
		perm[j], perm[x] = perm[x], perm[j]
	}
	for j := 0; j < nKeys; j++ {
		c.keys = append(c.keys, vfC15RKeyPool[perm[j]])
	}
	nConn := rng.Range(1, 3)
	withBin := rng.Chance(50)
	steps := rng.Range(20, 80)
	tickPct := rng.PickInt([]int{4, 8, 8, 14, 22})
	c.note("sequence %d: keys=%q connections=%d binary-holder=%v steps=%d tick%%=%d shards=%d fastkeys=%d start-tick=%d", i, c.keys, nConn, withBin, steps, tickPct, cfg.DBConcurrent, cfg.FastKeys, c.in.now)
	var streams []*Stream
	for j := 0; j < nConn; j++ {
		t := srv.dialText(fmt.Sprintf("t%d", j))
		c.texts = append(c.texts, t)
		streams = append(streams, t.stream)
		if r := c.text(j, "TIMEOUT", "SET", "0"); r == nil || r.Kind != '+' {
			if c.fail == "" {
				c.fail = fmt.Sprintf("case %d: TIMEOUT SET 0 answered %v", i, r)
			}
			break
		}
	}
	if withBin && c.fail == "" {
		c.bin = srv.dialBinary("holder", 7)
		streams = append(streams, c.bin.stream)
		if err := c.bin.init(vfKey16("c15r-client")); err != nil {
			c.fail = fmt.Sprintf("case %d: binary init: %v", i, err)
		}
	}
	if nConn > 1 {
		part.Add("redis_multi_connection_sequences", 1)
	}
	if withBin {
		part.Add("redis_binary_holder_sequences", 1)
	}
	for s := 0; s < steps && c.fail == "" && c.viol < 6; s++ {
		switch {
		case rng.Chance(tickPct):
			n := rng.Range(1, 3)
			for j := 0; j < n; j++ {
				c.in.tick(1, rng)
			}
			c.note("tick +%d -> %d", n, c.in.now)
			part.Add("redis_ticks", int64(n))
		case withBin && rng.Chance(14):
			c.doBinary()
		default:
			c.doText(rng.Intn(nConn), c.steer(c.genText()))
		}
	}
	// closing pass: every key's final value is read back, then removed
	for _, k := range c.keys {
		if c.fail != "" || c.viol >= 6 {
			break
		}
		c.doText(rng.Intn(nConn), []string{"GET", k})
		c.doText(rng.Intn(nConn), []string{"STRLEN", k})
	}
	if c.fail == "" && c.viol < 6 {
		c.doText(0, append([]string{"DEL"}, c.keys[:1]...))
	}
	for _, t := range c.texts {
		t.close()
	}
	if c.bin != nil {
		c.bin.close()
	}
	for _, st := range streams {
		if err := vfWaitClosed(st); err != nil && c.fail == "" {
			c.fail = fmt.Sprintf("case %d: %v", i, err)
		}
	}
	for _, l := range vfLogCapture.Take() {
		part.Add("redis_server_error_log_lines", 1)
		if len(part.LogErrors) < 5 {
			part.LogErrors = append(part.LogErrors, l)
		}
	}
	part.Mark("redis_traces", c.hash)
	if c.nCmp >= 10 && c.nWrite >= 3 {
		part.Mark("redis_nontrivial", c.hash)
	}
	part.Add("redis_sequences", 1)
	if i < 2 {
		part.Sample(6, map[string]interface{}{"stage": "redis", "case": i, "first_steps": c.log[:vfC15RMinInt(len(c.log), 14)]})
	}
}

func vfC15RMaxInt(a, b int) int {
	if a > b {
		return a
	}
	return b
}
func vfC15RMinInt(a, b int) int {
	if a < b {
		return a
	}
	return b
}

// ---------------------------------------------------------------- entry points

// vfC15RedisOwnsReplay: true when env.Replay names a replay file written by
// the Redis stage (TestVerif_C15 then skips the core stage).
func vfC15RedisOwnsReplay(env *vfEnv) bool {
	if env.Replay == "" {
		return false
	}
	b, err := os.ReadFile(env.Replay)
	if err != nil {
		return false
	}
	var doc struct {
		Stage string `json:"stage"`
	}
	_ = vfUnJSON(b, &doc)
	return doc.Stage == "redis" || strings.Contains(filepath.ToSlash(env.Replay), "/redis/")
}

func vfC15RedisN(env *vfEnv) int { return env.N(3000, 90000) }

// vfC15RedisExtendSpec adds the stage's rule, floors and assumptions to C15's evidence spec.
func vfC15RedisExtendSpec(spec *vfSpec) {
	spec.Rule += " || " + vfC15RedisRule
	spec.Floors = append(append([]string{}, spec.Floors...), vfC15RedisFloors...)
	spec.Assumptions = append(append([]string{}, spec.Assumptions...), vfC15RedisAssumptions...)
}

// vfC15RedisStage runs the Redis-style text command stage and reports into part
func vfC15RedisStage(env *vfEnv, part *vfPart) {
	e2 := *env
	e2.Prop = "C15"
	e2.Replays = filepath.Join(env.Replays, "redis")
	if env.Replay != "" {
		if !vfC15RedisOwnsReplay(env) {
			return
		}
		b, _ := os.ReadFile(env.Replay)
		var doc struct {
			Seed int64  `json:"seed"`
			Tier string `json:"tier"`
		}
		if vfUnJSON(b, &doc) == nil && doc.Seed != 0 {
			e2.Seed = doc.Seed
		}
	}
	vfContinueAfterPanic = true
	if e2.Shard >= 0 {
		runtime.GOMAXPROCS(2)
	}
	shards := vfNumCPU()
	if shards > 8 {
		shards = 8
	}
	p := vfRunSharded(nil, &e2, "TestVerif_C15Redis", vfC15RedisN(env), shards, func(pp *vfPart, i int) { vfC15RedisCase(&e2, pp, i) })
	if p == nil {
		return // shard child: the part file has been written
	}
	if part.known == nil {
		part.known = vfLoadKnown(env)
	}
	part.Merge(p)
}

// TestVerif_C15Redis: the stage on its own (development) and the entry point
// of the stage's shard children.
func TestVerif_C15Redis(t *testing.T) {
	start := time.Now()
	env := vfGetEnv("C15")
	if os.Getenv("VERIF_EVIDENCE") == "" {
		env.Evidence = filepath.Join(env.Scratch, "C15-redis-evidence.json") // never the committed C15 evidence
	}
	if os.Getenv("VERIF_REPLAYS") == "" {
		env.Replays = filepath.Join(env.Scratch, "C15-redis-replays")
	}
	part := vfNewPart()
	part.known = vfLoadKnown(env)
	vfC15RedisStage(env, part)
	if env.Shard >= 0 {
		return
	}
	spec := &vfSpec{Prop: "C15", Level: "exploration", Rule: vfC15RedisRule, NontrivSet: "redis_nontrivial", Assumptions: vfC15RedisAssumptions, Floors: vfC15RedisFloors}
	vfFinish(t, env, spec, part, start)
}
