//go:build verif

package server

// C16 - log compaction preserves the recoverable state, even if interrupted
// (engine E4; crash points = the verif hook points of the compaction).
//
// A history with a tiny rotation threshold triggers compactions all the time.
// The compaction goroutine is driven step by step: it is released at its entry
// between two operations, a directory image is taken at every file-system
// mutation it performs (the goroutine stands at the hook, nothing else runs),
// and at a PRNG point it is parked while 0-4 further operations append to the
// current file (compaction at a busy moment), after which a second image of
// that crash point is taken. Oracle (metamorphic): the state recovered from an
// image must equal the state recovered from the reference image = the
// compaction's input files as they were when it started + every other file as
// in the image, both recovered at the virtual time of the image.

import (
	"fmt"
	"os"
	"path/filepath"
	"strings"
	"sync"
	"testing"
	"time"

	"github.com/snower/slock/protocol"
)

var vfC16Assumptions = []string{
	"crash points = the add-only verif hook points after every file-system mutation of the compaction (temporary file created / closed, each input removed, each value file removed, both renames) and around the close / open of a rotation, plus its end; an image is a copy of the directory taken while the goroutine stands at the hook and no operation is in flight",
	"appends concurrent with a compaction are produced by parking the compaction goroutine at a PRNG hook point while 0-4 further operations run; torn writes of the current file are C08's matter",
	"reference image = input files (rewrite file + append files older than the current one) as they were when the compaction started + all other files as in the image; both images are recovered by fresh instances at the virtual time of the image (virtual clock one hour ahead of the wall clock, so neither the loader nor the compaction drops records by time)",
	"compaction triggered by the size threshold, by the admin path (Aof.RewriteAofFile(true) under the log mutex, as BGREWRITEAOF does) and at start-up (the fresh instance's own start-up compaction is instrumented the same way)",
	"fast-key table large enough for the handful of keys (findings/fastkey-race)",
}

type vfC16Image struct {
	Dir   string
	Now   int64
	Point string
	Comp  int         // compaction number within the history
	Phase string      // "at-hook" | "after-appends" | "start-up"
	I0    string      // directory image at the start of that compaction
	Live  *vfSnapshot // the running instance's own state when the image was taken
	Cur0  int         // index of the current append file when it started
}

// vfC16Ctl drives the compaction goroutines of one instance.
type vfC16Ctl struct {
	mu       sync.Mutex
	cond     *sync.Cond
	base     string
	nImg     int
	images   []*vfC16Image
	in       *vfInstance
	dir      string
	waiting  []chan struct{} // goroutines standing at REWRITE_ENTER
	active   bool            // a released compaction has not exited yet
	parkAt   int             // hook point at which the active compaction parks (0 = nowhere)
	parkNth  int             // ... at its n-th hit of that point
	hits     map[int]int
	parked   chan struct{}
	isParked bool
	exited   int
	comp     int
	i0       string
	cur0     int
	skipped  int
	free     bool        // no gating at all (start-up compaction of a recovery)
	live     *vfSnapshot // fixed live state (start-up: the state of the stopped instance)
	phase    string
}

func vfNewC16Ctl(base string, in *vfInstance, dir string) *vfC16Ctl {
	c := &vfC16Ctl{base: base, in: in, dir: dir, hits: map[int]int{}}
	c.cond = sync.NewCond(&c.mu)
	return c
}

func (c *vfC16Ctl) snapshotDir(tag string) string {
	c.nImg++
	d := filepath.Join(c.base, fmt.Sprintf("img-%d-%s", c.nImg, tag))
	_ = vfCopyDir(c.dir, d)
	return d
}

// onPoint runs on the goroutine that hit the hook.
func (c *vfC16Ctl) onPoint(point int) {
	switch point {
	case VP_REWRITE_ENTER:
		if c.free {
			return
		}
		ch := make(chan struct{})
		c.mu.Lock()
		c.waiting = append(c.waiting, ch)
		c.cond.Broadcast()
		c.mu.Unlock()
		<-ch
	case VP_REWRITE_EXIT:
		c.mu.Lock()
		c.exited++
		c.active = false
		c.cond.Broadcast()
		c.mu.Unlock()
	case VP_REWRITE_TMP_CREATED, VP_REWRITE_TMP_CLOSED, VP_REWRITE_REMOVED, VP_REWRITE_REMOVED_DAT, VP_REWRITE_RENAMED, VP_REWRITE_RENAMED_DAT:
		c.mu.Lock()
		if c.i0 == "" {
			c.mu.Unlock()
			return // a compaction that found nothing to do does not get here
		}
		c.hits[point]++
		img := &vfC16Image{Dir: "", Now: c.in.now, Point: vfPointNames[point], Comp: c.comp, Phase: c.phase, I0: c.i0, Cur0: c.cur0, Live: c.live}
		if len(c.images) < 400 {
			if c.in.slock != nil {
				img.Live = vfSnapshotOf(c.in)
			}
			img.Dir = c.snapshotDir(vfPointNames[point])
			c.images = append(c.images, img)
		}
		park := !c.free && c.parkAt == point && c.hits[point] == c.parkNth
		var ch chan struct{}
		if park {
			ch = make(chan struct{})
			c.parked = ch
			c.isParked = true
			c.cond.Broadcast()
		}
		c.mu.Unlock()
		if park {
			<-ch
		}
	}
}

func vfC16HasInputs(dir string) (bool, int) {
	idx := vfAppendIndexes(dir)
	cur := 0
	if len(idx) > 0 {
		cur = idx[len(idx)-1]
	}
	if _, err := os.Stat(filepath.Join(dir, "rewrite.aof")); err == nil {
		return true, cur
	}
	return len(idx) > 1, cur
}

// vfC16Ref builds the reference image of img in dst.
func vfC16Ref(img *vfC16Image, dst string) error {
	_ = os.RemoveAll(dst)
	if err := os.MkdirAll(dst, 0755); err != nil {
		return err
	}
	copyMatching := func(src string, want func(name string, idx int, isRewrite bool) bool) error {
		ents, err := os.ReadDir(src)
		if err != nil {
			return err
		}
		for _, e := range ents {
			n := e.Name()
			base := strings.TrimSuffix(n, ".dat")
			isRewrite := base == "rewrite.aof"
			idx := -1
			if strings.HasPrefix(base, "append.aof.") {
				_, _ = fmt.Sscanf(base[11:], "%d", &idx)
			}
			if !isRewrite && idx < 0 {
				continue // rewrite.aof.tmp and anything else
			}
			if want(n, idx, isRewrite) {
				if err := vfCopyFile(filepath.Join(src, n), filepath.Join(dst, n)); err != nil {
					return err
				}
			}
		}
		return nil
	}
	if err := copyMatching(img.I0, func(n string, idx int, isRewrite bool) bool { return isRewrite || idx < img.Cur0 }); err != nil {
		return err
	}
	return copyMatching(img.Dir, func(n string, idx int, isRewrite bool) bool { return !isRewrite && idx >= img.Cur0 })
}

func vfRunC16Case(env *vfEnv, part *vfPart, caseNo int) {
	rng := vfCaseRand(env.Seed, "C16", caseNo)
	base := vfScratchDir(env, fmt.Sprintf("c16-%d", caseNo))
	defer os.RemoveAll(base)
	dirA := filepath.Join(base, "a")
	cfg := vfInstCfg{Manual: true, NDb: 3}
	cfg.DBConcurrent = uint([]int{1, 2, 2, 8}[rng.Intn(4)])
	cfg.FastKeys = uint([]int{1, 4, 256, 65536}[rng.Intn(4)])
	cfg.AofTime = uint([]int{0, 0, 1, 2}[rng.Intn(4)])
	cfg.AofBuf = uint([]int{64, 128, 4096}[rng.Intn(3)])
	cfg.RewriteSize = uint(12 + 64*rng.Range(5, 24))
	prof := vfE4Profile()
	prof.Steps = [2]int{40, 110}
	stats := map[string]int64{}
	var findings []vfE4Finding
	doc := map[string]interface{}{"case": caseNo, "seed": env.Seed, "property": "C16",
		"config": fmt.Sprintf("shards=%d fastkeys=%d aoftime=%d aofbuf=%d rewritesize=%d", cfg.DBConcurrent, cfg.FastKeys, cfg.AofTime, cfg.AofBuf, cfg.RewriteSize)}

	trA := vfNewRewriteTracker()
	inA, err := vfStartAt(cfg, dirA, vfE4Epoch(), trA)
	if err != nil {
		panic("vf: cannot start leader: " + err.Error())
	}
	_ = vfLogCapture.Take()
	live := inA
	ctl := vfNewC16Ctl(base, inA, dirA)
	ctl.phase = "at-hook"
	defer func() {
		vfKeyEpoch = 0
		if r := recover(); r != nil {
			if live != nil {
				live.abandoned = true
				live.Close()
			}
			panic(r)
		}
	}()
	ph := vfNewE4Phase(inA, rng, &prof, 0, trA)
	ph.manualCompaction = true
	ph.onAof = ctl.onPoint
	parkPoints := []int{0, VP_REWRITE_TMP_CREATED, VP_REWRITE_TMP_CLOSED, VP_REWRITE_REMOVED, VP_REWRITE_REMOVED_DAT, VP_REWRITE_RENAMED, VP_REWRITE_RENAMED_DAT}
	// drive: after every step let the waiting compactions run one at a time
	drive := func() {
		for {
			ctl.mu.Lock()
			if len(ctl.waiting) == 0 {
				ctl.mu.Unlock()
				return
			}
			ch := ctl.waiting[0]
			ctl.waiting = ctl.waiting[1:]
			has, cur := vfC16HasInputs(dirA)
			ctl.comp++
			ctl.hits = map[int]int{}
			ctl.parkAt = parkPoints[rng.Intn(len(parkPoints))]
			ctl.parkNth = rng.Range(1, 2)
			ctl.isParked = false
			ctl.active = true
			ctl.cur0 = cur
			if has {
				ctl.i0 = ctl.snapshotDir("I0")
			} else {
				ctl.i0 = ""
			}
			ctl.phase = "at-hook"
			exitedBefore := ctl.exited
			ctl.mu.Unlock()
			close(ch)
			// wait until it parks or exits
			ctl.mu.Lock()
			for !ctl.isParked && ctl.exited == exitedBefore {
				ctl.cond.Wait()
			}
			parkedNow := ctl.isParked
			ctl.mu.Unlock()
			if parkedNow {
				stats["compactions_parked_"+vfPointNames[ctl.parkAt]]++
				k := rng.Intn(5)
				for i := 0; i < k; i++ {
					op := ph.gen.next()
					if op.Kind == "tick" {
						ph.eng.doTick(op.Ticks)
					} else {
						ph.eng.submit(op)
					}
					ph.step++
					vfAofQuiesce(inA)
					ph.sh.quiescent()
				}
				stats["operations_during_parked_compaction"] += int64(k)
				ctl.mu.Lock()
				if k > 0 && len(ctl.images) < 400 {
					img := &vfC16Image{Now: inA.now, Point: vfPointNames[ctl.parkAt], Comp: ctl.comp, Phase: "after-appends", I0: ctl.i0, Cur0: ctl.cur0, Live: vfSnapshotOf(inA)}
					img.Dir = ctl.snapshotDir(vfPointNames[ctl.parkAt] + "-later")
					ctl.images = append(ctl.images, img)
				}
				ctl.isParked = false
				pch := ctl.parked
				ctl.parked = nil
				ctl.mu.Unlock()
				close(pch)
				ctl.mu.Lock()
				for ctl.exited == exitedBefore {
					ctl.cond.Wait()
				}
				ctl.mu.Unlock()
			}
			if ctl.i0 != "" {
				stats["compactions_with_inputs"]++
				// the main clause: the finished compaction did not change what a restart recovers
				ctl.mu.Lock()
				if len(ctl.images) < 400 {
					img := &vfC16Image{Now: inA.now, Point: "REWRITE_EXIT", Comp: ctl.comp, Phase: "finished", I0: ctl.i0, Cur0: ctl.cur0, Live: vfSnapshotOf(inA)}
					img.Dir = ctl.snapshotDir("EXIT")
					ctl.images = append(ctl.images, img)
				}
				ctl.mu.Unlock()
			} else {
				stats["compactions_without_inputs"]++
			}
		}
	}
	steps := rng.Range(prof.Steps[0], prof.Steps[1])
	for i := 0; i < steps; i++ {
		ph.runTop(ph.gen.next())
		drive()
		if rng.Intn(25) == 0 {
			// the admin path (BGREWRITEAOF): rotate and compact now
			aof := inA.slock.GetAof()
			aof.glock.Lock()
			busy := aof.isRewriting || aof.isWaitRewite
			aof.glock.Unlock()
			if !busy {
				aof.aofGlock.Lock()
				_ = aof.RewriteAofFile(true)
				aof.aofGlock.Unlock()
				stats["admin_rewrites"]++
				// the goroutine is on its way to REWRITE_ENTER
				ctl.mu.Lock()
				for len(ctl.waiting) == 0 {
					ctl.cond.Wait()
				}
				ctl.mu.Unlock()
				drive()
			}
		}
	}
	vfAofQuiesce(inA)
	// every spawned compaction reaches REWRITE_ENTER sooner or later
	for !trA.idle() {
		ctl.mu.Lock()
		for len(ctl.waiting) == 0 && !trA.idle() {
			ctl.mu.Unlock()
			time.Sleep(50 * time.Microsecond)
			ctl.mu.Lock()
		}
		ctl.mu.Unlock()
		drive()
	}
	nowStop := inA.now
	stopSnap := vfSnapshotOf(inA)
	ctl.free = true
	vfStop(inA, trA)
	live = nil
	stats["ops"] += int64(len(ph.eng.opLog))
	for pt := VP_AOF_FLUSH_MID; pt < VP_MAX; pt++ {
		if n := trA.hits[pt]; n > 0 && vfPointNames[pt] != "" {
			stats["hit_"+vfPointNames[pt]] += n
		}
	}
	// ---- start-up compaction: a fresh instance on a copy of the stopped directory
	if has, cur := vfC16HasInputs(dirA); has {
		i0 := filepath.Join(base, "startup-I0")
		_ = vfCopyDir(dirA, i0)
		work := filepath.Join(base, "startup-w")
		_ = vfCopyDir(dirA, work)
		sctl := vfNewC16Ctl(base, nil, work)
		sctl.free = true
		sctl.phase = "start-up"
		sctl.i0, sctl.cur0, sctl.comp = i0, cur, 1000
		sctl.nImg = 5000
		trS := vfNewRewriteTracker()
		sctl.in = &vfInstance{now: nowStop}
		sctl.live = stopSnap
		trS.onPoint = sctl.onPoint
		inS, err := vfStartAt(cfg, work, nowStop, trS)
		if err != nil {
			if inS != nil {
				inS.Close()
			}
			findings = append(findings, vfE4Finding{Clause: "start-failed", Detail: fmt.Sprintf("the start on the stopped directory failed: %v (%s)", err, vfDirListing(dirA))})
		} else {
			live = inS
			vfAofQuiesce(inS)
			trS.wait()
			vfStop(inS, trS)
			live = nil
			img := &vfC16Image{Now: nowStop, Point: "REWRITE_EXIT", Comp: 1000, Phase: "start-up", I0: i0, Cur0: cur, Live: stopSnap}
			img.Dir = sctl.snapshotDir("startup-EXIT")
			sctl.images = append(sctl.images, img)
			ctl.images = append(ctl.images, sctl.images...)
			stats["startup_compactions"]++
		}
	}
	// ---- evaluate the images
	refCache := map[string]*vfSnapshot{}
	work := filepath.Join(base, "w")
	hash := uint64(caseNo)
	order := make([]int, len(ctl.images))
	for i := range order {
		order[i] = i
	}
	maxEval := 48
	if len(order) > maxEval {
		// keep a PRNG subset (every crash point stays represented over the cases)
		for i := len(order) - 1; i > 0; i-- {
			j := rng.Intn(i + 1)
			order[i], order[j] = order[j], order[i]
		}
		order = order[:maxEval]
	}
	for _, ix := range order {
		img := ctl.images[ix]
		if len(findings) > 10 {
			break
		}
		if os.Getenv("VERIF_C16_ONLYFIN") != "" && img.Point != "REWRITE_EXIT" {
			continue
		}
		stats["images"]++
		stats["images_"+img.Point+"_"+img.Phase]++
		desc := fmt.Sprintf("compaction #%d, crash point %s (%s), directory: %s", img.Comp, img.Point, img.Phase, vfDirListing(img.Dir))
		snap, err := vfRecover(cfg, img.Dir, work, img.Now, nil)
		if err != nil {
			findings = append(findings, vfE4Finding{Clause: "start-failed", Sig: "crash-at:" + img.Point, Detail: fmt.Sprintf("the start failed (%v) on the image taken at %s", err, desc)})
			continue
		}
		refKey := fmt.Sprintf("%s|%d|%s", img.I0, img.Now, vfDirListingOf(img.Dir, img.Cur0))
		refSnap, ok := refCache[refKey]
		if !ok {
			ref := filepath.Join(base, "ref")
			if err := vfC16Ref(img, ref); err != nil {
				part.Harness = append(part.Harness, "reference image: "+err.Error())
				continue
			}
			rs, rerr := vfRecover(cfg, ref, work, img.Now, nil)
			if rerr != nil {
				findings = append(findings, vfE4Finding{Clause: "reference-start-failed", Detail: fmt.Sprintf("the start on the reference image (inputs of compaction #%d + current files) failed: %v", img.Comp, rerr)})
				continue
			}
			refSnap = rs
			refCache[refKey] = rs
			stats["reference_images_recovered"]++
		}
		hash = vfMix(hash ^ vfStrHash(snap.canon()))
		if img.Point == "REWRITE_EXIT" || img.Point == "REWRITE_RENAMED_DAT" {
			// compaction is a filter: the records of the new rewrite file are a
			// subsequence (same order, no duplicates) of the records of its inputs
			if msg := vfC16OrderCheck(img); msg != "" {
				findings = append(findings, vfE4Finding{Clause: "rewrite-not-a-subsequence", Detail: fmt.Sprintf("image taken at %s: %s", desc, msg)})
			}
			stats["rewrite_files_order_checked"]++
		}
		diffs := vfC16Diff(snap, refSnap, img.Live, stats)
		if len(diffs) == 0 {
			stats["images_equal_to_reference"]++
			continue
		}
		// attribution: crash-unsafe points first, then per difference
		unsafePoint := img.Point == "REWRITE_REMOVED" || img.Point == "REWRITE_REMOVED_DAT" || img.Point == "REWRITE_RENAMED"
		recs := vfReadLogRecords(img.I0)
		for _, d := range diffs {
			sig := ""
			switch {
			case unsafePoint:
				sig = "crash-at:" + img.Point
			case d.Kind == "value":
				// the value of a key is rebuilt by replaying the value frames of whichever
				// records are left; compaction changes that set (known finding)
				sig = "value-rebuilt-from-the-records-that-are-left"
			default:
				// the open finding is about holds with re-entrant re-lock records (several levels, rebuilt from
				// whichever LOCK records the compaction keeps). A hold that was only UPDATED (flag 0x02: one
				// level, new terms) is not part of it: dropping its superseded update records changes nothing,
				// dropping the latest one does
				nLock, relocks := 0, 0
				for _, r := range recs {
					if r.Db == d.Db && r.Key == d.Key && r.LockId == d.LockId && r.Cmd == 1 {
						nLock++
						if nLock > 1 && r.Flag&0x02 == 0 {
							relocks++
						}
					}
				}
				if relocks > 0 {
					sig = "re-locked-or-updated-hold"
				} else if nLock > 0 {
					// update-flagged records only: the open finding is that compaction drops such a record when its
					// terms no longer equal the hold's. Does the newest record of the hold describe the live hold?
					var last *vfLogRec
					for i := range recs {
						if r := &recs[i]; r.Db == d.Db && r.Key == d.Key && r.LockId == d.LockId && r.Cmd == 1 && r.Flag&0x02 != 0 {
							last = r
						}
					}
					describes := false
					if last != nil && img.Live != nil {
						if lk := img.Live.find(d.Db, d.Key); lk != nil {
							if lh := lk.hold(d.LockId); lh != nil {
								dl := int64(last.CommandTime) + int64(last.ExpriedTime)
								if last.ExpriedFlag&protocol.EXPRIED_FLAG_MINUTE_TIME != 0 {
									dl = int64(last.CommandTime) + int64(last.ExpriedTime)*60
								}
								unl := last.ExpriedFlag&protocol.EXPRIED_FLAG_UNLIMITED_EXPRIED_TIME != 0
								if lh.Count == last.Count && lh.Rcount == last.Rcount && (unl == (lh.EFlag&protocol.EXPRIED_FLAG_UNLIMITED_EXPRIED_TIME != 0)) && (unl || (lh.Deadline-dl <= 2 && dl-lh.Deadline <= 2)) {
									describes = true
								}
							}
						}
					}
					if last != nil && !describes {
						sig = "re-locked-or-updated-hold"
					}
					if last != nil && (img.Live == nil || img.Phase == "start-up") {
						// a compaction at start-up filters the records against the state the loader has just rebuilt,
						// which for an updated hold need not be the stopped instance's (the loader's side of the open
						// finding); "live" is the stopped instance here, so it cannot tell the two recoveries apart
						sig = "re-locked-or-updated-hold"
					}
					if last != nil && describes && img.Live != nil {
						// the image agrees with the running instance and only the replay of the uncompacted input files
						// differs: that is the loader's handling of update records (the C07 side of the open finding),
						// not something the compaction lost
						var ih, lh *vfSnapHold
						if ik := snap.find(d.Db, d.Key); ik != nil {
							ih = ik.hold(d.LockId)
						}
						if lk := img.Live.find(d.Db, d.Key); lk != nil {
							lh = lk.hold(d.LockId)
						}
						if ih != nil && lh != nil && ih.Depth == lh.Depth && ih.Count == lh.Count && ih.Rcount == lh.Rcount {
							tol := vfDeadlineTolerance(lh.EFlag) + 1
							unlL := lh.EFlag&protocol.EXPRIED_FLAG_UNLIMITED_EXPRIED_TIME != 0
							unlI := ih.EFlag&protocol.EXPRIED_FLAG_UNLIMITED_EXPRIED_TIME != 0
							if unlL == unlI && (unlL || (ih.Deadline-lh.Deadline <= tol && lh.Deadline-ih.Deadline <= tol)) {
								sig = "re-locked-or-updated-hold"
								stats["image_agrees_with_the_running_instance"]++
							}
						}
					}
					if last != nil && describes {
						stats["update_record_describes_the_live_hold"]++
					}
				}
				if sig == "" && img.Live != nil {
					// replay re-admits holds through the normal admission rule (C07 finding):
					// once the records of an older holder with a larger Count are compacted
					// away, a key held by more holders than its smallest Count admits cannot
					// be rebuilt
					if lk := img.Live.find(d.Db, d.Key); lk != nil {
						depth, cmin := 0, 0x10000
						for _, lh := range lk.Holds {
							depth += int(lh.Depth)
							if int(lh.Count) < cmin {
								cmin = int(lh.Count)
							}
						}
						if depth-1 > cmin {
							sig = "key-held-by-more-than-its-smallest-count-admits"
						}
					}
				}
			}
			if len(findings) < 3 {
				doc[fmt.Sprintf("image_%d_log", ix)] = strings.Split(vfAofDirText(img.Dir, "image at "+img.Point+" ("+img.Phase+")")+vfAofDirText(img.I0, "directory when the compaction started"), "\n")
			}
			findings = append(findings, vfE4Finding{Clause: "state-differs/" + d.Kind, Sig: sig, Detail: fmt.Sprintf("image taken at %s: %s (reference = the files the compaction started from + the current files of the image)", desc, d.Text)})
		}
	}
	for _, l := range vfLogCapture.Take() {
		_ = l
		stats["server_error_log_lines"]++
	}
	for k, v := range stats {
		part.Add(k, v)
	}
	part.Mark("recovered_states", hash)
	if stats["images_equal_to_reference"] > 0 {
		part.Mark("nontrivial", hash)
	}
	part.Sample(3, map[string]interface{}{"case": caseNo, "config": doc["config"], "compactions": stats["compactions_with_inputs"], "images": stats["images"]})
	wrote := ""
	for _, f := range findings {
		if wrote == "" {
			fl := []string{}
			for _, x := range findings {
				fl = append(fl, x.Clause+": "+x.Detail)
			}
			doc["findings"] = fl
			doc["script"] = ph.eng.scriptDoc(caseNo, env.Seed, nil)
			wrote = vfWriteReplay(env, fmt.Sprintf("case%d.json", caseNo), doc)
		}
		part.Violate(vfViolation{Prop: "C16", Clause: f.Clause, Detail: f.Detail, Case: caseNo, Replay: wrote, Sig: f.Sig})
	}
}

// vfDirListingOf: listing of the files of dir that a reference image takes from it.
func vfDirListingOf(dir string, cur0 int) string {
	ents, _ := os.ReadDir(dir)
	var parts []string
	for _, e := range ents {
		n := e.Name()
		base := strings.TrimSuffix(n, ".dat")
		idx := -1
		if strings.HasPrefix(base, "append.aof.") {
			_, _ = fmt.Sscanf(base[11:], "%d", &idx)
		}
		if idx >= cur0 {
			if fi, err := e.Info(); err == nil {
				parts = append(parts, fmt.Sprintf("%s(%d)", n, fi.Size()))
			}
		}
	}
	return strings.Join(parts, " ")
}

func TestVerif_C16(t *testing.T) {
	start := time.Now()
	vfContinueAfterPanic = true
	env := vfGetEnv("C16")
	n := env.N(96, 6000)
	part := vfRunSharded(t, env, "TestVerif_C16", n, vfNumCPU(), func(part *vfPart, i int) { vfRunC16Case(env, part, i) })
	if part == nil {
		return
	}
	spec := &vfSpec{Prop: "C16", Level: "fault_enumeration",
		Rule:        "case i = PRNG history splitmix(seed,'C16',i) of 40-110 operations with a rotation threshold of 5-24 records (a compaction every few operations, inputs = rewrite file + 1..4 append files), compactions triggered by the threshold, by the admin path and at start-up; a directory image at every hook point of every compaction, a second image after 0-4 operations ran while the compaction was parked there; up to 48 images per history are recovered and compared with the recovery of their reference image; non-trivial = at least one image recovered to the same state as its reference; distinct = hash of the recovered states",
		NontrivSet:  "nontrivial",
		Assumptions: vfC16Assumptions,
		Floors:      []string{"compactions_with_inputs", "images_equal_to_reference", "reference_images_recovered", "startup_compactions", "admin_rewrites", "operations_during_parked_compaction", "images_REWRITE_REMOVED_at-hook", "images_REWRITE_RENAMED_at-hook", "images_REWRITE_EXIT_finished"}}
	vfFinish(t, env, spec, part, start)
}

// vfC16Diff compares the state recovered from a crash image with the state
// recovered from its reference image. Replay is not an exact inverse of the
// history (C07's known findings: re-locked holds, lingering values of keys
// that were unheld in between, admission against changed holders), and a
// compaction legitimately changes WHICH records are replayed; a difference
// between image and reference therefore only counts when the image also
// disagrees with the state the running instance itself had at that moment.
type vfC16D struct {
	Kind   string // hold-extra | hold-terms | hold-missing | value
	Db     uint8
	Key    [16]byte
	LockId [16]byte
	Text   string
}

func vfC16Diff(img, ref, live *vfSnapshot, stats map[string]int64) []vfC16D {
	var diffs []vfC16D
	liveHold := func(db uint8, key, id [16]byte) *vfSnapHold {
		if live == nil {
			return nil
		}
		if k := live.find(db, key); k != nil {
			return k.hold(id)
		}
		return nil
	}
	sameHold := func(a, b *vfSnapHold, tol int64) bool {
		if a.Depth != b.Depth || a.Count != b.Count || a.Rcount != b.Rcount {
			return false
		}
		d := a.Deadline - b.Deadline
		return d <= tol && d >= -tol
	}
	for _, ik := range img.Keys {
		rk := ref.find(ik.Db, ik.Key)
		for i := range ik.Holds {
			ih := &ik.Holds[i]
			var rh *vfSnapHold
			if rk != nil {
				rh = rk.hold(ih.LockId)
			}
			if rh != nil && sameHold(ih, rh, 0) {
				continue
			}
			lh := liveHold(ik.Db, ik.Key, ih.LockId)
			if lh != nil && sameHold(ih, lh, vfDeadlineTolerance(lh.EFlag)) {
				stats["differences_explained_by_the_live_state"]++
				continue
			}
			if rh == nil {
				if lh != nil {
					stats["differences_explained_by_the_live_state"]++
					continue // the image has a hold the running instance has; how exactly replay rebuilds its terms is C07's matter
				}
				diffs = append(diffs, vfC16D{"hold-extra", ik.Db, ik.Key, ih.LockId, fmt.Sprintf("%s L%d is held (depth %d) after recovering the image but neither after recovering the reference nor in the running instance", vfSnapKeyName(ik), vfLockIdIndex(ih.LockId), ih.Depth)})
			} else {
				diffs = append(diffs, vfC16D{"hold-terms", ik.Db, ik.Key, ih.LockId, fmt.Sprintf("%s L%d: image depth/Count/Rcount/deadline %d/%d/%d/%d, reference %d/%d/%d/%d", vfSnapKeyName(ik), vfLockIdIndex(ih.LockId), ih.Depth, ih.Count, ih.Rcount, ih.Deadline, rh.Depth, rh.Count, rh.Rcount, rh.Deadline)})
			}
		}
		// value
		if rk != nil && (rk.HasData != ik.HasData || string(rk.Data) != string(ik.Data)) {
			okLive := false
			if live != nil {
				if lk := live.find(ik.Db, ik.Key); lk != nil {
					a, e1 := vfParseValue(lk.Data)
					b, e2 := vfParseValue(ik.Data)
					okLive = (lk.HasData == ik.HasData && string(lk.Data) == string(ik.Data)) || ((e1 == nil || !lk.HasData) && (e2 == nil || !ik.HasData) && vfValEqual(a, b))
				}
			}
			a, e1 := vfParseValue(rk.Data)
			b, e2 := vfParseValue(ik.Data)
			if (e1 == nil || !rk.HasData) && (e2 == nil || !ik.HasData) && vfValEqual(a, b) {
				okLive = true
			}
			if okLive {
				stats["differences_explained_by_the_live_state"]++
			} else {
				diffs = append(diffs, vfC16D{"value", ik.Db, ik.Key, [16]byte{}, fmt.Sprintf("%s: value %v:%x after recovering the image, %v:%x after recovering the reference", vfSnapKeyName(ik), ik.HasData, ik.Data, rk.HasData, rk.Data)})
			}
		}
	}
	for _, rk := range ref.Keys {
		ik := img.find(rk.Db, rk.Key)
		for i := range rk.Holds {
			rh := &rk.Holds[i]
			if ik != nil && ik.hold(rh.LockId) != nil {
				continue
			}
			if liveHold(rk.Db, rk.Key, rh.LockId) == nil {
				stats["differences_explained_by_the_live_state"]++
				continue // the reference resurrects a hold the running instance no longer had
			}
			diffs = append(diffs, vfC16D{"hold-missing", rk.Db, rk.Key, rh.LockId, fmt.Sprintf("%s L%d is held (depth %d, deadline %d) after recovering the reference and in the running instance but not after recovering the image", vfSnapKeyName(rk), vfLockIdIndex(rh.LockId), rh.Depth, rh.Deadline)})
		}
	}
	return diffs
}

// vfC16OrderCheck: log-record ids (file index, offset) of the image's rewrite
// file against the load-order sequence of the compaction's inputs.
func vfC16OrderCheck(img *vfC16Image) string {
	var input []vfLogRec
	for _, r := range vfReadLogRecords(img.I0) {
		idx := -1
		if strings.HasPrefix(r.File, "append.aof.") {
			_, _ = fmt.Sscanf(r.File[11:], "%d", &idx)
		}
		if r.File == "rewrite.aof" || (idx >= 0 && idx < img.Cur0) {
			input = append(input, r)
		}
	}
	pos := 0
	n := 0
	for _, r := range vfReadLogRecords(img.Dir) {
		if r.File != "rewrite.aof" {
			continue
		}
		n++
		found := false
		for pos < len(input) {
			in := input[pos]
			pos++
			if in.AofIndex == r.AofIndex && in.AofOffset == r.AofOffset && in.Cmd == r.Cmd && in.LockId == r.LockId {
				found = true
				break
			}
		}
		if !found {
			return fmt.Sprintf("record #%d of the new rewrite.aof (log id %d/%d, cmd %d, L%d) is not found in the input files after the record before it: the compaction reordered or duplicated records (%d input records)", n, r.AofIndex, r.AofOffset, r.Cmd, vfLockIdIndex(r.LockId), len(input))
		}
	}
	return ""
}
