//go:build verif

package server

// C18: disconnect semantics. A subject connection (binary or text) registers
// WILL commands, takes holds, leaves a queued request and then ends by client
// close, protocol error or server-side close (QUIT) at a PRNG point relative
// to ticks / grants; an observer connection and the in-package census decide:
// no will effect before the end, each will exactly once and in registration
// order after it, holds survive until unlock / expiry, queued requests end,
// nothing leaks, no reply is misrouted, late replies reach a reconnected
// client with the same client id.

import (
	"fmt"
	"io"
	"strconv"
	"testing"
	"time"

	"github.com/snower/slock/protocol"
)

type vfC18Ctx struct {
	part  *vfPart
	env   *vfEnv
	caseN int
	log   []string
	viol  int
	fail  string // harness failure (inconclusive)
}

func (c *vfC18Ctx) note(f string, a ...interface{}) { c.log = append(c.log, fmt.Sprintf(f, a...)) }
func (c *vfC18Ctx) violate(clause, sig, f string, a ...interface{}) {
	c.viol++
	d := fmt.Sprintf(f, a...)
	c.note("VIOLATION %s: %s", clause, d)
	rp := vfWriteReplay(c.env, fmt.Sprintf("case%d.json", c.caseN), map[string]interface{}{"case": c.caseN, "seed": c.env.Seed, "log": c.log})
	c.part.Violate(vfViolation{Prop: "C18", Clause: clause, Detail: d, Case: c.caseN, Replay: rp, Sig: sig})
}

func vfC18Pollf(cond func() bool) bool {
	deadline := time.Now().Add(vfNetWait)
	for !cond() {
		if time.Now().After(deadline) {
			return false
		}
		time.Sleep(200 * time.Microsecond)
	}
	return true
}

func vfC18Case(env *vfEnv, part *vfPart, i int) {
	rng := vfCaseRand(env.Seed, "C18", i)
	c := &vfC18Ctx{part: part, env: env, caseN: i}
	srv, err := vfStartNetServer(vfInstCfg{Dir: vfScratchDir(env, "c18"), Manual: true, NDb: 1, DBConcurrent: uint(rng.Range(1, 2)), FastKeys: 4})
	if err != nil {
		part.Harness = append(part.Harness, "cannot start server: "+err.Error())
		return
	}
	in := srv.in
	defer in.Close()
	defer func() {
		if c.fail != "" {
			part.Add("inconclusive_cases", 1)
			if part.Counters["inconclusive_cases"] <= 3 {
				part.Inconclusive = append(part.Inconclusive, c.fail)
			}
			if part.Counters["inconclusive_cases"] > 20 {
				part.Harness = append(part.Harness, "too many inconclusive C18 cases; last: "+c.fail)
			}
		}
	}()
	_ = vfLogCapture.Take()
	fail := func(what string, err error) {
		c.fail = fmt.Sprintf("case %d: %s: %v; log=%v", i, what, err, c.log)
	}
	db := in.dbs[0]
	keyW, keyQ, keyH0, keyH1 := vfKey16("c18-W"), vfKey16("c18-Q"), vfKey16("c18-H0"), vfKey16("c18-H1")
	obs := srv.dialBinary("observer", 1)
	defer obs.close()
	if err := obs.init(vfKey16("client-observer")); err != nil {
		fail("observer init", err)
		return
	}
	lockCmd := func(key, lockId [16]byte, timeout, expried, count uint16) *protocol.LockCommand {
		l := protocol.NewLockCommand(0, key, lockId, timeout, expried, count)
		return l
	}
	unlockCmd := func(key, lockId [16]byte) *protocol.LockCommand {
		l := protocol.NewLockCommand(0, key, lockId, 0, 0, 0)
		l.CommandType = protocol.COMMAND_UNLOCK
		return l
	}
	// the observer holds W (shared, carries the value register) and Q (exclusive)
	wl := lockCmd(keyW, vfKey16("obs-W"), 0, 3000, 0xffff)
	wl.Data = protocol.NewLockCommandDataSetString("")
	if r, err := obs.call(wl); err != nil || r.Result != protocol.RESULT_SUCCED {
		fail("observer lock W", fmt.Errorf("%v %+v", err, r))
		return
	}
	if r, err := obs.call(lockCmd(keyQ, vfKey16("obs-Q"), 0, 3000, 0)); err != nil || r.Result != protocol.RESULT_SUCCED {
		fail("observer lock Q", fmt.Errorf("%v %+v", err, r))
		return
	}
	readW := func() (string, bool) {
		q := lockCmd(keyW, vfKey16("obs-probe"), 0, 5, 0)
		q.Flag = protocol.LOCK_FLAG_SHOW_WHEN_LOCKED
		r, err := obs.call(q)
		if err != nil {
			fail("observer show W", err)
			return "", false
		}
		v, perr := vfParseValue(r.Data)
		if perr != nil || v.Absent {
			return "<" + v.String() + ">", true
		}
		return string(v.B), true
	}

	// ---- the subject connection
	text := rng.Chance(40)
	withInit := !text && rng.Chance(70)
	reconnect := withInit && rng.Chance(60)
	clientS := vfKey16(fmt.Sprintf("client-s-%d", i%1000))
	nWills := rng.Intn(5)
	if rng.Chance(15) {
		nWills = rng.Range(5, 7)
	}
	willUnlock := rng.Chance(50)
	// where the will-unlock is registered among the will locks (0 = before all of them, nWills = after all)
	unlockPos := 0
	if willUnlock && nWills > 0 {
		unlockPos = rng.Intn(nWills + 1)
	}
	takeH1 := rng.Chance(70)
	leaveQueued := rng.Chance(70)
	qTimeout := uint16(rng.Range(2, 9))
	h1Expried := uint16(rng.Range(3, 12))
	endMode := rng.Intn(3) // 0 client close, 1 protocol error, 2 server-side close (QUIT)
	c.note("subject text=%v init=%v reconnect=%v wills=%d willUnlock=%v(at %d) takeH1=%v queued=%v qTimeout=%d h1Expried=%d endMode=%d", text, withInit, reconnect, nWills, willUnlock, unlockPos, takeH1, leaveQueued, qTimeout, h1Expried, endMode)
	part.Add(fmt.Sprintf("lifetimes_text_%v", text), 1)
	part.Add(fmt.Sprintf("lifetimes_end_mode_%d", endMode), 1)
	part.Add("wills_registered", int64(nWills))

	var sb *vfBinConn
	var st *vfTextConn
	var sStream *Stream
	letters := "abcdefgh"
	expectW := ""
	var queuedReq [16]byte
	h0Id, h1Id, qId := vfKey16("subj-H0"), vfKey16("subj-H1"), vfKey16("subj-Q")
	if text {
		st = srv.dialText("subject")
		sStream = st.stream
		ok := func(v *vfRespValue, err error, what string) bool {
			if err != nil {
				fail(what, err)
				return false
			}
			return true
		}
		if willUnlock {
			v, err := st.call("LOCK", "c18-H0", "LOCK_ID", "subj-H0", "TIMEOUT", "0", "EXPRIED", "600")
			if !ok(v, err, "text lock H0") {
				return
			}
		}
		textWillUnlock := func() bool {
			v, err := st.call("UNLOCK", "c18-H0", "LOCK_ID", "subj-H0", "WILL", "1")
			return ok(v, err, "text will unlock")
		}
		if willUnlock && unlockPos == 0 && !textWillUnlock() {
			return
		}
		for w := 0; w < nWills; w++ {
			if willUnlock && unlockPos == w && w > 0 && !textWillUnlock() {
				return
			}
			v, err := st.call("LOCK", "c18-W", "LOCK_ID", fmt.Sprintf("will-%d", w), "TIMEOUT", "0", "EXPRIED", "900", "COUNT", "65535", "RCOUNT", "4", "WILL", "1", "APPEND", letters[w:w+1])
			if !ok(v, err, "text will lock") {
				return
			}
			if v.Kind != '+' {
				c.note("text will registration answered %s", v.String())
			}
			expectW += letters[w : w+1]
		}
		if willUnlock && unlockPos == nWills && nWills > 0 && !textWillUnlock() {
			return
		}
		if takeH1 {
			v, err := st.call("LOCK", "c18-H1", "LOCK_ID", "subj-H1", "TIMEOUT", "0", "EXPRIED", strconv.Itoa(int(h1Expried)))
			if !ok(v, err, "text lock H1") {
				return
			}
		}
		if leaveQueued {
			if err := st.send("LOCK", "c18-Q", "LOCK_ID", "subj-Q", "TIMEOUT", strconv.Itoa(int(qTimeout)), "EXPRIED", "30"); err != nil {
				fail("text queued lock", err)
				return
			}
		}
	} else {
		sb = srv.dialBinary("subject", 2)
		sStream = sb.stream
		if withInit {
			if err := sb.init(clientS); err != nil {
				fail("subject init", err)
				return
			}
		}
		if willUnlock {
			if r, err := sb.call(lockCmd(keyH0, h0Id, 0, 600, 0)); err != nil || r.Result != protocol.RESULT_SUCCED {
				fail("subject lock H0", fmt.Errorf("%v %+v", err, r))
				return
			}
		}
		binWillUnlock := func() bool {
			u := unlockCmd(keyH0, h0Id)
			u.CommandType = protocol.COMMAND_WILL_UNLOCK
			if _, err := sb.sendLock(u); err != nil {
				fail("subject will unlock", err)
				return false
			}
			return true
		}
		if willUnlock && unlockPos == 0 && !binWillUnlock() {
			return
		}
		for w := 0; w < nWills; w++ {
			if willUnlock && unlockPos == w && w > 0 && !binWillUnlock() {
				return
			}
			l := lockCmd(keyW, vfKey16(fmt.Sprintf("will-%d", w)), 0, 900, 0xffff)
			l.CommandType = protocol.COMMAND_WILL_LOCK
			l.Rcount = 3 // re-entrant: a will executed twice would show as depth 2 and a doubled letter
			l.Data = protocol.NewLockCommandDataAppendString(letters[w : w+1])
			if _, err := sb.sendLock(l); err != nil {
				fail("subject will lock", err)
				return
			}
			expectW += letters[w : w+1]
		}
		if willUnlock && unlockPos == nWills && nWills > 0 && !binWillUnlock() {
			return
		}
		if takeH1 {
			if r, err := sb.call(lockCmd(keyH1, h1Id, 0, h1Expried, 0)); err != nil || r.Result != protocol.RESULT_SUCCED {
				fail("subject lock H1", fmt.Errorf("%v %+v", err, r))
				return
			}
		}
		if leaveQueued {
			id, err := sb.sendLock(lockCmd(keyQ, qId, qTimeout, 30, 0))
			if err != nil {
				fail("subject queued lock", err)
				return
			}
			queuedReq = id
		}
		if err := sb.barrier(); err != nil {
			fail("subject barrier", err)
			return
		}
	}
	if leaveQueued {
		// wait until the request is really queued (census), not a wall-clock guess
		if !vfC18Pollf(func() bool {
			cs := vfTakeCensus(db)
			k := cs.find(0, keyQ)
			return k != nil && len(k.Waiters) == 1
		}) {
			fail("queued request never appeared in the wait queue", nil)
			return
		}
	}
	queuedAt := in.now
	h1At := in.now

	// ---- before the end: no will effect, also across some ticks
	preTicks := rng.Intn(3)
	for t := 0; t < preTicks; t++ {
		in.tick(1, rng)
	}
	if v, ok := readW(); !ok {
		return
	} else if v != "" {
		c.violate("will-before-end", "", "value of W is %q before the connection ended (no will may have run)", v)
	}
	cs := vfTakeCensus(db)
	if willUnlock {
		if k := cs.find(0, keyH0); k == nil || len(k.Holds) != 1 {
			c.violate("will-before-end", "", "the hold H0 that the registered will-unlock would release is gone before the connection ended")
		}
	}
	// optionally let the queued request be granted / time out right before the end
	preResolve := rng.Intn(4) // 0 nothing, 1 unlock Q just before the end, 2 tick to the time-out before the end
	if !leaveQueued {
		preResolve = 0
	}
	if text && preResolve == 1 {
		preResolve = 0
	}
	switch preResolve {
	case 1:
		if r, err := obs.call(unlockCmd(keyQ, vfKey16("obs-Q"))); err != nil || r.Result != protocol.RESULT_SUCCED {
			fail("observer unlock Q", fmt.Errorf("%v %+v", err, r))
			return
		}
	case 2:
		for in.now <= queuedAt+int64(qTimeout)+2 {
			in.tick(1, rng)
		}
		if text {
			// the blocked LOCK has been answered TIMEOUT: consume the reply
			if v, err := st.read(); err != nil {
				fail("text read reply of the timed-out LOCK", err)
				return
			} else {
				c.note("queued text LOCK answered %s", vfTrunc(v.String(), 80))
			}
		}
	}

	// ---- overlapping reconnect: the client opens its new connection (same client
	// id) BEFORE the server has seen the end of the old one (half-open or slowly
	// closing socket); the old connection's end must not undo the new registration
	var s2 *vfBinConn
	overlap := reconnect && !text && rng.Chance(40)
	if overlap {
		s2 = srv.dialBinary("subject-reconnected", 2)
		s2.nextReq = 1 << 32
		defer s2.close()
		if err := s2.init(clientS); err != nil {
			fail("overlapping reconnect init", err)
			return
		}
		part.Add("reconnects", 1)
		part.Add("reconnects_before_the_old_connection_ended", 1)
	}
	// ---- end the connection
	switch {
	case endMode == 0:
		if text {
			st.close()
		} else {
			sb.close()
		}
	case endMode == 1:
		if text {
			if leaveQueued && preResolve != 2 {
				st.close() // the connection goroutine is blocked in its LOCK; only a close can end it
			} else {
				_, _ = st.conn.Write([]byte("*x\r\n$-5\r\n\x00\x01garbage\r\n"))
			}
		} else {
			bad := make([]byte, 64)
			bad[0], bad[1], bad[2] = 0x99, 0x77, 1
			_ = sb.write(bad)
		}
	default:
		if text {
			if leaveQueued && preResolve != 2 {
				st.close()
			} else {
				_ = st.send("QUIT")
			}
		} else {
			q := protocol.NewQuitCommand()
			q.RequestId = sb.reqId()
			buf := make([]byte, 64)
			_ = q.Encode(buf)
			_ = sb.write(buf)
		}
	}
	if text && endMode != 0 && !(leaveQueued && preResolve != 2) {
		// net.Pipe writes are synchronous: keep reading so that the server's
		// last replies (error text, +OK of QUIT) do not block its goroutine
		go func() { _, _ = io.Copy(io.Discard, st.conn) }()
	}
	if text && leaveQueued && preResolve != 2 {
		// a text connection blocked in LOCK notices the end only when its
		// request ends: let the queued request time out
		for in.now <= queuedAt+int64(qTimeout)+2 {
			in.tick(1, rng)
			time.Sleep(100 * time.Microsecond)
		}
	}
	if err := vfWaitClosed(sStream); err != nil {
		fail("wait for server-side close", err)
		return
	}
	part.Add("connections_ended", 1)

	// ---- reconnect under the same client id
	if reconnect && !overlap {
		s2 = srv.dialBinary("subject-reconnected", 2)
		s2.nextReq = 1 << 32 // its own RequestIds never collide with the first life
		defer s2.close()
		if err := s2.init(clientS); err != nil {
			fail("reconnect init", err)
			return
		}
		part.Add("reconnects", 1)
	}

	// ---- after the end: wills exactly once, in order
	if v, ok := readW(); !ok {
		return
	} else if v != expectW {
		sig := ""
		if text && nWills > 4 {
			sig = "text-more-than-4-wills"
		}
		c.violate("will-after-end", sig, "after the connection ended the value of W is %q, registered wills should have produced %q (each once, in registration order)", v, expectW)
	} else if nWills > 0 {
		part.Add("will_sequences_verified", 1)
	}
	cs = vfTakeCensus(db)
	if willUnlock {
		if k := cs.find(0, keyH0); k != nil && len(k.Holds) != 0 {
			c.violate("will-after-end", "", "the will-unlock of H0 did not run: H0 is still held after the connection ended")
		} else {
			part.Add("will_unlocks_verified", 1)
		}
	}
	if kw := cs.find(0, keyW); kw != nil {
		for _, h := range kw.Holds {
			if h.Depth != 1 {
				c.violate("will-after-end", "", "a will lock on W has depth %d: it was executed more than once", h.Depth)
				break
			}
		}
	}
	if kw := cs.find(0, keyW); kw == nil || len(kw.Holds) != 1+nWills {
		n := 0
		if kw != nil {
			n = len(kw.Holds)
		}
		sig := ""
		if text && nWills > 4 {
			sig = "text-more-than-4-wills"
		}
		c.violate("will-after-end", sig, "W has %d holders after the end, expected the observer's plus %d will locks", n, nWills)
	}
	// ---- holds it took stay valid until unlocked or expired
	if takeH1 {
		k := cs.find(0, keyH1)
		expired := in.now >= h1At+int64(h1Expried)+1
		if !expired && (k == nil || len(k.Holds) != 1) {
			c.violate("hold-lost", "", "the hold H1 (expiry %ds, taken at %d, now %d) disappeared when its connection ended", h1Expried, h1At, in.now)
		}
		for in.now < h1At+int64(h1Expried)+3 {
			in.tick(1, rng)
		}
		cs = vfTakeCensus(db)
		if k = cs.find(0, keyH1); k != nil && len(k.Holds) != 0 {
			c.violate("hold-not-expired", "", "the hold H1 of the ended connection was not expired %d s after it was taken (expiry %d)", in.now-h1At, h1Expried)
		} else {
			part.Add("orphan_holds_expired", 1)
		}
	}
	// ---- the queued request ends
	if leaveQueued {
		how := rng.Intn(2)
		if preResolve == 0 && how == 0 {
			if r, err := obs.call(unlockCmd(keyQ, vfKey16("obs-Q"))); err != nil || r.Result != protocol.RESULT_SUCCED {
				fail("observer unlock Q", fmt.Errorf("%v %+v", err, r))
				return
			}
		}
		for in.now <= queuedAt+int64(qTimeout)+3 {
			in.tick(1, rng)
		}
		cs = vfTakeCensus(db)
		if k := cs.find(0, keyQ); k != nil && len(k.Waiters) != 0 {
			c.violate("queued-not-ended", "", "the request the connection left queued is still queued %d s after it was queued with timeout %d", in.now-queuedAt, qTimeout)
		} else {
			part.Add("queued_requests_ended", 1)
		}
		if reconnect && !text && preResolve == 0 {
			// the reply was produced after the reconnect: it must reach the new connection, once
			_ = s2.barrier()
			got := s2.find(queuedReq)
			if len(got) != 1 {
				c.violate("late-reply-not-delivered", "", "the reply to the queued request was produced after a client with the same client id reconnected but %d copies reached it", len(got))
			} else {
				part.Add("late_replies_delivered", 1)
			}
		}
	}
	// ---- routing: nobody received a RequestId it did not send
	_ = obs.barrier()
	if f := obs.foreign(); len(f) > 0 {
		c.violate("misrouted", "", "the observer connection received %d reply(ies) with RequestIds it never sent, first: type=%d result=%d", len(f), f[0].Type, f[0].Result)
	}
	if s2 != nil {
		for _, r := range s2.foreign() {
			if !sb.sent[r.ReqId] {
				c.violate("misrouted", "", "the reconnected connection received a reply with a RequestId neither it nor its first life sent")
				break
			}
		}
	}
	part.Add("routing_checked", 1)

	// ---- drain: nothing leaks
	for pass := 0; pass < 4; pass++ {
		cs = vfTakeCensus(db)
		for _, k := range cs.Keys {
			for _, h := range k.Holds {
				u := unlockCmd(k.Key, h.LockId)
				_, _ = obs.call(u)
			}
		}
		in.tick(1, rng)
	}
	for t := 0; t < 45; t++ {
		in.tick(1, rng)
	}
	_ = in.slock.GetAof().WaitFlushAofChannel()
	cs = vfTakeCensus(db)
	if len(cs.Keys) != 0 || cs.State.LockedCount != 0 || cs.State.WaitCount != 0 || cs.LiveRecords != 0 || len(cs.Errors) > 0 {
		c.violate("leak", "", "after the drain: keys=%d LockedCount=%d WaitCount=%d live records=%d errors=%v", len(cs.Keys), cs.State.LockedCount, cs.State.WaitCount, cs.LiveRecords, cs.Errors)
	} else {
		part.Add("drains_clean", 1)
	}
	if c.fail != "" {
		return
	}
	h := vfMix(uint64(nWills)<<8 ^ uint64(endMode)<<4 ^ uint64(preResolve)<<2 ^ uint64(preTicks))
	if text {
		h = vfMix(h ^ 1)
	}
	if reconnect {
		h = vfMix(h ^ 2)
	}
	if willUnlock {
		h = vfMix(h ^ 4)
	}
	if takeH1 {
		h = vfMix(h ^ 8)
	}
	if leaveQueued {
		h = vfMix(h ^ 16 ^ uint64(qTimeout)<<20)
	}
	part.Mark("lifetimes", h)
	if nWills > 0 || leaveQueued || takeH1 {
		part.Mark("nontrivial", h)
	}
	part.Sample(4, map[string]interface{}{"case": i, "log": c.log})
}

func TestVerif_C18(t *testing.T) {
	start := time.Now()
	env := vfGetEnv("C18")
	n := env.N(1500, 50000)
	part := vfRunSharded(t, env, "TestVerif_C18", n, vfNumCPU(), func(part *vfPart, i int) {
		vfC18Case(env, part, i)
	})
	if part == nil {
		return
	}
	spec := &vfSpec{Prop: "C18", Level: "exploration", NontrivSet: "nontrivial",
		Rule: "case i = PRNG connection lifetime splitmix(seed,'C18',i): binary (with / without INIT) or text subject connection registering 0-7 WILL locks (APPEND of distinct letters on one key, so once / in order is read off the value) and optionally a WILL unlock, taking a hold, leaving a queued request, ended by client close / protocol error / QUIT before or after the queued request is granted or timed out, with or without a reconnect under the same client id; decided by an observer connection and the in-package census on a virtual clock; non-trivial = the lifetime had wills, a hold or a queued request; distinct = hash of the scenario parameters",
		Assumptions: []string{"in-memory net.Pipe connections through the real Server.handle", "virtual clock; waits are on events (PING barrier, stream closed, census) with a 20 s watchdog whose firing is inconclusive", "server-side close is produced with QUIT (CLIENT KILL addresses cannot name in-memory connections)"},
		Floors:      []string{"will_sequences_verified", "will_unlocks_verified", "orphan_holds_expired", "queued_requests_ended", "late_replies_delivered", "drains_clean", "lifetimes_text_true", "lifetimes_text_false"}}
	vfFinish(t, env, spec, part, start)
}
