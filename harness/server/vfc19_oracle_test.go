//go:build verif

package server

// C19 oracles over the client-side history, case driver and replay.

import (
	"encoding/json"
	"fmt"
	"math"
	"os"
	"sort"
	"testing"
	"time"

	"github.com/snower/slock/protocol"
)

type vfC19Finding struct {
	Clause  string      `json:"clause"`
	Sig     string      `json:"signature"`
	Detail  string      `json:"detail"`
	Witness interface{} `json:"witness,omitempty"`
}

type vfC19Interval struct {
	S, E  int64
	G, Op int
	Key   int
	Mode  int
	Lid   string
}

func (iv vfC19Interval) String() string {
	e := "open"
	if iv.E != math.MaxInt64 {
		e = fmt.Sprint(iv.E)
	}
	return fmt.Sprintf("g%d/op%d[%d..%s]m%d", iv.G, iv.Op, iv.S, e, iv.Mode)
}

type vfC19Verdict struct {
	Findings []vfC19Finding
	C        map[string]int64 // counters (max_* are maxima)
	Contended bool
}

func (v *vfC19Verdict) add(k string, n int64) { v.C[k] += n }
func (v *vfC19Verdict) max(k string, n int64) {
	if v.C[k] < n {
		v.C[k] = n
	}
}
func (v *vfC19Verdict) find(clause, detail string, w interface{}) {
	for _, f := range v.Findings {
		if f.Clause == clause {
			v.add("more_findings_"+clause, 1)
			return // one witness per clause and case
		}
	}
	v.Findings = append(v.Findings, vfC19Finding{Clause: clause, Sig: clause, Detail: detail, Witness: w})
}

type vfC19OpKey struct{ G, Op int }

// vfC19Check judges one history. probeBusy / probeDone describe the quiescent
// probe (keys that were not free after the case).
func vfC19Check(p *vfC19Params, h []vfC19Ev, probeBusy []int, probeDone bool) *vfC19Verdict {
	v := &vfC19Verdict{C: map[string]int64{}}
	if p.Prim == "event" {
		vfC19CheckEvent(p, h, v)
		return v
	}
	// ---- definite intervals
	firstRel := map[vfC19OpKey]int64{}
	for _, e := range h {
		if e.K == "rel" {
			k := vfC19OpKey{e.G, e.Op}
			if _, ok := firstRel[k]; !ok {
				firstRel[k] = e.T
			}
		}
	}
	byKey := make([][]vfC19Interval, p.Keys)
	for _, e := range h {
		switch e.K {
		case "acq-ok":
			end, ok := firstRel[vfC19OpKey{e.G, e.Op}]
			if !ok || end < e.T {
				end = math.MaxInt64
			}
			byKey[e.Key] = append(byKey[e.Key], vfC19Interval{S: e.T, E: end, G: e.G, Op: e.Op, Key: e.Key, Mode: e.M, Lid: e.Lid})
			v.add("acquires_ok", 1)
		case "acq-fail":
			v.add("acquires_failed", 1)
			v.add(fmt.Sprintf("acquires_failed_code_%d", e.Res), 1)
			if e.Res == protocol.RESULT_TIMEOUT {
				v.add("legit_timeouts", 1)
				v.Contended = true
			}
		case "acq-mismatch", "racq-mismatch":
			v.find("reply-not-for-this-request", fmt.Sprintf("goroutine %d op %d: the acquire on key %d returned success, but the reply belongs to another request (%s): request/response matching is broken, the caller holds nothing", e.G, e.Op, e.Key, e.Err), e)
		case "acq-amb", "racq-amb":
			v.add("acquires_outcome_unknown", 1)
		case "rel-amb", "runl-amb", "xunl-amb":
			v.add("releases_outcome_unknown", 1)
		case "acq-nsent", "rel-nsent", "racq-nsent", "runl-nsent", "xunl-nsent":
			v.add("calls_without_connection", 1)
		case "rel-ok":
			v.add("releases_ok", 1)
		case "rel-fail", "runl-fail":
			v.add("releases_failed", 1)
			v.add(fmt.Sprintf("releases_failed_code_%d", e.Res), 1)
		case "census":
			if e.W > 0 {
				v.add("releases_with_waiters_queued", 1)
				v.add("waiters_seen_queued", int64(e.W))
				v.max("max_waiters_seen_queued", int64(e.W))
				v.Contended = true
			}
		case "racq-ok":
			v.add("rlock_nested_reentries", 1)
			v.max("max_rlock_depth", int64(e.M))
		case "racq-fail":
			v.find("rlock-reentrant-refused", fmt.Sprintf("goroutine %d op %d holds the RLock on key %d and its nested Lock (depth %d) was refused with result %d", e.G, e.Op, e.Key, e.M, e.Res), e)
		}
	}
	capN := p.capacity()
	for k := 0; k < p.Keys; k++ {
		ivs := byKey[k]
		type bound struct {
			T     int64
			Start bool
			I     int
		}
		var bs []bound
		for i, iv := range ivs {
			bs = append(bs, bound{iv.S, true, i})
			if iv.E != math.MaxInt64 {
				bs = append(bs, bound{iv.E, false, i})
			}
		}
		sort.Slice(bs, func(a, b int) bool { return bs[a].T < bs[b].T })
		active := map[int]bool{}
		writers := 0
		for _, b := range bs {
			if !b.Start {
				if active[b.I] {
					delete(active, b.I)
					if p.Prim == "rwlock" && ivs[b.I].Mode == 1 {
						writers--
					}
				}
				continue
			}
			active[b.I] = true
			if p.Prim == "rwlock" && ivs[b.I].Mode == 1 {
				writers++
			}
			n := len(active)
			v.max("max_overlap_"+p.Prim, int64(n))
			bad := false
			clause := ""
			switch p.Prim {
			case "lock", "rlock", "prio":
				bad, clause = n > 1, p.Prim+"-not-exclusive"
			case "sem", "flow":
				bad, clause = n > capN, p.Prim+"-over-capacity"
			case "rwlock":
				bad, clause = writers > 0 && n > 1, "rwlock-writer-not-alone"
				if writers == 0 {
					v.max("max_rwlock_readers_overlap", int64(n))
				}
			}
			if bad {
				var w []string
				for i := range active {
					w = append(w, ivs[i].String())
				}
				sort.Strings(w)
				refused := false
				for i := range active {
					for _, e := range h {
						if (e.K == "rel-fail" || e.K == "runl-fail") && e.G == ivs[i].G && e.Op == ivs[i].Op && (e.Res == protocol.RESULT_UNOWN_ERROR || e.Res == protocol.RESULT_UNLOCK_ERROR) {
							refused = true
						}
					}
				}
				nf := len(v.Findings)
				v.find(clause, fmt.Sprintf("key %d: %d definitely-held intervals overlap at logical time %d (capacity %d): %v", k, n, b.T, capN, w), w)
				if len(v.Findings) > nf && refused {
					v.Findings[nf].Sig = clause + ":release-unowned"
					v.Findings[nf].Detail += "; the release of one of these holders was answered 'not held' (the key was served by two lock managers)"
				}
			}
		}
		// acquires that began while the key was at capacity (client-side contention evidence)
		for _, e := range h {
			if e.K != "acq" || e.Key != k {
				continue
			}
			n, wr := 0, 0
			for _, iv := range ivs {
				if iv.S < e.T && e.T < iv.E {
					n++
					if iv.Mode == 1 {
						wr++
					}
				}
			}
			full := n >= capN
			if p.Prim == "rwlock" {
				full = wr > 0 || (e.M == 1 && n > 0)
			}
			if full {
				v.add("acquires_started_at_capacity", 1)
				v.Contended = true
			}
		}
	}
	switch p.Prim {
	case "sem", "flow":
		if v.C["max_overlap_"+p.Prim] >= int64(capN) {
			v.add(p.Prim+"_reached_n", 1)
			v.add(fmt.Sprintf("%s_reached_n_%d", p.Prim, capN), 1)
		}
	case "rwlock":
		if v.C["max_rwlock_readers_overlap"] >= 2 {
			v.add("rwlock_readers_overlapped", 1)
		}
		// a writer released while waiters were queued behind it
		for _, e := range h {
			if e.K == "census" && e.W > 0 {
				for _, iv := range byKey[e.Key] {
					if iv.G == e.G && iv.Op == e.Op && iv.Mode == 1 {
						v.add("rwlock_writer_excluded_waiters", 1)
					}
				}
			}
		}
	case "rlock":
		vfC19CheckRLockPartial(p, h, v)
	case "prio":
		vfC19CheckPrio(p, h, byKey, firstRel, v)
	}
	if probeDone {
		v.add("quiescent_probes", 1)
		if len(probeBusy) > 0 {
			if p.Prim == "rlock" {
				v.find("rlock-unlock-count", fmt.Sprintf("after every holder had unlocked as many times as it had locked (all answered with success) key(s) %v were still held: a fresh try-lock was refused", probeBusy), probeBusy)
			} else {
				v.add("quiescent_probe_key_still_busy", int64(len(probeBusy)))
			}
		}
	}
	return v
}

// rlock: count the acquisition attempts of other goroutines that ran while a
// holder had unlocked some but not all of its depths (they must not succeed:
// the exclusivity oracle above judges that).
func vfC19CheckRLockPartial(p *vfC19Params, h []vfC19Ev, v *vfC19Verdict) {
	type win struct {
		a, b int64
		key  int
		g    int
	}
	first := map[vfC19OpKey]int64{}
	var wins []win
	for _, e := range h {
		k := vfC19OpKey{e.G, e.Op}
		if e.K == "runl-ok" {
			if _, ok := first[k]; !ok {
				first[k] = e.T
			}
		}
		if e.K == "rel" {
			if a, ok := first[k]; ok {
				wins = append(wins, win{a, e.T, e.Key, e.G})
				delete(first, k)
			}
		}
	}
	if len(wins) == 0 {
		return
	}
	v.add("rlock_partial_unlock_windows", int64(len(wins)))
	open := map[vfC19OpKey]int64{}
	for _, e := range h {
		k := vfC19OpKey{e.G, e.Op}
		switch e.K {
		case "acq":
			open[k] = e.T
		case "acq-ok", "acq-fail", "acq-amb", "acq-nsent", "acq-mismatch":
			s, ok := open[k]
			if !ok {
				continue
			}
			delete(open, k)
			for _, w := range wins {
				if w.key == e.Key && w.g != e.G && s < w.b && w.a < e.T {
					v.add("rlock_partial_unlock_probed", 1)
					break
				}
			}
		}
	}
}

// prio: the hand-over after each release whose census listed queued waiters.
func vfC19CheckPrio(p *vfC19Params, h []vfC19Ev, byKey [][]vfC19Interval, firstRel map[vfC19OpKey]int64, v *vfC19Verdict) {
	for k := 0; k < p.Keys; k++ {
		oks := append([]vfC19Interval(nil), byKey[k]...)
		sort.Slice(oks, func(a, b int) bool { return oks[a].S < oks[b].S })
		prioOf := map[string]int{}
		for _, iv := range oks {
			if iv.Lid != "" {
				prioOf[iv.Lid] = iv.Mode
			}
		}
		for _, e := range h {
			if e.K != "census" || e.Key != k || len(e.Q) == 0 {
				continue
			}
			relT, ok := firstRel[vfC19OpKey{e.G, e.Op}]
			if !ok || relT < e.T {
				continue
			}
			var next *vfC19Interval
			for i := range oks {
				if oks[i].S > relT {
					next = &oks[i]
					break
				}
			}
			if next == nil {
				continue
			}
			inQ := false
			maxAlive, alive := -1, 0
			distinct := map[int]bool{}
			var listed []string
			for _, q := range e.Q {
				pr, acquired := prioOf[q.Lid]
				if !acquired {
					continue // timed out, failed or outcome unknown: not a waiter that had to be served
				}
				alive++
				distinct[pr] = true
				listed = append(listed, fmt.Sprintf("%s:p%d", q.Lid[len(q.Lid)-6:], pr))
				if q.Lid == next.Lid {
					inQ = true
					continue
				}
				if pr > maxAlive {
					maxAlive = pr
				}
			}
			if alive == 0 {
				continue
			}
			v.add("prio_handover_checked", 1)
			if len(distinct) >= 2 {
				v.add("prio_handover_multi_priority", 1)
			}
			if next.Mode < maxAlive {
				if inQ {
					v.find("prio-handover-not-highest", fmt.Sprintf("key %d: goroutine %d released at logical time %d with waiters %v known queued; the next holder g%d/op%d has priority %d although a queued waiter of priority %d was waiting (and acquired later)", k, e.G, relT, listed, next.G, next.Op, next.Mode, maxAlive),
						map[string]interface{}{"release": e, "next": next.String(), "next_priority": next.Mode, "listed": listed})
				} else {
					v.add("prio_next_holder_unlisted_lower_priority", 1)
				}
			}
		}
	}
}

// event: Wait may return success only once the event is set.
func vfC19CheckEvent(p *vfC19Params, h []vfC19Ev, v *vfC19Verdict) {
	type window struct{ a, b int64 } // the event is definitely clear in (a, b)
	wins := make([][]window, p.Keys)
	for k := 0; k < p.Keys; k++ {
		var cur *window
		poisoned := false // a Set with unknown outcome may still take effect at any later time
		if !p.EventSet {
			cur = &window{0, math.MaxInt64}
		}
		for _, e := range h {
			if e.Key != k || e.G != k { // the controller of key k is goroutine k
				continue
			}
			switch e.K {
			case "set":
				if cur != nil {
					cur.b = e.T
					wins[k] = append(wins[k], *cur)
					cur = nil
				}
				v.add("event_sets", 1)
			case "set-amb":
				poisoned = true
				v.add("event_set_outcome_unknown", 1)
			case "set-nsent":
				// the Set was never written: undo is not possible (the window was closed at the call), stay conservative
			case "clr-ok":
				v.add("event_clears", 1)
				if cur == nil && !poisoned {
					cur = &window{e.T, math.MaxInt64}
				}
			case "census":
				if e.W > 0 {
					v.add("releases_with_waiters_queued", 1)
					v.add("waiters_seen_queued", int64(e.W))
					v.max("max_waiters_seen_queued", int64(e.W))
					v.Contended = true
				}
			}
		}
		if cur != nil {
			wins[k] = append(wins[k], *cur)
		}
	}
	open := map[vfC19OpKey]int64{}
	for _, e := range h {
		if e.G < p.Keys {
			continue
		}
		k := vfC19OpKey{e.G, e.Op}
		switch e.K {
		case "wait":
			open[k] = e.T
		case "wait-mismatch":
			v.find("reply-not-for-this-request", fmt.Sprintf("goroutine %d op %d: Wait on event key %d returned success with a reply that belongs to another request (%s)", e.G, e.Op, e.Key, e.Err), e)
		case "wait-ok", "wait-fail", "wait-amb", "wait-nsent":
			s, ok := open[k]
			if !ok {
				continue
			}
			delete(open, k)
			startedClear := false
			var in *window
			for i := range wins[e.Key] {
				w := &wins[e.Key][i]
				if w.a < s && s < w.b {
					startedClear = true
					if e.T < w.b {
						in = w
					}
				}
			}
			switch e.K {
			case "wait-ok":
				v.add("event_waits_ok", 1)
				if in != nil {
					nb := "none"
					if in.b != math.MaxInt64 {
						nb = fmt.Sprint(in.b)
					}
					nf := len(v.Findings)
					v.find("event-wait-before-set", fmt.Sprintf("event key %d (default-set=%v): Wait of goroutine %d op %d was called at logical time %d and returned success at %d, inside the window (%d, %s) in which the event was definitely clear (after a Clear returned / the start of the case, before the next Set was called)", e.Key, p.EventSet, e.G, e.Op, s, e.T, in.a, nb),
						map[string]interface{}{"wait_call": s, "wait_return": e.T, "clear_window": []interface{}{in.a, nb}})
					if len(v.Findings) > nf {
						v.Findings[nf].Sig = fmt.Sprintf("event-wait-before-set:default-set=%v", p.EventSet)
					}
				}
				if startedClear {
					v.add("event_waits_woken_by_set", 1)
					v.Contended = true
				}
			case "wait-fail":
				v.add("event_waits_failed", 1)
				if e.Res == protocol.RESULT_TIMEOUT {
					v.add("legit_timeouts", 1)
					if startedClear {
						v.add("event_waits_timed_out_while_clear", 1)
						v.Contended = true
					}
				} else {
					v.add(fmt.Sprintf("event_waits_failed_code_%d", e.Res), 1)
				}
			case "wait-amb":
				v.add("acquires_outcome_unknown", 1)
			case "wait-nsent":
				v.add("calls_without_connection", 1)
			}
		}
	}
}

// ---------------------------------------------------------------- case driver

type vfC19ReplayDoc struct {
	Case     int            `json:"case"`
	Seed     int64          `json:"seed"`
	Tier     string         `json:"tier"`
	Via      string         `json:"via"`
	Params   *vfC19Params   `json:"params"`
	Findings []vfC19Finding `json:"findings"`
	ProbeBusy []int         `json:"probe_busy,omitempty"`
	ProbeDone bool          `json:"probe_done"`
	History  []vfC19Ev      `json:"history"`
}

var vfC19InconclusiveCases int
var vfC19FollowerNoted bool

func vfC19Case(env *vfEnv, part *vfPart, i int) {
	cl, err := vfC19GetCluster(env)
	if err != nil {
		part.Harness = append(part.Harness, "cannot start the leader: "+err.Error())
		return
	}
	if cl.follower == nil && !vfC19FollowerNoted {
		vfC19FollowerNoted = true
		part.Add("shards_without_follower", 1)
		part.Inconclusive = append(part.Inconclusive, "follower node not available in this shard (forwarding variant runs against the leader): "+cl.followerErr)
	}
	if env.Replay != "" {
		vfC19Replay(env, part, cl)
		return
	}
	p := vfC19Gen(env.Seed, i)
	vfC19RunAndJudge(env, part, cl, p, 0, true)
}

// vfC19RunAndJudge runs one case, judges it, files counters and violations.
// Returns the number of findings.
func vfC19RunAndJudge(env *vfEnv, part *vfPart, cl *vfC19Cluster, p *vfC19Params, salt int, count bool) int {
	_ = vfLogCapture.Take()
	run := vfC19RunCase(cl, p, salt)
	inconclusive := func(why string) {
		vfC19InconclusiveCases++
		part.Add("inconclusive_cases", 1)
		if vfC19InconclusiveCases <= 3 {
			part.Inconclusive = append(part.Inconclusive, fmt.Sprintf("case %d (%s n=%d g=%d conns=%d via=%s reconnect=%d): %s", p.Case, p.Prim, p.N, p.G, p.Conns, p.Via, p.Reconnect, why))
		}
		if vfC19InconclusiveCases > 12 {
			part.Harness = append(part.Harness, "too many inconclusive C19 cases; last: "+why)
		}
	}
	if run.harness != "" {
		inconclusive(run.harness)
		return 0
	}
	if run.wall > vfC19CaseLimit || run.abort != 0 {
		inconclusive(fmt.Sprintf("the case ran %v (limit %v): holds are no longer certainly inside their expiry, history discarded", run.wall, vfC19CaseLimit))
		return 0
	}
	h := run.history()
	unknown := 0
	for _, e := range h {
		switch e.K {
		case "acq-amb", "racq-amb", "rel-amb", "runl-amb", "xunl-amb", "rel-fail", "runl-fail", "rel-nsent", "runl-nsent", "clr-amb", "set-amb":
			unknown++
		}
	}
	if unknown == 0 && p.Prim != "event" {
		run.finalProbe()
		h = run.history()
	}
	v := vfC19Check(p, h, run.probeBusy, run.probeDone)
	if !count {
		return len(v.Findings)
	}
	// ---- evidence
	part.Add("cases_"+p.Prim, 1)
	part.Max("max_case_wall_ms", run.wall.Milliseconds())
	if p.Reconnect != 0 {
		part.Add("wall_ms_reconnect_cases", run.wall.Milliseconds())
	} else {
		part.Add("wall_ms_plain_cases", run.wall.Milliseconds())
	}
	part.Add("history_events", int64(len(h)))
	part.Add("planned_operations", int64(p.TotalOps))
	part.Add("goroutines_total", int64(p.G))
	part.Max("max_goroutines_in_a_case", int64(p.G))
	part.Max("max_connections_in_a_case", int64(p.Conns))
	if p.G > p.Conns {
		part.Add("pipelined_goroutines_on_one_conn", int64(p.G-p.Conns))
	}
	part.Mark("prim_n_goroutines", vfStrHash(fmt.Sprintf("%s/%d/%d", p.Prim, p.capacity(), p.G)))
	part.Mark("goroutines_x_conns", vfStrHash(fmt.Sprintf("%d/%d", p.G, p.Conns)))
	for k, n := range v.C {
		if len(k) > 4 && k[:4] == "max_" {
			part.Max(k, n)
		} else {
			part.Add(k, n)
		}
	}
	if run.twoMgrSeen > 0 {
		part.Add("cases_with_a_key_served_by_two_managers", 1)
		for i := range v.Findings {
			v.Findings[i].Detail += "; during this case the sampler saw a key of the case reachable through two live lock managers at once (fast slot and slow map)"
			if len(v.Findings[i].Sig) < 13 || v.Findings[i].Sig[len(v.Findings[i].Sig)-13:] != ":two-managers" {
				v.Findings[i].Sig = v.Findings[i].Clause + ":two-managers"
			}
		}
	}
	part.Add("herd_waits_tried", run.herdTried)
	part.Add("herd_waits_satisfied", run.herdSatisfied)
	if run.via == "follower" {
		part.Add("cases_via_follower", 1)
	} else if p.Via == "follower" {
		part.Add("cases_via_follower_fell_back_to_leader", 1)
	}
	if p.Reconnect != 0 {
		part.Add("reconnect_cases", 1)
		if run.cutDone != 0 {
			part.Add("reconnects_performed", 1)
			part.Add(fmt.Sprintf("reconnects_mode_%d", p.Reconnect), 1)
			if run.cutInAcq > 0 && run.cutWaiters > 0 {
				part.Add("reconnect_cut_while_waiting", 1)
			}
			if run.reconnected != 0 {
				part.Add("reconnects_client_came_back", 1)
			}
			// acquires that were in flight across the cut and still answered with success
			var cutT int64
			for _, e := range h {
				if e.K == "cut" {
					cutT = e.T
				}
			}
			open := map[vfC19OpKey]int64{}
			for _, e := range h {
				if e.G < 0 || e.G%p.Conns != p.CutConn {
					continue
				}
				k := vfC19OpKey{e.G, e.Op}
				switch e.K {
				case "acq", "wait":
					open[k] = e.T
				case "acq-ok", "wait-ok":
					if s, ok := open[k]; ok && s < cutT && cutT < e.T {
						part.Add("grants_delivered_across_reconnect", 1)
					}
				case "acq-amb", "wait-amb":
					if s, ok := open[k]; ok && s < cutT && cutT < e.T {
						part.Add("in_flight_requests_lost_by_reconnect", 1)
					}
				}
			}
		}
	}
	if errs := vfLogCapture.Take(); len(errs) > 0 {
		part.Add("server_error_log_lines", int64(len(errs)))
		if len(part.LogErrors) < 10 {
			part.LogErrors = append(part.LogErrors, errs[0])
		}
	}
	if v.Contended {
		part.Add("contended_cases", 1)
		part.Add("contended_cases_"+p.Prim, 1)
		if run.via == "follower" {
			part.Add("cases_via_follower_contended", 1)
		}
		part.Mark("nontrivial", p.hash())
		part.Sample(6, map[string]interface{}{"case": p.Case, "prim": p.Prim, "n": p.N, "goroutines": p.G, "conns": p.Conns, "keys": p.Keys, "via": run.via, "reconnect": p.Reconnect,
			"events": len(h), "max_overlap": v.C["max_overlap_"+p.Prim], "waiters_seen_queued": v.C["waiters_seen_queued"], "wall_ms": run.wall.Milliseconds()})
	} else {
		part.Add("trivial_cases", 1)
	}
	for _, f := range v.Findings {
		doc := &vfC19ReplayDoc{Case: p.Case, Seed: p.Seed, Tier: env.Tier, Via: run.via, Params: p, Findings: v.Findings, ProbeBusy: run.probeBusy, ProbeDone: run.probeDone, History: h}
		rp := vfWriteReplay(env, fmt.Sprintf("case%d-%s.json", p.Case, f.Clause), doc)
		sig := f.Sig
		part.Violate(vfViolation{Prop: "C19", Clause: f.Clause, Detail: fmt.Sprintf("%s [prim=%s n=%d goroutines=%d conns=%d keys=%d via=%s reconnect=%d]", f.Detail, p.Prim, p.N, p.G, p.Conns, p.Keys, run.via, p.Reconnect), Case: p.Case, Replay: rp, Sig: sig})
	}
	return len(v.Findings)
}

// vfC19Replay: (1) the recorded history is judged again by the oracle
// (deterministic), (2) the recorded case parameters are executed again a few
// times against a live server (the thread schedule itself cannot be forced).
func vfC19Replay(env *vfEnv, part *vfPart, cl *vfC19Cluster) {
	b, err := os.ReadFile(env.Replay)
	if err != nil {
		part.Harness = append(part.Harness, "cannot read replay: "+err.Error())
		return
	}
	var doc vfC19ReplayDoc
	if err := json.Unmarshal(b, &doc); err != nil || doc.Params == nil {
		part.Harness = append(part.Harness, fmt.Sprintf("replay file has no case parameters (%v)", err))
		return
	}
	p := doc.Params
	part.Add("cases_"+p.Prim, 1)
	v := vfC19Check(p, doc.History, doc.ProbeBusy, doc.ProbeDone)
	fmt.Printf("NOTE: replay of case %d (%s): the recorded history of %d events is judged again: %d finding(s)\n", p.Case, p.Prim, len(doc.History), len(v.Findings))
	for _, f := range v.Findings {
		part.Mark("nontrivial", vfStrHash("recorded-"+f.Clause))
		part.Mark("nontrivial", p.hash())
		part.Violate(vfViolation{Prop: "C19", Clause: f.Clause, Detail: "recorded history: " + f.Detail, Case: p.Case, Replay: env.Replay, Sig: f.Sig})
	}
	reps := 5
	t0 := time.Now()
	live := 0
	for rpt := 0; rpt < reps && time.Since(t0) < 120*time.Second; rpt++ {
		live += vfC19RunAndJudge(env, part, cl, p, 1000+rpt, true)
	}
	fmt.Printf("NOTE: replay of case %d: the case parameters were executed %d more times against a live server: %d finding(s)\n", p.Case, reps, live)
}

// TestVerifC19Plan prints the parameters of one case (debugging aid):
// VERIF_C19_PLAN=seed:case.
func TestVerifC19Plan(t *testing.T) {
	var seed int64
	var c int
	if n, _ := fmt.Sscanf(os.Getenv("VERIF_C19_PLAN"), "%d:%d", &seed, &c); n != 2 {
		return
	}
	b, _ := json.MarshalIndent(vfC19Gen(seed, c), "", " ")
	fmt.Println(string(b))
}

// TestVerifC19Demo: deterministic demonstrations used by /verif/proposed/C19-*.md
// (VERIF_C19_DEMO=event): two default-clear Event.Wait calls, no Set at all; the
// first one times out after 1 s; the second one (10 s) must not return success.
func TestVerifC19Demo(t *testing.T) {
	if os.Getenv("VERIF_C19_DEMO") != "event" {
		return
	}
	env := vfGetEnv("C19")
	cl, err := vfC19GetCluster(env)
	if err != nil {
		fmt.Println("cannot start:", err)
		return
	}
	if cl.follower != nil {
		defer cl.follower.Kill()
	}
	key := vfKey16("c19-demo-event")
	db := cl.ctl.SelectDB(0)
	type out struct {
		who string
		res string
		d   time.Duration
	}
	ch := make(chan out, 2)
	t0 := time.Now()
	wait := func(who string, timeout uint32) {
		e := db.Event(key, 5, 600, false)
		_, err := e.Wait(timeout)
		r := "SUCCESS"
		if err != nil {
			r = "error: " + err.Error()
		}
		ch <- out{who, r, time.Since(t0)}
	}
	go wait("Wait(1 s)", 1)
	time.Sleep(100 * time.Millisecond)
	go wait("Wait(10 s)", 10)
	for i := 0; i < 2; i++ {
		o := <-ch
		fmt.Printf("DEMO %s returned %s after %v (no Set was ever called)\n", o.who, o.res, o.d.Round(10*time.Millisecond))
	}
}
