//go:build verif

package server

// C19: the packaged client-library primitives keep their textbook guarantees
// over TCP.
//
// Every shard process runs a real leader (Server.Listen/Serve on a loopback
// port) in-process and, for the forwarding variant, a follower as a child
// process (the test binary re-executed in node mode, SLAVEOF the leader).
// A case = one primitive, n, 2..64 goroutines on 1..8 client.Client
// connections (through a TCP proxy this file owns when a reconnect is to be
// forced), 1..3 shared keys, a PRNG plan of operations per goroutine. The
// goroutines record a client-side history against one global atomic logical
// clock; the oracles of vfc19_oracle_test.go judge the definitely-held
// intervals. Sleeps / Gosched only shape the interleaving; no verdict depends
// on wall-clock time.

import (
	"bufio"
	"encoding/hex"
	"encoding/json"
	"fmt"
	"net"
	"os"
	"os/exec"
	"runtime"
	"strconv"
	"strings"
	"sync"
	"sync/atomic"
	"testing"
	"time"

	"github.com/snower/slock/client"
	"github.com/snower/slock/protocol"
)

// ---------------------------------------------------------------- nodes

type vfC19NodeCfg struct {
	Dir     string `json:"dir"`
	SlaveOf string `json:"slaveof"`
}

func vfC19ServerConfig(dir string, slaveOf string) *ServerConfig {
	_ = os.MkdirAll(dir, 0755)
	return &ServerConfig{Bind: "127.0.0.1", Port: 0, Log: "-", LogLevel: "ERROR", DataDir: dir,
		DBFastKeyCount: 4096, DBConcurrent: 4, DBLockAofTime: 1, DBLockAofParcentTime: 0.3,
		AofQueueSize: 65536, AofFileRewriteSize: 64 << 20, AofFileBufferSize: 4096,
		AofRingBufferSize: 1 << 20, AofRingBufferMaxSize: 1 << 26, SlaveOf: slaveOf}
}

// vfC19StartServer starts a real server (accept loop on a loopback port chosen
// by the kernel) in this process.
func vfC19StartServer(dir string, slaveOf string) (*SLock, *Server, int, error) {
	sc := vfC19ServerConfig(dir, slaveOf)
	s := NewSLock(sc, vfGetLogger())
	srv := NewServer(s)
	if err := s.Init(srv); err != nil {
		return nil, nil, 0, err
	}
	if err := srv.Listen(); err != nil {
		return nil, nil, 0, err
	}
	port := srv.server.Addr().(*net.TCPAddr).Port
	go srv.Serve()
	return s, srv, port, nil
}

// TestVerifC19Node is the node mode: the test binary re-executed as a follower
// process. It lives until its stdin is closed (the parent died or is done).
func TestVerifC19Node(t *testing.T) {
	raw := os.Getenv("VFC19_NODE")
	if raw == "" {
		return
	}
	var cfg vfC19NodeCfg
	if err := json.Unmarshal([]byte(raw), &cfg); err != nil {
		fmt.Println("VFC19-NODE-ERROR bad config", err)
		return
	}
	s, _, port, err := vfC19StartServer(cfg.Dir, cfg.SlaveOf)
	if err != nil {
		fmt.Println("VFC19-NODE-ERROR", err)
		return
	}
	go func() {
		buf := make([]byte, 64)
		for {
			if _, err := os.Stdin.Read(buf); err != nil {
				os.Exit(0)
			}
		}
	}()
	want := uint8(STATE_LEADER)
	if cfg.SlaveOf != "" {
		want = STATE_FOLLOWER
	}
	deadline := time.Now().Add(60 * time.Second)
	for s.state != want && time.Now().Before(deadline) {
		time.Sleep(5 * time.Millisecond)
	}
	if s.state != want {
		fmt.Printf("VFC19-NODE-ERROR state %d never became %d\n", s.state, want)
		os.Exit(3)
	}
	fmt.Printf("VFC19-NODE-READY port=%d\n", port)
	select {}
}

type vfC19Node struct {
	cmd   *exec.Cmd
	stdin interface{ Close() error }
	port  int
}

func vfC19SpawnNode(cfg vfC19NodeCfg) (*vfC19Node, error) {
	b, _ := json.Marshal(cfg)
	cmd := exec.Command(os.Args[0], "-test.run", "^TestVerifC19Node$", "-test.timeout", "0")
	cmd.Env = append(os.Environ(), "VFC19_NODE="+string(b))
	stdin, err := cmd.StdinPipe()
	if err != nil {
		return nil, err
	}
	stdout, err := cmd.StdoutPipe()
	if err != nil {
		return nil, err
	}
	cmd.Stderr = cmd.Stdout
	if err := cmd.Start(); err != nil {
		return nil, err
	}
	n := &vfC19Node{cmd: cmd, stdin: stdin}
	ready := make(chan error, 1)
	go func() {
		sc := bufio.NewScanner(stdout)
		sc.Buffer(make([]byte, 1<<16), 1<<20)
		done := false
		var tail []string
		for sc.Scan() {
			l := sc.Text()
			if done {
				continue
			}
			if len(tail) < 40 {
				tail = append(tail, l)
			}
			if strings.HasPrefix(l, "VFC19-NODE-READY port=") {
				n.port, _ = strconv.Atoi(strings.TrimPrefix(l, "VFC19-NODE-READY port="))
				done = true
				ready <- nil
			} else if strings.HasPrefix(l, "VFC19-NODE-ERROR") {
				done = true
				ready <- fmt.Errorf("%s", l)
			}
		}
		if !done {
			ready <- fmt.Errorf("node exited before it was ready: %s", strings.Join(tail, " | "))
		}
	}()
	select {
	case err := <-ready:
		if err != nil {
			n.Kill()
			return nil, err
		}
	case <-time.After(90 * time.Second):
		n.Kill()
		return nil, fmt.Errorf("watchdog: node not ready")
	}
	return n, nil
}

func (n *vfC19Node) Kill() {
	_ = n.stdin.Close()
	if n.cmd.Process != nil {
		_ = n.cmd.Process.Kill()
	}
	go func() { _ = n.cmd.Wait() }()
}

// ---------------------------------------------------------------- cluster (one per process)

type vfC19Cluster struct {
	slock       *SLock
	leaderPort  int
	follower    *vfC19Node
	followerErr string
	ctl         *client.Client // direct connection to the leader (probes)
}

var vfC19Cl *vfC19Cluster
var vfC19ClErr error
var vfC19ClOnce sync.Once

func vfC19GetCluster(env *vfEnv) (*vfC19Cluster, error) {
	vfC19ClOnce.Do(func() {
		s, _, port, err := vfC19StartServer(vfScratchDir(env, "c19-leader"), "")
		if err != nil {
			vfC19ClErr = err
			return
		}
		cl := &vfC19Cluster{slock: s, leaderPort: port}
		cl.ctl = client.NewClient("127.0.0.1", uint(port))
		if err := cl.ctl.Open(); err != nil {
			vfC19ClErr = fmt.Errorf("control client: %v", err)
			return
		}
		if os.Getenv("VERIF_C19_NOFOLLOWER") == "" {
			fn, ferr := vfC19SpawnNode(vfC19NodeCfg{Dir: vfScratchDir(env, "c19-follower"), SlaveOf: fmt.Sprintf("127.0.0.1:%d", port)})
			if ferr != nil {
				cl.followerErr = ferr.Error()
			} else {
				cl.follower = fn
			}
		} else {
			cl.followerErr = "disabled by VERIF_C19_NOFOLLOWER"
		}
		vfC19Cl = cl
	})
	return vfC19Cl, vfC19ClErr
}

type vfC19QEnt struct {
	Lid string `json:"lid"`
	P   int    `json:"p"`
}

// census: waiters queued on key in the leader, read under the key's own shard
// mutex exactly as the server's LIST_WAIT handler does (command fields copied
// under the mutex).
func (cl *vfC19Cluster) census(key [16]byte, withIds bool) (locked int, nwait int, q []vfC19QEnt) {
	db := cl.slock.dbs[0]
	if db == nil {
		return 0, 0, nil
	}
	cmd := protocol.LockCommand{LockKey: key}
	m := db.GetLockManager(&cmd)
	if m == nil {
		return 0, 0, nil
	}
	m.glock.LowPriorityLock()
	if m.lockKey != key {
		m.glock.LowPriorityUnlock()
		return 0, 0, nil
	}
	locked = int(m.locked)
	if m.waitLocks != nil {
		for _, node := range m.waitLocks.IterNodes() {
			for _, l := range node {
				if l == nil || l.timeouted || l.command == nil {
					continue
				}
				nwait++
				if withIds {
					p := 0
					if l.command.TimeoutFlag&protocol.TIMEOUT_FLAG_RCOUNT_IS_PRIORITY != 0 {
						p = int(l.command.Rcount)
					}
					q = append(q, vfC19QEnt{Lid: hex.EncodeToString(l.command.LockId[:]), P: p})
				}
			}
		}
	}
	m.glock.LowPriorityUnlock()
	return
}

// twoManagers: diagnostic only (never a verdict): is the key reachable through
// the fast slot AND through the slow map at the same time, by two different
// live managers? (racy reads, confirmed by a second look)
func (cl *vfC19Cluster) twoManagers(key [16]byte) bool {
	db := cl.slock.dbs[0]
	if db == nil {
		return false
	}
	look := func() bool {
		h := (uint32(key[0]) | uint32(key[1])<<8 | uint32(key[2])<<16 | uint32(key[3])<<24) ^ (uint32(key[4]) | uint32(key[5])<<8 | uint32(key[6])<<16 | uint32(key[7])<<24) ^ (uint32(key[8]) | uint32(key[9])<<8 | uint32(key[10])<<16 | uint32(key[11])<<24) ^ (uint32(key[12])<<24 | uint32(key[13])<<16 | uint32(key[14])<<8 | uint32(key[15]))
		fv := &db.fastLocks[h%db.fastKeyCount]
		if atomic.LoadUint32(&fv.lock) != 2 {
			return false
		}
		fm := fv.manager
		if fm == nil || fm.lockKey != key || atomic.LoadUint32(&fm.refCount) == 0xffffffff {
			return false
		}
		db.mGlock.RLock()
		sm := db.locks[key]
		db.mGlock.RUnlock()
		return sm != nil && sm != fm && atomic.LoadUint32(&sm.refCount) != 0xffffffff && sm.lockKey == key
	}
	return look() && look()
}

// ---------------------------------------------------------------- TCP proxy (forced reconnects)

type vfC19Pair struct {
	cl, up  net.Conn
	replied chan struct{}
	once    sync.Once
	keepUp  int32
}

type vfC19Proxy struct {
	ln       net.Listener
	port     int
	upstream string
	mu       sync.Mutex
	pairs    []*vfC19Pair
	accepted int32
}

func vfC19NewProxy(upstream string) (*vfC19Proxy, error) {
	ln, err := net.Listen("tcp", "127.0.0.1:0")
	if err != nil {
		return nil, err
	}
	p := &vfC19Proxy{ln: ln, port: ln.Addr().(*net.TCPAddr).Port, upstream: upstream}
	go p.loop()
	return p, nil
}

func (p *vfC19Proxy) loop() {
	for {
		c, err := p.ln.Accept()
		if err != nil {
			return
		}
		up, err := net.Dial("tcp", p.upstream)
		if err != nil {
			_ = c.Close()
			continue
		}
		pair := &vfC19Pair{cl: c, up: up, replied: make(chan struct{})}
		p.mu.Lock()
		older := p.pairs
		p.pairs = append(p.pairs, pair)
		p.mu.Unlock()
		atomic.AddInt32(&p.accepted, 1)
		for _, o := range older {
			if atomic.LoadInt32(&o.keepUp) == 1 {
				// half-open predecessor: the server side is closed only after the
				// client's INIT on the new connection has been answered
				go func(o *vfC19Pair) {
					select {
					case <-pair.replied:
					case <-time.After(20 * time.Second):
					}
					_ = o.up.Close()
				}(o)
			}
		}
		go func() { // client -> server
			buf := make([]byte, 32768)
			for {
				n, err := pair.cl.Read(buf)
				if n > 0 {
					if _, werr := pair.up.Write(buf[:n]); werr != nil {
						break
					}
				}
				if err != nil {
					break
				}
			}
			_ = pair.cl.Close()
			if atomic.LoadInt32(&pair.keepUp) == 0 {
				_ = pair.up.Close()
			}
		}()
		go func() { // server -> client
			buf := make([]byte, 32768)
			for {
				n, err := pair.up.Read(buf)
				if n > 0 {
					_, werr := pair.cl.Write(buf[:n])
					pair.once.Do(func() { close(pair.replied) })
					if werr != nil && atomic.LoadInt32(&pair.keepUp) == 0 {
						break
					}
				}
				if err != nil {
					break
				}
			}
			_ = pair.cl.Close()
			_ = pair.up.Close()
		}()
	}
}

// cut forces a reconnect of the client behind this proxy. mode 1: both sides
// are closed at once; mode 2: only the client side is closed, the server keeps
// its side (half-open) until the client has re-initialised on a new connection.
func (p *vfC19Proxy) cut(mode int) bool {
	p.mu.Lock()
	defer p.mu.Unlock()
	if len(p.pairs) == 0 {
		return false
	}
	cur := p.pairs[len(p.pairs)-1]
	if mode == 2 {
		atomic.StoreInt32(&cur.keepUp, 1)
		_ = cur.cl.Close()
	} else {
		_ = cur.cl.Close()
		_ = cur.up.Close()
	}
	return true
}

func (p *vfC19Proxy) close() {
	_ = p.ln.Close()
	p.mu.Lock()
	for _, pr := range p.pairs {
		_ = pr.cl.Close()
		_ = pr.up.Close()
	}
	p.mu.Unlock()
}

// ---------------------------------------------------------------- case parameters

var vfC19Prims = []string{"lock", "rlock", "sem", "flow", "rwlock", "prio", "event"}

const (
	vfC19ToLong = iota // 10 s: expected to succeed
	vfC19ToTry         // 0: fails at once when not available
	vfC19ToMs          // a few milliseconds (millisecond time-out flag)
	vfC19ToSec         // 1 s (seconds wheel)
)

type vfC19Op struct {
	Key    int `json:"key"`
	TO     int `json:"to"`
	ToMs   int `json:"to_ms,omitempty"`
	Hold   int `json:"hold"` // 0 none, 1 Gosched x HoldN, 2 sleep HoldN us, 3 sleep HoldN ms
	HoldN  int `json:"hold_n,omitempty"`
	Mode   int `json:"mode"` // rwlock: 1 writer; rlock: depth; prio: priority; event controller: 0 clear 1 set
	Herd   int `json:"herd,omitempty"` // wait (event, capped) until that many waiters are queued before releasing
	HerdMs int `json:"herd_ms,omitempty"`
	Pause  int `json:"pause,omitempty"`
}

type vfC19Params struct {
	Case       int         `json:"case"`
	Seed       int64       `json:"seed"`
	Prim       string      `json:"prim"`
	N          int         `json:"n"`
	G          int         `json:"goroutines"`
	Conns      int         `json:"conns"`
	Keys       int         `json:"keys"`
	Via        string      `json:"via"`
	Reconnect  int         `json:"reconnect"` // 0 none, 1 abrupt, 2 half-open
	CutConn    int         `json:"cut_conn"`
	CutAtPct   int         `json:"cut_at_pct"`
	EventSet   bool        `json:"event_default_set"`
	Plans      [][]vfC19Op `json:"plans"`
	TotalOps   int         `json:"total_ops"`
}

func vfC19Min(a, b int) int {
	if a < b {
		return a
	}
	return b
}

func vfC19Gen(seed int64, i int) *vfC19Params {
	rng := vfCaseRand(seed, "C19", i)
	p := &vfC19Params{Case: i, Seed: seed, Prim: vfC19Prims[i%len(vfC19Prims)]}
	round := i / len(vfC19Prims)
	p.N = 1 + rng.Intn(5)
	switch d := rng.Intn(100); {
	case d < 30:
		p.G = rng.Range(2, 4)
	case d < 60:
		p.G = rng.Range(5, 12)
	case d < 85:
		p.G = rng.Range(13, 32)
	default:
		p.G = rng.Range(33, 64)
	}
	if (p.Prim == "sem" || p.Prim == "flow") && p.G <= p.N && rng.Chance(85) {
		p.G = p.N + 1 + rng.Intn(6)
	}
	if p.Prim == "prio" && p.G < 4 && rng.Chance(80) {
		p.G = rng.Range(4, 10)
	}
	p.Conns = rng.Range(1, vfC19Min(8, p.G))
	if rng.Chance(20) {
		p.Conns = 1
	}
	switch d := rng.Intn(100); {
	case d < 50:
		p.Keys = 1
	case d < 80:
		p.Keys = 2
	default:
		p.Keys = 3
	}
	if p.Prim == "event" {
		if p.G < 3 {
			p.G = 3
		}
		if p.Keys > p.G-1 {
			p.Keys = p.G - 1
		}
		if p.Keys > 2 && p.G < 6 {
			p.Keys = 1
		}
		p.EventSet = rng.Chance(50)
	}
	p.Via = "leader"
	if round%4 == 1 {
		p.Via = "follower"
	}
	if round%5 == 4 {
		p.Reconnect = 1 + rng.Intn(2)
		p.CutConn = rng.Intn(p.Conns)
		p.CutAtPct = rng.Range(10, 45)
	}
	opsPer := rng.Range(160, 360) / p.G
	if opsPer < 2 {
		opsPer = 2
	}
	if opsPer > 14 {
		opsPer = 14
	}
	if p.Reconnect != 0 && opsPer < 4 {
		opsPer = 4
	}
	p.Plans = make([][]vfC19Op, p.G)
	for g := 0; g < p.G; g++ {
		n := opsPer
		ctrl := p.Prim == "event" && g < p.Keys
		if ctrl {
			n = opsPer*2 + 2
		}
		last := 1
		if p.EventSet {
			last = 1 // the first controller op of a default-set event should be a clear
		}
		for o := 0; o < n; o++ {
			op := vfC19Op{Key: rng.Intn(p.Keys)}
			d := rng.Intn(100)
			long := 60
			if p.Reconnect != 0 {
				long = 78
			}
			switch {
			case d < long:
				op.TO = vfC19ToLong
			case d < long+14:
				op.TO = vfC19ToTry
			case d < 97:
				op.TO = vfC19ToMs
				op.ToMs = rng.Range(2, 40)
			default:
				op.TO = vfC19ToSec
			}
			switch d := rng.Intn(100); {
			case d < 25:
				op.Hold = 0
			case d < 60:
				op.Hold, op.HoldN = 1, rng.Range(1, 20)
			case d < 90:
				op.Hold, op.HoldN = 2, rng.Range(20, 400)
			default:
				op.Hold, op.HoldN = 3, rng.Range(1, 3)
			}
			if rng.Chance(35) {
				op.Herd = rng.Range(1, vfC19Min(4, p.G-1))
				op.HerdMs = rng.Range(5, 40)
			}
			op.Pause = rng.Intn(4)
			switch p.Prim {
			case "rwlock":
				if rng.Chance(30) {
					op.Mode = 1
				}
			case "rlock":
				op.Mode = rng.Range(1, 4)
			case "prio":
				op.Mode = rng.Intn(8)
			case "event":
				if ctrl {
					op.Key = g
					if rng.Chance(65) {
						op.Mode = 1 - last
					} else {
						op.Mode = rng.Intn(2)
					}
					if o == n-1 {
						op.Mode = 1 // a controller always ends with Set so that nobody is left waiting
					}
					last = op.Mode
				}
			}
			p.Plans[g] = append(p.Plans[g], op)
			p.TotalOps++
		}
	}
	return p
}

func (p *vfC19Params) hash() uint64 {
	return vfStrHash(fmt.Sprintf("%s/%d/%d/%d/%d/%s/%d/%v", p.Prim, p.N, p.G, p.Conns, p.Keys, p.Via, p.Reconnect, p.EventSet))
}

func (p *vfC19Params) capacity() int {
	switch p.Prim {
	case "sem", "flow":
		return p.N
	}
	return 1
}

// ---------------------------------------------------------------- history

type vfC19Ev struct {
	T   int64       `json:"t"`
	G   int         `json:"g"`
	Op  int         `json:"op"`
	K   string      `json:"k"`
	Key int         `json:"key"`
	M   int         `json:"m,omitempty"`
	Res int         `json:"res,omitempty"`
	Lid string      `json:"lid,omitempty"`
	Q   []vfC19QEnt `json:"q,omitempty"`
	W   int         `json:"w,omitempty"` // waiters seen queued by the census
	Err string      `json:"err,omitempty"`
	Us  int64       `json:"us"` // wall-clock microseconds since the recorder was made: for the reader of a replay file only, no oracle looks at it
}

type vfC19Rec struct {
	g     int
	clock *int64
	evs   []vfC19Ev
	t0    time.Time
}

func (r *vfC19Rec) add(k string, op int, key int, m int) *vfC19Ev {
	t := atomic.AddInt64(r.clock, 1)
	r.evs = append(r.evs, vfC19Ev{T: t, G: r.g, Op: op, K: k, Key: key, M: m, Us: time.Since(r.t0).Microseconds()})
	return &r.evs[len(r.evs)-1]
}

// outcome classes of a client call
const (
	vfC19Ok = iota
	vfC19Fail      // the server answered with an error result
	vfC19Transport // no answer (connection lost / client-side time-out): outcome unknown
	vfC19NotSent   // the client had no connection: the request was never written
	vfC19Mismatch  // a success that answers some other request
)

func vfC19Classify(res *protocol.LockResultCommand, err error) (cls int, code int, lid string, es string) {
	if res != nil {
		lid = hex.EncodeToString(res.LockId[:])
	}
	if err == nil {
		return vfC19Ok, 0, lid, ""
	}
	if err == client.WaitTimeout {
		return vfC19Fail, protocol.RESULT_TIMEOUT, lid, ""
	}
	if le, ok := err.(*client.LockError); ok {
		if le.Result != 0x80 {
			return vfC19Fail, int(le.Result), lid, ""
		}
		if le.Err == client.ClientNotOpenError {
			return vfC19NotSent, -1, lid, le.Err.Error()
		}
		if le.Err != nil {
			es = le.Err.Error()
		}
		return vfC19Transport, -1, lid, es
	}
	return vfC19Transport, -1, lid, err.Error()
}

// ---------------------------------------------------------------- case execution

type vfC19Run struct {
	p        *vfC19Params
	cl       *vfC19Cluster
	keys     [][16]byte
	clients  []*client.Client
	proxies  []*vfC19Proxy
	clock    int64
	recs     []*vfC19Rec
	ctlRec   *vfC19Rec
	inAcqKey [3]int32
	inAcqCon [8]int32
	opsDone  int32
	abort    int32
	starved  int32
	via      string
	// evidence gathered while running
	cutDone       int32
	cutWaiters    int32
	cutInAcq      int32
	reconnected   int32
	herdSatisfied int64
	herdTried     int64
	maxWaitSeen   int64
	sumWaitSeen   int64
	notSentRetry  int64
	relErrors     int64
	twoMgrSeen    int64
	probeBusy     []int
	probeDone     bool
	harness       string
	wall          time.Duration
}

const vfC19Expried = 600 // seconds; far beyond the life of a case (guarded below)
const vfC19CaseLimit = 240 * time.Second

func (r *vfC19Run) timeout(op *vfC19Op) uint32 {
	if op.TO == vfC19ToLong && atomic.LoadInt32(&r.starved) != 0 {
		// a grant was lost with a connection: the key may stay held until expiry, stop queueing for seconds (shapes the run only)
		return 25 | uint32(protocol.TIMEOUT_FLAG_MILLISECOND_TIME)<<16
	}
	switch op.TO {
	case vfC19ToTry:
		return 0
	case vfC19ToMs:
		return uint32(op.ToMs) | uint32(protocol.TIMEOUT_FLAG_MILLISECOND_TIME)<<16
	case vfC19ToSec:
		return 1
	}
	if r.p.Reconnect != 0 {
		return 6
	}
	return 10
}

func vfC19Hold(op *vfC19Op) {
	switch op.Hold {
	case 1:
		for i := 0; i < op.HoldN; i++ {
			runtime.Gosched()
		}
	case 2:
		time.Sleep(time.Duration(op.HoldN) * time.Microsecond)
	case 3:
		time.Sleep(time.Duration(op.HoldN) * time.Millisecond)
	}
}

// herd lets the holder wait (capped; only shapes the interleaving) until the
// census shows k waiters queued on the key, and returns the census.
func (r *vfC19Run) herd(op *vfC19Op, withIds bool) (int, []vfC19QEnt) {
	key := r.keys[op.Key]
	_, n, q := r.cl.census(key, withIds)
	if op.Herd > 0 {
		atomic.AddInt64(&r.herdTried, 1)
		deadline := time.Now().Add(time.Duration(op.HerdMs) * time.Millisecond)
		for n < op.Herd && time.Now().Before(deadline) && atomic.LoadInt32(&r.abort) == 0 {
			time.Sleep(100 * time.Microsecond)
			_, n, q = r.cl.census(key, withIds)
		}
		if n >= op.Herd {
			atomic.AddInt64(&r.herdSatisfied, 1)
		}
	}
	atomic.AddInt64(&r.sumWaitSeen, int64(n))
	for {
		m := atomic.LoadInt64(&r.maxWaitSeen)
		if int64(n) <= m || atomic.CompareAndSwapInt64(&r.maxWaitSeen, m, int64(n)) {
			break
		}
	}
	return n, q
}

type vfC19Call func() (*protocol.LockResultCommand, error)

// acquire performs one acquisition attempt (retrying while the client has no
// connection, i.e. the request is never written) and records it.
func (r *vfC19Run) acquire(rec *vfC19Rec, oi int, op *vfC19Op, kind string, call vfC19Call) (int, string) {
	return r.acquireId(rec, oi, op, kind, nil, call)
}

// acquireId: as acquire; a success must be the answer to this request: it names
// the requested key and (where the harness knows it) the lock id of the request.
func (r *vfC19Run) acquireId(rec *vfC19Rec, oi int, op *vfC19Op, kind string, wantLid *[16]byte, call vfC19Call) (int, string) {
	conn := rec.g % r.p.Conns
	for try := 0; ; try++ {
		atomic.AddInt32(&r.inAcqKey[op.Key], 1)
		atomic.AddInt32(&r.inAcqCon[conn], 1)
		rec.add(kind, oi, op.Key, op.Mode)
		res, err := call()
		cls, code, lid, es := vfC19Classify(res, err)
		var ev *vfC19Ev
		if cls == vfC19Ok && res != nil && (res.LockKey != r.keys[op.Key] || (wantLid != nil && res.LockId != *wantLid)) {
			cls = vfC19Mismatch
		}
		switch cls {
		case vfC19Ok:
			ev = rec.add(kind+"-ok", oi, op.Key, op.Mode)
		case vfC19Mismatch:
			ev = rec.add(kind+"-mismatch", oi, op.Key, op.Mode)
			ev.Err = fmt.Sprintf("success reply names key %x lock id %x", res.LockKey, res.LockId)
		case vfC19Fail:
			ev = rec.add(kind+"-fail", oi, op.Key, op.Mode)
			ev.Res = code
			if op.TO == vfC19ToLong && atomic.LoadInt32(&r.cutDone) != 0 {
				atomic.StoreInt32(&r.starved, 1)
			}
		case vfC19Transport:
			ev = rec.add(kind+"-amb", oi, op.Key, op.Mode)
			ev.Err = es
			atomic.StoreInt32(&r.starved, 1)
		default:
			ev = rec.add(kind+"-nsent", oi, op.Key, op.Mode)
		}
		ev.Lid = lid
		atomic.AddInt32(&r.inAcqKey[op.Key], -1)
		atomic.AddInt32(&r.inAcqCon[conn], -1)
		if cls == vfC19NotSent && try < 60 && atomic.LoadInt32(&r.abort) == 0 {
			atomic.AddInt64(&r.notSentRetry, 1)
			time.Sleep(150 * time.Millisecond)
			continue
		}
		return cls, lid
	}
}

// release performs a release call. retryAmb says whether a call whose outcome
// is unknown may be repeated (only when the release names its own lock id).
func (r *vfC19Run) release(rec *vfC19Rec, oi int, op *vfC19Op, kind string, retryAmb bool, call vfC19Call) int {
	for try := 0; ; try++ {
		rec.add(kind, oi, op.Key, op.Mode)
		res, err := call()
		cls, code, _, es := vfC19Classify(res, err)
		switch cls {
		case vfC19Ok:
			ev := rec.add(kind+"-ok", oi, op.Key, op.Mode)
			if res != nil {
				ev.Res = int(res.Result)
			}
			return cls
		case vfC19Fail:
			ev := rec.add(kind+"-fail", oi, op.Key, op.Mode)
			ev.Res = code
			if try == 0 {
				atomic.AddInt64(&r.relErrors, 1)
			}
			return cls
		case vfC19Transport:
			ev := rec.add(kind+"-amb", oi, op.Key, op.Mode)
			ev.Err = es
			if !retryAmb || try >= 60 || atomic.LoadInt32(&r.abort) != 0 {
				return cls
			}
		default:
			rec.add(kind+"-nsent", oi, op.Key, op.Mode)
			if try >= 80 || atomic.LoadInt32(&r.abort) != 0 {
				return cls
			}
		}
		time.Sleep(150 * time.Millisecond)
	}
}

func (r *vfC19Run) goroutine(g int, start chan struct{}, wg *sync.WaitGroup) {
	defer wg.Done()
	rec := r.recs[g]
	p := r.p
	c := r.clients[g%p.Conns]
	db := c.SelectDB(0)
	plan := p.Plans[g]
	var events []*client.Event
	if p.Prim == "event" {
		for k := 0; k < p.Keys; k++ {
			events = append(events, db.Event(r.keys[k], 5, vfC19Expried, p.EventSet))
		}
	}
	<-start
	for oi := range plan {
		if atomic.LoadInt32(&r.abort) != 0 {
			return
		}
		op := &plan[oi]
		key := r.keys[op.Key]
		to := r.timeout(op)
		for i := 0; i < op.Pause; i++ {
			runtime.Gosched()
		}
		switch p.Prim {
		case "lock":
			l := db.Lock(key, to, vfC19Expried)
			lid := l.GetLockId()
			if cls, _ := r.acquireId(rec, oi, op, "acq", &lid, l.Lock); cls == vfC19Ok {
				vfC19Hold(op)
				n, _ := r.herd(op, false)
				rec.add("census", oi, op.Key, 0).W = n
				r.release(rec, oi, op, "rel", true, l.Unlock)
			}
		case "sem":
			s := db.Semaphore(key, to, vfC19Expried, uint16(p.N))
			if cls, _ := r.acquire(rec, oi, op, "acq", s.Acquire); cls == vfC19Ok {
				vfC19Hold(op)
				n, _ := r.herd(op, false)
				rec.add("census", oi, op.Key, 0).W = n
				// Release frees the oldest permit (no lock id): never repeat a call whose outcome is unknown
				r.release(rec, oi, op, "rel", false, s.Release)
			}
		case "flow":
			f := db.MaxConcurrentFlow(key, uint16(p.N), to, vfC19Expried)
			if cls, _ := r.acquire(rec, oi, op, "acq", f.Acquire); cls == vfC19Ok {
				vfC19Hold(op)
				n, _ := r.herd(op, false)
				rec.add("census", oi, op.Key, 0).W = n
				r.release(rec, oi, op, "rel", true, f.Release)
			}
		case "rwlock":
			rw := db.RWLock(key, to, vfC19Expried)
			acq, rel := rw.RLock, rw.RUnlock
			if op.Mode == 1 {
				acq, rel = rw.Lock, rw.Unlock
			}
			if cls, _ := r.acquire(rec, oi, op, "acq", acq); cls == vfC19Ok {
				vfC19Hold(op)
				n, _ := r.herd(op, false)
				rec.add("census", oi, op.Key, 0).W = n
				r.release(rec, oi, op, "rel", op.Mode == 1, rel)
			}
		case "prio":
			pl := db.PriorityLock(key, uint8(op.Mode), to, vfC19Expried)
			if cls, _ := r.acquire(rec, oi, op, "acq", pl.Lock); cls == vfC19Ok {
				vfC19Hold(op)
				n, q := r.herd(op, true)
				ev := rec.add("census", oi, op.Key, 0)
				ev.W, ev.Q = n, q
				r.release(rec, oi, op, "rel", true, pl.Unlock)
			}
		case "rlock":
			r.rlockOp(rec, oi, op, db.RLock(key, to, vfC19Expried))
		case "event":
			e := events[op.Key]
			if g < p.Keys {
				r.eventCtrl(rec, oi, op, e)
			} else {
				r.acquire(rec, oi, op, "wait", func() (*protocol.LockResultCommand, error) { return e.Wait(to) })
			}
		}
		atomic.AddInt32(&r.opsDone, 1)
	}
}

// rlockOp: k nested locks, then k unlocks. The definite hold lasts from the
// first successful Lock to the call of the d-th unlock that may have been
// processed, d = number of Lock calls that definitely succeeded.
func (r *vfC19Run) rlockOp(rec *vfC19Rec, oi int, op *vfC19Op, rl *client.RLock) {
	cls, _ := r.acquire(rec, oi, op, "acq", rl.Lock)
	if cls != vfC19Ok {
		return
	}
	d, m := 1, 1
	for j := 2; j <= op.Mode; j++ {
		runtime.Gosched()
		sub := *op
		sub.Mode = j
		c, _ := r.acquire(rec, oi, &sub, "racq", rl.Lock)
		switch c {
		case vfC19Ok:
			d++
			m++
		case vfC19Transport:
			m++
		}
	}
	vfC19Hold(op)
	n, _ := r.herd(op, false)
	rec.add("census", oi, op.Key, d).W = n
	processed := 0 // unlock calls that may have been processed by the server
	for attempts := 0; processed < m && attempts < 100 && atomic.LoadInt32(&r.abort) == 0; attempts++ {
		kind := "xunl"
		if processed+1 < d {
			kind = "runl"
		} else if processed+1 == d {
			kind = "rel"
		}
		rec.add(kind, oi, op.Key, processed+1)
		res, err := rl.Unlock()
		c, code, _, es := vfC19Classify(res, err)
		switch c {
		case vfC19Ok:
			rec.add(kind+"-ok", oi, op.Key, processed+1)
			processed++
		case vfC19Fail:
			ev := rec.add(kind+"-fail", oi, op.Key, processed+1)
			ev.Res = code
			if processed < d {
				atomic.AddInt64(&r.relErrors, 1)
			}
			return // the server says nothing is held any more
		case vfC19Transport:
			ev := rec.add(kind+"-amb", oi, op.Key, processed+1)
			ev.Err = es
			processed++ // may have been processed
			time.Sleep(150 * time.Millisecond)
		default:
			rec.add(kind+"-nsent", oi, op.Key, processed+1) // never written: not an unlock attempt
			time.Sleep(150 * time.Millisecond)
		}
		if kind == "runl" {
			// others get a chance to try while some, but not all, depths are released
			for i := 0; i < 5; i++ {
				runtime.Gosched()
			}
			if op.Hold >= 2 {
				time.Sleep(time.Duration(20+op.HoldN%200) * time.Microsecond)
			}
		}
	}
}

func (r *vfC19Run) eventCtrl(rec *vfC19Rec, oi int, op *vfC19Op, e *client.Event) {
	if op.Mode == 0 {
		cls := r.release(rec, oi, op, "clr", true, e.Clear)
		if cls == vfC19Ok {
			n, _ := r.herd(op, false)
			rec.add("census", oi, op.Key, 0).W = n
		}
	} else {
		r.release(rec, oi, op, "set", true, e.Set)
	}
	vfC19Hold(op)
}

// chaos forces the reconnect: once the planned share of operations is done it
// waits (event, capped) until a goroutine of the target connection is inside
// an acquire call, then cuts the connection.
func (r *vfC19Run) chaos(done chan struct{}) {
	p := r.p
	threshold := int32(p.TotalOps * p.CutAtPct / 100)
	for atomic.LoadInt32(&r.opsDone) < threshold {
		select {
		case <-done:
			return
		default:
		}
		time.Sleep(200 * time.Microsecond)
	}
	deadline := time.Now().Add(2 * time.Second)
	for time.Now().Before(deadline) {
		if atomic.LoadInt32(&r.inAcqCon[p.CutConn]) > 0 {
			w := 0
			for k := 0; k < p.Keys; k++ {
				_, n, _ := r.cl.census(r.keys[k], false)
				w += n
			}
			if w > 0 {
				break
			}
		}
		select {
		case <-done:
			return
		default:
		}
		time.Sleep(200 * time.Microsecond)
	}
	w := 0
	for k := 0; k < p.Keys; k++ {
		_, n, _ := r.cl.census(r.keys[k], false)
		w += n
	}
	atomic.StoreInt32(&r.cutWaiters, int32(w))
	atomic.StoreInt32(&r.cutInAcq, atomic.LoadInt32(&r.inAcqCon[p.CutConn]))
	before := atomic.LoadInt32(&r.proxies[p.CutConn].accepted)
	ev := r.ctlRec.add("cut", 0, 0, p.Reconnect)
	ev.W = w
	ev.Res = p.CutConn
	if r.proxies[p.CutConn].cut(p.Reconnect) {
		atomic.StoreInt32(&r.cutDone, 1)
	}
	// observe the client coming back (evidence only)
	for i := 0; i < 1500; i++ {
		if atomic.LoadInt32(&r.proxies[p.CutConn].accepted) > before {
			atomic.StoreInt32(&r.reconnected, 1)
			r.ctlRec.add("reconnected", 0, 0, 0).Res = p.CutConn
			return
		}
		select {
		case <-done:
			return
		default:
		}
		time.Sleep(10 * time.Millisecond)
	}
}

func vfC19KeyName(caseN int, k int) [16]byte {
	return vfKey16(fmt.Sprintf("c19-%07d-%d", caseN%10000000, k))
}

func vfC19RunCase(cl *vfC19Cluster, p *vfC19Params, keySalt int) *vfC19Run {
	r := &vfC19Run{p: p, cl: cl, via: "leader"}
	t0 := time.Now()
	defer func() { r.wall = time.Since(t0) }()
	for k := 0; k < p.Keys; k++ {
		r.keys = append(r.keys, vfC19KeyName(p.Case*37+keySalt, k))
	}
	upstreamPort := cl.leaderPort
	if p.Via == "follower" && cl.follower != nil {
		upstreamPort = cl.follower.port
		r.via = "follower"
	}
	defer func() {
		for _, c := range r.clients {
			go func(c *client.Client) { _ = c.Close() }(c)
		}
		for _, px := range r.proxies {
			if px != nil {
				go func(px *vfC19Proxy) {
					time.Sleep(4 * time.Second) // let the clients finish closing first
					px.close()
				}(px)
			}
		}
	}()
	for c := 0; c < p.Conns; c++ {
		port := upstreamPort
		var px *vfC19Proxy
		if p.Reconnect != 0 {
			var err error
			px, err = vfC19NewProxy(fmt.Sprintf("127.0.0.1:%d", upstreamPort))
			if err != nil {
				r.harness = "cannot start proxy: " + err.Error()
				return r
			}
			port = px.port
		}
		r.proxies = append(r.proxies, px)
		c := client.NewClient("127.0.0.1", uint(port))
		opened := make(chan error, 1)
		go func() { opened <- c.Open() }()
		select {
		case err := <-opened:
			if err != nil {
				r.harness = "cannot open client: " + err.Error()
				return r
			}
		case <-time.After(15 * time.Second):
			r.harness = fmt.Sprintf("watchdog: client.Open through %s did not return (INIT not answered)", r.via)
			return r
		}
		r.clients = append(r.clients, c)
	}
	for g := 0; g < p.G; g++ {
		r.recs = append(r.recs, &vfC19Rec{g: g, clock: &r.clock, t0: t0})
	}
	r.ctlRec = &vfC19Rec{g: -1, clock: &r.clock, t0: t0}
	start := make(chan struct{})
	done := make(chan struct{})
	var wg sync.WaitGroup
	for g := 0; g < p.G; g++ {
		wg.Add(1)
		go r.goroutine(g, start, &wg)
	}
	var cwg sync.WaitGroup
	cwg.Add(1)
	go func() { // diagnostic sampler: a key served by two lock managers at once
		defer cwg.Done()
		for {
			select {
			case <-done:
				return
			default:
			}
			for k := range r.keys {
				if cl.twoManagers(r.keys[k]) {
					if atomic.AddInt64(&r.twoMgrSeen, 1) == 1 {
						r.ctlRec.add("two-managers", 0, k, 0)
					}
				}
			}
			time.Sleep(150 * time.Microsecond)
		}
	}()
	if p.Reconnect != 0 {
		cwg.Add(1)
		go func() { defer cwg.Done(); r.chaos(done) }()
	}
	close(start)
	fin := make(chan struct{})
	go func() { wg.Wait(); close(fin) }()
	select {
	case <-fin:
	case <-time.After(vfC19CaseLimit):
		atomic.StoreInt32(&r.abort, 1)
		select {
		case <-fin:
		case <-time.After(60 * time.Second):
			r.harness = "watchdog: goroutines of the case did not finish"
			close(done)
			return r
		}
	}
	close(done)
	cwg.Wait()
	return r
}

// finalProbe: after every goroutine is done and every release was answered,
// each key must be free again (a fresh try-lock through the control connection
// succeeds). Only called for cases without unknown outcomes.
func (r *vfC19Run) finalProbe() {
	r.probeDone = true
	for k := range r.keys {
		l := r.cl.ctl.Lock(r.keys[k], 0, 5)
		rec := r.ctlRec
		rec.add("probe", 0, k, 0)
		res, err := l.Lock()
		cls, code, _, es := vfC19Classify(res, err)
		switch cls {
		case vfC19Ok:
			rec.add("probe-ok", 0, k, 0)
			_, _ = l.Unlock()
		case vfC19Fail:
			rec.add("probe-fail", 0, k, 0).Res = code
			r.probeBusy = append(r.probeBusy, k)
		default:
			rec.add("probe-amb", 0, k, 0).Err = es
			r.probeDone = false
		}
	}
}

func (r *vfC19Run) history() []vfC19Ev {
	var all []vfC19Ev
	for _, rec := range r.recs {
		all = append(all, rec.evs...)
	}
	if r.ctlRec != nil {
		all = append(all, r.ctlRec.evs...)
	}
	// T is unique: a counting sort by T
	out := make([]vfC19Ev, len(all))
	for _, e := range all {
		if e.T >= 1 && int(e.T) <= len(all) {
			out[e.T-1] = e
		}
	}
	return out
}

// ---------------------------------------------------------------- test entry

func TestVerif_C19(t *testing.T) {
	start := time.Now()
	env := vfGetEnv("C19")
	if env.Replay != "" {
		var doc struct {
			Seed int64 `json:"seed"`
		}
		if b, err := os.ReadFile(env.Replay); err == nil && json.Unmarshal(b, &doc) == nil && doc.Seed != 0 {
			env.Seed = doc.Seed
		}
	}
	n := env.N(84, 3500)
	vfContinueAfterPanic = true
	shards := 12
	if env.Thorough() {
		shards = 14
	}
	only := map[int]bool{} // debugging aid: VERIF_C19_ONLY=case[,case...] runs just these cases
	for _, f := range strings.Split(os.Getenv("VERIF_C19_ONLY"), ",") {
		if v, err := strconv.Atoi(f); err == nil {
			only[v] = true
		}
	}
	nLease := env.N(4, 120)
	part := vfRunSharded(t, env, "TestVerif_C19", n+nLease, shards, func(part *vfPart, i int) {
		if len(only) > 0 && !only[i] {
			return
		}
		if i >= n {
			// lease cases (vfc19lease_test.go): short expiry, the lease of a hold granted from the queue
			vfC19LeaseCase(env, part, i-n, i)
			return
		}
		if rep, _ := strconv.Atoi(os.Getenv("VERIF_C19_REPEAT")); rep > 1 && env.Replay == "" { // debugging aid
			if cl, err := vfC19GetCluster(env); err == nil {
				for k := 0; k < rep && part.unknownViol == 0; k++ {
					vfC19RunAndJudge(env, part, cl, vfC19Gen(env.Seed, i), 5000+k, true)
				}
			}
			return
		}
		vfC19Case(env, part, i)
	})
	if env.Shard >= 0 && vfC19Cl != nil && vfC19Cl.follower != nil {
		vfC19Cl.follower.Kill()
	}
	if part == nil {
		return
	}
	if env.Replay != "" && vfC19Cl != nil && vfC19Cl.follower != nil {
		vfC19Cl.follower.Kill()
	}
	spec := &vfSpec{Prop: "C19", Level: "exploration", NontrivSet: "nontrivial",
		Rule: "case i: primitive = (lock, rlock, sem, flow, rwlock, prio, event)[i mod 7]; PRNG splitmix(seed,'C19',i) draws n in 1..5, 2..64 goroutines on 1..8 client.Client connections, 1..3 keys and a plan of operations per goroutine (time-out kind long / try / milliseconds / 1 s, hold shape, herd = holder waits for k queued waiters seen by the server-side census before releasing); rounds (i div 7) mod 4 == 1 go through the follower's forwarding port, rounds mod 5 == 4 force a reconnect (abrupt or half-open) through a TCP proxy while a goroutine of that connection is inside an acquire call; non-trivial = contention was observed in the case (queued waiters seen by the census, a time-out, or an acquire that started while the key was at capacity); distinct = hash of (primitive, n, goroutines, connections, keys, route, reconnect mode)" + vfC19LeaseRule,
		Assumptions: []string{
			"real TCP on loopback: leader in-process in every shard process, follower = the test binary re-executed in node mode with SLAVEOF; clients are the repository's client.Client",
			"a hold is definite from the return of a successful acquire (timestamp taken after the call) to the call of its release (timestamp taken before the call), both on one atomic logical clock; calls without an answer (connection lost, client-side time-out) are neither held nor not held",
			"expiry of holds is 600 s; a case that ran longer than 240 s is discarded as inconclusive (the lease cases use 3-5 s and judge by A's Unlock call + E)",
			"PriorityLock: the waiters listed by the census taken by the holder before it calls Unlock are 'known queued'; the next holder must not have a lower priority than a listed waiter that later acquired; a next holder that was not listed (a later arrival that found the lock momentarily free) is counted, not judged",
			"RLock: 'as many unlocks as locks' is also judged at quiescence: after a case without unknown outcomes every key must be free for a fresh try-lock",
			"Event: a Wait success is a violation iff its whole call..return interval lies after the return of a successful Clear (or, for a default-clear event, the start of the case) and before the call of the next Set of the (sequential) controller of that key",
			"Semaphore.Release frees the oldest permit (no lock id), so a release whose outcome is unknown is never repeated",
		},
		Floors: []string{"contended_cases", "cases_via_follower_contended", "reconnects_performed", "reconnect_cut_while_waiting", "sem_reached_n", "flow_reached_n", "rwlock_readers_overlapped", "rwlock_writer_excluded_waiters", "prio_handover_multi_priority", "event_waits_woken_by_set", "event_waits_timed_out_while_clear", "rlock_nested_reentries", "rlock_partial_unlock_probed", "pipelined_goroutines_on_one_conn", "legit_timeouts", "lease_scenarios_judged", "lease_waiters_granted_from_the_queue"}}
	vfFinish(t, env, spec, part, start)
}

