//go:build verif

package server

// Lease cases of C19: the other cases take their holds with a 600 s expiry, so the lease of a
// hold never matters. Here three clients use one Lock with a short expiry E through the
// repository's client library: A holds, B and C queue behind it; A releases; the next holder X
// stays inside for less than E; the last one Y must not get in before X has released.
//
// Oracle (sound on a loaded machine): X was granted no earlier than A called Unlock (A held the
// key until then and the capacity is one), and the server does not end a hold before E has
// passed since its grant. So until tA_release_call + E the lock is X's unless X has called
// Unlock. If Y's acquire returns successfully before that moment and before X called Unlock,
// two clients are inside the lock. X's own Unlock, called before that moment, must succeed.

import (
	"fmt"
	"sync"
	"sync/atomic"
	"time"

	"github.com/snower/slock/client"
	"github.com/snower/slock/protocol"
)

const vfC19LeaseScenarios = 6

var vfC19LeaseFloors = []string{"lease_scenarios_judged", "lease_waiters_granted_from_the_queue"}

const vfC19LeaseRule = "; lease cases (4 quick / 120 thorough, 6 concurrent scenarios each): Lock with expiry E in 3..5 s through client.Client; A holds 1.5-2.5 s while B and C queue, the next holder stays inside for E-1.2 s, the last one must not acquire before the holder called Unlock or A's Unlock call + E has passed, and the holder's Unlock inside its lease must succeed"

type vfC19LeaseActor struct {
	cl   *client.Client
	lock *client.Lock
	acq  int64 // ns since the scenario's base when the acquire returned successfully (0 = not / failed)
	rel  int64 // ns when Unlock was called
	ok   bool
	res  string
}

type vfC19LeaseViol struct{ clause, detail string }

func vfC19LeaseScenario(port int, key [16]byte, e uint32, aHold, xHold time.Duration, out *[]string) (viol []vfC19LeaseViol, judged bool, inconclusive string) {
	base := time.Now()
	now := func() int64 { return int64(time.Since(base)) + 1 }
	actors := make([]*vfC19LeaseActor, 3)
	for i := range actors {
		c := client.NewClient("127.0.0.1", uint(port))
		if err := c.Open(); err != nil {
			return nil, false, "client open: " + err.Error()
		}
		defer c.Close()
		actors[i] = &vfC19LeaseActor{cl: c, lock: c.SelectDB(0).Lock(key, 20, e)}
	}
	a := actors[0]
	if r, err := a.lock.Lock(); err != nil || r == nil || r.Result != protocol.RESULT_SUCCED {
		return nil, false, fmt.Sprintf("A could not take the free lock: %v %v", err, r)
	}
	var aRel int64
	var wg sync.WaitGroup
	var inside int32
	holder := func(x *vfC19LeaseActor, hold time.Duration) {
		defer wg.Done()
		r, err := x.lock.Lock()
		if err != nil || r == nil || r.Result != protocol.RESULT_SUCCED {
			x.res = fmt.Sprintf("%v %v", err, r)
			return
		}
		x.acq = now()
		x.ok = true
		order := atomic.AddInt32(&inside, 1)
		if order == 1 {
			time.Sleep(hold) // the first of the two waiters stays inside for less than its lease
		}
		x.rel = now()
		ur, uerr := x.lock.Unlock()
		x.res = fmt.Sprintf("unlock: %v %v", uerr, vfC19LeaseRes(ur))
		if uerr == nil && ur != nil && ur.Result == protocol.RESULT_SUCCED {
			x.res = "unlock: ok"
		}
	}
	wg.Add(2)
	go holder(actors[1], xHold)
	time.Sleep(100 * time.Millisecond)
	go holder(actors[2], xHold)
	time.Sleep(aHold)
	aRel = now()
	if r, err := a.lock.Unlock(); err != nil || r == nil || r.Result != protocol.RESULT_SUCCED {
		wg.Wait()
		return nil, false, fmt.Sprintf("A's unlock inside its lease failed: %v %v", err, vfC19LeaseRes(r))
	}
	wg.Wait()
	x, y := actors[1], actors[2]
	if !x.ok || !y.ok {
		return nil, false, fmt.Sprintf("a waiter did not acquire within 20 s: B %q C %q", x.res, y.res)
	}
	if y.acq < x.acq {
		x, y = y, x
	}
	lease := aRel + int64(e)*int64(time.Second) // X's lease certainly runs until here
	*out = append(*out, fmt.Sprintf("E=%ds A released at %dms; first waiter inside %d..%dms (%s); second acquired at %dms; first waiter's lease runs at least until %dms", e, aRel/1e6, x.acq/1e6, x.rel/1e6, x.res, y.acq/1e6, lease/1e6))
	if y.acq < x.rel && y.acq < lease {
		viol = append(viol, vfC19LeaseViol{"lease-cut-short", fmt.Sprintf("a second client acquired the Lock (expiry %d s) at %d ms while the first waiter, granted no earlier than A's Unlock call at %d ms, was still inside (it called Unlock at %d ms): its lease runs at least until %d ms", e, y.acq/1e6, aRel/1e6, x.rel/1e6, lease/1e6)})
	}
	if x.rel < lease && x.res != "unlock: ok" {
		viol = append(viol, vfC19LeaseViol{"unlock-inside-lease-refused", fmt.Sprintf("the first waiter (granted no earlier than %d ms, expiry %d s) called Unlock at %d ms and was answered %q", aRel/1e6, e, x.rel/1e6, x.res)})
	}
	return viol, true, ""
}

func vfC19LeaseRes(r *protocol.LockResultCommand) string {
	if r == nil {
		return "<nil>"
	}
	return vfResName(r.Result)
}

// vfC19LeaseCase runs 6 lease scenarios concurrently against the shard's leader.
func vfC19LeaseCase(env *vfEnv, part *vfPart, i int, caseNo int) {
	cl, err := vfC19GetCluster(env)
	if err != nil {
		part.Harness = append(part.Harness, "cannot start the leader: "+err.Error())
		return
	}
	rng := vfCaseRand(env.Seed, "C19lease", i)
	type res struct {
		viol   []vfC19LeaseViol
		judged bool
		inc    string
		notes  []string
	}
	results := make([]res, vfC19LeaseScenarios)
	var wg sync.WaitGroup
	for s := 0; s < vfC19LeaseScenarios; s++ {
		var key [16]byte
		copy(key[:], fmt.Sprintf("c19lease%04d-%02d", i%10000, s))
		key[15] = byte(rng.Intn(250))
		e := uint32(rng.Range(3, 5))
		aHold := time.Duration(rng.Range(1500, 2500)) * time.Millisecond
		xHold := time.Duration(int(e)*1000-1200) * time.Millisecond
		wg.Add(1)
		go func(s int) {
			defer wg.Done()
			r := &results[s]
			r.viol, r.judged, r.inc = vfC19LeaseScenario(cl.leaderPort, key, e, aHold, xHold, &r.notes)
		}(s)
	}
	wg.Wait()
	h := uint64(14695981039346656037)
	for s, r := range results {
		if r.inc != "" {
			part.Add("lease_scenarios_inconclusive", 1)
			if part.Counters["lease_scenarios_inconclusive"] <= 2 {
				part.Inconclusive = append(part.Inconclusive, fmt.Sprintf("lease case %d scenario %d: %s", i, s, r.inc))
			}
			continue
		}
		if r.judged {
			part.Add("lease_scenarios_judged", 1)
			part.Add("lease_waiters_granted_from_the_queue", 2)
		}
		for _, v := range r.viol {
			wrote := vfWriteReplay(env, fmt.Sprintf("lease-case%d.json", i), map[string]interface{}{"case": caseNo, "stage": "lease", "seed": env.Seed, "tier": env.Tier, "scenario": s, "notes": r.notes})
			part.Violate(vfViolation{Prop: "C19", Clause: "lease/" + v.clause, Detail: v.detail + " | " + fmt.Sprint(r.notes), Case: caseNo, Replay: wrote})
		}
		h = (h ^ uint64(len(r.notes))) * 1099511628211
	}
	part.Mark("lease_cases", h^uint64(i))
	part.Mark("nontrivial", h^uint64(i)<<20)
}
