//go:build verif

package server

// C20: internal queues refine a plain deque / stable priority queue.
//
// Model-based differential monitor. Case i = PRNG operation sequence
// splitmix(seed,'C20',i) run against a real queue and a slice model at the same
// time; every returned element (pointer identity), every Len/Head/Tail and the
// full iterated content are compared. Queue kinds:
//   seg-*     LockQueue / LockCommandQueue / LockManagerQueue (segmented deque)
//   holder    LockManagerLockQueue driven through LockManager.AddLock /
//             RemoveLock / GetLockedLock (ordered list with lazy removal)
//   wait      LockManagerWaitQueue driven through LockManager.AddWaitLock /
//             GetWaitLock (stable priority queue with lazily discarded entries)
//   ring/prio LockManagerRingQueue / LockManagerPriorityRingQueue stand-alone
//   long-*    LongWaitLockQueue driven through LockDB.AddTimeOut/AddExpried,
//             RemoveLongTimeOut/RemoveLongExpried and the Len()-bounded drain
//   pool-*    LongWaitLockFreeQueue / MillisecondWaitLockFreeQueue (+ the
//             MillisecondWaitLockQueue iterate-nil-reset reuse cycle)

import (
	"fmt"
	"os"
	"strings"
	"sync/atomic"
	"testing"
	"time"

	"github.com/snower/slock/protocol"
)

// ---------------------------------------------------------------- case record

const (
	vfqPush = iota + 1
	vfqPushLeft
	vfqPop
	vfqPopRight
	vfqHead
	vfqTail
	vfqLen
	vfqIter
	vfqResize
	vfqRestruct
	vfqReset
	vfqRellac
	vfqFree
	vfqHole
	vfqAdd
	vfqRemoveCur
	vfqRemoveOther
	vfqGet
	vfqTomb
	vfqGetWait
	vfqWake
	vfqMaxPrio
	vfqLongPush
	vfqLongRemove
	vfqLongDrain
	vfqPoolGet
	vfqPoolFree
	vfqPoolPop
	vfqCycle
	vfqSlide
)

var vfqNames = map[int]string{vfqPush: "push", vfqPushLeft: "pushleft", vfqPop: "pop", vfqPopRight: "popright", vfqHead: "head", vfqTail: "tail",
	vfqLen: "len", vfqIter: "iter", vfqResize: "resize", vfqRestruct: "restructure", vfqReset: "reset", vfqRellac: "rellac", vfqFree: "freeQueue", vfqHole: "hole",
	vfqAdd: "add", vfqRemoveCur: "removeCurrent", vfqRemoveOther: "removeOther", vfqGet: "getLock", vfqTomb: "tombstone", vfqGetWait: "getWaitLock", vfqWake: "wakeLoop",
	vfqMaxPrio: "maxPriority", vfqLongPush: "longPush", vfqLongRemove: "longRemove", vfqLongDrain: "longDrain", vfqPoolGet: "poolGet", vfqPoolFree: "poolFree",
	vfqPoolPop: "poolPop", vfqCycle: "useCycle", vfqSlide: "slide"}

type vfQRun struct {
	env     *vfEnv
	caseNo  int
	kind    string
	params  string
	ops     []uint32
	failed  bool
	clause  string
	detail  string
	nontriv bool
	cnt     map[string]int64
}

func (c *vfQRun) op(code int, arg int) {
	if arg < 0 {
		arg = 0
	}
	if arg > 0xffffff {
		arg = 0xffffff
	}
	c.ops = append(c.ops, uint32(code)<<24|uint32(arg))
}

func (c *vfQRun) fail(clause string, f string, a ...interface{}) {
	if c.failed {
		return
	}
	c.failed = true
	c.clause = c.kind + "/" + clause
	c.detail = fmt.Sprintf("%s %s after %d ops: ", c.kind, c.params, len(c.ops)) + fmt.Sprintf(f, a...)
}

func (c *vfQRun) add(name string, n int64) { c.cnt[name] += n }

func (c *vfQRun) hash() uint64 {
	h := vfStrHash(c.kind + "|" + c.params)
	for _, o := range c.ops {
		h = vfMix(h ^ uint64(o))
	}
	return h
}

func (c *vfQRun) render(max int) []string {
	ops := c.ops
	skipped := 0
	if len(ops) > max {
		skipped = len(ops) - max
		ops = ops[skipped:]
	}
	out := make([]string, 0, len(ops)+1)
	if skipped > 0 {
		out = append(out, fmt.Sprintf("... %d earlier ops omitted (re-run the case to regenerate them)", skipped))
	}
	for _, o := range ops {
		code, arg := int(o>>24), int(o&0xffffff)
		if arg > 0 {
			out = append(out, fmt.Sprintf("%s:%d", vfqNames[code], arg))
		} else {
			out = append(out, vfqNames[code])
		}
	}
	return out
}

// vfC20Probe: opt-in switches (env VERIF_C20_PROBE, comma separated) that lift a
// generator restriction so that the behaviour outside an operation's production
// precondition can be demonstrated. Never set by the driver; a run with a probe
// is not a verdict on the property.
//
//	restructure-any   Restructuring also when it releases two or more nodes
//	long-restructure-any  restructuringLong*Queue at arbitrary moments
//	rellac-nonempty   Rellac on a non-empty deque (modelled as clear)
//	shrink            Shrink(0) as an identity operation
//	no-directed       cases 0 and 1 are ordinary PRNG cases instead of the directed
//	                  long-queue sequence (shows the verdict of the PRNG cases alone)
func vfC20Probe(name string) bool {
	for _, p := range strings.Split(os.Getenv("VERIF_C20_PROBE"), ",") {
		if p == name {
			return true
		}
	}
	return false
}

// ---------------------------------------------------------------- segmented deque (three copies)

type vfSegAPI[T any] interface {
	Push(*T) error
	PushLeft(*T) error
	Pop() *T
	PopRight() *T
	Head() *T
	Tail() *T
	Len() int32
	IterNodes() [][]*T
	IterNodeQueues(int32) []*T
	Resize() error
	Restructuring() error
	Reset() error
	Rellac() error
	freeQueue()
	Shrink(int32) int32
}

type vfSegSt struct {
	hn, hi, tn, ti, nodeIndex, nodeSize int32
	sizes                               []int32
}

// segment usage profiles
const (
	vfSegFifo  = iota // timeout wheels, doTimeout queues, waitRemove queues, willCommands: Push/Pop/Head + Rellac/Reset after a drain
	vfSegStack        // free pools: Push/PopRight/Len/freeQueue
	vfSegMixed        // every operation
	vfSegHoles        // Push + in-place holes + Restructuring (+ drain)
	vfSegScale        // holder scale queue: Push/Pop/Head/iterate/Resize
)

var vfSegProfNames = []string{"fifo", "stack", "mixed", "holes", "scale"}

func vfSegRun[T any](c *vfQRun, rng *vfRand, q vfSegAPI[T], st func() vfSegSt, qsize int32, prof int, steps int) {
	var chunk []T
	fresh := func() *T {
		if len(chunk) == 0 {
			chunk = make([]T, 128)
		}
		p := &chunk[0]
		chunk = chunk[1:]
		return p
	}
	var m []*T
	pos := func(p *T) string {
		if p == nil {
			return "nil"
		}
		for i, e := range m {
			if e == p {
				return fmt.Sprintf("model[%d]", i)
			}
		}
		return "an element that is not in the model"
	}
	lenCheck := func(where string) {
		if int(q.Len()) != len(m) {
			c.fail(where+"-len", "Len() = %d, plain deque holds %d", q.Len(), len(m))
		}
	}
	full := func(where string) {
		if c.failed {
			return
		}
		n := len(m)
		lenCheck(where)
		var eh, et *T
		if n > 0 {
			eh, et = m[0], m[n-1]
		}
		if h := q.Head(); h != eh {
			c.fail(where+"-head", "Head() returned %s, expected model[0] (len %d)", pos(h), n)
		}
		if t := q.Tail(); t != et {
			c.fail(where+"-tail", "Tail() returned %s, expected model[%d]", pos(t), n-1)
		}
		k := 0
		for i := range q.IterNodes() {
			for _, e := range q.IterNodeQueues(int32(i)) {
				if k >= n {
					c.fail(where+"-iter", "iteration yields more than the %d model elements (extra %s)", n, pos(e))
					return
				}
				if e != m[k] {
					c.fail(where+"-iter", "iteration position %d is %s, expected model[%d]", k, pos(e), k)
					return
				}
				k++
			}
		}
		if k != n {
			c.fail(where+"-iter", "iteration yields %d elements, plain deque holds %d", k, n)
		}
		c.add("seg_full_checks", 1)
	}
	cross := func(b, a vfSegSt) {
		if a.tn != b.tn || a.hn != b.hn {
			c.add("seg_node_crossings", 1)
			c.nontriv = true
		}
		if a.nodeIndex > b.nodeIndex {
			c.add("seg_growths", int64(a.nodeIndex-b.nodeIndex))
		}
	}
	push1 := func() {
		e := fresh()
		b := st()
		if err := q.Push(e); err != nil {
			c.fail("push", "Push refused: %v", err)
			return
		}
		m = append(m, e)
		cross(b, st())
		c.add("seg_push", 1)
	}
	pushLeft1 := func() {
		e := fresh()
		b := st()
		if err := q.PushLeft(e); err != nil {
			c.add("seg_pushleft_refused", 1)
			return
		}
		m = append([]*T{e}, m...)
		cross(b, st())
		c.add("seg_pushleft_accepted", 1)
	}
	pop1 := func() {
		b := st()
		r := q.Pop()
		if len(m) == 0 {
			if r != nil {
				c.fail("pop", "Pop() on an empty deque returned %s", pos(r))
			}
			return
		}
		if r != m[0] {
			c.fail("pop", "Pop() returned %s, expected model[0]", pos(r))
			return
		}
		m = m[1:]
		cross(b, st())
		c.add("seg_pop", 1)
	}
	popRight1 := func() {
		b := st()
		r := q.PopRight()
		if len(m) == 0 {
			if r != nil {
				c.fail("popright", "PopRight() on an empty deque returned %s", pos(r))
			}
			return
		}
		if r != m[len(m)-1] {
			c.fail("popright", "PopRight() returned %s, expected model[%d]", pos(r), len(m)-1)
			return
		}
		m = m[:len(m)-1]
		cross(b, st())
		c.add("seg_popright", 1)
	}
	hole1 := func() bool {
		if len(m) == 0 {
			return false
		}
		p := rng.Intn(len(m))
		for t := 0; t < 4 && m[p] == nil; t++ {
			p = rng.Intn(len(m))
		}
		if m[p] == nil {
			return false
		}
		k := p
		done := false
		for i := range q.IterNodes() {
			nq := q.IterNodeQueues(int32(i))
			if k < len(nq) {
				nq[k] = nil
				done = true
				break
			}
			k -= len(nq)
		}
		if !done {
			c.fail("hole-iter", "iteration is shorter than model position %d (model len %d)", p, len(m))
			return false
		}
		m[p] = nil
		c.add("seg_holes_made", 1)
		return true
	}
	restructure := func() bool {
		// LockQueue.Restructuring has no production caller; its production
		// siblings (restructuringLong*Queue) run under a trigger rule that never
		// shrinks the content by two nodes or more, so the node-release loop of
		// a restructure is dead in production. Skip calls that would enter it.
		s := st()
		live := int32(0)
		holes := 0
		for _, e := range m {
			if e != nil {
				live++
			} else {
				holes++
			}
		}
		newTail, cum := int32(0), int32(0)
		for j := int32(0); j <= s.tn && int(j) < len(s.sizes); j++ {
			cum += s.sizes[j]
			if live < cum {
				newTail = j
				break
			}
			newTail = j + 1
		}
		if s.tn > newTail+1 && !vfC20Probe("restructure-any") {
			c.add("seg_restructure_skipped_would_release_nodes", 1)
			return false
		}
		c.op(vfqRestruct, holes)
		if err := q.Restructuring(); err != nil {
			c.fail("restructure", "Restructuring error %v", err)
			return true
		}
		nm := make([]*T, 0, live)
		for _, e := range m {
			if e != nil {
				nm = append(nm, e)
			}
		}
		popped := s.hn > 0 || s.hi > 0
		m = nm
		c.add("seg_restructure", 1)
		if holes > 0 {
			c.add("seg_restructure_with_holes", 1)
			c.add("seg_holes_restructured", int64(holes))
			c.nontriv = true
		}
		if popped {
			c.add("seg_restructure_after_pops", 1)
		}
		full("restructure")
		return true
	}

	grow := true
	sinceFull := 0
	i := 0
	for i < steps && !c.failed {
		if rng.Chance(2) {
			grow = !grow
		}
		n := len(m)
		// repeat count: mostly 1, sometimes a burst sized to cross nodes
		rep := 1
		if rng.Chance(8) {
			s := st()
			cur := int32(1)
			if int(s.tn) < len(s.sizes) && s.sizes[s.tn] > 0 {
				cur = s.sizes[s.tn]
			}
			rep = rng.Range(2, int(cur)*2+2)
			if rep > steps-i {
				rep = steps - i
			}
			if rep < 1 {
				rep = 1
			}
		}
		w := rng.Intn(100)
		code := 0
		switch prof {
		case vfSegFifo:
			switch {
			case n == 0 && rng.Chance(45):
				if rng.Chance(85) {
					code = vfqRellac
				} else {
					code = vfqReset
				}
			case w < 46 || (grow && w < 62):
				code = vfqPush
			case w < 88:
				code = vfqPop
			case w < 93:
				code = vfqHead
			case w < 96:
				code = vfqLen
			default:
				code = vfqIter
			}
		case vfSegStack:
			switch {
			case w < 44 || (grow && w < 60):
				code = vfqPush
			case w < 86:
				code = vfqPopRight
			case w < 90:
				code = vfqLen
			case w < 97:
				code = vfqFree
			default:
				code = vfqTail
			}
		case vfSegMixed:
			switch {
			case w < 24 || (grow && w < 38):
				code = vfqPush
			case w < 44:
				code = vfqPushLeft
			case w < 60:
				code = vfqPop
			case w < 72:
				code = vfqPopRight
			case w < 75:
				code = vfqHead
			case w < 78:
				code = vfqTail
			case w < 80:
				code = vfqIter
			case w < 85:
				code = vfqResize
			case w < 89:
				code = vfqRestruct
			case w < 91:
				code = vfqReset
			case w < 93:
				code = vfqRellac
			case w < 96:
				code = vfqFree
			default:
				code = vfqHole
			}
			if !grow && code == vfqPush && rng.Chance(50) {
				code = vfqPop
			}
		case vfSegHoles:
			switch {
			case w < 48 || (grow && w < 60):
				code = vfqPush
			case w < 84:
				code = vfqHole
			case w < 91:
				code = vfqRestruct
			case w < 94:
				code = vfqIter
			case w < 97:
				code = vfqLen
			default:
				code = vfqPop // start of a drain
				rep = n + 1
			}
		case vfSegScale:
			switch {
			case w < 40 || (grow && w < 52):
				code = vfqPush
			case w < 84:
				code = vfqPop
			case w < 88:
				code = vfqHead
			case w < 91:
				code = vfqIter
			default:
				code = vfqResize
			}
		}
		switch code {
		case vfqPush, vfqPop, vfqPopRight, vfqPushLeft:
			c.op(code, rep)
			for r := 0; r < rep && !c.failed; r++ {
				switch code {
				case vfqPush:
					push1()
				case vfqPop:
					pop1()
				case vfqPopRight:
					popRight1()
				case vfqPushLeft:
					pushLeft1()
				}
				lenCheck(vfqNames[code])
				i++
				sinceFull++
				if sinceFull*8 >= len(m) {
					full(vfqNames[code])
					sinceFull = 0
				}
			}
			if prof == vfSegHoles && code == vfqPop && len(m) == 0 && !c.failed {
				// production pattern after a Len()-bounded drain: Reset (FreeLongWaitLockQueue)
				c.op(vfqReset, 0)
				_ = q.Reset()
				full("reset")
			}
			continue
		case vfqHole:
			if rep > 1 && rep > len(m) {
				rep = len(m)
			}
			made := 0
			for r := 0; r < rep; r++ {
				if hole1() {
					made++
				}
			}
			if made > 0 {
				c.op(vfqHole, made)
			}
		case vfqHead, vfqTail, vfqLen, vfqIter:
			c.op(code, 0)
			full(vfqNames[code])
			sinceFull = 0
		case vfqResize:
			b := st()
			c.op(code, 0)
			if err := q.Resize(); err != nil {
				c.fail("resize", "Resize error %v", err)
			}
			if a := st(); a.hn != b.hn {
				c.add("seg_resize_effective", 1)
				c.nontriv = true
			}
			c.add("seg_resize", 1)
			full("resize")
		case vfqRestruct:
			restructure()
		case vfqReset:
			b := st()
			c.op(code, len(m))
			if err := q.Reset(); err != nil {
				c.fail("reset", "Reset error %v", err)
			}
			if len(m) > 0 {
				c.add("seg_reset_nonempty", 1)
			}
			m = m[:0]
			if a := st(); a.nodeIndex < b.nodeIndex {
				c.add("seg_reset_released_nodes", int64(b.nodeIndex-a.nodeIndex))
			}
			c.add("seg_reset", 1)
			full("reset")
		case vfqRellac:
			if len(m) != 0 && !vfC20Probe("rellac-nonempty") {
				break // production precondition: called after a drain loop only
			}
			m = m[:0]
			b := st()
			c.op(code, 0)
			if err := q.Rellac(); err != nil {
				c.fail("rellac", "Rellac error %v", err)
			}
			if a := st(); a.nodeIndex < b.nodeIndex {
				c.add("seg_rellac_released_nodes", int64(b.nodeIndex-a.nodeIndex))
			}
			c.add("seg_rellac", 1)
			full("rellac")
		case vfqFree:
			b := st()
			c.op(code, 0)
			if vfC20Probe("shrink") && rng.Chance(30) {
				q.Shrink(0)
			}
			q.freeQueue()
			if a := st(); a.nodeIndex < b.nodeIndex {
				c.add("seg_freequeue_released_nodes", int64(b.nodeIndex-a.nodeIndex))
			}
			c.add("seg_freequeue", 1)
			full("freeQueue")
		}
		i++
		sinceFull++
	}
	full("final")
	// final drain: everything comes out in order
	if !c.failed {
		c.op(vfqPop, len(m)+1)
		for len(m) > 0 && !c.failed {
			pop1()
		}
		if !c.failed && q.Pop() != nil {
			c.fail("pop", "Pop() after the final drain returned an element")
		}
		full("drained")
	}
}

func vfSegCase(c *vfQRun, rng *vfRand) {
	typ := rng.Intn(3)
	var b, n, s int32
	prod := [][3]int32{{4, 16, 4096}, {2, 16, 4096}, {4, 64, 256}, {4, 64, 1024}, {16, 64, 256}, {16, 64, 2048}, {4, 16, 1024}, {4, 16, 512}, {4, 16, 256}, {1, 8, 256}, {2, 4, 8}}
	steps := 0
	if rng.Chance(72) {
		b, n, s = int32(rng.Range(1, 4)), int32(rng.Range(1, 8)), int32(rng.Range(1, 8))
		steps = rng.Range(30, 500)
		if rng.Chance(12) {
			steps = rng.Range(500, 2000)
		}
	} else {
		p := prod[rng.Intn(len(prod))]
		b, n, s = p[0], p[1], p[2]
		if s > 64 && rng.Chance(55) {
			s = s / int32([]int{16, 32, 64}[rng.Intn(3)]) // keep base/node ratio, scale the node size
		}
		steps = rng.Range(int(s)/2+30, int(s)*3+200)
		if steps > 14000 {
			steps = 14000
		}
	}
	prof := []int{vfSegFifo, vfSegFifo, vfSegStack, vfSegMixed, vfSegMixed, vfSegMixed, vfSegMixed, vfSegHoles, vfSegHoles, vfSegScale}[rng.Intn(10)]
	c.params = fmt.Sprintf("base=%d nodes=%d size=%d profile=%s", b, n, s, vfSegProfNames[prof])
	switch typ {
	case 0:
		c.kind = "seg-LockQueue"
		q := NewLockQueue(b, n, s)
		vfSegRun[Lock](c, rng, q, func() vfSegSt {
			return vfSegSt{q.headNodeIndex, q.headQueueIndex, q.tailNodeIndex, q.tailQueueIndex, q.nodeIndex, q.nodeSize, q.nodeQueueSizes}
		}, s, prof, steps)
	case 1:
		c.kind = "seg-LockCommandQueue"
		q := NewLockCommandQueue(b, n, s)
		vfSegRun[protocol.LockCommand](c, rng, q, func() vfSegSt {
			return vfSegSt{q.headNodeIndex, q.headQueueIndex, q.tailNodeIndex, q.tailQueueIndex, q.nodeIndex, q.nodeSize, q.nodeQueueSizes}
		}, s, prof, steps)
	default:
		c.kind = "seg-LockManagerQueue"
		q := NewLockManagerQueue(b, n, s)
		vfSegRun[LockManager](c, rng, q, func() vfSegSt {
			return vfSegSt{q.headNodeIndex, q.headQueueIndex, q.tailNodeIndex, q.tailQueueIndex, q.nodeIndex, q.nodeSize, q.nodeQueueSizes}
		}, s, prof, steps)
	}
	c.add("cases_"+c.kind, 1)
	c.add("cases_seg_profile_"+vfSegProfNames[prof], 1)
}

// ---------------------------------------------------------------- shared LockDB

var vfC20Inst *vfInstance

func vfC20DB(env *vfEnv) *LockDB {
	if vfC20Inst == nil {
		in, err := vfNewLeader(vfInstCfg{Dir: vfScratchDir(env, "c20"), Manual: true, NDb: 1, DBConcurrent: 1, FastKeys: 16})
		if err != nil {
			panic("vf: cannot start leader: " + err.Error())
		}
		vfC20Inst = in
	}
	return vfC20Inst.dbs[0]
}

func vfC20Manager(db *LockDB) *LockManager {
	return NewLockManager(db, &protocol.LockCommand{}, db.managerGlocks[0], 0, NewLockQueue(2, 16, 64), &protocol.LockDBState{})
}

func vfLockId(id uint32) (r [16]byte) {
	r[0], r[1], r[2], r[3] = byte(id), byte(id>>8), byte(id>>16), byte(id>>24)
	r[15] = 0x5a
	return
}

// vfNewRecord builds a request record the way LockManager.GetOrNewLock leaves
// it (no client protocol attached: nothing in the queue code uses it).
func vfNewRecord(mgr *LockManager, cmd *protocol.LockCommand) *Lock {
	atomic.AddUint32(&mgr.refCount, 1)
	return &Lock{manager: mgr, command: cmd, timeoutCheckedCount: 1, expriedCheckedCount: 1, ackCount: 0xff, timeouted: true, expried: true}
}

// ---------------------------------------------------------------- per-key holder queue

type vfHEnt struct {
	l    *Lock
	id   uint32
	live bool
}

func vfHolderCase(c *vfQRun, rng *vfRand, db *LockDB) {
	c.kind = "holder"
	mgr := vfC20Manager(db)
	shape := rng.Intn(100)
	steps, target := 0, 0
	deep := false
	switch {
	case shape < 35:
		steps, target = rng.Range(30, 300), rng.Range(2, 14)
	case shape < 65:
		steps, target = rng.Range(200, 900), rng.Range(20, 150)
	case shape < 98:
		steps, target = rng.Range(600, 2000), rng.Range(200, 700)
	default:
		steps, target = rng.Range(600, 1200), rng.Range(200, 300)
		deep = true
	}
	c.params = fmt.Sprintf("steps=%d target=%d deep=%v", steps, target, deep)
	var cur *vfHEnt
	var M []*vfHEnt
	live := map[uint32]*vfHEnt{}
	var deadIds []uint32
	nextId := uint32(1)
	liveInQueue := 0

	pos := func(l *Lock) string {
		if l == nil {
			return "nil"
		}
		if cur != nil && cur.l == l {
			return "the current holder"
		}
		for i, e := range M {
			if e.l == l {
				return fmt.Sprintf("model[%d](id %d live=%v)", i, e.id, e.live)
			}
		}
		return "a record that is not in the model (already dropped or foreign)"
	}
	lastCap, lastScale, lastTn, lastHn := 0, false, int32(0), int32(0)
	watch := func() {
		q := mgr.locks
		if q == nil {
			return
		}
		if cp := cap(q.fastQueue); cp != lastCap {
			if cp > lastCap && lastCap > 0 {
				c.add("holder_inline_growths", 1)
				c.nontriv = true
			}
			lastCap = cp
		}
		sc := q.scaleQueue != nil
		if sc && !lastScale {
			c.add("holder_inline_to_scale", 1)
			c.nontriv = true
			lastTn, lastHn = 0, 0
		}
		if !sc && lastScale {
			c.add("holder_scale_dropped_by_reset", 1)
		}
		lastScale = sc
		if sc {
			if q.scaleQueue.tailNodeIndex != lastTn || q.scaleQueue.headNodeIndex != lastHn {
				c.add("holder_scale_node_crossings", 1)
				if q.scaleQueue.headNodeIndex < lastHn {
					c.add("holder_scale_resize_effective", 1)
				}
				lastTn, lastHn = q.scaleQueue.tailNodeIndex, q.scaleQueue.headNodeIndex
			}
		}
	}
	full := func(where string) {
		if c.failed {
			return
		}
		var want *Lock
		if cur != nil {
			want = cur.l
		}
		if mgr.currentLock != want {
			c.fail(where+"-current", "current holder is %s, expected %s", pos(mgr.currentLock), pos(want))
			return
		}
		q := mgr.locks
		if q == nil {
			if len(M) != 0 {
				c.fail(where+"-iter", "no holder queue but the model holds %d entries", len(M))
			}
			return
		}
		R := make([]*Lock, 0, len(M))
		for i := range q.IterNodes() {
			for _, l := range q.IterNodeQueues(int32(i)) {
				if l == nil {
					c.fail(where+"-iter", "iteration yields a nil entry at position %d (production dereferences it)", len(R))
					return
				}
				R = append(R, l)
			}
		}
		if q.Len() != len(R) {
			c.fail(where+"-len", "Len() = %d but iteration yields %d entries", q.Len(), len(R))
			return
		}
		// R must be a subsequence of M that contains every live entry
		j := 0
		nm := make([]*vfHEnt, 0, len(R))
		for k, l := range R {
			for j < len(M) && M[j].l != l {
				if M[j].live {
					c.fail(where+"-iter", "live holder model[%d](id %d) is missing or out of order: iteration position %d is %s", j, M[j].id, k, pos(l))
					return
				}
				j++
			}
			if j >= len(M) {
				c.fail(where+"-iter", "iteration position %d is %s, not expected here", k, pos(l))
				return
			}
			nm = append(nm, M[j])
			j++
		}
		for ; j < len(M); j++ {
			if M[j].live {
				c.fail(where+"-iter", "live holder model[%d](id %d) is missing from the iteration (%d entries)", j, M[j].id, len(R))
				return
			}
		}
		M = nm
		var eh *Lock
		if len(R) > 0 {
			eh = R[0]
		}
		if h := q.Head(); h != eh {
			c.fail(where+"-head", "Head() is %s, iteration starts with %s", pos(h), pos(eh))
		}
		c.add("holder_full_checks", 1)
	}
	add := func() {
		id := nextId
		if len(deadIds) > 0 && rng.Chance(12) {
			k := rng.Intn(len(deadIds))
			id = deadIds[k]
			deadIds[k] = deadIds[len(deadIds)-1]
			deadIds = deadIds[:len(deadIds)-1]
			if live[id] != nil {
				id = nextId
			} else {
				c.add("holder_dead_id_reused", 1)
			}
		}
		if id == nextId {
			nextId++
		}
		cmd := &protocol.LockCommand{LockId: vfLockId(id), Expried: 10}
		l := vfNewRecord(mgr, cmd)
		e := &vfHEnt{l, id, true}
		mgr.AddLock(l)
		if rng.Chance(50) {
			l.refCount++ // the expiry wheel's reference is still outstanding
		}
		live[id] = e
		if cur == nil {
			cur = e
		} else {
			M = append(M, e)
			liveInQueue++
		}
		watch()
		c.add("holder_add", 1)
	}
	removeCur := func() {
		if cur == nil {
			return
		}
		old := cur
		mgr.RemoveLock(old.l)
		old.live = false
		delete(live, old.id)
		deadIds = append(deadIds, old.id)
		cur = nil
		for k, e := range M {
			if e.live {
				cur = e
				M = M[k+1:]
				liveInQueue--
				break
			}
		}
		if cur == nil {
			M = M[:0]
		}
		var want *Lock
		if cur != nil {
			want = cur.l
		}
		if mgr.currentLock != want {
			c.fail("removeCurrent", "after releasing the oldest holder the current holder is %s, expected the next live one %s", pos(mgr.currentLock), pos(want))
		}
		if cur == nil && mgr.locks != nil && mgr.locks.Len() != 0 {
			c.fail("removeCurrent-len", "no live holder left but Len() = %d", mgr.locks.Len())
		}
		watch()
		c.add("holder_remove_current", 1)
	}
	removeOther := func() {
		if liveInQueue == 0 {
			return
		}
		k := rng.Intn(len(M))
		for t := 0; t < len(M) && !M[k].live; t++ {
			k = (k + 1) % len(M)
		}
		e := M[k]
		if !e.live {
			return
		}
		mgr.RemoveLock(e.l)
		e.live = false
		delete(live, e.id)
		deadIds = append(deadIds, e.id)
		liveInQueue--
		watch()
		c.add("holder_remove_other", 1)
	}
	get := func() {
		if cur == nil {
			return
		}
		var id uint32
		switch w := rng.Intn(100); {
		case w < 50 && liveInQueue > 0:
			k := rng.Intn(len(M))
			for t := 0; t < len(M) && !M[k].live; t++ {
				k = (k + 1) % len(M)
			}
			id = M[k].id
		case w < 60:
			id = cur.id
		case w < 85 && len(deadIds) > 0:
			id = deadIds[rng.Intn(len(deadIds))]
		default:
			id = nextId + 1000
		}
		r := mgr.GetLockedLock(&protocol.LockCommand{LockId: vfLockId(id)})
		var want *Lock
		if e := live[id]; e != nil {
			want = e.l
		}
		if r != want {
			c.fail("getLock", "GetLockedLock(id %d) returned %s, expected %s", id, pos(r), pos(want))
		}
		c.add("holder_get", 1)
	}

	grow := true
	since := 0
	for i := 0; i < steps && !c.failed; i++ {
		total := liveInQueue
		if total >= target {
			grow = false
		} else if total <= target/4 {
			grow = true
		}
		w := rng.Intn(100)
		rep := 1
		if rng.Chance(6) {
			rep = rng.Range(2, 40)
		}
		switch {
		case (grow && w < 62) || (!grow && w < 22):
			c.op(vfqAdd, rep)
			for r := 0; r < rep; r++ {
				add()
			}
		case w < 72:
			c.op(vfqRemoveOther, rep)
			for r := 0; r < rep; r++ {
				removeOther()
			}
		case w < 86:
			c.op(vfqRemoveCur, rep)
			for r := 0; r < rep && !c.failed; r++ {
				removeCur()
			}
		case w < 96:
			c.op(vfqGet, rep)
			for r := 0; r < rep && !c.failed; r++ {
				get()
			}
		case w < 98:
			c.op(vfqIter, 0)
			full("iter")
			since = 0
		default:
			if cur == nil && mgr.locks != nil {
				// production precondition: RemoveLockManager, no record left
				c.op(vfqReset, 0)
				mgr.locks.Reset()
				watch()
				c.add("holder_reset", 1)
				full("reset")
			}
		}
		since += rep
		if since*6 >= len(M) {
			full("step")
			since = 0
		}
	}
	if deep && !c.failed {
		// slide a window of live holders through the scale queue until its head
		// passes node 8 (LockManagerLockQueue.Resize precondition)
		for liveInQueue < 220 {
			add()
		}
		n := rng.Range(66000, 70000)
		c.op(vfqSlide, n)
		for k := 0; k < n && !c.failed; k++ {
			add()
			if rng.Chance(30) {
				removeOther()
				add()
			}
			removeCur()
			if k%4096 == 0 {
				full("slide")
			}
		}
		full("slide")
		c.add("holder_deep_cases", 1)
	}
	full("final")
	// drain: release the oldest holder until nothing is left
	c.op(vfqRemoveCur, len(M)+1)
	for g := 0; cur != nil && !c.failed && g < 200000; g++ {
		removeCur()
	}
	full("drained")
	if !c.failed && mgr.locks != nil {
		if mgr.locks.Len() != 0 || mgr.locks.Head() != nil {
			c.fail("drained-len", "after releasing every holder Len() = %d Head() = %s", mgr.locks.Len(), pos(mgr.locks.Head()))
		}
		mgr.locks.Reset()
	}
	c.add("cases_holder", 1)
}

// ---------------------------------------------------------------- per-key wait queue

type vfWEnt struct {
	l    *Lock
	prio uint8
	seq  int
	live bool
}

func vfWaitCase(c *vfQRun, rng *vfRand, db *LockDB) {
	c.kind = "wait"
	mgr := vfC20Manager(db)
	shape := rng.Intn(100)
	steps, target := 0, 0
	switch {
	case shape < 35:
		steps, target = rng.Range(30, 300), rng.Range(2, 16)
	case shape < 65:
		steps, target = rng.Range(200, 900), rng.Range(20, 200)
	default:
		steps, target = rng.Range(600, 2000), rng.Range(260, 700)
	}
	pp := rng.Intn(5) // priority profile
	prios := [][]uint8{{0}, {7}, {0, 0, 0, 1}, {0, 1, 2, 3}, nil}[pp]
	mixAt := 0
	if pp >= 2 && rng.Chance(50) {
		mixAt = rng.Range(1, target+20) // queue builds up FIFO first, then priorities appear
	}
	c.params = fmt.Sprintf("steps=%d target=%d prio-profile=%d mixAfter=%d", steps, target, pp, mixAt)
	var M []*vfWEnt
	seq, liveN := 0, 0

	pos := func(l *Lock) string {
		if l == nil {
			return "nil"
		}
		for i, e := range M {
			if e.l == l {
				return fmt.Sprintf("model[%d](seq %d prio %d live=%v)", i, e.seq, e.prio, e.live)
			}
		}
		return "a record that is not in the model (already dropped or foreign)"
	}
	lastCap, lastRing, lastPrio := 0, false, false
	watch := func() {
		q := mgr.waitLocks
		if q == nil {
			return
		}
		if cp := cap(q.fastQueue); cp != lastCap {
			if cp > lastCap && lastCap > 0 {
				c.add("wait_inline_growths", 1)
				c.nontriv = true
			}
			lastCap = cp
		}
		ring := q.ringQueue != nil && q.fastIndex >= 0
		if ring && !lastRing {
			c.add("wait_inline_to_ring", 1)
			c.nontriv = true
		}
		lastRing = ring
		pr := q.fastIndex < 0
		if pr && !lastPrio {
			c.add("wait_fifo_to_priority", 1)
			c.nontriv = true
			if q.ringQueue != nil {
				if p, ok := q.ringQueue.(*LockManagerPriorityRingQueue); ok && len(p.priorityNodes) > 0 {
					n := 0
					for _, nd := range p.priorityNodes {
						n += nd.ringQueue.Len()
					}
					if n > 1 {
						c.add("wait_fifo_to_priority_with_backlog", 1)
					}
				}
			}
		}
		if !pr && lastPrio {
			c.add("wait_priority_dropped_by_reset", 1)
		}
		lastPrio = pr
	}
	firstLive := func() *vfWEnt {
		for _, e := range M {
			if e.live {
				return e
			}
		}
		return nil
	}
	full := func(where string) {
		if c.failed {
			return
		}
		q := mgr.waitLocks
		if q == nil {
			if len(M) != 0 {
				c.fail(where+"-iter", "no wait queue but the model holds %d entries", len(M))
			}
			return
		}
		R := make([]*Lock, 0, len(M))
		for _, node := range q.IterNodes() {
			for _, l := range node {
				if l == nil {
					c.fail(where+"-iter", "iteration yields a nil entry at position %d (production dereferences it)", len(R))
					return
				}
				R = append(R, l)
			}
		}
		if q.Len() != len(R) {
			c.fail(where+"-len", "Len() = %d but iteration yields %d entries", q.Len(), len(R))
			return
		}
		j := 0
		nm := make([]*vfWEnt, 0, len(R))
		for k, l := range R {
			for j < len(M) && M[j].l != l {
				if M[j].live {
					c.fail(where+"-iter", "live waiter model[%d](seq %d prio %d) is missing or out of order: iteration position %d is %s", j, M[j].seq, M[j].prio, k, pos(l))
					return
				}
				j++
			}
			if j >= len(M) {
				c.fail(where+"-iter", "iteration position %d is %s, not expected here (priority desc, arrival asc)", k, pos(l))
				return
			}
			nm = append(nm, M[j])
			j++
		}
		for ; j < len(M); j++ {
			if M[j].live {
				c.fail(where+"-iter", "live waiter model[%d](seq %d prio %d) is missing from the iteration (%d entries)", j, M[j].seq, M[j].prio, len(R))
				return
			}
		}
		M = nm
		var eh *Lock
		ep := uint8(0)
		if len(M) > 0 {
			eh, ep = M[0].l, M[0].prio
		}
		if h := q.Head(); h != eh {
			c.fail(where+"-head", "Head() is %s, expected %s", pos(h), pos(eh))
			return
		}
		if p := q.MaxPriority(); p != ep {
			c.fail(where+"-maxpriority", "MaxPriority() = %d, head entry has priority %d", p, ep)
		}
		c.add("wait_full_checks", 1)
	}
	add := func() {
		var prio uint8
		if prios == nil {
			prio = uint8(rng.Intn(256))
		} else {
			prio = prios[rng.Intn(len(prios))]
		}
		if mixAt > 0 && seq < mixAt {
			if prios == nil {
				prio = 0
			} else {
				prio = prios[0]
			}
		}
		cmd := &protocol.LockCommand{LockId: vfLockId(uint32(seq + 1)), Timeout: 30}
		if prio > 0 {
			cmd.TimeoutFlag |= protocol.TIMEOUT_FLAG_RCOUNT_IS_PRIORITY
			cmd.Rcount = prio
		} else if rng.Chance(40) {
			if rng.Chance(50) {
				cmd.TimeoutFlag |= protocol.TIMEOUT_FLAG_RCOUNT_IS_PRIORITY // explicit priority 0
			} else {
				cmd.Rcount = uint8(rng.Range(1, 9)) // Rcount without the flag is not a priority
			}
		}
		l := vfNewRecord(mgr, cmd)
		l.timeouted = false
		mgr.AddWaitLock(l)
		if rng.Chance(50) {
			l.refCount++ // the timeout wheel's reference is still outstanding
		}
		e := &vfWEnt{l, prio, seq, true}
		seq++
		// stable insert: after every entry of priority >= prio
		k := len(M)
		for k > 0 && M[k-1].prio < prio {
			k--
		}
		M = append(M, nil)
		copy(M[k+1:], M[k:])
		M[k] = e
		liveN++
		watch()
		c.add("wait_add", 1)
	}
	getWait := func() *vfWEnt {
		r := mgr.GetWaitLock()
		e := firstLive()
		var want *Lock
		if e != nil {
			want = e.l
		}
		if r != want {
			c.fail("getWaitLock", "GetWaitLock() returned %s, expected the first live waiter in (priority desc, arrival asc) order: %s", pos(r), pos(want))
			return nil
		}
		// every tombstone ahead of it has been popped
		if e == nil {
			M = M[:0]
			mgr.waited = false // as every production caller does on nil
		} else {
			for k, x := range M {
				if x == e {
					M = M[k:]
					break
				}
			}
		}
		c.add("wait_getwaitlock", 1)
		return e
	}
	tomb := func() {
		if liveN == 0 {
			return
		}
		k := rng.Intn(len(M))
		for t := 0; t < len(M) && !M[k].live; t++ {
			k = (k + 1) % len(M)
		}
		e := M[k]
		if !e.live {
			return
		}
		if rng.Chance(70) {
			e.l.timeouted = true
		} else {
			e.l.ackCount = 0 // granted, acknowledgement outstanding
		}
		e.live = false
		liveN--
		c.add("wait_tombstones", 1)
		if rng.Chance(85) {
			getWait()
		}
	}
	wake := func(n int) {
		for k := 0; k < n && !c.failed; k++ {
			e := getWait()
			if e == nil {
				return
			}
			e.l.timeouted = true // granted (wakeUpWaitLock)
			e.live = false
			liveN--
			c.add("wait_granted_in_order", 1)
		}
	}

	grow := true
	since := 0
	for i := 0; i < steps && !c.failed; i++ {
		if liveN >= target {
			grow = false
		} else if liveN <= target/4 {
			grow = true
		}
		w := rng.Intn(100)
		rep := 1
		if rng.Chance(6) {
			rep = rng.Range(2, 40)
		}
		switch {
		case (grow && w < 62) || (!grow && w < 22):
			c.op(vfqAdd, rep)
			for r := 0; r < rep; r++ {
				add()
			}
		case w < 74:
			c.op(vfqTomb, rep)
			for r := 0; r < rep && !c.failed; r++ {
				tomb()
			}
		case w < 86:
			c.op(vfqWake, rep)
			wake(rep)
		case w < 92:
			c.op(vfqGetWait, 0)
			getWait()
		case w < 97:
			c.op(vfqIter, 0)
			full("iter")
			since = 0
		default:
			if q := mgr.waitLocks; q != nil && q.Len() == 0 {
				// production precondition: RemoveLockManager, no record left
				c.op(vfqReset, 0)
				q.Reset()
				M = M[:0]
				watch()
				c.add("wait_reset", 1)
				full("reset")
			}
		}
		since += rep
		if since*6 >= len(M) {
			full("step")
			since = 0
		}
	}
	full("final")
	c.op(vfqWake, liveN+1)
	wake(liveN + 1)
	if !c.failed {
		getWait()
	}
	full("drained")
	if !c.failed && mgr.waitLocks != nil && (mgr.waitLocks.Len() != 0 || mgr.waitLocks.Head() != nil) {
		c.fail("drained-len", "after granting every waiter Len() = %d Head() = %s", mgr.waitLocks.Len(), pos(mgr.waitLocks.Head()))
	}
	c.add("cases_wait", 1)
}

// ---------------------------------------------------------------- stand-alone ring / priority ring

func vfRingCase(c *vfQRun, rng *vfRand) {
	prioRing := rng.Chance(50)
	size := []int{1, 2, 3, 4, 5, 8, 16, 16, 64, 64, 70}[rng.Intn(11)]
	steps := rng.Range(30, 600)
	if rng.Chance(15) {
		steps = rng.Range(600, 2000)
	}
	var q ILockManagerRingQueue
	if prioRing {
		c.kind = "prioring"
		q = NewLockManagerPriorityRingQueue(size)
	} else {
		c.kind = "ring"
		q = NewLockManagerRingQueue(size)
	}
	levels := []int{1, 2, 4, 256}[rng.Intn(4)]
	c.params = fmt.Sprintf("size=%d steps=%d priority-levels=%d", size, steps, levels)
	var M []*vfWEnt
	seq := 0
	pos := func(l *Lock) string {
		if l == nil {
			return "nil"
		}
		for i, e := range M {
			if e.l == l {
				return fmt.Sprintf("model[%d](seq %d prio %d)", i, e.seq, e.prio)
			}
		}
		return "an element that is not in the model"
	}
	var plain *LockManagerRingQueue
	if !prioRing {
		plain = q.(*LockManagerRingQueue)
	}
	full := func(where string) {
		if c.failed {
			return
		}
		if q.Len() != len(M) {
			c.fail(where+"-len", "Len() = %d, model holds %d", q.Len(), len(M))
			return
		}
		var eh *Lock
		ep := uint8(0)
		if len(M) > 0 {
			eh, ep = M[0].l, M[0].prio
		}
		if h := q.Head(); h != eh {
			c.fail(where+"-head", "Head() is %s, expected %s", pos(h), pos(eh))
			return
		}
		if p := q.MaxPriority(); p != ep {
			c.fail(where+"-maxpriority", "MaxPriority() = %d, head has priority %d", p, ep)
			return
		}
		k := 0
		for _, node := range q.IterNodes() {
			for _, l := range node {
				if k >= len(M) || M[k].l != l {
					c.fail(where+"-iter", "iteration position %d is %s", k, pos(l))
					return
				}
				k++
			}
		}
		if k != len(M) {
			c.fail(where+"-iter", "iteration yields %d elements, model holds %d", k, len(M))
		}
	}
	grow := true
	for i := 0; i < steps && !c.failed; i++ {
		if rng.Chance(3) {
			grow = !grow
		}
		w := rng.Intn(100)
		switch {
		case w < 42 || (grow && w < 60):
			prio := uint8(rng.Intn(levels))
			cmd := &protocol.LockCommand{LockId: vfLockId(uint32(seq + 1))}
			if prio > 0 {
				cmd.TimeoutFlag |= protocol.TIMEOUT_FLAG_RCOUNT_IS_PRIORITY
				cmd.Rcount = prio
			} else if rng.Chance(30) {
				cmd.Rcount = uint8(rng.Range(1, 9))
			}
			l := &Lock{command: cmd, ackCount: 0xff}
			before, beforeIdx := 0, 0
			if plain != nil {
				before, beforeIdx = cap(plain.queue), plain.index
			}
			q.Push(l)
			if plain != nil {
				if cap(plain.queue) != before {
					c.add("ring_growths", 1)
					c.nontriv = true
				} else if plain.index < beforeIdx {
					c.add("ring_compactions", 1)
					c.nontriv = true
				}
			}
			e := &vfWEnt{l, prio, seq, true}
			seq++
			k := len(M)
			if prioRing {
				for k > 0 && M[k-1].prio < prio {
					k--
				}
			}
			M = append(M, nil)
			copy(M[k+1:], M[k:])
			M[k] = e
			c.op(vfqPush, int(prio)+1)
			if prioRing {
				if p := q.(*LockManagerPriorityRingQueue); len(p.priorityNodes) >= 3 {
					c.add("prioring_three_or_more_levels", 1)
					c.nontriv = true
				}
			}
			c.add(c.kind+"_push", 1)
		case w < 90:
			c.op(vfqPop, 0)
			r := q.Pop()
			var want *Lock
			if len(M) > 0 {
				want = M[0].l
			}
			if r != want {
				c.fail("pop", "Pop() returned %s, expected %s", pos(r), pos(want))
				break
			}
			if len(M) > 0 {
				M = M[1:]
			}
			c.add(c.kind+"_pop", 1)
		default:
			c.op(vfqIter, 0)
		}
		full("step")
	}
	for len(M) > 0 && !c.failed {
		r := q.Pop()
		if r != M[0].l {
			c.fail("pop", "drain: Pop() returned %s, expected %s", pos(r), pos(M[0].l))
			break
		}
		M = M[1:]
	}
	if !c.failed && (q.Pop() != nil || q.Len() != 0) {
		c.fail("pop", "after the drain Pop() is not nil or Len() = %d", q.Len())
	}
	c.add("cases_"+c.kind, 1)
}

// ---------------------------------------------------------------- long wait queues

var vfC20TimeBase int64

func vfLongCase(c *vfQRun, rng *vfRand, db *LockDB) {
	expiry := rng.Chance(50)
	small := rng.Chance(60)
	if expiry {
		c.kind = "long-expiry"
	} else {
		c.kind = "long-timeout"
	}
	mgr := vfC20Manager(db)
	pool := db.freeLongWaitQueues[0]
	for pool.Pop() != nil {
	}
	_ = vfLogCapture.Take()
	vfC20TimeBase += 10
	T := db.currentTime + 100000 + vfC20TimeBase
	table := db.longTimeoutLocks[0]
	if expiry {
		table = db.longExpriedLocks[0]
	}
	thr := int32(LONG_LOCKS_QUEUE_INIT_SIZE)
	steps := 0
	var b, n, s int32 = 4, 64, LONG_LOCKS_QUEUE_INIT_SIZE
	if small {
		// scaled-down queue placed in the table: same code, restructure trigger
		// threshold scaled with the initial node size as in production
		b, n, s = int32(rng.Range(1, 4)), int32(rng.Range(1, 8)), int32(rng.Range(1, 8))
		if rng.Chance(30) {
			b, n, s = 4, 64, int32([]int{4, 8, 16}[rng.Intn(3)])
		}
		thr = s
		table[T] = NewLongWaitLockQueue(b, n, s, 0, T)
		steps = rng.Range(30, 600)
	} else {
		steps = rng.Range(300, 2400)
	}
	c.params = fmt.Sprintf("base=%d nodes=%d size=%d steps=%d scaled=%v", b, n, s, steps, small)
	var M []*Lock // live entries, arrival order
	pos := func(l *Lock) string {
		if l == nil {
			return "nil"
		}
		for i, e := range M {
			if e == l {
				return fmt.Sprintf("model[%d]", i)
			}
		}
		return "an element that is not in the model"
	}
	lastTn := int32(0)
	full := func(where string) {
		if c.failed {
			return
		}
		q, ok := table[T]
		if !ok {
			if len(M) != 0 {
				c.fail(where+"-table", "the long queue of this second is gone but %d live entries are expected", len(M))
			}
			return
		}
		if int(q.lockCount-q.freeCount) != len(M) {
			c.fail(where+"-count", "lockCount-freeCount = %d-%d, %d live entries expected", q.lockCount, q.freeCount, len(M))
			return
		}
		if int(q.Len()) < len(M) {
			c.fail(where+"-len", "Len() = %d is smaller than the %d live entries (a Len()-bounded drain would lose entries)", q.Len(), len(M))
			return
		}
		k, slots := 0, 0
		for i := range q.locks.IterNodes() {
			for _, l := range q.locks.IterNodeQueues(int32(i)) {
				slots++
				if l == nil {
					continue
				}
				if k >= len(M) || M[k] != l {
					c.fail(where+"-iter", "live entry %d of the iteration is %s", k, pos(l))
					return
				}
				if l.longWaitIndex == 0 || q.locks.queues[int32(l.longWaitIndex>>32)][int32(l.longWaitIndex&0xffffffff)-1] != l {
					c.fail(where+"-index", "model[%d] does not sit at its recorded slot (Remove would clear another entry)", k)
					return
				}
				k++
			}
		}
		if k != len(M) {
			c.fail(where+"-iter", "iteration yields %d live entries, %d expected", k, len(M))
			return
		}
		if slots != int(q.Len()) {
			c.fail(where+"-len", "Len() = %d but iteration covers %d slots", q.Len(), slots)
		}
		if q.locks.tailNodeIndex != lastTn {
			if !small {
				c.add("long_node_crossings_production_triple", 1)
			}
			c.add("long_node_crossings", 1)
			c.nontriv = true
			lastTn = q.locks.tailNodeIndex
		}
		c.add("long_full_checks", 1)
	}
	push := func() {
		cmd := &protocol.LockCommand{Timeout: 600, Expried: 600}
		l := vfNewRecord(mgr, cmd)
		l.isAof = true
		l.aofTime = 0xff
		l.refCount = 2
		if expiry {
			l.expriedCheckedCount = EXPRIED_QUEUE_MAX_WAIT + 1
			l.expriedTime = T
			db.AddExpried(l)
		} else {
			l.timeoutCheckedCount = TIMEOUT_QUEUE_MAX_WAIT + 1
			l.timeoutTime = T
			db.AddTimeOut(l)
		}
		M = append(M, l)
		c.add("long_push", 1)
	}
	remove := func() {
		if len(M) == 0 {
			return
		}
		k := rng.Intn(len(M))
		if rng.Chance(15) {
			k = len(M) - 1
		} else if rng.Chance(15) {
			k = 0
		}
		l := M[k]
		q := table[T]
		holes := int64(0)
		restructured := false
		allocBefore := 0
		if q != nil {
			fc, lc := q.freeCount+1, q.lockCount
			restructured = fc*3 >= lc && (fc >= lc || fc >= thr)
			holes = int64(fc)
			allocBefore = vfAllocNodes(&q.locks)
		}
		if !small {
			if expiry {
				db.RemoveLongExpried(l, T)
			} else {
				db.RemoveLongTimeOut(l)
			}
			if restructured && vfAllocNodes(&q.locks) < allocBefore {
				c.add("long_restructure_released_nodes_production_triple", 1)
			}
		} else {
			// RemoveLongTimeOut / RemoveLongExpried with the threshold scaled
			q.Remove(l)
			if restructured && vfWouldReleaseNodes(&q.locks, int32(len(M)-1)) && !vfC20Probe("long-restructure-any") {
				// the node-release path of restructuringLong*Queue leaves nodeIndex
				// stale (reported by the directed production-triple case); with the
				// short node tables of scaled-down triples it would crash the next
				// Reset within a few steps, so random scaled cases stay off it
				restructured = false
				c.add("long_restructure_skipped_would_release_nodes", 1)
			}
			if restructured {
				if expiry {
					db.restructuringLongExpriedQueue(q)
				} else {
					db.restructuringLongTimeOutQueue(q)
				}
			}
			l.refCount--
		}
		if expiry {
			l.expried = true
		} else {
			l.timeouted = true
		}
		M = append(M[:k:k], M[k+1:]...)
		if l.longWaitIndex != 0 {
			c.fail("remove-index", "a removed entry keeps a slot index")
		}
		c.add("long_remove", 1)
		if restructured {
			c.add("long_restructure", 1)
			if holes > 0 {
				if !small {
					c.add("long_restructure_with_holes_production_triple", 1)
				}
				c.add("long_restructure_with_holes", 1)
				c.add("long_holes_restructured", holes)
				c.nontriv = true
			}
			if len(M) == 0 {
				c.add("long_restructure_to_empty_recycled", 1)
				if _, ok := table[T]; ok {
					c.fail("restructure-empty", "a restructure that left nothing did not recycle the queue")
				}
			} else if q2 := table[T]; q2 == nil || int(q2.Len()) != len(M) || q2.freeCount != 0 || int(q2.lockCount) != len(M) {
				c.fail("restructure-len", "after a restructure Len()/lockCount/freeCount do not equal the %d live entries", len(M))
			}
			lastTn = -1
			full("restructure")
		}
	}
	drain := func() {
		q, ok := table[T]
		if !ok {
			if len(M) != 0 {
				c.fail("drain-table", "the long queue is gone but %d live entries are expected", len(M))
			}
			return
		}
		// the production drain (checkTimeTimeOut / flushTimeOut)
		cnt := q.Len()
		k := 0
		for cnt > 0 {
			l := q.Pop()
			if l != nil {
				if k >= len(M) || M[k] != l {
					c.fail("drain", "the Len()-bounded drain yields %s as live entry %d", pos(l), k)
					return
				}
				if l.longWaitIndex != 0 {
					c.fail("drain-index", "a popped entry keeps a slot index")
					return
				}
				k++
			}
			cnt--
		}
		if k != len(M) {
			c.fail("drain", "the Len()-bounded drain yields %d live entries, %d expected", k, len(M))
			return
		}
		if q.lockCount != 0 && int(q.lockCount) != int(q.freeCount) {
			c.fail("drain-count", "after the drain lockCount=%d freeCount=%d", q.lockCount, q.freeCount)
		}
		M = M[:0]
		delete(table, T)
		pool.FreeLongWaitLockQueue(q, db.currentTime)
		if q.Len() != 0 || q.locks.Pop() != nil {
			c.fail("drain-reset", "a recycled long queue is not empty")
		}
		lastTn = 0
		c.add("long_drains", 1)
	}
	grow := true
	since := 0
	for i := 0; i < steps && !c.failed; i++ {
		if rng.Chance(2) {
			grow = !grow
		}
		w := rng.Intn(100)
		rep := 1
		if rng.Chance(8) {
			rep = rng.Range(2, int(s)*2+2)
			if rep > steps-i {
				rep = steps - i
			}
		}
		switch {
		case w < 45 || (grow && w < 68):
			c.op(vfqLongPush, rep)
			for r := 0; r < rep; r++ {
				push()
			}
			i += rep - 1
		case w < 93:
			c.op(vfqLongRemove, rep)
			for r := 0; r < rep && !c.failed; r++ {
				remove()
			}
			i += rep - 1
		case w < 97:
			c.op(vfqIter, 0)
			if q := table[T]; q != nil && vfC20Probe("long-restructure-any") {
				c.op(vfqRestruct, int(q.freeCount))
				if expiry {
					db.restructuringLongExpriedQueue(q)
				} else {
					db.restructuringLongTimeOutQueue(q)
				}
				lastTn = -1
			}
			full("iter")
			since = 0
		default:
			c.op(vfqLongDrain, len(M))
			drain()
			full("drain")
		}
		since += rep
		if since*8 >= len(M) {
			full("step")
			since = 0
		}
	}
	full("final")
	if !c.failed {
		c.op(vfqLongDrain, len(M))
		drain()
	}
	delete(table, T)
	for pool.Pop() != nil {
	}
	for _, l := range vfLogCapture.Take() {
		c.fail("server-error-log", "the server logged an internal inconsistency: %s", l)
	}
	c.add("cases_"+c.kind, 1)
}

func vfAllocNodes(q *LockQueue) int {
	n := 0
	for _, node := range q.queues {
		if node != nil {
			n++
		}
	}
	return n
}

// vfWouldReleaseNodes: would a restructure that keeps `live` elements end two
// or more nodes below the current tail node (and so enter its release loop)?
func vfWouldReleaseNodes(q *LockQueue, live int32) bool {
	newTail, cum := int32(0), int32(0)
	for j := int32(0); j <= q.tailNodeIndex && int(j) < len(q.nodeQueueSizes); j++ {
		cum += q.nodeQueueSizes[j]
		if live < cum {
			newTail = j
			break
		}
		newTail = j + 1
	}
	return q.tailNodeIndex > newTail+1
}

// vfLongDirectedCase: a directed sequence of production calls only
// (AddTimeOut/AddExpried, RemoveLongTimeOut/RemoveLongExpried, the drain of
// checkTimeTimeOut/checkTimeExpried) on the production triple (4,64,256): one
// deadline second whose population first grows to 3000, falls to 200 and then
// churns (N new requests arrive, the N newest leave) 60 times around ~3250
// live requests. Contents must stay those of the model and the final drain
// must recycle the queue.
func vfLongDirectedCase(c *vfQRun, db *LockDB, expiry bool) {
	c.kind = "long-timeout-directed"
	if expiry {
		c.kind = "long-expiry-directed"
	}
	c.params = "base=4 nodes=64 size=256 (production triple, production calls only)"
	mgr := vfC20Manager(db)
	pool := db.freeLongWaitQueues[0]
	for pool.Pop() != nil {
	}
	_ = vfLogCapture.Take()
	vfC20TimeBase += 10
	T := db.currentTime + 100000 + vfC20TimeBase
	table := db.longTimeoutLocks[0]
	if expiry {
		table = db.longExpriedLocks[0]
	}
	var M []*Lock
	push := func(n int) {
		c.op(vfqLongPush, n)
		for i := 0; i < n; i++ {
			l := vfNewRecord(mgr, &protocol.LockCommand{Timeout: 600, Expried: 600})
			l.isAof, l.aofTime, l.refCount = true, 0xff, 2
			if expiry {
				l.expriedCheckedCount, l.expriedTime = EXPRIED_QUEUE_MAX_WAIT+1, T
				db.AddExpried(l)
			} else {
				l.timeoutCheckedCount, l.timeoutTime = TIMEOUT_QUEUE_MAX_WAIT+1, T
				db.AddTimeOut(l)
			}
			M = append(M, l)
		}
	}
	removeNewest := func(n int) {
		c.op(vfqLongRemove, n)
		for i := 0; i < n && len(M) > 0; i++ {
			l := M[len(M)-1]
			M = M[:len(M)-1]
			if expiry {
				db.RemoveLongExpried(l, T)
			} else {
				db.RemoveLongTimeOut(l)
			}
		}
	}
	content := func(where string) bool {
		q := table[T]
		if q == nil {
			c.fail(where+"-table", "the long queue of the deadline second is gone with %d live entries", len(M))
			return false
		}
		k := 0
		for i := range q.locks.IterNodes() {
			for _, l := range q.locks.IterNodeQueues(int32(i)) {
				if l == nil {
					continue
				}
				if k >= len(M) || M[k] != l {
					c.fail(where+"-iter", "live entry %d of the iteration is not model[%d]", k, k)
					return false
				}
				k++
			}
		}
		if k != len(M) || int(q.lockCount-q.freeCount) != len(M) {
			c.fail(where+"-iter", "iteration yields %d live entries, lockCount-freeCount=%d, model holds %d", k, q.lockCount-q.freeCount, len(M))
			return false
		}
		return true
	}
	push(3000)
	removeNewest(2800)
	if !content("setup") {
		return
	}
	q := table[T]
	leaks, pushed, removed := 0, 0, 0
	for cyc := 0; cyc < 60 && !c.failed; cyc++ {
		// push one by one until the tail is 6 slots into node 5
		n := 0
		for (q.locks.tailNodeIndex < 5 || q.locks.tailQueueIndex < 6) && n < 20000 {
			l := vfNewRecord(mgr, &protocol.LockCommand{Timeout: 600, Expried: 600})
			l.isAof, l.aofTime, l.refCount = true, 0xff, 2
			if expiry {
				l.expriedCheckedCount, l.expriedTime = EXPRIED_QUEUE_MAX_WAIT+1, T
				db.AddExpried(l)
			} else {
				l.timeoutCheckedCount, l.timeoutTime = TIMEOUT_QUEUE_MAX_WAIT+1, T
				db.AddTimeOut(l)
			}
			M = append(M, l)
			n++
		}
		c.op(vfqLongPush, n)
		pushed += n
		lc := q.lockCount
		m := 0
		for m < 20000 && q.lockCount >= lc && len(M) > 0 { // until the production trigger rule restructures
			l := M[len(M)-1]
			M = M[:len(M)-1]
			if expiry {
				db.RemoveLongExpried(l, T)
			} else {
				db.RemoveLongTimeOut(l)
			}
			m++
		}
		c.op(vfqLongRemove, m)
		removed += m
		if !content(fmt.Sprintf("cycle%d", cyc)) {
			return
		}
		top := 0
		for i, node := range q.locks.queues {
			if node != nil {
				top = i
			}
		}
		if int(q.locks.nodeIndex) > top {
			leaks++
			c.nontriv = true
		}
	}
	c.add("long_directed_cycles_with_stale_nodeindex", int64(leaks))
	nodeIndex, tableLen := q.locks.nodeIndex, len(q.locks.queues)
	// the production drain at the deadline second
	func() {
		defer func() {
			if r := recover(); r != nil {
				c.add("long_directed_drain_panics", 1)
				c.fail("drain-recycle-panic", "production triple (4,64,256), production calls only: Add x3000, RemoveLong(newest) x2800, then 60 rounds of [Add until the tail is 6 slots into node 5; RemoveLong(newest) until the trigger rule restructures] (%d + %d calls in the rounds, %d live requests of one deadline second at the end); the restructure of a round ends two nodes lower and releases node 5 without lowering nodeIndex, the regrowth re-allocates node 5 and raises nodeIndex again: %d rounds left it stale, nodeIndex=%d with a node table of %d. The drain of the deadline second (checkTimeTimeOut/checkTimeExpried -> FreeLongWaitLockQueue -> LockQueue.Reset) then panics: %v (in production on a sweeper goroutine without recover, shard mutex held)", pushed, removed, len(M), leaks, nodeIndex, tableLen, r)
			}
		}()
		c.op(vfqLongDrain, len(M))
		cnt := q.Len()
		k := 0
		for cnt > 0 {
			if l := q.Pop(); l != nil {
				if k >= len(M) || M[k] != l {
					c.fail("drain", "the Len()-bounded drain yields a wrong entry at live position %d", k)
					return
				}
				k++
			}
			cnt--
		}
		if k != len(M) {
			c.fail("drain", "the Len()-bounded drain yields %d live entries, %d expected", k, len(M))
			return
		}
		delete(table, T)
		pool.FreeLongWaitLockQueue(q, db.currentTime)
	}()
	delete(table, T)
	for pool.Pop() != nil {
	}
	for _, l := range vfLogCapture.Take() {
		c.fail("server-error-log", "the server logged an internal inconsistency: %s", l)
	}
	c.add("cases_long_directed", 1)
}

// ---------------------------------------------------------------- free pools of long / millisecond queues

func vfPoolCase(c *vfQRun, rng *vfRand) {
	ms := rng.Chance(50)
	capN := rng.Range(1, 6)
	steps := rng.Range(20, 200)
	mgr := &LockManager{freeLocks: NewLockQueue(2, 16, 64), state: &protocol.LockDBState{}}
	if ms {
		c.kind = "pool-millisecond"
	} else {
		c.kind = "pool-long"
	}
	c.params = fmt.Sprintf("capacity=%d steps=%d", capN, steps)
	lp := &LongWaitLockFreeQueue{make([]*LongWaitLockQueue, capN), -1, capN - 1}
	mp := &MillisecondWaitLockFreeQueue{make([]*MillisecondWaitLockQueue, capN), -1, capN - 1}
	var LM []*LongWaitLockQueue // stack model
	var MM []*MillisecondWaitLockQueue
	var lout []*LongWaitLockQueue // queues currently handed out
	var mout []*MillisecondWaitLockQueue
	now := int64(1000)
	// use a handed-out queue the way production does, crossing a node boundary sometimes
	useLong := func(q *LongWaitLockQueue) {
		n := rng.Range(0, 40)
		if rng.Chance(10) {
			n = rng.Range(LONG_LOCKS_QUEUE_INIT_SIZE, LONG_LOCKS_QUEUE_INIT_SIZE+300)
		}
		ls := make([]*Lock, n)
		for i := range ls {
			ls[i] = &Lock{manager: mgr, ackCount: 0xff}
			_ = q.Push(ls[i])
		}
		if q.locks.tailNodeIndex > 0 {
			c.add("pool_node_crossings", 1)
			c.nontriv = true
		}
		removed := map[*Lock]bool{}
		for i := 0; i < n/3; i++ { // fewer than the restructure trigger
			l := ls[rng.Intn(n)]
			if !removed[l] {
				q.Remove(l)
				removed[l] = true
			}
		}
		cnt := q.Len()
		if int(cnt) != n {
			c.fail("use-len", "Len() = %d after %d pushes into a recycled queue", cnt, n)
			return
		}
		k := 0
		for cnt > 0 {
			l := q.Pop()
			for k < n && removed[ls[k]] {
				k++
			}
			if l != nil {
				if k >= n || ls[k] != l {
					c.fail("use-drain", "the drain of a recycled queue yields a wrong entry at live position %d", k)
					return
				}
				k++
			}
			cnt--
		}
		for k < n && removed[ls[k]] {
			k++
		}
		if k != n {
			c.fail("use-drain", "the drain of a recycled queue lost entries (%d of %d seen)", k, n)
		}
	}
	useMs := func(q *MillisecondWaitLockQueue) {
		n := rng.Range(0, 40)
		if rng.Chance(8) {
			n = rng.Range(MILLISECOND_LOCKS_QUEUE_INIT_SIZE, MILLISECOND_LOCKS_QUEUE_INIT_SIZE+300)
		}
		ls := make([]*Lock, n)
		for i := range ls {
			ls[i] = &Lock{manager: mgr, ackCount: 0xff}
			_ = q.Push(ls[i])
		}
		if q.tailNodeIndex > 0 {
			c.add("pool_node_crossings", 1)
			c.nontriv = true
		}
		if rng.Chance(70) {
			// checkMillisecondTimeOut: iterate, handle and clear every slot in place
			k := 0
			for i := range q.IterNodes() {
				nq := q.IterNodeQueues(int32(i))
				for j, l := range nq {
					if k >= n || l != ls[k] {
						c.fail("use-iter", "iteration of a recycled millisecond queue yields a wrong entry at %d", k)
						return
					}
					nq[j] = nil
					k++
				}
			}
			if k != n {
				c.fail("use-iter", "iteration of a recycled millisecond queue yields %d of %d entries", k, n)
			}
			c.add("pool_ms_cleared_in_place", 1)
		} else {
			// flushTimeOut: Pop until nil
			k := 0
			for l := q.Pop(); l != nil; l = q.Pop() {
				if k >= n || l != ls[k] {
					c.fail("use-drain", "drain of a recycled millisecond queue yields a wrong entry at %d", k)
					return
				}
				k++
			}
			if k != n {
				c.fail("use-drain", "drain of a recycled millisecond queue yields %d of %d entries", k, n)
			}
		}
	}
	for i := 0; i < steps && !c.failed; i++ {
		now++
		w := rng.Intn(100)
		switch {
		case w < 35: // get
			c.op(vfqPoolGet, 0)
			if !ms {
				q := lp.GetLongWaitLockQueue(0, now)
				if len(LM) > 0 {
					if q != LM[len(LM)-1] {
						c.fail("get", "GetLongWaitLockQueue did not return the most recently recycled queue")
						break
					}
					LM = LM[:len(LM)-1]
					c.add("pool_get_recycled", 1)
				} else {
					for _, o := range lout {
						if o == q {
							c.fail("get", "an empty pool handed out a queue that is still in use")
						}
					}
					c.add("pool_get_new", 1)
				}
				if q.lockTime != now || q.lockCount != 0 || q.freeCount != 0 || q.Len() != 0 || q.Pop() != nil {
					c.fail("get-state", "a handed-out long queue is not clean: lockTime=%d lockCount=%d freeCount=%d Len=%d", q.lockTime, q.lockCount, q.freeCount, q.Len())
				}
				lout = append(lout, q)
			} else {
				q := mp.GetLockQueue()
				if len(MM) > 0 {
					if q != MM[len(MM)-1] {
						c.fail("get", "GetLockQueue did not return the most recently recycled queue")
						break
					}
					MM = MM[:len(MM)-1]
					c.add("pool_get_recycled", 1)
				} else {
					c.add("pool_get_new", 1)
				}
				if q.Len() != 0 || q.Pop() != nil || q.Head() != nil {
					c.fail("get-state", "a handed-out millisecond queue is not empty: Len=%d", q.Len())
				}
				mout = append(mout, q)
			}
		case w < 75: // use + free
			if !ms && len(lout) > 0 {
				k := rng.Intn(len(lout))
				q := lout[k]
				lout = append(lout[:k:k], lout[k+1:]...)
				c.op(vfqCycle, 0)
				useLong(q)
				c.op(vfqPoolFree, 0)
				lp.FreeLongWaitLockQueue(q, now)
				if len(LM) < capN {
					LM = append(LM, q)
					if q.Len() != 0 || q.lockCount != -1 || q.freeCount != -1 {
						c.fail("free-state", "a recycled long queue is not reset: Len=%d lockCount=%d", q.Len(), q.lockCount)
					}
				} else {
					c.add("pool_free_dropped_full", 1)
				}
			} else if ms && len(mout) > 0 {
				k := rng.Intn(len(mout))
				q := mout[k]
				mout = append(mout[:k:k], mout[k+1:]...)
				c.op(vfqCycle, 0)
				useMs(q)
				c.op(vfqPoolFree, 0)
				mp.FreeLockQueue(q, now)
				if len(MM) < capN {
					MM = append(MM, q)
					if q.Len() != 0 || q.Pop() != nil {
						c.fail("free-state", "a recycled millisecond queue is not empty: Len=%d", q.Len())
					}
				} else {
					c.add("pool_free_dropped_full", 1)
				}
			}
		case w < 88: // pop (free collector)
			c.op(vfqPoolPop, 0)
			if !ms {
				q := lp.Pop()
				var want *LongWaitLockQueue
				if len(LM) > 0 {
					want = LM[len(LM)-1]
					LM = LM[:len(LM)-1]
				}
				if q != want {
					c.fail("pop", "Pop() of the long pool returned the wrong queue")
				}
			} else {
				q := mp.Pop()
				var want *MillisecondWaitLockQueue
				if len(MM) > 0 {
					want = MM[len(MM)-1]
					MM = MM[:len(MM)-1]
				}
				if q != want {
					c.fail("pop", "Pop() of the millisecond pool returned the wrong queue")
				}
			}
		default:
			c.op(vfqLen, 0)
		}
		if !ms && lp.Len() != len(LM) {
			c.fail("len", "Len() = %d, stack model holds %d", lp.Len(), len(LM))
		}
		if ms && mp.Len() != len(MM) {
			c.fail("len", "Len() = %d, stack model holds %d", mp.Len(), len(MM))
		}
		c.add("pool_ops", 1)
	}
	c.add("cases_"+c.kind, 1)
}

// ---------------------------------------------------------------- driver

func vfC20Case(env *vfEnv, part *vfPart, i int) {
	rng := vfCaseRand(env.Seed, "C20", i)
	c := &vfQRun{env: env, caseNo: i, cnt: map[string]int64{}}
	done := false
	defer func() {
		if !done {
			// repository code panicked: keep the operation list next to the crash
			// record (no recover here: the panic travels on to vfGuardCase)
			vfWriteReplay(env, fmt.Sprintf("case%d.json", i), map[string]interface{}{"case": i, "seed": env.Seed, "tier": env.Tier, "property": "C20",
				"kind": c.kind, "params": c.params, "clause": c.kind + "/crash", "detail": "repository code panicked during the last operation", "ops": c.render(6000)})
		}
	}()
	k := rng.Intn(100)
	switch {
	case i < 2 && !vfC20Probe("no-directed"):
		vfLongDirectedCase(c, vfC20DB(env), i == 1)
	case k < 46:
		vfSegCase(c, rng)
	case k < 60:
		vfHolderCase(c, rng, vfC20DB(env))
	case k < 74:
		vfWaitCase(c, rng, vfC20DB(env))
	case k < 82:
		vfRingCase(c, rng)
	case k < 95:
		vfLongCase(c, rng, vfC20DB(env))
	default:
		vfPoolCase(c, rng)
	}
	for name, n := range c.cnt {
		part.Add(name, n)
	}
	part.Add("ops_logged", int64(len(c.ops)))
	part.Max("max_ops_in_a_case", int64(len(c.ops)))
	h := c.hash()
	part.Mark("cases", h)
	if c.nontriv {
		part.Mark("nontrivial", h)
		ops := c.render(40)
		part.Sample(2, map[string]interface{}{"case": i, "kind": c.kind, "params": c.params, "ops": len(c.ops), "last_ops": strings.Join(ops, " ")})
	}
	if c.failed {
		doc := map[string]interface{}{"case": i, "seed": env.Seed, "tier": env.Tier, "property": "C20", "kind": c.kind, "params": c.params,
			"clause": c.clause, "detail": c.detail, "ops": c.render(6000)}
		rp := vfWriteReplay(env, fmt.Sprintf("case%d.json", i), doc)
		sig := c.clause
		if strings.HasSuffix(c.clause, "-directed/drain-recycle-panic") {
			sig = "long-queue-restructure-leaves-nodeindex-stale:reset-panics"
		}
		part.Violate(vfViolation{Prop: "C20", Clause: c.clause, Detail: c.detail, Case: i, Replay: rp, Sig: sig})
	}
	done = true
}

func TestVerif_C20(t *testing.T) {
	start := time.Now()
	env := vfGetEnv("C20")
	n := env.N(5000, 500000)
	runCase := func(part *vfPart, i int) { vfC20Case(env, part, i) }
	part := vfRunSharded(t, env, "TestVerif_C20", n, vfNumCPU(), runCase)
	if part == nil {
		return // shard child
	}
	spec := &vfSpec{Prop: "C20", Level: "exploration",
		Rule:       "case i = PRNG operation sequence splitmix(seed,'C20',i) of 30-2000 steps (bursts up to twice the current node size; up to 14000 steps for production-sized nodes; rare 70000-step holder slides) run against one real queue and a slice model: LockQueue / LockCommandQueue / LockManagerQueue over (base 1-4, nodes 1-8, size 1-8) and the production triples (full size or node size scaled down), the per-key holder queue through LockManager.AddLock/RemoveLock/GetLockedLock, the per-key wait queue through LockManager.AddWaitLock/GetWaitLock, the stand-alone ring and priority ring, long wait queues through LockDB.AddTimeOut/AddExpried/RemoveLongTimeOut/RemoveLongExpried and the Len()-bounded drain, and the long / millisecond queue pools; every returned element (pointer identity), Len, Head, Tail, MaxPriority and the iterated content are compared; non-trivial = the case crossed a node boundary or took a representation switch (inline growth, inline->scale, inline->ring, FIFO->priority, ring growth/compaction, effective Resize, restructure with holes); distinct = hash of kind, parameters and operation list",
		NontrivSet: "nontrivial",
		Assumptions: []string{
			"Shrink is never generated: it has no caller in the repository and releases the head node itself (the node holding the oldest elements), so no state exists in which it is an identity on a non-empty deque",
			"Rellac is generated only on an empty deque (its production precondition: every caller runs it right after a Pop-until-nil drain); there it must be a no-op on contents",
			"LockQueue/LockCommandQueue/LockManagerQueue.Restructuring has no production caller; it is generated in every state (after pops from either end, PushLeft, Resize, Reset, holes) except those where it would release two or more nodes, the path its production siblings restructuringLongTimeOutQueue/restructuringLongExpriedQueue can never take because their trigger rule (holes*3 >= pushes and holes >= initial node size or everything removed) shrinks the content by at most one node; skipped calls are counted in seg_restructure_skipped_would_release_nodes",
			"long wait queues: restructuringLong*Queue runs only under the production trigger rule: real RemoveLongTimeOut/RemoveLongExpried for the production triple (4,64,256); for scaled-down triples (placed in the LockDB table, fed by the real AddTimeOut/AddExpried) the same rule with the threshold scaled to the initial node size, and not when the restructure would release nodes (that path leaves nodeIndex stale, which with the short node tables of scaled triples crashes the next Reset within a few steps; it is covered with the production triple by the directed cases 0 and 1); Len() is only required to bound the drain loop (it counts holes), lockCount-freeCount is the live count",
			"cases 0 (timeout) and 1 (expiry) are directed, not PRNG: production calls only on the production triple, one deadline second growing to 3000, falling to 200, then 60 churn rounds around ~3250 live requests, then the sweeper's drain and recycle",
			"holder and wait queues are driven through the LockManager methods that own them; Reset is generated only when no record is left (RemoveLockManager precondition); LockIds are unique among live holders (client contract) but the id of a released holder may be reused while its record is still queued",
			"holes are made the way production makes them: by clearing a slot inside the slice returned by IterNodeQueues (or LongWaitLockQueue.Remove); a hole is a nil element of the model until a restructure drops it",
			"PushLeft may refuse with its 'full' error (the model then does nothing); Reset is modelled as clear and is also generated on non-empty deques (2% of mixed-profile steps)",
		},
		Floors: []string{"seg_node_crossings", "seg_growths", "seg_pushleft_accepted", "seg_resize_effective", "seg_restructure_with_holes", "seg_rellac_released_nodes", "seg_freequeue_released_nodes",
			"holder_inline_growths", "holder_inline_to_scale", "holder_scale_node_crossings", "wait_inline_growths", "wait_inline_to_ring", "wait_fifo_to_priority", "wait_fifo_to_priority_with_backlog",
			"ring_growths", "ring_compactions", "prioring_three_or_more_levels", "long_node_crossings", "long_node_crossings_production_triple", "long_restructure_with_holes", "long_restructure_with_holes_production_triple", "long_drains", "pool_get_recycled"},
	}
	vfFinish(t, env, spec, part, start)
}
