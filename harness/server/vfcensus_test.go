//go:build verif

package server

// Census: an in-package walk of the live data structures of a LockDB, taken
// under each shard mutex (the code's own lock), at quiescent points.

import (
	"fmt"
	"sort"
	"sync/atomic"

	"github.com/snower/slock/protocol"
)

var vfCensusVerbose bool

type vfCHold struct {
	LockId   [16]byte
	Depth    uint8
	Count    uint16
	Rcount   uint8
	TFlag    uint16
	EFlag    uint16
	Expried  uint16
	Deadline int64 // lock.expriedTime
	Start    int64
	AckWait  bool
	IsAof    bool
	ReqId    [16]byte
}

type vfCWaiter struct {
	LockId   [16]byte
	ReqId    [16]byte
	Count    uint16
	Rcount   uint8
	TFlag    uint16
	Deadline int64 // timeoutTime
}

type vfCKey struct {
	Db       uint8
	Key      [16]byte
	Locked   uint32
	Waited   bool
	RefCount uint32
	Holds    []vfCHold
	Waiters  []vfCWaiter
	Data     []byte // current value (nil if none/unset)
	DataType uint8
	HasData  bool
	Fast     bool // reachable through the fast table (else the slow map)
}

type vfCensus struct {
	Keys    []*vfCKey
	State   protocol.LockDBState
	Errors  []string // structural inconsistencies found during the walk
	// wheel / table population (records, live or tombstoned)
	WheelTimeout, WheelExpried, LongTimeout, LongExpried, MsTimeout, MsExpried int
	LiveRecords int // Lock records with manager != nil reachable from any structure
	FreePooled  int
}

func (c *vfCensus) find(db uint8, key [16]byte) *vfCKey {
	for _, k := range c.Keys {
		if k.Db == db && k.Key == key {
			return k
		}
	}
	return nil
}

func vfKeyLess(a, b *vfCKey) bool {
	if a.Db != b.Db {
		return a.Db < b.Db
	}
	for i := 0; i < 16; i++ {
		if a.Key[i] != b.Key[i] {
			return a.Key[i] < b.Key[i]
		}
	}
	return false
}

// vfTakeCensus walks db. It takes every shard mutex (in index order) for the
// duration of the walk, so it must only be called when the calling goroutine
// holds none of them.
func vfTakeCensus(db *LockDB) *vfCensus {
	c := &vfCensus{}
	for i := uint16(0); i < db.managerMaxGlocks; i++ {
		db.managerGlocks[i].LowPriorityLock()
	}
	defer func() {
		for i := uint16(0); i < db.managerMaxGlocks; i++ {
			db.managerGlocks[i].LowPriorityUnlock()
		}
	}()

	refs := map[*Lock]int{}       // structures referencing each record
	where := map[*Lock][]string{}
	mgrLive := map[*LockManager]int{} // live records per manager
	seenMgr := map[*LockManager]bool{}
	whereAdd := func(l *Lock, w string) { where[l] = append(where[l], w) }
	addMgr := func(m *LockManager, fast bool) {
		if m == nil || seenMgr[m] {
			return
		}
		seenMgr[m] = true
		if atomic.LoadUint32(&m.refCount) == 0xffffffff {
			c.Errors = append(c.Errors, fmt.Sprintf("freed manager reachable from key table key=%x", m.lockKey))
			return
		}
		k := &vfCKey{Db: m.dbId, Key: m.lockKey, Locked: m.locked, Waited: m.waited, RefCount: atomic.LoadUint32(&m.refCount), Fast: fast}
		if m.currentData != nil {
			k.HasData = true
			k.DataType = m.currentData.commandType
			if d := m.currentData.GetData(); d != nil {
				k.Data = append([]byte(nil), d...)
			}
		}
		addHold := func(l *Lock, wh string) {
			where := wh
			if l == nil {
				return
			}
			refs[l]++
			whereAdd(l, wh)
			if l.manager == nil {
				c.Errors = append(c.Errors, fmt.Sprintf("freed record reachable from %s of key=%x", where, m.lockKey))
				return
			}
			if l.manager != m {
				c.Errors = append(c.Errors, fmt.Sprintf("record of another manager reachable from %s of key=%x", where, m.lockKey))
				return
			}
			if l.locked == 0 {
				return // lazily removed entry
			}
			h := vfCHold{LockId: l.command.LockId, Depth: l.locked, Count: l.command.Count, Rcount: l.command.Rcount, TFlag: l.command.TimeoutFlag,
				EFlag: l.command.ExpriedFlag, Expried: l.command.Expried, Deadline: l.expriedTime, Start: l.startTime, AckWait: l.ackCount != 0xff, IsAof: l.isAof, ReqId: l.command.RequestId}
			k.Holds = append(k.Holds, h)
		}
		addHold(m.currentLock, "currentLock")
		if m.currentLock != nil && m.currentLock.locked == 0 && m.currentLock.manager != nil {
			c.Errors = append(c.Errors, fmt.Sprintf("currentLock with depth 0 key=%x", m.lockKey))
		}
		if m.locks != nil {
			for _, node := range m.locks.IterNodes() {
				for _, l := range node {
					addHold(l, "locks")
				}
			}
		}
		if m.waitLocks != nil {
			for _, node := range m.waitLocks.IterNodes() {
				for _, l := range node {
					if l == nil {
						continue
					}
					refs[l]++
					whereAdd(l, "waitLocks")
					if l.manager == nil {
						c.Errors = append(c.Errors, fmt.Sprintf("freed record reachable from waitLocks of key=%x", m.lockKey))
						continue
					}
					if l.manager != m {
						c.Errors = append(c.Errors, fmt.Sprintf("record of another manager in waitLocks of key=%x", m.lockKey))
						continue
					}
					if l.timeouted || l.ackCount != 0xff {
						continue // tombstone or ack-pending hold (also in holder list)
					}
					k.Waiters = append(k.Waiters, vfCWaiter{LockId: l.command.LockId, ReqId: l.command.RequestId, Count: l.command.Count, Rcount: l.command.Rcount, TFlag: l.command.TimeoutFlag, Deadline: l.timeoutTime})
				}
			}
		}
		var depth uint32
		for _, h := range k.Holds {
			depth += uint32(h.Depth)
		}
		if depth != m.locked {
			c.Errors = append(c.Errors, fmt.Sprintf("manager.locked=%d but sum of holder depths=%d key=%x", m.locked, depth, m.lockKey))
		}
		c.Keys = append(c.Keys, k)
	}
	for i := range db.fastLocks {
		fv := &db.fastLocks[i]
		if atomic.LoadUint32(&fv.lock) == 2 && fv.manager != nil {
			addMgr(fv.manager, true)
		}
	}
	db.mGlock.RLock()
	for _, m := range db.locks {
		addMgr(m, false)
	}
	db.mGlock.RUnlock()
	sort.Slice(c.Keys, func(i, j int) bool { return vfKeyLess(c.Keys[i], c.Keys[j]) })

	// wheels and tables
	walkQ := func(q *LockQueue, where string, n *int) {
		for _, node := range q.IterNodes() {
			_ = node
		}
		cnt := int32(len(q.IterNodes()))
		for ni := int32(0); ni < cnt; ni++ {
			for _, l := range q.IterNodeQueues(ni) {
				if l == nil {
					continue
				}
				*n++
				refs[l]++
				whereAdd(l, where)
				if l.manager == nil {
					c.Errors = append(c.Errors, "freed record reachable from "+where)
				}
			}
		}
	}
	for i := int64(0); i < TIMEOUT_QUEUE_LENGTH; i++ {
		for j := uint16(0); j < db.managerMaxGlocks; j++ {
			walkQ(db.timeoutLocks[i][j], "timeout wheel", &c.WheelTimeout)
		}
	}
	for i := int64(0); i < EXPRIED_QUEUE_LENGTH; i++ {
		for j := uint16(0); j < db.managerMaxGlocks; j++ {
			walkQ(db.expriedLocks[i][j], "expiry wheel", &c.WheelExpried)
		}
	}
	for j := uint16(0); j < db.managerMaxGlocks; j++ {
		for _, lq := range db.longTimeoutLocks[j] {
			walkQ(&lq.locks, "long timeout table", &c.LongTimeout)
		}
		for _, lq := range db.longExpriedLocks[j] {
			walkQ(&lq.locks, "long expiry table", &c.LongExpried)
		}
		for _, mq := range db.millisecondTimeoutLocks[j] {
			if mq != nil {
				walkQ(&mq.LockQueue, "ms timeout wheel", &c.MsTimeout)
			}
		}
		for _, mq := range db.millisecondExpriedLocks[j] {
			if mq != nil {
				walkQ(&mq.LockQueue, "ms expiry wheel", &c.MsExpried)
			}
		}
	}
	// free pools: a record may be pooled at most once and must not be live
	pooled := map[*Lock]int{}
	for j := uint16(0); j < db.managerMaxGlocks; j++ {
		q := db.freeLocks[j]
		cnt := int32(len(q.IterNodes()))
		for ni := int32(0); ni < cnt; ni++ {
			for _, l := range q.IterNodeQueues(ni) {
				if l == nil {
					continue
				}
				pooled[l]++
				c.FreePooled++
				if pooled[l] == 2 {
					c.Errors = append(c.Errors, "record is in a free pool twice")
				}
				if l.manager != nil {
					c.Errors = append(c.Errors, "pooled record still has a manager")
				}
			}
		}
	}
	if vfCensusVerbose {
		for l, n := range refs {
			c.Errors = append(c.Errors, fmt.Sprintf("DEBUG record %p refCount=%d refs=%d %v locked=%d timeouted=%v expried=%v ack=%d mgr=%v", l, l.refCount, n, where[l], l.locked, l.timeouted, l.expried, l.ackCount, l.manager != nil))
		}
	}
	for l, n := range refs {
		if pooled[l] > 0 {
			// lazily removed entries may legitimately still be referenced by a
			// structure only while refCount > 0, in which case they are not
			// pooled: a record both pooled and referenced is the defect
			c.Errors = append(c.Errors, fmt.Sprintf("record is pooled and still referenced by %d structure(s)", n))
		}
		if l.manager != nil {
			c.LiveRecords++
			mgrLive[l.manager]++
			if int(l.refCount) < n {
				c.Errors = append(c.Errors, fmt.Sprintf("record refCount=%d < %d structures referencing it %v (key=%x)", l.refCount, n, where[l], l.manager.lockKey))
			}
		}
	}
	for m, n := range mgrLive {
		rc := atomic.LoadUint32(&m.refCount)
		if rc == 0xffffffff {
			c.Errors = append(c.Errors, fmt.Sprintf("live record points to a freed manager (%d records)", n))
			continue
		}
		if int(rc) != n {
			c.Errors = append(c.Errors, fmt.Sprintf("manager refCount=%d but %d live records point to it (key=%x)", rc, n, m.lockKey))
		}
		if !seenMgr[m] {
			c.Errors = append(c.Errors, fmt.Sprintf("live record points to a manager not reachable from the key tables (key=%x)", m.lockKey))
		}
	}
	for m := range seenMgr {
		if atomic.LoadUint32(&m.refCount) != 0xffffffff && mgrLive[m] == 0 && atomic.LoadUint32(&m.refCount) != 0 {
			c.Errors = append(c.Errors, fmt.Sprintf("manager refCount=%d but no live record points to it (key=%x)", m.refCount, m.lockKey))
		}
	}
	c.State = *db.GetState()
	sort.Strings(c.Errors)
	return c
}
