//go:build verif

package server

// Millisecond-unit stage of C05 (wait time-outs) and C06 (expiry): the part of
// both properties the virtual-clock engine cannot reach, because millisecond
// timers are goroutines on the wall clock.
//
// One child process = one real-clock leader (real sweepers). A case is a batch
// of scenarios that run concurrently on their own keys, each through its own
// in-memory connection whose callback stamps every reply / notice with one
// monotonic clock.
//
// Verdicts (what is judged and why it is sound on a loaded machine):
//   early      a notice / TIMEOUT for request r observed less than its term
//              after r was SENT. The server cannot have set the terms before
//              the send nor ended the hold after the observation, so measured
//              < term implies true < term, whatever the load.
//   not-ended  no notice E+8 s after the terms were set (the statement's bound
//              is E+2 s, E+10 s after a shortening update: the margin is then
//              18 s) although every plain calibration hold of the same batch
//              was ended within 1 s of its own deadline.
//   capacity   after the EXPRIED notice a probe by another LockId (Count=0)
//              must be granted at once.
// Everything else that depends on the wall clock (lateness within the margin)
// is counted in the evidence, not judged.

import (
	"fmt"
	"os"
	"path/filepath"
	"runtime"
	"sync"
	"testing"
	"time"

	"github.com/snower/slock/protocol"
)

const vfMsBatch = 40

// the statements speak of server time; the server's millisecond clock is UnixNano()/1e6, so an
// interval measured in nanoseconds may be up to one tick shorter than the same interval in server time
const vfMsTick = time.Millisecond

var vfMsRule = map[string]string{
	"C06": "; millisecond stage: batch b = PRNG splitmix(seed,'C06ms',b) of 40 concurrent scenarios on a real-clock leader (24 quick / 1600 thorough batches): holds with a millisecond expiry 1..2999 ms (and 3000..7300 ms, which are handed over to the per-second wheel), alone (calibration) or followed after a PRNG delay by an update (flag 0x02) / re-entrant re-lock that changes the terms (ms longer, ms shorter, ms -> 1-3 s, ms -> 600 s, 2-4 s -> ms); a notice under request r earlier than r's term after r was sent is a violation, so is a hold not ended 8 s after its deadline while the batch's calibration holds were on time, and a probe refused after the notice",
	"C05": "; millisecond stage: batch b = PRNG splitmix(seed,'C05ms',b) of 40 concurrent scenarios on a real-clock leader (24 quick / 1600 thorough batches): a request queued behind a holder with a millisecond time-out 0..2999 ms or 3000..7300 ms (and plain calibration waits); TIMEOUT earlier than the term after the send is a violation, so is a request not answered 8 s after its deadline while the batch's calibration waits were on time",
}

var vfMsAssumptions = []string{"millisecond stage: real clock; 'early' is decided from the client's send time and the observation time (sound under load), 'not ended' only with a 6 s margin beyond the statement's bound and only when the calibration scenarios of the same batch were on time; lateness inside the margin is counted, not judged"}

var vfMsFloors = map[string][]string{
	"C06": {"ms_notices_timed", "ms_terms_changed", "ms_probes_after_notice", "ms_long_holds_survived"},
	"C05": {"ms_timeouts_timed"},
}

type vfMsEvent struct {
	rid    byte
	result uint8
	lrc    uint8
	at     time.Duration
}

type vfMsScenario struct {
	Kind   string `json:"kind"`
	E1     int    `json:"e1"`      // first term (ms, or seconds when E1Sec)
	E1Sec  bool   `json:"e1_sec"`  //
	Delay  int    `json:"delay"`   // ms before the second request
	E2     int    `json:"e2"`      // second term
	E2Sec  bool   `json:"e2_sec"`  //
	Relock bool   `json:"relock"`  // second request is a re-entrant re-lock instead of an update
	Trace  []string `json:"trace,omitempty"`
}

type vfMsInst struct {
	in   *vfInstance
	base time.Time
}

var vfMsInstance *vfMsInst
var vfMsOnce sync.Once

func vfMsGet(env *vfEnv) *vfMsInst {
	vfMsOnce.Do(func() {
		dir := vfScratchDir(env, fmt.Sprintf("ms-%d", os.Getpid()))
		in, err := vfNewLeader(vfInstCfg{Dir: dir, Manual: false, NDb: 1, DBConcurrent: 4, FastKeys: 64})
		if err != nil {
			return
		}
		vfMsInstance = &vfMsInst{in: in, base: time.Now()}
	})
	return vfMsInstance
}

func vfMsPlan(prop string, rng *vfRand, calibration bool) *vfMsScenario {
	ms := func() int {
		switch rng.Intn(6) {
		case 0:
			return rng.Range(1, 30)
		case 1:
			return rng.Range(2900, 2999)
		default:
			return rng.Range(30, 2900)
		}
	}
	// millisecond terms too long for the 3000-slot millisecond queues are handed over to the per-second wheel
	above := []int{3000, 3000, 3001, 3500, 4500, 4999, 5999, 6000, 7300}
	if prop == "C05" {
		s := &vfMsScenario{Kind: "wait", E1: ms()}
		if !calibration && rng.Chance(8) {
			s.E1 = 0
		}
		if !calibration && rng.Chance(12) {
			s.Kind, s.E1 = "wait-above-3000ms", above[rng.Intn(len(above))]
		}
		if calibration {
			s.Kind = "wait-calibration"
			s.E1 = rng.Range(200, 1500)
		}
		return s
	}
	if calibration {
		return &vfMsScenario{Kind: "plain-calibration", E1: rng.Range(200, 1500)}
	}
	switch rng.Intn(8) {
	case 7:
		return &vfMsScenario{Kind: "plain-above-3000ms", E1: above[rng.Intn(len(above))]}
	case 0:
		return &vfMsScenario{Kind: "plain", E1: ms()}
	case 1: // ms -> longer ms
		e1 := rng.Range(200, 2000)
		return &vfMsScenario{Kind: "ms-to-longer-ms", E1: e1, Delay: rng.Range(1, e1*2/3), E2: rng.Range(e1+300, 2999), Relock: rng.Chance(40)}
	case 2: // ms -> shorter ms
		e1 := rng.Range(1200, 2999)
		return &vfMsScenario{Kind: "ms-to-shorter-ms", E1: e1, Delay: rng.Range(1, 400), E2: rng.Range(50, 600), Relock: rng.Chance(40)}
	case 3: // ms -> seconds
		e1 := rng.Range(200, 2500)
		return &vfMsScenario{Kind: "ms-to-seconds", E1: e1, Delay: rng.Range(1, e1*2/3), E2: rng.Range(1, 3), E2Sec: true, Relock: rng.Chance(50)}
	case 4: // ms -> 600 s
		e1 := rng.Range(200, 2500)
		return &vfMsScenario{Kind: "ms-to-long", E1: e1, Delay: rng.Range(1, e1*2/3), E2: 600, E2Sec: true, Relock: rng.Chance(50)}
	case 5: // seconds -> ms, new deadline later than the old one
		e1 := rng.Range(2, 3)
		return &vfMsScenario{Kind: "seconds-to-later-ms", E1: e1, E1Sec: true, Delay: rng.Range(e1*1000-900, e1*1000-100), E2: rng.Range(2000, 2999), Relock: rng.Chance(40)}
	default: // seconds -> ms, new deadline earlier
		e1 := rng.Range(3, 4)
		return &vfMsScenario{Kind: "seconds-to-earlier-ms", E1: e1, E1Sec: true, Delay: rng.Range(50, 600), E2: rng.Range(100, 900), Relock: rng.Chance(40)}
	}
}

type vfMsResult struct {
	sc        *vfMsScenario
	viol      []vfViolation
	lateness  time.Duration // of the final notice vs its deadline (only meaningful when noticed)
	noticed   bool
	notEnded  string // description of a hold / wait that was not ended within the margin
	counters  map[string]int64
	completed bool
}

func vfMsTerm(v int, sec bool) time.Duration {
	if sec {
		return time.Duration(v) * time.Second
	}
	return time.Duration(v) * time.Millisecond
}

func vfMsRun(inst *vfMsInst, prop string, batch, j int, sc *vfMsScenario) *vfMsResult {
	res := &vfMsResult{sc: sc, counters: map[string]int64{}}
	slock := inst.in.slock
	p := NewMemWaiterServerProtocol(slock)
	defer p.Close()
	events := make(chan vfMsEvent, 64)
	now := func() time.Duration { return time.Since(inst.base) }
	_ = p.SetResultCallback(func(_ *MemWaiterServerProtocol, cmd *protocol.LockCommand, result uint8, lcount uint16, lrcount uint8, data []byte) error {
		select {
		case events <- vfMsEvent{rid: cmd.RequestId[0], result: result, lrc: lrcount, at: now()}:
		default:
		}
		return nil
	})
	key := vfKeyBytes(0, j)
	key[3], key[4], key[5] = byte(batch), byte(batch>>8), byte(batch>>16)
	trace := func(f string, a ...interface{}) {
		sc.Trace = append(sc.Trace, fmt.Sprintf("+%dms ", now().Milliseconds())+fmt.Sprintf(f, a...))
	}
	sent := map[byte]time.Duration{}
	term := map[byte]time.Duration{}
	lagAtSend := map[byte]int64{}
	// terms that are timed by the per-second wheel (seconds, or milliseconds >= 3000) start from the server's second
	// clock; when that clock is behind real time while the terms are set, the hold may end that much early in real
	// time without any defect: such an observation is counted, not judged
	unitSec := map[byte]bool{}
	onSecondClock := func(rid byte) bool { return unitSec[rid] || term[rid] >= 3*time.Second }
	send := func(rid byte, ctype uint8, lockId int, flag uint8, e uint16, eflag uint16, t uint16, tflag uint16, count uint16, rcount uint8) {
		cmd := p.GetLockCommand()
		cmd.Magic, cmd.Version, cmd.CommandType = protocol.MAGIC, protocol.VERSION, ctype
		cmd.RequestId = [16]byte{rid, byte(j), byte(batch), byte(batch >> 8), 0x77}
		cmd.LockKey, cmd.LockId = key, vfLockIdBytes(lockId)
		cmd.Expried, cmd.ExpriedFlag, cmd.Rcount, cmd.Count, cmd.Timeout, cmd.TimeoutFlag, cmd.Flag, cmd.DbId = e, eflag, rcount, count, t, tflag, flag, 0
		cmd.Data = nil
		sent[rid] = now()
		if db := slock.dbs[0]; db != nil {
			// whole seconds the server's own second clock is behind real time right now (0 unless its ticker is starved)
			lagAtSend[rid] = time.Now().Unix() - db.currentTime
		}
		trace("send r%d type=%d L%d flag=%02x e=%d/%04x t=%d/%04x cnt=%d rc=%d", rid, ctype, lockId, flag, e, eflag, t, tflag, count, rcount)
		_ = p.ProcessLockCommand(cmd)
	}
	wait := func(d time.Duration, accept func(ev vfMsEvent) bool) (vfMsEvent, bool) {
		deadline := time.NewTimer(d)
		defer deadline.Stop()
		for {
			select {
			case ev := <-events:
				trace("recv r%d %s lrc=%d (observed +%dms)", ev.rid, vfResName(ev.result), ev.lrc, ev.at.Milliseconds())
				if accept(ev) {
					return ev, true
				}
			case <-deadline.C:
				return vfMsEvent{}, false
			}
		}
	}
	violate := func(clause, sig, f string, a ...interface{}) {
		res.viol = append(res.viol, vfViolation{Prop: prop, Clause: "ms/" + clause, Sig: sig, Detail: fmt.Sprintf(f, a...) + fmt.Sprintf(" [scenario %s e1=%d sec=%v delay=%d e2=%d sec=%v relock=%v]", sc.Kind, sc.E1, sc.E1Sec, sc.Delay, sc.E2, sc.E2Sec, sc.Relock)})
	}
	eflag := func(sec bool) uint16 {
		if sec {
			return 0
		}
		return protocol.EXPRIED_FLAG_MILLISECOND_TIME
	}
	margin := 8 * time.Second
	const replyWait = 20 * time.Second

	if prop == "C05" {
		// holder (LockId 1, 300 s) then a waiter (LockId 2) with a millisecond time-out
		send(1, protocol.COMMAND_LOCK, 1, 0, 300, 0, 0, 0, 0, 0)
		if ev, ok := wait(replyWait, func(ev vfMsEvent) bool { return ev.rid == 1 }); !ok || ev.result != protocol.RESULT_SUCCED {
			return res // inconclusive: counted by the caller (completed=false)
		}
		term[2] = vfMsTerm(sc.E1, false)
		send(2, protocol.COMMAND_LOCK, 2, 0, 5, 0, uint16(sc.E1), protocol.TIMEOUT_FLAG_MILLISECOND_TIME, 0, 0)
		ev, ok := wait(term[2]+margin, func(ev vfMsEvent) bool { return ev.rid == 2 })
		if !ok {
			res.notEnded = fmt.Sprintf("request with a time-out of %d ms was not answered %v after its deadline", sc.E1, margin)
		} else {
			if ev.result != protocol.RESULT_TIMEOUT {
				violate("wait-result", "", "a request queued behind a 300 s holder with time-out %d ms was answered %s", sc.E1, vfResName(ev.result))
			} else {
				el := ev.at - sent[2]
				res.noticed, res.lateness = true, el-term[2]
				res.counters["ms_timeouts_timed"]++
				if sc.E1 == 0 {
					res.counters["ms_timeouts_immediate"]++
				}
				if el < term[2]-vfMsTick && onSecondClock(2) && lagAtSend[2] > 0 {
					res.counters["ms_early_not_judged_(server_second_clock_behind)"]++
				} else if el < term[2]-vfMsTick {
					violate("timeout-early", "", "TIMEOUT observed %v after the request was sent, its time-out is %d ms", el, sc.E1)
				}
			}
		}
		send(3, protocol.COMMAND_UNLOCK, 1, 0, 0, 0, 0, 0, 0, 0)
		_, _ = wait(replyWait, func(ev vfMsEvent) bool { return ev.rid == 3 })
		res.completed = true
		return res
	}

	// ---- C06
	term[1], unitSec[1] = vfMsTerm(sc.E1, sc.E1Sec), sc.E1Sec
	send(1, protocol.COMMAND_LOCK, 1, 0, uint16(sc.E1), eflag(sc.E1Sec), 0, 0, 0, 2)
	if ev, ok := wait(replyWait, func(ev vfMsEvent) bool { return ev.rid == 1 }); !ok || ev.result != protocol.RESULT_SUCCED {
		return res
	}
	last := byte(1)
	pending := []vfMsEvent{}
	if sc.E2 > 0 {
		time.Sleep(time.Duration(sc.Delay) * time.Millisecond)
		term[2], unitSec[2] = vfMsTerm(sc.E2, sc.E2Sec), sc.E2Sec
		flag := uint8(protocol.LOCK_FLAG_UPDATE_WHEN_LOCKED)
		if sc.Relock {
			flag = 0
		}
		send(2, protocol.COMMAND_LOCK, 1, flag, uint16(sc.E2), eflag(sc.E2Sec), 0, 0, 0, 2)
		// the reply of the second request; a notice may arrive first
		ev, ok := wait(replyWait, func(ev vfMsEvent) bool {
			if ev.result == protocol.RESULT_EXPRIED {
				pending = append(pending, ev)
				return false
			}
			return ev.rid == 2
		})
		if !ok {
			return res
		}
		switch {
		case ev.result == protocol.RESULT_SUCCED, ev.result == protocol.RESULT_LOCKED_ERROR && !sc.Relock:
			last = 2
			res.counters["ms_terms_changed"]++
			res.counters["ms_terms_changed_"+sc.Kind]++
		default:
			// refused (e.g. the re-lock found the depth limit): the first terms stay
			res.counters["ms_second_request_refused"]++
		}
	}
	// the notice that ends the hold
	var notice vfMsEvent
	got := false
	for _, ev := range pending {
		notice, got = ev, true
	}
	long := term[last] > 10*time.Second
	if !got {
		if last == 2 && sent[2]+term[2] < sent[1]+term[1] {
			margin += 10 * time.Second // "within 10 seconds of the new deadline when an update shortened it"
		}
		horizon := sent[last] + term[last] + margin - now()
		if long {
			horizon = 4 * time.Second
		}
		if horizon < time.Second {
			horizon = time.Second
		}
		notice, got = wait(horizon, func(ev vfMsEvent) bool { return ev.result == protocol.RESULT_EXPRIED })
	}
	if got {
		t, known := term[notice.rid]
		if !known {
			violate("foreign-notice", "", "EXPRIED notice under a RequestId (%d) this connection never sent for the hold", notice.rid)
		} else {
			el := notice.at - sent[notice.rid]
			res.counters["ms_notices_timed"]++
			if el < t-vfMsTick && onSecondClock(notice.rid) && lagAtSend[notice.rid] > 0 {
				res.counters["ms_early_not_judged_(server_second_clock_behind)"]++
			} else if el < t-vfMsTick {
				sig := ""
				violate("expiry-early", sig, "EXPRIED under request r%d observed %v after that request was sent, its expiry is %v (first terms %v, sent %v earlier)", notice.rid, el.Round(time.Millisecond), t, term[1], (sent[notice.rid] - sent[1]).Round(time.Millisecond))
			} else if !long {
				res.noticed, res.lateness = true, el-t
			}
		}
		// capacity freed: another LockId takes the key at once
		send(4, protocol.COMMAND_LOCK, 9, 0, 1, 0, 0, 0, 0, 0)
		if ev, ok := wait(replyWait, func(ev vfMsEvent) bool { return ev.rid == 4 }); ok {
			res.counters["ms_probes_after_notice"]++
			if ev.result != protocol.RESULT_SUCCED {
				violate("capacity-not-freed", "", "after the EXPRIED notice a request of another LockId (Count=0, no wait) was answered %s", vfResName(ev.result))
			} else {
				send(5, protocol.COMMAND_UNLOCK, 9, 0, 0, 0, 0, 0, 0, 0)
				_, _ = wait(replyWait, func(ev vfMsEvent) bool { return ev.rid == 5 })
			}
		}
	} else if long {
		// a hold whose terms were changed to 600 s must still be there
		send(6, protocol.COMMAND_UNLOCK, 1, 0, 0, 0, 0, 0, 0, 2)
		if ev, ok := wait(replyWait, func(ev vfMsEvent) bool { return ev.rid == 6 }); ok {
			if ev.result == protocol.RESULT_SUCCED {
				res.counters["ms_long_holds_survived"]++
			} else {
				violate("long-hold-lost", "", "a hold whose expiry was changed to 600 s was gone 4 s later without a notice (UNLOCK answered %s)", vfResName(ev.result))
			}
		}
	} else {
		res.notEnded = fmt.Sprintf("hold with terms %v (request r%d) was not ended %v after its deadline", term[last], last, margin)
		send(6, protocol.COMMAND_UNLOCK, 1, 0, 0, 0, 0, 0, 0, 2)
		_, _ = wait(replyWait, func(ev vfMsEvent) bool { return ev.rid == 6 })
	}
	res.completed = true
	return res
}

func vfMsCase(env *vfEnv, prop string, part *vfPart, b int) {
	inst := vfMsGet(env)
	if inst == nil {
		part.Harness = append(part.Harness, "millisecond stage: cannot start the real-clock leader")
		return
	}
	rng := vfCaseRand(env.Seed, prop+"ms", b)
	plans := make([]*vfMsScenario, vfMsBatch)
	for j := range plans {
		plans[j] = vfMsPlan(prop, rng, j < 6)
	}
	results := make([]*vfMsResult, vfMsBatch)
	var wg sync.WaitGroup
	for j := range plans {
		wg.Add(1)
		go func(j int) {
			defer wg.Done()
			results[j] = vfMsRun(inst, prop, b, j, plans[j])
		}(j)
	}
	wg.Wait()
	// calibration: were the plain scenarios of this batch on time?
	calibrated, calMax := true, time.Duration(0)
	for j := 0; j < 6; j++ {
		r := results[j]
		if r == nil || !r.completed || !r.noticed || r.lateness > time.Second {
			calibrated = false
		}
		if r != nil && r.lateness > calMax {
			calMax = r.lateness
		}
	}
	part.Max("max_ms_calibration_lateness_ms", calMax.Milliseconds())
	if !calibrated {
		part.Add("ms_batches_not_calibrated", 1)
	}
	h := uint64(1469598103934665603)
	wrote := ""
	for j, r := range results {
		if r == nil || !r.completed {
			part.Add("ms_scenarios_incomplete", 1)
			continue
		}
		part.Add("ms_scenarios", 1)
		part.Add("ms_scenarios_"+r.sc.Kind, 1)
		for k, v := range r.counters {
			part.Add(k, v)
		}
		if r.noticed {
			switch {
			case r.lateness <= 2*time.Second:
				part.Add("ms_ended_within_2s_of_deadline", 1)
			default:
				part.Add("ms_ended_later_than_2s_(counted,_wall_clock)", 1)
			}
			part.Max("max_ms_lateness_ms", r.lateness.Milliseconds())
		}
		if r.notEnded != "" {
			if calibrated {
				sig := ""
				r.viol = append(r.viol, vfViolation{Prop: prop, Clause: "ms/not-ended", Sig: sig, Detail: fmt.Sprintf("%s although the 6 calibration scenarios of the batch were ended within %v of their deadlines [scenario %s e1=%d sec=%v delay=%d e2=%d sec=%v relock=%v]", r.notEnded, calMax.Round(time.Millisecond), r.sc.Kind, r.sc.E1, r.sc.E1Sec, r.sc.Delay, r.sc.E2, r.sc.E2Sec, r.sc.Relock)})
			} else {
				part.Add("ms_not_ended_in_uncalibrated_batch_(inconclusive)", 1)
			}
		}
		for _, v := range r.viol {
			if wrote == "" {
				wrote = vfWriteReplay(env, fmt.Sprintf("ms-batch%d.json", b), map[string]interface{}{"case": b, "stage": "ms", "seed": env.Seed, "tier": env.Tier, "property": prop, "scenario": j, "scenarios": plans})
			}
			v.Case, v.Replay = b, wrote
			part.Violate(v)
		}
		h = (h ^ uint64(len(r.sc.Kind))<<8 ^ uint64(r.sc.E1)<<16 ^ uint64(r.sc.E2)<<32 ^ uint64(r.sc.Delay)) * 1099511628211
	}
	part.Mark("ms_batches", h)
	part.Mark("nontrivial", h)
}

func vfMsOwnsReplay(env *vfEnv) bool {
	if env.Replay == "" {
		return false
	}
	b, err := os.ReadFile(env.Replay)
	if err != nil {
		return false
	}
	var doc struct {
		Stage string `json:"stage"`
	}
	return vfUnJSON(b, &doc) == nil && doc.Stage == "ms"
}

// vfMsStage runs the millisecond stage of C05 / C06 in child processes and merges what they found into part.
func vfMsStage(env *vfEnv, prop string, part *vfPart) {
	e2 := *env
	e2.Prop = prop
	e2.Replays = filepath.Join(env.Replays, "ms")
	if env.Replay != "" && !vfMsOwnsReplay(env) {
		return
	}
	if e2.Shard >= 0 {
		runtime.GOMAXPROCS(4)
	}
	shards := vfNumCPU() / 2
	if shards > 8 {
		shards = 8
	}
	n := env.N(24, 1600)
	p := vfRunSharded(nil, &e2, "TestVerif_"+prop+"Ms", n, shards, func(pp *vfPart, i int) { vfMsCase(&e2, prop, pp, i) })
	if p == nil {
		return
	}
	if part.known == nil {
		part.known = vfLoadKnown(env)
	}
	part.Merge(p)
}

func vfMsTest(t *testing.T, prop string) {
	start := time.Now()
	env := vfGetEnv(prop)
	if os.Getenv("VERIF_EVIDENCE") == "" {
		env.Evidence = filepath.Join(env.Scratch, prop+"-ms-evidence.json") // never the committed evidence
	}
	if os.Getenv("VERIF_REPLAYS") == "" {
		env.Replays = filepath.Join(env.Scratch, prop+"-ms-replays")
	}
	part := vfNewPart()
	part.known = vfLoadKnown(env)
	vfMsStage(env, prop, part)
	if env.Shard >= 0 {
		return
	}
	spec := &vfSpec{Prop: prop, Level: "exploration", Rule: vfMsRule[prop], NontrivSet: "ms_batches", Assumptions: vfMsAssumptions, Floors: vfMsFloors[prop]}
	vfFinish(t, env, spec, part, start)
}

// entry points of the stage's shard children (and stand-alone development runs)
func TestVerif_C05Ms(t *testing.T) { vfMsTest(t, "C05") }
func TestVerif_C06Ms(t *testing.T) { vfMsTest(t, "C06") }

func init() {
	for _, prop := range []string{"C05", "C06"} {
		prop := prop
		vfCoreStages[prop] = func(env *vfEnv, part *vfPart, spec *vfSpec) {
			vfMsStage(env, prop, part)
			spec.Rule += vfMsRule[prop]
			spec.Floors = append(append([]string{}, spec.Floors...), vfMsFloors[prop]...)
			spec.Assumptions = append(append([]string{}, spec.Assumptions...), vfMsAssumptions...)
		}
	}
}
