//go:build verif

package server

// Core E1 checks: C01-C06 and C17 share one engine + shadow; each property has
// its own generator profile, case list and evidence, and reports only the
// oracle clauses that belong to it.

import (
	"fmt"
	"runtime/debug"
	"os"
	"sort"
	"strings"
	"testing"
	"time"

	"github.com/snower/slock/protocol"
)

type vfCoreResult struct {
	Findings []vfFinding
	Stats    map[string]int64
	Hash     uint64
	Doc      map[string]interface{}
	Sample   map[string]interface{}
	PointHits [VP_MAX]int64
	Orderings uint64
	Injections int
}

// vfRunCoreScript runs one PRNG script of the core subset.
func vfRunCoreScript(env *vfEnv, prop string, caseNo int, prof *vfProfile, value bool, ack bool) *vfCoreResult {
	rng := vfCaseRand(env.Seed, prop, caseNo)
	// a directory of its own per script: the goroutines of an instance that was
	// abandoned after a panic must not be able to touch a later script's files
	dir := vfScratchDir(env, fmt.Sprintf("e1-%d", caseNo))
	defer os.RemoveAll(dir)
	cfg := vfInstCfg{Dir: dir, Manual: true, NDb: prof.NDbs + 1}
	cfg.DBConcurrent = uint([]int{1, 2, 2, 4}[rng.Intn(4)])
	cfg.FastKeys = uint([]int{1, 4, 4, 64}[rng.Intn(4)])
	cfg.AofTime = uint(rng.Intn(3))
	in, err := vfNewLeader(cfg)
	if err != nil {
		panic("vf: cannot start leader: " + err.Error())
	}
	defer in.Close()
	_ = vfLogCapture.Take()
	res := &vfCoreResult{}
	eng := vfNewEngine(in, rng, 4)
	sh := vfNewShadow(eng)
	gen := vfNewGen(rng, prof, sh)
	if value {
		vfAttachValueOracle(sh)
	}
	if ack {
		eng.ackMode = true
		eng.lock() // the main goroutine owns the engine except while it waits in quiesce()
		defer eng.unlock()
		sh.onAckGrant = func(kid vfKeyId, k *vfKeyState, r *vfReq, ev *vfEvent) {
			ok, n := vfAofHasAckLock(dir, kid.Db, vfKeyBytes(kid.Db, kid.Key), vfLockIdBytes(ev.LockId))
			sh.stats["ack_log_checked"]++
			if !ok {
				sh.report("C11", "succed-before-log", "", "require-ack request %d was reported SUCCED but the leader's log files (%d records) contain no LOCK record with the require-ack flag for db%d/k%d L%d", r.ID, n, kid.Db, kid.Key, ev.LockId)
			}
		}
	}
	eng.injectPct = prof.InjectPct
	eng.injectUnset = prof.InjectUnsettled
	if prof.InjectPct > 0 {
		eng.injector = func(e *vfEngine, point int) {
			op := gen.next()
			if op.Kind == "tick" {
				if e.inSweep > 0 || point == VP_TIMEOUT_ENTER || point == VP_EXPIRE_ENTER {
					op = gen.lockOp()
				} else {
					e.doTick(op.Ticks)
					return
				}
			}
			e.submit(op)
		}
	}
	defer func() {
		if r := recover(); r != nil {
			// keep the script that led to the panic, then let the guard classify it
			in.abandoned = true
			vfWriteReplay(env, fmt.Sprintf("panic-case%d.json", caseNo), eng.scriptDoc(caseNo, env.Seed, map[string]interface{}{"panic": fmt.Sprint(r), "property": prop}))
			if sh.faultSig != "" {
				panic(vfTaggedPanic{Sig: sh.faultSig, Val: r, Stack: string(debug.Stack())})
			}
			panic(r)
		}
	}()
	if tr := os.Getenv("VERIF_TRACE"); tr != "" {
		// debugging aid for replays: print the records of the server at every hook
		prev := eng.onHook
		eng.onHook = func(point int) {
			if prev != nil {
				prev(point)
			}
			if point >= VP_AOF_FLUSH_MID {
				return
			}
			fmt.Printf("TRACE hook %s goid=%d ops=%d events=%d\n", vfPointNames[point], vfGoid(), len(eng.opLog), len(eng.events))
			vfCensusVerbose = true
			for _, db := range in.dbs {
				c := vfTakeCensus(db)
				for _, e := range c.Errors {
					if strings.Contains(e, tr) || tr == "all" {
						fmt.Printf("TRACE   db%d %s\n", db.dbId, e)
					}
				}
			}
			vfCensusVerbose = false
		}
	}
	steps := rng.Range(prof.Steps[0], prof.Steps[1])
	topStep := 0
	runTop := func(op vfOp) {
		if op.Kind == "tick" {
			eng.doTick(op.Ticks)
		} else {
			eng.submit(op)
		}
		topStep++
		sh.quiescent()
		if prof.CensusEvery > 0 && topStep%prof.CensusEvery == 0 {
			sh.compareCensus(prop)
		}
	}
	// optional structural prologues
	if prof.ManyHolders && rng.Chance(35) {
		n := rng.Range(130, 300)
		for i := 0; i < n; i++ {
			runTop(vfOp{Kind: "lock", Client: rng.Intn(4), Key: 0, LockId: 2000 + i, Count: 0xffff, Expried: uint16(rng.Range(20, 60)), Timeout: 0})
		}
		sh.stats["scripts_many_holders"]++
		// release most of them in random order
		order := rng.Intn(3)
		ids := make([]int, n)
		for i := range ids {
			ids[i] = 2000 + i
		}
		if order == 0 {
			for i := n - 1; i > 0; i-- {
				j := rng.Intn(i + 1)
				ids[i], ids[j] = ids[j], ids[i]
			}
		} else if order == 1 {
			for i, j := 0, n-1; i < j; i, j = i+1, j-1 {
				ids[i], ids[j] = ids[j], ids[i]
			}
		}
		keep := rng.Intn(20)
		for _, id := range ids[:n-keep] {
			runTop(vfOp{Kind: "unlock", Client: rng.Intn(4), Key: 0, LockId: id})
			if rng.Chance(3) {
				runTop(gen.next())
			}
		}
	}
	if prof.LongQueue && rng.Chance(35) {
		n := rng.Range(9, 40)
		if rng.Chance(35) {
			n = rng.Range(129, 300)
		}
		runTop(vfOp{Kind: "lock", Client: 0, Key: 0, LockId: 1999, Count: uint16(rng.Intn(3)), Expried: uint16(rng.Range(3, 12)), Timeout: 0})
		mixed := rng.Chance(50)
		for i := 0; i < n; i++ {
			op := vfOp{Kind: "lock", Client: rng.Intn(4), Key: 0, LockId: 3000 + i, Count: uint16(rng.Intn(3)), Expried: uint16(rng.Range(1, 4)), Timeout: uint16(rng.Range(3, 40))}
			if mixed && rng.Chance(40) {
				op.TFlag |= protocol.TIMEOUT_FLAG_RCOUNT_IS_PRIORITY
				op.Rcount = uint8(rng.Intn(4))
			}
			runTop(op)
		}
		sh.stats["scripts_long_queue"]++
	}
	if prof.LongTable && rng.Chance(30) {
		// requests that are re-checked more than 8 times move to the long-wait
		// tables (after ~37-45 s); here several of them share one deadline second
		// and some leave the table (grant, cancellation, shortening update) while
		// the others stay
		sh.stats["scripts_long_table"]++
		if rng.Chance(50) {
			// waiters
			runTop(vfOp{Kind: "lock", Client: 0, Key: 0, LockId: 1990, Count: 0, Expried: 300, Timeout: 0})
			n := rng.Range(2, 4)
			T := uint16(rng.Range(45, 62))
			for i := 0; i < n; i++ {
				runTop(vfOp{Kind: "lock", Client: rng.Intn(4), Key: 0, LockId: 3500 + i, Count: 0, Expried: uint16(rng.Range(2, 40)), Timeout: T})
				if rng.Chance(20) {
					runTop(vfOp{Kind: "tick", Ticks: 1})
				}
			}
			for t := 0; t < int(T)-rng.Range(2, 9); t++ {
				runTop(vfOp{Kind: "tick", Ticks: 1})
				if rng.Chance(4) {
					runTop(gen.next())
				}
			}
			switch rng.Intn(3) {
			case 0: // the holder leaves: the first waiter is granted while it sits in the table
				runTop(vfOp{Kind: "unlock", Client: 0, Key: 0, LockId: 1990})
			case 1: // a waiter is cancelled
				runTop(vfOp{Kind: "unlock", Client: rng.Intn(4), Key: 0, LockId: 3500 + rng.Intn(n), Flag: protocol.UNLOCK_FLAG_CANCEL_WAIT_LOCK_WHEN_UNLOCKED})
			default:
				runTop(vfOp{Kind: "unlock", Client: rng.Intn(4), Key: 0, LockId: 3500, Flag: protocol.UNLOCK_FLAG_CANCEL_WAIT_LOCK_WHEN_UNLOCKED})
				runTop(vfOp{Kind: "unlock", Client: 0, Key: 0, LockId: 1990})
			}
			for t := 0; t < 14; t++ {
				runTop(vfOp{Kind: "tick", Ticks: 1})
			}
		} else {
			// holds: some with the persist-immediately flag (long table at once), some migrating after ~40 s
			n := rng.Range(1, 3)
			E := uint16(rng.Range(50, 70))
			for i := 0; i < n; i++ {
				op := vfOp{Kind: "lock", Client: rng.Intn(4), Key: 0, LockId: 3600 + i, Count: 0xffff, Expried: E, Timeout: 0}
				if rng.Chance(40) {
					op.EFlag |= protocol.EXPRIED_FLAG_ZEOR_AOF_TIME
				}
				runTop(op)
			}
			for t := 0; t < rng.Range(2, 46); t++ {
				runTop(vfOp{Kind: "tick", Ticks: 1})
			}
			// an update that shortens (or lengthens) the expiry of one of them, a re-lock of another
			for i := 0; i < n; i++ {
				switch rng.Intn(4) {
				case 0:
					runTop(vfOp{Kind: "lock", Client: rng.Intn(4), Key: 0, LockId: 3600 + i, Count: 0xffff, Expried: uint16(rng.Range(2, 6)), Flag: protocol.LOCK_FLAG_UPDATE_WHEN_LOCKED})
				case 1:
					runTop(vfOp{Kind: "lock", Client: rng.Intn(4), Key: 0, LockId: 3600 + i, Count: 0xffff, Expried: uint16(rng.Range(80, 120)), Flag: protocol.LOCK_FLAG_UPDATE_WHEN_LOCKED})
				case 2:
					runTop(vfOp{Kind: "lock", Client: rng.Intn(4), Key: 0, LockId: 3600 + i, Count: 0xffff, Rcount: 3, Expried: uint16(rng.Range(2, 30))})
				}
			}
			for t := 0; t < 16; t++ {
				runTop(vfOp{Kind: "tick", Ticks: 1})
			}
		}
	}
	aofBroken := false
	failScript := rng.Chance(10) // log-write failures are injected in a tenth of the scripts
	for i := 0; i < steps; i++ {
		if prof.AofFailPct > 0 && failScript && rng.Chance(prof.AofFailPct) {
			if !aofBroken {
				eng.handover(in.breakAof)
				eng.opLog = append(eng.opLog, vfOp{Kind: "tick", Ticks: 0, At: "LOG-WRITE-BROKEN"})
				if sh.faultSig == "" {
					sh.faultSig = "after-log-write-failure"
					vfNoteFaultSig(sh.faultSig)
				}
				sh.stats["aof_broken"]++
			} else {
				eng.handover(in.healAof)
				eng.opLog = append(eng.opLog, vfOp{Kind: "tick", Ticks: 0, At: "LOG-WRITE-HEALED"})
				sh.stats["aof_healed"]++
			}
			aofBroken = !aofBroken
		}
		runTop(gen.next())
		if len(sh.findings) > 40 {
			break
		}
	}
	if aofBroken {
		eng.handover(in.healAof)
	}
	// ---- drain phase (no injection)
	eng.injector = nil
	vfDrain(eng, sh, rng)
	for i := 0; i < 12; i++ {
		eng.doTick(2)
	}
	sh.quiescent()
	sh.ledgerCheck()
	vfFinalCensus(eng, sh)
	for _, l := range vfLogCapture.Take() {
		sh.stats["server_error_log_lines"]++
		if !strings.Contains(l, "push aof error") && !(prof.AofFailPct > 0 && (strings.Contains(l, "Aof flush file error") || strings.Contains(l, "Aof append file write error") || strings.Contains(l, "Aof close file") || strings.Contains(l, "Aof Sync file error"))) {
			sh.report("C17", "server-error-log", "", "the server logged an internal inconsistency: %s", l)
		}
	}

	// ---- collect
	res.Findings = sh.findings
	res.Stats = sh.stats
	res.PointHits = eng.pointHits
	res.Orderings = eng.orderings
	res.Injections = eng.injections
	h := uint64(len(eng.events))
	for _, ev := range eng.events {
		h = vfMix(h ^ uint64(ev.Result)<<8 ^ uint64(ev.CmdType) ^ uint64(ev.LCount)<<16 ^ uint64(ev.LRCount)<<32 ^ uint64(ev.Key)<<40 ^ uint64(uint16(ev.LockId))<<44)
	}
	res.Hash = h
	fl := []string{}
	for _, f := range sh.findings {
		fl = append(fl, f.Prop+"/"+f.Clause+": "+f.Detail)
	}
	res.Doc = eng.scriptDoc(caseNo, env.Seed, map[string]interface{}{"findings": fl, "property": prop, "profile": prof.Name, "config": fmt.Sprintf("shards=%d fastkeys=%d aoftime=%d", cfg.DBConcurrent, cfg.FastKeys, cfg.AofTime)})
	nOps := len(eng.opLog)
	firstOps := []string{}
	for i := 0; i < nOps && i < 14; i++ {
		firstOps = append(firstOps, eng.opLog[i].String())
	}
	res.Sample = map[string]interface{}{"case": caseNo, "ops": nOps, "events": len(eng.events), "first_ops": firstOps, "injections": eng.injections}
	return res
}

// vfDrain releases every hold, lets every queued request end, advancing the
// clock as needed.
func vfDrain(eng *vfEngine, sh *vfShadow, rng *vfRand) {
	remaining := func() (holds, waiters int, horizon int64) {
		for _, k := range sh.keys {
			holds += len(k.Holds)
			for _, w := range k.Waiters {
				waiters++
				if t := w.ArriveTick + w.TSecs + 3; t > horizon {
					horizon = t
				}
			}
		}
		return
	}
	_, _, hz := remaining()
	maxIter := int(hz-eng.in.now) + 30
	if maxIter < 30 {
		maxIter = 30
	}
	for iter := 0; iter < maxIter; iter++ {
		// unlock all current holds (sorted for determinism)
		kids := make([]vfKeyId, 0, len(sh.keys))
		for kid := range sh.keys {
			kids = append(kids, kid)
		}
		sort.Slice(kids, func(i, j int) bool {
			if kids[i].Db != kids[j].Db {
				return kids[i].Db < kids[j].Db
			}
			return kids[i].Key < kids[j].Key
		})
		for _, kid := range kids {
			k := sh.keys[kid]
			for guard := 0; guard < 2000 && len(k.Holds) > 0; guard++ {
				h := k.Holds[0]
				if h.AckPending {
					eng.settle()
					if h.AckPending {
						break
					}
					continue
				}
				n := len(k.Holds)
				eng.submit(vfOp{Kind: "unlock", Client: 0, Db: kid.Db, Key: kid.Key, LockId: h.LockId, Rcount: 0})
				if len(k.Holds) == n && k.Holds[0] == h && h.Depth > 0 {
					// the server refused to release it: already reported by the oracle
					if guard > 3 {
						break
					}
				}
			}
		}
		h, w, _ := remaining()
		if h == 0 && w == 0 {
			break
		}
		eng.doTick(1)
	}
}

// vfFinalCensus: after the drain everything must be reclaimed (C17).
func vfFinalCensus(eng *vfEngine, sh *vfShadow) {
	eng.settle()
	for d, db := range eng.in.dbs {
		c := vfTakeCensus(db)
		for _, e := range c.Errors {
			sh.report("C17", "structure", "", "after drain db%d: %s", d, e)
		}
		if len(c.Keys) != 0 {
			k := c.Keys[0]
			sh.report("C17", "drain-keys", "", "after drain db%d still has %d key(s); first: k%d locked=%d holds=%d waiters=%d refCount=%d hasData=%v", d, len(c.Keys), vfKeyIndex(k.Key), k.Locked, len(k.Holds), len(k.Waiters), k.RefCount, k.HasData)
		}
		if c.State.LockedCount != 0 || c.State.WaitCount != 0 || c.State.KeyCount != 0 {
			sh.report("C17", "drain-state", "", "after drain db%d STATE reports LockedCount=%d WaitCount=%d KeyCount=%d", d, c.State.LockedCount, c.State.WaitCount, c.State.KeyCount)
		}
		if c.LiveRecords != 0 || c.WheelTimeout+c.WheelExpried+c.LongTimeout+c.LongExpried+c.MsTimeout+c.MsExpried != 0 {
			sh.report("C17", "drain-records", "", "after drain db%d: %d live records; wheel entries timeout=%d expiry=%d long=%d/%d ms=%d/%d", d, c.LiveRecords, c.WheelTimeout, c.WheelExpried, c.LongTimeout, c.LongExpried, c.MsTimeout, c.MsExpried)
		}
	}
	sh.stats["final_census"]++
}

// ---------------------------------------------------------------- property table

type vfCoreProp struct {
	Prop      string
	Profile   vfProfile
	Quick     int
	Thorough  int
	Rule      string
	Nontrivial func(st map[string]int64) bool
	Floors    []string
	Assumptions []string
	Value     bool // attach the value oracle
	Ack       bool // require-ack mode: wait for the AOF channels after every operation, log check
	Adopt     func(f *vfFinding) bool // findings of other properties' oracles that this property's statement also covers
}

// vfCoreStages: property-specific files register further stages (run in the parent after the
// core engine's shards have been merged)
var vfCoreStages = map[string]func(env *vfEnv, part *vfPart, spec *vfSpec){}

// property-specific files register further core-engine properties here
var vfExtraCoreProps []func(m map[string]*vfCoreProp, base vfProfile)

var vfCoreAssumptions = []string{
	"virtual clock: LockDB.currentTime and the per-second sweeps are driven by the harness (hook VP_MANUAL_CLOCK); millisecond timers are not covered here",
	"interleavings are constructed at critical-section granularity by injecting complete operations at settled yield points; torn reads inside a critical section are not modelled",
	"client contract: a LockId that is currently queued on a key is not reused for a new request on that key",
	"flags outside the property's core subset (less-lock-version, unlock-to-wait, tree lock, reverse-key, EXECUTE, keeplive, 0x0100/0x2000 timeout, 0x2000 expiry) are never generated",
}

func vfCoreProps() map[string]*vfCoreProp {
	base := vfProfile{NKeys: [2]int{1, 3}, NDbs: 2, NLockIds: [2]int{3, 8}, NClients: [2]int{1, 4}, Steps: [2]int{40, 120}, TickPct: 22, UnlockPct: 28, InjectPct: 12, BigTime: 4, PrioPct: 8, DataPct: 6, UpdatePct: 4, CensusEvery: 1}
	m := map[string]*vfCoreProp{}
	p := base
	p.Name = "c01"
	p.ManyHolders = true
	m["C01"] = &vfCoreProp{Prop: "C01", Profile: p, Quick: 4000, Thorough: 150000,
		Rule: "case i = PRNG script splitmix(seed,'C01',i) of 40-120 core-subset operations on 1-3 keys with operations injected at settled yield points; non-trivial = at least one request was granted as a new holder beside already outstanding holds (the Count bound was exercised); distinct = hash of the observed reply trace",
		Nontrivial: func(st map[string]int64) bool { return st["grants_beside_holders"] > 0 },
		Floors:     []string{"hit_LOCK_RETRY", "grants_beside_holders", "grants_from_queue"}}
	p = base
	p.Name = "c02"
	p.ManyHolders = true
	p.UnlockPct = 38
	p.UpdatePct = 8
	m["C02"] = &vfCoreProp{Prop: "C02", Profile: p, Quick: 3000, Thorough: 120000,
		Rule: "case i = PRNG script splitmix(seed,'C02',i) biased to unlocks of held / queued / foreign / never-existing LockIds and re-entrant re-locks; non-trivial = the script contained a refused unlock AND a re-entrant re-lock or partial unlock; distinct = hash of the reply trace",
		Nontrivial: func(st map[string]int64) bool {
			return st["unlock_refused"] > 0 && (st["relocks"] > 0 || st["partial_unlocks"] > 0)
		},
		Floors: []string{"cancels", "partial_unlocks", "relocks", "scripts_many_holders"}}
	p = base
	p.Name = "c03"
	p.InjectPct = 18
	m["C03"] = &vfCoreProp{Prop: "C03", Profile: p, Quick: 3000, Thorough: 100000,
		Rule: "case i = PRNG script splitmix(seed,'C03',i) with operations injected at settled yield points (sweeper vs unlock vs cancel orders are constructed), ended by a drain phase; non-trivial = some request ended through a contested path (a time-out / expiry sweep found the record already finished, or a wake-up pass ran interleaved with another operation); distinct = hash of the reply trace",
		Nontrivial: func(st map[string]int64) bool { return st["injections"] > 0 && (st["timeouts"] > 0 || st["expiries"] > 0) },
		Floors:     []string{"timeouts", "expiries", "cancelled", "grants_from_queue"}}
	p = base
	p.Name = "c04"
	p.WaitHeavy = true
	p.LongQueue = true
	p.PrioPct = 15
	p.NoWWU = false
	m["C04"] = &vfCoreProp{Prop: "C04", Profile: p, Quick: 3000, Thorough: 100000,
		Rule: "case i = PRNG script splitmix(seed,'C04',i) biased to queue build-up (Count 0, mixed priorities, queues of 9-300 entries in a third of the scripts); non-trivial = at least one request was granted from the queue while another live request was queued behind it; distinct = hash of the reply trace",
		Nontrivial: func(st map[string]int64) bool { return st["queue_grants_order_checked"] > 0 && st["max_queue_len"] > 1 },
		Floors:     []string{"grants_from_queue", "scripts_long_queue", "timeouts", "cancels"}}
	p = base
	p.Name = "c05"
	p.LongTable = true
	p.WaitHeavy = true
	p.BigTime = 10
	p.TickPct = 35
	m["C05"] = &vfCoreProp{Prop: "C05", Profile: p, Quick: 2000, Thorough: 60000,
		Rule: "case i = PRNG script splitmix(seed,'C05',i) biased to waiting requests and clock ticks (+1, 5% +2), 10% of the scripts with long time-outs (up to 65535 s / 300 min); non-trivial = at least one queued request timed out and its firing tick was compared with [n+T+1, n+T+2]; distinct = hash of the reply trace",
		Nontrivial: func(st map[string]int64) bool { return st["timeouts_timed"] > 0 },
		Floors:     []string{"timeouts_timed", "timeouts_long_table", "immediate_timeouts"}}
	p = base
	p.Name = "c06"
	p.LongTable = true
	p.BigTime = 10
	p.TickPct = 35
	p.UpdatePct = 12
	m["C06"] = &vfCoreProp{Prop: "C06", Profile: p, Quick: 2000, Thorough: 60000,
		Rule: "case i = PRNG script splitmix(seed,'C06',i) biased to expiring holds, updates that lengthen / shorten the expiry, re-entrant re-locks and clock ticks; non-trivial = at least one hold was ended by time and its firing tick compared with the deadline window; distinct = hash of the reply trace",
		Nontrivial: func(st map[string]int64) bool { return st["expiries_timed"] > 0 },
		Floors:     []string{"expiries_timed", "updates_applied", "expiries_sticky"}}
	p = base
	p.Name = "c17"
	p.ManyHolders = true
	p.LongQueue = true
	m["C17"] = &vfCoreProp{Prop: "C17", Profile: p, Quick: 3000, Thorough: 100000,
		Rule: "case i = PRNG script splitmix(seed,'C17',i); after every top-level step the reply counts and STATE counters are compared with the shadow / an in-package census taken under the shard mutexes, and after the drain phase everything must be zero / unreachable; non-trivial = the script ended with a complete drain after at least 10 holds and 3 queued requests; distinct = hash of the reply trace",
		Nontrivial: func(st map[string]int64) bool { return st["grants_new_holder"] >= 10 && st["queued"] >= 3 && st["final_census"] > 0 },
		Floors:     []string{"lcount_checked", "lrcount_checked", "census_taken", "final_census"}}
	for _, cp := range m {
		cp.Assumptions = vfCoreAssumptions
	}
	for _, f := range vfExtraCoreProps {
		f(m, base)
	}
	return m
}

// E2 (vfe2_test.go) is a further stage of these checks
var vfE2Props = map[string]bool{"C01": true, "C03": true, "C15": true, "C17": true}

const vfE2Rule = "; concurrent stage (E2): history j = PRNG parameters splitmix(seed,'E2',prop,j) (18 quick / 400 thorough per property): one child process with the real clock and sweepers, 4-64 client goroutines over three front-ends (in-memory waiter, binary and text connections), rounds on fresh keys (exclusive, shared, mixed, expiring, value keys; churn profiles and a key-table micro-stress for C01/C17), hook points widened by Gosched / 0-2 ms sleeps; every call is recorded at the client boundary on one atomic logical clock with unique RequestIds and payloads and judged offline: reply ledger (C03), definite-overlap / held-unlock / solo rules and a porcupine counting-lock model per (key, round) (C01), porcupine register model with an anchor hold (C15), STATE vs census at barriers and after-drain reclaim (C17)"

var vfE2Assumptions = []string{"E2: each client uses its own LockIds and never reuses a pending one; LockIds that ever asked for a short expiry are excluded from the definite rules; update flags, unlock-first, cancel, priority and require-ack are not generated (they are the sequential engine's matter); a porcupine time-out or a harness watchdog is inconclusive, never a violation; real threads: a replay re-judges the recorded history and re-runs its parameters, it cannot force the schedule"}

func vfRunCoreCheck(t *testing.T, prop string) {
	start := time.Now()
	vfContinueAfterPanic = true
	env := vfGetEnv(prop)
	cp := vfCoreProps()[prop]
	n := env.N(cp.Quick, cp.Thorough)
	runCase := func(part *vfPart, i int) {
		res := vfRunCoreScript(env, prop, i, &cp.Profile, cp.Value, cp.Ack)
		for k, v := range res.Stats {
			if strings.HasPrefix(k, "max_") {
				part.Max(k, v)
			} else {
				part.Add(k, v)
			}
		}
		for pt := 1; pt < VP_MAX; pt++ {
			if res.PointHits[pt] > 0 {
				part.Add("hit_"+vfPointNames[pt], res.PointHits[pt])
			}
		}
		part.Add("injections", int64(res.Injections))
		part.Mark("traces", res.Hash)
		part.Mark("hook_orderings", res.Orderings)
		st := map[string]int64{}
		for k, v := range res.Stats {
			st[k] = v
		}
		st["injections"] = int64(res.Injections)
		if cp.Nontrivial(st) {
			part.Mark("nontrivial", res.Hash)
		}
		part.Sample(3, res.Sample)
		wrote := ""
		for _, f := range res.Findings {
			if f.Prop != prop {
				if cp.Adopt == nil || !cp.Adopt(&f) {
					part.Add("other_property_findings_"+f.Prop+"_"+f.Clause, 1)
					continue
				}
				f.Clause = f.Prop + "/" + f.Clause
			}
			if wrote == "" {
				wrote = vfWriteReplay(env, fmt.Sprintf("case%d.json", i), res.Doc)
			}
			part.Violate(vfViolation{Prop: prop, Clause: f.Clause, Detail: f.Detail, Case: i, Replay: wrote, Sig: f.Sig})
		}
	}
	if env.Shard < 0 && (prop == "C05" || prop == "C06") && vfMsOwnsReplay(env) {
		// --replay of a batch of the millisecond stage: re-run by that stage only (real clock: the schedule is not forced)
		part := vfNewPart()
		part.known = vfLoadKnown(env)
		vfMsStage(env, prop, part)
		spec := &vfSpec{Prop: prop, Level: "exploration", Rule: cp.Rule + vfMsRule[prop], NontrivSet: "nontrivial", Assumptions: append(append([]string{}, cp.Assumptions...), vfMsAssumptions...)}
		vfFinish(t, env, spec, part, start)
		return
	}
	if env.Shard < 0 && vfE2IsReplay(env.Replay) {
		// --replay of a history recorded by the concurrent stage (E2): re-judged and re-run by that stage only
		part := vfNewPart()
		part.known = vfLoadKnown(env)
		vfE2Stage(env, prop, part)
		spec := &vfSpec{Prop: prop, Level: "exploration", Rule: cp.Rule + vfE2Rule, NontrivSet: "nontrivial", Assumptions: append(append([]string{}, cp.Assumptions...), vfE2Assumptions...)}
		vfFinish(t, env, spec, part, start)
		return
	}
	part := vfRunSharded(t, env, "TestVerif_"+prop, n, vfNumCPU(), runCase)
	if part == nil {
		return // shard child
	}
	spec := &vfSpec{Prop: prop, Level: "exploration", Rule: cp.Rule, NontrivSet: "nontrivial", Assumptions: cp.Assumptions, Floors: cp.Floors}
	// further stages of the property (other engines) report into the same part
	if st := vfCoreStages[prop]; st != nil && env.Replay == "" {
		st(env, part, spec)
	}
	if vfE2Props[prop] && env.Replay == "" {
		// E2: concurrent stress stage (real clock and sweepers, recorded histories judged offline)
		vfE2Stage(env, prop, part)
		spec.Rule += vfE2Rule
		spec.Floors = append(append([]string{}, spec.Floors...), "e2_histories_complete")
		spec.Assumptions = append(append([]string{}, spec.Assumptions...), vfE2Assumptions...)
	}
	vfFinish(t, env, spec, part, start)
}

func TestVerif_C01(t *testing.T) { vfRunCoreCheck(t, "C01") }
func TestVerif_C02(t *testing.T) { vfRunCoreCheck(t, "C02") }
func TestVerif_C03(t *testing.T) { vfRunCoreCheck(t, "C03") }
func TestVerif_C04(t *testing.T) { vfRunCoreCheck(t, "C04") }
func TestVerif_C05(t *testing.T) { vfRunCoreCheck(t, "C05") }
func TestVerif_C06(t *testing.T) { vfRunCoreCheck(t, "C06") }
func TestVerif_C17(t *testing.T) { vfRunCoreCheck(t, "C17") }
