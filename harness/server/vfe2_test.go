//go:build verif

package server

// E2: concurrent stress engine. Real sweepers and the real clock, 4-64 client
// goroutines over the three front-ends (MemWaiterServerProtocol with a result
// callback, binary and text connections through Server.handle over net.Pipe)
// on 1-4 keys; verification yield points are used only to widen windows
// (Gosched / sleep 0-2 ms). Histories are recorded at the client boundary with
// one atomic logical clock and judged offline: reply ledger (C03), definite
// overlap + definite-unlock rules and porcupine (tools/linchk) against a
// counting-lock model (C01), porcupine against a register model (C15),
// barrier / after-drain census (C17). Every history runs in a child process of
// its own (GOMAXPROCS, package-global hooks, crash isolation).
//
// Entry point for the core checks: vfE2Stage(env, prop, part).

import (
	"bufio"
	"encoding/json"
	"fmt"
	"io"
	"net"
	"os"
	"os/exec"
	"path/filepath"
	"runtime"
	"sort"
	"strconv"
	"strings"
	"sync"
	"sync/atomic"
	"testing"
	"time"

	"github.com/snower/slock/protocol"
)

// ---------------------------------------------------------------- parameters

type vfE2ClientPlan struct {
	Front  string `json:"fe"`     // mem | bin | text
	GiveUp int    `json:"giveup"` // percent of requests whose reply the client does not wait for
}

type vfE2KeyPlan struct {
	Mode      string           `json:"mode"` // excl | shared | mixed | expiring | value
	Count     uint16           `json:"count"`
	Reentrant bool             `json:"reentrant"`
	ValueKind string           `json:"vkind,omitempty"` // bytes | counter
	Clients   []vfE2ClientPlan `json:"clients"`
}

type vfE2Params struct {
	Engine      string        `json:"engine"`
	Prop        string        `json:"property"`
	Case        int           `json:"case"`
	Seed        int64         `json:"seed"`
	Profile     string        `json:"profile,omitempty"`
	GoMaxProcs  int           `json:"gomaxprocs"`
	Shards      uint          `json:"shards"`
	FastKeys    uint          `json:"fastkeys"`
	AofTime     uint          `json:"aoftime"`
	Rounds      int           `json:"rounds"`
	OpsPerRound int           `json:"ops_per_round"`
	Keys        []vfE2KeyPlan `json:"keys"`
	Noise       int           `json:"noise_clients"`
	NoiseOps    int           `json:"noise_ops_per_round"`
	SleepPm     int           `json:"hook_sleep_permille"`
	GoschedPm   int           `json:"hook_gosched_permille"`
	RngSeed     uint64        `json:"rng_seed"`
}

const (
	vfE2LongExpiry  = 600 // seconds: such a hold cannot expire inside a history
	vfE2AnchorLid   = 800 // + partition: the hold that keeps a value key held throughout
	vfE2GhostLid    = 900 // + client: a LockId that never locks
	vfE2NoiseKey    = 2000
	vfE2MaxPartOps  = 400
	vfE2ClientWatch = 40 * time.Second  // a client waiting for a reply: firing = inconclusive
	vfE2DrainWatch  = 90 * time.Second  // drain phase: firing = inconclusive
	vfE2ChildWatch  = 240 * time.Second // whole child process
)

// vfE2Plan derives the parameters of case i of the E2 stage of prop.
func vfE2Plan(seed int64, prop string, i int) *vfE2Params {
	rng := vfCaseRand(seed, "E2/"+prop, i)
	p := &vfE2Params{Engine: "E2", Prop: prop, Case: i, Seed: seed}
	p.GoMaxProcs = []int{2, 4, 16}[rng.Intn(3)]
	p.Shards = uint([]int{1, 2, 4}[rng.Intn(3)])
	p.FastKeys = uint([]int{1, 1, 2, 4}[rng.Intn(4)])
	p.AofTime = uint(rng.Intn(3))
	p.SleepPm = []int{0, 5, 20, 60, 150}[rng.Intn(5)]
	p.GoschedPm = []int{0, 100, 300, 600}[rng.Intn(4)]
	nKeys := rng.Range(1, 4)
	burst := rng.Chance(55)
	if burst {
		p.Rounds = rng.Range(10, 24)
		p.OpsPerRound = rng.Range(2, 4)
	} else {
		p.Rounds = rng.Range(2, 5)
		p.OpsPerRound = rng.Range(7, 14)
	}
	total := 0
	for k := 0; k < nKeys; k++ {
		kp := vfE2KeyPlan{}
		switch prop {
		case "C15":
			kp.Mode = "value"
			kp.Count = uint16(rng.Range(1, 3))
			kp.ValueKind = "bytes"
			if rng.Chance(30) {
				kp.ValueKind = "counter"
			}
			kp.Reentrant = rng.Chance(20)
		default:
			r := rng.Intn(100)
			expPct := 25
			if prop == "C03" {
				expPct = 40
			}
			switch {
			case r < expPct:
				kp.Mode = "expiring"
				kp.Count = uint16(rng.Intn(3))
			case r < expPct+30:
				kp.Mode = "excl"
				kp.Count = 0
			case r < expPct+55:
				kp.Mode = "shared"
				kp.Count = uint16(rng.Range(1, 3))
			default:
				kp.Mode = "mixed"
				kp.Count = 2
			}
			kp.Reentrant = rng.Chance(25)
		}
		nc := rng.Range(2, 8)
		if nKeys == 1 && nc < 4 {
			nc = 4
		}
		for c := 0; c < nc; c++ {
			cp := vfE2ClientPlan{}
			switch r := rng.Intn(100); {
			case r < 50:
				cp.Front = "mem"
			case r < 80:
				cp.Front = "bin"
			default:
				cp.Front = "text"
			}
			if cp.Front != "text" {
				cp.GiveUp = []int{0, 0, 15, 40}[rng.Intn(4)]
			}
			kp.Clients = append(kp.Clients, cp)
		}
		total += nc
		p.Keys = append(p.Keys, kp)
	}
	// at most vfE2MaxPartOps operations per key partition
	for _, kp := range p.Keys {
		for len(kp.Clients)*p.Rounds*p.OpsPerRound > vfE2MaxPartOps-40 && p.Rounds > 2 {
			p.Rounds--
		}
	}
	p.Noise = []int{0, 2, 4, 8}[rng.Intn(4)]
	if prop == "C17" && p.Noise == 0 {
		p.Noise = 2
	}
	p.NoiseOps = rng.Range(4, 30)
	if (prop == "C01" || prop == "C17") && (i%3 == 2 || i%6 == 3) {
		// key-table churn profile: every round starts with all clients of a partition racing for a
		// key that does not exist yet, in one or two fast-key slots, at full speed (no hook delays),
		// while noise clients create and remove other keys of the same slots all the time
		p.Profile = "churn"
		p.GoMaxProcs = []int{4, 16, 16}[rng.Intn(3)]
		p.FastKeys = uint([]int{1, 1, 2}[rng.Intn(3)])
		if i%6 == 3 {
			// 64 slots; in four slots no shared key lives in, a pair of noise clients arranges that one
			// key sits in the slow map while the slot's fast key is created and removed all the time
			p.Profile = "churn-pairs"
			p.FastKeys = 64
		}
		p.Shards = uint(rng.Range(1, 2))
		p.SleepPm, p.GoschedPm = 0, []int{0, 0, 100}[rng.Intn(3)]
		p.OpsPerRound = rng.Range(1, 2)
		p.Rounds = 360 / (8 * p.OpsPerRound)
		if p.Rounds > 40 {
			p.Rounds = 40
		}
		if len(p.Keys) > 2 {
			p.Keys = p.Keys[:2]
		}
		total = 0
		for k := range p.Keys {
			kp := &p.Keys[k]
			if kp.Mode == "expiring" || kp.Mode == "mixed" {
				kp.Mode, kp.Count = "excl", 0
			}
			for len(kp.Clients) < 6 {
				kp.Clients = append(kp.Clients, vfE2ClientPlan{Front: "mem"})
			}
			for c := range kp.Clients {
				if kp.Clients[c].Front == "text" || (kp.Clients[c].Front == "bin" && c%2 == 0) {
					kp.Clients[c].Front = "mem"
				}
			}
			total += len(kp.Clients)
		}
		p.Noise = 8
		p.NoiseOps = rng.Range(40, 120)
	}
	if total+p.Noise > 64 {
		p.Noise = 64 - total
	}
	for total+p.Noise < 4 {
		p.Noise++
	}
	p.RngSeed = rng.U64()
	if (prop == "C01" || prop == "C17") && i%16 == 1 {
		// white-box micro-stress of the key table itself (no requests): see vfE2KeyTable
		p.Profile = "keytable"
		p.GoMaxProcs = 16
		p.FastKeys = uint([]int{1, 2, 4}[rng.Intn(3)])
		p.Shards = 1
	}
	return p
}

// ---------------------------------------------------------------- recorded history

type vfE2Reply struct {
	Ts      int64  `json:"ts"`
	Conn    int    `json:"conn"`
	Req     uint64 `json:"req"`
	Result  uint8  `json:"res"`
	CmdType uint8  `json:"ct"`
	Key     int    `json:"key"`
	Lid     int    `json:"lid"`
	LCount  uint16 `json:"lc"`
	LRCount uint8  `json:"lrc"`
	HasVal  bool   `json:"hv,omitempty"`
	Val     string `json:"val,omitempty"` // A | B:<bytes> | N:<n> | ?<error>
	Owner   int    `json:"owner,omitempty"`
}

type vfE2Op struct {
	Id        uint64      `json:"id"`
	Client    int         `json:"c"`
	Conn      int         `json:"conn"`
	Front     string      `json:"fe"`
	Kind      string      `json:"k"` // lock | unlock
	Part      int         `json:"p"` // key partition, -1 = private key of a noise client
	Round     int         `json:"r"`
	Key       int         `json:"key"`
	Lid       int         `json:"lid"`
	Flag      uint8       `json:"f,omitempty"`
	TFlag     uint16      `json:"tf,omitempty"`
	Timeout   uint16      `json:"t,omitempty"`
	EFlag     uint16      `json:"ef,omitempty"`
	Expried   uint16      `json:"e,omitempty"`
	Count     uint16      `json:"cnt,omitempty"`
	Rcount    uint8       `json:"rc,omitempty"`
	Data      *vfDataOp   `json:"data,omitempty"`
	Call      int64       `json:"call"`
	Submitted int64       `json:"sub"` // logical time at which the submission returned
	Drain     bool        `json:"drain,omitempty"`
	GaveUp    bool        `json:"gaveup,omitempty"`
	Replies   []vfE2Reply `json:"replies,omitempty"`
	done      chan struct{}
	doneOnce  sync.Once
}

type vfE2Finding struct {
	Prop   string `json:"property"`
	Clause string `json:"clause"`
	Detail string `json:"detail"`
}

type vfE2Hist struct {
	Params     *vfE2Params   `json:"params"`
	Ops        []*vfE2Op     `json:"ops"`
	Foreign    []vfE2Reply   `json:"foreign,omitempty"`
	Online     []vfE2Finding `json:"online_findings,omitempty"` // census / text-reply findings made while the history ran
	Incon      []string      `json:"inconclusive,omitempty"`
	Drained    bool          `json:"drained"`
	Clients    int           `json:"clients"`
	WallMs     int64         `json:"wall_ms"`
	DrainMs    int64         `json:"drain_ms"`
	ReclaimMs  int64         `json:"reclaim_ms"`
	HookSleeps int64         `json:"hook_sleeps"`
	HookYields int64         `json:"hook_yields"`
	HookHits   map[string]int64 `json:"hook_hits,omitempty"`
	Counters   map[string]int64 `json:"counters,omitempty"`
}

func (o *vfE2Op) terminal() *vfE2Reply {
	for i := range o.Replies {
		if o.Replies[i].Result != protocol.RESULT_EXPRIED {
			return &o.Replies[i]
		}
	}
	return nil
}

func (o *vfE2Op) notice() *vfE2Reply {
	for i := range o.Replies {
		if o.Replies[i].Result == protocol.RESULT_EXPRIED {
			return &o.Replies[i]
		}
	}
	return nil
}

func (o *vfE2Op) String() string {
	s := fmt.Sprintf("#%d c%d/%s %s key%d L%d cnt=%d rc=%d t=%d/%04x e=%d/%04x f=%02x call=%d", o.Id, o.Client, o.Front, o.Kind, o.Key, o.Lid, o.Count, o.Rcount, o.Timeout, o.TFlag, o.Expried, o.EFlag, o.Flag, o.Call)
	for _, r := range o.Replies {
		s += fmt.Sprintf(" -> %s@%d", vfResName(r.Result), r.Ts)
		if r.HasVal {
			s += "[" + vfTrunc(r.Val, 40) + "]"
		}
	}
	if len(o.Replies) == 0 {
		s += " -> (open)"
	}
	return s
}

func vfE2KeyIdx(part, round int) int { return 1 + part*64 + round }

func vfE2ValString(data []byte) string {
	v, err := vfParseValue(data)
	if err != nil {
		return "?" + err.Error()
	}
	if v.Absent {
		return "A"
	}
	switch v.Kind {
	case vfValNumber:
		return "N:" + strconv.FormatInt(v.N, 10)
	case vfValArray:
		return "?array"
	}
	return "B:" + string(v.B)
}

// ---------------------------------------------------------------- hook (window widening only)

var vfE2HookRng uint64
var vfE2HookHits [VP_MAX]int64
var vfE2HookSleeps, vfE2HookYields int64
var vfE2HookSleepPm, vfE2HookGoschedPm uint64

func vfE2Hook(point int) {
	if point <= 0 || point >= VP_MAX {
		return
	}
	atomic.AddInt64(&vfE2HookHits[point], 1)
	if point >= VP_AOF_FLUSH_MID && point != VP_AOF_CHANNEL_WAKE {
		return // log / compaction points run with the log mutex held: never delay there
	}
	x := vfMix(atomic.AddUint64(&vfE2HookRng, 0x9e3779b97f4a7c15))
	r := x % 1000
	if r < vfE2HookSleepPm {
		atomic.AddInt64(&vfE2HookSleeps, 1)
		time.Sleep(time.Duration((x>>20)%2001) * time.Microsecond)
	} else if r < vfE2HookSleepPm+vfE2HookGoschedPm {
		atomic.AddInt64(&vfE2HookYields, 1)
		runtime.Gosched()
	}
}

// ---------------------------------------------------------------- run state

type vfE2ConnState struct {
	idx    int
	front  string
	client *vfE2Client
}

type vfE2Run struct {
	p       *vfE2Params
	srv     *vfNetServer
	in      *vfInstance
	clk     int64
	reqSeq  uint64
	start   time.Time
	mu      sync.Mutex
	ops     map[uint64]*vfE2Op
	opList  []*vfE2Op
	foreign []vfE2Reply
	online  []vfE2Finding
	incon   []string
	conns   []*vfE2ConnState
	clients []*vfE2Client
	cnt     map[string]int64
}

func (r *vfE2Run) tick() int64 { return atomic.AddInt64(&r.clk, 1) }

func (r *vfE2Run) inconclusive(format string, a ...interface{}) {
	r.mu.Lock()
	if len(r.incon) < 20 {
		r.incon = append(r.incon, fmt.Sprintf(format, a...))
	}
	r.mu.Unlock()
}

func (r *vfE2Run) find(prop, clause, format string, a ...interface{}) {
	r.mu.Lock()
	if len(r.online) < 40 {
		r.online = append(r.online, vfE2Finding{Prop: prop, Clause: clause, Detail: fmt.Sprintf(format, a...)})
	}
	r.mu.Unlock()
}

func (r *vfE2Run) count(name string, n int64) {
	r.mu.Lock()
	r.cnt[name] += n
	r.mu.Unlock()
}

func (r *vfE2Run) newConn(front string, c *vfE2Client) *vfE2ConnState {
	cs := &vfE2ConnState{idx: len(r.conns), front: front, client: c}
	r.conns = append(r.conns, cs)
	return cs
}

// deliver records one reply frame / callback at the client boundary.
func (r *vfE2Run) deliver(cs *vfE2ConnState, reqId [16]byte, cmdType uint8, result uint8, key [16]byte, lid [16]byte, lcount uint16, lrcount uint8, data []byte) {
	rep := vfE2Reply{Ts: r.tick(), Conn: cs.idx, Result: result, CmdType: cmdType, Key: vfKeyIndex(key), Lid: vfLockIdIndex(lid), LCount: lcount, LRCount: lrcount, Owner: -1}
	if data != nil {
		rep.HasVal = true
		rep.Val = vfE2ValString(data)
	}
	id, _, ok := vfReqIdParse(reqId)
	rep.Req = id
	r.mu.Lock()
	var op *vfE2Op
	if ok {
		op = r.ops[id]
	}
	if op == nil || op.Conn != cs.idx {
		if op != nil {
			rep.Owner = op.Client
		}
		r.foreign = append(r.foreign, rep)
		r.mu.Unlock()
		return
	}
	op.Replies = append(op.Replies, rep)
	r.mu.Unlock()
	r.settle(op, &rep)
}

// deliverText records the reply line of a text command (no RequestId on the wire).
func (r *vfE2Run) deliverText(op *vfE2Op, rep vfE2Reply) {
	rep.Ts = r.tick()
	rep.Req = op.Id
	rep.Conn = op.Conn
	rep.Owner = -1
	r.mu.Lock()
	op.Replies = append(op.Replies, rep)
	r.mu.Unlock()
	r.settle(op, &rep)
}

func (r *vfE2Run) settle(op *vfE2Op, rep *vfE2Reply) {
	if c := r.clients[op.Client]; c != nil {
		c.onReply(op, rep)
	}
	if rep.Result != protocol.RESULT_EXPRIED {
		op.doneOnce.Do(func() { close(op.done) })
	}
}

func vfE2FillCommand(cmd *protocol.LockCommand, op *vfE2Op) {
	cmd.Magic, cmd.Version = protocol.MAGIC, protocol.VERSION
	if op.Kind == "lock" {
		cmd.CommandType = protocol.COMMAND_LOCK
	} else {
		cmd.CommandType = protocol.COMMAND_UNLOCK
	}
	cmd.RequestId = vfReqIdBytes(op.Id, op.Client&0xff)
	cmd.Flag = op.Flag
	cmd.DbId = 0
	cmd.LockId = vfLockIdBytes(op.Lid)
	cmd.LockKey = vfKeyBytes(0, op.Key)
	cmd.TimeoutFlag, cmd.Timeout = op.TFlag, op.Timeout
	cmd.ExpriedFlag, cmd.Expried = op.EFlag, op.Expried
	cmd.Count, cmd.Rcount = op.Count, op.Rcount
	cmd.Data = nil
	if op.Data != nil {
		cmd.Data = vfBuildData(op.Data)
		cmd.Flag |= protocol.LOCK_FLAG_CONTAINS_DATA // same bit as UNLOCK_FLAG_CONTAINS_DATA
	}
}

// ---------------------------------------------------------------- front-ends

type vfE2Conn interface {
	send(op *vfE2Op) error
	barrier() error
	close()
}

// ---- MemWaiterServerProtocol with a result callback

type vfE2MemConn struct {
	r     *vfE2Run
	cs    *vfE2ConnState
	proto *MemWaiterServerProtocol
}

func (r *vfE2Run) dialMem(cs *vfE2ConnState) *vfE2MemConn {
	m := &vfE2MemConn{r: r, cs: cs, proto: NewMemWaiterServerProtocol(r.in.slock)}
	_ = m.proto.SetResultCallback(func(p *MemWaiterServerProtocol, cmd *protocol.LockCommand, result uint8, lcount uint16, lrcount uint8, data []byte) error {
		r.deliver(cs, cmd.RequestId, cmd.CommandType, result, cmd.LockKey, cmd.LockId, lcount, lrcount, data)
		return nil
	})
	return m
}

func (m *vfE2MemConn) send(op *vfE2Op) error {
	cmd := m.proto.GetLockCommand()
	vfE2FillCommand(cmd, op)
	return m.proto.ProcessLockCommand(cmd)
}
func (m *vfE2MemConn) barrier() error { return nil }
func (m *vfE2MemConn) close()         { _ = m.proto.Close() }

// ---- binary protocol over net.Pipe through Server.handle

type vfE2BinConn struct {
	r       *vfE2Run
	cs      *vfE2ConnState
	conn    net.Conn
	stream  *Stream
	wmu     sync.Mutex
	pmu     sync.Mutex
	pings   map[[16]byte]chan struct{}
	readErr error
	pingSeq uint64
}

func (r *vfE2Run) dialBin(cs *vfE2ConnState) *vfE2BinConn {
	c, st := r.srv.dial()
	b := &vfE2BinConn{r: r, cs: cs, conn: c, stream: st, pings: map[[16]byte]chan struct{}{}}
	go b.readLoop()
	return b
}

func (b *vfE2BinConn) fail(err error) {
	b.pmu.Lock()
	if b.readErr == nil {
		b.readErr = err
	}
	for id, ch := range b.pings {
		close(ch)
		delete(b.pings, id)
	}
	b.pmu.Unlock()
}

func (b *vfE2BinConn) readLoop() {
	br := bufio.NewReaderSize(b.conn, 65536)
	for {
		buf := make([]byte, 64)
		if _, err := io.ReadFull(br, buf); err != nil {
			b.fail(err)
			return
		}
		ctype := buf[2]
		var reqId [16]byte
		copy(reqId[:], buf[3:19])
		switch ctype {
		case protocol.COMMAND_LOCK, protocol.COMMAND_UNLOCK:
			lr := protocol.LockResultCommand{}
			_ = lr.Decode(buf)
			var data []byte
			if lr.Flag&protocol.LOCK_FLAG_CONTAINS_DATA != 0 {
				hdr := make([]byte, 4)
				if _, err := io.ReadFull(br, hdr); err != nil {
					b.fail(err)
					return
				}
				n := int(uint32(hdr[0]) | uint32(hdr[1])<<8 | uint32(hdr[2])<<16 | uint32(hdr[3])<<24)
				body := make([]byte, n)
				if _, err := io.ReadFull(br, body); err != nil {
					b.fail(err)
					return
				}
				data = append(hdr, body...)
			}
			b.r.deliver(b.cs, reqId, ctype, lr.Result, lr.LockKey, lr.LockId, lr.Lcount, lr.Lrcount, data)
		case protocol.COMMAND_CALL:
			cr := protocol.CallResultCommand{}
			_ = cr.Decode(buf)
			if cr.ContentLen > 0 {
				body := make([]byte, cr.ContentLen)
				if _, err := io.ReadFull(br, body); err != nil {
					b.fail(err)
					return
				}
			}
		default:
			b.pmu.Lock()
			if ch, ok := b.pings[reqId]; ok {
				close(ch)
				delete(b.pings, reqId)
			}
			b.pmu.Unlock()
		}
	}
}

func (b *vfE2BinConn) write(p []byte) error {
	b.wmu.Lock()
	defer b.wmu.Unlock()
	_ = b.conn.SetWriteDeadline(time.Now().Add(vfE2ClientWatch))
	_, err := b.conn.Write(p)
	return err
}

func (b *vfE2BinConn) send(op *vfE2Op) error {
	cmd := &protocol.LockCommand{}
	vfE2FillCommand(cmd, op)
	buf := make([]byte, 64)
	_ = cmd.Encode(buf)
	if cmd.Data != nil {
		buf = append(buf, cmd.Data.Data...)
	}
	return b.write(buf)
}

// barrier: a PING is answered by the connection's goroutine only after it has
// finished every earlier frame (including the wake-up pass that follows a reply).
func (b *vfE2BinConn) barrier() error {
	p := protocol.NewPingCommand()
	b.pingSeq++
	p.RequestId = vfReqIdBytes(b.pingSeq, 0xfe)
	p.RequestId[9] = 'P'
	ch := make(chan struct{})
	b.pmu.Lock()
	if b.readErr != nil {
		b.pmu.Unlock()
		return b.readErr
	}
	b.pings[p.RequestId] = ch
	b.pmu.Unlock()
	buf := make([]byte, 64)
	_ = p.Encode(buf)
	if err := b.write(buf); err != nil {
		return err
	}
	select {
	case <-ch:
		b.pmu.Lock()
		err := b.readErr
		b.pmu.Unlock()
		return err
	case <-time.After(vfE2ClientWatch):
		return fmt.Errorf("watchdog: no PING reply")
	}
}
func (b *vfE2BinConn) close() { _ = b.conn.Close() }

// ---- text protocol over net.Pipe through Server.handle (synchronous)

type vfE2TextConn struct {
	r  *vfE2Run
	cs *vfE2ConnState
	t  *vfTextConn
}

func (r *vfE2Run) dialText(cs *vfE2ConnState) *vfE2TextConn {
	return &vfE2TextConn{r: r, cs: cs, t: r.srv.dialText(fmt.Sprintf("text%d", cs.idx))}
}

func vfE2TextArgs(op *vfE2Op) []string {
	key := vfKeyBytes(0, op.Key)
	lid := vfLockIdBytes(op.Lid)
	name := "LOCK"
	if op.Kind == "unlock" {
		name = "UNLOCK"
	}
	args := []string{name, fmt.Sprintf("%x", key[:]), "LOCK_ID", fmt.Sprintf("%x", lid[:]),
		"FLAG", strconv.Itoa(int(op.Flag)),
		"TIMEOUT", strconv.FormatInt(int64(op.Timeout)|int64(op.TFlag)<<16, 10),
		"EXPRIED", strconv.FormatInt(int64(op.Expried)|int64(op.EFlag)<<16, 10),
		"COUNT", strconv.Itoa(int(op.Count) + 1), "RCOUNT", strconv.Itoa(int(op.Rcount) + 1)}
	if d := op.Data; d != nil {
		switch d.Type {
		case protocol.LOCK_DATA_COMMAND_TYPE_SET:
			args = append(args, "SET", string(d.Val))
		case protocol.LOCK_DATA_COMMAND_TYPE_APPEND:
			args = append(args, "APPEND", string(d.Val))
		case protocol.LOCK_DATA_COMMAND_TYPE_INCR:
			args = append(args, "INCR", strconv.FormatInt(d.Num, 10))
		case protocol.LOCK_DATA_COMMAND_TYPE_SHIFT:
			args = append(args, "SHIFT", strconv.FormatInt(d.Num, 10))
		case protocol.LOCK_DATA_COMMAND_TYPE_UNSET:
			args = append(args, "UNSET", "1")
		}
	}
	return args
}

func (t *vfE2TextConn) send(op *vfE2Op) error {
	v, err := t.t.call(vfE2TextArgs(op)...)
	if err != nil {
		return err
	}
	bad := func(why string) error {
		t.r.find("C03", "text-reply-mismatch", "text connection %d: the reply to %s is not the reply of this command (%s): %s", t.cs.idx, op.String(), why, vfTrunc(v.String(), 300))
		t.r.deliverText(op, vfE2Reply{Result: protocol.RESULT_ERROR, Key: op.Key, Lid: -1})
		return nil
	}
	if v.Kind != '*' || len(v.Array) < 12 {
		return bad("not a lock result array")
	}
	code, cerr := strconv.Atoi(v.Array[0].Str)
	if cerr != nil {
		return bad("result code")
	}
	rep := vfE2Reply{Result: uint8(code), Key: op.Key, Lid: -1, CmdType: protocol.COMMAND_LOCK}
	if op.Kind == "unlock" {
		rep.CmdType = protocol.COMMAND_UNLOCK
	}
	want := vfLockIdBytes(op.Lid)
	if v.Array[3].Str == fmt.Sprintf("%x", want[:]) {
		rep.Lid = op.Lid
	}
	lc, _ := strconv.Atoi(v.Array[5].Str)
	lrc, _ := strconv.Atoi(v.Array[9].Str)
	rep.LCount, rep.LRCount = uint16(lc), uint8(lrc)
	if len(v.Array) >= 14 && v.Array[12].Str == "DATA" {
		rep.HasVal = true
		switch d := v.Array[13]; d.Kind {
		case ':':
			rep.Val = "N:" + strconv.FormatInt(d.Int, 10)
		case '$':
			rep.Val = "B:" + d.Str
		default:
			rep.Val = "?array"
		}
	}
	t.r.deliverText(op, rep)
	return nil
}

// barrier: the next command is read only after the previous handler has
// returned; its reply must be exactly the reply of this command.
func (t *vfE2TextConn) barrier() error {
	v, err := t.t.call("TIMEOUT", "GET", "0")
	if err != nil {
		return err
	}
	if v.Kind != ':' {
		t.r.find("C03", "text-reply-mismatch", "text connection %d: the reply stream is out of step - TIMEOUT GET answered %s", t.cs.idx, vfTrunc(v.String(), 300))
	}
	return nil
}
func (t *vfE2TextConn) close() { t.t.close() }

// ---------------------------------------------------------------- clients

type vfE2Client struct {
	r        *vfE2Run
	idx      int
	part     int // key partition; -1 noise; -2 lead (anchors, drain)
	noiseIdx int
	plan     vfE2ClientPlan
	kp       *vfE2KeyPlan
	rng      *vfRand
	conn     vfE2Conn
	cs       *vfE2ConnState
	mu       sync.Mutex
	holds    map[[2]int]int
	pending  map[[2]int]bool
	failed   bool
	noiseSeq int
	// churn-pairs profile: role 1 = pins the fast slot, later creates / removes fast keys in it;
	// role 2 = keeps one key of the slot (created while the slot was pinned: slow map) locked / unlocked
	pairRole  int
	pairKeys  []int // keys of the pair's fast-key slot: [0] pin key, [1] the slow-map key, [2:] probe keys
	pairHeld  bool
	pairProbe int
}

func (c *vfE2Client) onReply(op *vfE2Op, rep *vfE2Reply) {
	k := [2]int{op.Key, op.Lid}
	c.mu.Lock()
	defer c.mu.Unlock()
	if rep.Result == protocol.RESULT_EXPRIED {
		delete(c.holds, k)
		return
	}
	if op.Kind == "lock" {
		delete(c.pending, k)
		if rep.Result == protocol.RESULT_SUCCED && op.Expried > 0 {
			c.holds[k]++
		}
		return
	}
	if rep.Result == protocol.RESULT_SUCCED && op.Rcount > 0 && c.holds[k] > 1 {
		c.holds[k]--
	} else if rep.Result == protocol.RESULT_SUCCED || rep.Result == protocol.RESULT_UNLOCK_ERROR || rep.Result == protocol.RESULT_UNOWN_ERROR {
		delete(c.holds, k)
	}
}

// do submits one request and (usually) waits for its terminal reply.
func (c *vfE2Client) do(op *vfE2Op) {
	r := c.r
	if op.Id == 0 {
		op.Id = atomic.AddUint64(&r.reqSeq, 1)
	}
	op.Client, op.Conn, op.Front = c.idx, c.cs.idx, c.cs.front
	op.done = make(chan struct{})
	r.mu.Lock()
	r.ops[op.Id] = op
	r.opList = append(r.opList, op)
	r.mu.Unlock()
	if op.Kind == "lock" {
		c.mu.Lock()
		c.pending[[2]int{op.Key, op.Lid}] = true
		c.mu.Unlock()
	}
	op.Call = r.tick()
	err := c.conn.send(op)
	op.Submitted = r.tick()
	if err != nil {
		c.failed = true
		r.inconclusive("client %d (%s): submitting %s failed: %v", c.idx, c.cs.front, op.String(), err)
		return
	}
	select {
	case <-op.done:
		return
	default:
	}
	if c.plan.GiveUp > 0 && c.rng.Chance(c.plan.GiveUp) {
		op.GaveUp = true
		return
	}
	t := time.NewTimer(vfE2ClientWatch)
	select {
	case <-op.done:
		t.Stop()
	case <-t.C:
		c.failed = true
		r.inconclusive("client %d (%s): watchdog while waiting for the reply to %s", c.idx, c.cs.front, op.String())
	}
}

func (c *vfE2Client) valueOp(id uint64) *vfDataOp {
	rng := c.rng
	if c.kp.ValueKind == "counter" {
		switch r := rng.Intn(100); {
		case r < 72:
			return &vfDataOp{Type: protocol.LOCK_DATA_COMMAND_TYPE_INCR, Num: int64((id*7919+1)&0xfffff) + 1}
		case r < 78:
			return &vfDataOp{Type: protocol.LOCK_DATA_COMMAND_TYPE_UNSET}
		}
		return nil
	}
	switch r := rng.Intn(100); {
	case r < 28:
		return &vfDataOp{Type: protocol.LOCK_DATA_COMMAND_TYPE_SET, Val: []byte(fmt.Sprintf("s%x.", id))}
	case r < 70:
		return &vfDataOp{Type: protocol.LOCK_DATA_COMMAND_TYPE_APPEND, Val: []byte(fmt.Sprintf("a%x.", id))}
	case r < 80:
		return &vfDataOp{Type: protocol.LOCK_DATA_COMMAND_TYPE_SHIFT, Num: int64(rng.Range(1, 7))}
	case r < 84:
		return &vfDataOp{Type: protocol.LOCK_DATA_COMMAND_TYPE_UNSET}
	}
	return nil
}

func (c *vfE2Client) lockParams(op *vfE2Op) {
	rng, kp := c.rng, c.kp
	op.Kind = "lock"
	op.Count = kp.Count
	if kp.Mode == "mixed" {
		op.Count = uint16(rng.Intn(3))
	}
	op.Expried = vfE2LongExpiry
	if kp.Reentrant {
		op.Rcount = 2
	}
	switch t := rng.Intn(100); {
	case t < 40:
		if rng.Chance(8) {
			op.Flag |= protocol.LOCK_FLAG_CONCURRENT_CHECK
		}
	case t < 80:
		op.Timeout, op.TFlag = uint16(rng.Range(3, 60)), protocol.TIMEOUT_FLAG_MILLISECOND_TIME
	case t < 94:
		op.Timeout, op.TFlag = uint16(rng.Range(100, 400)), protocol.TIMEOUT_FLAG_MILLISECOND_TIME
	default:
		op.Timeout = 1
	}
	if kp.Mode == "expiring" && c.cs.front != "text" {
		switch e := rng.Intn(100); {
		case e < 60:
			op.Expried, op.EFlag = uint16(rng.Range(10, 150)), protocol.EXPRIED_FLAG_MILLISECOND_TIME
		case e < 68:
			op.Expried = 1
		}
	}
}

func (c *vfE2Client) next(round int) *vfE2Op {
	rng, kp := c.rng, c.kp
	key := vfE2KeyIdx(c.part, round)
	var held, free []int
	depth := map[int]int{}
	c.mu.Lock()
	for j := 0; j < 3; j++ {
		l := c.idx*8 + j
		k := [2]int{key, l}
		if d := c.holds[k]; d > 0 {
			held = append(held, l)
			depth[l] = d
		} else if !c.pending[k] {
			free = append(free, l)
		}
	}
	c.mu.Unlock()
	op := &vfE2Op{Part: c.part, Round: round, Key: key, Id: atomic.AddUint64(&c.r.reqSeq, 1)}
	x := rng.Intn(100)
	switch {
	case len(held) > 0 && (x < 45 || len(free) == 0):
		op.Kind = "unlock"
		op.Lid = held[rng.Intn(len(held))]
		if kp.Reentrant && rng.Chance(50) {
			op.Rcount = 1
		}
	case kp.Reentrant && len(held) > 0 && x < 62:
		c.lockParams(op)
		op.Lid = held[rng.Intn(len(held))]
		op.Timeout, op.TFlag = 0, 0
	case x < 67 || len(free) == 0:
		op.Kind = "unlock"
		op.Lid = vfE2GhostLid + c.idx
	case x < 75:
		c.lockParams(op)
		op.Lid = free[rng.Intn(len(free))]
		op.Expried, op.EFlag = 0, 0 // probe: granted without a hold
	default:
		c.lockParams(op)
		op.Lid = free[rng.Intn(len(free))]
	}
	if kp.Mode == "value" && op.Lid < vfE2GhostLid && rng.Chance(75) {
		op.Data = c.valueOp(op.Id)
	}
	return op
}

func (c *vfE2Client) runRound(round int) {
	if c.failed {
		return
	}
	if c.part == -1 {
		c.runNoise(round)
		return
	}
	for i := 0; i < c.r.p.OpsPerRound && !c.failed; i++ {
		op := c.next(round)
		c.do(op)
		if op.Kind == "lock" && op.EFlag&protocol.EXPRIED_FLAG_MILLISECOND_TIME != 0 && c.rng.Chance(40) {
			time.Sleep(time.Duration(c.rng.Intn(int(op.Expried)*2+1)) * time.Millisecond)
		} else if c.rng.Chance(20) {
			runtime.Gosched()
		}
	}
}

// runNoise: private keys, each used once: key managers are created and
// removed all the time in the fast-key slots the shared keys live in.
func (c *vfE2Client) runNoise(round int) {
	lid := c.idx * 8
	if c.pairRole != 0 {
		c.runPair(round, lid)
		return
	}
	for i := 0; i < c.r.p.NoiseOps && !c.failed; i++ {
		key := vfE2NoiseKey + c.noiseIdx*7000 + c.noiseSeq
		c.noiseSeq++
		if c.noiseSeq >= 7000 {
			return
		}
		op := &vfE2Op{Part: -1, Round: round, Key: key, Lid: lid, Kind: "lock", Count: 0}
		switch x := c.rng.Intn(100); {
		case x < 45: // probe: manager created and removed by one request
		case x < 85:
			op.Expried = vfE2LongExpiry
			c.do(op)
			if t := op.terminal(); t == nil || t.Result != protocol.RESULT_SUCCED {
				continue
			}
			if c.rng.Chance(30) {
				runtime.Gosched()
			}
			op = &vfE2Op{Part: -1, Round: round, Key: key, Lid: lid, Kind: "unlock"}
		default:
			op.Expried, op.EFlag = uint16(c.rng.Range(2, 12)), protocol.EXPRIED_FLAG_MILLISECOND_TIME
		}
		c.do(op)
	}
}

func vfE2FastHash(k [16]byte) uint32 {
	return (uint32(k[0]) | uint32(k[1])<<8 | uint32(k[2])<<16 | uint32(k[3])<<24) ^ (uint32(k[4]) | uint32(k[5])<<8 | uint32(k[6])<<16 | uint32(k[7])<<24) ^
		(uint32(k[8]) | uint32(k[9])<<8 | uint32(k[10])<<16 | uint32(k[11])<<24) ^ (uint32(k[12])<<24 | uint32(k[13])<<16 | uint32(k[14])<<8 | uint32(k[15]))
}

// vfE2SlotKeys: n key indices >= from whose keys hash into fast-key slot `slot` of `slots`.
func vfE2SlotKeys(slots uint32, slot uint32, from int, n int) []int {
	var out []int
	for k := from; k < 65536 && len(out) < n; k++ {
		if vfE2FastHash(vfKeyBytes(0, k))%slots == slot {
			out = append(out, k)
		}
	}
	return out
}

func (c *vfE2Client) runPair(round int, lid int) {
	r := c.r
	lock := func(key int, e uint16) *vfE2Op {
		op := &vfE2Op{Part: -1, Round: round, Key: key, Lid: lid, Kind: "lock", Expried: e}
		c.do(op)
		return op
	}
	unlock := func(key int) {
		c.do(&vfE2Op{Part: -1, Round: round, Key: key, Lid: lid, Kind: "unlock"})
	}
	if c.pairRole == 1 {
		switch {
		case round == 0:
			lock(c.pairKeys[0], vfE2LongExpiry) // takes the (empty) fast slot
		case round == 2:
			unlock(c.pairKeys[0])
			// wait (event: the key table, not a deadline) until the sweeper has removed the pin key's manager
			t0 := time.Now()
			for r.in.dbs[0].GetLockManager(&protocol.LockCommand{LockKey: vfKeyBytes(0, c.pairKeys[0])}) != nil {
				if time.Since(t0) > 8*time.Second {
					r.count("pair_pin_never_removed", 1)
					break
				}
				time.Sleep(2 * time.Millisecond)
			}
			r.count("pair_slots_armed", 1)
		case round > 2:
			for i := 0; i < r.p.NoiseOps*2 && !c.failed; i++ {
				probes := c.pairKeys[2:]
				lock(probes[c.pairProbe%len(probes)], 0) // manager created in the fast slot and removed at once
				c.pairProbe++
			}
		}
		return
	}
	if round == 0 {
		return
	}
	k := c.pairKeys[1]
	if c.pairHeld {
		unlock(k)
		c.pairHeld = false
	}
	n := r.p.NoiseOps
	if round < 3 {
		n = 1
	}
	for i := 0; i < n && !c.failed; i++ {
		if t := lock(k, vfE2LongExpiry).terminal(); t == nil || t.Result != protocol.RESULT_SUCCED {
			return
		}
		unlock(k)
	}
	if t := lock(k, vfE2LongExpiry).terminal(); t != nil && t.Result == protocol.RESULT_SUCCED {
		c.pairHeld = true // held across the barrier: the key's manager stays where it is (slow map)
	}
}

// ---------------------------------------------------------------- running one history

// vfE2ServerBusy: true while some goroutine is inside a request, sweep, wake-up
// or reply path of the lock engine (an event-based test for "a reply may still
// be on its way", used instead of a wall-clock grace period).
func vfE2ServerBusy() bool {
	buf := make([]byte, 1<<20)
	for {
		n := runtime.Stack(buf, true)
		if n < len(buf) {
			buf = buf[:n]
			break
		}
		buf = make([]byte, len(buf)*2)
	}
	s := string(buf)
	for _, f := range []string{"(*LockDB).Lock(", "(*LockDB).UnLock(", "(*LockDB).doTimeOut(", "(*LockDB).doExpried(", "(*LockDB).wakeUpWaitLock", "(*LockDB).cancelWaitLock(",
		"(*LockDB).checkTimeTimeOut(", "(*LockDB).checkTimeExpried(", "(*LockDB).checkMillisecondTimeOut(", "(*LockDB).checkMillisecondExpried(", "(*LockDB).checkTimeWaitRemoveLockManager(",
		"(*LockDB).DoAckLock(", "ProcessLockResultCommand", "(*LockDBExecutor).Run(", "commandHandlerLock(", "commandHandlerUnlock("} {
		if strings.Contains(s, f) {
			if f == "(*LockDBExecutor).Run(" {
				continue // the executor goroutine is parked in Run for its whole life
			}
			return true
		}
	}
	return false
}

type vfE2CensusSum struct {
	holds   [][2]int // key index, LockId index
	waiters int
	keys    int
	live    int
	wheel   int
	depth   uint32
	errors  []string
	state   protocol.LockDBState
	unknown int
	byKey   map[int]int // key -> holds + waiters
}

func (r *vfE2Run) census() *vfE2CensusSum {
	s := &vfE2CensusSum{byKey: map[int]int{}}
	for _, db := range r.in.dbs {
		c := vfTakeCensus(db)
		s.keys += len(c.Keys)
		s.live += c.LiveRecords
		s.wheel += c.WheelTimeout + c.WheelExpried + c.LongTimeout + c.LongExpried + c.MsTimeout + c.MsExpried
		s.errors = append(s.errors, c.Errors...)
		s.state.LockedCount += c.State.LockedCount
		s.state.WaitCount += c.State.WaitCount
		s.state.KeyCount += c.State.KeyCount
		for _, k := range c.Keys {
			ki := vfKeyIndex(k.Key)
			for _, h := range k.Holds {
				li := vfLockIdIndex(h.LockId)
				if ki < 0 || li < 0 {
					s.unknown++
					continue
				}
				s.holds = append(s.holds, [2]int{ki, li})
				s.depth += uint32(h.Depth)
				s.byKey[ki]++
			}
			s.waiters += len(k.Waiters)
			s.byKey[ki] += len(k.Waiters)
		}
	}
	return s
}

func (r *vfE2Run) openOps() []*vfE2Op {
	r.mu.Lock()
	defer r.mu.Unlock()
	var out []*vfE2Op
	for _, op := range r.opList {
		if op.terminal() == nil {
			out = append(out, op)
		}
	}
	return out
}

func (r *vfE2Run) barrierAll() bool {
	ok := true
	for _, c := range r.clients {
		if c == nil || c.failed {
			continue
		}
		if err := c.conn.barrier(); err != nil {
			c.failed = true
			r.inconclusive("client %d (%s): barrier failed: %v", c.idx, c.cs.front, err)
			ok = false
		}
	}
	return ok
}

// sampleBarrier: STATE counters against the census, both taken under all shard
// mutexes while no client request is being processed (C17).
func (r *vfE2Run) sampleBarrier(round int) {
	s := r.census()
	r.count("barrier_census", 1)
	if len(s.errors) > 0 {
		r.count("barrier_census_transient_structure_notes", int64(len(s.errors)))
	}
	if s.state.LockedCount != s.depth {
		r.find("C17", "state-locked", "barrier after round %d: STATE LockedCount=%d but the census counts %d outstanding hold levels", round, s.state.LockedCount, s.depth)
	}
	if int(s.state.WaitCount) != s.waiters {
		r.find("C17", "state-wait", "barrier after round %d: STATE WaitCount=%d but the census counts %d live queued requests", round, s.state.WaitCount, s.waiters)
	}
	if int(s.state.KeyCount) != s.keys {
		r.find("C17", "state-keys", "barrier after round %d: STATE KeyCount=%d but %d key managers are reachable from the key tables", round, s.state.KeyCount, s.keys)
	}
	if s.depth > 0 || s.waiters > 0 {
		r.count("barrier_census_nonzero", 1)
	}
}

// drain unlocks everything the server holds until its census shows no hold and
// no queued request and no request is still being answered.
func (r *vfE2Run) drain(lead *vfE2Client) bool {
	deadline := time.Now().Add(vfE2DrainWatch)
	idle := 0
	for iter := 0; ; iter++ {
		s := r.census()
		if s.unknown > 0 {
			r.inconclusive("drain: the census shows %d holds the harness did not create", s.unknown)
			return false
		}
		if len(s.holds) == 0 && s.waiters == 0 {
			if len(r.openOps()) == 0 {
				return true
			}
			_ = r.barrierAll()
			if !vfE2ServerBusy() {
				idle++
				if idle >= 3 {
					return true // requests still open now got no reply although the server neither holds nor queues them
				}
			} else {
				idle = 0
			}
		} else {
			idle = 0
			if len(s.holds) == 0 && s.waiters > 0 && !vfE2ServerBusy() {
				r.count("drain_samples_waiters_without_holds", 1) // evidence for C04 (not judged here): requests queued on keys nobody holds
			}
		}
		for _, h := range s.holds {
			if h[1] >= vfE2AnchorLid && h[1] < vfE2GhostLid && s.byKey[h[0]] > 1 {
				continue // anchors go last: the key stays held while others still use it
			}
			op := &vfE2Op{Part: -1, Key: h[0], Lid: h[1], Kind: "unlock", Drain: true}
			if h[0] < vfE2NoiseKey {
				op.Part, op.Round = (h[0]-1)/64, (h[0]-1)%64
			}
			lead.do(op)
			if lead.failed {
				return false
			}
		}
		if time.Now().After(deadline) {
			r.inconclusive("drain watchdog: census still shows %d holds and %d queued requests", len(s.holds), s.waiters)
			return false
		}
		time.Sleep(5 * time.Millisecond)
	}
}

// reclaim waits (event-based: server clock + sweep positions) until the census
// is empty; leftovers are findings only when the server's own clock and both
// sweepers have passed every re-check horizon and no sweep is running.
func (r *vfE2Run) reclaim(histStart int64) {
	db := r.in.dbs[0]
	t0 := db.currentTime
	dur := t0 - histStart
	if dur < 0 {
		dur = 0
	}
	horizon := t0 + dur + 12
	wallStart := time.Now()
	watchdog := wallStart.Add(time.Duration(dur+12)*time.Second + 120*time.Second)
	var s *vfE2CensusSum
	clean := func() bool {
		return s.keys == 0 && s.live == 0 && s.wheel == 0 && len(s.errors) == 0 && s.state.LockedCount == 0 && s.state.WaitCount == 0 && s.state.KeyCount == 0 && len(s.holds) == 0 && s.waiters == 0
	}
	for {
		s = r.census()
		if clean() {
			r.count("final_census_clean", 1)
			return
		}
		if db.currentTime >= horizon && db.checkExpriedTime > horizon && db.checkTimeoutTime > horizon && time.Since(wallStart) > time.Duration(dur+12)*time.Second && !vfE2ServerBusy() {
			time.Sleep(300 * time.Millisecond)
			s = r.census()
			if clean() {
				r.count("final_census_clean", 1)
				return
			}
			break
		}
		if time.Now().After(watchdog) {
			r.inconclusive("reclaim watchdog: the server clock / sweepers did not pass the re-check horizon (clock %d, horizon %d)", db.currentTime, horizon)
			return
		}
		time.Sleep(25 * time.Millisecond)
	}
	for i, e := range s.errors {
		if i < 4 {
			r.find("C17", "structure", "after drain (+%d s server time): %s", db.currentTime-t0, e)
		}
	}
	if len(s.holds) > 0 || s.waiters > 0 {
		r.find("C17", "drain-holds", "after drain the census shows %d holds and %d queued requests again", len(s.holds), s.waiters)
	}
	if s.keys != 0 {
		r.find("C17", "drain-keys", "after drain (+%d s server time, sweepers idle) %d key manager(s) are still reachable from the key tables", db.currentTime-t0, s.keys)
	}
	if s.state.LockedCount != 0 || s.state.WaitCount != 0 || s.state.KeyCount != 0 {
		r.find("C17", "drain-state", "after drain STATE reports LockedCount=%d WaitCount=%d KeyCount=%d", s.state.LockedCount, s.state.WaitCount, s.state.KeyCount)
	}
	if s.live != 0 || s.wheel != 0 {
		r.find("C17", "drain-records", "after drain %d live records are reachable; %d wheel / table entries", s.live, s.wheel)
	}
}

func vfE2RunHistory(p *vfE2Params, scratch string) *vfE2Hist {
	runtime.GOMAXPROCS(p.GoMaxProcs)
	atomic.StoreUint64(&vfE2HookRng, p.RngSeed)
	vfE2HookSleepPm, vfE2HookGoschedPm = uint64(p.SleepPm), uint64(p.GoschedPm)
	for i := range vfE2HookHits {
		vfE2HookHits[i] = 0
	}
	vfE2HookSleeps, vfE2HookYields = 0, 0
	verifHook = vfE2Hook
	r := &vfE2Run{p: p, ops: map[uint64]*vfE2Op{}, cnt: map[string]int64{}, start: time.Now()}
	h := &vfE2Hist{Params: p}
	dir := filepath.Join(scratch, "data")
	_ = os.RemoveAll(dir)
	srv, err := vfStartNetServer(vfInstCfg{Dir: dir, Manual: false, NDb: 1, DBConcurrent: p.Shards, FastKeys: p.FastKeys, AofTime: p.AofTime})
	if err != nil {
		h.Incon = append(h.Incon, "cannot start the leader: "+err.Error())
		return h
	}
	r.srv, r.in = srv, srv.in
	_ = vfLogCapture.Take()
	rng := &vfRand{p.RngSeed}
	newClient := func(part int, plan vfE2ClientPlan, kp *vfE2KeyPlan) *vfE2Client {
		c := &vfE2Client{r: r, idx: len(r.clients), part: part, plan: plan, kp: kp, rng: &vfRand{rng.U64()}, holds: map[[2]int]int{}, pending: map[[2]int]bool{}}
		c.cs = r.newConn(plan.Front, c)
		switch plan.Front {
		case "bin":
			c.conn = r.dialBin(c.cs)
		case "text":
			c.conn = r.dialText(c.cs)
		default:
			c.conn = r.dialMem(c.cs)
		}
		r.clients = append(r.clients, c)
		return c
	}
	lead := newClient(-2, vfE2ClientPlan{Front: "mem"}, nil)
	var workers []*vfE2Client
	for k := range p.Keys {
		for _, cp := range p.Keys[k].Clients {
			workers = append(workers, newClient(k, cp, &p.Keys[k]))
		}
	}
	var pairSlots []uint32
	if p.Profile == "churn-pairs" {
		used := map[uint32]bool{}
		for k := range p.Keys {
			for rd := 0; rd < p.Rounds; rd++ {
				used[vfE2FastHash(vfKeyBytes(0, vfE2KeyIdx(k, rd)))%uint32(p.FastKeys)] = true
			}
		}
		for sl := uint32(0); sl < uint32(p.FastKeys) && len(pairSlots) < p.Noise/2; sl++ {
			if !used[sl] {
				pairSlots = append(pairSlots, sl)
			}
		}
	}
	for n := 0; n < p.Noise; n++ {
		c := newClient(-1, vfE2ClientPlan{Front: "mem"}, nil)
		c.noiseIdx = n
		if n/2 < len(pairSlots) {
			c.pairRole = 1 + n%2
			c.pairKeys = vfE2SlotKeys(uint32(p.FastKeys), pairSlots[n/2], 60000, 34)
			if len(c.pairKeys) < 34 {
				c.pairRole = 0
			}
		}
		workers = append(workers, c)
	}
	h.Clients = len(workers)
	histStart := r.in.dbs[0].currentTime

	for round := 0; round < p.Rounds; round++ {
		for k := range p.Keys {
			if p.Keys[k].Mode == "value" {
				// the anchor keeps the key held (and its value defined) for the whole round and beyond
				lead.do(&vfE2Op{Part: k, Round: round, Key: vfE2KeyIdx(k, round), Lid: vfE2AnchorLid + k, Kind: "lock", Count: 1000, Expried: vfE2LongExpiry})
			}
		}
		start := make(chan struct{})
		var wg sync.WaitGroup
		for _, c := range workers {
			wg.Add(1)
			go func(c *vfE2Client) {
				defer wg.Done()
				<-start
				c.runRound(round)
			}(c)
		}
		close(start)
		wg.Wait()
		if r.barrierAll() {
			r.sampleBarrier(round)
		}
	}
	mainEnd := time.Now()
	h.Drained = r.drain(lead)
	h.DrainMs = time.Since(mainEnd).Milliseconds()
	_ = r.barrierAll()
	if h.Drained {
		t := time.Now()
		r.reclaim(histStart)
		h.ReclaimMs = time.Since(t).Milliseconds()
	}
	for _, l := range vfLogCapture.Take() {
		r.count("server_error_log_lines", 1)
		if !strings.Contains(l, "push aof error") {
			r.find("C17", "server-error-log", "the server logged an internal inconsistency: %s", l)
		}
	}
	for _, c := range r.clients {
		c.conn.close()
	}
	verifHook = nil
	r.in.Close()
	for _, db := range r.in.dbs {
		db.status = STATE_CLOSE
	}
	r.mu.Lock()
	h.Ops = r.opList
	h.Foreign = r.foreign
	h.Online = r.online
	h.Incon = append(h.Incon, r.incon...)
	h.Counters = r.cnt
	r.mu.Unlock()
	h.WallMs = time.Since(r.start).Milliseconds()
	h.HookSleeps, h.HookYields = atomic.LoadInt64(&vfE2HookSleeps), atomic.LoadInt64(&vfE2HookYields)
	h.HookHits = map[string]int64{}
	for pt := 1; pt < VP_MAX; pt++ {
		if n := atomic.LoadInt64(&vfE2HookHits[pt]); n > 0 {
			name := vfPointNames[pt]
			if name == "" {
				name = fmt.Sprintf("P%d", pt)
			}
			h.HookHits[name] = n
		}
	}
	return h
}

// ---------------------------------------------------------------- key-table micro-stress

// vfE2KeyTable hammers the lock-free key table (GetOrNewLockManager / GetLockManager /
// RemoveLockManager) from many goroutines, under exactly the conditions of the server's own call
// sites (removal only of a manager without references, under its shard mutex), and checks three
// invariants no request history can violate without breaking C01 / C17:
//   1. concurrent first requests for a key all get the same manager;
//   2. a live manager handed out for a key stays reachable through the key tables;
//   3. a key that lives in the slow map is found while the fast key of its slot comes and goes.
func vfE2KeyTable(p *vfE2Params, scratch string) *vfE2Hist {
	runtime.GOMAXPROCS(p.GoMaxProcs)
	h := &vfE2Hist{Params: p, Drained: true, Counters: map[string]int64{}}
	dir := filepath.Join(scratch, "data")
	_ = os.RemoveAll(dir)
	in, err := vfNewLeader(vfInstCfg{Dir: dir, Manual: true, NDb: 1, DBConcurrent: 1, FastKeys: p.FastKeys})
	if err != nil {
		h.Incon = append(h.Incon, "cannot start the leader: "+err.Error())
		return h
	}
	db := in.dbs[0]
	slots := uint32(p.FastKeys)
	if slots > 4 {
		slots = 4
	}
	keys := vfE2SlotKeys(slots, 0, 1, 16000) // everything in slot 0 (a quarter of the 16-bit key indices at 4 slots)
	cmdOf := func(k int) *protocol.LockCommand { return &protocol.LockCommand{LockKey: vfKeyBytes(0, k)} }
	remove := func(m *LockManager, key [16]byte) {
		m.glock.Lock()
		if m.lockKey == key && atomic.LoadUint32(&m.refCount) == 0 {
			db.RemoveLockManager(m)
		}
		m.glock.Unlock()
	}
	var fmu sync.Mutex
	find := func(clause, format string, a ...interface{}) {
		fmu.Lock()
		defer fmu.Unlock()
		for _, prop := range []string{"C01", "C17"} {
			h.Online = append(h.Online, vfE2Finding{Prop: prop, Clause: clause, Detail: fmt.Sprintf(format, a...)})
		}
	}
	var stop int32
	var bg sync.WaitGroup
	for n := 0; n < 6; n++ { // other keys of the slot come and go all the time (contention on the key-table mutex)
		bg.Add(1)
		go func(n int) {
			defer bg.Done()
			for i := 0; atomic.LoadInt32(&stop) == 0; i++ {
				c := cmdOf(keys[8000+n*1000+i%1000])
				remove(db.GetOrNewLockManager(c), c.LockKey)
			}
		}(n)
	}
	rounds := 3000
	// ---- 1: concurrent first requests while the slot's fast key leaves
	for r := 0; r < rounds && len(h.Online) == 0; r++ {
		x := cmdOf(keys[15000])
		mx := db.GetOrNewLockManager(x)
		k := cmdOf(keys[r%4000])
		var got [8]*LockManager
		var wg sync.WaitGroup
		start := make(chan struct{})
		for g := 0; g < 8; g++ {
			wg.Add(1)
			go func(g int) {
				defer wg.Done()
				<-start
				got[g] = db.GetOrNewLockManager(k)
			}(g)
		}
		wg.Add(1)
		go func() {
			defer wg.Done()
			<-start
			remove(mx, x.LockKey)
		}()
		close(start)
		wg.Wait()
		h.Counters["keytable_rounds_first_requests"]++
		for g := 1; g < 8; g++ {
			if got[g] != got[0] {
				find("keytable-two-managers", "round %d: eight concurrent first requests for one key were given two different lock managers (%p in the fast slot: %v, %p in the fast slot: %v) while the slot's previous fast key was being removed; %d fast-key slots", r, got[0], db.fastLocks[0].manager == got[0], got[g], db.fastLocks[0].manager == got[g], slots)
				break
			}
		}
		seen := map[*LockManager]bool{}
		for _, m := range got {
			if m != nil && !seen[m] {
				seen[m] = true
				remove(m, k.LockKey)
			}
		}
	}
	// ---- 2: the key's manager is removed while new requests for the key arrive
	pin := cmdOf(keys[15001])
	mpin := db.GetOrNewLockManager(pin) // occupies the fast slot if it is free: the keys below live in the slow map
	for r := 0; r < rounds && len(h.Online) == 0; r++ {
		k := cmdOf(keys[4000+r%4000])
		old := db.GetOrNewLockManager(k)
		var got [4]*LockManager
		var wg sync.WaitGroup
		start := make(chan struct{})
		wg.Add(1)
		go func() {
			defer wg.Done()
			<-start
			remove(old, k.LockKey)
		}()
		for g := 0; g < 4; g++ {
			wg.Add(1)
			go func(g int) {
				defer wg.Done()
				<-start
				got[g] = db.GetOrNewLockManager(k)
			}(g)
		}
		close(start)
		wg.Wait()
		h.Counters["keytable_rounds_remove_vs_request"]++
		reach := db.GetLockManager(k)
		seen := map[*LockManager]bool{}
		for g, m := range got {
			if seen[m] {
				continue
			}
			seen[m] = true
			if atomic.LoadUint32(&m.refCount) != 0xffffffff && m.lockKey == k.LockKey && m != reach {
				find("keytable-unreachable-manager", "round %d: request %d was given lock manager %p for the key (live, key matches) but a look-up of the key now yields %p: the manager is unreachable (its key's old manager was being removed at the same time); %d fast-key slots", r, g, m, reach, slots)
				break
			}
		}
		for m := range seen {
			remove(m, k.LockKey)
		}
	}
	atomic.StoreInt32(&stop, 1)
	bg.Wait()
	remove(mpin, pin.LockKey)
	// ---- 3: a slow-map key must be found while fast keys of its slot are created and removed
	if len(h.Online) == 0 {
		pin2 := cmdOf(keys[15002])
		mp := db.GetOrNewLockManager(pin2)
		k := cmdOf(keys[15003])
		mk := db.GetOrNewLockManager(k) // created while the slot is taken: slow map; stays alive for the whole scenario
		remove(mp, pin2.LockKey)
		var stop3 int32
		var wg sync.WaitGroup
		for n := 0; n < 3; n++ {
			wg.Add(1)
			go func(n int) {
				defer wg.Done()
				for i := 0; atomic.LoadInt32(&stop3) == 0; i++ {
					c := cmdOf(keys[8000+n*1000+i%1000])
					remove(db.GetOrNewLockManager(c), c.LockKey)
				}
			}(n)
		}
		var miss int64
		var lookups int64
		for g := 0; g < 4; g++ {
			wg.Add(1)
			go func() {
				defer wg.Done()
				for i := 0; i < 400000 && atomic.LoadInt64(&miss) == 0; i++ {
					atomic.AddInt64(&lookups, 1)
					if m := db.GetLockManager(k); m != mk {
						atomic.AddInt64(&miss, 1)
						find("keytable-lookup-miss", "a look-up of a key whose manager %p lives in the slow map (and is never removed) returned %p while fast keys of the same slot were being created and removed; %d fast-key slots", mk, m, slots)
						return
					}
				}
				atomic.StoreInt32(&stop3, 1)
			}()
		}
		wg.Wait()
		atomic.StoreInt32(&stop3, 1)
		h.Counters["keytable_lookups_under_churn"] = lookups
		remove(mk, k.LockKey)
	}
	h.Counters["keytable_stress_runs"] = 1
	in.Close()
	return h
}

// ---------------------------------------------------------------- offline judges

type vfE2LinOpIn struct {
	Op     string `json:"op"`
	Lid    int    `json:"lid"`
	Count  int    `json:"count"`
	Rcount int    `json:"rcount"`
	Arg    string `json:"arg,omitempty"`
	Num    int64  `json:"num,omitempty"`
}
type vfE2LinOpOut struct {
	Res  string `json:"res"`
	Prev string `json:"prev,omitempty"`
}
type vfE2LinOp struct {
	Id     uint64       `json:"id"`
	Client int          `json:"client"`
	Call   int64        `json:"call"`
	Ret    int64        `json:"ret"`
	In     vfE2LinOpIn  `json:"in"`
	Out    vfE2LinOpOut `json:"out"`
}
type vfE2LinPart struct {
	Name  string      `json:"name"`
	Model string      `json:"model"`
	Ops   []vfE2LinOp `json:"ops"`
}
type vfE2LinIn struct {
	TimeoutS   int           `json:"timeout_s"`
	Partitions []vfE2LinPart `json:"partitions"`
}
type vfE2LinResult struct {
	Name   string   `json:"name"`
	Model  string   `json:"model"`
	Result string   `json:"result"`
	Ops    int      `json:"ops"`
	Open   int      `json:"open"`
	Ms     int64    `json:"ms"`
	Stuck  []uint64 `json:"stuck"`
	Placed int      `json:"placed"`
}

type vfE2Verdict struct {
	Findings []vfE2Finding
	Cnt      map[string]int64
	Trace    uint64
	Incon    []string
}

func (v *vfE2Verdict) find(prop, clause, format string, a ...interface{}) {
	if len(v.Findings) < 60 {
		v.Findings = append(v.Findings, vfE2Finding{Prop: prop, Clause: clause, Detail: fmt.Sprintf(format, a...)})
	}
}

func vfE2IsNotHeld(res uint8) bool {
	return res == protocol.RESULT_UNLOCK_ERROR || res == protocol.RESULT_UNOWN_ERROR
}

// vfE2Judge runs every offline checker over a recorded history. linchk = path
// of the porcupine checker binary ("" = skip the linearizability checks).
func vfE2Judge(h *vfE2Hist, linchk string, scratch string) *vfE2Verdict {
	v := &vfE2Verdict{Cnt: map[string]int64{}}
	p := h.Params
	complete := h.Drained && len(h.Incon) == 0
	ops := append([]*vfE2Op(nil), h.Ops...)
	sort.Slice(ops, func(i, j int) bool { return ops[i].Call < ops[j].Call })
	byId := map[uint64]*vfE2Op{}
	for _, op := range ops {
		byId[op.Id] = op
	}

	// ---- C03: reply ledger
	trace := uint64(len(ops))
	for _, op := range ops {
		v.Cnt["ops"]++
		v.Cnt["ops_"+op.Front]++
		var terms, notices []*vfE2Reply
		for i := range op.Replies {
			if op.Replies[i].Result == protocol.RESULT_EXPRIED {
				notices = append(notices, &op.Replies[i])
			} else {
				terms = append(terms, &op.Replies[i])
			}
		}
		v.Cnt["replies"] += int64(len(op.Replies))
		if op.GaveUp {
			v.Cnt["client_gave_up"]++
		}
		if len(terms) == 0 {
			v.Cnt["open_requests"]++
			if complete {
				v.find("C03", "no-terminal-reply", "request never got a terminal reply although the server's census shows it neither held nor queued and no reply path is running: %s", op.String())
			}
		}
		if len(terms) > 1 {
			v.find("C03", "double-reply", "request got %d terminal replies: %s", len(terms), op.String())
		}
		if len(notices) > 1 {
			v.find("C03", "double-expiry-notice", "request drew %d EXPRIED notices: %s", len(notices), op.String())
		}
		if len(notices) > 0 {
			v.Cnt["expiry_notices"]++
			granted := false
			for _, t := range terms {
				if t.Result == protocol.RESULT_SUCCED {
					granted = true
				}
			}
			if op.Kind != "lock" || op.Expried == 0 || (len(terms) > 0 && !granted) {
				v.find("C03", "notice-without-grant", "EXPRIED notice under the RequestId of a request that was not granted a hold: %s", op.String())
			}
			if len(terms) > 0 && notices[0].Ts < terms[0].Ts {
				v.Cnt["notice_received_before_grant_reply"]++
			}
		}
		for i := range op.Replies {
			rp := &op.Replies[i]
			if op.Front == "text" && rp.Result == protocol.RESULT_ERROR && rp.Lid == -1 {
				continue // already reported as text-reply-mismatch
			}
			if rp.Lid != op.Lid || rp.Key != op.Key {
				v.find("C03", "reply-fields-mismatch", "reply under this RequestId names key %d / LockId %d: %s", rp.Key, rp.Lid, op.String())
			}
		}
		res := uint64(0xff)
		if len(terms) > 0 {
			t := terms[0]
			res = uint64(t.Result)
			async := t.Ts > op.Submitted && op.Front == "mem"
			switch {
			case op.Kind == "lock" && t.Result == protocol.RESULT_SUCCED && op.Expried > 0:
				v.Cnt["grants"]++
				if async {
					v.Cnt["grants_from_queue"]++
				}
			case op.Kind == "lock" && t.Result == protocol.RESULT_SUCCED:
				v.Cnt["probes_granted"]++
			case op.Kind == "lock" && t.Result == protocol.RESULT_TIMEOUT:
				v.Cnt["lock_timeouts"]++
				if async {
					v.Cnt["lock_timeouts_from_queue"]++
				}
			case op.Kind == "lock":
				v.Cnt["lock_refused_other"]++
			case t.Result == protocol.RESULT_SUCCED:
				v.Cnt["unlocks"]++
			case vfE2IsNotHeld(t.Result):
				v.Cnt["unlocks_not_held"]++
			}
		}
		trace = vfMix(trace ^ uint64(op.Client)<<32 ^ res<<8 ^ uint64(len(op.Replies))<<16 ^ uint64(op.Lid)<<40)
	}
	v.Trace = trace
	for i, f := range h.Foreign {
		if i < 5 {
			owner := "nobody in this history"
			if f.Owner >= 0 {
				owner = fmt.Sprintf("client %d", f.Owner)
			}
			v.find("C03", "foreign-request-id", "connection %d received a %s reply with a RequestId it did not send (request %d of %s; key %d LockId %d)", f.Conn, vfResName(f.Result), f.Req, owner, f.Key, f.Lid)
		}
	}
	v.Cnt["foreign_replies"] = int64(len(h.Foreign))
	v.Findings = append(v.Findings, h.Online...)

	// ---- C01: definite holders
	byKey := map[int][]*vfE2Op{}
	for _, op := range ops {
		byKey[op.Key] = append(byKey[op.Key], op)
	}
	keys := make([]int, 0, len(byKey))
	for k := range byKey {
		keys = append(keys, k)
	}
	sort.Ints(keys)
	const inf = int64(1) << 62
	for _, key := range keys {
		kops := byKey[key]
		bound := 1
		if part := kops[0].Part; part >= 0 && part < len(p.Keys) {
			bound = int(p.Keys[part].Count) + 1
			if p.Keys[part].Mode == "mixed" {
				bound = 3
			}
			if p.Keys[part].Mode == "value" {
				bound = int(p.Keys[part].Count) + 1 // the anchor (Count 1000) is one of the c+1
			}
		}
		// unl: the requests that may end (or shorten) a hold of the LockId: unlocks, and
		// re-locks that put the whole hold on a short expiry
		unl := map[int][]*vfE2Op{}
		for _, op := range kops {
			if op.Kind == "unlock" || (op.Expried > 0 && (op.Expried != vfE2LongExpiry || op.EFlag != 0)) {
				unl[op.Lid] = append(unl[op.Lid], op)
			}
		}
		// a LockId that ever asked for a short expiry on this key is left out of the definite rules: a
		// re-entrant re-lock keeps the record in the wheel of the first grant's unit, so even a later
		// 600 s re-lock of such a hold may end early (expiry is C06's business, not judged here)
		tainted := map[int]bool{}
		for _, op := range kops {
			if op.Kind == "lock" && op.Expried > 0 && (op.Expried != vfE2LongExpiry || op.EFlag != 0) {
				tainted[op.Lid] = true
			}
		}
		type iv struct {
			s, e int64
			g    *vfE2Op
		}
		perLid := map[int][]iv{}
		for _, g := range kops {
			t := g.terminal()
			if g.Kind != "lock" || g.Expried != vfE2LongExpiry || g.EFlag != 0 || t == nil || t.Result != protocol.RESULT_SUCCED || tainted[g.Lid] || g.notice() != nil {
				if g.Part == -1 && !g.Drain && g.Kind == "lock" && t != nil && t.Result != protocol.RESULT_SUCCED {
					v.find("C01", "solo-lock-refused", "a lock request on a key nobody else uses was answered %s: %s", vfResName(t.Result), g.String())
				}
				continue
			}
			end := inf
			definite := true
			for _, u := range unl[g.Lid] {
				if ut := u.terminal(); ut != nil && ut.Ts < g.Call {
					continue // answered before this lock was sent: it cannot have touched this hold
				}
				if u.Call <= t.Ts {
					// in flight together with the lock (a client that gave up waiting for the reply went on):
					// the server may have executed it after the lock, so the hold is not definite at any time
					definite = false
					break
				}
				if u.Call < end {
					end = u.Call
				}
			}
			if !definite {
				v.Cnt["holds_not_definite_(unlock_in_flight_with_the_lock)"]++
				continue
			}
			perLid[g.Lid] = append(perLid[g.Lid], iv{t.Ts, end, g})
		}
		type ev struct {
			ts int64
			d  int
			g  *vfE2Op
		}
		var evs []ev
		for _, ivs := range perLid {
			sort.Slice(ivs, func(i, j int) bool { return ivs[i].s < ivs[j].s })
			cur := ivs[0]
			for _, x := range ivs[1:] {
				if x.s <= cur.e {
					if x.e > cur.e {
						cur.e = x.e
					}
					continue
				}
				evs = append(evs, ev{cur.s, 1, cur.g}, ev{cur.e, -1, cur.g})
				cur = x
			}
			evs = append(evs, ev{cur.s, 1, cur.g}, ev{cur.e, -1, cur.g})
		}
		sort.Slice(evs, func(i, j int) bool {
			if evs[i].ts != evs[j].ts {
				return evs[i].ts < evs[j].ts
			}
			return evs[i].d < evs[j].d
		})
		n, reported := 0, false
		active := map[*vfE2Op]bool{}
		for _, e := range evs {
			if e.d > 0 {
				n++
				active[e.g] = true
				if n >= 2 {
					v.Cnt["definite_overlaps_seen"]++
				}
				if int64(n) > v.Cnt["max_definite_holders"] {
					v.Cnt["max_definite_holders"] = int64(n)
				}
				if n > bound && !reported {
					reported = true
					s := ""
					for g := range active {
						s += "\n    " + g.String()
					}
					v.find("C01", "definite-overlap", "key %d: %d LockIds definitely held the key at logical time %d (each SUCCED reply received, none of them being unlocked yet) but the Count rule allows at most %d:%s", key, n, e.ts, bound, s)
				}
			} else {
				n--
				delete(active, e.g)
			}
		}
		// an UNLOCK of a hold that is definitely outstanding must succeed
		for lid, us := range unl {
			for _, u := range us {
				ut := u.terminal()
				if u.Kind != "unlock" || ut == nil || !vfE2IsNotHeld(ut.Result) {
					continue
				}
				var g *vfE2Op
				var gts int64
				for _, c := range kops {
					ct := c.terminal()
					if c.Kind == "lock" && c.Lid == lid && !tainted[lid] && c.notice() == nil && c.Expried == vfE2LongExpiry && c.EFlag == 0 && ct != nil && ct.Result == protocol.RESULT_SUCCED && ct.Ts < u.Call && ct.Ts > gts {
						g, gts = c, ct.Ts
					}
				}
				if g == nil {
					continue
				}
				clear := true
				for _, o := range us {
					if o == u {
						continue
					}
					oret := inf
					if ot := o.terminal(); ot != nil {
						oret = ot.Ts
					}
					if oret > g.Call && o.Call < ut.Ts { // o may have been executed after the grant (whose request was sent at g.Call)
						clear = false
					}
				}
				if clear {
					v.find("C01", "held-unlock-refused", "UNLOCK of a hold that was definitely outstanding (granted by request %d at logical time %d, %d s expiry, no other unlock or short-expiry re-lock of this LockId in between) was answered %s: %s", g.Id, gts, vfE2LongExpiry, vfResName(ut.Result), u.String())
				}
				v.Cnt["refused_unlocks_judged"]++
			}
		}
	}

	// ---- porcupine
	if linchk == "" {
		return v
	}
	in := vfE2LinIn{TimeoutS: 60}
	partsOf := map[int]*vfE2LinPart{}
	model := ""
	switch p.Prop {
	case "C01":
		model = "lock"
	case "C15":
		model = "register"
	}
	if model == "" {
		return v
	}
	for _, op := range ops {
		if op.Part < 0 || op.Part >= len(p.Keys) {
			continue
		}
		if model == "register" && p.Keys[op.Part].Mode != "value" {
			continue
		}
		lp := partsOf[op.Key]
		if lp == nil {
			lp = &vfE2LinPart{Name: fmt.Sprintf("key%d(p%d,r%d)", op.Key, op.Part, op.Round), Model: model}
			partsOf[op.Key] = lp
		}
		t := op.terminal()
		lo := vfE2LinOp{Id: op.Id, Client: op.Client, Call: op.Call, Ret: -1}
		lo.In = vfE2LinOpIn{Lid: op.Lid, Count: int(op.Count), Rcount: int(op.Rcount)}
		if t != nil {
			lo.Ret = t.Ts
		}
		if model == "lock" {
			switch {
			case op.Kind == "lock" && op.Expried == 0:
				lo.In.Op = "probe"
			case op.Kind == "lock":
				lo.In.Op = "lock"
			default:
				lo.In.Op = "unlock"
			}
			lo.Out.Res = "other"
			if t != nil {
				if t.Result == protocol.RESULT_SUCCED {
					lo.Out.Res = "ok"
				} else if op.Kind == "unlock" && vfE2IsNotHeld(t.Result) {
					lo.Out.Res = "notheld"
				}
			}
			lp.Ops = append(lp.Ops, lo)
			if n := op.notice(); n != nil {
				lp.Ops = append(lp.Ops, vfE2LinOp{Id: op.Id | 1<<62, Client: op.Client, Call: op.Call, Ret: n.Ts, In: vfE2LinOpIn{Op: "expire", Lid: op.Lid}, Out: vfE2LinOpOut{Res: "ok"}})
			}
			continue
		}
		lo.In.Op = "none"
		if d := op.Data; d != nil {
			switch d.Type {
			case protocol.LOCK_DATA_COMMAND_TYPE_SET:
				lo.In.Op, lo.In.Arg = "set", string(d.Val)
			case protocol.LOCK_DATA_COMMAND_TYPE_APPEND:
				lo.In.Op, lo.In.Arg = "append", string(d.Val)
			case protocol.LOCK_DATA_COMMAND_TYPE_INCR:
				lo.In.Op, lo.In.Num = "incr", d.Num
			case protocol.LOCK_DATA_COMMAND_TYPE_SHIFT:
				lo.In.Op, lo.In.Num = "shift", d.Num
			case protocol.LOCK_DATA_COMMAND_TYPE_UNSET:
				lo.In.Op = "unset"
			}
		}
		lo.Out.Res = "other"
		if t != nil && t.Result == protocol.RESULT_SUCCED {
			lo.Out.Res = "ok"
			lo.Out.Prev = "A"
			if t.HasVal {
				lo.Out.Prev = t.Val
				if strings.HasPrefix(t.Val, "?") {
					v.find("C15", "malformed-value", "a SUCCED reply carries a malformed / unexpected value frame (%s): %s", t.Val, op.String())
				}
			}
			v.Cnt["value_replies_checked"]++
			if op.Data != nil {
				v.Cnt["value_ops_applied"]++
			}
		}
		lp.Ops = append(lp.Ops, lo)
	}
	pkeys := make([]int, 0, len(partsOf))
	for k := range partsOf {
		pkeys = append(pkeys, k)
	}
	sort.Ints(pkeys)
	for _, k := range pkeys {
		in.Partitions = append(in.Partitions, *partsOf[k])
		if n := int64(len(partsOf[k].Ops)); n > v.Cnt["max_partition_ops"] {
			v.Cnt["max_partition_ops"] = n
		}
	}
	if len(in.Partitions) == 0 {
		return v
	}
	v.Cnt["partitions"] = int64(len(in.Partitions))
	inFile := filepath.Join(scratch, fmt.Sprintf("lin-%s-%d.in.json", p.Prop, p.Case))
	outFile := filepath.Join(scratch, fmt.Sprintf("lin-%s-%d.out.json", p.Prop, p.Case))
	b, _ := json.Marshal(in)
	_ = os.WriteFile(inFile, b, 0644)
	defer os.Remove(inFile)
	defer os.Remove(outFile)
	cmd := exec.Command(linchk, inFile, outFile)
	done := make(chan error, 1)
	var outb []byte
	go func() {
		var e error
		outb, e = cmd.CombinedOutput()
		done <- e
	}()
	var runErr error
	select {
	case runErr = <-done:
	case <-time.After(time.Duration(in.TimeoutS+45) * time.Second):
		if cmd.Process != nil {
			_ = cmd.Process.Kill()
		}
		runErr = fmt.Errorf("checker killed after %d s", in.TimeoutS+45)
		<-done
	}
	var out struct {
		Results []vfE2LinResult `json:"results"`
	}
	rb, rerr := os.ReadFile(outFile)
	if runErr != nil || rerr != nil || json.Unmarshal(rb, &out) != nil {
		v.Cnt["porcupine_unknown"] += int64(len(in.Partitions))
		v.Incon = append(v.Incon, fmt.Sprintf("linearizability checker produced no result (%v): %s", runErr, vfTrunc(string(outb), 300)))
		return v
	}
	for _, lr := range out.Results {
		switch lr.Result {
		case "ok":
			v.Cnt["porcupine_ok"]++
		case "illegal":
			v.Cnt["porcupine_illegal"]++
			s := ""
			for _, id := range lr.Stuck {
				if op := byId[id&^(1<<62)]; op != nil {
					if id&(1<<62) != 0 {
						s += "\n    (its EXPRIED notice) "
					} else {
						s += "\n    "
					}
					s += op.String()
				}
			}
			if model == "lock" {
				v.find("C01", "not-linearizable", "partition %s (%d operations): no linearization against the counting-lock model (a SUCCED grant that is not admissible, an UNLOCK refused for a held LockId, or an UNLOCK / notice for a LockId that does not hold); longest consistent prefix places %d operations; earliest operations outside it:%s", lr.Name, lr.Ops, lr.Placed, s)
			} else {
				v.find("C15", "register-not-linearizable", "partition %s (%d operations): the values carried by the SUCCED replies are not the values of any sequential execution (each reply must carry the value from immediately before its operation); longest consistent prefix places %d operations; earliest operations outside it:%s", lr.Name, lr.Ops, lr.Placed, s)
			}
		default:
			v.Cnt["porcupine_unknown"]++
			v.Incon = append(v.Incon, fmt.Sprintf("linearizability check of partition %s (%d operations) timed out", lr.Name, lr.Ops))
		}
		v.Cnt["porcupine_ms"] += lr.Ms
	}
	return v
}

// ---------------------------------------------------------------- child process: one history

type vfE2ChildOut struct {
	Part *vfPart `json:"part"`
}

// vfE2Report turns the verdict on one history into counters / violations of part.
func vfE2Report(env *vfEnv, part *vfPart, h *vfE2Hist, v *vfE2Verdict, replayPath string) {
	p := h.Params
	prop := p.Prop
	part.Add("e2_histories", 1)
	for k, n := range v.Cnt {
		if strings.HasPrefix(k, "max_") {
			part.Max("max_e2_"+k[4:], n)
		} else {
			part.Add("e2_"+k, n)
		}
	}
	for k, n := range h.Counters {
		part.Add("e2_"+k, n)
	}
	for k, n := range h.HookHits {
		part.Add("e2_hit_"+k, n)
	}
	part.Add("e2_hook_sleeps", h.HookSleeps)
	part.Add("e2_hook_yields", h.HookYields)
	part.Max("max_e2_concurrent_clients", int64(h.Clients))
	part.Add("e2_wall_ms", h.WallMs)
	part.Add("e2_drain_ms", h.DrainMs)
	part.Add("e2_reclaim_ms", h.ReclaimMs)
	part.Add(fmt.Sprintf("e2_gomaxprocs_%d", p.GoMaxProcs), 1)
	for _, kp := range p.Keys {
		part.Add("e2_keys_mode_"+kp.Mode, 1)
	}
	if p.Profile != "" {
		part.Add("e2_histories_profile_"+p.Profile, 1)
	}
	part.Mark("e2_traces", v.Trace)
	incon := append(append([]string(nil), h.Incon...), v.Incon...)
	if len(incon) > 0 {
		part.Add("e2_histories_inconclusive", 1)
		part.mu.Lock()
		if len(part.Inconclusive) < 10 {
			part.Inconclusive = append(part.Inconclusive, fmt.Sprintf("E2 %s case %d: %s", prop, p.Case, strings.Join(incon, "; ")))
		}
		part.mu.Unlock()
	} else {
		part.Add("e2_histories_complete", 1)
		part.Mark("e2_nontrivial", v.Trace)
	}
	wrote := replayPath
	seen := map[string]bool{}
	for _, f := range v.Findings {
		if f.Prop != prop {
			part.Add("e2_other_property_findings_"+f.Prop+"_"+f.Clause, 1)
			continue
		}
		if seen[f.Clause] {
			continue // one witness per clause and history
		}
		seen[f.Clause] = true
		if wrote == "" {
			// the replay keeps every operation on the shared keys; of the noise clients' private keys
			// (tens of thousands of uneventful probes) only those on which something but SUCCED happened
			hh := *h
			hh.Ops = nil
			odd := map[int]bool{}
			for _, op := range h.Ops {
				if t := op.terminal(); op.Part < 0 && (t == nil || t.Result != protocol.RESULT_SUCCED || len(op.Replies) > 1) {
					odd[op.Key] = true
				}
			}
			omitted := 0
			for _, op := range h.Ops {
				if op.Part >= 0 || odd[op.Key] {
					hh.Ops = append(hh.Ops, op)
				} else {
					omitted++
				}
			}
			doc := map[string]interface{}{"engine": "E2", "property": prop, "case": p.Case, "seed": p.Seed, "history": &hh, "findings": v.Findings, "uneventful_noise_operations_omitted": omitted}
			wrote = vfWriteReplay(env, fmt.Sprintf("e2-case%d.json", p.Case), doc)
		}
		part.Violate(vfViolation{Prop: prop, Clause: "e2/" + f.Clause, Detail: f.Detail, Case: p.Case, Replay: wrote})
	}
}

// TestVerif_E2Child runs one history (parameters in $VERIF_E2_PARAMS) and
// writes its part to $VERIF_E2_OUT. Not a check by itself.
func TestVerif_E2Child(t *testing.T) {
	pf := os.Getenv("VERIF_E2_PARAMS")
	if pf == "" {
		return
	}
	b, err := os.ReadFile(pf)
	if err != nil {
		fmt.Println("HARNESS-ERROR: cannot read parameters:", err)
		return
	}
	p := &vfE2Params{}
	if err := json.Unmarshal(b, p); err != nil {
		fmt.Println("HARNESS-ERROR: bad parameters:", err)
		return
	}
	env := vfGetEnv(p.Prop)
	part := vfNewPart()
	part.known = vfLoadKnown(env)
	var h *vfE2Hist
	if p.Profile == "keytable" {
		h = vfE2KeyTable(p, env.Scratch)
	} else {
		h = vfE2RunHistory(p, env.Scratch)
	}
	v := vfE2Judge(h, os.Getenv("VERIF_E2_LINCHK"), env.Scratch)
	vfE2Report(env, part, h, v, "")
	ob, _ := json.Marshal(&vfE2ChildOut{Part: part})
	if err := os.WriteFile(os.Getenv("VERIF_E2_OUT"), ob, 0644); err != nil {
		fmt.Println("HARNESS-ERROR: cannot write the result:", err)
	}
}

// ---------------------------------------------------------------- parent: the stage

var vfE2LinchkOnce sync.Once
var vfE2LinchkPath string
var vfE2LinchkErr string

// vfE2EnsureLinchk builds /verif/tools/linchk (own module, porcupine v1.3.0 from
// the module cache) into /verif/.build/linchk when the binary is missing or older
// than its sources.
func vfE2EnsureLinchk(env *vfEnv) (string, string) {
	vfE2LinchkOnce.Do(func() {
		src := filepath.Join(env.Verif, "tools", "linchk")
		bin := filepath.Join(env.Verif, ".build", "linchk")
		fresh := false
		if bs, err := os.Stat(bin); err == nil {
			fresh = true
			for _, f := range []string{"main.go", "go.mod"} {
				if ss, err := os.Stat(filepath.Join(src, f)); err != nil || ss.ModTime().After(bs.ModTime()) {
					fresh = false
				}
			}
		}
		if !fresh {
			_ = os.MkdirAll(filepath.Dir(bin), 0755)
			tmp := fmt.Sprintf("%s.%d.tmp", bin, os.Getpid())
			cmd := exec.Command("go", "build", "-o", tmp, ".")
			cmd.Dir = src
			cmd.Env = append(os.Environ(), "GOFLAGS=-mod=mod", "GOPROXY=off", "GOSUMDB=off", "GOTOOLCHAIN=local")
			out, err := cmd.CombinedOutput()
			if err != nil {
				vfE2LinchkErr = fmt.Sprintf("cannot build tools/linchk: %v: %s", err, vfTrunc(string(out), 600))
				return
			}
			if err := os.Rename(tmp, bin); err != nil {
				vfE2LinchkErr = "cannot install linchk: " + err.Error()
				return
			}
		}
		vfE2LinchkPath = bin
	})
	return vfE2LinchkPath, vfE2LinchkErr
}

func vfE2IsReplay(path string) bool {
	if path == "" {
		return false
	}
	b, err := os.ReadFile(path)
	if err != nil {
		return false
	}
	var doc struct {
		Engine string `json:"engine"`
	}
	return json.Unmarshal(b, &doc) == nil && doc.Engine == "E2"
}

// vfE2RunChild runs one history in a child process and merges its part.
func vfE2RunChild(env *vfEnv, p *vfE2Params, linchk string, tag string, part *vfPart, mu *sync.Mutex) {
	dir := filepath.Join(env.Scratch, fmt.Sprintf("e2-%s-%d%s", p.Prop, p.Case, tag))
	_ = os.RemoveAll(dir)
	_ = os.MkdirAll(dir, 0755)
	defer os.RemoveAll(dir)
	pf, of, lf := filepath.Join(dir, "params.json"), filepath.Join(dir, "out.json"), filepath.Join(dir, "child.log")
	pb, _ := json.Marshal(p)
	_ = os.WriteFile(pf, pb, 0644)
	logf, _ := os.Create(lf)
	bin := os.Args[0]
	if rb := os.Getenv("VERIF_E2_RACE_BIN"); rb != "" && p.Case%2 == 1 {
		// optional second build of the test binary with -race: used for every other history
		// (scheduling perturbation + evidence; race reports never decide)
		if _, serr := os.Stat(rb); serr == nil {
			bin = rb
			part.Add("e2_histories_race_build", 1)
		}
	}
	cmd := exec.Command(bin, "-test.run", "^TestVerif_E2Child$", "-test.timeout", "0")
	cmd.Dir = dir
	cmd.Env = append(os.Environ(), "VERIF_E2_PARAMS="+pf, "VERIF_E2_OUT="+of, "VERIF_E2_LINCHK="+linchk, "VERIF_SCRATCH="+dir, "VERIF_PROP="+p.Prop, "VERIF_REPLAYS="+env.Replays, "VERIF_EVIDENCE="+env.Evidence,
		fmt.Sprintf("GOMAXPROCS=%d", p.GoMaxProcs), "VERIF_SHARD=", "VERIF_REPLAY=", "GORACE=halt_on_error=0")
	cmd.Stdout, cmd.Stderr = logf, logf
	err := cmd.Start()
	timedOut := false
	if err == nil {
		done := make(chan error, 1)
		go func() { done <- cmd.Wait() }()
		select {
		case err = <-done:
		case <-time.After(vfE2ChildWatch):
			timedOut = true
			_ = cmd.Process.Kill()
			err = <-done
		}
	}
	_ = logf.Close()
	lb, _ := os.ReadFile(lf)
	log := string(lb)
	mu.Lock()
	defer mu.Unlock()
	if n := strings.Count(log, "WARNING: DATA RACE"); n > 0 {
		// evidence only: the pinned suite is not race-clean
		part.Add("e2_race_reports", int64(n))
		for _, blk := range strings.Split(log, "WARNING: DATA RACE")[1:] {
			part.Mark("e2_race_pairs", vfStrHash(vfE2RaceKey(blk)))
		}
	}
	ob, rerr := os.ReadFile(of)
	if rerr == nil {
		out := &vfE2ChildOut{Part: vfNewPart()}
		if json.Unmarshal(ob, out) == nil && out.Part != nil {
			out.Part.Cases = 0
			part.Merge(out.Part)
			part.unknownViol += len(out.Part.Violations)
			return
		}
	}
	if timedOut {
		part.Add("e2_histories_inconclusive", 1)
		part.Inconclusive = append(part.Inconclusive, fmt.Sprintf("E2 %s case %d: child process watchdog (%v)", p.Prop, p.Case, vfE2ChildWatch))
		return
	}
	if vfCrashInRepo(log) {
		sig := vfCrashSig(log)
		rp := vfWriteReplay(env, fmt.Sprintf("e2-crash-case%d.json", p.Case), map[string]interface{}{"engine": "E2", "property": p.Prop, "case": p.Case, "seed": p.Seed, "history": &vfE2Hist{Params: p}, "crash": vfTrunc(vfPanicHead(log), 4000)})
		part.Violate(vfViolation{Prop: p.Prop, Clause: "e2/crash", Detail: "server code crashed the process during a concurrent history: " + sig, Case: p.Case, Replay: rp, Sig: "crash:" + sig})
		part.Add("e2_child_crashes", 1)
		return
	}
	tail := log
	if len(tail) > 3000 {
		tail = tail[len(tail)-3000:]
	}
	part.Harness = append(part.Harness, fmt.Sprintf("E2 %s case %d: child ended without a result (%v); output tail:\n%s", p.Prop, p.Case, err, tail))
}

// vfE2RaceKey: the top frames of the two accesses of a race report.
func vfE2RaceKey(blk string) string {
	var fr []string
	lines := strings.Split(blk, "\n")
	for i, l := range lines {
		if (strings.Contains(l, " by goroutine ") || strings.Contains(l, " by main goroutine")) && i+1 < len(lines) {
			f := strings.TrimSpace(lines[i+1])
			if k := strings.LastIndex(f, "("); k > 0 {
				f = f[:k]
			}
			fr = append(fr, f)
		}
		if len(fr) == 2 {
			break
		}
	}
	sort.Strings(fr)
	return strings.Join(fr, " | ")
}

// vfE2Stage runs the concurrent stage for property prop ("C01", "C03", "C15" or "C17"),
// adds its counters / distinct sets to part and reports violations with part.Violate.
func vfE2Stage(env *vfEnv, prop string, part *vfPart) {
	switch prop {
	case "C01", "C03", "C15", "C17":
	default:
		return
	}
	if env.Shard >= 0 {
		return // shard children of the sequential engine do not run the stage
	}
	linchk, lerr := "", ""
	if prop == "C01" || prop == "C15" {
		linchk, lerr = vfE2EnsureLinchk(env)
		if lerr != "" {
			part.Harness = append(part.Harness, lerr)
			return
		}
	}
	var mu sync.Mutex
	if env.Replay != "" {
		if !vfE2IsReplay(env.Replay) {
			return
		}
		b, _ := os.ReadFile(env.Replay)
		var doc struct {
			History *vfE2Hist `json:"history"`
		}
		if json.Unmarshal(b, &doc) != nil || doc.History == nil || doc.History.Params == nil {
			part.Harness = append(part.Harness, "cannot parse the E2 replay file "+env.Replay)
			return
		}
		h := doc.History
		h.Params.Prop = prop
		// 1. re-judge the recorded history; 2. re-run its parameters a few times
		if len(h.Ops) > 0 {
			v := vfE2Judge(h, linchk, env.Scratch)
			vfE2Report(env, part, h, v, env.Replay)
			part.Add("e2_replay_rejudged", 1)
		}
		for i := 0; i < 4; i++ {
			vfE2RunChild(env, h.Params, linchk, fmt.Sprintf("-rerun%d", i), part, &mu)
			part.Add("e2_replay_reruns", 1)
		}
		// a replay run consists of this stage only: its histories are the evaluated cases
		part.Cases += int(part.Counters["e2_histories"])
		for _, hsh := range append([]uint64(nil), part.Distinct["e2_nontrivial"]...) {
			part.Mark("nontrivial", hsh)
			part.Mark("nontrivial", hsh^1) // re-runs of one parameter set count as one case each
		}
		return
	}
	n := env.N(18, 400)
	workers := 8
	if env.Thorough() {
		workers = 10
	}
	if w := os.Getenv("VERIF_E2_WORKERS"); w != "" {
		if x, err := strconv.Atoi(w); err == nil && x > 0 {
			workers = x
		}
	}
	jobs := make(chan int)
	var wg sync.WaitGroup
	for w := 0; w < workers; w++ {
		wg.Add(1)
		go func() {
			defer wg.Done()
			for i := range jobs {
				vfE2RunChild(env, vfE2Plan(env.Seed, prop, i), linchk, "", part, &mu)
			}
		}()
	}
	for i := 0; i < n; i++ {
		mu.Lock()
		stop := part.unknownViol >= 20
		mu.Unlock()
		if stop {
			break
		}
		jobs <- i
	}
	close(jobs)
	wg.Wait()
}

// TestVerif_E2 runs the stage for each of its properties and prints a summary
// (development / validation entry point; the checks call vfE2Stage themselves).
func TestVerif_E2(t *testing.T) {
	props := strings.Fields(os.Getenv("VERIF_E2_PROPS"))
	if len(props) == 0 {
		props = []string{"C01", "C03", "C15", "C17"}
	}
	worst := 0
	for _, prop := range props {
		start := time.Now()
		env := vfGetEnv(prop)
		env.Evidence = filepath.Join(filepath.Dir(env.Evidence), "E2-"+prop+".json")
		env.Replays = filepath.Join(env.Replays, prop)
		part := vfNewPart()
		part.known = vfLoadKnown(env)
		vfE2Stage(env, prop, part)
		keys := make([]string, 0, len(part.Counters))
		for k := range part.Counters {
			keys = append(keys, k)
		}
		sort.Strings(keys)
		var sb strings.Builder
		for _, k := range keys {
			fmt.Fprintf(&sb, " %s=%d", strings.TrimPrefix(k, "e2_"), part.Counters[k])
		}
		fmt.Printf("E2-COUNTERS property=%s%s\n", prop, sb.String())
		classes := map[string]int{}
		for _, v := range part.Violations {
			classes[v.Clause]++
		}
		for i, v := range part.Violations {
			if i < 6 {
				fmt.Printf("VIOLATION property=%s replay=%s clause=%s detail=%q\n", v.Prop, v.Replay, v.Clause, vfTrunc(v.Detail, 900))
			}
		}
		for _, l := range part.Inconclusive {
			fmt.Printf("NOTE: inconclusive: %s\n", vfTrunc(l, 600))
		}
		for _, l := range part.Harness {
			fmt.Printf("HARNESS-ERROR: %s\n", vfTrunc(l, 3000))
		}
		verdict := 0
		switch {
		case len(part.Violations) > 0:
			verdict = 1
		case len(part.Harness) > 0 || part.Counters["e2_histories_complete"] == 0:
			verdict = 2
		}
		if verdict == 1 || (verdict == 2 && worst == 0) {
			worst = verdict
		}
		fmt.Printf("E2-SUMMARY property=%s tier=%s seed=%d histories=%d complete=%d inconclusive=%d operations=%d distinct_traces=%d violations=%d classes=%v porcupine=ok:%d/illegal:%d/unknown:%d wall=%.1fs verdict=%d\n",
			prop, env.Tier, env.Seed, part.Counters["e2_histories"], part.Counters["e2_histories_complete"], part.Counters["e2_histories_inconclusive"], part.Counters["e2_ops"],
			len(part.Distinct["e2_traces"]), len(part.Violations), classes, part.Counters["e2_porcupine_ok"], part.Counters["e2_porcupine_illegal"], part.Counters["e2_porcupine_unknown"], time.Since(start).Seconds(), verdict)
	}
	fmt.Printf("VERDICT-EXIT %d\n", worst)
}
