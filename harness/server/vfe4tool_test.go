//go:build verif

package server

// Development aid: recover a saved directory image repeatedly and print the
// canonical snapshot (VERIF_E4_DIR, VERIF_E4_NOW, VERIF_E4_CFG="shards fastkeys aoftime aofbuf rewritesize", VERIF_E4_N).
// Run through the test binary: -test.run TestVerif_E4Recover.

import (
	"fmt"
	"os"
	"path/filepath"
	"strconv"
	"testing"
	"time"
)

func TestVerif_E4Recover(t *testing.T) {
	dir := os.Getenv("VERIF_E4_DIR")
	if dir == "" {
		t.Skip("VERIF_E4_DIR not set")
	}
	now, _ := strconv.ParseInt(os.Getenv("VERIF_E4_NOW"), 10, 64)
	var sh, fk, at, ab, rs uint
	_, _ = fmt.Sscanf(os.Getenv("VERIF_E4_CFG"), "%d %d %d %d %d", &sh, &fk, &at, &ab, &rs)
	n, _ := strconv.Atoi(os.Getenv("VERIF_E4_N"))
	if n == 0 {
		n = 1
	}
	wake, _ := strconv.Atoi(os.Getenv("VERIF_E4_WAKE"))
	cfg := vfInstCfg{Manual: true, NDb: 3, DBConcurrent: sh, FastKeys: fk, AofTime: at, AofBuf: ab, RewriteSize: rs}
	scratch, _ := os.MkdirTemp("", "e4tool-")
	defer os.RemoveAll(scratch)
	seen := map[string]int{}
	for i := 0; i < n; i++ {
		work := filepath.Join(scratch, fmt.Sprintf("w%d", i))
		_ = vfCopyDir(dir, work)
		tr := vfNewRewriteTracker()
		tr.wakeEvery, tr.wakeDelay = wake, 2*time.Millisecond
		in, err := vfStartAt(cfg, work, now, tr)
		if err != nil {
			fmt.Println("start failed:", err)
			if in != nil {
				in.Close()
			}
			continue
		}
		vfAofQuiesce(in)
		tr.wait()
		c := vfSnapshotOf(in).canon()
		vfStop(in, tr)
		_ = os.RemoveAll(work)
		seen[c]++
	}
	for c, k := range seen {
		fmt.Printf("---- %d time(s):\n%s", k, c)
	}
	fmt.Print(vfAofDirText(dir, "image"))
}
