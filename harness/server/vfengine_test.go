//go:build verif

package server

// E1: virtual-clock sequential engine. One goroutine drives a real leader
// SLock (manual clock), clients are MemWaiterServerProtocol objects with a
// result callback, time advances by tick() which runs the real per-second
// sweep functions. At verification yield points the engine may run another
// complete operation (deterministic interleaving of critical sections).

import (
	"fmt"
	"os"
	"path/filepath"
	"runtime"
	"sync"
	"sync/atomic"
	"time"

	"github.com/snower/slock/protocol"
)

// ---------------------------------------------------------------- instance

type vfInstCfg struct {
	Dir          string
	DBConcurrent uint
	FastKeys     uint
	AofTime      uint
	AofBuf       uint
	RewriteSize  uint
	NDb          int
	Manual       bool
	Now          int64 // virtual time of the start (0 = wall clock); with Now set the databases exist, on that clock, before the log is loaded
}

type vfInstance struct {
	slock   *SLock
	cfg     vfInstCfg
	dbs     []*LockDB
	toQ     [][][]*LockQueue // [db][shard][5]
	exQ     [][][]*LockQueue
	now     int64
	closed  bool
	abandoned bool
}

func vfNewLeader(cfg vfInstCfg) (*vfInstance, error) {
	if cfg.DBConcurrent == 0 {
		cfg.DBConcurrent = 2
	}
	if cfg.FastKeys == 0 {
		cfg.FastKeys = 4
	}
	if cfg.AofBuf == 0 {
		cfg.AofBuf = 4096
	}
	if cfg.RewriteSize == 0 {
		cfg.RewriteSize = 8 << 20
	}
	if cfg.NDb == 0 {
		cfg.NDb = 3
	}
	_ = os.MkdirAll(cfg.Dir, 0755)
	sc := &ServerConfig{Bind: "127.0.0.1", Port: 0, Log: "-", LogLevel: "ERROR", DataDir: cfg.Dir,
		DBFastKeyCount: cfg.FastKeys, DBConcurrent: cfg.DBConcurrent, DBLockAofTime: cfg.AofTime, DBLockAofParcentTime: 0.3,
		AofQueueSize: 65536, AofFileRewriteSize: cfg.RewriteSize, AofFileBufferSize: cfg.AofBuf,
		AofRingBufferSize: 1 << 16, AofRingBufferMaxSize: 1 << 20}
	verifManual = cfg.Manual
	s := NewSLock(sc, vfGetLogger())
	in := &vfInstance{slock: s, cfg: cfg, now: time.Now().Unix()}
	if cfg.Now != 0 {
		// a restart at virtual time Now: the loader computes remaining expiry
		// times from LockDB.currentTime, so the databases must be on the
		// virtual clock before LoadAndInit replays the log
		in.now = cfg.Now
		for d := 0; d < cfg.NDb; d++ {
			db := s.GetOrNewDB(uint8(d))
			db.currentTime = in.now
			db.checkTimeoutTime = in.now + 1
			db.checkExpriedTime = in.now + 1
		}
	}
	if err := s.initLeader(); err != nil {
		// returned non-nil so that the caller can stop the goroutines of the
		// databases the loader created before it gave up
		for _, db := range s.dbs {
			if db != nil {
				in.dbs = append(in.dbs, db)
			}
		}
		return in, err
	}
	for d := 0; d < cfg.NDb; d++ {
		db := s.GetOrNewDB(uint8(d))
		in.dbs = append(in.dbs, db)
		n := int(db.managerMaxGlocks)
		tq := make([][]*LockQueue, n)
		eq := make([][]*LockQueue, n)
		for i := 0; i < n; i++ {
			tq[i] = make([]*LockQueue, 5)
			eq[i] = make([]*LockQueue, 5)
			for j := 0; j < 5; j++ {
				tq[i][j] = NewLockQueue(4, 16, 64)
				eq[i][j] = NewLockQueue(4, 16, 64)
			}
		}
		in.toQ = append(in.toQ, tq)
		in.exQ = append(in.exQ, eq)
		if cfg.Manual {
			db.currentTime = in.now
			db.checkTimeoutTime = in.now + 1
			db.checkExpriedTime = in.now + 1
		}
	}
	return in, nil
}

// adoptDB puts a LockDB that the server created on its own (first request
// for a new DbId) under the virtual clock.
func (in *vfInstance) adoptDB(db *LockDB) {
	in.dbs = append(in.dbs, db)
	n := int(db.managerMaxGlocks)
	tq := make([][]*LockQueue, n)
	eq := make([][]*LockQueue, n)
	for i := 0; i < n; i++ {
		tq[i] = make([]*LockQueue, 5)
		eq[i] = make([]*LockQueue, 5)
		for j := 0; j < 5; j++ {
			tq[i][j] = NewLockQueue(4, 16, 64)
			eq[i][j] = NewLockQueue(4, 16, 64)
		}
	}
	in.toQ = append(in.toQ, tq)
	in.exQ = append(in.exQ, eq)
	db.currentTime = in.now
	db.checkTimeoutTime = in.now + 1
	db.checkExpriedTime = in.now + 1
}

// Close stops the goroutines the instance owns (AOF channels) and closes the
// log file, so that thousands of instances can be created in one process.
func (in *vfInstance) Close() {
	if in.closed {
		return
	}
	in.closed = true
	if in.abandoned {
		// a panic unwound through server code: mutexes may still be held, do not wait for anything
		verifHook = nil
		return
	}
	aof := in.slock.GetAof()
	_ = aof.WaitFlushAofChannel()
	for _, db := range in.dbs {
		for _, ch := range db.aofChannels {
			aof.CloseAofChannel(ch)
		}
	}
	for _, db := range in.dbs {
		for _, ch := range db.aofChannels {
			select {
			case <-ch.closedWaiter:
			case <-time.After(5 * time.Second):
			}
		}
		for i := range db.executors {
			if db.executors[i] != nil {
				db.status = STATE_CLOSE
				db.executors[i].Close()
				db.executors[i] = nil
			}
		}
	}
	_ = aof.WaitRewriteAofFiles()
	aof.aofGlock.Lock()
	if aof.aofFile != nil {
		_ = aof.aofFile.Close()
		aof.aofFile = nil
	}
	aof.aofGlock.Unlock()
	in.slock.replicationManager.Close()
	verifHook = nil
}

// breakAof closes the descriptor of the current append file behind the
// server's back: every later log write fails until healAof.
func (in *vfInstance) breakAof() {
	aof := in.slock.GetAof()
	aof.aofGlock.Lock()
	if aof.aofFile != nil && aof.aofFile.file != nil {
		_ = aof.aofFile.file.Close()
	}
	aof.aofGlock.Unlock()
}

// healAof drops the broken file object; the next log write rotates to a new
// append file (the server's own recovery path in Aof.PushLock).
func (in *vfInstance) healAof() {
	aof := in.slock.GetAof()
	aof.aofGlock.Lock()
	if aof.aofFile != nil {
		_ = aof.aofFile.Close()
		aof.aofFile = nil
	}
	aof.aofGlock.Unlock()
}

// tick advances the virtual clock by n seconds (n is 1 or 2), running the real
// sweep functions for every elapsed second and shard in PRNG-chosen order.
func (in *vfInstance) tick(n int, rng *vfRand) {
	in.now += int64(n)
	now := in.now
	type sweep struct {
		db    int
		t     int64
		shard uint16
		exp   bool
	}
	var sweeps []sweep
	for d, db := range in.dbs {
		db.currentTime = now
		ct := db.checkTimeoutTime
		db.checkTimeoutTime = now + 1
		ce := db.checkExpriedTime
		db.checkExpriedTime = now + 1
		for t := ct; t <= now; t++ {
			for i := uint16(0); i < db.managerMaxGlocks; i++ {
				sweeps = append(sweeps, sweep{d, t, i, false})
			}
		}
		for t := ce; t <= now; t++ {
			for i := uint16(0); i < db.managerMaxGlocks; i++ {
				sweeps = append(sweeps, sweep{d, t, i, true})
			}
		}
	}
	// the real dispatcher starts all sweeps of a tick concurrently: any order
	// is a legal schedule; keep per-(db,shard,kind) time order.
	if rng != nil {
		for i := len(sweeps) - 1; i > 0; i-- {
			j := rng.Intn(i + 1)
			a, b := sweeps[i], sweeps[j]
			if a.db == b.db && a.shard == b.shard && a.exp == b.exp {
				continue
			}
			sweeps[i], sweeps[j] = sweeps[j], sweeps[i]
		}
		// restore time order inside each (db,shard,kind) class
		for i := 0; i < len(sweeps); i++ {
			for j := i + 1; j < len(sweeps); j++ {
				a, b := sweeps[i], sweeps[j]
				if a.db == b.db && a.shard == b.shard && a.exp == b.exp && a.t > b.t {
					sweeps[i], sweeps[j] = sweeps[j], sweeps[i]
				}
			}
		}
	}
	for _, s := range sweeps {
		db := in.dbs[s.db]
		if s.exp {
			db.checkTimeExpried(s.t, now, s.shard, in.exQ[s.db][s.shard])
		} else {
			db.checkTimeTimeOut(s.t, now, s.shard, in.toQ[s.db][s.shard])
		}
	}
}

// ---------------------------------------------------------------- ops / events

type vfDataOp struct {
	Type  uint8    `json:"t"`           // protocol.LOCK_DATA_COMMAND_TYPE_*
	Val   []byte   `json:"v,omitempty"` // payload for SET/APPEND/PUSH
	Num   int64    `json:"n,omitempty"` // INCR value, SHIFT length, POP count
	Prop  []byte   `json:"p,omitempty"` // property value (code 1) if non-nil
	Pipe  []*vfDataOp `json:"pipe,omitempty"`
	Array [][]byte `json:"arr,omitempty"` // SET array
}

type vfOp struct {
	Kind    string    `json:"k"` // lock | unlock | tick
	Client  int       `json:"c,omitempty"`
	Db      uint8     `json:"db,omitempty"`
	Key     int       `json:"key,omitempty"`
	LockId  int       `json:"lid,omitempty"`
	Flag    uint8     `json:"f,omitempty"`
	TFlag   uint16    `json:"tf,omitempty"`
	Timeout uint16    `json:"t,omitempty"`
	EFlag   uint16    `json:"ef,omitempty"`
	Expried uint16    `json:"e,omitempty"`
	Count   uint16    `json:"cnt,omitempty"`
	Rcount  uint8     `json:"rc,omitempty"`
	Data    *vfDataOp `json:"data,omitempty"`
	Ticks   int       `json:"ticks,omitempty"`
	Depth   int       `json:"depth,omitempty"` // injection nesting depth at which it ran
	At      string    `json:"at,omitempty"`    // hook point name if injected
	Req     uint64    `json:"req,omitempty"`
}

func (o *vfOp) String() string {
	switch o.Kind {
	case "tick":
		if o.Ticks == 0 {
			return "*** " + o.At
		}
		return fmt.Sprintf("tick+%d", o.Ticks)
	}
	s := fmt.Sprintf("%s c%d db%d k%d L%d f=%02x t=%d/%04x e=%d/%04x cnt=%d rc=%d req=%d", o.Kind, o.Client, o.Db, o.Key, o.LockId, o.Flag, o.Timeout, o.TFlag, o.Expried, o.EFlag, o.Count, o.Rcount, o.Req)
	if o.Data != nil {
		s += fmt.Sprintf(" data=%d", o.Data.Type)
	}
	if o.At != "" {
		s += fmt.Sprintf(" @%s/d%d", o.At, o.Depth)
	}
	return s
}

type vfEvent struct {
	Seq     int
	Tick    int64
	Client  int
	Req     uint64
	CmdType uint8
	Result  uint8
	Db      uint8
	Key     int
	LockId  int // -1 if not one of ours
	LCount  uint16
	LRCount uint8
	HasData bool
	Data    []byte
	Foreign bool // RequestId not issued by this client
}

func (e *vfEvent) String() string {
	return fmt.Sprintf("ev#%d t=%d c%d req=%d type=%d res=%s db%d k%d L%d lc=%d lrc=%d", e.Seq, e.Tick, e.Client, e.Req, e.CmdType, vfResName(e.Result), e.Db, e.Key, e.LockId, e.LCount, e.LRCount)
}

func vfResName(r uint8) string {
	names := []string{"SUCCED", "UNKNOWN_MAGIC", "UNKNOWN_VERSION", "UNKNOWN_DB", "UNKNOWN_COMMAND", "LOCKED_ERROR", "UNLOCK_ERROR", "UNOWN_ERROR", "TIMEOUT", "EXPRIED", "STATE_ERROR", "ERROR", "LOCK_ACK_WAITING"}
	if int(r) < len(names) {
		return names[r]
	}
	return fmt.Sprintf("R%d", r)
}

type vfReq struct {
	ID         uint64
	Op         vfOp
	SubmitTick int64
	SubmitSeq  int // event seq at submit
	Replies    []int
	Returned   bool // ProcessLockCommand returned
}

type vfClient struct {
	idx   int
	proto *MemWaiterServerProtocol
}

var vfPointNames = map[int]string{
	VP_LOCK_GOT_MANAGER: "LOCK_GOT_MANAGER", VP_LOCK_RETRY: "LOCK_RETRY", VP_LOCK_UNLOCKED: "LOCK_UNLOCKED",
	VP_UNLOCK_GOT_MANAGER: "UNLOCK_GOT_MANAGER", VP_UNLOCK_RETRY: "UNLOCK_RETRY", VP_UNLOCK_UNLOCKED: "UNLOCK_UNLOCKED",
	VP_UNLOCK_PRE_WAKE: "UNLOCK_PRE_WAKE", VP_WAKE_LOOP: "WAKE_LOOP", VP_WAKE_UNLOCKED: "WAKE_UNLOCKED",
	VP_TIMEOUT_ENTER: "TIMEOUT_ENTER", VP_TIMEOUT_UNLOCKED: "TIMEOUT_UNLOCKED", VP_EXPIRE_ENTER: "EXPIRE_ENTER",
	VP_EXPIRE_UNLOCKED: "EXPIRE_UNLOCKED", VP_ACK_ENTER: "ACK_ENTER", VP_ACK_UNLOCKED: "ACK_UNLOCKED", VP_CANCEL_UNLOCKED: "CANCEL_UNLOCKED",
	VP_AOF_FLUSH_MID: "AOF_FLUSH_MID", VP_REWRITE_FILE_CLOSED: "REWRITE_FILE_CLOSED", VP_REWRITE_FILE_OPENED: "REWRITE_FILE_OPENED",
	VP_REWRITE_TMP_CREATED: "REWRITE_TMP_CREATED", VP_REWRITE_TMP_CLOSED: "REWRITE_TMP_CLOSED", VP_REWRITE_REMOVED: "REWRITE_REMOVED",
	VP_REWRITE_REMOVED_DAT: "REWRITE_REMOVED_DAT", VP_REWRITE_RENAMED: "REWRITE_RENAMED", VP_REWRITE_RENAMED_DAT: "REWRITE_RENAMED_DAT",
	VP_REWRITE_ENTER: "REWRITE_ENTER", VP_REWRITE_EXIT: "REWRITE_EXIT",
}

// vfSettledPoints: yield points at which every completed critical section has
// already emitted its reply, so reply order == critical-section order.
var vfSettledPoints = map[int]bool{VP_LOCK_GOT_MANAGER: true, VP_UNLOCK_GOT_MANAGER: true, VP_UNLOCK_PRE_WAKE: true, VP_WAKE_LOOP: true,
	VP_TIMEOUT_ENTER: true, VP_EXPIRE_ENTER: true, VP_ACK_ENTER: true}

// vfUnsettledPoints: between the end of a critical section and its reply.
var vfUnsettledPoints = map[int]bool{VP_LOCK_UNLOCKED: true, VP_UNLOCK_UNLOCKED: true, VP_WAKE_UNLOCKED: true, VP_TIMEOUT_UNLOCKED: true,
	VP_EXPIRE_UNLOCKED: true, VP_CANCEL_UNLOCKED: true}

type vfEngine struct {
	in       *vfInstance
	rng      *vfRand
	clients  []*vfClient
	byProto  map[*MemWaiterServerProtocol]*vfClient
	events   []*vfEvent
	reqs     map[uint64]*vfReq
	reqOrder []*vfReq
	nextReq  uint64
	opLog    []vfOp
	depth    int
	maxDepth int
	inSweep  int
	// injection
	injectPct   int
	injectUnset bool // also inject at unsettled points
	injector    func(e *vfEngine, point int) // chooses and runs the injected action
	pointHits   [VP_MAX]int64
	injections  int
	orderings   uint64 // rolling hash of (point, injected?) sequence
	onEvent     func(ev *vfEvent)
	onQueued    func(r *vfReq) // request returned without a reply
	onStep      func()         // after each top-level or injected op completes
	onHook      func(point int)
	onAofPoint  func(point int) // log / compaction crash points (called on AOF goroutines, log mutex may be held)
	nKeys       int
	nLockIds    int
	curPoint    int
	inflight    []*vfReq // lock requests submitted and not yet returned
	ackMode     bool     // require-ack requests are generated: wait for the AOF channels after every operation
	onAckThread int32    // >0 while a hook runs on an AOF channel goroutine
	mu          sync.Mutex
	muOwner     uint64 // goroutine id holding mu (re-entrant use)
	muDepth     int
	mainGoid    uint64
}

// vfKeyEpoch separates the key spaces of the phases of a restart script (the
// holds a restart restored stay untouched by the workload that follows it).
var vfKeyEpoch byte

func vfKeyBytes(db uint8, k int) [16]byte {
	var b [16]byte
	b[0] = byte(k)
	b[1] = byte(k >> 8)
	b[2] = vfKeyEpoch
	b[7] = 'K'
	b[15] = 0x5a
	return b
}
func vfKeyIndex(b [16]byte) int {
	if b[7] != 'K' || b[15] != 0x5a {
		return -1
	}
	return int(b[0]) | int(b[1])<<8
}
func vfLockIdBytes(l int) [16]byte {
	var b [16]byte
	b[0] = byte(l)
	b[1] = byte(l >> 8)
	b[8] = 'L'
	b[15] = 0xa5
	return b
}
func vfLockIdIndex(b [16]byte) int {
	if b[8] != 'L' || b[15] != 0xa5 {
		return -1
	}
	return int(b[0]) | int(b[1])<<8
}
func vfReqIdBytes(id uint64, client int) [16]byte {
	var b [16]byte
	for i := 0; i < 8; i++ {
		b[i] = byte(id >> (8 * uint(i)))
	}
	b[8] = byte(client)
	b[9] = 'R'
	b[15] = 0x3c
	return b
}
func vfReqIdParse(b [16]byte) (uint64, int, bool) {
	if b[9] != 'R' || b[15] != 0x3c {
		return 0, 0, false
	}
	var id uint64
	for i := 0; i < 8; i++ {
		id |= uint64(b[i]) << (8 * uint(i))
	}
	return id, int(b[8]), true
}

func vfNewEngine(in *vfInstance, rng *vfRand, nClients int) *vfEngine {
	e := &vfEngine{in: in, rng: rng, byProto: map[*MemWaiterServerProtocol]*vfClient{}, reqs: map[uint64]*vfReq{}, maxDepth: 3, nextReq: 1, mainGoid: vfGoid()}
	for i := 0; i < nClients; i++ {
		p := NewMemWaiterServerProtocol(in.slock)
		c := &vfClient{idx: i, proto: p}
		_ = p.SetResultCallback(e.callback)
		e.clients = append(e.clients, c)
		e.byProto[p] = c
	}
	verifHook = e.onPoint
	return e
}

func (e *vfEngine) callback(p *MemWaiterServerProtocol, cmd *protocol.LockCommand, result uint8, lcount uint16, lrcount uint8, data []byte) error {
	c := e.byProto[p]
	if e.ackMode {
		e.lock()
		defer e.unlock()
	}
	ev := &vfEvent{Seq: len(e.events), Tick: e.in.now, Client: -1, CmdType: cmd.CommandType, Result: result, Db: cmd.DbId,
		Key: vfKeyIndex(cmd.LockKey), LockId: vfLockIdIndex(cmd.LockId), LCount: lcount, LRCount: lrcount}
	if c != nil {
		ev.Client = c.idx
	}
	id, owner, ok := vfReqIdParse(cmd.RequestId)
	if ok {
		ev.Req = id
		if c == nil || owner != c.idx {
			ev.Foreign = true
		}
	} else {
		ev.Foreign = true
	}
	if data != nil {
		ev.HasData = true
		ev.Data = append([]byte(nil), data...)
	}
	e.events = append(e.events, ev)
	if r := e.reqs[ev.Req]; r != nil && ok {
		r.Replies = append(r.Replies, ev.Seq)
	}
	if e.onEvent != nil {
		e.onEvent(ev)
	}
	return nil
}

func vfBuildData(d *vfDataOp) *protocol.LockCommandData {
	if d == nil {
		return nil
	}
	var props []*protocol.LockCommandDataProperty
	if d.Prop != nil {
		props = []*protocol.LockCommandDataProperty{protocol.NewLockCommandDataProperty(protocol.LOCK_DATA_PROPERTY_CODE_KEY, d.Prop)}
	}
	switch d.Type {
	case protocol.LOCK_DATA_COMMAND_TYPE_SET:
		if d.Array != nil {
			return protocol.NewLockCommandDataSetArray(d.Array)
		}
		if props != nil {
			return protocol.NewLockCommandDataSetDataWithProperty(d.Val, props)
		}
		return protocol.NewLockCommandDataSetData(d.Val)
	case protocol.LOCK_DATA_COMMAND_TYPE_UNSET:
		return protocol.NewLockCommandDataUnsetData()
	case protocol.LOCK_DATA_COMMAND_TYPE_INCR:
		if props != nil {
			return protocol.NewLockCommandDataIncrDataWithProperty(d.Num, props)
		}
		return protocol.NewLockCommandDataIncrData(d.Num)
	case protocol.LOCK_DATA_COMMAND_TYPE_APPEND:
		if props != nil {
			return protocol.NewLockCommandDataAppendDataWithProperty(d.Val, props)
		}
		return protocol.NewLockCommandDataAppendData(d.Val)
	case protocol.LOCK_DATA_COMMAND_TYPE_SHIFT:
		return protocol.NewLockCommandDataShiftData(uint32(d.Num))
	case protocol.LOCK_DATA_COMMAND_TYPE_PUSH:
		if props != nil {
			return protocol.NewLockCommandDataPushDataWithProperty(d.Val, props)
		}
		return protocol.NewLockCommandDataPushData(d.Val)
	case protocol.LOCK_DATA_COMMAND_TYPE_POP:
		return protocol.NewLockCommandDataPopData(uint32(d.Num))
	case protocol.LOCK_DATA_COMMAND_TYPE_PIPELINE:
		subs := []*protocol.LockCommandData{}
		for _, s := range d.Pipe {
			subs = append(subs, vfBuildData(s))
		}
		return protocol.NewLockCommandDataPipelineData(subs)
	}
	return nil
}

// submit sends one lock/unlock request through the client's protocol object.
func (e *vfEngine) submit(op vfOp) *vfReq {
	c := e.clients[op.Client]
	id := e.nextReq
	e.nextReq++
	op.Req = id
	op.Depth = e.depth
	if e.curPoint != 0 {
		op.At = vfPointNames[e.curPoint]
	}
	r := &vfReq{ID: id, Op: op, SubmitTick: e.in.now, SubmitSeq: len(e.events)}
	e.reqs[id] = r
	e.reqOrder = append(e.reqOrder, r)
	e.opLog = append(e.opLog, op)
	cmd := c.proto.GetLockCommand()
	cmd.Magic, cmd.Version = protocol.MAGIC, protocol.VERSION
	if op.Kind == "lock" {
		cmd.CommandType = protocol.COMMAND_LOCK
	} else {
		cmd.CommandType = protocol.COMMAND_UNLOCK
	}
	cmd.RequestId = vfReqIdBytes(id, op.Client)
	cmd.Flag = op.Flag
	cmd.DbId = op.Db
	cmd.LockId = vfLockIdBytes(op.LockId)
	cmd.LockKey = vfKeyBytes(op.Db, op.Key)
	cmd.TimeoutFlag, cmd.Timeout = op.TFlag, op.Timeout
	cmd.ExpriedFlag, cmd.Expried = op.EFlag, op.Expried
	cmd.Count, cmd.Rcount = op.Count, op.Rcount
	cmd.Data = nil
	if op.Data != nil {
		cmd.Data = vfBuildData(op.Data)
		if op.Kind == "lock" {
			cmd.Flag |= protocol.LOCK_FLAG_CONTAINS_DATA
		} else {
			cmd.Flag |= protocol.UNLOCK_FLAG_CONTAINS_DATA
		}
	}
	savedPoint := e.curPoint
	e.curPoint = 0
	e.inflight = append(e.inflight, r)
	_ = c.proto.ProcessLockCommand(cmd)
	e.inflight = e.inflight[:len(e.inflight)-1]
	e.curPoint = savedPoint
	r.Returned = true
	if len(r.Replies) == 0 && e.onQueued != nil {
		e.onQueued(r)
	}
	e.quiesce()
	if e.onStep != nil {
		e.onStep()
	}
	return r
}

// lockIdBusy: a lock request with this LockId on this key is in flight (its
// outcome is not known yet), so the client contract forbids reusing the id.
func (e *vfEngine) lockIdBusy(db uint8, key int, lockId int) bool {
	for _, r := range e.inflight {
		if r.Op.Kind == "lock" && r.Op.Db == db && r.Op.Key == key && r.Op.LockId == lockId {
			return true
		}
	}
	return false
}

func (e *vfEngine) doTick(n int) {
	op := vfOp{Kind: "tick", Ticks: n, Depth: e.depth}
	if e.curPoint != 0 {
		op.At = vfPointNames[e.curPoint]
	}
	e.opLog = append(e.opLog, op)
	savedPoint := e.curPoint
	e.curPoint = 0
	e.inSweep++
	e.in.tick(n, e.rng)
	e.inSweep--
	e.curPoint = savedPoint
	e.quiesce()
	if e.onStep != nil {
		e.onStep()
	}
}

// quiesce lets the AOF channel goroutines finish everything that is pending
// (log writes, flush, acknowledgement of require-ack locks and the replies that
// follow), so that only one goroutine acts on the engine at any time.
func (e *vfEngine) quiesce() {
	if !e.ackMode || vfGoid() != e.mainGoid {
		return // never wait for the AOF channels on one of their own goroutines
	}
	e.handover(func() { vfAofQuiesce(e.in) })
}

// handover runs fn (something that may wait for the AOF channel goroutines or
// for the log mutex) with the engine lock released, so that those goroutines
// can deliver replies and run hooks meanwhile.
func (e *vfEngine) handover(fn func()) {
	depth := 0
	if e.ackMode && atomic.LoadUint64(&e.muOwner) == vfGoid() {
		depth = e.muDepth
		e.muDepth = 0
		atomic.StoreUint64(&e.muOwner, 0)
		e.mu.Unlock()
	}
	fn()
	if depth > 0 {
		e.mu.Lock()
		atomic.StoreUint64(&e.muOwner, vfGoid())
		e.muDepth = depth
	}
}

// settle waits until the log has been flushed (handing the engine over to
// the AOF channel goroutines in ack mode).
func (e *vfEngine) settle() {
	if e.ackMode {
		e.quiesce()
		return
	}
	_ = e.in.slock.GetAof().WaitFlushAofChannel()
}

func vfAofQuiesce(in *vfInstance) {
	aof := in.slock.GetAof()
	stable := 0
	for iter := 0; iter < 10000 && stable < 2; iter++ {
		_ = aof.WaitFlushAofChannel()
		busy := atomic.LoadUint32(&aof.channelActiveCount) != 0
		for _, db := range in.dbs {
			for _, ch := range db.aofChannels {
				ch.queueGlock.Lock()
				if ch.queueCount != 0 || !ch.queuePulled {
					busy = true
				}
				ch.queueGlock.Unlock()
			}
		}
		aof.aofGlock.Lock()
		if aof.aofFile != nil && (aof.aofFile.windex > 0 || aof.aofFile.ackIndex > 0) {
			busy = true
			aof.Flush()
		}
		aof.aofGlock.Unlock()
		if busy {
			stable = 0
			time.Sleep(20 * time.Microsecond)
		} else {
			stable++
		}
		if iter == 9999 {
			fmt.Println("HARNESS-ERROR: vfAofQuiesce gave up waiting for the AOF channels")
		}
	}
}

func (e *vfEngine) onPoint(point int) {
	if point <= 0 || point >= VP_MAX {
		return
	}
	if point == VP_AOF_HANDLE_ENTER || point == VP_AOF_HANDLE_EXIT {
		// in ack mode an AOF channel goroutine handles a record only while the
		// main goroutine waits in quiesce(): every execution is sequential and
		// replayable
		if e.ackMode {
			if point == VP_AOF_HANDLE_ENTER {
				e.lock()
			} else {
				e.unlock()
			}
		}
		return
	}
	if point >= VP_AOF_FLUSH_MID {
		// log / compaction crash points are called with the log mutex held:
		// nothing to interleave here in this engine
		atomic.AddInt64(&e.pointHits[point], 1)
		if e.onAofPoint != nil {
			e.onAofPoint(point)
		}
		return
	}
	if point == VP_ACK_ENTER || point == VP_ACK_UNLOCKED {
		// DoAckLock runs on an AOF channel goroutine (or on the caller's when the
		// log write failed at once); the main goroutine is parked in quiesce()
		atomic.AddInt32(&e.onAckThread, 1)
		defer atomic.AddInt32(&e.onAckThread, -1)
	}
	if e.ackMode {
		e.lock()
		defer e.unlock()
	}
	e.pointHits[point]++
	if e.onHook != nil {
		e.onHook(point)
	}
	if e.injector == nil || e.depth >= e.maxDepth {
		e.orderings = vfMix(e.orderings ^ uint64(point))
		return
	}
	settled := vfSettledPoints[point]
	if !settled && !(e.injectUnset && vfUnsettledPoints[point]) {
		return
	}
	if !e.rng.Chance(e.injectPct) {
		e.orderings = vfMix(e.orderings ^ uint64(point))
		return
	}
	e.orderings = vfMix(e.orderings ^ uint64(point)<<8 ^ 1)
	e.depth++
	saved := e.curPoint
	e.curPoint = point
	e.injections++
	e.injector(e, point)
	e.curPoint = saved
	e.depth--
}

func (e *vfEngine) scriptDoc(caseNo int, seed int64, extra map[string]interface{}) map[string]interface{} {
	ops := make([]string, 0, len(e.opLog))
	for i := range e.opLog {
		ops = append(ops, e.opLog[i].String())
	}
	evs := make([]string, 0, len(e.events))
	start := 0
	if len(e.events) > 400 {
		start = len(e.events) - 400
	}
	for _, ev := range e.events[start:] {
		evs = append(evs, ev.String())
	}
	doc := map[string]interface{}{"case": caseNo, "seed": seed, "ops": ops, "events_tail": evs}
	for k, v := range extra {
		doc[k] = v
	}
	return doc
}

func vfScratchDir(env *vfEnv, name string) string {
	d := filepath.Join(env.Scratch, name)
	_ = os.RemoveAll(d)
	_ = os.MkdirAll(d, 0755)
	return d
}


// vfGoid returns the id of the calling goroutine (parsed from its stack header).
func vfGoid() uint64 {
	var buf [40]byte
	n := runtime.Stack(buf[:], false)
	// "goroutine 123 [running]:..."
	var id uint64
	for i := len("goroutine "); i < n && buf[i] >= '0' && buf[i] <= '9'; i++ {
		id = id*10 + uint64(buf[i]-'0')
	}
	return id
}


// lock / unlock: a goroutine-re-entrant mutex. In ack mode exactly one
// goroutine acts on the engine and its monitors at any time: the main
// goroutine owns it except while it waits in quiesce(); an AOF channel
// goroutine delivering a reply (or running a hook) takes it meanwhile.
func (e *vfEngine) lock() {
	g := vfGoid()
	if atomic.LoadUint64(&e.muOwner) == g {
		e.muDepth++
		return
	}
	e.mu.Lock()
	atomic.StoreUint64(&e.muOwner, g)
	e.muDepth = 1
}

func (e *vfEngine) unlock() {
	e.muDepth--
	if e.muDepth == 0 {
		atomic.StoreUint64(&e.muOwner, 0)
		e.mu.Unlock()
	}
}
