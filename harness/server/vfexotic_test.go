//go:build verif

package server

// Development aid (not a registered check): E1 scripts with ARBITRARY flag bits
// and a census after every step, to find the first operation that corrupts the
// server's structures. Used to locate root causes behind C13 crash classes.

import (
	"fmt"
	"os"
	"strconv"
	"testing"
)

func TestVerif_Exotic(t *testing.T) {
	env := vfGetEnv("X01")
	n := 2000
	if s := os.Getenv("VERIF_EXOTIC_N"); s != "" {
		n, _ = strconv.Atoi(s)
	}
	mask := uint16(0xffff)
	if s := os.Getenv("VERIF_EXOTIC_TMASK"); s != "" {
		v, _ := strconv.ParseUint(s, 0, 16)
		mask = uint16(v)
	}
	emask := uint16(0xffff)
	if s := os.Getenv("VERIF_EXOTIC_EMASK"); s != "" {
		v, _ := strconv.ParseUint(s, 0, 16)
		emask = uint16(v)
	}
	fmask := uint8(0xff)
	if s := os.Getenv("VERIF_EXOTIC_FMASK"); s != "" {
		v, _ := strconv.ParseUint(s, 0, 8)
		fmask = uint8(v)
	}
	found := 0
	for i := 0; i < n && found < 5; i++ {
		func() {
			rng := vfCaseRand(env.Seed, "X01", i)
			in, err := vfNewLeader(vfInstCfg{Dir: vfScratchDir(env, "x01"), Manual: true, NDb: 2, DBConcurrent: 1, FastKeys: 4})
			if err != nil {
				t.Fatal(err)
			}
			defer in.Close()
			eng := vfNewEngine(in, rng, 2)
			sh := vfNewShadow(eng)
			prof := vfProfile{NKeys: [2]int{1, 2}, NDbs: 1, NLockIds: [2]int{2, 4}, NClients: [2]int{1, 2}, Steps: [2]int{10, 40}, TickPct: 25, UnlockPct: 25}
			gen := vfNewGen(rng, &prof, sh)
			defer func() {
				if r := recover(); r != nil {
					found++
					fmt.Printf("EXOTIC case %d PANIC %v\n", i, r)
					for _, o := range eng.opLog {
						fmt.Println("   ", o.String())
					}
				}
			}()
			steps := rng.Range(10, 40)
			for s := 0; s < steps; s++ {
				op := gen.next()
				if op.Kind == "tick" {
					eng.doTick(op.Ticks)
				} else {
					op.TFlag = uint16(rng.U64()) & mask
					op.EFlag = uint16(rng.U64()) & emask
					if rng.Chance(50) {
						op.Flag = uint8(rng.U64()) & fmask
					}
					op.Flag &^= 0x20
					if rng.Chance(60) {
						op.TFlag &= 0x1650
						op.EFlag &= 0x4740
					}
					eng.submit(op)
				}
				_ = in.slock.GetAof().WaitFlushAofChannel()
				for _, db := range in.dbs {
					cs := vfTakeCensus(db)
					if len(cs.Errors) > 0 {
						found++
						fmt.Printf("EXOTIC case %d step %d: %v\n", i, s, cs.Errors)
						for _, o := range eng.opLog {
							fmt.Println("   ", o.String())
						}
						for _, ev := range eng.events {
							fmt.Println("      ", ev.String())
						}
						return
					}
				}
			}
		}()
	}
	fmt.Printf("EXOTIC done found=%d\n", found)
}
