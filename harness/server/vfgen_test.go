//go:build verif

package server

// Generator for the "core command subset" named by the properties.

import (
	"github.com/snower/slock/protocol"
)

type vfProfile struct {
	Name       string
	NKeys      [2]int // range
	NDbs       int
	NLockIds   [2]int
	NClients   [2]int
	Steps      [2]int
	TickPct    int // share of tick steps
	UnlockPct  int
	InjectPct  int
	InjectUnsettled bool
	BigTime    int // pct of scripts using large timeouts / expiries
	WaitHeavy  bool // prefer Count=0 / long timeouts so queues build up
	PrioPct    int
	DataPct    int
	AckPct     int
	ManyHolders bool // scripts with 150-300 shared holders
	LongQueue   bool // scripts with queues of >8 / >128 entries
	UpdatePct  int
	NoWWU      bool
	CensusEvery int // census comparison after every n-th top-level step (0 = never)
	Typed      bool // C15: each key has a value type, value operations are type-consistent
	ShowPct    int  // share of lock steps that are show-queries (observe the value)
	AofFailPct int  // share of steps at which the append file is broken / healed (C11)
	AckRelock  bool // allow the require-ack flag on re-entrant re-locks of an established hold
	AckData    bool // allow value operations on require-ack requests
	LongTable  bool // scripts with waiters / holds that sit in the long-wait tables while others of the same second leave
	NoPipeline bool // never generate PIPELINE value operations
	NoRelock   bool // never address a LockId that currently holds the key (no re-entrant re-locks, no updates)
}

var vfTimes = []uint16{0, 1, 1, 2, 2, 3, 3, 4, 5, 7, 8, 9, 10}
var vfBigTimes = []uint16{15, 16, 17, 30, 36, 37, 38, 60, 120, 300, 3600, 65535}
var vfBigMinutes = []uint16{1092, 1093, 3277, 16384, 32768, 49152, 65535}
var vfCounts = []uint16{0, 0, 0, 1, 1, 2, 3, 5, 0xffff}
var vfRcounts = []uint8{0, 0, 1, 2, 3, 0xff}

type vfGen struct {
	rng  *vfRand
	p    *vfProfile
	nKeys, nDbs, nLockIds, nClients int
	big  bool
	sh   *vfShadow
	countPool []uint16
	keyType   map[vfKeyId]int
	ackRelock bool
}

func vfNewGen(rng *vfRand, p *vfProfile, sh *vfShadow) *vfGen {
	g := &vfGen{rng: rng, p: p, sh: sh}
	g.nKeys = rng.Range(p.NKeys[0], p.NKeys[1])
	g.nDbs = p.NDbs
	if g.nDbs < 1 {
		g.nDbs = 1
	}
	g.nLockIds = rng.Range(p.NLockIds[0], p.NLockIds[1])
	g.nClients = rng.Range(p.NClients[0], p.NClients[1])
	g.big = rng.Chance(p.BigTime)
	g.ackRelock = p.AckRelock && rng.Chance(10)
	// a script draws its Counts from a small pool so that "every user passes
	// the same Count" situations are common
	switch rng.Intn(4) {
	case 0:
		c := vfCounts[rng.Intn(len(vfCounts))]
		g.countPool = []uint16{c}
	case 1:
		g.countPool = []uint16{0, uint16(rng.Range(1, 4))}
	default:
		g.countPool = vfCounts
	}
	return g
}

func (g *vfGen) time() uint16 {
	if g.big && g.rng.Chance(30) {
		return vfBigTimes[g.rng.Intn(len(vfBigTimes))]
	}
	if g.rng.Chance(3) {
		return uint16(g.rng.Intn(40))
	}
	return vfTimes[g.rng.Intn(len(vfTimes))]
}

func (g *vfGen) keyState(db uint8, key int) *vfKeyState {
	return g.sh.keys[vfKeyId{db, key}]
}

// lockOp generates a LOCK request that respects the client contract (a LockId
// that is currently queued on the key is not reused for a new request).
func (g *vfGen) lockOp() vfOp {
	r := g.rng
	op := vfOp{Kind: "lock", Client: r.Intn(g.nClients), Db: uint8(r.Intn(g.nDbs)), Key: r.Intn(g.nKeys)}
	k := g.keyState(op.Db, op.Key)
	// choose a LockId: mostly a free one, sometimes a current holder (re-entrant / update)
	pick := -1
	if k != nil && len(k.Holds) > 0 && r.Chance(25+g.p.UpdatePct) && !g.p.NoRelock {
		pick = k.Holds[r.Intn(len(k.Holds))].LockId
		if g.sh.e.lockIdBusy(op.Db, op.Key, pick) {
			pick = -1
		}
	}
	if pick < 0 {
		for try := 0; try < 12; try++ {
			c := r.Intn(g.nLockIds)
			if k != nil && k.waiterByLockId(c) != nil {
				continue
			}
			if g.sh.e.lockIdBusy(op.Db, op.Key, c) {
				continue
			}
			if g.p.NoRelock && k != nil && k.hold(c) != nil {
				continue
			}
			pick = c
			break
		}
		if pick < 0 {
			// every id is queued on this key: use a fresh id outside the pool
			pick = g.nLockIds + r.Intn(1000)
			for (k != nil && k.waiterByLockId(pick) != nil) || g.sh.e.lockIdBusy(op.Db, op.Key, pick) || (g.p.NoRelock && k != nil && k.hold(pick) != nil) {
				pick++
			}
		}
	}
	op.LockId = pick
	op.Count = g.countPool[r.Intn(len(g.countPool))]
	if r.Chance(3) {
		op.Count = uint16(r.Intn(8))
	}
	op.Rcount = vfRcounts[r.Intn(len(vfRcounts))]
	op.Timeout = g.time()
	op.Expried = g.time()
	if g.p.WaitHeavy {
		if r.Chance(50) {
			op.Timeout = uint16(r.Range(1, 12))
		}
		if r.Chance(40) {
			op.Expried = uint16(r.Range(1, 6))
		}
	}
	if op.Expried == 0 && r.Chance(80) {
		op.Expried = uint16(r.Range(1, 9))
	}
	// flags
	bigMinuteTimeout := false
	if r.Chance(6) {
		op.TFlag |= protocol.TIMEOUT_FLAG_MINUTE_TIME
		if op.Timeout > 300 {
			op.Timeout = uint16(r.Range(1, 300))
		}
		if !g.big && op.Timeout > 3 {
			op.Timeout = uint16(r.Range(1, 3))
		}
		if g.big && r.Chance(30) {
			// the whole 16-bit range in minutes (60*T does not fit 16 bits from 1093 on); such a wait never
			// reaches its deadline in a script, but an earlier TIMEOUT is seen by the lower bound
			op.Timeout = vfBigMinutes[r.Intn(len(vfBigMinutes))]
			bigMinuteTimeout = true
		}
	}
	if r.Chance(6) {
		op.EFlag |= protocol.EXPRIED_FLAG_MINUTE_TIME
		if op.Expried > 300 {
			op.Expried = uint16(r.Range(1, 300))
		}
		if !g.big && op.Expried > 3 {
			op.Expried = uint16(r.Range(1, 3))
		}
		if g.big && r.Chance(30) {
			op.Expried = vfBigMinutes[r.Intn(len(vfBigMinutes))]
		}
	}
	if r.Chance(g.p.PrioPct) {
		op.TFlag |= protocol.TIMEOUT_FLAG_RCOUNT_IS_PRIORITY
		op.Rcount = uint8(r.Intn(4))
	}
	if !g.p.NoWWU && r.Chance(2) {
		op.TFlag |= protocol.TIMEOUT_FLAG_LOCK_WAIT_WHEN_UNLOCK
		if bigMinuteTimeout {
			// a wait-when-unlocked request on a free key only ends by its time-out: keep the drain phase short
			op.Timeout = uint16(r.Range(1, 300))
		}
	}
	if r.Chance(4) {
		op.EFlag |= protocol.EXPRIED_FLAG_UNLIMITED_EXPRIED_TIME
		if r.Chance(30) {
			op.Expried = 0xffff
		} else if op.Expried == 0 {
			op.Expried = 1
		}
	}
	switch r.Intn(12) {
	case 0:
		op.EFlag |= protocol.EXPRIED_FLAG_ZEOR_AOF_TIME
	case 1:
		op.EFlag |= protocol.EXPRIED_FLAG_UNLIMITED_AOF_TIME
	case 2:
		op.EFlag |= protocol.EXPRIED_FLAG_AOF_TIME_OF_EXPRIED_PARCENT
	}
	if r.Chance(g.p.AckPct) {
		op.TFlag |= protocol.TIMEOUT_FLAG_REQUIRE_ACKED
	}
	if r.Chance(5) {
		op.Flag |= protocol.LOCK_FLAG_SHOW_WHEN_LOCKED
	}
	if r.Chance(4 + g.p.UpdatePct) {
		op.Flag |= protocol.LOCK_FLAG_UPDATE_WHEN_LOCKED
	}
	if r.Chance(4) {
		op.Flag |= protocol.LOCK_FLAG_CONCURRENT_CHECK
	}
	if g.p.NoRelock {
		op.Flag &^= protocol.LOCK_FLAG_UPDATE_WHEN_LOCKED
	}
	// require-ack together with update answers asynchronously through the
	// ack path: not generated (update is not part of C11's quantifier)
	if op.TFlag&protocol.TIMEOUT_FLAG_REQUIRE_ACKED != 0 {
		op.Flag &^= protocol.LOCK_FLAG_UPDATE_WHEN_LOCKED | protocol.LOCK_FLAG_SHOW_WHEN_LOCKED
		if k != nil && k.hold(op.LockId) != nil {
			if !g.ackRelock {
				op.TFlag &^= protocol.TIMEOUT_FLAG_REQUIRE_ACKED
			} else if g.sh.faultSig == "" {
				// known finding: from here on the script contains a re-entrant
				// re-lock that carries the require-ack flag
				g.sh.faultSig = "relock-with-require-ack"
				vfNoteFaultSig(g.sh.faultSig)
				g.sh.stats["scripts_relock_with_ack"]++
			}
		}
	}
	if r.Chance(g.p.DataPct) && (g.p.AckData || op.TFlag&protocol.TIMEOUT_FLAG_REQUIRE_ACKED == 0) {
		op.Data = g.dataOpFor(op.Db, op.Key)
	}
	if g.p.ShowPct > 0 && r.Chance(g.p.ShowPct) {
		// pure observation: show-when-locked without update never changes anything
		op.Flag = protocol.LOCK_FLAG_SHOW_WHEN_LOCKED
		op.Data = nil
		op.Timeout = 0
		op.TFlag = 0
	}
	return op
}

func (g *vfGen) dataOpFor(db uint8, key int) *vfDataOp {
	if !g.p.Typed {
		return g.dataOp()
	}
	if g.keyType == nil {
		g.keyType = map[vfKeyId]int{}
	}
	kid := vfKeyId{db, key}
	t, ok := g.keyType[kid]
	if !ok {
		t = g.rng.Intn(3)
		g.keyType[kid] = t
	}
	return g.typedOp(t, 0)
}

// typedOp draws a value operation for a key of value type t (bytes / number /
// array); sequences stay type-consistent as the property's quantifier lists.
func (g *vfGen) typedOp(t int, depth int) *vfDataOp {
	r := g.rng
	var prop []byte
	if r.Chance(25) {
		prop = r.Bytes(r.Range(0, 9))
		if prop == nil {
			prop = []byte{}
		}
	}
	if depth == 0 && r.Chance(12) && !g.p.NoPipeline {
		n := r.Range(1, 3)
		d := &vfDataOp{Type: protocol.LOCK_DATA_COMMAND_TYPE_PIPELINE}
		for i := 0; i < n; i++ {
			d.Pipe = append(d.Pipe, g.typedOp(t, 1))
		}
		return d
	}
	if r.Chance(8) {
		return &vfDataOp{Type: protocol.LOCK_DATA_COMMAND_TYPE_UNSET}
	}
	switch t {
	case vfValBytes:
		switch r.Intn(4) {
		case 0:
			return &vfDataOp{Type: protocol.LOCK_DATA_COMMAND_TYPE_SET, Val: r.Bytes(r.Range(0, 24)), Prop: prop}
		case 1, 2:
			return &vfDataOp{Type: protocol.LOCK_DATA_COMMAND_TYPE_APPEND, Val: r.Bytes(r.Range(0, 12)), Prop: prop}
		default:
			return &vfDataOp{Type: protocol.LOCK_DATA_COMMAND_TYPE_SHIFT, Num: int64(r.Intn(20))}
		}
	case vfValNumber:
		n := int64(r.Range(-5, 9))
		switch r.Intn(8) {
		case 0:
			n = int64(r.U64())
		case 1:
			n = 0x7fffffffffffffff
		case 2:
			n = -0x8000000000000000
		}
		return &vfDataOp{Type: protocol.LOCK_DATA_COMMAND_TYPE_INCR, Num: n, Prop: prop}
	default:
		switch r.Intn(4) {
		case 0:
			n := r.Range(0, 4)
			arr := [][]byte{}
			for i := 0; i < n; i++ {
				arr = append(arr, r.Bytes(r.Range(1, 8)))
			}
			return &vfDataOp{Type: protocol.LOCK_DATA_COMMAND_TYPE_SET, Array: arr}
		case 1, 2:
			return &vfDataOp{Type: protocol.LOCK_DATA_COMMAND_TYPE_PUSH, Val: r.Bytes(r.Range(1, 10)), Prop: prop}
		default:
			return &vfDataOp{Type: protocol.LOCK_DATA_COMMAND_TYPE_POP, Num: int64(r.Intn(5))}
		}
	}
}

func (g *vfGen) dataOp() *vfDataOp {
	r := g.rng
	switch r.Intn(4) {
	case 0:
		return &vfDataOp{Type: protocol.LOCK_DATA_COMMAND_TYPE_SET, Val: r.Bytes(r.Range(0, 12))}
	case 1:
		return &vfDataOp{Type: protocol.LOCK_DATA_COMMAND_TYPE_UNSET}
	case 2:
		return &vfDataOp{Type: protocol.LOCK_DATA_COMMAND_TYPE_SET, Val: r.Bytes(r.Range(1, 40))}
	default:
		return &vfDataOp{Type: protocol.LOCK_DATA_COMMAND_TYPE_SET, Val: []byte("v")}
	}
}

func (g *vfGen) unlockOp() vfOp {
	r := g.rng
	op := vfOp{Kind: "unlock", Client: r.Intn(g.nClients), Db: uint8(r.Intn(g.nDbs)), Key: r.Intn(g.nKeys)}
	// prefer keys with holds
	for try := 0; try < 3; try++ {
		k := g.keyState(op.Db, op.Key)
		if k != nil && (len(k.Holds) > 0 || len(k.Waiters) > 0) {
			break
		}
		op.Db, op.Key = uint8(r.Intn(g.nDbs)), r.Intn(g.nKeys)
	}
	k := g.keyState(op.Db, op.Key)
	op.LockId = r.Intn(g.nLockIds)
	if k != nil {
		x := r.Intn(100)
		switch {
		case x < 65 && len(k.Holds) > 0:
			op.LockId = k.Holds[r.Intn(len(k.Holds))].LockId
		case x < 80 && len(k.Waiters) > 0:
			op.LockId = k.Waiters[r.Intn(len(k.Waiters))].LockId
			if r.Chance(80) {
				op.Flag |= protocol.UNLOCK_FLAG_CANCEL_WAIT_LOCK_WHEN_UNLOCKED
			}
		}
	}
	if r.Chance(6) {
		op.Flag |= protocol.UNLOCK_FLAG_UNLOCK_FIRST_LOCK_WHEN_UNLOCKED
	}
	if r.Chance(6) {
		op.Flag |= protocol.UNLOCK_FLAG_CANCEL_WAIT_LOCK_WHEN_UNLOCKED
	}
	op.Rcount = vfRcounts[r.Intn(len(vfRcounts))]
	if r.Chance(3) {
		op.TFlag |= protocol.TIMEOUT_FLAG_RCOUNT_IS_PRIORITY
	}
	if r.Chance(g.p.DataPct / 2) {
		op.Data = g.dataOpFor(op.Db, op.Key)
	}
	return op
}

func (g *vfGen) next() vfOp {
	r := g.rng
	x := r.Intn(100)
	switch {
	case x < g.p.TickPct:
		n := 1
		if r.Chance(5) {
			n = 2
		}
		return vfOp{Kind: "tick", Ticks: n}
	case x < g.p.TickPct+g.p.UnlockPct:
		return g.unlockOp()
	default:
		return g.lockOp()
	}
}
