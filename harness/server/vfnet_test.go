//go:build verif

package server

// In-memory client connections to the real Server.handle (binary and text
// protocol), shared by the connection-level checks.

import (
	"bufio"
	"bytes"
	"errors"
	"fmt"
	"io"
	"net"
	"strconv"
	"sync"
	"time"

	"github.com/snower/slock/protocol"
)

const vfNetWait = 20 * time.Second // generous watchdog; firing = inconclusive, never a verdict

type vfNetServer struct {
	in     *vfInstance
	server *Server
}

func vfStartNetServer(cfg vfInstCfg) (*vfNetServer, error) {
	in, err := vfNewLeader(cfg)
	if err != nil {
		return nil, err
	}
	srv := NewServer(in.slock)
	in.slock.server = srv
	return &vfNetServer{in: in, server: srv}, nil
}

func (s *vfNetServer) dial() (net.Conn, *Stream) {
	c, sv := net.Pipe()
	stream := NewStream(sv)
	_ = s.server.addStream(stream)
	go s.server.handle(stream)
	return c, stream
}

// ------------------------------------------------------------------ binary client

type vfBinResult struct {
	Seq     int
	Type    uint8
	ReqId   [16]byte
	Result  uint8
	LockId  [16]byte
	LockKey [16]byte
	DbId    uint8
	LCount  uint16
	LRCount uint8
	Data    []byte
	Raw     []byte
}

type vfBinConn struct {
	name    string
	conn    net.Conn
	stream  *Stream
	mu      sync.Mutex
	cond    *sync.Cond
	results []*vfBinResult
	readErr error
	tag     byte // marks the RequestIds issued by this connection
	nextReq uint64
	sent    map[[16]byte]bool
}

func (s *vfNetServer) dialBinary(name string, tag byte) *vfBinConn {
	c, st := s.dial()
	b := &vfBinConn{name: name, conn: c, stream: st, tag: tag, sent: map[[16]byte]bool{}}
	b.cond = sync.NewCond(&b.mu)
	go b.readLoop()
	return b
}

func (b *vfBinConn) readLoop() {
	br := bufio.NewReaderSize(b.conn, 65536)
	for {
		buf := make([]byte, 64)
		if _, err := io.ReadFull(br, buf); err != nil {
			b.mu.Lock()
			b.readErr = err
			b.cond.Broadcast()
			b.mu.Unlock()
			return
		}
		r := &vfBinResult{Type: buf[2], Raw: buf}
		copy(r.ReqId[:], buf[3:19])
		r.Result = buf[19]
		if r.Type == protocol.COMMAND_LOCK || r.Type == protocol.COMMAND_UNLOCK {
			lr := protocol.LockResultCommand{}
			_ = lr.Decode(buf)
			r.LockId, r.LockKey, r.DbId, r.LCount, r.LRCount = lr.LockId, lr.LockKey, lr.DbId, lr.Lcount, lr.Lrcount
			if lr.Flag&protocol.LOCK_FLAG_CONTAINS_DATA != 0 {
				hdr := make([]byte, 4)
				if _, err := io.ReadFull(br, hdr); err != nil {
					b.mu.Lock()
					b.readErr = err
					b.cond.Broadcast()
					b.mu.Unlock()
					return
				}
				n := int(uint32(hdr[0]) | uint32(hdr[1])<<8 | uint32(hdr[2])<<16 | uint32(hdr[3])<<24)
				body := make([]byte, n)
				if _, err := io.ReadFull(br, body); err != nil {
					b.mu.Lock()
					b.readErr = err
					b.cond.Broadcast()
					b.mu.Unlock()
					return
				}
				r.Data = append(hdr, body...)
			}
		} else if r.Type == protocol.COMMAND_CALL {
			cr := protocol.CallResultCommand{}
			_ = cr.Decode(buf)
			if cr.ContentLen > 0 {
				body := make([]byte, cr.ContentLen)
				if _, err := io.ReadFull(br, body); err != nil {
					b.mu.Lock()
					b.readErr = err
					b.cond.Broadcast()
					b.mu.Unlock()
					return
				}
				r.Data = body
			}
		}
		b.mu.Lock()
		r.Seq = len(b.results)
		b.results = append(b.results, r)
		b.cond.Broadcast()
		b.mu.Unlock()
	}
}

func (b *vfBinConn) reqId() [16]byte {
	b.nextReq++
	id := vfReqIdBytes(b.nextReq, int(b.tag))
	b.sent[id] = true
	return id
}

func (b *vfBinConn) write(p []byte) error {
	_ = b.conn.SetWriteDeadline(time.Now().Add(vfNetWait))
	_, err := b.conn.Write(p)
	return err
}

// sendLock writes a lock/unlock (or will) command; returns its RequestId.
func (b *vfBinConn) sendLock(cmd *protocol.LockCommand) ([16]byte, error) {
	cmd.Magic, cmd.Version = protocol.MAGIC, protocol.VERSION
	cmd.RequestId = b.reqId()
	buf := make([]byte, 64)
	if cmd.Data != nil {
		cmd.Flag |= protocol.LOCK_FLAG_CONTAINS_DATA
	}
	_ = cmd.Encode(buf)
	if cmd.Data != nil {
		buf = append(buf, cmd.Data.Data...)
	}
	return cmd.RequestId, b.write(buf)
}

// waitFor waits until a result with this RequestId has arrived.
func (b *vfBinConn) waitFor(id [16]byte) (*vfBinResult, error) {
	deadline := time.Now().Add(vfNetWait)
	b.mu.Lock()
	defer b.mu.Unlock()
	for {
		for _, r := range b.results {
			if r.ReqId == id {
				return r, nil
			}
		}
		if b.readErr != nil {
			return nil, b.readErr
		}
		if time.Now().After(deadline) {
			return nil, errors.New("watchdog: no reply within the wait limit")
		}
		t := time.AfterFunc(200*time.Millisecond, func() { b.mu.Lock(); b.cond.Broadcast(); b.mu.Unlock() })
		b.cond.Wait()
		t.Stop()
	}
}

func (b *vfBinConn) find(id [16]byte) []*vfBinResult {
	b.mu.Lock()
	defer b.mu.Unlock()
	var out []*vfBinResult
	for _, r := range b.results {
		if r.ReqId == id {
			out = append(out, r)
		}
	}
	return out
}

// barrier: a PING is answered only after every earlier frame of this
// connection has been processed (one goroutine per connection).
func (b *vfBinConn) barrier() error {
	p := protocol.NewPingCommand()
	p.RequestId = b.reqId()
	buf := make([]byte, 64)
	_ = p.Encode(buf)
	if err := b.write(buf); err != nil {
		return err
	}
	_, err := b.waitFor(p.RequestId)
	return err
}

func (b *vfBinConn) init(clientId [16]byte) error {
	c := protocol.NewInitCommand(clientId)
	c.RequestId = b.reqId()
	buf := make([]byte, 64)
	_ = c.Encode(buf)
	if err := b.write(buf); err != nil {
		return err
	}
	_, err := b.waitFor(c.RequestId)
	return err
}

// call sends a lock/unlock and waits for its terminal reply.
func (b *vfBinConn) call(cmd *protocol.LockCommand) (*vfBinResult, error) {
	id, err := b.sendLock(cmd)
	if err != nil {
		return nil, err
	}
	return b.waitFor(id)
}

// foreign lists results whose RequestId this connection never sent.
func (b *vfBinConn) foreign() []*vfBinResult {
	b.mu.Lock()
	defer b.mu.Unlock()
	var out []*vfBinResult
	for _, r := range b.results {
		if !b.sent[r.ReqId] && !(r.Type == protocol.COMMAND_INIT) {
			out = append(out, r)
		}
	}
	return out
}

func (b *vfBinConn) count() int {
	b.mu.Lock()
	defer b.mu.Unlock()
	return len(b.results)
}

func (b *vfBinConn) close() { _ = b.conn.Close() }

// ------------------------------------------------------------------ text client

type vfTextConn struct {
	name   string
	conn   net.Conn
	stream *Stream
	br     *bufio.Reader
}

func (s *vfNetServer) dialText(name string) *vfTextConn {
	c, st := s.dial()
	return &vfTextConn{name: name, conn: c, stream: st, br: bufio.NewReaderSize(c, 65536)}
}

func vfResp(args ...string) []byte {
	var b bytes.Buffer
	fmt.Fprintf(&b, "*%d\r\n", len(args))
	for _, a := range args {
		fmt.Fprintf(&b, "$%d\r\n%s\r\n", len(a), a)
	}
	return b.Bytes()
}

func (t *vfTextConn) send(args ...string) error {
	_ = t.conn.SetWriteDeadline(time.Now().Add(vfNetWait))
	_, err := t.conn.Write(vfResp(args...))
	return err
}

// vfRespValue is a parsed RESP reply.
type vfRespValue struct {
	Kind  byte // + - : $ *
	Str   string
	Int   int64
	Null  bool
	Array []*vfRespValue
}

func (v *vfRespValue) String() string {
	switch v.Kind {
	case '*':
		s := "["
		for i, e := range v.Array {
			if i > 0 {
				s += " "
			}
			s += e.String()
		}
		return s + "]"
	case ':':
		return fmt.Sprintf(":%d", v.Int)
	case '$':
		if v.Null {
			return "$nil"
		}
		return fmt.Sprintf("%q", v.Str)
	}
	return string(v.Kind) + v.Str
}

func vfReadResp(br *bufio.Reader) (*vfRespValue, error) {
	line, err := br.ReadString('\n')
	if err != nil {
		return nil, err
	}
	if len(line) < 3 || line[len(line)-2] != '\r' {
		return nil, fmt.Errorf("malformed RESP line %q", line)
	}
	body := line[1 : len(line)-2]
	v := &vfRespValue{Kind: line[0]}
	switch line[0] {
	case '+', '-':
		v.Str = body
	case ':':
		v.Int, err = strconv.ParseInt(body, 10, 64)
		if err != nil {
			return nil, fmt.Errorf("malformed RESP integer %q", line)
		}
	case '$':
		n, perr := strconv.Atoi(body)
		if perr != nil {
			return nil, fmt.Errorf("malformed RESP bulk header %q", line)
		}
		if n < 0 {
			v.Null = true
			return v, nil
		}
		buf := make([]byte, n+2)
		if _, err = io.ReadFull(br, buf); err != nil {
			return nil, err
		}
		v.Str = string(buf[:n])
	case '*':
		n, perr := strconv.Atoi(body)
		if perr != nil {
			return nil, fmt.Errorf("malformed RESP array header %q", line)
		}
		for i := 0; i < n; i++ {
			e, eerr := vfReadResp(br)
			if eerr != nil {
				return nil, eerr
			}
			v.Array = append(v.Array, e)
		}
	default:
		return nil, fmt.Errorf("malformed RESP type %q", line)
	}
	return v, nil
}

func (t *vfTextConn) read() (*vfRespValue, error) {
	_ = t.conn.SetReadDeadline(time.Now().Add(vfNetWait))
	return vfReadResp(t.br)
}

func (t *vfTextConn) call(args ...string) (*vfRespValue, error) {
	if err := t.send(args...); err != nil {
		return nil, err
	}
	return t.read()
}

func (t *vfTextConn) close() { _ = t.conn.Close() }

// vfWaitClosed waits until Server.handle has finished with the stream.
func vfWaitClosed(st *Stream) error {
	select {
	case <-st.closedWaiter:
		return nil
	case <-time.After(vfNetWait):
		return errors.New("watchdog: the server did not finish the connection within the wait limit")
	}
}

func vfKey16(s string) [16]byte {
	var k [16]byte
	copy(k[16-len(s):], s)
	return k
}
