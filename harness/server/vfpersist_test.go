//go:build verif

package server

// E4 - restart / crash-image engine on the virtual clock (shared by C07, C08
// and C16).
//
// A history is run on the E1 engine against a leader whose log goes to a
// scratch directory; the instance is stopped at a quiescent point (or images
// of its directory are taken at crash points) and a FRESH instance is started
// in-process on a copy of the directory, with its databases put on the same
// virtual clock before the log is loaded. The oracles compare canonical
// snapshots taken with the in-package census.
//
// Time: the virtual clock starts at the wall clock and only runs ahead of it,
// so the loader's wall-clock filter (records whose deadline <= time.Now() are
// skipped) can only skip holds that are already past their deadline on the
// virtual clock, and every remaining-time computation of the loader uses
// LockDB.currentTime, which the harness sets to the virtual time of the
// restart before LoadAndInit runs.

import (
	"bytes"
	"fmt"
	"io"
	"os"
	"path/filepath"
	"sort"
	"strings"
	"sync"
	"time"

	"github.com/snower/slock/protocol"
)

// ---------------------------------------------------------------- snapshots

type vfSnapHold struct {
	LockId   [16]byte
	Depth    uint8
	Count    uint16
	Rcount   uint8
	EFlag    uint16
	Deadline int64
	IsAof    bool
}

type vfSnapKey struct {
	Db       uint8
	Key      [16]byte
	Holds    []vfSnapHold
	HasData  bool
	Data     []byte
	DataType uint8
}

type vfSnapshot struct {
	Now    int64
	Keys   []*vfSnapKey
	Errors []string
}

func (s *vfSnapshot) find(db uint8, key [16]byte) *vfSnapKey {
	for _, k := range s.Keys {
		if k.Db == db && k.Key == key {
			return k
		}
	}
	return nil
}

func (k *vfSnapKey) hold(id [16]byte) *vfSnapHold {
	for i := range k.Holds {
		if k.Holds[i].LockId == id {
			return &k.Holds[i]
		}
	}
	return nil
}

func (s *vfSnapshot) holdCount() int {
	n := 0
	for _, k := range s.Keys {
		n += len(k.Holds)
	}
	return n
}

// vfSnapshotOf walks every database of the instance (census under the shard
// mutexes). Only keys that are held appear: the value of a key nobody holds is
// not part of any property.
func vfSnapshotOf(in *vfInstance) *vfSnapshot {
	s := &vfSnapshot{Now: in.now}
	for d, db := range in.slock.dbs {
		if db == nil {
			continue
		}
		c := vfTakeCensus(db)
		for _, e := range c.Errors {
			s.Errors = append(s.Errors, fmt.Sprintf("db%d: %s", d, e))
		}
		for _, k := range c.Keys {
			if len(k.Holds) == 0 {
				continue
			}
			sk := &vfSnapKey{Db: k.Db, Key: k.Key, HasData: k.HasData, Data: k.Data, DataType: k.DataType}
			for _, h := range k.Holds {
				sk.Holds = append(sk.Holds, vfSnapHold{LockId: h.LockId, Depth: h.Depth, Count: h.Count, Rcount: h.Rcount, EFlag: h.EFlag, Deadline: h.Deadline, IsAof: h.IsAof})
			}
			sort.Slice(sk.Holds, func(i, j int) bool { return bytes.Compare(sk.Holds[i].LockId[:], sk.Holds[j].LockId[:]) < 0 })
			s.Keys = append(s.Keys, sk)
		}
	}
	sort.Slice(s.Keys, func(i, j int) bool {
		if s.Keys[i].Db != s.Keys[j].Db {
			return s.Keys[i].Db < s.Keys[j].Db
		}
		return bytes.Compare(s.Keys[i].Key[:], s.Keys[j].Key[:]) < 0
	})
	return s
}

// canon renders the snapshot as a canonical string (deadlines included: two
// instances started at the same virtual time on equivalent logs must agree
// exactly).
func (s *vfSnapshot) canon() string {
	var b strings.Builder
	for _, k := range s.Keys {
		fmt.Fprintf(&b, "db%d %x data=%v:%x\n", k.Db, k.Key, k.HasData, k.Data)
		for _, h := range k.Holds {
			fmt.Fprintf(&b, "  L%x depth=%d count=%d rcount=%d eflag=%x deadline=%d\n", h.LockId, h.Depth, h.Count, h.Rcount, h.EFlag&^(protocol.EXPRIED_FLAG_ZEOR_AOF_TIME|protocol.EXPRIED_FLAG_UNLIMITED_AOF_TIME|protocol.EXPRIED_FLAG_AOF_TIME_OF_EXPRIED_PARCENT), h.Deadline)
		}
	}
	return b.String()
}

func vfSnapKeyName(k *vfSnapKey) string {
	return fmt.Sprintf("db%d/e%d.k%d", k.Db, k.Key[2], vfKeyIndex(k.Key))
}

// ---------------------------------------------------------------- compaction tracker

// vfRewriteTracker counts the compaction goroutines the server spawns (one per
// rotation on a leader, one at start-up when append files exist) and the ones
// that have finished, so that "compaction is over" is an event, not a sleep.
type vfRewriteTracker struct {
	mu       sync.Mutex
	cond     *sync.Cond
	expected int
	entered  int
	exited   int
	hits     [VP_MAX]int64
	onPoint  func(point int) // called on the goroutine that hit the point, tracker unlocked
	// wakeEvery > 0: every wakeEvery-th wake-up of an AOF channel goroutine is
	// delayed by wakeDelay before the goroutine registers itself as active
	// (widens the window in which the log's flush barrier sees no active channel
	// although records are queued)
	wakeEvery int
	wakeDelay time.Duration
	wakes     int
}

func vfNewRewriteTracker() *vfRewriteTracker {
	t := &vfRewriteTracker{}
	t.cond = sync.NewCond(&t.mu)
	return t
}

func (t *vfRewriteTracker) expect(n int) {
	t.mu.Lock()
	t.expected += n
	t.mu.Unlock()
}

// hook receives the log / compaction points (>= VP_AOF_FLUSH_MID).
func (t *vfRewriteTracker) hook(point int) {
	if point < VP_AOF_FLUSH_MID || point >= VP_MAX || point == VP_AOF_HANDLE_ENTER || point == VP_AOF_HANDLE_EXIT {
		return
	}
	t.mu.Lock()
	t.hits[point]++
	switch point {
	case VP_REWRITE_FILE_OPENED:
		t.expected++ // a leader's rotation always spawns a compaction
	case VP_REWRITE_ENTER:
		t.entered++
	}
	cb := t.onPoint
	delay := time.Duration(0)
	if point == VP_AOF_CHANNEL_WAKE && t.wakeEvery > 0 {
		t.wakes++
		if t.wakes%t.wakeEvery == 0 {
			delay = t.wakeDelay
		}
	}
	t.mu.Unlock()
	if delay > 0 {
		time.Sleep(delay)
	}
	if cb != nil {
		cb(point)
	}
	if point == VP_REWRITE_EXIT {
		t.mu.Lock()
		t.exited++
		t.cond.Broadcast()
		t.mu.Unlock()
	}
}

// wait blocks until every compaction that was spawned has finished.
func (t *vfRewriteTracker) wait() {
	t.mu.Lock()
	for t.exited < t.expected {
		t.cond.Wait()
	}
	t.mu.Unlock()
}

func (t *vfRewriteTracker) idle() bool {
	t.mu.Lock()
	defer t.mu.Unlock()
	return t.exited >= t.expected
}

// ---------------------------------------------------------------- directories

func vfCopyDir(src, dst string) error {
	if err := os.MkdirAll(dst, 0755); err != nil {
		return err
	}
	ents, err := os.ReadDir(src)
	if err != nil {
		return err
	}
	for _, e := range ents {
		if e.IsDir() {
			continue
		}
		if err := vfCopyFile(filepath.Join(src, e.Name()), filepath.Join(dst, e.Name())); err != nil {
			if os.IsNotExist(err) {
				continue // removed by a concurrent compaction between ReadDir and open
			}
			return err
		}
	}
	return nil
}

func vfCopyFile(src, dst string) error {
	in, err := os.Open(src)
	if err != nil {
		return err
	}
	defer in.Close()
	out, err := os.Create(dst)
	if err != nil {
		return err
	}
	_, err = io.Copy(out, in)
	cerr := out.Close()
	if err != nil {
		return err
	}
	return cerr
}

func vfDirListing(dir string) string {
	ents, _ := os.ReadDir(dir)
	var parts []string
	for _, e := range ents {
		if fi, err := e.Info(); err == nil {
			parts = append(parts, fmt.Sprintf("%s(%d)", e.Name(), fi.Size()))
		}
	}
	sort.Strings(parts)
	return strings.Join(parts, " ")
}

// vfAppendIndexes lists the indexes of the append files of a directory in
// ascending order.
func vfAppendIndexes(dir string) []int {
	ents, _ := os.ReadDir(dir)
	var idx []int
	for _, e := range ents {
		n := e.Name()
		if strings.HasPrefix(n, "append.aof.") && !strings.HasSuffix(n, ".dat") {
			var i int
			if _, err := fmt.Sscanf(n[11:], "%d", &i); err == nil && fmt.Sprint(i) == n[11:] {
				idx = append(idx, i)
			}
		}
	}
	sort.Ints(idx)
	return idx
}

// ---------------------------------------------------------------- start / stop

// vfE4Epoch is the virtual time at which an E4 history starts: one hour ahead
// of the wall clock. The loader and the compaction skip records whose deadline
// is not after time.Now(); with the virtual clock ahead of the wall clock by
// more than any case can last, that filter can only skip holds that are long
// past their deadline on the virtual clock too, whatever the load on the
// machine. (A hold whose deadline falls into the outage is then loaded with a
// remaining time of 0 instead of being skipped.)
func vfE4Epoch() int64 { return time.Now().Unix() + 3600 }

// vfStartAt starts a fresh leader on dir at virtual time now. The returned
// instance is non-nil even when the start failed (so that it can be closed).
func vfStartAt(base vfInstCfg, dir string, now int64, tr *vfRewriteTracker) (*vfInstance, error) {
	cfg := base
	cfg.Dir = dir
	cfg.Now = now
	cfg.Manual = true
	if len(vfAppendIndexes(dir)) > 0 {
		tr.expect(1) // LoadAndInit spawns a start-up compaction when append files exist
	}
	verifHook = tr.hook
	in, err := vfNewLeader(cfg)
	if err != nil {
		// the loader gave up before the compaction goroutine was spawned
		tr.mu.Lock()
		if tr.expected > tr.entered {
			tr.expected = tr.entered
		}
		tr.cond.Broadcast()
		tr.mu.Unlock()
	}
	return in, err
}

// vfStop brings an instance to the state of a stopped process whose
// persistence queue has drained: log flushed, compactions finished, goroutines
// ended, file closed.
func vfStop(in *vfInstance, tr *vfRewriteTracker) {
	if in == nil {
		return
	}
	if !in.abandoned {
		vfAofQuiesce(in)
		tr.wait()
	}
	in.Close()
}

// vfRecover starts a fresh instance on a copy of image at virtual time now,
// waits for the start-up compaction, takes the snapshot and stops the instance.
func vfRecover(base vfInstCfg, image, workdir string, now int64, hook func(point int)) (*vfSnapshot, error) {
	_ = os.RemoveAll(workdir)
	if err := vfCopyDir(image, workdir); err != nil {
		return nil, fmt.Errorf("harness: copy image: %v", err)
	}
	defer os.RemoveAll(workdir)
	tr := vfNewRewriteTracker()
	tr.onPoint = hook
	in, err := vfStartAt(base, workdir, now, tr)
	if err != nil {
		if in != nil {
			in.Close()
		}
		return nil, err
	}
	vfAofQuiesce(in)
	tr.wait()
	snap := vfSnapshotOf(in)
	vfStop(in, tr)
	return snap, nil
}

// ---------------------------------------------------------------- workload phases

func vfE4Profile() vfProfile {
	return vfProfile{Name: "e4", NKeys: [2]int{1, 4}, NDbs: 2, NLockIds: [2]int{3, 8}, NClients: [2]int{1, 4}, Steps: [2]int{30, 110},
		TickPct: 24, UnlockPct: 22, InjectPct: 4, BigTime: 12, PrioPct: 5, DataPct: 35, UpdatePct: 8, NoWWU: true, Typed: true}
}

type vfValVersion struct {
	Step    int
	HasData bool
	Data    []byte
}

// vfE4Phase is one workload phase on one instance.
type vfE4Phase struct {
	in     *vfInstance
	eng    *vfEngine
	sh     *vfShadow
	gen    *vfGen
	tr     *vfRewriteTracker
	epoch  byte
	step   int
	vers   map[vfKeyId][]vfValVersion
	seenAt map[*vfHold]int // index into vers[key] when the hold was first seen (after its own operation)
	joined map[*vfHold]bool // the key had other holders when this hold was granted (or at the start of the step in which it was granted)
	heldBefore map[vfKeyId]bool // key was held at the end of the previous step
	stepStart  map[vfKeyId]int // index of the value version each key had when the current step began
	relocked   map[vfKeyId]bool // some hold of the key was re-locked (re-entrant) or updated during the phase
	gapped     map[vfKeyId]bool // key was released by everybody and taken again during the phase
	everHeld   map[vfKeyId]bool
	// compactions are run between two top-level steps (the goroutine is parked at
	// its entry point until the step that triggered the rotation is over), so a
	// history replays; C16 explores compaction concurrent with operations
	gmu      sync.Mutex
	gates    []chan struct{}
	gateOpen bool
	onAof    func(point int)
	logRecs  []vfLogRec // records of the log at the stop (set by the caller before the comparison; attribution only)
	manualCompaction bool // C16: the caller drives the compaction goroutines itself (through onAof)
	stats  map[string]int64
}

func vfNewE4Phase(in *vfInstance, rng *vfRand, prof *vfProfile, epoch byte, tr *vfRewriteTracker) *vfE4Phase {
	vfKeyEpoch = epoch
	p := &vfE4Phase{in: in, tr: tr, epoch: epoch, vers: map[vfKeyId][]vfValVersion{}, seenAt: map[*vfHold]int{}, joined: map[*vfHold]bool{}, heldBefore: map[vfKeyId]bool{}, stepStart: map[vfKeyId]int{}, relocked: map[vfKeyId]bool{}, gapped: map[vfKeyId]bool{}, everHeld: map[vfKeyId]bool{}, stats: map[string]int64{}}
	p.eng = vfNewEngine(in, rng, 4)
	p.eng.onAofPoint = tr.hook
	tr.onPoint = func(point int) {
		if p.onAof != nil {
			p.onAof(point)
		}
		if point != VP_REWRITE_ENTER {
			return
		}
		p.gmu.Lock()
		if p.gateOpen || p.manualCompaction {
			p.gmu.Unlock()
			return
		}
		ch := make(chan struct{})
		p.gates = append(p.gates, ch)
		p.gmu.Unlock()
		<-ch
	}
	p.sh = vfNewShadow(p.eng)
	// the value of a key is also recorded at every reply: several grants with
	// value operations can happen inside one step and the log record of each
	// carries the value of that moment
	prevOnEvent := p.eng.onEvent
	p.eng.onEvent = func(ev *vfEvent) {
		if prevOnEvent != nil {
			prevOnEvent(ev)
		}
		if ev.Key >= 0 {
			p.sampleKeyValue(vfKeyId{ev.Db, ev.Key})
		}
	}
	p.gen = vfNewGen(rng, prof, p.sh)
	p.eng.injectPct = prof.InjectPct
	if prof.InjectPct > 0 {
		p.eng.injector = func(e *vfEngine, point int) {
			op := p.gen.next()
			if op.Kind == "tick" {
				op = p.gen.lockOp()
			}
			e.submit(op)
		}
	}
	return p
}

// runTop runs one top-level step and brings the log to rest (every record the
// step produced is in the file before the next step starts).
func (p *vfE4Phase) runTop(op vfOp) {
	if op.Kind == "tick" {
		p.eng.doTick(op.Ticks)
	} else {
		p.eng.submit(op)
	}
	p.step++
	vfAofQuiesce(p.in)
	if !p.manualCompaction {
		p.runCompactions()
	}
	p.sh.quiescent()
	p.sample()
}

// vfReadKeyValue reads the current value of a key under its shard mutex.
func vfReadKeyValue(db *LockDB, key [16]byte) (bool, []byte) {
	cmd := &protocol.LockCommand{}
	cmd.LockKey = key
	m := db.GetLockManager(cmd)
	if m == nil {
		return false, nil
	}
	m.glock.LowPriorityLock()
	defer m.glock.LowPriorityUnlock()
	if m.lockKey != key || m.currentData == nil {
		return false, nil
	}
	var d []byte
	if x := m.currentData.GetData(); x != nil {
		d = append([]byte(nil), x...)
	}
	return true, d
}

func (p *vfE4Phase) sampleKeyValue(kid vfKeyId) {
	if int(kid.Db) >= len(p.in.dbs) {
		return
	}
	has, data := vfReadKeyValue(p.in.dbs[kid.Db], vfKeyBytes(kid.Db, kid.Key))
	vs := p.vers[kid]
	if len(vs) == 0 || vs[len(vs)-1].HasData != has || !bytes.Equal(vs[len(vs)-1].Data, data) {
		p.vers[kid] = append(vs, vfValVersion{Step: p.step, HasData: has, Data: data})
	}
}

// keyRelocked: some request of the phase re-locked or updated a hold of the key, or carried the
// update flag (its log record then goes through the update branch of the compaction's HasLock).
func (p *vfE4Phase) keyRelocked(db uint8, key int) bool {
	if p.relocked[vfKeyId{db, key}] {
		return true
	}
	for i := range p.eng.opLog {
		op := &p.eng.opLog[i]
		if op.Kind == "lock" && op.Db == db && op.Key == key && op.Flag&protocol.LOCK_FLAG_UPDATE_WHEN_LOCKED != 0 {
			return true
		}
	}
	return false
}

// runCompactions lets every compaction that a rotation has spawned so far run
// to completion while the engine waits.
func (p *vfE4Phase) runCompactions() {
	p.gmu.Lock()
	if len(p.gates) == 0 && p.tr.idle() {
		p.gmu.Unlock()
		return
	}
	p.gateOpen = true
	for _, ch := range p.gates {
		close(ch)
	}
	p.gates = nil
	p.gmu.Unlock()
	p.tr.wait()
	p.gmu.Lock()
	p.gateOpen = false
	p.gmu.Unlock()
	p.stats["compactions_between_steps"]++
}

// sample records the value of every held key of this phase (from the census)
// and the value version each new hold started from.
func (p *vfE4Phase) sample() {
	var cens = map[uint8]*vfCensus{}
	for kid, k := range p.sh.keys {
		if len(k.Holds) == 0 {
			continue
		}
		c := cens[kid.Db]
		if c == nil {
			if int(kid.Db) >= len(p.in.dbs) {
				continue
			}
			c = vfTakeCensus(p.in.dbs[kid.Db])
			cens[kid.Db] = c
		}
		ck := c.find(kid.Db, vfKeyBytes(kid.Db, kid.Key))
		if ck == nil {
			continue
		}
		vs := p.vers[kid]
		// several grants and value operations can happen inside one step (wake-up
		// chains, injected operations): a hold first seen now may have been
		// persisted before the step's last value change, so its lower bound is the
		// version the step started from
		startIdx, known := p.stepStart[kid]
		if !known || startIdx >= len(vs) {
			startIdx = 0
		}
		if len(vs) == 0 || vs[len(vs)-1].HasData != ck.HasData || !bytes.Equal(vs[len(vs)-1].Data, ck.Data) {
			vs = append(vs, vfValVersion{Step: p.step, HasData: ck.HasData, Data: ck.Data})
			p.vers[kid] = vs
		}
		for i, h := range k.Holds {
			if _, ok := p.seenAt[h]; !ok {
				p.seenAt[h] = startIdx
				p.joined[h] = i > 0 || p.heldBefore[kid]
			}
		}
	}
	for kid := range p.sh.keys {
		if n := len(p.vers[kid]); n > 0 {
			p.stepStart[kid] = n - 1
		}
	}
	for kid, k := range p.sh.keys {
		for _, h := range k.Holds {
			if h.Grants > 1 || h.WasUpdated {
				p.relocked[kid] = true
			}
		}
		held := len(k.Holds) > 0
		if held && !p.heldBefore[kid] && p.everHeld[kid] {
			p.gapped[kid] = true
		}
		if held {
			p.everHeld[kid] = true
		}
		p.heldBefore[kid] = held
	}
}

func (p *vfE4Phase) run(steps int) {
	for i := 0; i < steps; i++ {
		p.runTop(p.gen.next())
	}
}

// ---------------------------------------------------------------- expectations (C07 oracle)

type vfE4Expect struct {
	Kid      vfKeyId
	KeyBytes [16]byte
	LockId   [16]byte
	Hold     *vfHold
	Snap     vfSnapHold // as the stopped instance held it
	Must     bool       // counts as persisted and is clearly alive at the restart
	Never    bool       // taken with the never-persist flag (and never re-termed without it)
	Why      string
	Plain    bool // one grant, never updated: Count / Rcount / depth must be exactly those of the request
	Oldest   bool
	Joined   bool // granted while the key had other holders
}

// persistClass classifies a hold by the persistence flags of the requests that
// set its terms.
func vfPersistClass(e *vfEngine, h *vfHold) (immediate, never, mixed, parcent bool) {
	ids := append([]uint64{}, h.Chain...)
	if len(ids) == 0 {
		ids = []uint64{h.Req}
	}
	nNever, nImm := 0, 0
	for _, id := range ids {
		r := e.reqs[id]
		if r == nil {
			mixed = true
			continue
		}
		if r.Op.EFlag&protocol.EXPRIED_FLAG_UNLIMITED_AOF_TIME != 0 {
			nNever++
		}
		if r.Op.EFlag&protocol.EXPRIED_FLAG_ZEOR_AOF_TIME != 0 {
			nImm++
		}
		if r.Op.EFlag&protocol.EXPRIED_FLAG_AOF_TIME_OF_EXPRIED_PARCENT != 0 {
			parcent = true
		}
	}
	never = nNever == len(ids)
	if nNever > 0 && !never {
		mixed = true
	}
	first := e.reqs[ids[0]]
	immediate = first != nil && first.Op.EFlag&protocol.EXPRIED_FLAG_ZEOR_AOF_TIME != 0 && nNever == 0
	if nImm > 0 && nImm != len(ids) && !immediate {
		mixed = true
	}
	return
}

// expectations derives, from what the clients of the phase were told, which
// holds must / may / must not be held again after a restart at virtual time now.
func (p *vfE4Phase) expectations(snap *vfSnapshot, aofTime uint, now int64) []*vfE4Expect {
	var out []*vfE4Expect
	kids := make([]vfKeyId, 0, len(p.sh.keys))
	for kid := range p.sh.keys {
		kids = append(kids, kid)
	}
	sort.Slice(kids, func(i, j int) bool {
		if kids[i].Db != kids[j].Db {
			return kids[i].Db < kids[j].Db
		}
		return kids[i].Key < kids[j].Key
	})
	for _, kid := range kids {
		k := p.sh.keys[kid]
		kb := vfKeyBytes(kid.Db, kid.Key)
		sk := snap.find(kid.Db, kb)
		for hi, h := range k.Holds {
			ex := &vfE4Expect{Kid: kid, KeyBytes: kb, LockId: vfLockIdBytes(h.LockId), Hold: h, Oldest: hi == 0, Joined: p.joined[h]}
			var sh *vfSnapHold
			if sk != nil {
				sh = sk.hold(ex.LockId)
			}
			if sh == nil {
				p.stats["shadow_hold_missing_in_census"]++
				continue
			}
			ex.Snap = *sh
			imm, never, mixed, parcent := vfPersistClass(p.eng, h)
			ex.Never = never && !mixed
			ex.Plain = h.Grants == 1 && !h.WasUpdated
			// a deadline may move by one unit of its granularity plus a second over a
			// restart, so only a hold further than that from its deadline has to survive
			alive := h.Unlimited || h.DLo > now+vfDeadlineTolerance(sh.EFlag)
			age := p.in.now - h.GrantTick
			switch {
			case mixed || never || h.AckPending:
			case !alive:
			case parcent && !imm:
				// delay = a share of the expiry time: may or may not be persisted yet
			case imm || aofTime == 0:
				ex.Must, ex.Why = true, "persist-immediately"
			case !parcent && age >= vfPersistedByAge(aofTime):
				ex.Must, ex.Why = true, fmt.Sprintf("older than the persistence delay (age %d s, delay %d s, sweeper visit due at age %d s)", age, aofTime, vfPersistedByAge(aofTime)-2)
			}
			out = append(out, ex)
		}
	}
	return out
}

// vfPersistedByAge: a hold that is not persisted at once is persisted by the
// expiry sweeper at its first visit on or after the configured delay; the
// sweeper revisits a hold 1, 3, 6, 10, ... s after the grant. The hold has to be
// in the log 2 s (sweep granularity) after that visit.
func vfPersistedByAge(aofTime uint) int64 {
	v := int64(0)
	for n := int64(1); n < 100; n++ {
		v += n
		if v >= int64(aofTime) {
			break
		}
	}
	return v + 2
}

type vfE4Finding struct {
	Clause string
	Sig    string
	Detail string
}

func vfDeadlineTolerance(eflag uint16) int64 {
	if eflag&protocol.EXPRIED_FLAG_MINUTE_TIME != 0 {
		return 61
	}
	return 2
}

// vfLoaderSkips mirrors the age filter of Aof.LoadAofFile: a record whose own deadline has passed is not replayed
func vfLoaderSkips(r *vfLogRec, now int64) bool {
	switch {
	case r.ExpriedFlag&protocol.EXPRIED_FLAG_MILLISECOND_TIME != 0:
		return int64(r.CommandTime+uint64(r.ExpriedTime)/1000) <= now
	case r.ExpriedFlag&protocol.EXPRIED_FLAG_MINUTE_TIME != 0:
		return int64(r.CommandTime+uint64(r.ExpriedTime)*60) <= now
	case r.ExpriedFlag&protocol.EXPRIED_FLAG_UNLIMITED_EXPRIED_TIME == 0:
		return r.ExpriedTime > 0 && int64(r.CommandTime+uint64(r.ExpriedTime)) <= now
	}
	return false
}

// replayOrderRefuses: second manifestation of the open finding "the loader re-admits the holds of the log one
// by one through the normal admission rule": the records are in persistence order, not in grant order, and the
// UNLOCK record of a holder that has left comes after the LOCK records of holders that joined while it was
// there. When the LOCK record of this hold is replayed, do the records before it leave more holds on the key
// than the hold's own Count admits?
func (p *vfE4Phase) replayOrderRefuses(db uint8, key, lockId [16]byte, now int64) bool {
	depth := map[[16]byte]int{}
	count := map[[16]byte]uint16{}
	var order [][16]byte // holders in the order the replay admits them (the first one alive is "the oldest holder")
	for _, r := range p.logRecs {
		if r.Db != db || r.Key != key || vfLoaderSkips(&r, now) {
			continue
		}
		if r.Cmd == protocol.COMMAND_LOCK {
			if r.LockId == lockId && depth[lockId] == 0 {
				others := 0
				for id, d := range depth {
					if id != lockId {
						others += d
					}
				}
				// the admission rule: the holds already outstanding number at most the request's Count and at
				// most the Count of the key's oldest outstanding holder - which, in replay order, may be another
				// hold than in the history (one that was granted later, or one that has left since)
				if r.Count < 0xffff && others > int(r.Count) {
					return true
				}
				for _, id := range order {
					if depth[id] > 0 {
						if c := count[id]; c < 0xffff && others > int(c) {
							return true
						}
						break
					}
				}
			}
			if depth[r.LockId] == 0 {
				order = append(order, r.LockId)
				count[r.LockId] = r.Count
			}
			depth[r.LockId]++
		} else if r.Cmd == protocol.COMMAND_UNLOCK {
			if r.Rcount == 0 || depth[r.LockId] <= 1 {
				delete(depth, r.LockId)
			} else {
				depth[r.LockId]--
			}
		}
	}
	return false
}

// explicitlyReleased: the last thing the clients were told about this LockId on this key in the phase
// is the SUCCED of an UNLOCK that left depth 0
func (p *vfE4Phase) explicitlyReleased(db uint8, key int, lockId int) bool {
	for i := len(p.eng.events) - 1; i >= 0; i-- {
		ev := p.eng.events[i]
		if ev.Db != db || ev.Key != key || ev.LockId != lockId || ev.Foreign {
			continue
		}
		return ev.CmdType == protocol.COMMAND_UNLOCK && ev.Result == protocol.RESULT_SUCCED && ev.LRCount == 0
	}
	return false
}

// vfCompareRestart is the C07 oracle: after (snapshot of the stopped instance,
// expectations from the client-side history) vs restored (snapshot of the
// fresh instance).
func vfCompareRestart(p *vfE4Phase, before *vfSnapshot, exps []*vfE4Expect, restored *vfSnapshot, epoch byte, stats map[string]int64) []vfE4Finding {
	var fs []vfE4Finding
	add := func(clause, sig, format string, args ...interface{}) {
		fs = append(fs, vfE4Finding{Clause: clause, Sig: sig, Detail: fmt.Sprintf(format, args...)})
	}
	expOf := func(db uint8, key, lockId [16]byte) *vfE4Expect {
		for _, e := range exps {
			if e.Kid.Db == db && e.KeyBytes == key && e.LockId == lockId {
				return e
			}
		}
		return nil
	}
	// Known finding "re-locked-or-updated-hold": every LOCK record of a hold is
	// replayed with the remaining time of that record; a re-entrant re-lock or an
	// update extends the hold but leaves the older records behind, which are
	// skipped once their own deadline has passed, so depth, terms and deadline
	// of such a hold are rebuilt from a suffix of its records (and other holds of
	// the key are re-admitted against those terms).
	relockSig := func(db uint8, key [16]byte) string {
		if key[2] != epoch {
			return ""
		}
		if p.relocked[vfKeyId{db, vfKeyIndex(key)}] {
			return "re-locked-or-updated-hold"
		}
		for i := range p.eng.opLog {
			op := &p.eng.opLog[i]
			if op.Kind == "lock" && op.Db == db && op.Key == vfKeyIndex(key) && op.Flag&protocol.LOCK_FLAG_UPDATE_WHEN_LOCKED != 0 {
				return "re-locked-or-updated-hold"
			}
		}
		return ""
	}
	add0 := add
	add = func(clause, sig, format string, args ...interface{}) {
		add0(clause, sig, format, args...)
	}
	for _, e := range restored.Errors {
		add("structure", "", "structural inconsistency in the restored instance: %s", e)
	}
	// every restored hold was held by the stopped instance, with the same terms
	for _, rk := range restored.Keys {
		if rk.Key[2] != epoch {
			continue
		}
		bk := before.find(rk.Db, rk.Key)
		for _, rh := range rk.Holds {
			var bh *vfSnapHold
			if bk != nil {
				bh = bk.hold(rh.LockId)
			}
			if bh == nil {
				sig := relockSig(rk.Db, rk.Key)
				if sig != "" && p.explicitlyReleased(rk.Db, vfKeyIndex(rk.Key), vfLockIdIndex(rh.LockId)) {
					// the known finding rebuilds depth / terms of a re-locked hold from a suffix of its LOCK
					// records; it does not bring back a hold whose complete release by an UNLOCK the client
					// was told (the UNLOCK record removes whatever the replay has rebuilt)
					sig = ""
				}
				add("restored-not-held", sig, "%s L%d is held after the restart (depth %d, Count %d) but was not held when the instance stopped", vfSnapKeyName(rk), vfLockIdIndex(rh.LockId), rh.Depth, rh.Count)
				continue
			}
			stats["restored_holds"]++
			ex := expOf(rk.Db, rk.Key, rh.LockId)
			if ex != nil && ex.Never {
				add("never-persist-restored", relockSig(rk.Db, rk.Key), "%s L%d was taken with the never-persist flag (granted while the key had other holders: %v) but is held again after the restart", vfSnapKeyName(rk), vfLockIdIndex(rh.LockId), ex.Joined)
			}
			unlimB := bh.EFlag&protocol.EXPRIED_FLAG_UNLIMITED_EXPRIED_TIME != 0
			unlimR := rh.EFlag&protocol.EXPRIED_FLAG_UNLIMITED_EXPRIED_TIME != 0
			if unlimB != unlimR {
				add("deadline", relockSig(rk.Db, rk.Key), "%s L%d: unlimited-expiry flag before=%v after=%v", vfSnapKeyName(rk), vfLockIdIndex(rh.LockId), unlimB, unlimR)
			} else if !unlimB {
				tol := vfDeadlineTolerance(bh.EFlag)
				if rh.Deadline > bh.Deadline+tol || rh.Deadline < bh.Deadline-tol {
					add("deadline", relockSig(rk.Db, rk.Key), "%s L%d: deadline before the stop %d, after the restart %d (difference %+d s, tolerance %d s; restart at %d)", vfSnapKeyName(rk), vfLockIdIndex(rh.LockId), bh.Deadline, rh.Deadline, rh.Deadline-bh.Deadline, tol, restored.Now)
				}
				stats["deadlines_compared"]++
			}
			if ex != nil && ex.Must {
				if rh.Count != bh.Count || rh.Rcount != bh.Rcount {
					add("terms", relockSig(rk.Db, rk.Key), "%s L%d: Count/Rcount before the stop %d/%d, after the restart %d/%d", vfSnapKeyName(rk), vfLockIdIndex(rh.LockId), bh.Count, bh.Rcount, rh.Count, rh.Rcount)
				}
				if rh.Depth != bh.Depth {
					sig := relockSig(rk.Db, rk.Key)
					if sig != "" && p.logRecs != nil && rh.Depth < bh.Depth {
						// the known finding is about LOCK records that are in the log but are
						// skipped / re-interpreted by the replay; a log that does not even contain
						// one LOCK record per level of the hold is something else
						net := 0
						compacted := false
						for _, r := range p.logRecs {
							if r.File == "rewrite.aof" {
								// a compaction has run: which records of re-locked holds it keeps is
								// part of the known finding (C16)
								compacted = true
							}
							if r.Db == rk.Db && r.Key == rk.Key && r.LockId == rh.LockId {
								if r.Cmd == 1 {
									net++
								} else if r.Cmd == 2 {
									net = vfMaxInt(net-1, 0)
								}
							}
						}
						if net < int(bh.Depth) && !compacted {
							sig = ""
						}
					}
					add("depth", sig, "%s L%d: re-entrant depth before the stop %d, after the restart %d (SUCCED lock replies for this hold: %d)", vfSnapKeyName(rk), vfLockIdIndex(rh.LockId), bh.Depth, rh.Depth, ex.Hold.Grants)
				}
				stats["must_holds_compared"]++
			}
		}
	}
	// every hold that counts as persisted and is clearly alive is held again
	mustKeys := map[vfKeyId]int{}
	for _, ex := range exps {
		if !ex.Must {
			if ex.Never {
				stats["never_persist_holds"]++
			} else {
				stats["may_holds"]++
			}
			continue
		}
		stats["must_holds"]++
		rk := restored.find(ex.Kid.Db, ex.KeyBytes)
		var rh *vfSnapHold
		if rk != nil {
			rh = rk.hold(ex.LockId)
		}
		if rh == nil {
			sig := ""
			if bk := before.find(ex.Kid.Db, ex.KeyBytes); bk != nil {
				depth, cmin := 0, 0x10000
				for _, bh := range bk.Holds {
					depth += int(bh.Depth)
					if int(bh.Count) < cmin {
						cmin = int(bh.Count)
					}
				}
				if rs := relockSig(ex.Kid.Db, ex.KeyBytes); rs != "" {
					sig = rs
				} else if depth-1 > cmin || p.replayOrderRefuses(ex.Kid.Db, ex.KeyBytes, ex.LockId, restored.Now) {
					// the key is held by more holders than the smallest Count among them
					// admits (legitimate once an older holder with a larger Count has left):
					// the loader re-admits the holds one by one through the normal rule
					sig = "key-held-by-more-than-its-smallest-count-admits"
				}
			}
			add("persisted-hold-lost", sig, "db%d/k%d L%d (%s; granted while the key had other holders: %v; marked persisted by the server: %v; deadline %d, restart at %d) is not held after the restart", ex.Kid.Db, ex.Kid.Key, ex.Hold.LockId, ex.Why, ex.Joined, ex.Snap.IsAof, ex.Snap.Deadline, restored.Now)
			continue
		}
		if at, ok := p.seenAt[ex.Hold]; ok && at > mustKeys[ex.Kid] {
			mustKeys[ex.Kid] = at
		} else if _, ok := mustKeys[ex.Kid]; !ok {
			mustKeys[ex.Kid] = 0
		}
	}
	// attached value: one of the versions the key went through since its newest
	// must-persisted hold was taken
	for kid, from := range mustKeys {
		rk := restored.find(kid.Db, vfKeyBytes(kid.Db, kid.Key))
		if rk == nil {
			continue
		}
		if p.gapped[kid] {
			// the key was not held for a while: how long the server remembers the
			// value of a key nobody holds is outside every property, so the value the
			// next holder found (and the replayed log finds) is not determined
			stats["values_skipped_key_was_unheld_in_between"]++
			continue
		}
		vs := p.vers[kid]
		if len(vs) == 0 {
			continue
		}
		if from < 0 || from >= len(vs) {
			from = 0
		}
		ok := false
		for _, v := range vs[from:] {
			if v.HasData == rk.HasData && bytes.Equal(v.Data, rk.Data) {
				ok = true
				break
			}
			if !v.HasData && rk.HasData && len(rk.Data) == 0 || v.HasData && len(v.Data) == 0 && !rk.HasData {
				ok = true // "no value" and "value unset" are the same observable state
				break
			}
		}
		stats["values_compared"]++
		if len(vs[from:]) > 1 {
			stats["values_with_several_admissible_versions"]++
		}
		if !ok {
			if pv, err1 := vfParseValue(rk.Data); err1 == nil || !rk.HasData {
				for _, v := range vs[from:] {
					if ov, err2 := vfParseValue(v.Data); (err2 == nil || !v.HasData) && vfValEqual(pv, ov) {
						ok = true // same value, different stored representation (e.g. empty vs none)
					}
				}
			}
		}
		if !ok {
			last := vs[len(vs)-1]
			sig := ""
			for i := range p.eng.opLog {
				op := &p.eng.opLog[i]
				if op.Db == kid.Db && op.Key == kid.Key && op.Data != nil && op.Data.Type == protocol.LOCK_DATA_COMMAND_TYPE_PIPELINE {
					// the record of a request that carries a PIPELINE logs the pipeline itself (a
					// relative operation), every other record logs the resulting value
					sig = "pipeline-logged-as-an-operation"
				}
			}
			if sig == "" {
				sig = relockSig(kid.Db, vfKeyBytes(kid.Db, kid.Key))
			}
			add("value", sig, "db%d/k%d: value after the restart %v:%x is none of the %d version(s) the key had since its newest persisted hold was taken (value at the stop %v:%x)", kid.Db, kid.Key, rk.HasData, rk.Data, len(vs[from:]), last.HasData, last.Data)
		}
	}
	return fs
}

// ---------------------------------------------------------------- debugging aid

// vfDumpAofDir prints the records of every log file of a directory (VERIF_E4_DEBUG=1).
func vfDumpAofDir(dir string, title string) {
	if os.Getenv("VERIF_E4_DEBUG") == "" {
		return
	}
	fmt.Print(vfAofDirText(dir, title))
}

// vfAofDirText renders the records of every log file of a directory.
func vfAofDirText(dir string, title string) string {
	var sb strings.Builder
	fmt.Fprintf(&sb, "E4DEBUG ---- %s: %s\n", title, vfDirListing(dir))
	names := []string{}
	if _, err := os.Stat(filepath.Join(dir, "rewrite.aof")); err == nil {
		names = append(names, "rewrite.aof")
	}
	for _, i := range vfAppendIndexes(dir) {
		names = append(names, fmt.Sprintf("append.aof.%d", i))
	}
	for _, n := range names {
		b, err := os.ReadFile(filepath.Join(dir, n))
		if err != nil {
			continue
		}
		dat, _ := os.ReadFile(filepath.Join(dir, n+".dat"))
		dpos := 0
		for off := 12; off+64 <= len(b); off += 64 {
			l := NewAofLock()
			copy(l.buf, b[off:off+64])
			_ = l.Decode()
			if l.AofFlag&AOF_FLAG_CONTAINS_DATA != 0 && dpos+4 <= len(dat) {
				dl := int(dat[dpos]) | int(dat[dpos+1])<<8 | int(dat[dpos+2])<<16 | int(dat[dpos+3])<<24
				if dpos+4+dl <= len(dat) {
					fmt.Fprintf(&sb, "E4DEBUG     data %x\n", dat[dpos:dpos+4+dl])
				}
				dpos += 4 + dl
			}
			fmt.Fprintf(&sb, "E4DEBUG   %s@%d cmd=%d id=%d/%d t=%d db%d e%d.k%d L%d aofflag=%04x eflag=%04x exp=%d count=%d rcount=%d flag=%02x\n", n, off, l.CommandType, l.AofIndex, l.AofOffset, l.CommandTime, l.DbId, l.LockKey[2], vfKeyIndex(l.LockKey), vfLockIdIndex(l.LockId), l.AofFlag, l.ExpriedFlag, l.ExpriedTime, l.Count, l.Rcount, l.Flag)
		}
		if (len(b)-12)%64 != 0 {
			fmt.Fprintf(&sb, "E4DEBUG   %s has %d trailing bytes\n", n, (len(b)-12)%64)
		}
	}
	return sb.String()
}

// ---------------------------------------------------------------- log file geometry (C08)

type vfAofGeom struct {
	Index    int   // index of the append file
	Records  int   // whole records in the file
	Trailing int   // bytes after the last whole record
	DatOff   []int // DatOff[k] = bytes of the value file that belong to records < k (len Records+1)
	DatSize  int
	DatOK    bool // the value file is exactly as long as the records say
}

// vfAofGeometry reads the newest append file of dir and the lengths of the
// values its records refer to (independent of the server's reader: fixed
// 12-byte header, 64-byte records, "contains data" = bit 0x2000 of the
// little-endian uint16 at offset 55, values = 4-byte little-endian length +
// body in <file>.dat).
func vfAofGeometry(dir string) (*vfAofGeom, error) {
	idx := vfAppendIndexes(dir)
	if len(idx) == 0 {
		return nil, fmt.Errorf("no append file")
	}
	g := &vfAofGeom{Index: idx[len(idx)-1]}
	name := filepath.Join(dir, fmt.Sprintf("append.aof.%d", g.Index))
	b, err := os.ReadFile(name)
	if err != nil {
		return nil, err
	}
	dat, _ := os.ReadFile(name + ".dat")
	g.DatSize = len(dat)
	if len(b) < 12 {
		return g, nil
	}
	g.Records = (len(b) - 12) / 64
	g.Trailing = (len(b) - 12) % 64
	pos := 0
	g.DatOK = true
	g.DatOff = append(g.DatOff, 0)
	for k := 0; k < g.Records; k++ {
		rec := b[12+64*k : 12+64*k+64]
		if (uint16(rec[55])|uint16(rec[56])<<8)&0x2000 != 0 {
			if pos+4 > len(dat) {
				g.DatOK = false
				g.DatOff = append(g.DatOff, pos)
				continue
			}
			dl := int(dat[pos]) | int(dat[pos+1])<<8 | int(dat[pos+2])<<16 | int(dat[pos+3])<<24
			if pos+4+dl > len(dat) {
				g.DatOK = false
				g.DatOff = append(g.DatOff, pos)
				continue
			}
			pos += 4 + dl
		}
		g.DatOff = append(g.DatOff, pos)
	}
	if pos != len(dat) {
		g.DatOK = false
	}
	return g, nil
}

// vfCutImage copies dir to dst with the newest append file cut to fileSize
// bytes and its value file to datSize bytes.
func vfCutImage(dir, dst string, g *vfAofGeom, fileSize, datSize int) error {
	_ = os.RemoveAll(dst)
	if err := vfCopyDir(dir, dst); err != nil {
		return err
	}
	name := filepath.Join(dst, fmt.Sprintf("append.aof.%d", g.Index))
	if err := os.Truncate(name, int64(fileSize)); err != nil {
		return err
	}
	return os.Truncate(name+".dat", int64(datSize))
}

// vfCompareCarried: holds that a restart restored are in the log; unless they
// have (almost) reached their deadline they must be held again after the
// next restart, unchanged.
func vfCompareCarried(carried, before, restored *vfSnapshot, now int64, sigFn func(db uint8, key [16]byte) string, stats map[string]int64) []vfE4Finding {
	var fs []vfE4Finding
	if carried == nil {
		return fs
	}
	for _, ck := range carried.Keys {
		for _, ch := range ck.Holds {
			bk := before.find(ck.Db, ck.Key)
			var bh *vfSnapHold
			if bk != nil {
				bh = bk.hold(ch.LockId)
			}
			if bh == nil {
				continue // ended by time during the phase
			}
			unl := bh.EFlag&protocol.EXPRIED_FLAG_UNLIMITED_EXPRIED_TIME != 0
			if !(unl || bh.Deadline > now+vfDeadlineTolerance(bh.EFlag)) {
				continue
			}
			stats["carried_holds_expected"]++
			rk := restored.find(ck.Db, ck.Key)
			var rh *vfSnapHold
			if rk != nil {
				rh = rk.hold(ch.LockId)
			}
			sig := ""
			if sigFn != nil {
				sig = sigFn(ck.Db, ck.Key)
			}
			if sig == "skip" {
				stats["carried_holds_skipped_relocked_key"]++
				continue
			}
			if rh == nil {
				fs = append(fs, vfE4Finding{Clause: "carried-hold-lost", Sig: sig, Detail: fmt.Sprintf("%s L%d was restored by the previous restart and is still alive (deadline %d, restart at %d) but is not held after this restart", vfSnapKeyName(ck), vfLockIdIndex(ch.LockId), bh.Deadline, now)})
				continue
			}
			tol := vfDeadlineTolerance(bh.EFlag)
			if rh.Depth != bh.Depth || rh.Count != bh.Count || rh.Rcount != bh.Rcount || (!unl && (rh.Deadline > bh.Deadline+tol || rh.Deadline < bh.Deadline-tol)) {
				fs = append(fs, vfE4Finding{Clause: "carried-hold-changed", Sig: sig, Detail: fmt.Sprintf("%s L%d: before the stop depth/Count/Rcount/deadline %d/%d/%d/%d, after the restart %d/%d/%d/%d", vfSnapKeyName(ck), vfLockIdIndex(ch.LockId), bh.Depth, bh.Count, bh.Rcount, bh.Deadline, rh.Depth, rh.Count, rh.Rcount, rh.Deadline)})
			}
		}
	}
	return fs
}

// ---------------------------------------------------------------- log records (attribution of findings)

type vfLogRec struct {
	File    string
	Cmd     uint8
	Db      uint8
	Key     [16]byte
	LockId  [16]byte
	AofFlag uint16
	Flag    uint8
	Count   uint16
	Rcount  uint8
	CommandTime uint64
	ExpriedTime uint16
	ExpriedFlag uint16
	AofIndex, AofOffset uint32
}

// vfReadLogRecords decodes the records of every log file of dir in load order.
func vfReadLogRecords(dir string) []vfLogRec {
	var out []vfLogRec
	names := []string{}
	if _, err := os.Stat(filepath.Join(dir, "rewrite.aof")); err == nil {
		names = append(names, "rewrite.aof")
	}
	for _, i := range vfAppendIndexes(dir) {
		names = append(names, fmt.Sprintf("append.aof.%d", i))
	}
	for _, n := range names {
		b, err := os.ReadFile(filepath.Join(dir, n))
		if err != nil {
			continue
		}
		for off := 12; off+64 <= len(b); off += 64 {
			l := NewAofLock()
			copy(l.buf, b[off:off+64])
			_ = l.Decode()
			out = append(out, vfLogRec{File: n, Cmd: l.CommandType, Db: l.DbId, Key: l.LockKey, LockId: l.LockId, AofFlag: l.AofFlag, Flag: l.Flag, Count: l.Count, Rcount: l.Rcount, CommandTime: l.CommandTime, ExpriedTime: l.ExpriedTime, ExpriedFlag: l.ExpriedFlag, AofIndex: l.AofIndex, AofOffset: l.AofOffset})
		}
	}
	return out
}

func vfMaxInt(a, b int) int {
	if a > b {
		return a
	}
	return b
}
