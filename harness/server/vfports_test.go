//go:build verif

package server

// Loopback TCP helpers of the cluster engines. A thorough run starts thousands of short-lived
// node processes and connections; sockets in TIME_WAIT can use up the ephemeral port range for a
// minute. Running out of ports says nothing about the server: the helpers wait for ports to come
// back (bounded), and connections owned by the harness are closed with a reset so that they do not
// linger.

import (
	"net"
	"strings"
	"time"
)

func vfPortsBusy(err error) bool {
	if err == nil {
		return false
	}
	s := err.Error()
	return strings.Contains(s, "address already in use") || strings.Contains(s, "cannot assign requested address")
}

// vfRetryPorts runs f until it succeeds, fails for another reason than port exhaustion, or 2 minutes have passed.
func vfRetryPorts(f func() error) error {
	var err error
	for i := 0; i < 120; i++ {
		if err = f(); !vfPortsBusy(err) {
			return err
		}
		time.Sleep(time.Second)
	}
	return err
}

func vfListenLoopback() (net.Listener, error) {
	var ln net.Listener
	err := vfRetryPorts(func() error {
		var e error
		ln, e = net.Listen("tcp", "127.0.0.1:0")
		return e
	})
	return ln, err
}

func vfDialLoopback(addr string, timeout time.Duration) (net.Conn, error) {
	var c net.Conn
	err := vfRetryPorts(func() error {
		var e error
		c, e = net.DialTimeout("tcp", addr, timeout)
		return e
	})
	if err == nil {
		if tc, ok := c.(*net.TCPConn); ok {
			_ = tc.SetLinger(0)
		}
	}
	return c, err
}
