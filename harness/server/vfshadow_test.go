//go:build verif

package server

// Shadow table and trace oracles for the core command subset (C01-C06, C17,
// C03). The shadow is updated ONLY from observed replies / notices and from
// "request returned without a reply" (= queued), so it describes what the
// clients were told. Oracles compare each reply with the shadow state at the
// moment the reply is observed; with injection restricted to settled yield
// points the reply order equals the critical-section order, which makes the
// comparison exact.

import (
	"fmt"
	"sort"
	"strings"

	"github.com/snower/slock/protocol"
)

type vfHold struct {
	LockId          int
	Depth           int
	Count           uint16
	Rcount          uint8
	Prio            bool
	GrantTick       int64
	Unlimited       bool
	DLo, DHi        int64 // possible values of the server-side deadline (expriedTime)
	Sticky          bool  // a terms change may have shortened the deadline
	Chain           []uint64
	AckPending      bool
	FromQueue       bool
	PendRelock      bool   // the pending acknowledgement belongs to a re-entrant re-lock of an established hold
	PrevReq         uint64 // request that held the terms before the pending re-lock
	PendTick        int64
	Grants          int // number of SUCCED lock replies (1 + re-locks)
	WasUpdated      bool
	Req             uint64
	overdueReported bool
}

type vfWaiter struct {
	Req             uint64
	LockId          int
	Count           uint16
	Prio            uint8
	ArriveSeq       int
	ArriveTick      int64
	TSecs           int64
	WWU             bool // wait-when-unlocked flag
	Client          int
	Cancelled       bool
	Expried         uint16
	EFlag           uint16
	Rcount          uint8
	TFlag           uint16
	overdueReported bool
}

type vfKeyId struct {
	Db  uint8
	Key int
}

type vfKeyState struct {
	Holds   []*vfHold
	Waiters []*vfWaiter
	// C04 attribution: index of the first event of the current top-level
	// step after which the head waiter has been continuously admissible
	admSince    int
	admCause    string
	admReported bool
	lastCause   string
	endKind     string // what ended the last hold on this key: unlock | expiry | rollback
	admEndKind  string
}

func (k *vfKeyState) depth() int {
	d := 0
	for _, h := range k.Holds {
		d += h.Depth
	}
	return d
}
func (k *vfKeyState) hold(lockId int) *vfHold {
	for _, h := range k.Holds {
		if h.LockId == lockId {
			return h
		}
	}
	return nil
}
func (k *vfKeyState) removeHold(h *vfHold) {
	for i, x := range k.Holds {
		if x == h {
			k.Holds = append(k.Holds[:i:i], k.Holds[i+1:]...)
			return
		}
	}
}
func (k *vfKeyState) waiterByReq(req uint64) *vfWaiter {
	for _, w := range k.Waiters {
		if w.Req == req {
			return w
		}
	}
	return nil
}
func (k *vfKeyState) waiterByLockId(lockId int) *vfWaiter {
	var found *vfWaiter
	for _, w := range k.Waiters {
		if w.LockId == lockId && !w.Cancelled {
			found = w
		}
	}
	return found
}
func (k *vfKeyState) removeWaiter(w *vfWaiter) {
	for i, x := range k.Waiters {
		if x == w {
			k.Waiters = append(k.Waiters[:i:i], k.Waiters[i+1:]...)
			return
		}
	}
}
func (k *vfKeyState) hasWWU() bool {
	for _, w := range k.Waiters {
		if w.WWU {
			return true
		}
	}
	return false
}

// specHead: head of the specification queue (priority desc, arrival asc) among
// live waiters.
func (k *vfKeyState) specHead() *vfWaiter {
	var best *vfWaiter
	for _, w := range k.Waiters {
		if w.Cancelled {
			continue
		}
		if best == nil || w.Prio > best.Prio || (w.Prio == best.Prio && w.ArriveSeq < best.ArriveSeq) {
			best = w
		}
	}
	return best
}

// vfAdmissible is the reference admission predicate.
func vfAdmissible(depth int, oldestCount uint16, reqCount uint16) bool {
	if depth == 0 {
		return true
	}
	if reqCount == 0 {
		return false
	}
	if depth >= 0xffff {
		return depth < 0x7fffffff && oldestCount == 0xffff && reqCount == 0xffff
	}
	return depth <= int(oldestCount) && depth <= int(reqCount)
}

type vfFinding struct {
	Prop   string
	Clause string
	Sig    string
	Detail string
}

type vfShadow struct {
	e              *vfEngine
	keys           map[vfKeyId]*vfKeyState
	findings       []vfFinding
	stats          map[string]int64
	stepStartEvent int
	checkLCount    bool
	arriveSeq      int
	// per request bookkeeping for the ledger
	terminal map[uint64]int  // number of terminal replies
	notices  map[uint64]int  // number of EXPRIED notices
	chainOf  map[uint64]bool // requests that set the terms of some hold (may draw EXPRIED)
	// C03 routing
	misrouted int
	// which keys were touched in this step (C04 evaluation)
	touched map[vfKeyId]bool
	noMs    bool
	// value oracle (C15): evApplied is set by the reply handlers when the
	// reply means that the request's value operation was executed
	evApplied     bool
	onValue       func(kid vfKeyId, k *vfKeyState, r *vfReq, ev *vfEvent, applied bool)
	onAckAdmit    func(kid vfKeyId, r *vfReq)
	onAckRollback func(kid vfKeyId, r *vfReq)
	onAckGrant    func(kid vfKeyId, k *vfKeyState, r *vfReq, ev *vfEvent) // SUCCED of a require-ack grant (C11 log check)
	ackMark       bool                                                    // set by handlers: this event is the completion of an ack-pending hold
	faultSig      string                                                  // non-empty once a fault was injected into this script: signature given to later findings
}

func vfNewShadow(e *vfEngine) *vfShadow {
	s := &vfShadow{e: e, keys: map[vfKeyId]*vfKeyState{}, stats: map[string]int64{}, terminal: map[uint64]int{}, notices: map[uint64]int{}, chainOf: map[uint64]bool{}, touched: map[vfKeyId]bool{}, checkLCount: true}
	e.onEvent = s.onEvent
	e.onQueued = s.onQueued
	e.onHook = func(point int) {
		if e.ackMode && point == VP_WAKE_LOOP {
			for kid, k := range s.keys {
				s.syncAckAdmissions(kid, k)
			}
		}
	}
	return s
}

func (s *vfShadow) key(id vfKeyId) *vfKeyState {
	k := s.keys[id]
	if k == nil {
		k = &vfKeyState{admSince: -1}
		s.keys[id] = k
	}
	return k
}

func (s *vfShadow) report(prop, clause, sig, format string, args ...interface{}) {
	if s.faultSig != "" && (sig == "" || strings.HasPrefix(sig, "rollback-")) {
		// after an injected log-write failure the rollback itself is what the documented finding is about
		sig = s.faultSig
	}
	s.findings = append(s.findings, vfFinding{Prop: prop, Clause: clause, Sig: sig, Detail: fmt.Sprintf(format, args...)})
}

func vfSecs(v uint16, flag uint16, minuteBit uint16) int64 {
	if flag&minuteBit != 0 {
		return int64(v) * 60
	}
	return int64(v)
}

func vfPrioOf(op *vfOp) (bool, uint8) {
	if op.TFlag&protocol.TIMEOUT_FLAG_RCOUNT_IS_PRIORITY != 0 {
		return true, op.Rcount
	}
	return false, 0
}

// onQueued: the request returned from the server without any reply: it is
// either queued or (require-ack) granted pending acknowledgement.
func (s *vfShadow) onQueued(r *vfReq) {
	op := &r.Op
	if op.Kind != "lock" {
		s.report("C03", "no-reply", "", "unlock request %d returned without a reply", r.ID)
		return
	}
	kid := vfKeyId{op.Db, op.Key}
	k := s.key(kid)
	s.touched[kid] = true
	if op.TFlag&protocol.TIMEOUT_FLAG_REQUIRE_ACKED != 0 {
		if h := k.hold(op.LockId); h != nil && !h.AckPending && op.Flag&protocol.LOCK_FLAG_UPDATE_WHEN_LOCKED == 0 && op.Flag&protocol.LOCK_FLAG_SHOW_WHEN_LOCKED == 0 {
			// re-entrant re-lock awaiting acknowledgement: the depth is already
			// raised, the reply follows the acknowledgement
			prio, _ := vfPrioOf(op)
			if prio || h.Depth > int(op.Rcount) || h.Depth >= 0xff || op.Expried == 0 {
				s.report("C02", "reentry-pending-not-allowed", "", "require-ack request %d on held L%d was left pending although a re-lock is not allowed (depth %d, Rcount %d)", r.ID, op.LockId, h.Depth, op.Rcount)
			}
			h.Depth++
			h.AckPending, h.PendRelock, h.PrevReq, h.Req, h.PendTick = true, true, h.Req, r.ID, s.e.in.now
			s.stats["ack_pending_relocks"]++
			s.evApplied = true
			if s.onAckAdmit != nil {
				s.onAckAdmit(kid, r)
			}
			s.noteCause(k, "terms-change")
			return
		}
		// classify through the census: ack-pending hold or queued
		if s.isAckPendingInServer(op, r) {
			prio, _ := vfPrioOf(op)
			h := &vfHold{LockId: op.LockId, Depth: 1, Count: op.Count, Rcount: op.Rcount, Prio: prio, GrantTick: s.e.in.now, AckPending: true, Chain: []uint64{r.ID}, Req: r.ID}
			s.setDeadline(h, op, true)
			k.Holds = append(k.Holds, h)
			s.stats["ack_pending_grants"]++
			s.noteCause(k, "grant")
			if s.onAckAdmit != nil {
				s.onAckAdmit(kid, r)
			}
			return
		}
	}
	_, prio := vfPrioOf(op)
	s.arriveSeq++
	w := &vfWaiter{Req: r.ID, LockId: op.LockId, Count: op.Count, Prio: prio, ArriveSeq: s.arriveSeq, ArriveTick: s.e.in.now,
		TSecs: vfSecs(op.Timeout, op.TFlag, protocol.TIMEOUT_FLAG_MINUTE_TIME), WWU: op.TFlag&protocol.TIMEOUT_FLAG_LOCK_WAIT_WHEN_UNLOCK != 0,
		Client: op.Client, Expried: op.Expried, EFlag: op.EFlag, Rcount: op.Rcount, TFlag: op.TFlag}
	if op.Timeout == 0 {
		s.report("C05", "zero-timeout-queued", "", "request %d with timeout 0 was left without a reply (queued)", r.ID)
	}
	k.Waiters = append(k.Waiters, w)
	s.stats["queued"]++
	if len(k.Waiters) > int(s.stats["max_queue_len"]) {
		s.stats["max_queue_len"] = int64(len(k.Waiters))
	}
	s.noteCause(k, "queued")
	s.evalAdmissible(k, len(s.e.events))
}

// syncAckAdmissions: a queued require-ack request that a wake-up pass admits
// becomes a hold awaiting acknowledgement WITHOUT any reply; the shadow learns
// it from the census (observation of the server's own state, under its lock).
func (s *vfShadow) syncAckAdmissions(kid vfKeyId, k *vfKeyState) {
	n := 0
	for _, w := range k.Waiters {
		if w.TFlag&protocol.TIMEOUT_FLAG_REQUIRE_ACKED != 0 && !w.Cancelled {
			n++
		}
	}
	if n == 0 {
		return
	}
	db := s.e.in.dbs[kid.Db]
	c := vfTakeCensus(db)
	ck := c.find(kid.Db, vfKeyBytes(kid.Db, kid.Key))
	if ck == nil {
		return
	}
	for _, w := range append([]*vfWaiter(nil), k.Waiters...) {
		if w.TFlag&protocol.TIMEOUT_FLAG_REQUIRE_ACKED == 0 || w.Cancelled {
			continue
		}
		rid := vfReqIdBytes(w.Req, w.Client)
		for _, h := range ck.Holds {
			if h.ReqId == rid && h.AckWait {
				r := s.e.reqs[w.Req]
				prio, _ := vfPrioOf(&r.Op)
				nh := &vfHold{LockId: w.LockId, Depth: 1, Count: w.Count, Rcount: w.Rcount, Prio: prio, GrantTick: s.e.in.now, AckPending: true, Chain: []uint64{w.Req}, Req: w.Req, FromQueue: true}
				s.setDeadline(nh, &r.Op, true)
				// order rule for the admission itself
				if !k.hasWWU() {
					for _, o := range k.Waiters {
						if o == w || o.Cancelled {
							continue
						}
						if o.Prio > w.Prio || (o.Prio == w.Prio && o.ArriveSeq < w.ArriveSeq) {
							s.report("C04", "overtake", "", "queued require-ack request %d was admitted before request %d", w.Req, o.Req)
							break
						}
					}
				}
				var oldest uint16
				if len(k.Holds) > 0 {
					oldest = k.Holds[0].Count
				}
				if !vfAdmissible(k.depth(), oldest, w.Count) {
					s.report("C01", "admission", "", "queued require-ack request %d (Count=%d) admitted while %d holds outstanding (oldest Count=%d)", w.Req, w.Count, k.depth(), oldest)
				}
				k.removeWaiter(w)
				k.Holds = append(k.Holds, nh)
				s.stats["ack_pending_from_queue"]++
				s.noteCause(k, "grant")
				if s.onAckAdmit != nil {
					s.onAckAdmit(kid, r)
				}
				break
			}
		}
	}
}

func (s *vfShadow) isAckPendingInServer(op *vfOp, r *vfReq) bool {
	db := s.e.in.dbs[op.Db]
	c := vfTakeCensus(db)
	ck := c.find(op.Db, vfKeyBytes(op.Db, op.Key))
	if ck == nil {
		return false
	}
	rid := vfReqIdBytes(r.ID, op.Client)
	for _, h := range ck.Holds {
		if h.ReqId == rid && h.AckWait {
			return true
		}
	}
	return false
}

// setDeadline sets the hold's deadline from op's expiry terms at the current tick.
func (s *vfShadow) setDeadline(h *vfHold, op *vfOp, certain bool) {
	now := s.e.in.now
	if op.EFlag&protocol.EXPRIED_FLAG_UNLIMITED_EXPRIED_TIME != 0 {
		if op.Expried == 0xffff && h.Grants > 0 {
			return // keep the current deadline (terms only)
		}
		h.Unlimited = true
		h.DLo, h.DHi = 1<<62, 1<<62
		return
	}
	d := now + vfSecs(op.Expried, op.EFlag, protocol.EXPRIED_FLAG_MINUTE_TIME) + 1
	if (h.Grants > 0 || h.WasUpdated) && (h.Unlimited || d < h.DHi) {
		// the entry may keep an older (later) wheel slot
		h.Sticky = true
	}
	h.Unlimited = false
	if certain {
		h.DLo, h.DHi = d, d
	} else {
		if d < h.DLo {
			h.DLo = d
		}
		if d > h.DHi {
			h.DHi = d
		}
	}
}

func (s *vfShadow) noteCause(k *vfKeyState, cause string) {
	k.lastCause = cause
	if cause == "hold-end" {
		// a hold end must be followed by a wake-up pass: start a new episode
		k.admSince = -1
		k.admReported = false
	}
}

func (s *vfShadow) onEvent(ev *vfEvent) {
	s.stats["events"]++
	if ev.Foreign {
		s.report("C03", "misrouted", "", "connection c%d received a reply with a RequestId it did not send: %s", ev.Client, ev.String())
		return
	}
	r := s.e.reqs[ev.Req]
	if r == nil {
		s.report("C03", "unknown-request", "", "reply for unknown request: %s", ev.String())
		return
	}
	op := &r.Op
	if ev.Client != op.Client {
		s.report("C03", "misrouted", "", "reply for request %d of c%d delivered to c%d", r.ID, op.Client, ev.Client)
	}
	if ev.Key != op.Key || ev.Db != op.Db {
		s.report("C03", "wrong-key", "", "reply names key db%d/k%d but request %d was for db%d/k%d", ev.Db, ev.Key, r.ID, op.Db, op.Key)
		return
	}
	kid := vfKeyId{op.Db, op.Key}
	k := s.key(kid)
	s.touched[kid] = true
	if s.e.ackMode {
		s.syncAckAdmissions(kid, k)
	}
	s.evApplied = false
	s.ackMark = false
	if ev.Result == protocol.RESULT_EXPRIED {
		s.notices[r.ID]++
		s.handleExpried(k, r, ev)
	} else {
		s.terminal[r.ID]++
		if s.terminal[r.ID] > 1 {
			s.report("C03", "duplicate-terminal", "", "request %d received a second terminal reply: %s", r.ID, ev.String())
			return
		}
		if s.notices[r.ID] > 0 {
			s.report("C03", "notice-before-terminal", "", "request %d received EXPRIED before its terminal reply", r.ID)
		}
		if op.Kind == "lock" {
			s.handleLockReply(k, r, ev)
		} else {
			s.handleUnlockReply(k, r, ev)
		}
	}
	s.stats["res_"+vfResName(ev.Result)]++
	if s.onValue != nil {
		s.onValue(kid, k, r, ev, s.evApplied)
	}
	// C17: counts carried by the reply
	if s.checkLCount {
		s.checkCounts(k, r, ev)
	}
	s.evalAdmissible(k, ev.Seq)
}

func (s *vfShadow) checkCounts(k *vfKeyState, r *vfReq, ev *vfEvent) {
	switch ev.Result {
	case protocol.RESULT_SUCCED, protocol.RESULT_LOCKED_ERROR, protocol.RESULT_TIMEOUT, protocol.RESULT_EXPRIED, protocol.RESULT_UNLOCK_ERROR, protocol.RESULT_UNOWN_ERROR, protocol.RESULT_ERROR:
	default:
		return
	}
	d := k.depth()
	if d < 0xffff && int(ev.LCount) != d {
		s.report("C17", "lcount", "", "reply LCount=%d but %d holds are outstanding on the key after it: %s", ev.LCount, d, ev.String())
	}
	s.stats["lcount_checked"]++
	switch ev.Result {
	case protocol.RESULT_SUCCED, protocol.RESULT_EXPRIED:
	case protocol.RESULT_LOCKED_ERROR:
		if r.Op.Kind != "lock" {
			return
		}
	default:
		return
	}
	want := 0
	if h := k.hold(ev.LockId); h != nil {
		want = h.Depth
	}
	if r.Op.Kind == "lock" && ev.Result == protocol.RESULT_SUCCED && r.Op.Expried == 0 && want == 0 {
		return // zero-expiry success takes no hold; LRCount is 0
	}
	if int(ev.LRCount) != want {
		s.report("C17", "lrcount", "", "reply LRCount=%d but LockId L%d has depth %d after it: %s", ev.LRCount, ev.LockId, want, ev.String())
	}
	s.stats["lrcount_checked"]++
}

func (s *vfShadow) handleExpried(k *vfKeyState, r *vfReq, ev *vfEvent) {
	h := k.hold(ev.LockId)
	if h == nil {
		s.report("C03", "expried-without-hold", "", "EXPRIED notice for L%d which holds nothing: %s", ev.LockId, ev.String())
		return
	}
	if s.terminal[r.ID] == 0 {
		s.report("C03", "notice-before-terminal", "", "EXPRIED under request %d which has no terminal reply yet", r.ID)
	}
	inChain := false
	for _, c := range h.Chain {
		if c == r.ID {
			inChain = true
		}
	}
	if !inChain {
		s.report("C03", "expried-wrong-request", "", "EXPRIED for L%d carries RequestId %d, accepted %v: %s", ev.LockId, r.ID, h.Chain, ev.String())
	}
	if s.notices[r.ID] > 1 {
		s.report("C03", "duplicate-notice", "", "request %d drew a second EXPRIED", r.ID)
	}
	now := s.e.in.now
	if h.Unlimited {
		s.report("C06", "unlimited-expired", "", "hold L%d with unlimited expiry was ended by time at tick %d", h.LockId, now)
	} else {
		if now < h.DLo {
			sig := ""
			s.report("C06", "early", sig, "hold L%d ended at tick %d, before its deadline %d (terms set so that E had not passed)", h.LockId, now, h.DLo)
		}
		hi := h.DHi + 1
		if h.Sticky {
			hi = h.DHi + 10
		}
		if now > hi {
			s.report("C06", "late", "", "hold L%d ended at tick %d, later than allowed %d (deadline %d sticky=%v)", h.LockId, now, hi, h.DHi, h.Sticky)
		}
		s.stats["expiries_timed"]++
		if h.Sticky {
			s.stats["expiries_sticky"]++
		}
	}
	if h.AckPending {
		s.stats["expried_while_ack_pending"]++
	}
	k.removeHold(h)
	s.stats["expiries"]++
	k.endKind = "expiry"
	s.noteCause(k, "hold-end")
}

func (s *vfShadow) newHold(k *vfKeyState, r *vfReq, ev *vfEvent, fromQueue bool) {
	op := &r.Op
	d := k.depth()
	var oldest uint16
	if len(k.Holds) > 0 {
		oldest = k.Holds[0].Count
	}
	if !vfAdmissible(d, oldest, op.Count) {
		s.report("C01", "admission", "", "request %d (Count=%d) granted as new holder while %d holds outstanding (oldest Count=%d): %s", r.ID, op.Count, d, oldest, ev.String())
	}
	if d > 0 {
		s.stats["grants_beside_holders"]++
	}
	s.stats["grants_new_holder"]++
	if d+1 > int(s.stats["max_depth"]) {
		s.stats["max_depth"] = int64(d + 1)
	}
	prio, _ := vfPrioOf(op)
	h := &vfHold{LockId: op.LockId, Depth: 1, Count: op.Count, Rcount: op.Rcount, Prio: prio, GrantTick: s.e.in.now, Chain: []uint64{r.ID}, Req: r.ID}
	s.setDeadline(h, op, true)
	h.Grants = 1
	s.chainOf[r.ID] = true
	k.Holds = append(k.Holds, h)
	if len(k.Holds) > int(s.stats["max_holders"]) {
		s.stats["max_holders"] = int64(len(k.Holds))
	}
	s.noteCause(k, "grant")
}

func (s *vfShadow) handleLockReply(k *vfKeyState, r *vfReq, ev *vfEvent) {
	op := &r.Op
	w := k.waiterByReq(r.ID)
	switch ev.Result {
	case protocol.RESULT_SUCCED:
		if h := k.hold(ev.LockId); h != nil && w == nil {
			if h.AckPending && h.Req == r.ID && h.PendRelock {
				h.AckPending, h.PendRelock = false, false
				prio, _ := vfPrioOf(op)
				h.Count, h.Rcount, h.Prio = op.Count, op.Rcount, prio
				saved := s.e.in.now
				s.e.in.now = h.PendTick
				s.setDeadline(h, op, true)
				s.e.in.now = saved
				h.Grants++
				h.Chain = []uint64{r.ID}
				s.chainOf[r.ID] = true
				s.stats["ack_relocks_completed"]++
				s.stats["ack_completed"]++
				s.ackMark = true
				if s.onAckGrant != nil {
					s.onAckGrant(vfKeyId{op.Db, op.Key}, k, r, ev)
				}
				return
			}
			if h.AckPending && h.Req == r.ID {
				// acknowledgement completed
				h.AckPending = false
				h.Grants = 1
				s.chainOf[r.ID] = true
				s.setDeadlineAt(h, op, h.GrantTick)
				s.stats["ack_completed"]++
				s.ackMark = true
				if s.onAckGrant != nil {
					s.onAckGrant(vfKeyId{op.Db, op.Key}, k, r, ev)
				}
				return
			}
			if h.AckPending {
				s.report("C11", "relock-while-ack-pending", "", "request %d succeeded on L%d which awaits acknowledgement", r.ID, ev.LockId)
				return
			}
			// re-entrant
			prio, _ := vfPrioOf(op)
			if prio {
				s.report("C02", "priority-reentered", "", "priority-flagged request %d re-entered L%d", r.ID, ev.LockId)
			}
			if h.Depth > int(op.Rcount) {
				s.report("C02", "reentry-beyond-rcount", "", "request %d (Rcount=%d) re-entered L%d at depth %d", r.ID, op.Rcount, ev.LockId, h.Depth)
			}
			if h.Depth >= 0xff {
				s.report("C02", "reentry-beyond-255", "", "request %d re-entered L%d at depth %d", r.ID, ev.LockId, h.Depth)
			}
			if op.Expried == 0 {
				s.stats["relock_query"]++
				return // query: nothing changes
			}
			s.evApplied = true
			h.Depth++
			h.Count, h.Rcount, h.Prio = op.Count, op.Rcount, prio
			s.setDeadline(h, op, true)
			h.Grants++
			h.Chain = []uint64{r.ID}
			s.chainOf[r.ID] = true
			s.stats["relocks"]++
			if h.Depth > int(s.stats["max_reentrant_depth"]) {
				s.stats["max_reentrant_depth"] = int64(h.Depth)
			}
			s.noteCause(k, "terms-change")
			return
		}
		if w != nil {
			// granted from the queue: order rule
			if !k.hasWWU() {
				for _, o := range k.Waiters {
					if o == w || o.Cancelled {
						continue
					}
					if o.Prio > w.Prio || (o.Prio == w.Prio && o.ArriveSeq < w.ArriveSeq) {
						s.report("C04", "overtake", "", "queued request %d (prio %d, arrival %d) was granted before request %d (prio %d, arrival %d)", w.Req, w.Prio, w.ArriveSeq, o.Req, o.Prio, o.ArriveSeq)
						break
					}
				}
				s.stats["queue_grants_order_checked"]++
			}
			if w.Cancelled {
				s.report("C02", "cancelled-then-granted", "", "request %d was cancelled and then granted", r.ID)
			}
			if w.TFlag&protocol.TIMEOUT_FLAG_MILLISECOND_TIME == 0 && s.e.in.now > w.ArriveTick+w.TSecs+2 {
				s.report("C05", "granted-after-deadline", "", "request %d queued at tick %d with timeout %ds was granted at tick %d, after its time-out deadline %d had passed without a TIMEOUT", r.ID, w.ArriveTick, w.TSecs, s.e.in.now, w.ArriveTick+w.TSecs+2)
			}
			s.evApplied = true
			k.removeWaiter(w)
			s.stats["grants_from_queue"]++
			if op.Expried > 0 {
				s.newHold(k, r, ev, true)
			} else {
				s.noteCause(k, "grant")
			}
			return
		}
		s.evApplied = true
		if op.Expried > 0 {
			live := 0
			for _, o := range k.Waiters {
				if !o.Cancelled && !o.WWU {
					live++
				}
			}
			if live > 0 {
				s.stats["newcomer_granted_past_waiters"]++
			}
			s.newHold(k, r, ev, false)
		} else {
			s.stats["zero_expiry_success"]++
		}
	case protocol.RESULT_LOCKED_ERROR:
		if w != nil {
			s.report("C03", "queued-locked-error", "", "queued request %d answered LOCKED_ERROR", r.ID)
			k.removeWaiter(w)
			return
		}
		if op.Flag&protocol.LOCK_FLAG_UPDATE_WHEN_LOCKED != 0 {
			if h := k.hold(ev.LockId); h != nil && !h.AckPending {
				s.evApplied = true
				s.applyUpdate(k, h, r)
			}
		}
	case protocol.RESULT_TIMEOUT:
		now := s.e.in.now
		if w != nil {
			if w.TFlag&protocol.TIMEOUT_FLAG_MILLISECOND_TIME == 0 {
				lo := w.ArriveTick + w.TSecs + 1
				if now < lo {
					s.report("C05", "early", "", "request %d queued at tick %d with timeout %ds answered TIMEOUT at tick %d (< %d)", r.ID, w.ArriveTick, w.TSecs, now, lo)
				}
				if now > lo+1 {
					s.report("C05", "late", "", "request %d queued at tick %d with timeout %ds answered TIMEOUT at tick %d (> %d)", r.ID, w.ArriveTick, w.TSecs, now, lo+1)
				}
				s.stats["timeouts_timed"]++
				if w.TSecs > 36 {
					s.stats["timeouts_long_table"]++
				}
			}
			if w.Cancelled {
				s.report("C05", "cancelled-then-timeout", "", "request %d was cancelled and then answered TIMEOUT", r.ID)
			}
			k.removeWaiter(w)
			s.stats["timeouts"]++
			s.noteCause(k, "waiter-left")
			return
		}
		if h := k.hold(ev.LockId); h != nil && h.AckPending && h.Req == r.ID {
			k.removeHold(h)
			s.stats["ack_timeouts"]++
			k.endKind = "rollback"
			s.noteCause(k, "hold-end")
			if s.onAckRollback != nil {
				s.onAckRollback(vfKeyId{op.Db, op.Key}, r)
			}
			return
		}
		if op.Timeout > 0 && !(op.Flag&protocol.LOCK_FLAG_CONCURRENT_CHECK != 0) {
			s.report("C05", "immediate-timeout", "", "request %d with timeout %d answered TIMEOUT without waiting", r.ID, op.Timeout)
		}
		s.stats["immediate_timeouts"]++
	case protocol.RESULT_UNLOCK_ERROR:
		if w != nil && w.Cancelled {
			k.removeWaiter(w)
			s.stats["cancelled"]++
			return
		}
		s.report("C02", "lock-unlock-error", "", "lock request %d answered UNLOCK_ERROR without having been cancelled", r.ID)
		if w != nil {
			k.removeWaiter(w)
		}
	case protocol.RESULT_ERROR:
		if h := k.hold(ev.LockId); h != nil && h.AckPending && h.Req == r.ID && h.PendRelock {
			h.AckPending, h.PendRelock = false, false
			h.Depth--
			h.Req = h.PrevReq
			s.stats["ack_relocks_failed"]++
			s.stats["ack_failed"]++
			k.endKind = "rollback"
			s.noteCause(k, "hold-end")
			if s.onAckRollback != nil {
				s.onAckRollback(vfKeyId{op.Db, op.Key}, r)
			}
			return
		}
		if h := k.hold(ev.LockId); h != nil && h.AckPending && h.Req == r.ID {
			k.removeHold(h)
			s.stats["ack_failed"]++
			k.endKind = "rollback"
			s.noteCause(k, "hold-end")
			if s.onAckRollback != nil {
				s.onAckRollback(vfKeyId{op.Db, op.Key}, r)
			}
			return
		}
		if w != nil && w.TFlag&protocol.TIMEOUT_FLAG_REQUIRE_ACKED != 0 {
			// admitted from the queue (awaiting acknowledgement) and rolled back
			k.removeWaiter(w)
			s.stats["ack_failed"]++
			s.stats["ack_failed_from_queue"]++
			k.endKind = "rollback"
			s.noteCause(k, "hold-end")
			return
		}
		s.report("C03", "unexpected-error", "", "request %d answered ERROR: %s", r.ID, ev.String())
	case protocol.RESULT_UNOWN_ERROR, protocol.RESULT_LOCK_ACK_WAITING:
		if w != nil {
			s.report("C03", "queued-odd-result", "", "queued request %d answered %s", r.ID, vfResName(ev.Result))
			k.removeWaiter(w)
		}
	default:
		s.report("C03", "unexpected-result", "", "request %d answered %s on a leader", r.ID, vfResName(ev.Result))
		if w != nil {
			k.removeWaiter(w)
		}
	}
}

func (s *vfShadow) setDeadlineAt(h *vfHold, op *vfOp, tick int64) {
	if op.EFlag&protocol.EXPRIED_FLAG_UNLIMITED_EXPRIED_TIME != 0 {
		h.Unlimited = true
		h.DLo, h.DHi = 1<<62, 1<<62
		return
	}
	d := tick + vfSecs(op.Expried, op.EFlag, protocol.EXPRIED_FLAG_MINUTE_TIME) + 1
	h.DLo, h.DHi = d, d
}

// applyUpdate: an update-flag request answered LOCKED_ERROR for a held LockId.
// The server applies it unless it is "ignorable".
func (s *vfShadow) applyUpdate(k *vfKeyState, h *vfHold, r *vfReq) {
	op := &r.Op
	now := s.e.in.now
	prio, _ := vfPrioOf(op)
	countsEqual := op.Count == h.Count && op.Rcount == h.Rcount && prio == h.Prio
	ignorable := false
	if countsEqual {
		switch {
		case op.EFlag&protocol.EXPRIED_FLAG_UNLIMITED_EXPRIED_TIME != 0:
			if op.Expried == 0xffff {
				ignorable = true
			} else {
				ignorable = h.Unlimited
			}
		case op.EFlag&protocol.EXPRIED_FLAG_MILLISECOND_TIME != 0:
			ignorable = true
		default:
			unit := int64(1)
			if op.EFlag&protocol.EXPRIED_FLAG_MINUTE_TIME != 0 {
				unit = 60
			}
			d := now + vfSecs(op.Expried, op.EFlag, protocol.EXPRIED_FLAG_MINUTE_TIME) + 1
			if !h.Unlimited {
				// ignorable if within one unit of any possible current deadline
				if vfAbs(d-h.DLo) <= unit || vfAbs(d-h.DHi) <= unit {
					ignorable = true
				}
			}
		}
	}
	if ignorable {
		// either applied or ignored: widen
		s.stats["updates_ignorable"]++
		if op.EFlag&protocol.EXPRIED_FLAG_UNLIMITED_EXPRIED_TIME != 0 {
			if op.Expried != 0xffff && !h.Unlimited {
				// cannot happen (ignorable requires h.Unlimited)
			}
		} else if op.EFlag&protocol.EXPRIED_FLAG_MILLISECOND_TIME == 0 && !h.Unlimited {
			h.WasUpdated = true
			s.setDeadline(h, op, false)
		}
		h.Chain = append(h.Chain, r.ID)
		s.chainOf[r.ID] = true
		return
	}
	s.stats["updates_applied"]++
	raised := op.Count > h.Count
	h.Count, h.Rcount, h.Prio = op.Count, op.Rcount, prio
	h.WasUpdated = true
	s.setDeadline(h, op, true)
	h.Chain = []uint64{r.ID}
	s.chainOf[r.ID] = true
	if raised {
		s.stats["updates_raised_count"]++
	}
	s.noteCause(k, "terms-change")
}

func vfAbs(x int64) int64 {
	if x < 0 {
		return -x
	}
	return x
}

func (s *vfShadow) handleUnlockReply(k *vfKeyState, r *vfReq, ev *vfEvent) {
	op := &r.Op
	first := op.Flag&protocol.UNLOCK_FLAG_UNLOCK_FIRST_LOCK_WHEN_UNLOCKED != 0
	cancel := op.Flag&protocol.UNLOCK_FLAG_CANCEL_WAIT_LOCK_WHEN_UNLOCKED != 0
	switch ev.Result {
	case protocol.RESULT_SUCCED:
		h := k.hold(ev.LockId)
		if h == nil {
			s.report("C02", "unlock-nonexistent", "", "unlock %d reported SUCCED for L%d which holds nothing on the key: %s", r.ID, ev.LockId, ev.String())
			return
		}
		fallback := false
		if ev.LockId != op.LockId {
			if !first {
				s.report("C02", "unlock-foreign", "", "unlock %d of L%d released L%d without the unlock-first flag", r.ID, op.LockId, ev.LockId)
			} else if k.Holds[0] != h {
				s.report("C02", "unlock-first-not-oldest", "", "unlock-first %d released L%d which is not the oldest hold (L%d)", r.ID, ev.LockId, k.Holds[0].LockId)
			}
			fallback = true
		}
		if h.AckPending && !fallback {
			s.report("C11", "unlock-ack-pending", "", "unlock %d released L%d which awaits acknowledgement", r.ID, ev.LockId)
		}
		before := h.Depth
		var want []int
		prioU := op.TFlag&protocol.TIMEOUT_FLAG_RCOUNT_IS_PRIORITY != 0
		if fallback {
			want = []int{0}
			if before > 1 {
				want = []int{0, before - 1}
			}
		} else if before > 1 && op.Rcount > 0 && !prioU {
			want = []int{before - 1}
		} else {
			want = []int{0}
		}
		got := int(ev.LRCount)
		ok := false
		for _, x := range want {
			if x == got {
				ok = true
			}
		}
		if !ok {
			s.report("C02", "unlock-depth", "", "unlock %d (Rcount=%d) of L%d at depth %d left depth %d, expected %v: %s", r.ID, op.Rcount, ev.LockId, before, got, want, ev.String())
			got = want[0]
		}
		h.Depth = got
		s.stats["unlocks"]++
		s.evApplied = true
		k.endKind = "unlock"
		if got == 0 {
			k.removeHold(h)
			s.stats["holds_ended_by_unlock"]++
			s.noteCause(k, "hold-end")
		} else {
			s.stats["partial_unlocks"]++
			s.noteCause(k, "hold-end")
		}
	case protocol.RESULT_UNLOCK_ERROR, protocol.RESULT_UNOWN_ERROR:
		if h := k.hold(op.LockId); h != nil && !h.AckPending {
			s.report("C02", "owner-refused", "", "unlock %d of L%d which holds the key (depth %d) was refused with %s", r.ID, op.LockId, h.Depth, vfResName(ev.Result))
		} else if first && len(k.Holds) > 0 && !k.Holds[0].AckPending {
			s.report("C02", "unlock-first-refused", "", "unlock-first %d refused with %s although L%d holds the key", r.ID, vfResName(ev.Result), k.Holds[0].LockId)
		} else if cancel && k.hold(op.LockId) == nil {
			if w := k.waiterByLockId(op.LockId); w != nil {
				s.report("C02", "cancel-refused", "", "cancel-wait %d refused with %s although request %d with L%d is queued", r.ID, vfResName(ev.Result), w.Req, op.LockId)
			}
		}
		s.stats["unlock_refused"]++
	case protocol.RESULT_LOCKED_ERROR:
		if !cancel {
			s.report("C02", "unlock-locked-error", "", "unlock %d without cancel-wait answered LOCKED_ERROR", r.ID)
			return
		}
		w := k.waiterByLockId(op.LockId)
		if w == nil {
			// may be an ack-pending hold granted from the queue
			if h := k.hold(op.LockId); h != nil && h.AckPending {
				k.removeHold(h)
				s.stats["cancel_ack_pending"]++
				k.endKind = "rollback"
				s.noteCause(k, "hold-end")
				if s.onAckRollback != nil {
					if rr := s.e.reqs[h.Req]; rr != nil {
						s.onAckRollback(vfKeyId{op.Db, op.Key}, rr)
					}
				}
				return
			}
			s.report("C02", "cancel-nothing", "", "cancel-wait %d answered LOCKED_ERROR but no request with L%d is queued", r.ID, op.LockId)
			return
		}
		w.Cancelled = true
		s.stats["cancels"]++
		s.noteCause(k, "waiter-left")
	case protocol.RESULT_LOCK_ACK_WAITING:
		if first && k.hold(op.LockId) == nil && len(k.Holds) > 0 && k.Holds[0].AckPending {
			// unlock-first falling back to the oldest hold, which awaits acknowledgement
			s.stats["unlock_first_ack_waiting"]++
		} else if h := k.hold(op.LockId); h == nil || !h.AckPending {
			s.report("C11", "ack-waiting-without-pending", "", "unlock %d answered LOCK_ACK_WAITING but L%d is not awaiting acknowledgement", r.ID, op.LockId)
		}
	default:
		s.report("C03", "unexpected-result", "", "unlock %d answered %s on a leader", r.ID, vfResName(ev.Result))
	}
}

// evalAdmissible maintains, per key, since which event of the current
// top-level step the head waiter has been admissible (C04 attribution).
func (s *vfShadow) evalAdmissible(k *vfKeyState, seq int) {
	adm := false
	if !k.hasWWU() {
		if w := k.specHead(); w != nil {
			var oldest uint16
			if len(k.Holds) > 0 {
				oldest = k.Holds[0].Count
			}
			adm = vfAdmissible(k.depth(), oldest, w.Count)
		}
	}
	if adm {
		if k.admSince < 0 {
			k.admSince = seq
			k.admCause = k.lastCause
			k.admEndKind = k.endKind
		}
	} else {
		k.admSince = -1
		k.admCause = ""
		k.admReported = false
	}
}

// quiescent is called when a top-level step has completed (no operation in
// progress): C04 clause (i).
func (s *vfShadow) quiescent() {
	// C06: at a quiescent moment no hold is past the latest tick at which it may be ended by time
	for kid, k := range s.keys {
		for _, h := range k.Holds {
			if h.Unlimited || h.AckPending || h.overdueReported {
				continue
			}
			hi := h.DHi + 1
			if h.Sticky {
				hi = h.DHi + 10
			}
			if s.e.in.now > hi {
				h.overdueReported = true
				s.report("C06", "overdue", "", "db%d/k%d: hold L%d is still held at tick %d, later than the latest tick %d at which it had to be ended by time (deadline %d sticky=%v)", kid.Db, kid.Key, h.LockId, s.e.in.now, hi, h.DHi, h.Sticky)
			}
		}
	}
	// C05: at a quiescent moment no live queued request is past its time-out window
	for kid, k := range s.keys {
		for _, w := range k.Waiters {
			if w.Cancelled || w.overdueReported || w.TFlag&protocol.TIMEOUT_FLAG_MILLISECOND_TIME != 0 {
				continue
			}
			if s.e.in.now > w.ArriveTick+w.TSecs+2 {
				w.overdueReported = true
				s.report("C05", "overdue", "", "db%d/k%d: request %d queued at tick %d with timeout %ds is still queued at tick %d (TIMEOUT was due by tick %d)", kid.Db, kid.Key, w.Req, w.ArriveTick, w.TSecs, s.e.in.now, w.ArriveTick+w.TSecs+2)
			}
		}
	}
	for kid := range s.touched {
		k := s.keys[kid]
		s.evalAdmissible(k, len(s.e.events))
		if k.admSince >= 0 && !k.admReported {
			k.admReported = true
			w := k.specHead()
			cause := k.admCause
			sig := ""
			if cause == "waiter-left" || cause == "terms-change" {
				sig = "quiescent-admissible-head:" + cause
			}
			var oldest uint16
			if len(k.Holds) > 0 {
				oldest = k.Holds[0].Count
			}
			s.report("C04", "quiescent-admissible-head", sig, "db%d/k%d: at a quiescent moment the head queued request %d (Count=%d prio=%d) is admissible (holds depth=%d, oldest Count=%d); cause=%s", kid.Db, kid.Key, w.Req, w.Count, w.Prio, k.depth(), oldest, cause)
			s.stats["c04_adm_"+cause]++
			if cause == "hold-end" && k.admEndKind == "rollback" {
				s.report("C11", "waiters-not-served-after-rollback", "", "db%d/k%d: a require-ack hold was rolled back but the head queued request %d (Count=%d) which is now admissible was not granted", kid.Db, kid.Key, w.Req, w.Count)
			}
			if cause == "hold-end" && k.admEndKind == "expiry" {
				s.report("C06", "waiters-not-served-after-expiry", "", "db%d/k%d: a hold was ended by time but the head queued request %d (Count=%d) which is now admissible was not granted", kid.Db, kid.Key, w.Req, w.Count)
			}
		}
		delete(s.touched, kid)
	}
}

// ledgerCheck is run after the drain phase: exactly-one terminal reply.
func (s *vfShadow) ledgerCheck() {
	ids := make([]uint64, 0, len(s.e.reqs))
	for id := range s.e.reqs {
		ids = append(ids, id)
	}
	sort.Slice(ids, func(i, j int) bool { return ids[i] < ids[j] })
	for _, id := range ids {
		n := s.terminal[id]
		if n == 0 {
			s.report("C03", "no-terminal-reply", "", "request %d (%s) never received a terminal reply", id, s.e.reqs[id].Op.String())
		}
		if s.notices[id] > 0 && !s.chainOf[id] {
			s.report("C03", "notice-for-non-holder", "", "request %d drew EXPRIED but never set the terms of a hold", id)
		}
	}
	s.stats["ledger_requests"] += int64(len(ids))
}

// compareCensus checks the shadow against the server's own structures.
func (s *vfShadow) compareCensus(prop string) {
	for d, db := range s.e.in.dbs {
		c := vfTakeCensus(db)
		for _, e := range c.Errors {
			last := ""
			if n := len(s.e.opLog); n > 0 {
				last = s.e.opLog[n-1].String()
			}
			s.report("C17", "structure", "", "db%d: %s (after op #%d: %s)", d, e, len(s.e.opLog), last)
		}
		var locked, waiting int
		seen := map[int]bool{}
		for _, ck := range c.Keys {
			ki := vfKeyIndex(ck.Key)
			seen[ki] = true
			k := s.keys[vfKeyId{uint8(d), ki}]
			var sh []*vfHold
			var sw []*vfWaiter
			if k != nil {
				sh = k.Holds
				for _, w := range k.Waiters {
					if !w.Cancelled {
						sw = append(sw, w)
					}
				}
			}
			if len(sh) != len(ck.Holds) {
				s.report(prop, "census-holds", "", "db%d/k%d: server has %d holders, clients were told %d", d, ki, len(ck.Holds), len(sh))
			} else {
				for i := range sh {
					if vfLockIdIndex(ck.Holds[i].LockId) != sh[i].LockId || int(ck.Holds[i].Depth) != sh[i].Depth {
						s.report(prop, "census-holds", "", "db%d/k%d: holder %d is L%d depth %d in the server, L%d depth %d for the clients", d, ki, i, vfLockIdIndex(ck.Holds[i].LockId), ck.Holds[i].Depth, sh[i].LockId, sh[i].Depth)
						break
					}
				}
			}
			if len(sw) != len(ck.Waiters) {
				s.report(prop, "census-waiters", "", "db%d/k%d: server has %d live queued requests, %d by the clients' view", d, ki, len(ck.Waiters), len(sw))
			}
			for _, h := range ck.Holds {
				locked += int(h.Depth)
			}
			waiting += len(ck.Waiters)
		}
		for kid, k := range s.keys {
			if int(kid.Db) != d || seen[kid.Key] {
				continue
			}
			if len(k.Holds) > 0 {
				s.report(prop, "census-holds", "", "db%d/k%d: clients hold %d locks but the server has no key", d, kid.Key, len(k.Holds))
			}
			nlive := 0
			for _, w := range k.Waiters {
				if !w.Cancelled {
					nlive++
				}
			}
			if nlive > 0 {
				s.report(prop, "census-waiters", "", "db%d/k%d: %d requests queued by the clients' view but the server has no key", d, kid.Key, nlive)
			}
		}
		if int(c.State.LockedCount) != locked {
			s.report("C17", "state-locked", "", "db%d: STATE LockedCount=%d, outstanding depth=%d", d, c.State.LockedCount, locked)
		}
		if int(c.State.WaitCount) != waiting {
			s.report("C17", "state-wait", "", "db%d: STATE WaitCount=%d, live queued requests=%d", d, c.State.WaitCount, waiting)
		}
		if int(c.State.KeyCount) != len(c.Keys) {
			s.report("C17", "state-keys", "", "db%d: STATE KeyCount=%d, keys reachable=%d", d, c.State.KeyCount, len(c.Keys))
		}
		s.stats["census_taken"]++
	}
}
