//go:build verif

package server

// Shared utilities of the verification harness: PRNG, environment, evidence
// writer, violation reporting, known-findings, shard (child-process)
// orchestration and the log-capture handler.

import (
	"encoding/json"
	"fmt"
	"hash/fnv"
	"os"
	"os/exec"
	"path/filepath"
	"runtime"
	"runtime/debug"
	"sort"
	"strconv"
	"strings"
	"sync"
	"testing"
	"time"

	"github.com/hhkbp2/go-logging"
)

// ---------------------------------------------------------------- PRNG

type vfRand struct{ s uint64 }

func vfMix(x uint64) uint64 {
	x += 0x9e3779b97f4a7c15
	x = (x ^ (x >> 30)) * 0xbf58476d1ce4e5b9
	x = (x ^ (x >> 27)) * 0x94d049bb133111eb
	return x ^ (x >> 31)
}

func vfStrHash(s string) uint64 {
	h := fnv.New64a()
	_, _ = h.Write([]byte(s))
	return h.Sum64()
}

// vfCaseRand: PRNG state of case i of property p under seed.
func vfCaseRand(seed int64, prop string, i int) *vfRand {
	return &vfRand{vfMix(vfMix(uint64(seed))^vfStrHash(prop)) ^ vfMix(uint64(i)*0x2545F4914F6CDD1D+1)}
}

func (r *vfRand) U64() uint64 {
	r.s += 0x9e3779b97f4a7c15
	z := r.s
	z = (z ^ (z >> 30)) * 0xbf58476d1ce4e5b9
	z = (z ^ (z >> 27)) * 0x94d049bb133111eb
	return z ^ (z >> 31)
}
func (r *vfRand) Intn(n int) int {
	if n <= 0 {
		return 0
	}
	return int(r.U64() % uint64(n))
}
func (r *vfRand) Chance(pct int) bool { return r.Intn(100) < pct }
func (r *vfRand) Range(lo, hi int) int {
	if hi <= lo {
		return lo
	}
	return lo + r.Intn(hi-lo+1)
}
func (r *vfRand) PickInt(xs []int) int       { return xs[r.Intn(len(xs))] }
func (r *vfRand) PickU16(xs []uint16) uint16 { return xs[r.Intn(len(xs))] }
func (r *vfRand) Bytes(n int) []byte {
	b := make([]byte, n)
	for i := range b {
		b[i] = byte(r.U64())
	}
	return b
}

// ---------------------------------------------------------------- environment

type vfEnv struct {
	Prop     string
	Tier     string
	Seed     int64
	Evidence string // evidence file path
	Replays  string // replay directory
	Scratch  string // scratch directory (removed by the driver)
	Replay   string // replay file to re-run (optional)
	Shard    int    // -1 = parent
	Shards   int
	PartFile string
	Verif    string // /verif
}

func vfGetEnv(prop string) *vfEnv {
	e := &vfEnv{Prop: prop, Tier: os.Getenv("VERIF_TIER"), Shard: -1, Shards: 1}
	if e.Tier != "thorough" {
		e.Tier = "quick"
	}
	e.Seed = 1
	if s := os.Getenv("VERIF_SEED"); s != "" {
		if v, err := strconv.ParseInt(s, 10, 64); err == nil {
			e.Seed = v
		}
	}
	e.Verif = os.Getenv("VERIF_DIR")
	if e.Verif == "" {
		e.Verif = "/verif"
	}
	e.Evidence = os.Getenv("VERIF_EVIDENCE")
	if e.Evidence == "" {
		e.Evidence = filepath.Join(e.Verif, "evidence", prop+".json")
	}
	e.Replays = os.Getenv("VERIF_REPLAYS")
	if e.Replays == "" {
		e.Replays = filepath.Join(e.Verif, "replays", prop)
	}
	e.Scratch = os.Getenv("VERIF_SCRATCH")
	if e.Scratch == "" {
		d, _ := os.MkdirTemp("", "slock-verif-")
		e.Scratch = d
	}
	e.Replay = os.Getenv("VERIF_REPLAY")
	if s := os.Getenv("VERIF_SHARD"); s != "" {
		parts := strings.Split(s, "/")
		if len(parts) == 2 {
			e.Shard, _ = strconv.Atoi(parts[0])
			e.Shards, _ = strconv.Atoi(parts[1])
		}
	}
	e.PartFile = os.Getenv("VERIF_PART")
	return e
}

func (e *vfEnv) Thorough() bool { return e.Tier == "thorough" }

// N picks the case-list length for the tier; VERIF_SCALE (percent) lets the
// self-validation runs use shorter lists.
func (e *vfEnv) N(quick, thorough int) int {
	n := quick
	if e.Thorough() {
		n = thorough
	}
	if s := os.Getenv("VERIF_SCALE"); s != "" {
		if v, err := strconv.Atoi(s); err == nil && v > 0 {
			n = n * v / 100
			if n < 1 {
				n = 1
			}
		}
	}
	return n
}

// ---------------------------------------------------------------- results

type vfViolation struct {
	Prop   string      `json:"property"`
	Clause string      `json:"clause"`
	Detail string      `json:"detail"`
	Case   int         `json:"case"`
	Replay string      `json:"replay,omitempty"`
	Sig    string      `json:"signature,omitempty"` // known-finding signature candidate
	Script interface{} `json:"script,omitempty"`
}

// vfPart is what one shard (or an unsharded run) produces.
type vfPart struct {
	Cases        int                 `json:"cases"`
	Counters     map[string]int64    `json:"counters"`
	Distinct     map[string][]uint64 `json:"distinct"` // named hash sets
	Samples      []interface{}       `json:"samples"`
	Violations   []vfViolation       `json:"violations"`
	Inconclusive []string            `json:"inconclusive"`
	LogErrors    []string            `json:"log_errors"`
	Harness      []string            `json:"harness_errors"`
	KnownSeen    map[string]int `json:"known_seen"` // open known findings: signature -> occurrences
	distinctSeen map[string]map[uint64]bool
	mu           sync.Mutex
	known        []vfKnownFinding
	unknownViol  int
}

func vfNewPart() *vfPart {
	return &vfPart{Counters: map[string]int64{}, Distinct: map[string][]uint64{}, distinctSeen: map[string]map[uint64]bool{}, KnownSeen: map[string]int{}}
}

func (p *vfPart) Add(name string, n int64) {
	p.mu.Lock()
	p.Counters[name] += n
	p.mu.Unlock()
}
func (p *vfPart) Max(name string, n int64) {
	p.mu.Lock()
	if p.Counters[name] < n {
		p.Counters[name] = n
	}
	p.mu.Unlock()
}
func (p *vfPart) Mark(set string, h uint64) {
	p.mu.Lock()
	m := p.distinctSeen[set]
	if m == nil {
		m = map[uint64]bool{}
		p.distinctSeen[set] = m
	}
	if !m[h] {
		m[h] = true
		p.Distinct[set] = append(p.Distinct[set], h)
	}
	p.mu.Unlock()
}
func (p *vfPart) Sample(max int, s interface{}) {
	p.mu.Lock()
	if len(p.Samples) < max {
		p.Samples = append(p.Samples, s)
	}
	p.mu.Unlock()
}
func (p *vfPart) Violate(v vfViolation) {
	p.mu.Lock()
	if k := vfKnownOpen(p.known, v.Prop, v.Sig); k != nil {
		p.KnownSeen[v.Sig]++
		if p.KnownSeen[v.Sig] <= 2 {
			p.Violations = append(p.Violations, v) // keep a couple of witnesses
		}
	} else {
		p.unknownViol++
		p.Violations = append(p.Violations, v)
	}
	p.mu.Unlock()
}
func (p *vfPart) Merge(o *vfPart) {
	p.Cases += o.Cases
	for k, v := range o.Counters {
		if strings.HasPrefix(k, "max_") {
			if p.Counters[k] < v {
				p.Counters[k] = v
			}
		} else {
			p.Counters[k] += v
		}
	}
	for set, hs := range o.Distinct {
		for _, h := range hs {
			p.Mark(set, h)
		}
	}
	for _, s := range o.Samples {
		if len(p.Samples) < 6 {
			p.Samples = append(p.Samples, s)
		}
	}
	p.Violations = append(p.Violations, o.Violations...)
	for k, v := range o.KnownSeen {
		p.KnownSeen[k] += v
	}
	p.Inconclusive = append(p.Inconclusive, o.Inconclusive...)
	p.LogErrors = append(p.LogErrors, o.LogErrors...)
	p.Harness = append(p.Harness, o.Harness...)
}

// ---------------------------------------------------------------- known findings

type vfKnownFinding struct {
	Property  string `json:"property"`
	Signature string `json:"signature"`
	What      string `json:"what"`
	Status    string `json:"status"` // "open" or "fixed"
	Commit    string `json:"commit,omitempty"`
}

func vfLoadKnown(env *vfEnv) []vfKnownFinding {
	var out struct {
		Findings []vfKnownFinding `json:"findings"`
	}
	b, err := os.ReadFile(filepath.Join(env.Verif, "known_findings.json"))
	if err != nil {
		return nil
	}
	_ = json.Unmarshal(b, &out)
	return out.Findings
}

// vfKnownOpen returns the open finding matching (prop, sig), if any.
func vfKnownOpen(known []vfKnownFinding, prop, sig string) *vfKnownFinding {
	if sig == "" {
		return nil
	}
	for i := range known {
		k := &known[i]
		if k.Property == prop && k.Status == "open" && k.Signature == sig {
			return k
		}
	}
	return nil
}

// ---------------------------------------------------------------- evidence + verdict

type vfEvidence struct {
	PropertyId  string                 `json:"property_id"`
	Tier        string                 `json:"tier"`
	Seed        int64                  `json:"seed"`
	Level       string                 `json:"level"`
	Coverage    map[string]interface{} `json:"coverage"`
	Assumptions []string               `json:"assumptions"`
	WallS       float64                `json:"wall_s"`
	Violations  int                    `json:"violations"`
	Verdict     string                 `json:"verdict"`
	Known       []string               `json:"known_findings_seen"`
	Unexercised []string               `json:"unexercised,omitempty"`
}

type vfSpec struct {
	Prop         string
	Level        string
	Rule         string
	NontrivSet   string   // name of the Distinct set that counts distinct non-trivial cases
	Assumptions  []string
	Floors       []string // counter names that must be >0, else INCONCLUSIVE clause
	ExtraCov     func(p *vfPart, cov map[string]interface{})
}

// vfFinish writes evidence, prints verdict lines and returns the process exit
// intent: 0 held, 1 violated, 2 inconclusive/harness failure.
func vfFinish(t *testing.T, env *vfEnv, spec *vfSpec, part *vfPart, start time.Time) {
	known := vfLoadKnown(env)
	ev := &vfEvidence{PropertyId: spec.Prop, Tier: env.Tier, Seed: env.Seed, Level: spec.Level, Assumptions: spec.Assumptions}
	cov := map[string]interface{}{}
	cov["evaluations"] = part.Cases
	nontriv := len(part.Distinct[spec.NontrivSet])
	cov["distinct_nontrivial"] = nontriv
	cov["rule"] = spec.Rule
	samples := part.Samples
	if len(samples) == 0 {
		samples = []interface{}{"(no sample recorded)"}
	}
	cov["samples"] = samples
	keys := make([]string, 0, len(part.Counters))
	for k := range part.Counters {
		keys = append(keys, k)
	}
	sort.Strings(keys)
	counters := map[string]int64{}
	for _, k := range keys {
		counters[k] = part.Counters[k]
	}
	cov["counters"] = counters
	dsets := map[string]int{}
	for k, v := range part.Distinct {
		dsets[k] = len(v)
	}
	cov["distinct_sets"] = dsets
	if spec.ExtraCov != nil {
		spec.ExtraCov(part, cov)
	}
	if len(part.LogErrors) > 0 {
		le := part.LogErrors
		if len(le) > 10 {
			le = le[:10]
		}
		cov["server_error_log_lines"] = le
	}
	ev.Coverage = cov

	// classify violations
	realViol := 0
	seenKnown := map[string]int{}
	var firstReplay []string
	for sig, n := range part.KnownSeen {
		seenKnown[sig] = n
	}
	for _, v := range part.Violations {
		if k := vfKnownOpen(known, v.Prop, v.Sig); k != nil {
			if part.KnownSeen[k.Signature] == 0 {
				seenKnown[k.Signature]++
			}
			continue
		}
		realViol++
		if len(firstReplay) < 5 {
			firstReplay = append(firstReplay, fmt.Sprintf("VIOLATION property=%s replay=%s clause=%s detail=%q", v.Prop, v.Replay, v.Clause, vfTrunc(v.Detail, 300)))
		}
	}
	sigCounts := map[string]int{}
	for _, v := range part.Violations {
		if vfKnownOpen(known, v.Prop, v.Sig) == nil {
			key := v.Clause
			if v.Sig != "" {
				key = v.Sig
			}
			sigCounts[key]++
		}
	}
	if len(sigCounts) > 0 {
		cov["violation_classes"] = sigCounts
		for k, n := range sigCounts {
			fmt.Printf("NOTE: violation class %q x%d\n", k, n)
		}
	}
	for sig, n := range seenKnown {
		k := vfKnownOpen(known, spec.Prop, sig)
		line := fmt.Sprintf("KNOWN-FINDING: property=%s %s [signature=%s occurrences=%d]", spec.Prop, k.What, sig, n)
		fmt.Println(line)
		ev.Known = append(ev.Known, line)
	}
	sort.Strings(ev.Known)
	for _, f := range spec.Floors {
		if part.Counters[f] == 0 {
			ev.Unexercised = append(ev.Unexercised, f)
			fmt.Printf("INCONCLUSIVE: property=%s clause=%s never exercised in this run\n", spec.Prop, f)
		}
	}
	if len(part.Inconclusive) > 0 {
		inc := part.Inconclusive
		if len(inc) > 5 {
			inc = inc[:5]
		}
		cov["inconclusive_cases_sample"] = inc
		for _, l := range inc {
			fmt.Printf("NOTE: inconclusive case: %s\n", vfTrunc(l, 1200))
		}
	}
	ev.Violations = realViol
	ev.WallS = time.Since(start).Seconds()
	harnessFail := len(part.Harness) > 0
	switch {
	case realViol > 0:
		ev.Verdict = "violated"
	case harnessFail || part.Cases == 0 || nontriv < 2:
		ev.Verdict = "inconclusive"
	default:
		ev.Verdict = "held"
	}
	if harnessFail {
		cov["harness_errors"] = part.Harness
	}
	_ = os.MkdirAll(filepath.Dir(env.Evidence), 0755)
	b, _ := json.MarshalIndent(ev, "", " ")
	if err := os.WriteFile(env.Evidence, b, 0644); err != nil {
		fmt.Printf("HARNESS-ERROR: cannot write evidence: %v\n", err)
		harnessFail = true
	}
	fmt.Printf("SUMMARY property=%s tier=%s seed=%d cases=%d distinct_nontrivial=%d violations=%d known=%d verdict=%s wall=%.1fs\n",
		spec.Prop, env.Tier, env.Seed, part.Cases, nontriv, realViol, len(seenKnown), ev.Verdict, ev.WallS)
	for _, l := range firstReplay {
		fmt.Println(l)
	}
	for _, h := range part.Harness {
		fmt.Printf("HARNESS-ERROR: %s\n", vfTrunc(h, 2000))
	}
	switch ev.Verdict {
	case "violated":
		fmt.Println("VERDICT-EXIT 1")
	case "inconclusive":
		fmt.Println("VERDICT-EXIT 2")
	default:
		fmt.Println("VERDICT-EXIT 0")
	}
}

func vfTrunc(s string, n int) string {
	if len(s) <= n {
		return s
	}
	return s[:n] + "…"
}

// vfWriteReplay stores a replay document and returns its path.
func vfWriteReplay(env *vfEnv, name string, doc interface{}) string {
	_ = os.MkdirAll(env.Replays, 0755)
	p := filepath.Join(env.Replays, name)
	b, _ := json.MarshalIndent(doc, "", " ")
	_ = os.WriteFile(p, b, 0644)
	return p
}

// ---------------------------------------------------------------- shards

// vfRunSharded runs cases [0,n) across child processes (the same test binary
// re-executed with VERIF_SHARD=i/k). In a child it runs the shard's cases via
// runCase and writes the part file. In the parent it returns the merged part.
// A child that dies (panic in a server goroutine, fatal error) is turned into
// a crash violation naming the case it was executing.
func vfRunSharded(t *testing.T, env *vfEnv, testName string, n int, shards int, runCase func(part *vfPart, i int)) *vfPart {
	if env.Replay != "" {
		// replay mode: run only the named case, in-process
		part := vfNewPart()
		part.known = vfLoadKnown(env)
		var doc struct {
			Case int `json:"case"`
		}
		b, err := os.ReadFile(env.Replay)
		if err != nil {
			part.Harness = append(part.Harness, "cannot read replay: "+err.Error())
			return part
		}
		_ = json.Unmarshal(b, &doc)
		vfGuardCase(part, env, doc.Case, runCase)
		part.Cases = 1
		return part
	}
	if env.Shard >= 0 {
		part := vfNewPart()
		part.known = vfLoadKnown(env)
		prog := env.PartFile + ".progress"
		lastCkptViol := 0
		startAt := 0
		if v := os.Getenv("VERIF_SHARD_START"); v != "" {
			startAt, _ = strconv.Atoi(v)
		}
		for i := env.Shard; i < n; i += env.Shards {
			if i < startAt {
				continue
			}
			_ = os.WriteFile(prog, []byte(strconv.Itoa(i)), 0644)
			vfProgressFile, vfProgressCase = prog, i
			if !vfGuardCase(part, env, i, runCase) {
				part.Cases++
				if !vfContinueAfterPanic {
					break // state may be corrupt after a recovered panic: stop this shard
				}
				continue
			}
			part.Cases++
			if part.unknownViol >= 20 {
				break
			}
			// checkpoint: if the process dies later (panic on a server goroutine)
			// the parent still gets what this shard found so far
			if nv := len(part.Violations) + len(part.KnownSeen); nv != lastCkptViol || part.Cases%50 == 0 {
				lastCkptViol = nv
				if cb, cerr := json.Marshal(part); cerr == nil {
					_ = os.WriteFile(env.PartFile+".ckpt", cb, 0644)
				}
			}
		}
		b, _ := json.Marshal(part)
		_ = os.WriteFile(env.PartFile, b, 0644)
		return nil
	}
	if shards > n {
		shards = n
	}
	if shards < 1 {
		shards = 1
	}
	merged := vfNewPart()
	var wg sync.WaitGroup
	var mu sync.Mutex
	for s := 0; s < shards; s++ {
		wg.Add(1)
		go func(s int) {
			defer wg.Done()
			startAt := 0
			for attempt := 0; attempt < 200; attempt++ {
				next := vfRunShardOnce(env, testName, s, shards, startAt, merged, &mu)
				if next < 0 {
					return
				}
				startAt = next
			}
		}(s)
	}
	wg.Wait()
	return merged
}

// vfRunShardOnce runs shard s from case startAt on; returns -1 when the shard
// completed, or the case index to resume from after the child died.
func vfRunShardOnce(env *vfEnv, testName string, s int, shards int, startAt int, merged *vfPart, mu *sync.Mutex) int {
	{
		{
			_ = startAt
			partFile := filepath.Join(env.Scratch, fmt.Sprintf("part-%s-%d.json", env.Prop, s))
			_ = os.Remove(partFile)
			_ = os.Remove(partFile + ".ckpt")
			outFile := partFile + ".out"
			out, _ := os.Create(outFile)
			cmd := exec.Command(os.Args[0], "-test.run", "^"+testName+"$", "-test.timeout", "0")
			cmd.Env = append(os.Environ(), fmt.Sprintf("VERIF_SHARD=%d/%d", s, shards), "VERIF_PART="+partFile, fmt.Sprintf("VERIF_SHARD_START=%d", startAt),
				"VERIF_SCRATCH="+filepath.Join(env.Scratch, fmt.Sprintf("shard%d", s)))
			_ = os.MkdirAll(filepath.Join(env.Scratch, fmt.Sprintf("shard%d", s)), 0755)
			cmd.Stdout = out
			cmd.Stderr = out
			err := cmd.Run()
			_ = out.Close()
			mu.Lock()
			defer mu.Unlock()
			b, rerr := os.ReadFile(partFile)
			if rerr == nil {
				p := vfNewPart()
				if jerr := json.Unmarshal(b, p); jerr == nil {
					merged.Merge(p)
				} else {
					merged.Harness = append(merged.Harness, "bad part file: "+jerr.Error())
				}
				return -1
			}
			// child died without a part file: take its last checkpoint
			if cb, cerr := os.ReadFile(partFile + ".ckpt"); cerr == nil {
				p := vfNewPart()
				if json.Unmarshal(cb, p) == nil {
					merged.Merge(p)
				}
				_ = os.Remove(partFile + ".ckpt")
			}
			caseNo := -1
			knownSig := ""
			if pb, perr := os.ReadFile(partFile + ".progress"); perr == nil {
				f := strings.Fields(string(pb))
				if len(f) > 0 {
					caseNo, _ = strconv.Atoi(f[0])
				}
				if len(f) > 1 {
					knownSig = f[1]
				}
			}
			ob, _ := os.ReadFile(outFile)
			tail := string(ob)
			if len(tail) > 6000 {
				tail = tail[len(tail)-6000:]
			}
			full := string(ob)
			if vfCrashInRepo(full) {
				sig := vfCrashSig(full)
				rp := vfWriteReplay(env, fmt.Sprintf("crash-case%d.json", caseNo), map[string]interface{}{"case": caseNo, "seed": env.Seed, "tier": env.Tier, "crash": vfTrunc(vfPanicHead(full), 4000)})
				vsig := "crash:" + sig
				if knownSig != "" {
					vsig = knownSig // the script had entered the history of an open known finding
				}
				merged.known = vfLoadKnown(env)
				merged.Violate(vfViolation{Prop: env.Prop, Clause: "crash", Detail: "server code crashed the process: " + sig, Case: caseNo, Replay: rp, Sig: vsig})
				merged.Cases++
				merged.Add("child_crashes", 1)
				if caseNo >= 0 {
					return caseNo + shards // resume the shard behind the crashing case (cases run before it in this child are re-run by nobody: their counters are lost, not their verdicts' soundness)
				}
			} else {
				merged.Harness = append(merged.Harness, fmt.Sprintf("shard %d died (%v) at case %d without result; output tail:\n%s", s, err, caseNo, tail))
			}
		}
	}
	return -1
}

// vfGuardCase runs one case, converting a panic on the calling goroutine into
// a crash violation (server frames on top) or a harness error. Returns false
// if a panic happened.
func vfGuardCase(part *vfPart, env *vfEnv, i int, runCase func(part *vfPart, i int)) (ok bool) {
	ok = true
	defer func() {
		if r := recover(); r != nil {
			ok = false
			st := string(debug.Stack())
			known := ""
			if tp, isTagged := r.(vfTaggedPanic); isTagged {
				r, st, known = tp.Val, tp.Stack, tp.Sig
			}
			msg := fmt.Sprintf("panic: %v\n%s", r, st)
			if vfCrashInRepo(msg) {
				sig := vfCrashSig(msg)
				if known != "" {
					// the script had entered the history of an open known finding
					rp := vfWriteReplay(env, fmt.Sprintf("crash-case%d.json", i), map[string]interface{}{"case": i, "seed": env.Seed, "tier": env.Tier, "crash": vfTrunc(msg, 4000)})
					part.Violate(vfViolation{Prop: env.Prop, Clause: "crash", Detail: "server code panicked: " + sig, Case: i, Replay: rp, Sig: known})
					return
				}
				rp := vfWriteReplay(env, fmt.Sprintf("crash-case%d.json", i), map[string]interface{}{"case": i, "seed": env.Seed, "tier": env.Tier, "crash": vfTrunc(msg, 4000)})
				part.Violate(vfViolation{Prop: env.Prop, Clause: "crash", Detail: "server code panicked: " + sig, Case: i, Replay: rp, Sig: "crash:" + sig})
			} else {
				part.Harness = append(part.Harness, fmt.Sprintf("harness panic in case %d: %s", i, vfTrunc(msg, 3000)))
			}
		}
	}()
	runCase(part, i)
	return
}

// vfContinueAfterPanic: the case runner creates a fresh server instance per
// case, so a panic recovered on the main goroutine does not taint later cases.
var vfContinueAfterPanic bool
var vfProgressFile string
var vfProgressCase int

// vfNoteFaultSig records (for the parent process) that the running case has
// entered the history of an open known finding, in case the process dies.
func vfNoteFaultSig(sig string) {
	if vfProgressFile != "" {
		_ = os.WriteFile(vfProgressFile, []byte(fmt.Sprintf("%d %s", vfProgressCase, sig)), 0644)
	}
}

// vfTaggedPanic re-raises a panic together with the known-finding signature
// of the history the script had entered (see vfShadow.faultSig).
type vfTaggedPanic struct {
	Sig   string
	Val   interface{}
	Stack string
}

// vfPanicHead returns the output from the first "panic:" / "fatal error:" on.
func vfPanicHead(out string) string {
	idx := strings.Index(out, "panic:")
	if j := strings.Index(out, "fatal error:"); j >= 0 && (idx < 0 || j < idx) {
		idx = j
	}
	if idx < 0 {
		return out
	}
	return out[idx:]
}

// vfTopFrames lists the function frames of the first goroutine after the panic
// line, skipping runtime frames.
func vfTopFrames(out string) []string {
	out = vfPanicHead(out)
	lines := strings.Split(out, "\n")
	frames := []string{}
	started := false
	for i := 0; i < len(lines); i++ {
		l := lines[i]
		if strings.HasPrefix(l, "goroutine ") {
			if started {
				break
			}
			started = true
			continue
		}
		if !started {
			continue
		}
		if l == "" {
			if len(frames) > 0 {
				break
			}
			continue
		}
		if strings.HasPrefix(l, "\t") {
			continue
		}
		fn := l
		if k := strings.LastIndex(fn, "("); k > 0 {
			fn = fn[:k]
		}
		file := ""
		if i+1 < len(lines) {
			file = strings.TrimSpace(lines[i+1])
		}
		if strings.HasPrefix(l, "panic(") {
			// everything above is the deferred recover machinery
			frames = frames[:0]
			continue
		}
		if strings.HasPrefix(fn, "runtime.") || strings.HasPrefix(fn, "runtime/debug.") || strings.HasPrefix(fn, "testing.") {
			continue
		}
		frames = append(frames, fn+" @ "+file)
	}
	return frames
}

// vfCrashInRepo: true when the first non-runtime frame of the crashing
// goroutine is repository code (not a harness file zz_verif_*).
func vfCrashInRepo(out string) bool {
	fr := vfTopFrames(out)
	for _, f := range fr {
		if strings.Contains(f, "zz_verif_") || strings.Contains(f, "/verif/harness/") {
			return false
		}
		if strings.Contains(f, "github.com/snower/slock/") {
			return true
		}
		// frames from other packages (bytes, sync ...) are skipped
	}
	return false
}

func vfCrashSig(out string) string {
	fr := vfTopFrames(out)
	head := vfPanicHead(out)
	first := head
	if k := strings.Index(first, "\n"); k >= 0 {
		first = first[:k]
	}
	// normalise variable parts of the panic message
	cls := first
	for _, pfx := range []string{"index out of range", "slice bounds out of range", "nil pointer dereference", "makeslice", "concurrent map", "checkptr", "all goroutines are asleep"} {
		if strings.Contains(first, pfx) {
			cls = pfx
			break
		}
	}
	for _, f := range fr {
		if strings.Contains(f, "github.com/snower/slock/") && !strings.Contains(f, "zz_verif_") {
			fn := f
			if k := strings.Index(fn, " @ "); k >= 0 {
				fn = fn[:k]
			}
			fn = strings.TrimPrefix(fn, "github.com/snower/slock/")
			return fn + ":" + cls
		}
	}
	return "unknown:" + cls
}

// ---------------------------------------------------------------- logging capture

type vfLogStream struct {
	mu    sync.Mutex
	lines []string
}

func (s *vfLogStream) Tell() (int64, error) { return 0, nil }
func (s *vfLogStream) Write(str string) error {
	s.mu.Lock()
	if len(s.lines) < 200 {
		s.lines = append(s.lines, strings.TrimSpace(str))
	}
	s.mu.Unlock()
	return nil
}
func (s *vfLogStream) Flush() error { return nil }
func (s *vfLogStream) Close() error { return nil }
func (s *vfLogStream) Take() []string {
	s.mu.Lock()
	l := s.lines
	s.lines = nil
	s.mu.Unlock()
	return l
}

var vfLogOnce sync.Once
var vfLogCapture = &vfLogStream{}
var vfLogger logging.Logger

// vfGetLogger returns a logger that records ERROR lines of the server (they
// flag internal inconsistencies such as "remove long timeout not found").
func vfGetLogger() logging.Logger {
	vfLogOnce.Do(func() {
		vfLogger = logging.GetLogger("verif")
		_ = vfLogger.SetLevel(logging.LevelError)
		h := logging.NewStreamHandler("verifcap", logging.LevelError, vfLogCapture)
		vfLogger.AddHandler(h)
	})
	return vfLogger
}

func vfNumCPU() int {
	n := runtime.NumCPU()
	if n > 16 {
		n = 16
	}
	if n < 1 {
		n = 1
	}
	return n
}

func vfJSON(v interface{}) string {
	b, _ := json.Marshal(v)
	return string(b)
}

func vfUnJSON(b []byte, v interface{}) error { return json.Unmarshal(b, v) }
