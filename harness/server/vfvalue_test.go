//go:build verif

package server

// Reference interpreter for the value attached to a key (C15) and the value
// oracle that plugs into the shadow: every reply must carry the value from
// immediately before the operation, every executed operation must leave the
// value a sequential interpreter computes, refused requests leave it unchanged.

import (
	"bytes"
	"fmt"
	"os"

	"github.com/snower/slock/protocol"
)

const (
	vfValBytes  = 0
	vfValNumber = 1
	vfValArray  = 2
)

type vfVal struct {
	Absent bool
	Kind   int
	B      []byte
	N      int64
	A      [][]byte
}

func (v vfVal) String() string {
	if v.Absent {
		return "absent"
	}
	switch v.Kind {
	case vfValNumber:
		return fmt.Sprintf("number(%d)", v.N)
	case vfValArray:
		s := "array["
		for i, e := range v.A {
			if i > 0 {
				s += ","
			}
			s += fmt.Sprintf("%x", e)
		}
		return s + "]"
	}
	return fmt.Sprintf("bytes(%x)", v.B)
}

func vfValEqual(a, b vfVal) bool {
	if a.Absent || b.Absent {
		return a.Absent == b.Absent
	}
	if a.Kind != b.Kind {
		return false
	}
	switch a.Kind {
	case vfValNumber:
		return a.N == b.N
	case vfValArray:
		if len(a.A) != len(b.A) {
			return false
		}
		for i := range a.A {
			if !bytes.Equal(a.A[i], b.A[i]) {
				return false
			}
		}
		return true
	}
	return bytes.Equal(a.B, b.B)
}

// vfParseValue decodes a value frame ([len4][cmd][flag][props?][value]) as a
// client would (protocol.LockResultCommandData accessors' layout).
func vfParseValue(data []byte) (vfVal, error) {
	if data == nil {
		return vfVal{Absent: true}, nil
	}
	if len(data) < 6 {
		return vfVal{}, fmt.Errorf("value frame of %d bytes", len(data))
	}
	n := int(uint32(data[0]) | uint32(data[1])<<8 | uint32(data[2])<<16 | uint32(data[3])<<24)
	if n+4 != len(data) {
		return vfVal{}, fmt.Errorf("value frame length field %d but %d bytes follow", n, len(data)-4)
	}
	if data[4]&0x3f == protocol.LOCK_DATA_COMMAND_TYPE_UNSET {
		return vfVal{Absent: true}, nil
	}
	off := 6
	flag := data[5]
	if flag&protocol.LOCK_DATA_FLAG_CONTAINS_PROPERTY != 0 {
		if len(data) < 8 {
			return vfVal{}, fmt.Errorf("property flag without property header")
		}
		off = (int(data[6]) | int(data[7])<<8) + 8
		if off > len(data) {
			return vfVal{}, fmt.Errorf("property length beyond frame")
		}
	}
	val := data[off:]
	switch {
	case flag&protocol.LOCK_DATA_FLAG_VALUE_TYPE_ARRAY != 0:
		v := vfVal{Kind: vfValArray}
		for i := 0; i < len(val); {
			if i+4 > len(val) {
				return vfVal{}, fmt.Errorf("array element header truncated")
			}
			l := int(uint32(val[i]) | uint32(val[i+1])<<8 | uint32(val[i+2])<<16 | uint32(val[i+3])<<24)
			if i+4+l > len(val) {
				return vfVal{}, fmt.Errorf("array element of %d bytes beyond frame", l)
			}
			v.A = append(v.A, append([]byte(nil), val[i+4:i+4+l]...))
			i += 4 + l
		}
		return v, nil
	case flag&protocol.LOCK_DATA_FLAG_VALUE_TYPE_NUMBER != 0:
		v := vfVal{Kind: vfValNumber}
		for i := 0; i < 8 && i < len(val); i++ {
			v.N |= int64(val[i]) << (8 * uint(i))
		}
		return v, nil
	}
	return vfVal{Kind: vfValBytes, B: append([]byte(nil), val...)}, nil
}

// vfApplyValueOp is the sequential reference interpreter.
func vfApplyValueOp(v vfVal, d *vfDataOp) vfVal {
	switch d.Type {
	case protocol.LOCK_DATA_COMMAND_TYPE_SET:
		if d.Array != nil {
			out := vfVal{Kind: vfValArray}
			for _, e := range d.Array {
				out.A = append(out.A, append([]byte(nil), e...))
			}
			return out
		}
		return vfVal{Kind: vfValBytes, B: append([]byte(nil), d.Val...)}
	case protocol.LOCK_DATA_COMMAND_TYPE_UNSET:
		return vfVal{Absent: true}
	case protocol.LOCK_DATA_COMMAND_TYPE_INCR:
		if v.Absent {
			return vfVal{Kind: vfValNumber, N: d.Num}
		}
		return vfVal{Kind: vfValNumber, N: v.N + d.Num}
	case protocol.LOCK_DATA_COMMAND_TYPE_APPEND:
		if v.Absent {
			return vfVal{Kind: vfValBytes, B: append([]byte(nil), d.Val...)}
		}
		return vfVal{Kind: vfValBytes, B: append(append([]byte(nil), v.B...), d.Val...)}
	case protocol.LOCK_DATA_COMMAND_TYPE_SHIFT:
		if v.Absent || d.Num <= 0 {
			return v
		}
		n := int(d.Num)
		if n > len(v.B) {
			n = len(v.B)
		}
		return vfVal{Kind: vfValBytes, B: append([]byte(nil), v.B[n:]...)}
	case protocol.LOCK_DATA_COMMAND_TYPE_PUSH:
		out := vfVal{Kind: vfValArray}
		if !v.Absent && v.Kind == vfValArray {
			out.A = append(out.A, v.A...)
		}
		out.A = append(out.A, append([]byte(nil), d.Val...))
		return out
	case protocol.LOCK_DATA_COMMAND_TYPE_POP:
		if v.Absent || v.Kind != vfValArray || d.Num <= 0 {
			return v
		}
		n := int(d.Num)
		if n > len(v.A) {
			n = len(v.A)
		}
		return vfVal{Kind: vfValArray, A: append([][]byte(nil), v.A[n:]...)}
	case protocol.LOCK_DATA_COMMAND_TYPE_PIPELINE:
		for _, s := range d.Pipe {
			v = vfApplyValueOp(v, s)
		}
		return v
	}
	return v
}

type vfValState struct {
	Known   bool
	Val     vfVal
	LastSig string // classification of the last executed operation (known-finding signature)
	LastOp  string
}

type vfValueOracle struct {
	sh      *vfShadow
	states  map[vfKeyId]*vfValState
	pending map[uint64]*vfAckPendingVal
}

type vfAckPendingVal struct {
	prev      vfVal
	prevKnown bool
	prevSig   string // signature of a documented divergence the value carried when the request was admitted
	opsSince  int    // value operations executed on the key since the admission
}

// VERIF_VALUE_DEBUG=1 (debugging aid for replays): print every value comparison
var vfValueDebug = os.Getenv("VERIF_VALUE_DEBUG") != ""

func vfAttachValueOracle(sh *vfShadow) *vfValueOracle {
	o := &vfValueOracle{sh: sh, states: map[vfKeyId]*vfValState{}, pending: map[uint64]*vfAckPendingVal{}}
	sh.onValue = o.onValue
	sh.onAckAdmit = o.onAckAdmit
	sh.onAckRollback = o.onAckRollback
	return o
}

func vfPipeValueOps(d *vfDataOp) int {
	n := 0
	for range d.Pipe {
		n++
	}
	return n
}

func (o *vfValueOracle) onValue(kid vfKeyId, k *vfKeyState, r *vfReq, ev *vfEvent, applied bool) {
	s := o.sh
	st := o.states[kid]
	if st == nil {
		st = &vfValState{}
		o.states[kid] = st
	}
	if s.ackMark {
		// completion of a require-ack grant: the operation was executed at
		// admission; the reply carries the value from before it
		p := o.pending[r.ID]
		delete(o.pending, r.ID)
		if p != nil && p.prevKnown {
			obs, err := vfParseValue(ev.Data)
			if err == nil && !vfValEqual(obs, p.prev) {
				s.report("C15", "ack-reply-value", "", "SUCCED of the require-ack request carries %s but the value before its operation was %s: %s", obs.String(), p.prev.String(), ev.String())
			}
			s.stats["value_ack_replies_compared"]++
		}
		return
	}
	if _, isPending := o.pending[r.ID]; isPending {
		return // terminal error reply of a rolled-back admission: handled by onAckRollback
	}
	obs, err := vfParseValue(ev.Data)
	if vfValueDebug {
		fmt.Printf("NOTE: VALUE %s: observed %s model %s known=%v applied=%v op=%s\n", ev.String(), obs.String(), st.Val.String(), st.Known, applied, vfJSON(r.Op.Data))
	}
	if err != nil {
		s.report("C15", "malformed-value", "", "reply carries a malformed value frame (%v): %x; %s", err, ev.Data, ev.String())
		st.Known = false
		return
	}
	if len(k.Holds) == 0 && (ev.Result == protocol.RESULT_EXPRIED || ev.Result == protocol.RESULT_TIMEOUT || ev.Result == protocol.RESULT_ERROR) {
		// a notice emitted after the key's last hold has ended: the key is not
		// held any more, so what the frame carries is outside the property
		st.Known = false
		s.stats["value_notice_after_last_hold"]++
		return
	}
	if st.Known {
		if !vfValEqual(obs, st.Val) {
			s.report("C15", "reply-value", st.LastSig, "reply carries %s but the sequential interpreter computed %s (last executed operation: %s): %s", obs.String(), st.Val.String(), st.LastOp, ev.String())
			st.Val = obs // resynchronise so that one defect is reported once
		}
		s.stats["value_replies_compared"]++
	} else {
		st.Val = obs
		st.Known = true
		s.stats["value_resync"]++
	}
	if applied && r.Op.Data != nil {
		d := r.Op.Data
		before := st.Val
		st.Val = vfApplyValueOp(st.Val, d)
		for _, p := range o.pending {
			p.opsSince++
		}
		s.stats["value_ops_applied"]++
		s.stats[fmt.Sprintf("value_op_%d", d.Type)]++
		if d.Type == protocol.LOCK_DATA_COMMAND_TYPE_SHIFT && !before.Absent && int(d.Num) > len(before.B) {
			s.stats["value_shift_beyond_length"]++
		}
		if d.Type == protocol.LOCK_DATA_COMMAND_TYPE_POP && !before.Absent && int(d.Num) > len(before.A) {
			s.stats["value_pop_beyond_length"]++
		}
		st.LastSig = ""
		st.LastOp = vfJSON(d)
		if d.Type == protocol.LOCK_DATA_COMMAND_TYPE_PIPELINE && len(d.Pipe) > 1 {
			s.stats["value_pipeline_multi"]++
			st.LastSig = "pipeline-with-more-than-one-value-operation"
		}
	} else if r.Op.Data != nil {
		s.stats["value_ops_refused"]++
	}
	if len(k.Holds) == 0 {
		// the key is not held any more: whether the server still remembers the
		// value is outside C15 ("while a key is held")
		st.Known = false
	}
}

func (o *vfValueOracle) state(kid vfKeyId) *vfValState {
	st := o.states[kid]
	if st == nil {
		st = &vfValState{}
		o.states[kid] = st
	}
	return st
}

// onAckAdmit: a require-ack request was admitted (hold awaiting
// acknowledgement): its value operation is executed now, revocably.
func (o *vfValueOracle) onAckAdmit(kid vfKeyId, r *vfReq) {
	if r.Op.Data == nil {
		return
	}
	st := o.state(kid)
	if vfValueDebug {
		fmt.Printf("NOTE: VALUE ack-admit req=%d model %s known=%v op=%s\n", r.ID, st.Val.String(), st.Known, vfJSON(r.Op.Data))
	}
	o.pending[r.ID] = &vfAckPendingVal{prev: st.Val, prevKnown: st.Known, prevSig: st.LastSig}
	if st.Known {
		st.Val = vfApplyValueOp(st.Val, r.Op.Data)
	}
	for id, p := range o.pending {
		if id != r.ID {
			p.opsSince++
		}
	}
	o.sh.stats["value_ack_ops_admitted"]++
}

// onAckRollback: the admission failed (error, time-out, cancellation): the
// value change must be undone.
func (o *vfValueOracle) onAckRollback(kid vfKeyId, r *vfReq) {
	p := o.pending[r.ID]
	if p == nil {
		return
	}
	delete(o.pending, r.ID)
	st := o.state(kid)
	if vfValueDebug {
		fmt.Printf("NOTE: VALUE ack-rollback req=%d model %s known=%v prev %s prevKnown=%v opsSince=%d\n", r.ID, st.Val.String(), st.Known, p.prev.String(), p.prevKnown, p.opsSince)
	}
	if p.prevKnown && p.opsSince == 0 {
		st.Val, st.Known = p.prev, true
		st.LastOp, st.LastSig = "rollback of "+vfJSON(r.Op.Data), ""
		if r.Op.Data.Type == protocol.LOCK_DATA_COMMAND_TYPE_PIPELINE {
			st.LastSig = "rollback-of-pipeline"
		} else if p.prev.Absent {
			st.LastSig = "rollback-onto-a-key-without-value"
		}
		if p.prevSig != "" {
			// the value the admission started from had not been confirmed by a reply since an
			// operation with a documented divergence (no reply is sent at admission): a mismatch
			// after the rollback is that divergence coming to light
			st.LastSig = p.prevSig
		}
		o.sh.stats["value_rollbacks_exact"]++
	} else {
		st.Known = false
		o.sh.stats["value_rollbacks_resync"]++
	}
}
