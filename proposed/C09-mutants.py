#!/usr/bin/env python3
"""Seeded mutants for C09 / C10, run on top of the proposed C09-*/C10-* patches (the unchanged tree already
violates both properties, which would mask a mutant). /repo is not touched: go -overlay via VERIF_MUTANT_OVERLAY.
usage: C09-mutants.py [C09|C10] [name-substring]"""
import json, os, subprocess, sys, tempfile, shutil, glob
REPO = "/repo"
def base_overlay(d):
    """apply the proposed C09/C10 diffs to copies of the files they touch"""
    files = {}
    for diff in sorted(glob.glob("/verif/proposed/C09-*.diff") + glob.glob("/verif/proposed/C10-*.diff")):
        for l in open(diff):
            if l.startswith("+++ b/"):
                rel = l[6:].split()[0]
                dst = os.path.join(d, "base", rel)
                if rel not in files:
                    os.makedirs(os.path.dirname(dst), exist_ok=True)
                    shutil.copy(os.path.join(REPO, rel), dst)
                    files[rel] = dst
        subprocess.run(["patch", "-p1", "-s", "-d", os.path.join(d, "base"), "-i", diff], check=True)
    return {os.path.join(REPO, r): p for r, p in files.items()}
MUT = {
 "C09": [
  ("follower-resume-position-plus-one", "server/replication.go", '\taofId := FormatAofId(self.currentAofId)\n\tif aofId != "00000000000000000000000000000000" {', '\tmutId := self.currentAofId\n\tif mutId[0] != 0 || mutId[4] != 0 {\n\t\tmutId[0]++\n\t}\n\taofId := FormatAofId(mutId)\n\tif aofId != "00000000000000000000000000000000" {'),
  ("follower-resume-position-minus-one", "server/replication.go", '\taofId := FormatAofId(self.currentAofId)\n\tif aofId != "00000000000000000000000000000000" {', '\tmutId := self.currentAofId\n\tif mutId[0] > 1 {\n\t\tmutId[0]--\n\t}\n\taofId := FormatAofId(mutId)\n\tif aofId != "00000000000000000000000000000000" {'),
  ("leader-resume-resends-position", "server/replication.go", '\t\tcursor.seq = currentItem.seq\n\t\tcursor.writed = true\n\t\tself.glock.RUnlock()\n\t\treturn nil', '\t\tcursor.seq = currentItem.seq\n\t\tcursor.writed = false\n\t\tself.glock.RUnlock()\n\t\treturn nil'),
  ("transfer-bound-off-by-one", "server/replication.go", '(lock.AofIndex == self.waofLock.AofIndex && lock.AofOffset >= self.waofLock.AofOffset) {\n\t\t\treturn false, nil', '(lock.AofIndex == self.waofLock.AofIndex && lock.AofOffset > self.waofLock.AofOffset) {\n\t\t\treturn false, nil'),
  ("follower-does-not-replay-every-64th", "server/replication.go", '\t\tself.state.recvCount++\n\t\tself.replayQueue <- aofLock', '\t\tself.state.recvCount++\n\t\tif self.state.recvCount%64 == 63 {\n\t\t\tself.state.replayCount++\n\t\t} else {\n\t\t\tself.replayQueue <- aofLock\n\t\t}\n\t\t_ = 0'),
  ("follower-ignores-value-of-unlock-records", "server/aof.go", '\tif aofLock.AofFlag&AOF_FLAG_CONTAINS_DATA != 0 {\n\t\tlockCommand.Data = protocol.NewLockCommandDataFromOriginBytes(aofLock.data)\n\t\tlockCommand.Flag |= protocol.LOCK_FLAG_CONTAINS_DATA\n\t}\n\n\terr = self.serverProtocol.ProcessLockCommand(lockCommand)\n\tif err == nil {\n\t\treturn\n\t}\n\tself.aof.slock.Log().Errorf("Aof replay lock', '\tif aofLock.AofFlag&AOF_FLAG_CONTAINS_DATA != 0 && aofLock.CommandType != protocol.COMMAND_UNLOCK {\n\t\tlockCommand.Data = protocol.NewLockCommandDataFromOriginBytes(aofLock.data)\n\t\tlockCommand.Flag |= protocol.LOCK_FLAG_CONTAINS_DATA\n\t}\n\n\terr = self.serverProtocol.ProcessLockCommand(lockCommand)\n\tif err == nil {\n\t\treturn\n\t}\n\tself.aof.slock.Log().Errorf("Aof replay lock'),
  ("leader-streams-altered-value-for-unlock-records", "server/replication.go", '\tif aofLock.AofFlag&AOF_FLAG_CONTAINS_DATA != 0 {\n\t\terr := self.bufferQueue.Push(buf, aofLock.data)', '\tif aofLock.AofFlag&AOF_FLAG_CONTAINS_DATA != 0 {\n\t\tmutData := aofLock.data\n\t\tif aofLock.CommandType == protocol.COMMAND_UNLOCK && len(mutData) > 7 {\n\t\t\tmutData = append([]byte(nil), mutData...)\n\t\t\tmutData[len(mutData)-1] ^= 1\n\t\t}\n\t\terr := self.bufferQueue.Push(buf, mutData)'),
 ],
 "C10": [
  ("lock-state-check-dropped", "server/db.go", '\t\tif command.Flag&protocol.LOCK_FLAG_FROM_AOF == 0 {\n\t\t\tif lockManager.refCount == 0 {', '\t\tif false {\n\t\t\tif lockManager.refCount == 0 {'),
  ("unlock-state-check-dropped", "server/db.go", '\t\tif command.Flag&protocol.UNLOCK_FLAG_FROM_AOF == 0 {\n\t\t\tlockManager.state.UnlockErrorCount++', '\t\tif false {\n\t\t\tlockManager.state.UnlockErrorCount++'),
  ("relay-binary-lcount-altered", "server/transparency.go", '\t\treturn serverProtocol.Write(lockResultCommand)', '\t\tlockResultCommand.Lcount++\n\t\treturn serverProtocol.Write(lockResultCommand)'),
  ("relay-text-lrcount-zeroed", "server/transparency.go", '\t\t\tserverProtocol.lockWaiter <- lockResultCommand', '\t\t\tlockResultCommand.Lrcount = 0\n\t\t\tserverProtocol.lockWaiter <- lockResultCommand'),
  ("follower-expires-at-deadline", "server/db.go", '\t\tif self.status != STATE_LEADER && lock.isAof {', '\t\tif false && lock.isAof {'),
  ("follower-wait-200-instead-of-300", "server/config.go", 'const EXPRIED_WAIT_LEADER_MAX_TIME int64 = 300', 'const EXPRIED_WAIT_LEADER_MAX_TIME int64 = 200'),
 ],
}
def main():
    prop = sys.argv[1] if len(sys.argv) > 1 else "C09"
    sel = sys.argv[2] if len(sys.argv) > 2 else ""
    d = tempfile.mkdtemp(prefix="vfmut-")
    try:
        base = base_overlay(d)
        for name, rel, old, new in MUT[prop]:
            if sel not in name:
                continue
            path = os.path.join(REPO, rel)
            src = open(base.get(path, path)).read()
            if src.count(old) != 1:
                print("MUT %s: pattern occurs %d times" % (name, src.count(old))); continue
            f = os.path.join(d, "mut-" + os.path.basename(rel))
            open(f, "w").write(src.replace(old, new))
            rep = dict(base); rep[path] = f
            ov = os.path.join(d, "ov.json")
            json.dump({"Replace": rep}, open(ov, "w"))
            r = subprocess.run(["/verif/check", prop], env=dict(os.environ, VERIF_MUTANT_OVERLAY=ov), stdout=subprocess.PIPE, stderr=subprocess.STDOUT, text=True)
            lines = r.stdout.splitlines()
            print("MUT %-48s %s exit=%d %s" % (name, prop, r.returncode, ([l for l in lines if l.startswith("SUMMARY")] or [""])[0][:130]))
            for l in [l for l in lines if l.startswith("NOTE: violation class")][:5]:
                print("      " + l[:200])
    finally:
        shutil.rmtree(d, ignore_errors=True)
main()
