#!/usr/bin/env python3
"""Seeded mutants for the cluster stage of C11 (TestVerif_C11Cluster). /repo is not touched (go -overlay).
Builds the harness the way ./check does (vfc11* files + shared files) and runs the stage stand-alone.
usage: C11-mutants.py [name-substring | none]     ('none' = unchanged tree)"""
import json, os, subprocess, sys, glob, re, tempfile, shutil, time
VERIF="/verif"; REPO="/repo"
A='func (self *ReplicationAckDB) ProcessLeaderAofed(glockIndex uint16, aofLock *AofLock) error {\n\taofId := aofLock.GetAofId()\n\tself.ackGlocks[glockIndex].Lock()\n\tif lock, ok := self.aofLocks[glockIndex][aofId]; ok {\n'
B='func (self *ReplicationAckDB) ProcessLeaderAcked(glockIndex uint16, aofLock *AofLock) error {\n\taofId := aofLock.GetAofId()\n\tself.ackGlocks[glockIndex].Lock()\n\tif lock, ok := self.aofLocks[glockIndex][aofId]; ok {\n\t\tif aofLock.Result != 0 || lock.ackCount == 0xff {'
MUT=[
 ("grant-on-own-flush-only","server/replication.go",A,A+'\t\tif lock.ackCount != 0xff && aofLock.Result == 0 {\n\t\t\tlock.ackCount = 1\n\t\t}\n'),
 ("negative-ack-counted-as-positive","server/replication.go",B,B.replace('if aofLock.Result != 0 || lock.ackCount == 0xff {','if lock.ackCount == 0xff {')),
 ("majority-computed-as-half","server/replication.go",'\t\t\tackCount = (len(self.serverChannels)+1)/2 + 1','\t\t\tackCount = (len(self.serverChannels) + 1) / 2'),
 ("ack-for-another-lockid-accepted","server/replication.go",B,B.replace('\tif lock, ok := self.aofLocks[glockIndex][aofId]; ok {\n','\tlock, ok := self.aofLocks[glockIndex][aofId]\n\tfor mutId, mutLock := range self.aofLocks[glockIndex] {\n\t\tif mutId != aofId {\n\t\t\taofId, lock, ok = mutId, mutLock, true\n\t\t\tbreak\n\t\t}\n\t}\n\tif ok {\n')),
 ("rollback-does-not-restore-value","server/db.go",'\tif lockCommand.Flag&protocol.LOCK_FLAG_CONTAINS_DATA != 0 {\n\t\tlockManager.ProcessRecoverLockData(lock)\n\t}','\tif false {\n\t\tlockManager.ProcessRecoverLockData(lock)\n\t}'),
 ("ack-waiting-path-grants","server/db.go",'\t\t\tif currentLock.ackCount != 0xff {\n\t\t\t\tlockManager.glock.Unlock()\n\n\t\t\t\t_ = serverProtocol.ProcessLockResultCommand(command, protocol.RESULT_LOCK_ACK_WAITING, uint16(lockManager.locked), currentLock.locked, lockManager.GetLockData())','\t\t\tif false {\n\t\t\t\tlockManager.glock.Unlock()\n\n\t\t\t\t_ = serverProtocol.ProcessLockResultCommand(command, protocol.RESULT_LOCK_ACK_WAITING, uint16(lockManager.locked), currentLock.locked, lockManager.GetLockData())'),
 ("unlock-of-pending-hold-releases-it","server/db.go",'\t} else {\n\t\tif currentLock.ackCount != 0xff {\n\t\t\tlockManager.state.UnlockErrorCount++','\t} else {\n\t\tif false {\n\t\t\tlockManager.state.UnlockErrorCount++'),
 ("timeout-of-pending-keeps-value","server/db.go",'\t\t\tif lock.ackCount != 0xff {\n\t\t\t\tlockManager.ProcessRecoverLockData(lock)\n\t\t\t} else {','\t\t\tif false {\n\t\t\t\tlockManager.ProcessRecoverLockData(lock)\n\t\t\t} else {'),
]
def run(name, repl):
    build=os.path.join(VERIF,".build"); os.makedirs(build,exist_ok=True); rep={}
    for f in sorted(glob.glob(os.path.join(VERIF,"harness","server","*.go"))):
        base=os.path.basename(f); m=re.match(r"vfc(\d\d)",base)
        if m and m.group(1)!="11": continue
        rep[os.path.join(REPO,"server","zz_verif_"+base)]=f
    rep.update(repl)
    d=tempfile.mkdtemp(prefix="vfmut-c11-")
    try:
        ov=os.path.join(d,"ov.json"); json.dump({"Replace":rep},open(ov,"w")); out=os.path.join(d,"t.test")
        env=dict(os.environ,GOFLAGS="-mod=mod",GOPROXY="off",GOSUMDB="off",GOTOOLCHAIN="local")
        p=subprocess.run(["go","test","-tags","verif","-overlay",ov,"-vet=off","-c","-o",out,"./server/"],cwd=REPO,env=env,stdout=subprocess.PIPE,stderr=subprocess.STDOUT,text=True)
        if p.returncode!=0:
            print("MUT %s: BUILD FAILED\n%s"%(name,p.stdout[-1500:])); return
        scratch=os.path.join(d,"scratch"); os.makedirs(scratch)
        env.update({"VERIF_TIER":os.environ.get("VERIF_TIER","quick"),"VERIF_DIR":VERIF,"VERIF_SCRATCH":scratch,"VERIF_EVIDENCE":os.path.join(d,"ev.json"),"VERIF_REPLAYS":os.path.join(d,"replays"),"VERIF_SEED":os.environ.get("VERIF_SEED","1")})
        t0=time.time()
        r=subprocess.run([out,"-test.run","^TestVerif_C11Cluster$","-test.timeout","0"],cwd=scratch,env=env,stdout=subprocess.PIPE,stderr=subprocess.STDOUT,text=True,timeout=1800)
        lines=r.stdout.splitlines()
        print("MUT %-40s %s %.0fs"%(name,([l for l in lines if l.startswith("SUMMARY")] or ["(no summary)"])[0][:150],time.time()-t0))
        for l in [l for l in lines if l.startswith(("NOTE: violation class","INCONCLUSIVE: property=C11 clause","HARNESS-ERROR"))][:6]: print("      "+l[:220])
        if os.environ.get("SHOW"):
            for l in [l for l in lines if l.startswith("VIOLATION")][:3]: print("      "+l[:700])
    finally:
        shutil.rmtree(d,ignore_errors=True)
sel=sys.argv[1] if len(sys.argv)>1 else ""
if sel=="none":
    run("unchanged-tree",{})
else:
    for name,rel,old,new in MUT:
        if sel not in name: continue
        src=open(os.path.join(REPO,rel)).read()
        if src.count(old)!=1:
            print("MUT %s: pattern occurs %d times"%(name,src.count(old))); continue
        d=tempfile.mkdtemp(prefix="vfmutsrc-"); f=os.path.join(d,os.path.basename(rel)); open(f,"w").write(src.replace(old,new))
        try: run(name,{os.path.join(REPO,rel):f})
        finally: shutil.rmtree(d,ignore_errors=True)
