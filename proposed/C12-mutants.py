#!/usr/bin/env python3
"""Seeded mutants for the C12 check (self-validation; /repo is never touched).

The unchanged tree already violates C12 (see the C12-*.md files next to this
script), so the mutants are seeded on top of the repaired source: if
C12-election-safety-all.diff still applies to /repo/server/arbiter.go it is
applied to a scratch copy first (if the fixes have been committed meanwhile the
repository file is used as it is).  Each mutant is run through the driver's
overlay mechanism (VERIF_MUTANT_OVERLAY), exactly like tools/mut.py does.

usage: C12-mutants.py [name ...]        (default: all)      env: VERIF_SCALE, VERIF_SEED
"""
import json, os, subprocess, sys, tempfile, shutil

HERE = os.path.dirname(os.path.abspath(__file__))
SRC = "/repo/server/arbiter.go"

MUTANTS = [
 # name, old, new  (old must occur exactly once in the repaired source)
 ("accept-equal-proposal-id", "if self.voter.proposalId >= request.ProposalId || self.voter.proposalHost != \"\" {", "if self.voter.proposalId > request.ProposalId || self.voter.proposalHost != \"\" {"),
 ("accept-lower-proposal-id", "if self.voter.proposalId >= request.ProposalId || self.voter.proposalHost != \"\" {", "if self.voter.proposalHost != \"\" {"),
 ("accept-proposal-despite-pending-commit", "if self.voter.proposalId >= request.ProposalId || self.voter.proposalHost != \"\" {", "if self.voter.proposalId >= request.ProposalId {"),
 ("skip-newer-log-refusal-handler", "self.ownMember.arbiter == 0 && self.CompareAofId(self.GetCurrentAofID(), self.DecodeAofId(request.AofId)) > 0 {", "self.ownMember.arbiter == 0 && self.CompareAofId(self.GetCurrentAofID(), self.DecodeAofId(request.AofId)) > 1 {"),
 ("skip-newer-log-refusal-self", "self.manager.ownMember.arbiter == 0 && self.manager.CompareAofId(self.manager.GetCurrentAofID(), aofId) > 0 {", "self.manager.ownMember.arbiter == 0 && self.manager.CompareAofId(self.manager.GetCurrentAofID(), aofId) > 1 {"),
 ("commit-majority-half", "	if len(responses) < len(self.manager.members)/2+1 {\n		self.glock.Lock()\n		if self.proposalFromHost", "	if len(responses) < len(self.manager.members)/2 {\n		self.glock.Lock()\n		if self.proposalFromHost"),
 ("proposal-majority-half", "	if len(responses) < len(self.manager.members)/2+1 {\n		self.manager.slock.Log().Errorf(\"Arbier voter do proposal fail\")", "	if len(responses) < len(self.manager.members)/2 {\n		self.manager.slock.Log().Errorf(\"Arbier voter do proposal fail\")"),
 ("select-weight-zero", "if voteResponse.Arbiter != 0 || voteResponse.Weight == 0 {", "if voteResponse.Arbiter != 0 {"),
 ("select-arbiter", "if voteResponse.Arbiter != 0 || voteResponse.Weight == 0 {", "if voteResponse.Weight == 0 {"),
 ("weight-tie-reversed", "if selectVoteResponse.Weight < voteResponse.Weight {", "if selectVoteResponse.Weight > voteResponse.Weight {"),
 ("no-wrap-around", "		if aid-bid >= 0x7fffffff00000000 {\n			return -1\n		}", "		if aid-bid >= 0xffffffffffffffff {\n			return -1\n		}"),
 ("commit-any-proposal-id", "	if self.voter.proposalId != request.ProposalId {\n		return protocol.NewCallResultCommand(command, 0, \"ERR_PROPOSALID\", nil), nil", "	if self.voter.proposalId > request.ProposalId+1000000 {\n		return protocol.NewCallResultCommand(command, 0, \"ERR_PROPOSALID\", nil), nil"),
 ("accepted-commit-not-saved", "	self.voter.commitId = request.ProposalId\n	_ = self.store.Save(self)\n", "	self.voter.commitId = request.ProposalId\n"),
 ("pending-host-not-restored", "		if rplm.Role&ARBITER_META_ROLE_PROPOSAL_HOST != 0 {\n			manager.voter.proposalHost = rplm.Host\n		}", "		if rplm.Role&ARBITER_META_ROLE_PROPOSAL_HOST != 0 {\n			manager.voter.proposalHost = \"\"\n		}"),
 ("self-commit-leaves-no-pending-host", "	self.manager.voter.proposalHost = host\n	self.manager.voter.proposalFromHost = self.host\n	self.manager.voter.commitId = proposalId\n", "	self.manager.voter.proposalFromHost = self.host\n	self.manager.voter.commitId = proposalId\n"),
 ("self-proposal-accepts-equal-id", "	if self.manager.voter.proposalId >= proposalId || self.manager.voter.proposalHost != \"\" {", "	if self.manager.voter.proposalId > proposalId || self.manager.voter.proposalHost != \"\" {"),
 ("commit-lowers-commit-id", "	if self.voter.commitId >= request.ProposalId {\n		response := protobuf.ArbiterCommitResponse{ErrMessage: \"\", CommitId: self.voter.commitId}", "	if false {\n		response := protobuf.ArbiterCommitResponse{ErrMessage: \"\", CommitId: self.voter.commitId}"),
]

def main():
    want = sys.argv[1:]
    d = tempfile.mkdtemp(prefix="vfmut-c12-")
    try:
        os.makedirs(os.path.join(d, "server"))
        base = os.path.join(d, "server", "arbiter.go")
        shutil.copy(SRC, base)
        p = subprocess.run(["patch", "-s", "-p1", "-d", d, "-i", os.path.join(HERE, "C12-election-safety-all.diff")], stdout=subprocess.PIPE, stderr=subprocess.STDOUT, text=True)
        repaired = p.returncode == 0
        if not repaired:
            shutil.copy(SRC, base)
        print("base: %s" % ("repository source + C12-election-safety-all.diff" if repaired else "repository source as it is (fix diff does not apply any more)"))
        src = open(base).read()
        def run(name, text):
            f = os.path.join(d, name + ".go")
            open(f, "w").write(text)
            ov = os.path.join(d, name + ".json")
            json.dump({"Replace": {SRC: f}}, open(ov, "w"))
            r = subprocess.run(["/verif/check", "C12"], env=dict(os.environ, VERIF_MUTANT_OVERLAY=ov), stdout=subprocess.PIPE, stderr=subprocess.STDOUT, text=True)
            classes = sorted(set(l.split('"')[1] for l in r.stdout.splitlines() if l.startswith("NOTE: violation class")))
            summ = [l for l in r.stdout.splitlines() if l.startswith("SUMMARY")][:1]
            print("MUT %-40s exit=%d %s classes=%s" % (name, r.returncode, "CAUGHT" if r.returncode == 1 else ("missed" if r.returncode == 0 else "inconclusive"), classes))
            if r.returncode == 2:
                print(r.stdout[-1500:])
            sys.stdout.flush()
        if not want or "baseline" in want:
            run("baseline", src)
        for name, old, new in MUTANTS:
            if want and name not in want:
                continue
            if src.count(old) != 1:
                print("MUT %-40s pattern occurs %d times - skipped" % (name, src.count(old)))
                continue
            run(name, src.replace(old, new))
    finally:
        shutil.rmtree(d, ignore_errors=True)

main()
