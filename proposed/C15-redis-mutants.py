#!/usr/bin/env python3
"""C15 Redis stage self-validation: seeded mutants of the text command handlers, same mechanism as
tools/mut.py (go -overlay, /repo untouched). The unchanged tree already makes the stage report its
documented findings, so the mutants are applied ON TOP of the proposed fixes (C15-redis-all.diff)
unless those are already in /repo; the one finding without a patch (INCR:non-numeric-stored-value)
is treated as an open known finding through a temporary known_findings.json.
The stage is run stand-alone (TestVerif_C15Redis), so this works before and after it is wired into
TestVerif_C15.   usage: C15-redis-mutants.py [--unpatched] [name-substring ...]    env VERIF_SEED (1), VERIF_SCALE (30)
"""
import glob, json, os, re, shutil, subprocess, sys, tempfile

REPO, VERIF = "/repo", "/verif"
BASE = os.path.join(VERIF, "proposed", "C15-redis-all.diff")
SIGS = ["INCR:non-numeric-stored-value", "INCR:decimal-string-stored-value", "APPEND:numeric-stored-value", "EXPIRE:missing-key-answers-1",
        "PERSIST:key-only-form-rejected", "released-key:value-survives", "DEL:several-keys-only-first", "GET:empty-value-answers-nil",
        "SET-PX:expiry-above-3000ms-read-as-seconds"]
T = "protocol/textcommand.go"
M = [
 ("M01-setnx-overwrites", T, "	lockCommand.LockId = GenLockId()\n	lockCommand.Flag = LOCK_FLAG_CONTAINS_DATA\n	lockCommand.Data = NewLockCommandDataSetStringWithProperty(args[2]",
  "	lockCommand.LockId = lockCommand.LockKey\n	lockCommand.Flag = LOCK_FLAG_CONTAINS_DATA | LOCK_FLAG_UPDATE_WHEN_LOCKED\n	lockCommand.Data = NewLockCommandDataSetStringWithProperty(args[2]"),
 ("M02-update-reply-carries-new-value", "server/db.go",
  "					currentLock.ClearLockCommandDatas()\n					lockManager.ProcessLockData(command, currentLock, false)\n",
  "					currentLock.ClearLockCommandDatas()\n					lockManager.ProcessLockData(command, currentLock, false)\n					lockData = lockManager.GetLockData()\n"),
 ("M03-incrby-ignores-sign", T, "		incrValue = v\n		index++", "		if v < 0 {\n			v = -v\n		}\n		incrValue = v\n		index++"),
 ("M04-append-empty-payload-skipped", "server/lock.go", "	case protocol.LOCK_DATA_COMMAND_TYPE_APPEND:\n		if self.currentData == nil || self.currentData.GetData() == nil {",
  "	case protocol.LOCK_DATA_COMMAND_TYPE_APPEND:\n		if lockCommandData.GetValueSize() == 0 {\n			command.Data = nil\n			return\n		}\n		if self.currentData == nil || self.currentData.GetData() == nil {"),
 ("M05-del-answers-0", T, "	if lockCommandResult.Result != 0 {\n		return stream.WriteBytes([]byte(\":0\\r\\n\"))\n	}\n	return stream.WriteBytes([]byte(\":1\\r\\n\"))\n}\n\nfunc (self *TextCommandConverter) ConvertTextSetCommand",
  "	return stream.WriteBytes([]byte(\":0\\r\\n\"))\n}\n\nfunc (self *TextCommandConverter) ConvertTextSetCommand"),
 ("M06-expire-never-expires", T, "	lockCommand.ExpriedFlag |= EXPRIED_FLAG_ZEOR_AOF_TIME | EXPRIED_FLAG_UPDATE_NO_RESET_EXPRIED_CHECKED_COUNT\n	return lockCommand, self.WriteTextExpireCommandResult, nil",
  "	lockCommand.ExpriedFlag |= EXPRIED_FLAG_ZEOR_AOF_TIME | EXPRIED_FLAG_UPDATE_NO_RESET_EXPRIED_CHECKED_COUNT | EXPRIED_FLAG_UNLIMITED_EXPRIED_TIME\n	return lockCommand, self.WriteTextExpireCommandResult, nil"),
 ("M07-strlen-counts-frame-header", T, "	value := lockResultCommandData.GetStringValue()\n	return stream.WriteBytes([]byte(fmt.Sprintf(\":%d\\r\\n\", len(value))))\n}",
  "	return stream.WriteBytes([]byte(fmt.Sprintf(\":%d\\r\\n\", len(lockResultCommandData.Data))))\n}"),
 ("M08-strlen-of-counter-is-8", T, "		return stream.WriteBytes([]byte(fmt.Sprintf(\":%d\\r\\n\", len(fmt.Sprintf(\"%d\", lockResultCommandData.GetIncrValue())))))",
  "		return stream.WriteBytes([]byte(fmt.Sprintf(\":%d\\r\\n\", lockResultCommandData.GetValueSize())))"),
 ("M09-decrby-not-negated", T, "		incrValue = -v\n		index++", "		incrValue = v\n		index++"),
 ("M10-set-xx-ignored", T, "		case \"XX\":\n			lockCommand.TimeoutFlag |= TIMEOUT_FLAG_LOCK_WAIT_WHEN_UNLOCK", "		case \"XX\":"),
 ("M11-set-nx-ignored", T, "		case \"NX\":\n			lockCommand.Flag = LOCK_FLAG_CONTAINS_DATA\n			lockCommand.LockId = GenLockId()", "		case \"NX\":"),
 ("M12-ex-three-seconds-late", T, "			} else {\n				lockCommand.Expried = uint16(expried)\n			}\n			i++\n		case \"PX\":",
  "			} else {\n				lockCommand.Expried = uint16(expried) + 3\n			}\n			i++\n		case \"PX\":"),
 ("M13-ex-two-seconds-early", T, "			} else {\n				lockCommand.Expried = uint16(expried)\n			}\n			i++\n		case \"PX\":",
  "			} else {\n				lockCommand.Expried = uint16(expried) - 2\n			}\n			i++\n		case \"PX\":"),
 ("M14-getset-does-not-store", T, "	lockCommand, _, err := self.ConvertTextSetCommand(textProtocol, args)\n	if err != nil {\n		return nil, nil, err\n	}\n	return lockCommand, self.WriteTextGetCommandResult, nil",
  "	lockCommand, _, err := self.ConvertTextSetCommand(textProtocol, args)\n	if err != nil {\n		return nil, nil, err\n	}\n	lockCommand.Data = nil\n	lockCommand.Flag &^= LOCK_FLAG_CONTAINS_DATA\n	return lockCommand, self.WriteTextGetCommandResult, nil"),
 ("M15-incr-reply-is-value-before", T, "VALUE+incrValue)))\n	}, nil\n}\n\nfunc (self *TextCommandConverter) ConvertTextDecrCommand",
  "VALUE)))\n	}, nil\n}\n\nfunc (self *TextCommandConverter) ConvertTextDecrCommand"),
 ("M16-append-reply-ignores-stored-length", T, "		return stream.WriteBytes([]byte(fmt.Sprintf(\":%d\\r\\n\", lockCommandResult.Data.GetValueSize()+len(args[2]))))",
  "		return stream.WriteBytes([]byte(fmt.Sprintf(\":%d\\r\\n\", len(args[2]))))"),
 ("M17-set-keeps-old-expiry", T, "	if lockCommand.Expried == 0 && lockCommand.ExpriedFlag == 0 {\n		lockCommand.Expried = 0x7fff\n		lockCommand.ExpriedFlag = EXPRIED_FLAG_UNLIMITED_EXPRIED_TIME",
  "	if lockCommand.Expried == 0 && lockCommand.ExpriedFlag == 0 {\n		lockCommand.Expried = 0xffff\n		lockCommand.ExpriedFlag = EXPRIED_FLAG_UNLIMITED_EXPRIED_TIME"),
 ("M18-exists-inverted", T, "func (self *TextCommandConverter) WriteTextExistsCommandResult(_ ITextProtocol, stream ISteam, lockCommandResult *LockResultCommand) error {\n	if lockCommandResult.Result != RESULT_UNOWN_ERROR || lockCommandResult.Data == nil {",
  "func (self *TextCommandConverter) WriteTextExistsCommandResult(_ ITextProtocol, stream ISteam, lockCommandResult *LockResultCommand) error {\n	if lockCommandResult.Result == RESULT_UNOWN_ERROR && lockCommandResult.Data != nil {"),
 ("M19-append-off-by-one-copy", "server/lock.go", "			copy(data[len(self.currentData.data):], lockCommandData.GetBytesValue())\n			self.currentData = NewLockManagerData(data, protocol.LOCK_DATA_COMMAND_TYPE_APPEND",
  "			copy(data[len(self.currentData.data)-1:], lockCommandData.GetBytesValue())\n			self.currentData = NewLockManagerData(data, protocol.LOCK_DATA_COMMAND_TYPE_APPEND"),
 ("M20-read-handler-answers-for-a-released-key", "server/protocol.go", "			currentLock := lockManager.currentLock\n			if currentLock != nil {\n				count, rcount, result, lcount, lrcount, data = currentLock.command.Count",
  "			currentLock := lockManager.currentLock\n			if currentLock == nil && lockManager.currentData != nil {\n				result, data = protocol.RESULT_UNOWN_ERROR, lockManager.GetLockData()\n			}\n			if currentLock != nil {\n				count, rcount, result, lcount, lrcount, data = currentLock.command.Count"),
 ("M21-setnx-answers-1-when-refused", T, "		if lockCommandResult.Result == RESULT_TIMEOUT {\n			return stream.WriteBytes([]byte(\":0\\r\\n\"))\n		}\n		return stream.WriteBytes([]byte(fmt.Sprintf(\"-ERR %d\\r\\n\", lockCommandResult.Result)))\n	}\n	return stream.WriteBytes([]byte(\":1\\r\\n\"))\n}\n\nfunc (self *TextCommandConverter) ConvertTextSetEXCommand",
  "		if lockCommandResult.Result == RESULT_TIMEOUT {\n			return stream.WriteBytes([]byte(\":1\\r\\n\"))\n		}\n		return stream.WriteBytes([]byte(fmt.Sprintf(\"-ERR %d\\r\\n\", lockCommandResult.Result)))\n	}\n	return stream.WriteBytes([]byte(\":1\\r\\n\"))\n}\n\nfunc (self *TextCommandConverter) ConvertTextSetEXCommand"),
 ("M22-persist-keeps-the-deadline", T, "	case \"PERSIST\":\n		lockCommand.Expried = 0x7fff", "	case \"PERSIST\":\n		lockCommand.Expried = 0xffff"),
 ("M23-del-only-releases-own-lockid", T, "	lockCommand.Flag = UNLOCK_FLAG_UNLOCK_FIRST_LOCK_WHEN_UNLOCKED\n", "	lockCommand.Flag = 0\n"),
 ("M24-ex-one-second-late (inside the C06 window; only TTL sees it)", T, "			} else {\n				lockCommand.Expried = uint16(expried)\n			}\n			i++\n		case \"PX\":",
  "			} else {\n				lockCommand.Expried = uint16(expried) + 1\n			}\n			i++\n		case \"PX\":"),
]

def goenv():
    return dict(os.environ, GOFLAGS="-mod=mod", GOPROXY="off", GOSUMDB="off", GOTOOLCHAIN="local")

def base_files(work, unpatched):
    """{repo path: patched copy} with the proposed fixes, or {} when they are already applied / not wanted"""
    if unpatched:
        return {}
    if subprocess.run(["git", "-C", REPO, "apply", "--check", BASE], capture_output=True).returncode != 0:
        print("note: %s does not apply to /repo (already applied, or partly): mutating /repo as it is" % os.path.basename(BASE))
        return {}
    tree = os.path.join(work, "base")
    rels = re.findall(r"^\+\+\+ b/(\S+)", open(BASE).read(), re.M)
    for rel in rels:
        os.makedirs(os.path.dirname(os.path.join(tree, rel)), exist_ok=True)
        shutil.copy(os.path.join(REPO, rel), os.path.join(tree, rel))
    subprocess.run(["patch", "-s", "-p1", "-d", tree, "-i", BASE], check=True)
    return {os.path.join(REPO, rel): os.path.join(tree, rel) for rel in rels}

def build(work, repl, out):
    rep = {}
    for f in sorted(glob.glob(os.path.join(VERIF, "harness", "server", "*.go"))):
        b = os.path.basename(f)
        m = re.match(r"vfc(\d\d)", b)
        if m and m.group(1) != "15":
            continue
        rep[os.path.join(REPO, "server", "zz_verif_" + b)] = f
    rep.update(repl)
    ov = out + ".overlay.json"
    json.dump({"Replace": rep}, open(ov, "w"))
    p = subprocess.run(["go", "test", "-tags", "verif", "-overlay", ov, "-vet=off", "-c", "-o", out, "./server/"], cwd=REPO, env=goenv(), stdout=subprocess.PIPE, stderr=subprocess.STDOUT, text=True)
    return p.returncode == 0, p.stdout

def run(work, binary):
    scratch = tempfile.mkdtemp(prefix="run-", dir=work)
    vd = os.path.join(work, "verifdir")
    env = dict(goenv(), VERIF_TIER="quick", VERIF_DIR=vd, VERIF_SCRATCH=scratch, VERIF_SEED=os.environ.get("VERIF_SEED", "1"), VERIF_SCALE=os.environ.get("VERIF_SCALE", "30"),
               VERIF_EVIDENCE=os.path.join(scratch, "evidence.json"), VERIF_REPLAYS=os.path.join(scratch, "replays"))
    p = subprocess.run([binary, "-test.run", "^TestVerif_C15Redis$", "-test.timeout", "0"], cwd=scratch, env=env, stdout=subprocess.PIPE, stderr=subprocess.STDOUT, text=True)
    shutil.rmtree(scratch, ignore_errors=True)
    return p.stdout

def main():
    args = sys.argv[1:]
    unpatched = "--unpatched" in args
    only = [a for a in args if not a.startswith("--")]
    work = tempfile.mkdtemp(prefix="c15redis-mut-", dir=os.environ.get("VERIF_SCRATCH") or None)
    try:
        known = json.load(open(os.path.join(VERIF, "known_findings.json")))
        have = {(f["property"], f["signature"]) for f in known["findings"]}
        for s in (SIGS if unpatched else SIGS[:1]):
            if ("C15", s) not in have:
                known["findings"].append({"property": "C15", "signature": s, "what": "(C15 Redis stage finding, see /verif/proposed/C15-redis-*.md)", "status": "open"})
        os.makedirs(os.path.join(work, "verifdir"))
        json.dump(known, open(os.path.join(work, "verifdir", "known_findings.json"), "w"))
        base = base_files(work, unpatched)
        ok, out = build(work, base, os.path.join(work, "base.test"))
        if not ok:
            print("base build failed:\n" + out[-2000:]); return 2
        o = run(work, os.path.join(work, "base.test"))
        print("BASE  %s" % " | ".join(l for l in o.splitlines() if l.startswith(("SUMMARY", "NOTE: violation"))))
        for name, rel, old, new in M:
            if only and not any(x in name for x in only):
                continue
            path = os.path.join(REPO, rel)
            src = open(base.get(path, path)).read()
            if "VALUE" in old:  # the reply expression differs with / without the proposed fix
                expr = "lockCommandResult.Data.GetNumberValue()" if "GetNumberValue()+incrValue" in src else "lockCommandResult.Data.GetIncrValue()"
                pre = "		return stream.WriteBytes([]byte(fmt.Sprintf(\":%d\\r\\n\", "
                old, new = pre + old.replace("VALUE", expr), pre + new.replace("VALUE", expr)
            if src.count(old) != 1:
                print("MUT %-46s pattern occurs %d times - skipped" % (name, src.count(old))); continue
            f = os.path.join(work, "mut-" + os.path.basename(rel))
            open(f, "w").write(src.replace(old, new))
            repl = dict(base); repl[path] = f
            ok, out = build(work, repl, os.path.join(work, "mut.test"))
            if not ok:
                print("MUT %-46s BUILD FAILED\n%s" % (name, out[-600:])); continue
            o = run(work, os.path.join(work, "mut.test"))
            classes = re.findall(r'NOTE: violation class "([^"]+)" x(\d+)', o)
            verdict = "CAUGHT" if classes else "MISSED"
            if "HARNESS-ERROR" in o:
                verdict += " (harness error!)"
            print("MUT %-46s %-7s %s" % (name, verdict, ", ".join("%s x%s" % c for c in classes[:5])))
            sys.stdout.flush()
    finally:
        shutil.rmtree(work, ignore_errors=True)
    return 0

sys.exit(main())
