#!/usr/bin/env python3
"""C19 self-validation: seeded mutants, same mechanism as tools/mut.py (go -overlay,
/repo untouched), but applied ON TOP of the proposed C19 fixes
(C19-lock-manager-published-before-refcount.diff + C19-wait-when-unlock-wakeup.diff),
because the unchanged tree already makes the check fire and would mask the mutant.
When the fixes have been committed to /repo the base patches are detected as
applied and skipped.

usage: C19-mutants.py [name ...]      (default: all)   env VERIF_SEED, VERIF_SCALE honoured
"""
import json, os, subprocess, sys, tempfile, shutil

REPO = "/repo"
BASE = ["/verif/proposed/C19-lock-manager-published-before-refcount.diff", "/verif/proposed/C19-wait-when-unlock-wakeup.diff"]

# (name, file, old, new, expected violation class)
MUTANTS = [
 ("sem-sends-n", "client/semaphore.go",
  "	if count > 0 {\n		count = count - 1\n	}\n	return &Semaphore{", "	return &Semaphore{", "sem-over-capacity"),
 ("flow-sends-n", "client/flow.go",
  "func NewMaxConcurrentFlow(db *Database, flowKey [16]byte, count uint16, timeout uint32, expried uint32) *MaxConcurrentFlow {\n	if count > 0 {\n		count -= 1\n	}",
  "func NewMaxConcurrentFlow(db *Database, flowKey [16]byte, count uint16, timeout uint32, expried uint32) *MaxConcurrentFlow {", "flow-over-capacity"),
 ("rwlock-writer-shared", "client/rwlock.go",
  "func (self *RWLock) Lock() (*protocol.LockResultCommand, error) {\n	self.glock.Lock()\n	if self.wlock == nil {\n		self.wlock = &Lock{self.db, self.db.GenLockId(), self.lockKey, self.timeout, self.expried, 0, 0}",
  "func (self *RWLock) Lock() (*protocol.LockResultCommand, error) {\n	self.glock.Lock()\n	if self.wlock == nil {\n		self.wlock = &Lock{self.db, self.db.GenLockId(), self.lockKey, self.timeout, self.expried, 0xffff, 0}", "rwlock-writer-not-alone"),
 ("rlock-not-reentrant", "client/rlock.go",
  "lockKey, timeout, expried, 0, 0xff}", "lockKey, timeout, expried, 0, 0}", "rlock-reentrant-refused"),
 ("rlock-unlock-releases-all-depths", "server/db.go",
  "		if command.Rcount > 0 && command.TimeoutFlag&protocol.TIMEOUT_FLAG_RCOUNT_IS_PRIORITY == 0 {\n			currentLock.locked--",
  "		if command.Rcount == 0 && command.TimeoutFlag&protocol.TIMEOUT_FLAG_RCOUNT_IS_PRIORITY == 0 {\n			currentLock.locked--", "rlock-not-exclusive"),
 ("rlock-relock-counts-twice", "server/db.go",
  "				lockManager.locked++\n				currentLock.locked++\n				currentLockCommand := currentLock.command",
  "				lockManager.locked += 2\n				currentLock.locked += 2\n				currentLockCommand := currentLock.command", "rlock-unlock-count"),
 ("prio-client-drops-priority-flag", "client/prioritylock.go",
  "func (self *PriorityLock) Lock() (*protocol.LockResultCommand, error) {\n	self.lock = &Lock{self.db, self.db.GenLockId(), self.lockKey, self.timeout | uint32(protocol.TIMEOUT_FLAG_RCOUNT_IS_PRIORITY)<<16,",
  "func (self *PriorityLock) Lock() (*protocol.LockResultCommand, error) {\n	self.lock = &Lock{self.db, self.db.GenLockId(), self.lockKey, self.timeout,", "prio-handover-not-highest"),
 ("prio-server-queue-order-reversed", "server/lock.go",
  "			if node.priority > priorityNode.priority {", "			if node.priority < priorityNode.priority {", "prio-handover-not-highest"),
 ("prio-server-never-switches-to-priority-queue", "server/lock.go",
  "if self.waitLocks.Head() != nil && lockPriority != self.waitLocks.MaxPriority() {", "if self.waitLocks.Head() == nil && lockPriority != self.waitLocks.MaxPriority() {", "prio-handover-not-highest"),
 ("event-wait-timeout-is-success", "client/event.go",
  "	self.waitLock = &Lock{self.db, self.db.GenLockId(), self.eventKey, timeout | 0x02000000, 0, 1, 0}\n	result, err := self.waitLock.Lock()\n	if err == nil {\n		return result, nil\n	}\n	if result != nil && result.Result == protocol.RESULT_TIMEOUT {\n		return result, WaitTimeout",
  "	self.waitLock = &Lock{self.db, self.db.GenLockId(), self.eventKey, timeout | 0x02000000, 0, 1, 0}\n	result, err := self.waitLock.Lock()\n	if err == nil {\n		return result, nil\n	}\n	if result != nil && result.Result == protocol.RESULT_TIMEOUT {\n		return result, nil", "event-wait-before-set"),
 ("event-default-set-wait-timeout-is-success", "client/event.go",
  "func (self *Event) Wait(timeout uint32) (*protocol.LockResultCommand, error) {\n	if self.setedMode == EVENT_MODE_DEFAULT_SET {\n		self.waitLock = &Lock{self.db, self.db.GenLockId(), self.eventKey, timeout, 0, 0, 0}\n		result, err := self.waitLock.Lock()\n		if err == nil {\n			return result, nil\n		}\n		if result != nil && result.Result == protocol.RESULT_TIMEOUT {\n			return result, WaitTimeout",
  "func (self *Event) Wait(timeout uint32) (*protocol.LockResultCommand, error) {\n	if self.setedMode == EVENT_MODE_DEFAULT_SET {\n		self.waitLock = &Lock{self.db, self.db.GenLockId(), self.eventKey, timeout, 0, 0, 0}\n		result, err := self.waitLock.Lock()\n		if err == nil {\n			return result, nil\n		}\n		if result != nil && result.Result == protocol.RESULT_TIMEOUT {\n			return result, nil", "event-wait-before-set"),
 ("server-admits-one-more", "server/db.go",
  "	if lockManager.locked <= uint32(lockManager.currentLock.command.Count) {\n		if lockManager.locked <= uint32(lock.command.Count) {",
  "	if lockManager.locked <= uint32(lockManager.currentLock.command.Count)+1 {\n		if lockManager.locked <= uint32(lock.command.Count)+1 {", "sem/flow-over-capacity"),
 ("wakeup-skips-admission-check", "server/db.go",
  "			if !self.doLock(lockManager, waitLock) {\n				lockManager.glock.Unlock()\n				return\n			}\n\n			self.wakeUpWaitLock(",
  "			if false {\n				lockManager.glock.Unlock()\n				return\n			}\n\n			self.wakeUpWaitLock(", "*-not-exclusive"),
 ("client-misroutes-late-reply", "client/slock.go",
  "		request <- command\n		return nil\n	}\n	self.requestLock.Unlock()\n	return nil",
  "		request <- command\n		return nil\n	}\n	for id, request := range self.requests { // a reply nobody waits for answers whoever waits\n		delete(self.requests, id)\n		self.requestLock.Unlock()\n		request <- command\n		return nil\n	}\n	self.requestLock.Unlock()\n	return nil", "(reconnect) any"),
 ("reverted-fix-event (the unchanged tree's own defect)", "server/db.go", None, None, "event-wait-before-set"),
]

def patched_base(d):
    """apply the proposed fixes to copies of the files they touch; returns {repo file: patched copy}"""
    rep = {}
    work = os.path.join(d, "base")
    os.makedirs(os.path.join(work, "server"))
    shutil.copy(os.path.join(REPO, "server/db.go"), os.path.join(work, "server/db.go"))
    for diff in BASE:
        r = subprocess.run(["patch", "-p1", "-s", "-N", "-r", "-", "-i", diff], cwd=work, stdout=subprocess.PIPE, stderr=subprocess.STDOUT, text=True)
        if r.returncode != 0:
            print("base patch %s not applied (already in /repo?): %s" % (os.path.basename(diff), r.stdout.strip()[:120]))
    rep[os.path.join(REPO, "server/db.go")] = os.path.join(work, "server/db.go")
    return rep

def main():
    want = sys.argv[1:]
    d = tempfile.mkdtemp(prefix="vfmut-c19-", dir="/verif/.build")
    try:
        base = patched_base(d)
        for name, rel, old, new, expect in MUTANTS:
            if want and not any(w in name for w in want):
                continue
            rep = dict(base)
            target = os.path.join(REPO, rel)
            if old is None:
                rep = {}  # the unchanged tree
            else:
                src = open(rep.get(target, target)).read()
                if src.count(old) != 1:
                    print("MUT %-45s pattern occurs %d times" % (name, src.count(old)))
                    continue
                f = os.path.join(d, name.split()[0] + "-" + os.path.basename(rel))
                open(f, "w").write(src.replace(old, new))
                rep[target] = f
            ov = os.path.join(d, "ov.json")
            json.dump({"Replace": rep}, open(ov, "w"))
            env = dict(os.environ, VERIF_MUTANT_OVERLAY=ov)
            r = subprocess.run(["/verif/check", "C19"], env=env, stdout=subprocess.PIPE, stderr=subprocess.STDOUT, text=True)
            classes = [l.split('"')[1] for l in r.stdout.splitlines() if l.startswith("NOTE: violation class")]
            summ = [l for l in r.stdout.splitlines() if l.startswith("SUMMARY")][:1]
            unex = [l.split("clause=")[1].split()[0] for l in r.stdout.splitlines() if l.startswith("INCONCLUSIVE:") and "clause=" in l]
            verdict = {0: "MISSED", 1: "CAUGHT", 2: "INCONCLUSIVE"}.get(r.returncode, "?")
            print("MUT %-45s %-12s expected=%s classes=%s unexercised=%s | %s" % (name, verdict, expect, sorted(set(classes)), unex, (summ or [""])[0][17:120]))
            if r.returncode == 2:
                print(r.stdout[-1200:])
            sys.stdout.flush()
    finally:
        shutil.rmtree(d, ignore_errors=True)

if __name__ == "__main__":
    main()
