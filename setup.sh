#!/bin/sh
# Builds what the checks need from files on disk only (offline). Each check
# rebuilds the harness against /repo's current working tree anyway; this only
# warms the Go build cache and creates the output directories.
set -e
cd "$(dirname "$0")"
mkdir -p .build evidence replays
./check --build-only
