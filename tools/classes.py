#!/usr/bin/env python3
"""Aggregate finding classes over the replays of a property."""
import json,glob,sys,collections
prop=sys.argv[1]
c=collections.Counter(); ex={}
for f in sorted(glob.glob('/verif/replays/%s/case*.json'%prop)):
    d=json.load(open(f))
    first=True
    for x in d.get('findings',[]):
        k=x.split(':')[0]
        c[k]+=1
        if k not in ex: ex[k]=(f.split('/')[-1],x[:330], first)
        first=False
for k,v in c.most_common():
    print(v,k,'| first@',ex[k][0],'(first finding of its case)' if ex[k][2] else '', '\n     ',ex[k][1])
