#!/usr/bin/env python3
"""Pretty-print slock binary frames from hex (for reading C13 replays)."""
import sys, re, struct
def dec(b):
    out=[]; i=0
    while i+64<=len(b):
        f=b[i:i+64]
        if f[0]!=0x56 or f[1]!=1:
            out.append("  [not a frame at %d: %s]"%(i,b[i:i+40].hex())); break
        t=f[2]; flag=f[19]; db=f[20]
        lid=f[21:37]; key=f[37:53]
        to,tf,ex,ef=struct.unpack('<HHHH',f[53:61]); cnt=struct.unpack('<H',f[61:63])[0]; rc=f[63]
        names={0:'INIT',1:'LOCK',2:'UNLOCK',3:'STATE',4:'ADMIN',5:'PING',6:'QUIT',7:'CALL',8:'WILL_LOCK',9:'WILL_UNLOCK',10:'LEADER',11:'SUBSCRIBE'}
        s="  %s flag=%02x db=%d lid=..%s key=..%s timeout=%d/%04x expried=%d/%04x count=%d rcount=%d"%(names.get(t,t),flag,db,lid[-3:].hex(),key[-3:].hex(),to,tf,ex,ef,cnt,rc)
        i+=64
        if t in (1,2,8,9) and flag&0x20:
            if i+4<=len(b):
                n=struct.unpack('<I',b[i:i+4])[0]
                d=b[i:i+4+n]
                s+=" DATA[len=%d type=%s stage=%s dflag=%02x body=%s]"%(n, d[4]&0x3f if len(d)>4 else '?', d[4]>>6 if len(d)>4 else '?', d[5] if len(d)>5 else 0, d[6:46].hex())
                i+=4+n
        elif t==7:
            # call: name len etc. skip printing
            pass
        out.append(s)
    if i<len(b): out.append("  trailing %d bytes: %s"%(len(b)-i,b[i:i+60]))
    return out
for line in sys.stdin:
    m=re.match(r'NOTE: input (\d+) \((\S+)\) chunk (\d+): ([0-9a-f]*)',line)
    if m:
        b=bytes.fromhex(m.group(4)) if len(m.group(4))%2==0 else b''
        print("input",m.group(1),m.group(2),"chunk",m.group(3), len(b),"bytes")
        if m.group(2) in('binary-frames','mutated') and b[:1]==b'\x56':
            for l in dec(b): print(l)
        else:
            print("  ",b[:300])
    elif line.startswith('NOTE: minimal') or line.startswith('NOTE: crash') or line.startswith('NOTE: reproducing'):
        print(line.strip()[:1500])
